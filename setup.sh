#!/bin/bash
# offline build of the Coq development (full .vo build)
set -e
"$(dirname "$0")/tools/gen_coqproject.sh"
cd "$(dirname "$0")/coq"
coq_makefile -f _CoqProject -o Makefile
timeout 3000 make -j16
