From MrVerif Require Import Base.Prelude Base.Tensor Model.ZeroPad.
From Coq Require Import Permutation.

(* ---------- normalize_index ---------- *)
Lemma mod_small_eq i n : 0 <= i < n -> i = i mod n.
Proof. intros. symmetry. apply Z.mod_small. lia. Qed.
Lemma mod_neg_eq i n : - n <= i < 0 -> n + i = i mod n.
Proof. intros. apply Z.mod_unique with (q := -1); lia. Qed.

Lemma normalize_index_spec ndim i k : 0 < ndim ->
  normalize_index ndim i = Some k <-> (- ndim <= i < ndim /\ k = i mod ndim).
Proof.
  intros Hn. unfold normalize_index.
  destruct ((0 <=? i) && (i <? ndim)) eqn:E1; [|destruct ((- ndim <=? i) && (i <? 0)) eqn:E2].
  - split; [intros HH; injection HH as <-; split; [lia|apply mod_small_eq; lia]
           | intros [HH ->]; f_equal; apply mod_small_eq; lia].
  - split; [intros HH; injection HH as <-; split; [lia|apply mod_neg_eq; lia]
           | intros [HH ->]; f_equal; apply mod_neg_eq; lia].
  - split; [discriminate | intros [HH _]; exfalso; lia].
Qed.

Lemma normalize_index_none ndim i : 0 < ndim ->
  normalize_index ndim i = None <-> ~ (- ndim <= i < ndim).
Proof.
  intros Hn. unfold normalize_index.
  destruct ((0 <=? i) && (i <? ndim)) eqn:E1; [|destruct ((- ndim <=? i) && (i <? 0)) eqn:E2];
    (split; [intros HH; try discriminate; lia | intros HH; try reflexivity; exfalso; lia]).
Qed.

(* an axis may be named by its non-negative or its negative index, index 0 included *)
Lemma normalize_index_neg_equiv ndim i : 0 <= i < ndim ->
  normalize_index ndim (i - ndim) = normalize_index ndim i /\ normalize_index ndim i = Some i.
Proof.
  intros HH. unfold normalize_index.
  destruct ((0 <=? i) && (i <? ndim)) eqn:E1; [|exfalso; lia].
  destruct ((0 <=? i - ndim) && (i - ndim <? ndim)) eqn:E2; [exfalso; lia|].
  destruct ((- ndim <=? i - ndim) && (i - ndim <? 0)) eqn:E3; [|exfalso; lia].
  split; [f_equal; lia|reflexivity].
Qed.

Lemma normalize_index_idem ndim i k : normalize_index ndim i = Some k -> normalize_index ndim k = Some k.
Proof.
  unfold normalize_index.
  destruct ((0 <=? i) && (i <? ndim)) eqn:E1; [|destruct ((- ndim <=? i) && (i <? 0)) eqn:E2];
    intros HH; try discriminate; injection HH as <-.
  - rewrite E1. reflexivity.
  - destruct ((0 <=? ndim + i) && (ndim + i <? ndim)) eqn:E3; [reflexivity|exfalso; lia].
Qed.

(* ---------- centre and crop-after-pad ---------- *)
Section Pad1.
  Context {A : Type} (zero : A).

  (* the sample at the centre index old/2 is found at the centre index new/2 (pad), and vice versa (crop) *)
  Lemma pad1_centre old new (x : Z -> A) : 0 < old -> 0 < new ->
    pad1 zero old new x (new / 2) = x (old / 2).
  Proof.
    intros Ho Hn. unfold pad1, left_pad.
    replace (new / 2 - (new / 2 - old / 2)) with (old / 2) by lia.
    destruct (Z.leb_spec 0 (new / 2)); [|lia]. destruct (Z.ltb_spec (new / 2) new); [|lia].
    destruct (Z.leb_spec 0 (old / 2)); [|lia]. destruct (Z.ltb_spec (old / 2) old); [|lia]. reflexivity.
  Qed.

  (* full characterisation: centred embedding *)
  Lemma pad1_spec old new (x : Z -> A) j : 0 <= j < new ->
    pad1 zero old new x j =
      if (0 <=? j - (new / 2 - old / 2)) && (j - (new / 2 - old / 2) <? old) then x (j - (new / 2 - old / 2)) else zero.
  Proof.
    intros Hj. unfold pad1, left_pad.
    destruct (Z.leb_spec 0 j); [|lia]. destruct (Z.ltb_spec j new); [|lia]. reflexivity.
  Qed.

  Lemma pad1_outside old new (x : Z -> A) j : ~ (0 <= j < new) -> pad1 zero old new x j = zero.
  Proof.
    intros Hj. unfold pad1. destruct (Z.leb_spec 0 j), (Z.ltb_spec j new); cbn [andb]; try reflexivity. lia.
  Qed.

  Lemma crop_after_pad old new (x : Z -> A) j : 0 < old <= new -> 0 <= j < old ->
    pad1 zero new old (pad1 zero old new x) j = x j.
  Proof.
    intros Hon Hj. unfold pad1, left_pad.
    destruct (Z.leb_spec 0 j); [|lia]. destruct (Z.ltb_spec j old); [|lia]. cbn [andb].
    destruct (Z.leb_spec 0 (j - (old / 2 - new / 2))); [|lia].
    destruct (Z.ltb_spec (j - (old / 2 - new / 2)) new); [|lia]. cbn [andb].
    replace (j - (old / 2 - new / 2) - (new / 2 - old / 2)) with j by lia.
    destruct (Z.leb_spec 0 j); [|lia]. destruct (Z.ltb_spec j old); [|lia]. reflexivity.
  Qed.

  (* nothing is lost and nothing is invented: every padded position is either a copy or zero, and
     the same size is the identity *)
  Lemma pad1_same n (x : Z -> A) j : 0 <= j < n -> pad1 zero n n x j = x j.
  Proof.
    intros Hj. unfold pad1, left_pad. replace (j - (n / 2 - n / 2)) with j by lia.
    destruct (Z.leb_spec 0 j); [|lia]. destruct (Z.ltb_spec j n); [|lia]. reflexivity.
  Qed.
End Pad1.

(* ---------- equivalent encodings of the axes give the same target shape ---------- *)
Lemma all_some_map_ext {A B} (f g : A -> option B) l :
  Forall (fun a => f a = g a) l -> all_some (map f l) = all_some (map g l).
Proof. induction 1 as [|a l H _ IH]; cbn [map all_some]; [reflexivity|]. rewrite H, IH. reflexivity. Qed.

(* two encodings of the same axes: position-wise, d and d' denote the same axis *)
Definition same_axis (ndim d d' : Z) : Prop := normalize_index ndim d = normalize_index ndim d'.

Lemma target_shape_reencode shape dims dims' sizes :
  Forall2 (same_axis (Z.of_nat (length shape))) dims dims' ->
  target_shape shape (Some dims) sizes = target_shape shape (Some dims') sizes.
Proof.
  intros H. unfold target_shape.
  assert (Hl : length dims = length dims') by (clear - H; induction H; cbn; congruence).
  assert (Hm : map (normalize_index (Z.of_nat (length shape))) dims = map (normalize_index (Z.of_nat (length shape))) dims').
  { induction H as [|d d' l l' Hd _ IH]; cbn [map]; [reflexivity|]. rewrite Hd, IH; auto. }
  rewrite Hl, Hm. reflexivity.
Qed.

(* naming an axis by i or by i - ndim (0 <= i < ndim) is such a re-encoding *)
Lemma same_axis_neg ndim i : 0 <= i < ndim -> same_axis ndim i (i - ndim).
Proof. intros H. unfold same_axis. symmetry. apply normalize_index_neg_equiv. exact H. Qed.

(* ---------- order of (dim, size) pairs does not matter ---------- *)
Lemma lookup_perm i dims sizes dims' sizes' :
  length dims = length sizes -> length dims' = length sizes' ->
  NoDup dims -> Permutation (combine dims sizes) (combine dims' sizes') ->
  lookup i dims sizes = lookup i dims' sizes'.
Proof.
  intros L1 L2 Hnd Hp.
  assert (Hin : forall dz sz, length dz = length sz -> forall s, lookup i dz sz = Some s -> In (i, s) (combine dz sz)).
  { clear. intros dz. induction dz as [|d dr IH]; intros [|s0 sr] L s H; cbn in *; try discriminate.
    destruct (Z.eqb_spec i d) as [->|]; [injection H as ->; now left|]. right. apply IH; [lia|exact H]. }
  assert (Hlk : forall dz sz, length dz = length sz -> NoDup dz -> forall s, In (i, s) (combine dz sz) -> lookup i dz sz = Some s).
  { clear. intros dz. induction dz as [|d dr IH]; intros [|s0 sr] L Hnd s H; cbn in *; try contradiction.
    inversion Hnd as [|? ? Hni Hnd']; subst.
    destruct H as [H|H].
    - injection H as -> ->. now rewrite Z.eqb_refl.
    - destruct (Z.eqb_spec i d) as [->|].
      + exfalso. apply Hni. apply in_combine_l in H. exact H.
      + apply IH; [lia|exact Hnd'|exact H]. }
  assert (Hnone : forall dz sz, length dz = length sz -> lookup i dz sz = None -> ~ In i dz).
  { clear. intros dz. induction dz as [|d dr IH]; intros [|s0 sr] L H; cbn in *; try lia; auto.
    destruct (Z.eqb_spec i d) as [->|Hne]; [discriminate|]. intros [E|E]; [congruence|].
    eapply IH; [|exact H|exact E]. lia. }
  assert (Hnd' : NoDup dims').
  { assert (Hmap : Permutation (map fst (combine dims sizes)) (map fst (combine dims' sizes')))
      by (apply Permutation_map; exact Hp).
    assert (E1 : forall (a : list Z) (b : list Z), length a = length b -> map fst (combine a b) = a).
    { clear. induction a as [|x a IH]; intros [|y b] L; cbn in *; try lia; [reflexivity|]. f_equal. apply IH. lia. }
    rewrite E1 in Hmap by exact L1. rewrite E1 in Hmap by exact L2.
    eapply Permutation_NoDup; eauto. }
  destruct (lookup i dims sizes) as [s|] eqn:E1.
  - symmetry. apply Hlk; [exact L2|exact Hnd'|].
    eapply Permutation_in; [exact Hp|]. eapply Hin; eauto.
  - destruct (lookup i dims' sizes') as [s|] eqn:E2; [|reflexivity].
    exfalso. apply (Hnone _ _ L1 E1).
    assert (In (i, s) (combine dims sizes)).
    { eapply Permutation_in; [apply Permutation_sym; exact Hp|]. eapply Hin; eauto. }
    eapply in_combine_l; eauto.
Qed.

(* ---------- batching: an axis that keeps its size is a batch axis ---------- *)
Lemma padN_batch {A} (zero : A) b olds news (x : list Z -> A) k j : 0 <= k < b ->
  padN zero (b :: olds) (b :: news) x (k :: j) = padN zero olds news (fun i => x (k :: i)) j.
Proof.
  intros Hk. cbn [padN]. unfold left_pad. replace (k - (b / 2 - b / 2)) with k by lia.
  destruct ((0 <=? k) && (k <? b) && (0 <=? k) && (k <? b)) eqn:E; [reflexivity|exfalso; lia].
Qed.

(* stacking along a leading batch axis: pad (stack xs) = stack (map pad xs) *)
Lemma padN_stack {A} (zero : A) olds news (xs : Z -> list Z -> A) b k j : 0 <= k < b ->
  padN zero (b :: olds) (b :: news) (fun idx => match idx with i0 :: ir => xs i0 ir | [] => zero end) (k :: j)
  = padN zero olds news (xs k) j.
Proof. intros Hk. rewrite padN_batch by exact Hk. reflexivity. Qed.
