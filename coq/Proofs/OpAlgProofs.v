From MrVerif Require Import Base.Prelude Base.StarRing Base.Sums Model.OpAlg.
Local Open Scope nat_scope.

Section OpAlgProofs.
  Variable R : StarRing.
  Add Ring Rr3 : (k_ring R).
  Local Open Scope K_scope.
  Notation vec := (nat -> R).
  Notation linop := (linop R).

  (* ================= adjointness is closed under every combinator ================= *)
  Lemma comp_adjoint (A B : linop) : dom A = ran B -> adjoint_pair A -> adjoint_pair B -> adjoint_pair (comp A B).
  Proof.
    intros Hd HA HB u v. cbn [comp dom ran fwd adj].
    rewrite HA. rewrite Hd. rewrite HB. reflexivity.
  Qed.

  Lemma lsum_adjoint (A B : linop) : dom A = dom B -> ran A = ran B ->
    adjoint_pair A -> adjoint_pair B -> adjoint_pair (lsum A B).
  Proof.
    intros Hd Hr HA HB u v. cbn [lsum dom ran fwd adj]. unfold inner.
    rewrite (sum_ext _ (ran A) _ (fun i => fwd A u i * kconj (v i) + fwd B u i * kconj (v i))) by (intros; ring).
    rewrite sum_add.
    rewrite (sum_ext _ (dom A) _ (fun i => u i * kconj (adj A v i) + u i * kconj (adj B v i)))
      by (intros; rewrite kconj_add; ring).
    rewrite sum_add.
    pose proof (HA u v) as E1. pose proof (HB u v) as E2. unfold inner in E1, E2.
    rewrite E1. rewrite Hr. rewrite E2. rewrite Hd. reflexivity.
  Qed.

  Lemma prod_right_adjoint s (A : linop) : adjoint_pair A -> adjoint_pair (prod_right s A).
  Proof.
    intros HA u v. cbn [prod_right dom ran fwd adj].
    rewrite <- HA. unfold inner. apply sum_ext. intros i _.
    rewrite kconj_mul, kconj_inv. ring.
  Qed.

  Lemma prod_left_adjoint (A : linop) s : adjoint_pair A -> adjoint_pair (prod_left A s).
  Proof.
    intros HA u v. cbn [prod_left dom ran fwd adj].
    rewrite HA. unfold inner. apply sum_ext. intros i _.
    rewrite kconj_mul, kconj_inv. ring.
  Qed.

  Lemma adjop_adjoint (A : linop) : adjoint_pair A -> adjoint_pair (adjop A).
  Proof.
    intros HA u v. cbn [adjop dom ran fwd adj].
    rewrite <- (inner_conj_sym R (dom A) v (adj A u)).
    rewrite <- (inner_conj_sym R (ran A) (fwd A v) u).
    f_equal. symmetry. apply HA.
  Qed.

  Lemma idop_adjoint n : adjoint_pair (idop (R:=R) n).
  Proof. intros u v. reflexivity. Qed.

  Lemma zeroop_adjoint n m : adjoint_pair (zeroop (R:=R) n m).
  Proof.
    intros u v. cbn [zeroop dom ran fwd adj]. unfold inner.
    rewrite (sum_ext _ m _ (fun _ => k0)) by (intros; ring).
    rewrite (sum_ext _ n _ (fun _ => k0)) by (intros; rewrite kconj_0; ring).
    now rewrite !sum_zero.
  Qed.

  Lemma hstack_adjoint (A B : linop) : ran A = ran B ->
    adjoint_pair A -> adjoint_pair B -> adjoint_pair (hstack A B).
  Proof.
    intros Hr HA HB u v. cbn [hstack dom ran fwd adj]. unfold inner.
    rewrite sum_split.
    rewrite (sum_ext _ (ran A) _ (fun i => fwd A u i * kconj (v i) + fwd B (fun j => u (dom A + j)%nat) i * kconj (v i)))
      by (intros; ring).
    rewrite sum_add. f_equal.
    - pose proof (HA u v) as E. unfold inner in E. rewrite E. apply sum_ext. intros j Hj.
      destruct (Nat.ltb_spec j (dom A)); [reflexivity|lia].
    - pose proof (HB (fun j => u (dom A + j)%nat) v) as E. unfold inner in E. rewrite Hr. rewrite E.
      apply sum_ext. intros j Hj.
      destruct (Nat.ltb_spec (dom A + j) (dom A)); [lia|].
      replace (dom A + j - dom A)%nat with j by lia. reflexivity.
  Qed.

  Lemma vstack_adjoint (A B : linop) : dom A = dom B ->
    adjoint_pair A -> adjoint_pair B -> adjoint_pair (vstack A B).
  Proof.
    intros Hd HA HB u v. cbn [vstack dom ran fwd adj]. unfold inner.
    rewrite sum_split.
    rewrite (sum_ext _ (dom A) _ (fun j => u j * kconj (adj A v j) + u j * kconj (adj B (fun i => v (ran A + i)%nat) j)))
      by (intros; rewrite kconj_add; ring).
    rewrite sum_add. f_equal.
    - pose proof (HA u v) as E. unfold inner in E. rewrite <- E. apply sum_ext. intros i Hi.
      destruct (Nat.ltb_spec i (ran A)); [reflexivity|lia].
    - pose proof (HB u (fun i => v (ran A + i)%nat)) as E. unfold inner in E. rewrite Hd. rewrite <- E.
      apply sum_ext. intros i Hi.
      destruct (Nat.ltb_spec (ran A + i) (ran A)); [lia|].
      replace (ran A + i - ran A)%nat with i by lia. reflexivity.
  Qed.

  Theorem closure_adjoint (t : tree R) :
    well_shaped t -> leaves_ok adjoint_pair t -> adjoint_pair (den t).
  Proof.
    induction t as [A|a IHa b IHb|a IHa b IHb|s a IHa|a IHa s|a IHa|a IHa b IHb|a IHa b IHb];
      cbn [well_shaped leaves_ok den].
    - intros _ H. exact H.
    - intros (Wa & Wb & Hd) (La & Lb). apply comp_adjoint; auto.
    - intros (Wa & Wb & Hd & Hr) (La & Lb). apply lsum_adjoint; auto.
    - intros W L. apply prod_right_adjoint; auto.
    - intros W L. apply prod_left_adjoint; auto.
    - intros W L. apply adjop_adjoint; auto.
    - intros (Wa & Wb & Hr) (La & Lb). apply hstack_adjoint; auto.
    - intros (Wa & Wb & Hd) (La & Lb). apply vstack_adjoint; auto.
  Qed.

  (* ================= linearity is closed under every combinator ================= *)
  Lemma comp_wf (A B : linop) : dom A = ran B -> wf A -> wf B -> wf (comp A B).
  Proof.
    intros Hd (LA & EA & LA' & EA') (LB & EB & LB' & EB'). unfold wf. cbn [comp dom ran fwd adj]. repeat split.
    - intros a b x y i Hi. rewrite <- LA by exact Hi. apply EA; [|exact Hi]. intros j Hj. apply LB. rewrite <- Hd. exact Hj.
    - intros x y H i Hi. apply EA; [|exact Hi]. intros j Hj. apply EB; [exact H|rewrite <- Hd; exact Hj].
    - intros a b x y i Hi. rewrite <- LB' by exact Hi. apply EB'; [|exact Hi]. intros j Hj. apply LA'. rewrite Hd. exact Hj.
    - intros x y H i Hi. apply EB'; [|exact Hi]. intros j Hj. apply EA'; [exact H|rewrite Hd; exact Hj].
  Qed.

  Lemma lsum_wf (A B : linop) : dom A = dom B -> ran A = ran B -> wf A -> wf B -> wf (lsum A B).
  Proof.
    intros Hd Hr (LA & EA & LA' & EA') (LB & EB & LB' & EB'). unfold wf. cbn [lsum dom ran fwd adj]. repeat split.
    - intros a b x y i Hi. rewrite LA by exact Hi. rewrite LB by (rewrite <- Hr; exact Hi). ring.
    - intros x y H i Hi. rewrite (EA x y H i Hi).
      rewrite (EB x y) by (try (rewrite <- Hd; exact H); rewrite <- Hr; exact Hi). reflexivity.
    - intros a b x y i Hi. rewrite LA' by exact Hi. rewrite LB' by (rewrite <- Hd; exact Hi). ring.
    - intros x y H i Hi. rewrite (EA' x y H i Hi).
      rewrite (EB' x y) by (try (rewrite <- Hr; exact H); rewrite <- Hd; exact Hi). reflexivity.
  Qed.

  Lemma prod_right_wf s (A : linop) : wf A -> wf (prod_right s A).
  Proof.
    intros (LA & EA & LA' & EA'). unfold wf. cbn [prod_right dom ran fwd adj]. repeat split.
    - intros a b x y i Hi. rewrite LA by exact Hi. ring.
    - intros x y H i Hi. rewrite (EA x y H i Hi). reflexivity.
    - intros a b x y i Hi. rewrite <- LA' by exact Hi. apply EA'; [|exact Hi]. intros j _. ring.
    - intros x y H i Hi. apply EA'; [|exact Hi]. intros j Hj. rewrite (H j Hj). reflexivity.
  Qed.

  Lemma prod_left_wf (A : linop) s : wf A -> wf (prod_left A s).
  Proof.
    intros (LA & EA & LA' & EA'). unfold wf. cbn [prod_left dom ran fwd adj]. repeat split.
    - intros a b x y i Hi. rewrite <- LA by exact Hi. apply EA; [|exact Hi]. intros j _. ring.
    - intros x y H i Hi. apply EA; [|exact Hi]. intros j Hj. rewrite (H j Hj). reflexivity.
    - intros a b x y i Hi. rewrite LA' by exact Hi. ring.
    - intros x y H i Hi. rewrite (EA' x y H i Hi). reflexivity.
  Qed.

  Lemma adjop_wf (A : linop) : wf A -> wf (adjop A).
  Proof. intros (LA & EA & LA' & EA'). unfold wf. cbn [adjop dom ran fwd adj]. auto. Qed.

  Lemma hstack_wf (A B : linop) : ran A = ran B -> wf A -> wf B -> wf (hstack A B).
  Proof.
    intros Hr (LA & EA & LA' & EA') (LB & EB & LB' & EB'). unfold wf. cbn [hstack dom ran fwd adj]. repeat split.
    - intros a b x y i Hi. rewrite LA by exact Hi. rewrite LB by (rewrite <- Hr; exact Hi). ring.
    - intros x y H i Hi. rewrite (EA x y) by (try exact Hi; intros; apply H; lia).
      rewrite (EB (fun j => x (dom A + j)%nat) (fun j => y (dom A + j)%nat))
        by (try (rewrite <- Hr; exact Hi); intros; apply H; lia). reflexivity.
    - intros a b x y j Hj. destruct (Nat.ltb_spec j (dom A)); [apply LA'; assumption|apply LB'; lia].
    - intros x y H j Hj. destruct (Nat.ltb_spec j (dom A));
        [apply EA'; assumption|apply EB'; [rewrite <- Hr; exact H|lia]].
  Qed.

  Lemma vstack_wf (A B : linop) : dom A = dom B -> wf A -> wf B -> wf (vstack A B).
  Proof.
    intros Hd (LA & EA & LA' & EA') (LB & EB & LB' & EB'). unfold wf. cbn [vstack dom ran fwd adj]. repeat split.
    - intros a b x y i Hi. destruct (Nat.ltb_spec i (ran A)); [apply LA; assumption|apply LB; lia].
    - intros x y H i Hi. destruct (Nat.ltb_spec i (ran A));
        [apply EA; assumption|apply EB; [rewrite <- Hd; exact H|lia]].
    - intros a b x y j Hj. rewrite LA' by exact Hj. rewrite LB' by (rewrite <- Hd; exact Hj). ring.
    - intros x y H j Hj. rewrite (EA' x y) by (try exact Hj; intros; apply H; lia).
      rewrite (EB' (fun i => x (ran A + i)%nat) (fun i => y (ran A + i)%nat))
        by (try (rewrite <- Hd; exact Hj); intros; apply H; lia). reflexivity.
  Qed.

  Theorem closure_wf (t : tree R) : well_shaped t -> leaves_ok wf t -> wf (den t).
  Proof.
    induction t as [A|a IHa b IHb|a IHa b IHb|s a IHa|a IHa s|a IHa|a IHa b IHb|a IHa b IHb];
      cbn [well_shaped leaves_ok den].
    - intros _ H. exact H.
    - intros (Wa & Wb & Hd) (La & Lb). apply comp_wf; auto.
    - intros (Wa & Wb & Hd & Hr) (La & Lb). apply lsum_wf; auto.
    - intros W L. apply prod_right_wf; auto.
    - intros W L. apply prod_left_wf; auto.
    - intros W L. apply adjop_wf; auto.
    - intros (Wa & Wb & Hr) (La & Lb). apply hstack_wf; auto.
    - intros (Wa & Wb & Hd) (La & Lb). apply vstack_wf; auto.
  Qed.

  (* ================= a linear map is the action of its matrix ================= *)
  Lemma linear_zero n m (f : vec -> vec) : linear_map m f -> ext_map n m f -> forall i, (i < m)%nat -> f (fun _ => k0) i = k0.
  Proof.
    intros L E i Hi.
    rewrite (E (fun _ => k0) (fun j => k0 * k0 + k0 * k0)) by (try exact Hi; intros; ring).
    rewrite (L k0 k0 (fun _ => k0) (fun _ => k0)) by exact Hi. ring.
  Qed.

  Lemma linear_finite_sum n m (f : vec -> vec) : linear_map m f -> ext_map n m f ->
    forall p (c : nat -> R) (e : nat -> vec) i, (i < m)%nat ->
      f (fun k => sum p (fun j => c j * e j k)) i = sum p (fun j => c j * f (e j) i).
  Proof.
    intros L E p c e i Hi. induction p as [|p IH]; cbn [sum].
    - apply (linear_zero n m f L E i Hi).
    - rewrite (E _ (fun k => k1 * sum p (fun j => c j * e j k) + c p * e p k)) by (try exact Hi; intros; ring).
      rewrite L by exact Hi. rewrite IH. ring.
  Qed.

  Theorem matrix_action n m (f : vec -> vec) : linear_map m f -> ext_map n m f ->
    forall x i, (i < m)%nat -> f x i = sum n (fun j => matrix_of f i j * x j).
  Proof.
    intros L E x i Hi. unfold matrix_of.
    rewrite (E x (fun k => sum n (fun j => x j * delta j k))).
    - rewrite (linear_finite_sum n m f L E) by exact Hi. apply sum_ext. intros j _. ring.
    - intros k Hk. apply sum_reindex_delta. exact Hk.
    - exact Hi.
  Qed.

  (* ================= dense matrices ================= *)
  Lemma matop_adjoint m n (M : nat -> nat -> R) : adjoint_pair (matop m n M).
  Proof.
    intros u v. cbn [matop dom ran fwd adj]. unfold inner.
    rewrite (sum_ext _ m _ (fun i => sum n (fun j => M i j * u j * kconj (v i))))
      by (intros; rewrite <- sum_mul_r; reflexivity).
    rewrite sum_swap. apply sum_ext. intros j _.
    rewrite sum_conj. rewrite <- sum_mul_l. apply sum_ext. intros i _.
    rewrite kconj_mul, kconj_inv. ring.
  Qed.

  Lemma matop_wf m n (M : nat -> nat -> R) : wf (matop m n M).
  Proof.
    unfold wf. cbn [matop dom ran fwd adj]. repeat split.
    - intros a b x y i _. rewrite <- !sum_mul_l, <- sum_add. apply sum_ext. intros; ring.
    - intros x y H i _. apply sum_ext. intros j Hj. rewrite (H j Hj). reflexivity.
    - intros a b x y i _. rewrite <- !sum_mul_l, <- sum_add. apply sum_ext. intros; ring.
    - intros x y H i _. apply sum_ext. intros j Hj. rewrite (H j Hj). reflexivity.
  Qed.

  (* the matrix of matop is M *)
  Lemma matop_matrix m n (M : nat -> nat -> R) i j : (j < n)%nat -> matrix_of (fwd (matop m n M)) i j = M i j.
  Proof.
    intros Hj. unfold matrix_of. cbn [matop fwd]. unfold delta.
    rewrite (sum_ext _ n _ (fun k => if Nat.eqb k j then M i k else k0)).
    - apply sum_delta. exact Hj.
    - intros k _. destruct (Nat.eqb k j); ring.
  Qed.
End OpAlgProofs.
