(* C19 - the literal reading of operator_norm (Model/PowerIterLit.v: normalised vector, sqrt of the Rayleigh quotient) and the model the
   theorems are about (Model/PowerIter.v: unnormalised vector, squared estimates) are the same iteration: same number of passes, the literal
   estimates are the square roots of the model's, for every homogeneous G (x |-> A^H A x), every stopping test and every budget. *)
From Coq Require Import List Bool Arith Lia Reals Lra Psatz.
Import ListNotations.
From MrVerif Require Import Model.CG Model.PowerIter Model.PowerIterLit Proofs.CGProofs Proofs.PowerIterProofs.
Local Open Scope R_scope.

Lemma vscale_vscale a b w : vscaleR a (vscaleR b w) = vscaleR (a * b) w.
Proof. unfold vscale. rewrite map_map. apply map_ext. intros x. ring. Qed.

Lemma dotR_scale_both c u w : dotR (vscaleR c u) (vscaleR c w) = c * c * dotR u w.
Proof. rewrite (dot_vscale_l R _ _ _ _ _ _ _ _ RF), (dot_vscale_r R _ _ _ _ _ _ _ _ RF). ring. Qed.

Lemma Reqb'_true a b : Reqb' a b = true <-> a = b.
Proof. unfold Reqb'. destruct (Req_EM_T a b); split; congruence. Qed.

Section Refine.
  Variable G : list R -> list R.
  Hypothesis G_hom : forall c u, G (vscaleR c u) = vscaleR c (G u).
  Variable close : R -> R -> bool.
  (* the stopping test of the model looks at squared estimates *)
  Definition close2 (q qold : R) : bool := close (sqrt q) (sqrt qold).

  (* v is u normalised *)
  Definition Rel (u v : list R) : Prop := 0 < dotR u u /\ v = vscaleR (/ sqrt (dotR u u)) u.

  Lemma inv_sqrt_sq x : 0 < x -> / sqrt x * / sqrt x = / x.
  Proof.
    intros Hx. assert (Hs : 0 < sqrt x) by (apply sqrt_lt_R0; exact Hx).
    rewrite <- Rinv_mult. f_equal. apply sqrt_sqrt. lra.
  Qed.

  Lemma rel_init x0 : 0 < dotR x0 x0 -> Rel x0 (lit_init x0).
  Proof. intros H. split; [exact H|reflexivity]. Qed.

  (* the reported estimate is the square root of the model's squared estimate *)
  Lemma rel_estimate u v : Rel u v ->
    exists q, rq R 0 Rplus Rmult Rdiv Reqb' G u = Some q /\ lit_estimate G v = sqrt q.
  Proof.
    intros [Hu ->]. unfold rq, sdiv. destruct (Reqb' (dotR u u) 0) eqn:E; [apply Reqb'_true in E; lra|].
    eexists; split; [reflexivity|]. unfold lit_estimate. f_equal.
    rewrite G_hom, dotR_scale_both, inv_sqrt_sq by exact Hu. unfold Rdiv. ring.
  Qed.

  (* the next normalised vector is the next model vector, normalised *)
  Lemma rel_next u v : Rel u v -> Rel (next_vec R 0 Rplus Rmult Reqb' G u) (lit_next G v).
  Proof.
    intros [Hu ->]. unfold next_vec, lit_next, norm2. cbv zeta.
    set (c := / sqrt (dotR u u)). assert (Hc : 0 < c) by (apply Rinv_0_lt_compat, sqrt_lt_R0; exact Hu).
    rewrite G_hom, dotR_scale_both.
    pose proof (dotR_nonneg (G u)) as Hg.
    destruct (Reqb' (dotR (G u) (G u)) 0) eqn:E.
    - apply Reqb'_true in E. rewrite E, Rmult_0_r, sqrt_0.
      destruct (Rlt_dec 0 0) as [H|_]; [lra|]. split; [exact Hu|reflexivity].
    - assert (Hg0 : 0 < dotR (G u) (G u)).
      { destruct (Req_dec (dotR (G u) (G u)) 0) as [Hz|Hz]; [apply Reqb'_true in Hz; congruence|lra]. }
      assert (Hs : sqrt (c * c * dotR (G u) (G u)) = c * sqrt (dotR (G u) (G u))).
      { rewrite sqrt_mult by nra. rewrite sqrt_square by lra. reflexivity. }
      rewrite Hs. assert (Hsg : 0 < sqrt (dotR (G u) (G u))) by (apply sqrt_lt_R0; exact Hg0).
      destruct (Rlt_dec 0 (c * sqrt (dotR (G u) (G u)))) as [_|H]; [|exfalso; apply H; nra].
      split; [exact Hg0|]. rewrite vscale_vscale. f_equal. field. split; lra.
  Qed.

  Notation ploopR := (ploop R 0 Rplus Rmult Rdiv Reqb' close2 [G]).

  Theorem lit_refines : forall fuel u v oldq lastq, Rel u v ->
    exists rq' tq, ploopR fuel (mkP [u] [oldq]) [lastq] = (Some [rq'], map (fun q => [q]) tq) /\
                   lit_loop G close fuel v (sqrt oldq) (sqrt lastq) = (sqrt rq', map sqrt tq).
  Proof.
    induction fuel as [|fuel IH]; intros u v oldq lastq HR.
    - exists lastq, []. split; reflexivity.
    - cbn [ploop lit_loop]. unfold pstep, lit_step. cbn [pu pold combine map fst snd all_some].
      destruct (rel_estimate u v HR) as [q [Hq He]]. rewrite Hq, He. cbn [all_some all_close].
      unfold close2 at 1. rewrite andb_true_r.
      destruct (close (sqrt q) (sqrt oldq)) eqn:Ec.
      + exists q, []. split; reflexivity.
      + unfold apply_all. cbn [combine map fst snd].
        destruct (IH _ _ q q (rel_next u v HR)) as [r [t [H1 H2]]].
        rewrite H1, H2. exists r, (q :: t). split; reflexivity.
  Qed.

  (* with a positive budget the `last` argument of the loop is not looked at *)
  Lemma ploop_S_last fuel st l1 l2 : ploopR (S fuel) st l1 = ploopR (S fuel) st l2.
  Proof. reflexivity. Qed.

  (* the whole call: for a non-zero start vector and a budget >= 1 the literal run returns the square roots of the model's run *)
  Theorem lit_operator_norm_refines x0 n : 0 < dotR x0 x0 -> n <> 0%nat ->
    exists e t, operator_norm_sq R 0 Rplus Rmult Rdiv Reqb' close2 [G] [x0] n = PDone [e] (map (fun q => [q]) t) /\
                lit_operator_norm G close x0 n = (sqrt e, map sqrt t).
  Proof.
    intros Hx Hn. unfold operator_norm_sq, lit_operator_norm.
    destruct (Nat.eqb n 0) eqn:En; [apply Nat.eqb_eq in En; contradiction|].
    cbn [existsb]. destruct (Reqb' (dotR x0 x0) 0) eqn:E; [apply Reqb'_true in E; lra|]. cbn [orb map].
    destruct n as [|n]; [contradiction|].
    destruct (lit_refines (S n) x0 (lit_init x0) 0 0 (rel_init x0 Hx)) as [r [t [H1 H2]]].
    rewrite sqrt_0 in H2. exists r, t. split; [|exact H2].
    cbn [map].
    match goal with |- (let (_, _) := ?X in _) = _ => replace X with (Some [r], map (fun q : R => [q]) t) by (symmetry; exact H1) end.
    reflexivity.
  Qed.
End Refine.
