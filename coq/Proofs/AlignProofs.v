(* C12 - align_vectors for ONE vector pair (and the primary pair of the infinite-weight branch): the rotation built by the code,
   Rodrigues' formula about the axis b x a with the angle atan2(|b x a|, a . b), maps b onto a exactly; and in the antiparallel
   case (repair 3492450) the half turn about any unit axis orthogonal to b maps b onto -b = a. *)
From MrVerif Require Import Base.Prelude Base.StarRing Model.Rotation Model.Euler Proofs.RotationProofs Proofs.RotationRealProofs
  Proofs.RotationPowProofs Proofs.EulerProofs Proofs.EulerAnglesProofs.
From Coq Require Import Reals Lra Psatz.
Local Open Scope R_scope.

(* Rodrigues' matrix applied to a vector: v cos + (u x v) sin + u (u . v) (1 - cos); any unit or non-unit u *)
Lemma rodrigues_apply (u v : vecR) (c s : R) :
  mapply RRing (rodrigues RRing u c s) v
  = (c * v0 v + s * v0 (cross3 RRing u v) + (1 - c) * dot3 RRing u v * v0 u,
     c * v1 v + s * v1 (cross3 RRing u v) + (1 - c) * dot3 RRing u v * v1 u,
     c * v2 v + s * v2 (cross3 RRing u v) + (1 - c) * dot3 RRing u v * v2 u).
Proof. destruct u as [[u0 u1] u2], v as [[x y] z]. unf. toRR. cbn. pair_split; ring. Qed.

(* Lagrange: |b x a|^2 + (a . b)^2 = |a|^2 |b|^2 *)
Lemma lagrange (a b : vecR) :
  dot3 RRing (cross3 RRing b a) (cross3 RRing b a) + dot3 RRing a b * dot3 RRing a b = dot3 RRing a a * dot3 RRing b b.
Proof. destruct a as [[a0 a1] a2], b as [[b0 b1] b2]. unf. toRR. cbn. ring. Qed.

Theorem align_single_pair (a b : vecR) (s : R) :
  dot3 RRing a a = 1 -> dot3 RRing b b = 1 -> 0 < s -> s * s = dot3 RRing (cross3 RRing b a) (cross3 RRing b a) ->
  mapply RRing (rodrigues RRing (vscal RRing (/ s) (cross3 RRing b a)) (dot3 RRing a b) s) b = a.
Proof.
  intros Ha Hb Hs Hss. rewrite rodrigues_apply.
  destruct a as [[a0 a1] a2], b as [[b0 b1] b2]. revert Ha Hb Hss. unf. toRR. cbn. intros Ha Hb Hss.
  assert (Hs0 : s <> 0) by lra.
  pair_split; (field_simplify_eq; [|exact Hs0]);
    match goal with |- _ = ?x * s ^ 2 => transitivity (x * (b0 * b0 + b1 * b1 + b2 * b2) * s ^ 2); [ring|rewrite Hb; ring] end.
Qed.

(* the angle the code uses has exactly this cosine and sine *)
Lemma align_angle (a b : vecR) (s : R) :
  dot3 RRing a a = 1 -> dot3 RRing b b = 1 -> 0 < s -> s * s = dot3 RRing (cross3 RRing b a) (cross3 RRing b a) ->
  cos (atan2 s (dot3 RRing a b)) = dot3 RRing a b /\ sin (atan2 s (dot3 RRing a b)) = s.
Proof.
  intros Ha Hb Hs Hss. pose proof (lagrange a b) as L. rewrite Ha, Hb, <- Hss in L.
  set (c := dot3 RRing a b) in *.
  assert (Hpos : 0 < c * c + s * s) by nra.
  destruct (atan2_spec s c Hpos) as [C S]. cbv zeta in C, S.
  replace (c * c + s * s) with 1 in C, S by lra. rewrite sqrt_1 in C, S. rewrite C, S. split; field.
Qed.

(* antiparallel pair: the half turn (cos = -1, sin = 0) about a unit axis orthogonal to b maps b onto -b *)
Theorem align_antiparallel (b u : vecR) :
  dot3 RRing u u = 1 -> dot3 RRing u b = 0 ->
  mapply RRing (rodrigues RRing u (-1) 0) b = vscal RRing (-1) b.
Proof.
  intros Hu Hub. rewrite rodrigues_apply. rewrite Hub.
  destruct b as [[b0 b1] b2], u as [[u0 u1] u2]. unf. toRR. cbn. pair_split; ring.
Qed.

(* the axis chosen by the repaired code (and by scipy) is orthogonal to the vector: i = argmin |a_i|, r[i-1] = a[i-2], r[i-2] = -a[i-1] *)
Lemma antiparallel_axis_orthogonal (a0 a1 a2 : R) :
  dot3 RRing (0, a2, - a1) (a0, a1, a2) = 0 /\ dot3 RRing (- a2, 0, a0) (a0, a1, a2) = 0 /\ dot3 RRing (a1, - a0, 0) (a0, a1, a2) = 0.
Proof. unf. toRR. cbn. repeat split; ring. Qed.
