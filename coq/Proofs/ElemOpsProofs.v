From MrVerif Require Import Base.Prelude Base.StarRing Base.Sums Model.OpAlg Model.ZeroPad Model.ElemOps Proofs.OpAlgProofs.
Local Open Scope nat_scope.

Section ElemOpsProofs.
  Variable R : StarRing.
  Add Ring Rr4 : (k_ring R).
  Local Open Scope K_scope.
  Notation vec := (nat -> R).
  Notation linop := (linop R).

  (* ---------- gather / scatter_add are adjoint for EVERY index map (duplicates, out-of-range, holes) ---------- *)
  Lemma gather_scatter_adjoint nr ns (g : nat -> option nat) (u v : vec) :
    inner ns (gather nr g u) v = inner nr u (scatter_add ns g v).
  Proof.
    unfold inner, scatter_add.
    rewrite (sum_ext _ nr _ (fun r => sum ns (fun s => u r *
              kconj (match g s with Some r' => if Nat.eqb r' r then v s else k0 | None => k0 end)))).
    2:{ intros r _. rewrite sum_conj. rewrite <- sum_mul_l. reflexivity. }
    rewrite sum_swap. apply sum_ext. intros s _. unfold gather.
    destruct (g s) as [r0|].
    - rewrite (sum_ext _ nr _ (fun r => if Nat.eqb r r0 then u r * kconj (v s) else k0)).
      2:{ intros r _. rewrite (Nat.eqb_sym r r0). destruct (Nat.eqb r0 r); [reflexivity|rewrite kconj_0; ring]. }
      destruct (Nat.ltb_spec r0 nr).
      + rewrite sum_delta by assumption. reflexivity.
      + rewrite sum_delta_out by assumption. ring.
    - rewrite (sum_ext _ nr _ (fun _ => k0)) by (intros; rewrite kconj_0; ring). rewrite sum_zero. ring.
  Qed.

  Theorem cart_sampling_adjoint nr ns idx : adjoint_pair (cart_sampling (R:=R) nr ns idx).
  Proof. intros u v. apply gather_scatter_adjoint. Qed.

  (* scatter_add selects the unique preimage when there is one *)
  Lemma scatter_add_unique ns (g : nat -> option nat) (y : vec) r s0 :
    (s0 < ns)%nat -> g s0 = Some r -> (forall s, (s < ns)%nat -> g s = Some r -> s = s0) ->
    scatter_add ns g y r = y s0.
  Proof.
    intros Hs Hg Hu. unfold scatter_add.
    rewrite (sum_ext _ ns _ (fun s => if Nat.eqb s s0 then y s else k0)).
    - apply sum_delta. exact Hs.
    - intros s Hsn. destruct (Nat.eqb_spec s s0) as [->|Hne].
      + rewrite Hg, Nat.eqb_refl. reflexivity.
      + destruct (g s) as [r'|] eqn:E; [|reflexivity].
        destruct (Nat.eqb_spec r' r) as [->|]; [|reflexivity]. exfalso. apply Hne. apply Hu; assumption.
  Qed.

  Lemma scatter_add_none ns (g : nat -> option nat) (y : vec) r :
    (forall s, (s < ns)%nat -> g s <> Some r) -> scatter_add ns g y r = k0.
  Proof.
    intros H. unfold scatter_add. rewrite (sum_ext _ ns _ (fun _ => k0)); [apply sum_zero|].
    intros s Hs. destruct (g s) as [r'|] eqn:E; [|reflexivity].
    destruct (Nat.eqb_spec r' r) as [->|]; [|reflexivity]. exfalso. exact (H s Hs E).
  Qed.

  (* an operator whose coded adjoint agrees pointwise with scatter_add is an adjoint pair *)
  Lemma gather_adjoint_via_scatter nr ns g (adjf : vec -> vec) :
    (forall y r, (r < nr)%nat -> adjf y r = scatter_add ns g y r) ->
    adjoint_pair {| dom := nr; ran := ns; fwd := gather nr g; adj := adjf |}.
  Proof.
    intros H u v. cbn [dom ran fwd adj]. rewrite gather_scatter_adjoint.
    apply inner_ext; [reflexivity|]. intros i Hi. symmetry. apply H. exact Hi.
  Qed.

  (* ---------- zero padding / cropping ---------- *)
  Lemma pad_map_inv old new j i : pad_map old new j = Some i ->
    (j < new)%nat /\ (i < old)%nat /\ (Z.of_nat i = Z.of_nat j - left_pad (Z.of_nat old) (Z.of_nat new))%Z.
  Proof.
    unfold pad_map.
    destruct ((0 <=? Z.of_nat j - left_pad (Z.of_nat old) (Z.of_nat new))%Z &&
              (Z.of_nat j - left_pad (Z.of_nat old) (Z.of_nat new) <? Z.of_nat old)%Z &&
              (Z.of_nat j <? Z.of_nat new)%Z) eqn:E; intros H; [|discriminate].
    injection H as <-. lia.
  Qed.

  Lemma left_pad_opp o n : left_pad n o = (- left_pad o n)%Z.
  Proof. unfold left_pad. lia. Qed.

  Theorem zeropad_adjoint old new : adjoint_pair (zeropad_op (R:=R) old new).
  Proof.
    unfold zeropad_op. apply gather_adjoint_via_scatter. intros y r Hr.
    unfold pad_vec, gather.
    destruct (pad_map new old r) as [j|] eqn:E.
    - destruct (pad_map_inv _ _ _ _ E) as (H1 & H2 & H3). rewrite left_pad_opp in H3.
      destruct (Nat.ltb_spec j new); [|lia].
      symmetry. apply scatter_add_unique; [assumption| |].
      + unfold pad_map. replace (Z.of_nat j - left_pad (Z.of_nat old) (Z.of_nat new))%Z with (Z.of_nat r) by lia.
        destruct ((0 <=? Z.of_nat r)%Z && (Z.of_nat r <? Z.of_nat old)%Z && (Z.of_nat j <? Z.of_nat new)%Z) eqn:E2; [|lia].
        f_equal. lia.
      + intros s Hs Hg. destruct (pad_map_inv _ _ _ _ Hg) as (G1 & G2 & G3). lia.
    - symmetry. apply scatter_add_none. intros s Hs Hg.
      destruct (pad_map_inv _ _ _ _ Hg) as (G1 & G2 & G3).
      unfold pad_map in E. rewrite left_pad_opp in E.
      destruct ((0 <=? Z.of_nat r - - left_pad (Z.of_nat old) (Z.of_nat new))%Z &&
                (Z.of_nat r - - left_pad (Z.of_nat old) (Z.of_nat new) <? Z.of_nat new)%Z &&
                (Z.of_nat r <? Z.of_nat old)%Z) eqn:E2; [discriminate|lia].
  Qed.

  (* documented action: the centre sample old/2 lands on new/2 (pad) resp. is read from old/2 (crop) *)
  Theorem zeropad_centre old new (x : vec) : (0 < old)%nat -> (0 < new)%nat ->
    pad_vec old new x (new / 2)%nat = x (old / 2)%nat.
  Proof.
    intros Ho Hn. unfold pad_vec, gather, pad_map, left_pad.
    assert (E1 : Z.of_nat (new / 2) = (Z.of_nat new / 2)%Z) by (rewrite Nat2Z.inj_div; reflexivity).
    assert (E2 : Z.of_nat (old / 2) = (Z.of_nat old / 2)%Z) by (rewrite Nat2Z.inj_div; reflexivity).
    rewrite E1.
    replace (Z.of_nat new / 2 - (Z.of_nat new / 2 - Z.of_nat old / 2))%Z with (Z.of_nat old / 2)%Z by lia.
    destruct ((0 <=? Z.of_nat old / 2)%Z && (Z.of_nat old / 2 <? Z.of_nat old)%Z && (Z.of_nat new / 2 <? Z.of_nat new)%Z) eqn:E; [|lia].
    rewrite <- E2, Nat2Z.id.
    destruct (Nat.ltb_spec (old / 2) old); [reflexivity|].
    assert (old / 2 < old)%nat by (apply Nat.div_lt; lia). lia.
  Qed.

  (* crop after pad is the identity *)
  Theorem zeropad_crop_after_pad old new (x : vec) j : (old <= new)%nat -> (j < old)%nat ->
    pad_vec new old (pad_vec old new x) j = x j.
  Proof.
    intros Hon Hj. unfold pad_vec at 1. unfold gather at 1.
    destruct (pad_map new old j) as [i|] eqn:E.
    - destruct (pad_map_inv _ _ _ _ E) as (H1 & H2 & H3). rewrite left_pad_opp in H3.
      destruct (Nat.ltb_spec i new); [|lia].
      unfold pad_vec, gather, pad_map.
      replace (Z.of_nat i - left_pad (Z.of_nat old) (Z.of_nat new))%Z with (Z.of_nat j) by lia.
      destruct ((0 <=? Z.of_nat j)%Z && (Z.of_nat j <? Z.of_nat old)%Z && (Z.of_nat i <? Z.of_nat new)%Z) eqn:E2; [|lia].
      rewrite Nat2Z.id. destruct (Nat.ltb_spec j old); [reflexivity|lia].
    - exfalso. unfold pad_map, left_pad in E.
      destruct ((0 <=? Z.of_nat j - (Z.of_nat old / 2 - Z.of_nat new / 2))%Z &&
                (Z.of_nat j - (Z.of_nat old / 2 - Z.of_nat new / 2) <? Z.of_nat new)%Z &&
                (Z.of_nat j <? Z.of_nat old)%Z) eqn:E2; [discriminate|lia].
  Qed.

  (* ---------- permutations (RearrangeOp) ---------- *)
  Theorem perm_adjoint n p q :
    (forall i, (i < n)%nat -> (p i < n)%nat /\ q (p i) = i) -> (forall j, (j < n)%nat -> (q j < n)%nat /\ p (q j) = j) ->
    adjoint_pair (perm_op (R:=R) n p q).
  Proof.
    intros Hp Hq. unfold perm_op. apply gather_adjoint_via_scatter. intros y r Hr.
    destruct (Hq r Hr) as [Hq1 Hq2]. unfold gather. destruct (Nat.ltb_spec (q r) n); [|lia].
    symmetry. apply scatter_add_unique; [exact Hq1|rewrite Hq2; reflexivity|].
    intros s Hs E. injection E as E. destruct (Hp s Hs) as [_ Hps]. rewrite <- Hps, E. reflexivity.
  Qed.

  (* ---------- diagonal and sensitivity ---------- *)
  Theorem diag_adjoint n d : adjoint_pair (diag_op (R:=R) n d).
  Proof.
    intros u v. cbn [diag_op dom ran fwd adj]. unfold inner. apply sum_ext. intros i _.
    rewrite kconj_mul, kconj_inv. ring.
  Qed.

  Lemma div_mod_flat c r npix : (r < npix)%nat -> ((c * npix + r) / npix = c /\ (c * npix + r) mod npix = r)%nat.
  Proof.
    intros Hr. split.
    - rewrite Nat.div_add_l by lia. rewrite Nat.div_small by lia. lia.
    - rewrite Nat.add_comm, Nat.mod_add by lia. apply Nat.mod_small. exact Hr.
  Qed.

  Theorem sens_adjoint ncoil npix csm : adjoint_pair (sens_op (R:=R) ncoil npix csm).
  Proof.
    intros u v. cbn [sens_op dom ran fwd adj]. unfold inner.
    rewrite sum_flatten.
    rewrite (sum_ext _ npix _ (fun r => sum ncoil (fun c => u r * kconj (kconj (csm c r) * v (c * npix + r)%nat)))).
    2:{ intros r _. rewrite sum_conj, <- sum_mul_l. reflexivity. }
    rewrite (sum_swap R npix ncoil). apply sum_ext. intros c _. apply sum_ext. intros r Hr.
    destruct (div_mod_flat c r npix Hr) as [-> ->].
    rewrite kconj_mul, kconj_inv. ring.
  Qed.

  (* ---------- 3-tap stencils: the flipped kernel gives the adjoint (real kernels) ---------- *)
  Definition stencil_matrix (circ : bool) (n : nat) (a b c : R) (i j : nat) : R :=
    (if match predc circ n i with Some k => Nat.eqb k j | None => false end then a else k0)
    + (if Nat.eqb i j then b else k0)
    + (if match succc circ n i with Some k => Nat.eqb k j | None => false end then c else k0).

  Lemma at_opt_sum n (x : vec) o (w : R) :
    w * at_opt n x o = sum n (fun j => (if match o with Some k => Nat.eqb k j | None => false end then w else k0) * x j).
  Proof.
    destruct o as [k|]; cbn [at_opt].
    - rewrite (sum_ext _ n _ (fun j => if Nat.eqb j k then w * x j else k0)).
      2:{ intros j _. rewrite (Nat.eqb_sym j k). destruct (Nat.eqb k j); ring. }
      destruct (Nat.ltb_spec k n).
      + rewrite sum_delta by assumption. reflexivity.
      + rewrite sum_delta_out by assumption. ring.
    - rewrite (sum_ext _ n _ (fun _ => k0)) by (intros; ring). rewrite sum_zero. ring.
  Qed.

  Lemma stencil_is_matrix circ n a b c (x : vec) i : (i < n)%nat ->
    stencil3 circ n a b c x i = sum n (fun j => stencil_matrix circ n a b c i j * x j).
  Proof.
    intros Hi. unfold stencil3, stencil_matrix.
    rewrite (at_opt_sum n x (predc circ n i) a), (at_opt_sum n x (succc circ n i) c).
    replace (b * x i) with (sum n (fun j => (if Nat.eqb i j then b else k0) * x j)).
    2:{ rewrite (sum_ext _ n _ (fun j => if Nat.eqb j i then b * x j else k0)).
        - apply sum_delta. exact Hi.
        - intros j _. rewrite (Nat.eqb_sym j i). destruct (Nat.eqb i j); ring. }
    rewrite <- !sum_add. apply sum_ext. intros j _. ring.
  Qed.

  Lemma stencil_matrix_transpose circ n a b c i j : (i < n)%nat -> (j < n)%nat ->
    stencil_matrix circ n c b a j i = stencil_matrix circ n a b c i j.
  Proof.
    intros Hi Hj. unfold stencil_matrix, predc, succc.
    destruct circ;
      destruct (Nat.eqb_spec i 0), (Nat.eqb_spec j 0), (Nat.eqb_spec (i + 1) n), (Nat.eqb_spec (j + 1) n);
      repeat match goal with |- context [Nat.eqb ?p ?q] => destruct (Nat.eqb_spec p q) end;
      try lia; ring.
  Qed.

  Theorem findiff_adjoint circ n a b c :
    kconj a = a -> kconj b = b -> kconj c = c -> adjoint_pair (findiff_op (R:=R) circ n a b c).
  Proof.
    intros Ha Hb Hc u v. cbn [findiff_op dom ran fwd adj].
    pose proof (matop_adjoint R n n (stencil_matrix circ n a b c) u v) as M. cbn [matop dom ran fwd adj] in M.
    rewrite (inner_ext R n _ (fun i => sum n (fun j => stencil_matrix circ n a b c i j * u j)) v v).
    2:{ intros i Hi. apply stencil_is_matrix. exact Hi. } 2:{ reflexivity. }
    rewrite M. apply inner_ext; [reflexivity|]. intros j Hj.
    rewrite stencil_is_matrix by exact Hj. apply sum_ext. intros i Hi.
    rewrite stencil_matrix_transpose by assumption.
    unfold stencil_matrix. rewrite !kconj_add.
    repeat match goal with |- context [if ?t then _ else _] => destruct t end;
      rewrite ?Ha, ?Hb, ?Hc, ?kconj_0; reflexivity.
  Qed.

  (* documented stencils: forward (0,-1,1): x[i+1]-x[i]; backward (-1,1,0): x[i]-x[i-1]; central: (x[i+1]-x[i-1])/2
     (the central kernel is (-h,0,h) with 2h = 1) *)
  Theorem findiff_forward_spec circ n (x : vec) i :
    stencil3 circ n k0 (- k1) k1 x i = at_opt n x (succc circ n i) - x i.
  Proof. unfold stencil3. ring. Qed.
  Theorem findiff_backward_spec circ n (x : vec) i :
    stencil3 circ n (- k1) k1 k0 x i = x i - at_opt n x (predc circ n i).
  Proof. unfold stencil3. ring. Qed.
  Theorem findiff_central_spec circ n (h : R) (x : vec) i :
    stencil3 circ n (- h) k0 h x i = h * (at_opt n x (succc circ n i) - at_opt n x (predc circ n i)).
  Proof. unfold stencil3. ring. Qed.
End ElemOpsProofs.
