(* Linearity (C02) and documented action (C09) of the elementary operator models. *)
From MrVerif Require Import Base.Prelude Base.StarRing Base.Sums Model.OpAlg Model.ZeroPad Model.ElemOps
  Proofs.OpAlgProofs Proofs.ElemOpsProofs Proofs.AlongProofs.
Local Open Scope nat_scope.

Section ElemOpsWf.
  Variable R : StarRing.
  Add Ring Rr6 : (k_ring R).
  Local Open Scope K_scope.
  Notation vec := (nat -> R).
  Notation linop := (linop R).

  Lemma gather_linear n m g : linear_map m (gather (R:=R) n g).
  Proof. intros a b x y s _. unfold gather. destruct (g s) as [r|]; [destruct (Nat.ltb r n)|]; ring. Qed.
  Lemma gather_ext n m g : ext_map n m (gather (R:=R) n g).
  Proof.
    intros x y H s _. unfold gather. destruct (g s) as [r|]; [|reflexivity].
    destruct (Nat.ltb_spec r n); [apply H; assumption|reflexivity].
  Qed.
  Lemma scatter_add_linear m n g : linear_map n (scatter_add (R:=R) m g).
  Proof.
    intros a b x y r _. unfold scatter_add. rewrite <- !sum_mul_l, <- sum_add. apply sum_ext. intros s _.
    destruct (g s) as [r'|]; [destruct (Nat.eqb r' r)|]; ring.
  Qed.
  Lemma scatter_add_ext m n g : ext_map m n (scatter_add (R:=R) m g).
  Proof.
    intros x y H r _. unfold scatter_add. apply sum_ext. intros s Hs. rewrite (H s Hs). reflexivity.
  Qed.

  Theorem cart_sampling_wf nr ns idx : wf (cart_sampling (R:=R) nr ns idx).
  Proof.
    unfold wf. cbn [cart_sampling dom ran fwd adj].
    repeat split; [apply gather_linear|apply gather_ext|apply scatter_add_linear|apply scatter_add_ext].
  Qed.
  Theorem zeropad_wf old new : wf (zeropad_op (R:=R) old new).
  Proof.
    unfold wf, zeropad_op, pad_vec. cbn [dom ran fwd adj].
    repeat split; [apply gather_linear|apply gather_ext|apply gather_linear|apply gather_ext].
  Qed.
  Theorem perm_wf n p q : wf (perm_op (R:=R) n p q).
  Proof.
    unfold wf, perm_op. cbn [dom ran fwd adj].
    repeat split; [apply gather_linear|apply gather_ext|apply gather_linear|apply gather_ext].
  Qed.
  Theorem diag_wf n d : wf (diag_op (R:=R) n d).
  Proof.
    unfold wf. cbn [diag_op dom ran fwd adj]. repeat split.
    - intros a b x y i _. ring.
    - intros x y H i Hi. rewrite (H i Hi). reflexivity.
    - intros a b x y i _. ring.
    - intros x y H i Hi. rewrite (H i Hi). reflexivity.
  Qed.
  Theorem sens_wf ncoil npix csm : (0 < npix)%nat -> wf (sens_op (R:=R) ncoil npix csm).
  Proof.
    intros Hp. unfold wf. cbn [sens_op dom ran fwd adj]. repeat split.
    - intros a b x y i _. ring.
    - intros x y H i _. rewrite (H (i mod npix)%nat) by (apply Nat.mod_upper_bound; lia). reflexivity.
    - intros a b x y r _. rewrite <- !sum_mul_l, <- sum_add. apply sum_ext. intros; ring.
    - intros x y H r Hr. apply sum_ext. intros c Hc. rewrite (H (c * npix + r)%nat) by nia. reflexivity.
  Qed.

  Lemma at_opt_linear n a b (x y : vec) o :
    at_opt n (fun j => a * x j + b * y j) o = a * at_opt n x o + b * at_opt n y o.
  Proof. destruct o as [k|]; cbn [at_opt]; [destruct (Nat.ltb k n)|]; ring. Qed.
  Lemma at_opt_ext n (x y : vec) o : (forall j, (j < n)%nat -> x j = y j) -> at_opt n x o = at_opt n y o.
  Proof.
    intros H. destruct o as [k|]; cbn [at_opt]; [|reflexivity].
    destruct (Nat.ltb_spec k n); [apply H; assumption|reflexivity].
  Qed.
  Theorem findiff_wf circ n a b c : wf (findiff_op (R:=R) circ n a b c).
  Proof.
    unfold wf. cbn [findiff_op dom ran fwd adj]. unfold stencil3. repeat split.
    - intros p q x y i _. rewrite !at_opt_linear. ring.
    - intros x y H i Hi. rewrite (at_opt_ext n x y _ H), (at_opt_ext n x y (succc circ n i) H), (H i Hi). reflexivity.
    - intros p q x y i _. rewrite !at_opt_linear. ring.
    - intros x y H i Hi. rewrite (at_opt_ext n x y _ H), (at_opt_ext n x y (succc circ n i) H), (H i Hi). reflexivity.
  Qed.

  (* ---------- C09: Cartesian sampling ---------- *)
  (* S S^H = identity on unique in-range samples *)
  Theorem sampling_SSH nr ns (g : nat -> option nat) (y : vec) s r :
    (s < ns)%nat -> g s = Some r -> (r < nr)%nat ->
    (forall s', (s' < ns)%nat -> g s' = Some r -> s' = s) ->
    gather nr g (scatter_add ns g y) s = y s.
  Proof.
    intros Hs Hg Hr Hu. unfold gather. rewrite Hg. destruct (Nat.ltb_spec r nr); [|lia].
    apply scatter_add_unique; assumption.
  Qed.
  (* out-of-range / missing samples read zero *)
  Theorem sampling_zero_fill nr (g : nat -> option nat) (x : vec) s :
    (g s = None \/ exists r, g s = Some r /\ (nr <= r)%nat) -> gather nr g x s = k0.
  Proof.
    intros [H|[r [H Hr]]]; unfold gather; rewrite H; [reflexivity|].
    destruct (Nat.ltb_spec r nr); [lia|reflexivity].
  Qed.
  (* S^H S is multiplication with the mask S^H S 1 (the buffer CartesianSamplingGramOp stores) ... *)
  Theorem sampling_gram_mask nr ns (g : nat -> option nat) (x : vec) r : (r < nr)%nat ->
    scatter_add ns g (gather nr g x) r = scatter_add ns g (gather nr g (fun _ => k1)) r * x r.
  Proof.
    intros Hr. unfold scatter_add. rewrite <- sum_mul_r. apply sum_ext. intros s _. unfold gather.
    destruct (g s) as [r'|]; [|ring].
    destruct (Nat.eqb_spec r' r) as [->|]; [|ring].
    destruct (Nat.ltb_spec r nr); [ring|lia].
  Qed.
  (* ... and the mask is 0/1 when no grid point is sampled twice *)
  Theorem sampling_mask_01 nr ns (g : nat -> option nat) r : (r < nr)%nat ->
    (forall s s', (s < ns)%nat -> (s' < ns)%nat -> g s = Some r -> g s' = Some r -> s = s') ->
    scatter_add ns g (gather nr g (fun _ => (k1 : R))) r = k1 \/ scatter_add ns g (gather nr g (fun _ => (k1 : R))) r = k0.
  Proof.
    intros Hr Hinj.
    assert (D : (exists s, (s < ns)%nat /\ g s = Some r) \/ (forall s, (s < ns)%nat -> g s <> Some r)).
    { clear Hinj. induction ns as [|m IH].
      - right. intros s Hs. lia.
      - destruct IH as [[s [Hs Hg]]|IH].
        + left. exists s. split; [lia|exact Hg].
        + destruct (g m) as [r'|] eqn:E.
          * destruct (Nat.eq_dec r' r) as [->|Hne].
            -- left. exists m. split; [lia|exact E].
            -- right. intros s Hs. destruct (Nat.eq_dec s m) as [->|]; [rewrite E; congruence|apply IH; lia].
          * right. intros s Hs. destruct (Nat.eq_dec s m) as [->|]; [rewrite E; discriminate|apply IH; lia]. }
    destruct D as [[s [Hs Hg]]|D].
    - left. rewrite (scatter_add_unique R ns g _ r s Hs Hg).
      + unfold gather. rewrite Hg. destruct (Nat.ltb_spec r nr); [reflexivity|lia].
      + intros s' Hs' Hg'. apply (Hinj s' s); assumption.
    - right. apply scatter_add_none. exact D.
  Qed.

  (* the pre-repair adjoint (scatter_ = last writer wins) is NOT the adjoint when a grid point is sampled twice *)
End ElemOpsWf.

(* witness over Z: samples [0;1;1] on a grid of 2: <A u, v> <> <u, A_overwrite^H v> *)
Lemma cart_sampling_overwrite_not_adjoint :
  exists (nr ns : nat) (idx : nat -> option nat), ~ adjoint_pair (cart_sampling_overwrite (R:=ZRing) nr ns idx).
Proof.
  exists 2%nat, 3%nat, (fun s => match s with O => Some 0%nat | _ => Some 1%nat end).
  intros H. specialize (H (fun _ => 1%Z) (fun _ => 1%Z)). vm_compute in H. discriminate H.
Qed.
