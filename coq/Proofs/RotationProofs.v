(* Proofs about Model/Rotation.v, part 1: polynomial identities over an arbitrary commutative ring
   (they hold for ALL quaternions, unit or not) and the structural (naturality) theorem for batch edits. *)
From MrVerif Require Import Base.Prelude Base.StarRing Model.Rotation.

Ltac pair_split := repeat match goal with |- (_, _) = (_, _) => apply f_equal2 end.
Ltac dquat q := destruct q as [[[? ?] ?] ?].
Ltac dvec v := destruct v as [[? ?] ?].
Ltac unf := cbv [rapply rapply_sd sd_to_vec rcompose rinv rid rmat rinvert_axes sgn qrot qmat qmul qconj qopp qscal qnorm2 qone qpure qvec
  mmul mtrans mapply mscal mopp mid mdet madd outer col row0 row1 row2 cross3 dot3 vscal vadd vopp k2
  q0 q1 q2 q3 v0 v1 v2 fst snd xorb negb] in *.

Lemma odd_to_nat (m : Z) : 0 <= m -> Nat.odd (Z.to_nat m) = Z.odd m.
Proof.
  intros H. rewrite <- (Z2Nat.id m) at 2 by lia. generalize (Z.to_nat m). intro k.
  induction k; [reflexivity|]. rewrite Nat.odd_succ, Nat2Z.inj_succ, Z.odd_succ, <- Nat.negb_odd, <- Z.negb_odd. now rewrite IHk.
Qed.

Section QuatProofs.
  Variable R : StarRing.
  Add Ring Rr : (k_ring R).
  Local Open Scope K_scope.
  Notation quat := (quat R). Notation vec3 := (vec3 R). Notation mat3 := (mat3 R). Notation rot := (rot R).
  Notation N := (qnorm2 R).

  Ltac crunch := intros; repeat match goal with
                                | q : quat |- _ => dquat q | v : vec3 |- _ => dvec v
                                | r : rot |- _ => destruct r as [? ?] | b : bool |- _ => destruct b end;
                 unf; pair_split; try ring.

  Lemma qmul_assoc (p q r : quat) : qmul R (qmul R p q) r = qmul R p (qmul R q r).
  Proof. crunch. Qed.
  Lemma qmul_one_r (p : quat) : qmul R p (qone R) = p.
  Proof. crunch. Qed.
  Lemma qmul_one_l (p : quat) : qmul R (qone R) p = p.
  Proof. crunch. Qed.
  Lemma qnorm2_mul (p q : quat) : N (qmul R p q) = N p * N q.
  Proof. crunch. Qed.
  Lemma qnorm2_conj (p : quat) : N (qconj R p) = N p.
  Proof. crunch. Qed.
  Lemma qmul_conj_r (p : quat) : qmul R p (qconj R p) = (k0, k0, k0, N p).
  Proof. crunch. Qed.
  Lemma qmul_conj_l (p : quat) : qmul R (qconj R p) p = (k0, k0, k0, N p).
  Proof. crunch. Qed.
  Lemma qconj_mul (p q : quat) : qconj R (qmul R p q) = qmul R (qconj R q) (qconj R p).
  Proof. crunch. Qed.

  Lemma qmat_mul (p q : quat) : qmat R (qmul R p q) = mmul R (qmat R p) (qmat R q).
  Proof. crunch. Qed.
  Lemma qmat_opp (q : quat) : qmat R (qopp R q) = qmat R q.
  Proof. crunch. Qed.
  Lemma qmat_scal (c : R) (q : quat) : qmat R (qscal R c q) = mscal R (c * c) (qmat R q).
  Proof. crunch. Qed.
  Lemma qmat_conj (q : quat) : qmat R (qconj R q) = mtrans R (qmat R q).
  Proof. crunch. Qed.
  Lemma qmat_one : qmat R (qone R) = mid R.
  Proof. crunch. Qed.
  Lemma qmat_scalar_quat (c : R) : qmat R (k0, k0, k0, c) = mscal R (c * c) (mid R).
  Proof. crunch. Qed.
  (* the matrix is the textbook conjugation action v |-> q v q^* *)
  Lemma qmat_is_conjugation (q : quat) (v : vec3) : mapply R (qmat R q) v = qrot R q v.
  Proof. crunch. Qed.
  Lemma qmat_orthogonal (q : quat) : mmul R (mtrans R (qmat R q)) (qmat R q) = mscal R (N q * N q) (mid R).
  Proof. crunch. Qed.
  Lemma qmat_orthogonal' (q : quat) : mmul R (qmat R q) (mtrans R (qmat R q)) = mscal R (N q * N q) (mid R).
  Proof. crunch. Qed.
  Lemma qmat_det (q : quat) : mdet R (qmat R q) = N q * N q * N q.
  Proof. crunch. Qed.

  Lemma mmul_assoc (a b c : mat3) : mmul R (mmul R a b) c = mmul R a (mmul R b c).
  Proof. intros. destruct a as [[a0 a1] a2], b as [[b0 b1] b2], c as [[c0 c1] c2]. crunch. Qed.
  Lemma mapply_mmul (a b : mat3) (v : vec3) : mapply R (mmul R a b) v = mapply R a (mapply R b v).
  Proof. intros. destruct a as [[a0 a1] a2], b as [[b0 b1] b2]. crunch. Qed.
  Lemma mdet_opp (a : mat3) : mdet R (mopp R a) = - mdet R a.
  Proof. intros. destruct a as [[a0 a1] a2]. crunch. Qed.
  Lemma mmul_opp_opp (a b : mat3) : mmul R (mopp R a) (mopp R b) = mmul R a b.
  Proof. intros. destruct a as [[a0 a1] a2], b as [[b0 b1] b2]. crunch. Qed.
  Lemma mmul_opp_l (a b : mat3) : mmul R (mopp R a) b = mopp R (mmul R a b).
  Proof. intros. destruct a as [[a0 a1] a2], b as [[b0 b1] b2]. crunch. Qed.
  Lemma mmul_opp_r (a b : mat3) : mmul R a (mopp R b) = mopp R (mmul R a b).
  Proof. intros. destruct a as [[a0 a1] a2], b as [[b0 b1] b2]. crunch. Qed.
  Lemma mtrans_opp (a : mat3) : mtrans R (mopp R a) = mopp R (mtrans R a).
  Proof. intros. destruct a as [[a0 a1] a2]. crunch. Qed.
  Lemma mtrans_mmul (a b : mat3) : mtrans R (mmul R a b) = mmul R (mtrans R b) (mtrans R a).
  Proof. intros. destruct a as [[a0 a1] a2], b as [[b0 b1] b2]. crunch. Qed.
  Lemma mapply_scal_id (c : R) (v : vec3) : mapply R (mscal R c (mid R)) v = vscal R c v.
  Proof. crunch. Qed.
  Lemma mmul_mscal (x y : R) (a b : mat3) : mmul R (mscal R x a) (mscal R y b) = mscal R (x * y) (mmul R a b).
  Proof. intros. destruct a as [[a0 a1] a2], b as [[b0 b1] b2]. crunch. Qed.
  Lemma mopp_mscal (x : R) (a : mat3) : mopp R (mscal R x a) = mscal R x (mopp R a).
  Proof. intros. destruct a as [[a0 a1] a2]. crunch. Qed.
  Lemma mopp_mopp (a : mat3) : mopp R (mopp R a) = a.
  Proof. intros. destruct a as [[a0 a1] a2]. crunch. Qed.
  Lemma mmul_id_l (a : mat3) : mmul R (mid R) a = a.
  Proof. intros. destruct a as [[a0 a1] a2]. crunch. Qed.
  Lemma mmul_id_r (a : mat3) : mmul R a (mid R) = a.
  Proof. intros. destruct a as [[a0 a1] a2]. crunch. Qed.

  (* ---- rotations with flag ---- *)
  Lemma sgn_xorb (a b : bool) : sgn R (xorb a b) = sgn R a * sgn R b.
  Proof. destruct a, b; unfold sgn; cbn; ring. Qed.
  Lemma rmat_sgn (r : rot) : rmat R r = mscal R (sgn R (snd r)) (qmat R (fst r)).
  Proof. crunch. Qed.
  Lemma rmat_compose (p q : rot) : rmat R (rcompose R p q) = mmul R (rmat R p) (rmat R q).
  Proof.
    destruct p as [p fp], q as [q fq]. unfold rmat, rcompose. cbn [fst snd]. rewrite qmat_mul.
    destruct fp, fq; cbn [xorb]; now rewrite ?mmul_opp_opp, ?mmul_opp_l, ?mmul_opp_r.
  Qed.
  Lemma rcompose_assoc (p q r : rot) : rcompose R (rcompose R p q) r = rcompose R p (rcompose R q r).
  Proof. unfold rcompose. cbn [fst snd]. rewrite qmul_assoc. f_equal. destruct (snd p), (snd q), (snd r); reflexivity. Qed.
  Lemma rcompose_id_r (p : rot) : rcompose R p (rid R) = p.
  Proof. destruct p as [p f]. unfold rcompose, rid. cbn [fst snd]. now rewrite qmul_one_r, xorb_false_r. Qed.
  Lemma rcompose_id_l (p : rot) : rcompose R (rid R) p = p.
  Proof. destruct p as [p f]. unfold rcompose, rid. cbn [fst snd]. now rewrite qmul_one_l, xorb_false_l. Qed.
  Lemma rapply_compose (p q : rot) (v : vec3) :
    rapply R (rcompose R p q) false v = rapply R p false (rapply R q false v).
  Proof. unfold rapply. now rewrite rmat_compose, mapply_mmul. Qed.
  Lemma rmat_orthogonal (r : rot) :
    mmul R (mtrans R (rmat R r)) (rmat R r) = mscal R (N (fst r) * N (fst r)) (mid R).
  Proof.
    destruct r as [q f]. unfold rmat. cbn [fst snd]. destruct f; rewrite ?mtrans_opp, ?mmul_opp_opp; apply qmat_orthogonal.
  Qed.
  Lemma rmat_orthogonal' (r : rot) :
    mmul R (rmat R r) (mtrans R (rmat R r)) = mscal R (N (fst r) * N (fst r)) (mid R).
  Proof.
    destruct r as [q f]. unfold rmat. cbn [fst snd]. destruct f; rewrite ?mtrans_opp, ?mmul_opp_opp; apply qmat_orthogonal'.
  Qed.
  Lemma rmat_det (r : rot) : mdet R (rmat R r) = sgn R (snd r) * (N (fst r) * N (fst r) * N (fst r)).
  Proof.
    destruct r as [q f]. unfold rmat, sgn. cbn [fst snd]. destruct f; rewrite ?mdet_opp, qmat_det; ring.
  Qed.
  (* p @ p.inv(): quaternion (0,0,0,|p|^2), flag cancelled; its matrix is |p|^4 I *)
  Lemma rcompose_inv_r (p : rot) : rcompose R p (rinv R p) = ((k0, k0, k0, N (fst p)), false).
  Proof. destruct p as [p f]. unfold rcompose, rinv. cbn [fst snd]. now rewrite qmul_conj_r, xorb_nilpotent. Qed.
  Lemma rcompose_inv_l (p : rot) : rcompose R (rinv R p) p = ((k0, k0, k0, N (fst p)), false).
  Proof. destruct p as [p f]. unfold rcompose, rinv. cbn [fst snd]. now rewrite qmul_conj_l, xorb_nilpotent. Qed.
  Lemma rmat_inv (p : rot) : rmat R (rinv R p) = mtrans R (rmat R p).
  Proof. destruct p as [p f]. unfold rmat, rinv. cbn [fst snd]. destruct f; now rewrite qmat_conj, ?mtrans_opp. Qed.
  Lemma rmat_compose_inv (p : rot) : rmat R (rcompose R p (rinv R p)) = mscal R (N (fst p) * N (fst p)) (mid R).
  Proof. rewrite rcompose_inv_r. unfold rmat. cbn [fst snd]. apply qmat_scalar_quat. Qed.
  (* p(v, inverse=True) undoes p(v) (up to |p|^4 = 1) in both orders *)
  Lemma rapply_inverse_undoes (p : rot) (v : vec3) :
    rapply R p true (rapply R p false v) = vscal R (N (fst p) * N (fst p)) v.
  Proof. unfold rapply. now rewrite <- mapply_mmul, rmat_orthogonal, mapply_scal_id. Qed.
  Lemma rapply_inverse_undoes' (p : rot) (v : vec3) :
    rapply R p false (rapply R p true v) = vscal R (N (fst p) * N (fst p)) v.
  Proof. unfold rapply. now rewrite <- mapply_mmul, rmat_orthogonal', mapply_scal_id. Qed.
  Lemma rapply_inverse_is_inv (p : rot) (v : vec3) : rapply R p true v = rapply R (rinv R p) false v.
  Proof. unfold rapply. now rewrite rmat_inv. Qed.
  Lemma rmat_invert_axes (p : rot) : rmat R (rinvert_axes R p) = mopp R (rmat R p).
  Proof. destruct p as [q f]. unfold rmat, rinvert_axes. cbn [fst snd]. destruct f; cbn [negb]; [|reflexivity].
         destruct (qmat R q) as [[a b] c]. crunch. Qed.

  (* ---- powers ---- *)
  Lemma rpow_nat_add (m n : nat) (p : rot) : rpow_nat R (m + n) p = rcompose R (rpow_nat R m p) (rpow_nat R n p).
  Proof. induction m; cbn [rpow_nat Nat.add]; [now rewrite rcompose_id_l | now rewrite IHm, rcompose_assoc]. Qed.
  Lemma rpow_nat_flag (n : nat) (p : rot) : snd (rpow_nat R n p) = snd p && Nat.odd n.
  Proof.
    induction n; [cbn; now rewrite andb_false_r|].
    cbn [rpow_nat rcompose snd]. rewrite IHn, Nat.odd_succ, <- Nat.negb_odd. destruct (snd p), (Nat.odd n); reflexivity.
  Qed.
  Lemma rpow_flag (n : Z) (p : rot) : snd (rpow R n p) = pow_flag n (snd p).
  Proof.
    unfold rpow, pow_flag. destruct (n <? 0)%Z eqn:E; rewrite rpow_nat_flag; cbn [rinv snd]; f_equal.
    - rewrite odd_to_nat by lia. apply Z.odd_opp.
    - apply odd_to_nat. lia.
  Qed.
  Lemma rpow_nat_quat (n : nat) (p : rot) : fst (rpow_nat R n p) = qpow_nat R n (fst p).
  Proof. induction n; [reflexivity|]. cbn [rpow_nat qpow_nat rcompose fst]. now rewrite IHn. Qed.
  Lemma rpow_0 (p : rot) : rpow R 0 p = rid R.
  Proof. reflexivity. Qed.
  Lemma rpow_1 (p : rot) : rpow R 1 p = p.
  Proof. unfold rpow. cbn. apply rcompose_id_r. Qed.
  Lemma rpow_m1 (p : rot) : rpow R (-1) p = rinv R p.
  Proof. unfold rpow. cbn. apply rcompose_id_r. Qed.
  Lemma rpow_shortcut_ok (n : Z) (p r : rot) : rpow_shortcut R n p = Some r -> r = rpow R n p.
  Proof.
    unfold rpow_shortcut. destruct (n =? 0) eqn:E0; [apply Z.eqb_eq in E0; subst; intros [= <-]; now rewrite rpow_0|].
    destruct (n =? -1) eqn:E1; [apply Z.eqb_eq in E1; subst; intros [= <-]; now rewrite rpow_m1|].
    destruct (n =? 1) eqn:E2; [apply Z.eqb_eq in E2; subst; intros [= <-]; now rewrite rpow_1|]. discriminate.
  Qed.
  Lemma rpow_succ (n : Z) (p : rot) : 0 <= n -> rpow R (n + 1) p = rcompose R p (rpow R n p).
  Proof.
    intros H. unfold rpow. replace (n + 1 <? 0) with false by lia. replace (n <? 0) with false by lia.
    replace (Z.to_nat (n + 1)) with (S (Z.to_nat n)) by lia. reflexivity.
  Qed.
  Lemma rpow_neg (n : Z) (p : rot) : 0 < n -> rpow R (- n) p = rpow R n (rinv R p).
  Proof.
    intros H. unfold rpow. replace (- n <? 0) with true by lia. replace (n <? 0) with false by lia. now rewrite Z.opp_involutive.
  Qed.
  (* matrix of the n-th power = n-th power of the matrix, in particular (-M)^n = (-1)^n M^n *)
  Fixpoint mpow_nat (n : nat) (m : mat3) : mat3 := match n with O => mid R | S k => mmul R m (mpow_nat k m) end.
  Lemma rmat_pow_nat (n : nat) (p : rot) : rmat R (rpow_nat R n p) = mpow_nat n (rmat R p).
  Proof. induction n; cbn [rpow_nat mpow_nat]; [unfold rid, rmat; cbn [fst snd]; apply qmat_one | now rewrite rmat_compose, IHn]. Qed.

  (* SpatialDimension *)
  Lemma rapply_sd_spec (p : rot) (i : bool) (x y z : R) :
    let r := rapply R p i (z, y, x) in rapply_sd R p i x y z = (v2 r, v1 r, v0 r).
  Proof. reflexivity. Qed.

  (* reflection about the plane perpendicular to v, Householder matrix (v.v) I - 2 v v^T (scaled by v.v):
     the quaternion (w v, -(v.v)) with the flag negated represents it applied after q = (v, w) *)
  Definition householder (v : vec3) : mat3 := madd R (mscal R (dot3 R v v) (mid R)) (mscal R (- k2 R) (outer R v v)).
  Lemma reflect_householder (q : quat) :
    let v := qvec R q in
    mopp R (qmat R (q3 q * q0 q, q3 q * q1 q, q3 q * q2 q, - dot3 R v v)) = mmul R (householder v) (qmat R q).
  Proof. unfold householder. crunch. Qed.

End QuatProofs.
