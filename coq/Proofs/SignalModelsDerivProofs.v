(* C17 - the analytic partial derivatives of the signal models (Coquelicot is_derive, auto_derive). *)
From Coq Require Import Reals Lra Psatz.
From Coquelicot Require Import Coquelicot.
From MrVerif Require Import Model.SignalModels Model.Constraints Proofs.SignalModelsProofs.
Open Scope R_scope.

Lemma den_nz : forall t1 L tr, tr <> 0 -> 1 + - (t1 * (L * / tr)) <> 0 -> tr + - (t1 * L) <> 0.
Proof.
  intros t1 L tr Htr H E. apply H.
  replace (1 + - (t1 * (L * / tr))) with ((tr + - (t1 * L)) * / tr) by (field; exact Htr). rewrite E. ring.
Qed.
(* after auto_derive: bring both sides to the same atoms (a - b / a / b unfolded), then field *)
Ltac dfield := cbv zeta; unfold Rdiv, Rminus in *; field; repeat split; auto; try lra; try (apply den_nz; assumption).
Ltac dsolve := auto_derive; [repeat split; auto | dfield].

(* ---- inversion recovery / saturation recovery / mono-exponential decay -------------------------------------------- *)
Lemma ir_derive_m0 : forall m0 t1 ti, is_derive (fun x => ir_code x t1 ti) m0 (ir_d_m0 m0 t1 ti).
Proof. intros. unfold ir_code, ir_d_m0. dsolve. Qed.
Lemma ir_derive_t1 : forall m0 t1 ti, t1 <> 0 -> is_derive (fun x => ir_code m0 x ti) t1 (ir_d_t1 m0 t1 ti).
Proof. intros. unfold ir_code, ir_d_t1. dsolve. Qed.
Lemma sr_derive_m0 : forall m0 t1 ti, is_derive (fun x => sr_code x t1 ti) m0 (sr_d_m0 m0 t1 ti).
Proof. intros. unfold sr_code, sr_d_m0. dsolve. Qed.
Lemma sr_derive_t1 : forall m0 t1 ti, t1 <> 0 -> is_derive (fun x => sr_code m0 x ti) t1 (sr_d_t1 m0 t1 ti).
Proof. intros. unfold sr_code, sr_d_t1. dsolve. Qed.
Lemma mono_derive_m0 : forall m0 tc t, is_derive (fun x => mono_code x tc t) m0 (mono_d_m0 m0 tc t).
Proof. intros. unfold mono_code, mono_d_m0. dsolve. Qed.
Lemma mono_derive_tc : forall m0 tc t, tc <> 0 -> is_derive (fun x => mono_code m0 x t) tc (mono_d_tc m0 tc t).
Proof. intros. unfold mono_code, mono_d_tc. dsolve. Qed.

(* ---- MOLLI ----------------------------------------------------------------------------------------------------------- *)
Lemma molli_derive_a : forall a c t1 ti, is_derive (fun x => molli_code x c t1 ti) a (molli_d_a a c t1 ti).
Proof. intros. unfold molli_code, molli_d_a. dsolve. Qed.
Lemma molli_derive_c : forall a c t1 ti, t1 <> 0 -> is_derive (fun x => molli_code a x t1 ti) c (molli_d_c a c t1 ti).
Proof. intros. unfold molli_code, molli_d_c. dsolve. Qed.
Lemma molli_derive_t1 : forall a c t1 ti, t1 <> 0 -> is_derive (fun x => molli_code a c x ti) t1 (molli_d_t1 a c t1 ti).
Proof. intros. unfold molli_code, molli_d_t1. dsolve. Qed.

(* ---- transient steady state -------------------------------------------------------------------------------------- *)
Lemma tss_derive_m0 : forall m0 t1 fa delay scal tr t, tr <> 0 -> t1 <> 0 -> 1 - t1 * (ln (cos fa) / tr) <> 0 ->
  is_derive (fun x => tss_code x t1 fa delay scal tr t) m0 (tss_d_m0 m0 t1 fa delay scal tr t).
Proof. intros. unfold tss_code, tss_d_m0. dsolve. Qed.
Lemma tss_derive_t1 : forall m0 t1 fa delay scal tr t, tr <> 0 -> t1 <> 0 -> 1 - t1 * (ln (cos fa) / tr) <> 0 ->
  is_derive (fun x => tss_code m0 x fa delay scal tr t) t1 (tss_d_t1 m0 t1 fa delay scal tr t).
Proof. intros. unfold tss_code, tss_d_t1. dsolve. Qed.
Lemma tss_derive_fa : forall m0 t1 fa delay scal tr t, 0 < cos fa -> tr <> 0 -> t1 <> 0 -> 1 - t1 * (ln (cos fa) / tr) <> 0 ->
  is_derive (fun x => tss_code m0 t1 x delay scal tr t) fa (tss_d_fa m0 t1 fa delay scal tr t).
Proof. intros. unfold tss_code, tss_d_fa. dsolve. Qed.
(* on the physical domain the denominators are non-zero *)
Lemma tss_den_domain : forall t1 fa tr, 0 < t1 -> 0 < tr -> 0 < cos fa -> 1 - t1 * (ln (cos fa) / tr) <> 0.
Proof.
  intros t1 fa tr Ht Htr Hc E. apply (tss_domain t1 fa tr Ht Htr Hc).
  replace (1 / t1 - ln (cos fa) / tr) with ((1 - t1 * (ln (cos fa) / tr)) / t1) by (field; split; lra).
  rewrite E. unfold Rdiv. ring.
Qed.

(* ---- WASABI / WASABITI: the parameters outside the sinc ------------------------------------------------------------- *)
Lemma wasabi_derive_c : forall b0 rb1 c d b1n g off tp,
  is_derive (fun x => wasabi_code b0 rb1 x d b1n g off tp) c (wasabi_d_c b0 rb1 c d b1n g off tp).
Proof. intros. unfold wasabi_code, wasabi_d_c. cbv zeta. generalize (sinc (tp * sqrt ((b1n * rb1 * g) ^ 2 + (off - b0) ^ 2))). intro s. dsolve. Qed.
Lemma wasabi_derive_d : forall b0 rb1 c d b1n g off tp,
  is_derive (fun x => wasabi_code b0 rb1 c x b1n g off tp) d (wasabi_d_d b0 rb1 c d b1n g off tp).
Proof. intros. unfold wasabi_code, wasabi_d_d. cbv zeta. generalize (sinc (tp * sqrt ((b1n * rb1 * g) ^ 2 + (off - b0) ^ 2))). intro s. dsolve. Qed.
Lemma wasabiti_derive_t1 : forall b0 rb1 t1 b1n g off tp trec, t1 <> 0 ->
  is_derive (fun x => wasabiti_code b0 rb1 x b1n g off tp trec) t1 (wasabiti_d_t1 b0 rb1 t1 b1n g off tp trec).
Proof. intros. unfold wasabiti_code, wasabiti_d_t1. cbv zeta. generalize (sinc (tp * sqrt ((b1n * rb1 * g) ^ 2 + (off - b0) ^ 2))). intro s. dsolve. Qed.

(* ---- constraints: derivative of the two-sided map is positive (another reading of "strictly monotone") ---------------- *)
Lemma fwd_ab_derive : forall a b beta x,
  is_derive (fun t => fwd_ab a b beta t) x ((b - a) * beta * sigmoid beta x * (1 - sigmoid beta x)).
Proof.
  intros. unfold fwd_ab, sigmoid. pose proof (exp_pos (- (beta * x))).
  auto_derive; [lra|]. unfold Rdiv, Rminus. field. lra.
Qed.
