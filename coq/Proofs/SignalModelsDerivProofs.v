(* C17 - the analytic partial derivatives of the signal models (Coquelicot is_derive, auto_derive). *)
From Coq Require Import Reals Lra Psatz.
From Coquelicot Require Import Coquelicot.
From MrVerif Require Import Model.SignalModels Model.Constraints Proofs.SignalModelsProofs.
Open Scope R_scope.

Lemma den_nz : forall t1 L tr, tr <> 0 -> 1 + - (t1 * (L * / tr)) <> 0 -> tr + - (t1 * L) <> 0.
Proof.
  intros t1 L tr Htr H E. apply H.
  replace (1 + - (t1 * (L * / tr))) with ((tr + - (t1 * L)) * / tr) by (field; exact Htr). rewrite E. ring.
Qed.
(* after auto_derive: bring both sides to the same atoms (a - b / a / b unfolded), then field *)
Ltac dfield := cbv zeta; unfold Rdiv, Rminus in *; field; repeat split; auto; try lra; try (apply den_nz; assumption).
Ltac dsolve := auto_derive; [repeat split; auto | dfield].

(* ---- inversion recovery / saturation recovery / mono-exponential decay -------------------------------------------- *)
Lemma ir_derive_m0 : forall m0 t1 ti, is_derive (fun x => ir_code x t1 ti) m0 (ir_d_m0 m0 t1 ti).
Proof. intros. unfold ir_code, ir_d_m0. dsolve. Qed.
Lemma ir_derive_t1 : forall m0 t1 ti, t1 <> 0 -> is_derive (fun x => ir_code m0 x ti) t1 (ir_d_t1 m0 t1 ti).
Proof. intros. unfold ir_code, ir_d_t1. dsolve. Qed.
Lemma sr_derive_m0 : forall m0 t1 ti, is_derive (fun x => sr_code x t1 ti) m0 (sr_d_m0 m0 t1 ti).
Proof. intros. unfold sr_code, sr_d_m0. dsolve. Qed.
Lemma sr_derive_t1 : forall m0 t1 ti, t1 <> 0 -> is_derive (fun x => sr_code m0 x ti) t1 (sr_d_t1 m0 t1 ti).
Proof. intros. unfold sr_code, sr_d_t1. dsolve. Qed.
Lemma mono_derive_m0 : forall m0 tc t, is_derive (fun x => mono_code x tc t) m0 (mono_d_m0 m0 tc t).
Proof. intros. unfold mono_code, mono_d_m0. dsolve. Qed.
Lemma mono_derive_tc : forall m0 tc t, tc <> 0 -> is_derive (fun x => mono_code m0 x t) tc (mono_d_tc m0 tc t).
Proof. intros. unfold mono_code, mono_d_tc. dsolve. Qed.

(* ---- MOLLI ----------------------------------------------------------------------------------------------------------- *)
Lemma molli_derive_a : forall a c t1 ti, is_derive (fun x => molli_code x c t1 ti) a (molli_d_a a c t1 ti).
Proof. intros. unfold molli_code, molli_d_a. dsolve. Qed.
Lemma molli_derive_c : forall a c t1 ti, t1 <> 0 -> is_derive (fun x => molli_code a x t1 ti) c (molli_d_c a c t1 ti).
Proof. intros. unfold molli_code, molli_d_c. dsolve. Qed.
Lemma molli_derive_t1 : forall a c t1 ti, t1 <> 0 -> is_derive (fun x => molli_code a c x ti) t1 (molli_d_t1 a c t1 ti).
Proof. intros. unfold molli_code, molli_d_t1. dsolve. Qed.

(* ---- transient steady state -------------------------------------------------------------------------------------- *)
Lemma tss_derive_m0 : forall m0 t1 fa delay scal tr t, tr <> 0 -> t1 <> 0 -> 1 - t1 * (ln (cos fa) / tr) <> 0 ->
  is_derive (fun x => tss_code x t1 fa delay scal tr t) m0 (tss_d_m0 m0 t1 fa delay scal tr t).
Proof. intros. unfold tss_code, tss_d_m0. dsolve. Qed.
Lemma tss_derive_t1 : forall m0 t1 fa delay scal tr t, tr <> 0 -> t1 <> 0 -> 1 - t1 * (ln (cos fa) / tr) <> 0 ->
  is_derive (fun x => tss_code m0 x fa delay scal tr t) t1 (tss_d_t1 m0 t1 fa delay scal tr t).
Proof. intros. unfold tss_code, tss_d_t1. dsolve. Qed.
Lemma tss_derive_fa : forall m0 t1 fa delay scal tr t, 0 < cos fa -> tr <> 0 -> t1 <> 0 -> 1 - t1 * (ln (cos fa) / tr) <> 0 ->
  is_derive (fun x => tss_code m0 t1 x delay scal tr t) fa (tss_d_fa m0 t1 fa delay scal tr t).
Proof. intros. unfold tss_code, tss_d_fa. dsolve. Qed.
(* on the physical domain the denominators are non-zero *)
Lemma tss_den_domain : forall t1 fa tr, 0 < t1 -> 0 < tr -> 0 < cos fa -> 1 - t1 * (ln (cos fa) / tr) <> 0.
Proof.
  intros t1 fa tr Ht Htr Hc E. apply (tss_domain t1 fa tr Ht Htr Hc).
  replace (1 / t1 - ln (cos fa) / tr) with ((1 - t1 * (ln (cos fa) / tr)) / t1) by (field; split; lra).
  rewrite E. unfold Rdiv. ring.
Qed.

(* ---- WASABI / WASABITI: the parameters outside the sinc ------------------------------------------------------------- *)
Lemma wasabi_derive_c : forall b0 rb1 c d b1n g off tp,
  is_derive (fun x => wasabi_code b0 rb1 x d b1n g off tp) c (wasabi_d_c b0 rb1 c d b1n g off tp).
Proof. intros. unfold wasabi_code, wasabi_d_c. cbv zeta. generalize (sinc (tp * sqrt ((b1n * rb1 * g) ^ 2 + (off - b0) ^ 2))). intro s. dsolve. Qed.
Lemma wasabi_derive_d : forall b0 rb1 c d b1n g off tp,
  is_derive (fun x => wasabi_code b0 rb1 c x b1n g off tp) d (wasabi_d_d b0 rb1 c d b1n g off tp).
Proof. intros. unfold wasabi_code, wasabi_d_d. cbv zeta. generalize (sinc (tp * sqrt ((b1n * rb1 * g) ^ 2 + (off - b0) ^ 2))). intro s. dsolve. Qed.
Lemma wasabiti_derive_t1 : forall b0 rb1 t1 b1n g off tp trec, t1 <> 0 ->
  is_derive (fun x => wasabiti_code b0 rb1 x b1n g off tp trec) t1 (wasabiti_d_t1 b0 rb1 t1 b1n g off tp trec).
Proof. intros. unfold wasabiti_code, wasabiti_d_t1. cbv zeta. generalize (sinc (tp * sqrt ((b1n * rb1 * g) ^ 2 + (off - b0) ^ 2))). intro s. dsolve. Qed.

(* ---- WASABI / WASABITI: the parameters inside the sinc, away from its removable singularity -------------------------- *)
Lemma sqrt_nz : forall q, 0 < q -> sqrt q <> 0.
Proof. intros q Hq E. apply sqrt_eq_0 in E; lra. Qed.
Lemma sumsq_pos_strict : forall u v, (u <> 0 \/ v <> 0) -> 0 < u ^ 2 + v ^ 2.
Proof.
  intros u v H. pose proof (pow2_ge_0 u). pose proof (pow2_ge_0 v).
  destruct H as [H|H]; [assert (0 < u ^ 2) by (destruct (Rdichotomy _ _ H); nra)|assert (0 < v ^ 2) by (destruct (Rdichotomy _ _ H); nra)]; lra.
Qed.
Lemma w_nz : forall u v tp, (u <> 0 \/ v <> 0) -> tp <> 0 -> tp * sqrt (u ^ 2 + v ^ 2) <> 0.
Proof.
  intros u v tp H Htp. apply Rmult_integral_contrapositive_currified; [exact Htp|]. apply sqrt_nz. apply sumsq_pos_strict. exact H.
Qed.

Lemma wasabi_nz_derive_b0 : forall b0 rb1 c d b1n g off tp,
  0 < (b1n * rb1 * g) ^ 2 + (off - b0) ^ 2 -> tp <> 0 ->
  is_derive (fun x => wasabi_nz x rb1 c d b1n g off tp) b0 (wasabi_d_b0 b0 rb1 c d b1n g off tp).
Proof.
  intros b0 rb1 c d b1n g off tp Hq Htp. unfold wasabi_nz, wasabi_d_b0. cbv zeta.
  assert (Hq' : 0 < b1n * rb1 * g * (b1n * rb1 * g * 1) + (off + - b0) * ((off + - b0) * 1)).
  { replace (b1n * rb1 * g * (b1n * rb1 * g * 1) + (off + - b0) * ((off + - b0) * 1)) with ((b1n * rb1 * g) ^ 2 + (off - b0) ^ 2) by ring. exact Hq. }
  pose proof (sqrt_nz _ Hq') as Hs. pose proof PI_neq0 as Hpi.
  assert (Hw : PI * (tp * sqrt (b1n * rb1 * g * (b1n * rb1 * g * 1) + (off + - b0) * ((off + - b0) * 1))) <> 0).
  { apply Rmult_integral_contrapositive_currified; [exact Hpi|]. apply Rmult_integral_contrapositive_currified; assumption. }
  auto_derive; [repeat split; assumption|].
  cbn [pow]. unfold Rdiv, Rminus.
  set (S := sqrt (b1n * rb1 * g * (b1n * rb1 * g * 1) + (off + - b0) * ((off + - b0) * 1))) in *.
  set (SN := sin (PI * (tp * S))). set (CS := cos (PI * (tp * S))).
  field. repeat split; assumption.
Qed.
Lemma wasabi_nz_derive_rb1 : forall b0 rb1 c d b1n g off tp,
  0 < (b1n * rb1 * g) ^ 2 + (off - b0) ^ 2 -> tp <> 0 ->
  is_derive (fun x => wasabi_nz b0 x c d b1n g off tp) rb1 (wasabi_d_rb1 b0 rb1 c d b1n g off tp).
Proof.
  intros b0 rb1 c d b1n g off tp Hq Htp. unfold wasabi_nz, wasabi_d_rb1. cbv zeta.
  assert (Hq' : 0 < b1n * rb1 * g * (b1n * rb1 * g * 1) + (off + - b0) * ((off + - b0) * 1)).
  { replace (b1n * rb1 * g * (b1n * rb1 * g * 1) + (off + - b0) * ((off + - b0) * 1)) with ((b1n * rb1 * g) ^ 2 + (off - b0) ^ 2) by ring. exact Hq. }
  pose proof (sqrt_nz _ Hq') as Hs. pose proof PI_neq0 as Hpi.
  assert (Hw : PI * (tp * sqrt (b1n * rb1 * g * (b1n * rb1 * g * 1) + (off + - b0) * ((off + - b0) * 1))) <> 0).
  { apply Rmult_integral_contrapositive_currified; [exact Hpi|]. apply Rmult_integral_contrapositive_currified; assumption. }
  auto_derive; [repeat split; assumption|].
  cbn [pow]. unfold Rdiv, Rminus.
  set (S := sqrt (b1n * rb1 * g * (b1n * rb1 * g * 1) + (off + - b0) * ((off + - b0) * 1))) in *.
  set (SN := sin (PI * (tp * S))). set (CS := cos (PI * (tp * S))).
  field. repeat split; assumption.
Qed.

(* with B1 <> 0 the sinc argument never vanishes, whatever b0_shift: the code's expression is wasabi_nz as a function of b0 *)
Lemma wasabi_derive_b0 : forall b0 rb1 c d b1n g off tp, b1n * rb1 * g <> 0 -> tp <> 0 ->
  is_derive (fun x => wasabi_code x rb1 c d b1n g off tp) b0 (wasabi_d_b0 b0 rb1 c d b1n g off tp).
Proof.
  intros b0 rb1 c d b1n g off tp Hu Htp.
  apply (is_derive_ext (fun x => wasabi_nz x rb1 c d b1n g off tp)).
  - intro t. symmetry. apply wasabi_code_nz. apply w_nz; [left; exact Hu|exact Htp].
  - apply wasabi_nz_derive_b0; [|exact Htp]. apply sumsq_pos_strict. left. exact Hu.
Qed.
(* off resonance the sinc argument never vanishes, whatever relative_b1 *)
Lemma wasabi_derive_rb1 : forall b0 rb1 c d b1n g off tp, off - b0 <> 0 -> tp <> 0 ->
  is_derive (fun x => wasabi_code b0 x c d b1n g off tp) rb1 (wasabi_d_rb1 b0 rb1 c d b1n g off tp).
Proof.
  intros b0 rb1 c d b1n g off tp Hv Htp.
  apply (is_derive_ext (fun x => wasabi_nz b0 x c d b1n g off tp)).
  - intro t. symmetry. apply wasabi_code_nz. apply w_nz; [right; exact Hv|exact Htp].
  - apply wasabi_nz_derive_rb1; [|exact Htp]. apply sumsq_pos_strict. right. exact Hv.
Qed.
Lemma wasabiti_derive_b0 : forall b0 rb1 t1 b1n g off tp trec, b1n * rb1 * g <> 0 -> tp <> 0 ->
  is_derive (fun x => wasabiti_code x rb1 t1 b1n g off tp trec) b0 (wasabiti_d_b0 b0 rb1 t1 b1n g off tp trec).
Proof.
  intros b0 rb1 t1 b1n g off tp trec Hu Htp. unfold wasabiti_d_b0.
  apply (is_derive_ext (fun x => sr_code 1 t1 trec * wasabi_code x rb1 1 2 b1n g off tp)).
  - intro t. symmetry. apply wasabiti_code_wasabi.
  - apply (is_derive_scal (fun x => wasabi_code x rb1 1 2 b1n g off tp)). apply wasabi_derive_b0; assumption.
Qed.
Lemma wasabiti_derive_rb1 : forall b0 rb1 t1 b1n g off tp trec, off - b0 <> 0 -> tp <> 0 ->
  is_derive (fun x => wasabiti_code b0 x t1 b1n g off tp trec) rb1 (wasabiti_d_rb1 b0 rb1 t1 b1n g off tp trec).
Proof.
  intros b0 rb1 t1 b1n g off tp trec Hv Htp. unfold wasabiti_d_rb1.
  apply (is_derive_ext (fun x => sr_code 1 t1 trec * wasabi_code b0 x 1 2 b1n g off tp)).
  - intro t. symmetry. apply wasabiti_code_wasabi.
  - apply (is_derive_scal (fun x => wasabi_code b0 x 1 2 b1n g off tp)). apply wasabi_derive_rb1; assumption.
Qed.

(* ---- constraints: derivative of the two-sided map is positive (another reading of "strictly monotone") ---------------- *)
Lemma fwd_ab_derive : forall a b beta x,
  is_derive (fun t => fwd_ab a b beta t) x ((b - a) * beta * sigmoid beta x * (1 - sigmoid beta x)).
Proof.
  intros. unfold fwd_ab, sigmoid. pose proof (exp_pos (- (beta * x))).
  auto_derive; [lra|]. unfold Rdiv, Rminus. field. lra.
Qed.
