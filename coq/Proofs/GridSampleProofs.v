(* C20 - proofs about Model/GridSample.v (all sizes, all grids; rationals with Qeq). *)
From MrVerif Require Import Base.Prelude Model.GridSample.
From Coq Require Import QArith Qround Qminmax Qabs Lqa Setoid Morphisms FinFun.
Local Open Scope Q_scope.

(* ---------------------------------------------------------------- sums *)
Lemma qsum_ext {A} (f g : A -> Q) l : (forall a, In a l -> f a == g a) -> qsum (map f l) == qsum (map g l).
Proof.
  induction l as [|a l IH]; intros H; cbn [map qsum]; [reflexivity|].
  rewrite (H a) by (left; reflexivity). rewrite IH by (intros; apply H; right; assumption). reflexivity.
Qed.

Lemma qsum_scale {A} (f : A -> Q) c l : qsum (map (fun a => c * f a) l) == c * qsum (map f l).
Proof. induction l as [|a l IH]; cbn [map qsum]; [ring|]. rewrite IH. ring. Qed.

Lemma qsum_scale_r {A} (f : A -> Q) c l : qsum (map (fun a => f a * c) l) == qsum (map f l) * c.
Proof. induction l as [|a l IH]; cbn [map qsum]; [ring|]. rewrite IH. ring. Qed.

Lemma qsum_plus {A} (f g : A -> Q) l : qsum (map (fun a => f a + g a) l) == qsum (map f l) + qsum (map g l).
Proof. induction l as [|a l IH]; cbn [map qsum]; [ring|]. rewrite IH. ring. Qed.

Lemma qsum_zero {A} (l : list A) : qsum (map (fun _ => 0) l) == 0.
Proof. induction l as [|a l IH]; cbn [map qsum]; [reflexivity|]. rewrite IH. ring. Qed.

Lemma qsum_swap {A B} (f : A -> B -> Q) la lb :
  qsum (map (fun a => qsum (map (fun b => f a b) lb)) la) == qsum (map (fun b => qsum (map (fun a => f a b) la)) lb).
Proof.
  induction la as [|a la IH]; cbn [map qsum].
  - symmetry. apply qsum_zero.
  - rewrite IH. rewrite <- qsum_plus. reflexivity.
Qed.

Lemma qsum_nonneg {A} (f : A -> Q) l : (forall a, In a l -> 0 <= f a) -> 0 <= qsum (map f l).
Proof.
  induction l as [|a l IH]; intros H; cbn [map qsum]; [apply Qle_refl|].
  assert (0 <= f a) by (apply H; left; reflexivity).
  assert (0 <= qsum (map f l)) by (apply IH; intros; apply H; right; assumption). lra.
Qed.

(* Kronecker selection over a duplicate-free index list *)
Lemma qsum_select (f : Z -> Q) (w : Q) (j : Z) l : NoDup l -> In j l ->
  qsum (map (fun i => (if (j =? i)%Z then w else 0) * f i) l) == w * f j.
Proof.
  induction l as [|a l IH]; intros Hnd Hin; [destruct Hin|]. cbn [map qsum].
  inversion Hnd as [|? ? Hna Hnd']; subst. destruct Hin as [->|Hin].
  - rewrite Z.eqb_refl. rewrite (qsum_ext _ (fun _ => 0)).
    + rewrite qsum_zero. ring.
    + intros i Hi. destruct (Z.eqb_spec j i) as [->|]; [contradiction|ring].
  - destruct (Z.eqb_spec j a) as [->|]; [contradiction|]. rewrite IH by assumption. ring.
Qed.

Lemma zrange_NoDup n : NoDup (zrange n).
Proof.
  unfold zrange. apply Injective_map_NoDup; [|apply seq_NoDup].
  intros a b H. apply Nat2Z.inj. exact H.
Qed.

(* ---------------------------------------------------------------- one axis *)
(* the action of the taps of one axis on a 1-D signal *)
Definition axis_apply (f : Z -> Q) (t : list (Z * Q)) : Q := qsum (map (fun a => snd a * f (fst a)) t).
Definition wsum (t : list (Z * Q)) : Q := qsum (map snd t).

Lemma sample2_axis im ty tx :
  sample2 im ty tx == axis_apply (fun iy => axis_apply (fun ix => im iy ix) tx) ty.
Proof.
  unfold sample2, axis_apply. apply qsum_ext. intros a _.
  rewrite <- qsum_scale. apply qsum_ext. intros b _. ring.
Qed.

Lemma sample3_axis im tz ty tx :
  sample3 im tz ty tx == axis_apply (fun iz => axis_apply (fun iy => axis_apply (fun ix => im iz iy ix) tx) ty) tz.
Proof.
  unfold sample3, axis_apply. apply qsum_ext. intros a _.
  rewrite <- qsum_scale. apply qsum_ext. intros b _.
  rewrite <- qsum_scale. rewrite <- qsum_scale. apply qsum_ext. intros c _. ring.
Qed.

Lemma axis_apply_ext f g t : (forall i, f i == g i) -> axis_apply f t == axis_apply g t.
Proof. intros H. unfold axis_apply. apply qsum_ext. intros a _. rewrite H. reflexivity. Qed.

Lemma axis_apply_const c t : axis_apply (fun _ => c) t == c * wsum t.
Proof. unfold axis_apply, wsum. rewrite <- qsum_scale. apply qsum_ext. intros; ring. Qed.

Lemma axis_apply_linear a b f g t :
  axis_apply (fun i => a * f i + b * g i) t == a * axis_apply f t + b * axis_apply g t.
Proof.
  unfold axis_apply. rewrite <- !qsum_scale, <- qsum_plus. apply qsum_ext. intros; ring.
Qed.

(* floor facts *)
Lemma frac_range (ix : Q) : 0 <= ix - inject_Z (Qfloor ix) /\ ix - inject_Z (Qfloor ix) < 1.
Proof.
  pose proof (Qfloor_le ix) as H1. pose proof (Qlt_floor ix) as H2.
  rewrite inject_Z_plus in H2. change (inject_Z 1) with 1 in H2. split; lra.
Qed.

Lemma Qfloor_int (ix : Q) (j : Z) : ix == inject_Z j -> Qfloor ix = j.
Proof. intros H. rewrite (Qfloor_comp _ _ H). apply Qfloor_Z. Qed.

(* --- bilinear weights: non-negative, sum to one --- *)
Theorem bilinear_taps_weights ix :
  Forall (fun t => 0 <= snd t) (taps1 Bilinear ix) /\ wsum (taps1 Bilinear ix) == 1.
Proof.
  destruct (frac_range ix) as [H0 H1]. unfold taps1, wsum. cbn [map qsum snd]. split.
  - repeat constructor; cbn [snd]; lra.
  - ring.
Qed.

Theorem nearest_taps_weights ix :
  Forall (fun t => 0 <= snd t) (taps1 Nearest ix) /\ wsum (taps1 Nearest ix) == 1.
Proof. unfold taps1, wsum. cbn. split; [repeat constructor; cbn; lra| ring]. Qed.

Lemma taps_weights m ix : Forall (fun t => 0 <= snd t) (taps1 m ix) /\ wsum (taps1 m ix) == 1.
Proof. destruct m; [apply bilinear_taps_weights|apply nearest_taps_weights]. Qed.

(* the kept taps are in range and non-negative *)
Lemma axis_taps_in_range m p ac n x : Forall (fun t => (0 <= fst t < n)%Z /\ 0 <= snd t) (axis_taps m p ac n x).
Proof.
  unfold axis_taps. apply Forall_forall. intros t Ht. apply filter_In in Ht. destruct Ht as [Hin Hb].
  unfold inb in Hb. split; [lia|].
  destruct (taps_weights m (pad_coord p n (unnormalize ac n x))) as [Hf _].
  rewrite Forall_forall in Hf. apply Hf. exact Hin.
Qed.

(* all neighbours inside: nothing is filtered away, the weights sum to one *)
Theorem axis_taps_sum_inside m p ac n x :
  forallb (fun t => inb n (fst t)) (taps1 m (pad_coord p n (unnormalize ac n x))) = true ->
  wsum (axis_taps m p ac n x) == 1.
Proof.
  intros H. unfold axis_taps.
  assert (E : forall l, forallb (fun t : Z * Q => inb n (fst t)) l = true -> filter (fun t => inb n (fst t)) l = l).
  { induction l as [|a l IH]; cbn; [reflexivity|]. intros Hl. apply andb_prop in Hl. destruct Hl as [Ha Hl].
    rewrite Ha, IH by assumption. reflexivity. }
  rewrite E by assumption. apply taps_weights.
Qed.

(* a constant image is reproduced wherever all neighbours are inside (product of the per-axis sums) *)
Theorem sample2_const c ty tx : sample2 (fun _ _ => c) ty tx == c * wsum ty * wsum tx.
Proof.
  rewrite sample2_axis. rewrite (axis_apply_ext _ (fun _ => c * wsum tx)) by (intros; apply axis_apply_const).
  rewrite axis_apply_const. ring.
Qed.

Theorem sample3_const c tz ty tx : sample3 (fun _ _ _ => c) tz ty tx == c * wsum tz * wsum ty * wsum tx.
Proof.
  rewrite sample3_axis.
  rewrite (axis_apply_ext _ (fun _ => c * wsum ty * wsum tx)).
  - rewrite axis_apply_const. ring.
  - intros i. rewrite (axis_apply_ext _ (fun _ => c * wsum tx)) by (intros; apply axis_apply_const).
    rewrite axis_apply_const. ring.
Qed.

(* --- linearity in the input --- *)
Theorem sample2_linear a b im1 im2 ty tx :
  sample2 (fun i j => a * im1 i j + b * im2 i j) ty tx == a * sample2 im1 ty tx + b * sample2 im2 ty tx.
Proof.
  rewrite !sample2_axis.
  rewrite (axis_apply_ext _ (fun iy => a * axis_apply (fun ix => im1 iy ix) tx + b * axis_apply (fun ix => im2 iy ix) tx))
    by (intros; apply axis_apply_linear).
  apply axis_apply_linear.
Qed.

Theorem sample3_linear a b im1 im2 tz ty tx :
  sample3 (fun k i j => a * im1 k i j + b * im2 k i j) tz ty tx == a * sample3 im1 tz ty tx + b * sample3 im2 tz ty tx.
Proof.
  rewrite !sample3_axis.
  rewrite (axis_apply_ext _ (fun iz => a * axis_apply (fun iy => axis_apply (fun ix => im1 iz iy ix) tx) ty
                                      + b * axis_apply (fun iy => axis_apply (fun ix => im2 iz iy ix) tx) ty)).
  - apply axis_apply_linear.
  - intros iz.
    rewrite (axis_apply_ext _ (fun iy => a * axis_apply (fun ix => im1 iz iy ix) tx + b * axis_apply (fun ix => im2 iz iy ix) tx))
      by (intros; apply axis_apply_linear).
    apply axis_apply_linear.
Qed.

(* --- a grid point exactly on a pixel returns that pixel --- *)
Lemma inject_Z_sub1 n : inject_Z (n - 1) == inject_Z n - 1.
Proof. unfold Z.sub. rewrite inject_Z_plus, inject_Z_opp. reflexivity. Qed.

Lemma inject_Z_nonneg j : (0 <= j)%Z -> 0 <= inject_Z j.
Proof. intros H. change 0 with (inject_Z 0). rewrite <- Zle_Qle. exact H. Qed.

Lemma clip_in_range n j : (0 <= j < n)%Z -> clip n (inject_Z j) == inject_Z j.
Proof.
  intros H. unfold clip.
  assert (H0 : 0 <= inject_Z j) by (apply inject_Z_nonneg; lia).
  assert (H1 : inject_Z j <= inject_Z n - 1).
  { rewrite <- inject_Z_sub1, <- Zle_Qle. lia. }
  rewrite (Q.max_l _ _ H0). apply Q.min_r. exact H1.
Qed.

Lemma clip_comp n a b : a == b -> clip n a == clip n b.
Proof. intros H. unfold clip. rewrite H. reflexivity. Qed.

Lemma pad_coord_on_pixel p n ix j : (0 <= j < n)%Z -> ix == inject_Z j -> pad_coord p n ix == inject_Z j.
Proof.
  intros Hj H. destruct p; cbn [pad_coord]; [exact H|]. rewrite (clip_comp n _ _ H). apply clip_in_range. exact Hj.
Qed.

Lemma round_half_even_int ix j : ix == inject_Z j -> round_half_even ix = j.
Proof.
  intros H. unfold round_half_even. rewrite (Qfloor_int ix j H).
  assert (E : ix - inject_Z j == 0) by (rewrite H; ring).
  rewrite (Qcompare_comp _ _ E _ _ (Qeq_refl (1 # 2))). reflexivity.
Qed.

Lemma taps1_on_pixel m ix j f : ix == inject_Z j -> (0 <= j)%Z ->
  forall n, (j < n)%Z -> axis_apply f (filter (fun t => inb n (fst t)) (taps1 m ix)) == f j.
Proof.
  intros H Hj0 n Hjn. destruct m; unfold taps1.
  - rewrite (Qfloor_int ix j H).
    assert (E : ix - inject_Z j == 0) by (rewrite H; ring).
    cbn [filter fst]. unfold inb.
    replace ((0 <=? j)%Z && (j <? n)%Z) with true by lia.
    destruct ((0 <=? j + 1)%Z && (j + 1 <? n)%Z); unfold axis_apply; cbn [map qsum fst snd]; rewrite E; ring.
  - rewrite (round_half_even_int ix j H). cbn [filter fst]. unfold inb.
    replace ((0 <=? j)%Z && (j <? n)%Z) with true by lia.
    unfold axis_apply; cbn [map qsum fst snd]. ring.
Qed.

Theorem axis_on_pixel m p ac n x j f : (0 <= j < n)%Z -> unnormalize ac n x == inject_Z j ->
  axis_apply f (axis_taps m p ac n x) == f j.
Proof.
  intros Hj H. unfold axis_taps. apply taps1_on_pixel; try lia.
  apply pad_coord_on_pixel; assumption.
Qed.

Theorem grid_sample2_on_pixel m p ac H W im gx gy i j : (0 <= i < H)%Z -> (0 <= j < W)%Z ->
  unnormalize ac H gy == inject_Z i -> unnormalize ac W gx == inject_Z j ->
  grid_sample2 m p ac H W im gx gy == im i j.
Proof.
  intros Hi Hj Ey Ex. unfold grid_sample2. rewrite sample2_axis.
  rewrite (axis_apply_ext _ (fun iy => im iy j)) by (intros; apply axis_on_pixel; assumption).
  apply (axis_on_pixel m p ac H gy i (fun iy => im iy j)); assumption.
Qed.

Theorem grid_sample3_on_pixel m p ac D H W im gx gy gz k i j : (0 <= k < D)%Z -> (0 <= i < H)%Z -> (0 <= j < W)%Z ->
  unnormalize ac D gz == inject_Z k -> unnormalize ac H gy == inject_Z i -> unnormalize ac W gx == inject_Z j ->
  grid_sample3 m p ac D H W im gx gy gz == im k i j.
Proof.
  intros Hk Hi Hj Ez Ey Ex. unfold grid_sample3. rewrite sample3_axis.
  rewrite (axis_apply_ext _ (fun iz => im iz i j)).
  - apply (axis_on_pixel m p ac D gz k (fun iz => im iz i j)); assumption.
  - intros iz. rewrite (axis_apply_ext _ (fun iy => im iz iy j)) by (intros; apply axis_on_pixel; assumption).
    apply (axis_on_pixel m p ac H gy i (fun iy => im iz iy j)); assumption.
Qed.

(* --- the identity grid: coordinates of the pixel centres under either convention --- *)
Definition centre_coord (ac : bool) (n j : Z) : Q :=
  if ac then -1 + 2 * inject_Z j / (inject_Z n - 1) else (2 * inject_Z j + 1) / inject_Z n - 1.

Lemma unnormalize_centre (ac : bool) n j : ((if ac then 2 else 1) <= n)%Z -> unnormalize ac n (centre_coord ac n j) == inject_Z j.
Proof.
  intros Hn. destruct ac; cbn iota in Hn; unfold unnormalize, centre_coord.
  - assert (Hn' : ~ inject_Z n - 1 == 0).
    { intros E. rewrite <- inject_Z_sub1 in E. unfold Qeq in E. cbn in E. lia. }
    field. exact Hn'.
  - assert (Hn' : ~ inject_Z n == 0).
    { intros E. unfold Qeq in E. cbn in E. lia. }
    field. exact Hn'.
Qed.

(* align_corners=True with a single pixel: every coordinate addresses pixel 0 *)
Lemma unnormalize_single x : unnormalize true 1 x == inject_Z 0.
Proof. unfold unnormalize. change (inject_Z 1) with 1. change (inject_Z 0) with 0. ring. Qed.

Theorem identity_grid2 m p (ac : bool) H W im i j : ((if ac then 2 else 1) <= H)%Z -> ((if ac then 2 else 1) <= W)%Z ->
  (0 <= i < H)%Z -> (0 <= j < W)%Z ->
  grid_sample2 m p ac H W im (centre_coord ac W j) (centre_coord ac H i) == im i j.
Proof.
  intros HnH HnW Hi Hj. apply grid_sample2_on_pixel; try assumption; apply unnormalize_centre; assumption.
Qed.

Theorem identity_grid3 m p (ac : bool) D H W im k i j :
  ((if ac then 2 else 1) <= D)%Z -> ((if ac then 2 else 1) <= H)%Z -> ((if ac then 2 else 1) <= W)%Z ->
  (0 <= k < D)%Z -> (0 <= i < H)%Z -> (0 <= j < W)%Z ->
  grid_sample3 m p ac D H W im (centre_coord ac W j) (centre_coord ac H i) (centre_coord ac D k) == im k i j.
Proof.
  intros HnD HnH HnW Hk Hi Hj. apply grid_sample3_on_pixel; try assumption; apply unnormalize_centre; assumption.
Qed.

(* size-1 axes with align_corners=True: any grid value returns the only pixel *)
Theorem identity_grid2_single m p im gx gy : grid_sample2 m p true 1 1 im gx gy == im 0%Z 0%Z.
Proof. apply grid_sample2_on_pixel; try lia; apply unnormalize_single. Qed.

(* --- border padding = zeros padding on the clipped coordinate; with border padding the bilinear weights always sum to 1 --- *)
Theorem border_is_zeros_on_clipped m ac n x :
  axis_taps m PBorder ac n x = filter (fun t => inb n (fst t)) (taps1 m (clip n (unnormalize ac n x))).
Proof. reflexivity. Qed.

Lemma clip_range n x : (1 <= n)%Z -> 0 <= clip n x <= inject_Z n - 1.
Proof.
  intros Hn. unfold clip.
  assert (H1 : 0 <= inject_Z n - 1).
  { rewrite <- inject_Z_sub1. apply inject_Z_nonneg. lia. }
  split.
  - apply Q.min_glb; [exact H1|apply Q.le_max_r].
  - apply Q.le_min_l.
Qed.

Theorem border_bilinear_sum1 ac n x : (1 <= n)%Z -> wsum (axis_taps Bilinear PBorder ac n x) == 1.
Proof.
  intros Hn. unfold axis_taps. cbn [pad_coord]. set (ix := clip n (unnormalize ac n x)).
  destruct (clip_range n (unnormalize ac n x) Hn) as [H0 H1]. fold ix in H0, H1.
  destruct (frac_range ix) as [F0 F1]. unfold taps1.
  set (i0 := Qfloor ix) in *.
  assert (Hi0 : (0 <= i0)%Z).
  { unfold i0. change 0%Z with (Qfloor 0). apply Qfloor_resp_le. exact H0. }
  assert (Hi1 : (i0 <= n - 1)%Z).
  { unfold i0. replace (n - 1)%Z with (Qfloor (inject_Z (n - 1))) by apply Qfloor_Z.
    apply Qfloor_resp_le. rewrite inject_Z_sub1. exact H1. }
  cbn [filter fst]. unfold inb.
  replace ((0 <=? i0)%Z && (i0 <? n)%Z) with true by lia.
  destruct (Z.eq_dec i0 (n - 1)) as [E|NE].
  - replace ((0 <=? i0 + 1)%Z && (i0 + 1 <? n)%Z) with false by lia.
    unfold wsum. cbn [map qsum snd].
    (* ix <= n-1 = i0 <= ix : the fractional part is 0 *)
    assert (ix == inject_Z i0).
    { pose proof (Qfloor_le ix) as L. fold i0 in L.
      assert (inject_Z i0 == inject_Z n - 1).
      { rewrite E. apply inject_Z_sub1. }
      lra. }
    lra.
  - replace ((0 <=? i0 + 1)%Z && (i0 + 1 <? n)%Z) with true by lia.
    unfold wsum. cbn [map qsum snd]. ring.
Qed.

(* --- adjoint: the scatter-add of the backward kernel is the transpose of the gather --- *)
Lemma axis_apply_as_sum n f t : Forall (fun a => (0 <= fst a < n)%Z) t ->
  axis_apply f t == qsum (map (fun i => tap_at t i * f i) (zrange n)).
Proof.
  induction t as [|a t IH]; intros Hr.
  - unfold axis_apply, tap_at. cbn [map qsum]. rewrite (qsum_ext _ (fun _ => 0)) by (intros; ring).
    symmetry. apply qsum_zero.
  - inversion Hr as [|? ? Ha Hr']; subst. unfold axis_apply in *. cbn [map qsum].
    rewrite IH by assumption.
    rewrite (qsum_ext (fun i => tap_at (a :: t) i * f i)
                      (fun i => (if (fst a =? i)%Z then snd a else 0) * f i + tap_at t i * f i)).
    + rewrite qsum_plus. rewrite qsum_select; [reflexivity|apply zrange_NoDup|apply zrange_In; lia].
    + intros i _. unfold tap_at. cbn [map qsum]. ring.
Qed.

(* <A x, y> = <x, A^T y>, A x = (sample2 x taps_o)_o, A^T y = adjoint2; any number of output locations *)
Theorem adjoint2_is_transpose H W (x : Z -> Z -> Q) (outs : list (list (Z * Q) * list (Z * Q) * Q)) :
  Forall (fun o => Forall (fun a => (0 <= fst a < H)%Z) (fst (fst o)) /\ Forall (fun a => (0 <= fst a < W)%Z) (snd (fst o))) outs ->
  qsum (map (fun o => sample2 x (fst (fst o)) (snd (fst o)) * snd o) outs)
  == qsum (map (fun i => qsum (map (fun j => x i j * adjoint2 outs i j) (zrange W))) (zrange H)).
Proof.
  induction outs as [|o outs IH]; intros Hr.
  - cbn [map qsum]. unfold adjoint2. cbn [map qsum].
    rewrite (qsum_ext _ (fun _ => 0)); [symmetry; apply qsum_zero|].
    intros i _. rewrite (qsum_ext _ (fun _ => 0)); [apply qsum_zero|]. intros; ring.
  - inversion Hr as [|? ? Ho Hr']; subst. destruct o as [[ty tx] y]. destruct Ho as [Hy Hx]. cbn [fst snd] in *.
    cbn [map qsum]. rewrite IH by assumption. cbn [fst snd].
    rewrite sample2_axis.
    rewrite (axis_apply_as_sum H _ ty Hy).
    rewrite (qsum_ext (fun i => tap_at ty i * axis_apply (fun ix => x i ix) tx)
                      (fun i => qsum (map (fun j => tap_at ty i * (tap_at tx j * x i j)) (zrange W)))).
    2:{ intros i _. rewrite (axis_apply_as_sum W _ tx Hx). rewrite <- qsum_scale. reflexivity. }
    rewrite <- qsum_scale_r. rewrite <- qsum_plus. apply qsum_ext. intros i _.
    rewrite <- qsum_scale_r. rewrite <- qsum_plus. apply qsum_ext. intros j _.
    unfold adjoint2. cbn [map qsum]. ring.
Qed.

Theorem adjoint3_is_transpose D H W (x : Z -> Z -> Z -> Q) (outs : list (list (Z * Q) * list (Z * Q) * list (Z * Q) * Q)) :
  Forall (fun o => match o with (tz, ty, tx, _) =>
     Forall (fun a => (0 <= fst a < D)%Z) tz /\ Forall (fun a => (0 <= fst a < H)%Z) ty /\ Forall (fun a => (0 <= fst a < W)%Z) tx end) outs ->
  qsum (map (fun o => match o with (tz, ty, tx, y) => sample3 x tz ty tx * y end) outs)
  == qsum (map (fun k => qsum (map (fun i => qsum (map (fun j => x k i j * adjoint3 outs k i j) (zrange W))) (zrange H))) (zrange D)).
Proof.
  induction outs as [|o outs IH]; intros Hr.
  - cbn [map qsum]. unfold adjoint3. cbn [map qsum].
    rewrite (qsum_ext _ (fun _ => 0)); [symmetry; apply qsum_zero|].
    intros k _. rewrite (qsum_ext _ (fun _ => 0)); [apply qsum_zero|].
    intros i _. rewrite (qsum_ext _ (fun _ => 0)); [apply qsum_zero|]. intros; ring.
  - inversion Hr as [|? ? Ho Hr']; subst. destruct o as [[[tz ty] tx] y]. destruct Ho as [Hz [Hy Hx]].
    cbn [map qsum]. rewrite IH by assumption.
    rewrite sample3_axis.
    rewrite (axis_apply_as_sum D _ tz Hz).
    rewrite (qsum_ext (fun k => tap_at tz k * axis_apply (fun iy => axis_apply (fun ix => x k iy ix) tx) ty)
               (fun k => qsum (map (fun i => qsum (map (fun j => tap_at tz k * (tap_at ty i * (tap_at tx j * x k i j))) (zrange W))) (zrange H)))).
    2:{ intros k _. rewrite (axis_apply_as_sum H _ ty Hy). rewrite <- qsum_scale. apply qsum_ext. intros i _.
        rewrite (axis_apply_as_sum W _ tx Hx). rewrite <- !qsum_scale. apply qsum_ext. intros j _. ring. }
    rewrite <- qsum_scale_r. rewrite <- qsum_plus. apply qsum_ext. intros k _.
    rewrite <- qsum_scale_r. rewrite <- qsum_plus. apply qsum_ext. intros i _.
    rewrite <- qsum_scale_r. rewrite <- qsum_plus. apply qsum_ext. intros j _.
    unfold adjoint3. cbn [map qsum]. ring.
Qed.

(* the taps produced by the model are always in range, so the adjoint theorem applies to every grid *)
Lemma axis_taps_idx_in_range m p ac n x : Forall (fun a => (0 <= fst a < n)%Z) (axis_taps m p ac n x).
Proof.
  pose proof (axis_taps_in_range m p ac n x) as H. rewrite Forall_forall in *. intros a Ha. apply H. exact Ha.
Qed.

(* --- the reshape wrapper: a complex tensor is sampled as the pair of its real and imaginary parts, every channel
       of a batch element with the grid of that batch element --- *)
Theorem wrap_complex_is_componentwise (T G O : Type) (inner : T -> G -> O) xb gb C xre xim g k c : (0 <= c < C)%Z ->
  wrap_complex T G O inner xb gb C xre xim g k c
  = (wrap_real T G O inner xb gb xre g k c, wrap_real T G O inner xb gb xim g k c).
Proof.
  intros Hc. unfold wrap_complex, wrap_real.
  replace (0 * C + c)%Z with c by lia.
  replace (c <? C)%Z with true by lia.
  replace (1 * C + c <? C)%Z with false by lia.
  replace (1 * C + c - C)%Z with c by lia. reflexivity.
Qed.

(* ---------------------------------------------------------------- bicubic (cubic convolution, A = -3/4) *)
(* the four coefficients sum to one for every fractional position *)
Theorem cubic_coeffs_sum1 t : cc2 (t + 1) + cc1 t + cc1 (1 - t) + cc2 (2 - t) == 1.
Proof. unfold cc1, cc2, cubicA. ring. Qed.

Lemma cubic_coeffs_at_0 t : t == 0 -> cc2 (t + 1) == 0 /\ cc1 t == 1 /\ cc1 (1 - t) == 0 /\ cc2 (2 - t) == 0.
Proof. intros H. unfold cc1, cc2, cubicA. rewrite H. repeat split; ring. Qed.

Theorem bicubic_taps_sum1 ix : wsum (bicubic_taps1 ix) == 1.
Proof.
  unfold bicubic_taps1, wsum. cbn [map qsum snd]. set (t := ix - inject_Z (Qfloor ix)).
  transitivity (cc2 (t + 1) + cc1 t + cc1 (1 - t) + cc2 (2 - t)); [ring|apply cubic_coeffs_sum1].
Qed.

(* border padding (index clipping) never loses a neighbour: the weights always sum to one *)
Theorem bicubic_border_sum1 ac n x : wsum (axis_taps_bicubic PBorder ac n x) == 1.
Proof.
  unfold axis_taps_bicubic, wsum. rewrite map_map. cbn [snd].
  apply (bicubic_taps_sum1 (unnormalize ac n x)).
Qed.

(* zeros padding: all four neighbours inside => the weights sum to one *)
Theorem bicubic_zeros_sum_inside ac n x :
  forallb (fun t => inb n (fst t)) (bicubic_taps1 (unnormalize ac n x)) = true ->
  wsum (axis_taps_bicubic PZeros ac n x) == 1.
Proof.
  intros H. unfold axis_taps_bicubic.
  assert (E : forall l, forallb (fun t : Z * Q => inb n (fst t)) l = true -> filter (fun t => inb n (fst t)) l = l).
  { induction l as [|a l IH]; cbn; [reflexivity|]. intros Hl. apply andb_prop in Hl. destruct Hl as [Ha Hl].
    rewrite Ha, IH by assumption. reflexivity. }
  rewrite E by assumption. apply bicubic_taps_sum1.
Qed.

(* constants are reproduced (border: always; zeros: when the 4 x 4 neighbourhood is inside) *)
Theorem bicubic_const_border c ac H W gx gy : grid_sample2_bicubic PBorder ac H W (fun _ _ => c) gx gy == c.
Proof. unfold grid_sample2_bicubic. rewrite sample2_const, !bicubic_border_sum1. ring. Qed.

Theorem bicubic_const_zeros c ac H W gx gy :
  forallb (fun t => inb H (fst t)) (bicubic_taps1 (unnormalize ac H gy)) = true ->
  forallb (fun t => inb W (fst t)) (bicubic_taps1 (unnormalize ac W gx)) = true ->
  grid_sample2_bicubic PZeros ac H W (fun _ _ => c) gx gy == c.
Proof.
  intros Hy Hx. unfold grid_sample2_bicubic.
  rewrite sample2_const, (bicubic_zeros_sum_inside ac H gy Hy), (bicubic_zeros_sum_inside ac W gx Hx). ring.
Qed.

(* a grid point exactly on a pixel returns that pixel *)
Theorem bicubic_axis_on_pixel p ac n x j f : (0 <= j < n)%Z -> unnormalize ac n x == inject_Z j ->
  axis_apply f (axis_taps_bicubic p ac n x) == f j.
Proof.
  intros Hj H. unfold axis_taps_bicubic, bicubic_taps1. rewrite (Qfloor_int _ j H).
  assert (E : unnormalize ac n x - inject_Z j == 0) by (rewrite H; ring).
  destruct (cubic_coeffs_at_0 _ E) as [C0 [C1 [C2 C3]]].
  destruct p.
  - assert (Ej : inb n j = true) by (unfold inb; lia).
    cbn [filter fst]. rewrite Ej.
    destruct (inb n (j - 1)), (inb n (j + 1)), (inb n (j + 2)); unfold axis_apply; cbn [map qsum fst snd];
      rewrite ?C0, ?C1, ?C2, ?C3; ring.
  - unfold axis_apply. cbn [map qsum fst snd]. rewrite C0, C1, C2, C3.
    replace (clampZ n j) with j by (unfold clampZ; lia). ring.
Qed.

Theorem grid_sample2_bicubic_on_pixel p ac H W im gx gy i j : (0 <= i < H)%Z -> (0 <= j < W)%Z ->
  unnormalize ac H gy == inject_Z i -> unnormalize ac W gx == inject_Z j ->
  grid_sample2_bicubic p ac H W im gx gy == im i j.
Proof.
  intros Hi Hj Ey Ex. unfold grid_sample2_bicubic. rewrite sample2_axis.
  rewrite (axis_apply_ext _ (fun iy => im iy j)) by (intros; apply bicubic_axis_on_pixel; assumption).
  apply (bicubic_axis_on_pixel p ac H gy i (fun iy => im iy j)); assumption.
Qed.

Theorem identity_grid2_bicubic p (ac : bool) H W im i j :
  ((if ac then 2 else 1) <= H)%Z -> ((if ac then 2 else 1) <= W)%Z -> (0 <= i < H)%Z -> (0 <= j < W)%Z ->
  grid_sample2_bicubic p ac H W im (centre_coord ac W j) (centre_coord ac H i) == im i j.
Proof.
  intros HnH HnW Hi Hj. apply grid_sample2_bicubic_on_pixel; try assumption; apply unnormalize_centre; assumption.
Qed.

(* the bounded neighbours are in range, so linearity (sample2_linear) and the adjoint theorem apply to bicubic as well *)
Lemma axis_taps_bicubic_in_range p ac n x : (1 <= n)%Z -> Forall (fun a => (0 <= fst a < n)%Z) (axis_taps_bicubic p ac n x).
Proof.
  intros Hn. unfold axis_taps_bicubic. apply Forall_forall. intros t Ht. destruct p.
  - apply filter_In in Ht. destruct Ht as [_ Hb]. unfold inb in Hb. lia.
  - apply in_map_iff in Ht. destruct Ht as [t' [<- _]]. cbn [fst]. unfold clampZ. lia.
Qed.
