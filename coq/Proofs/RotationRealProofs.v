(* Proofs about Model/Rotation.v + Model/Euler.v, part 3: over the reals (normalisation, reflection, De Moivre / powers). *)
From MrVerif Require Import Base.Prelude Base.StarRing Model.Rotation Model.Euler Proofs.RotationProofs Proofs.RotationBatchProofs.
From Coq Require Import Reals Lra Psatz Nsatz.
Local Open Scope R_scope.

Ltac dmat m := destruct m as [[[[? ?] ?] [[? ?] ?]] [[? ?] ?]].
Ltac runf := unfold r_elem, r_normalize, mnormalize, m_elem, elem_apply, qnormalize, qreflect, qcanon, polar, from_rotvec, householder in *;
  unf; cbn [StarRing.K StarRing.k0 StarRing.k1 StarRing.kadd StarRing.kmul StarRing.ksub StarRing.kopp RRing] in *.

Lemma qnorm2_nonneg (q : quatR) : 0 <= qnorm2 RRing q.
Proof. dquat q. runf. nra. Qed.
Lemma dot3_nonneg (v : vecR) : 0 <= dot3 RRing v v.
Proof. dvec v. runf. nra. Qed.

Lemma inv_sqrt_sq (x : R) : 0 <= x -> / sqrt x * / sqrt x = / x.
Proof.
  intros H. destruct (Req_dec x 0) as [->|Hx]; [rewrite sqrt_0, Rinv_0; ring|].
  rewrite <- Rinv_mult, sqrt_sqrt by assumption. reflexivity.
Qed.

(* normalisation: the matrix of q/|q| is M(q)/|q|^2, and q/|q| is a unit quaternion *)
Lemma qmat_normalize (q : quatR) : qmat RRing (r_normalize q) = mscal RRing (/ qnorm2 RRing q) (qmat RRing q).
Proof.
  unfold r_normalize, qnormalize. rewrite qmat_scal. f_equal. apply (inv_sqrt_sq _ (qnorm2_nonneg q)).
Qed.
Lemma qnorm2_normalize (q : quatR) : qnorm2 RRing q <> 0 -> qnorm2 RRing (r_normalize q) = 1.
Proof.
  intros H. pose proof (qnorm2_nonneg q) as Hn.
  assert (E : qnorm2 RRing (r_normalize q) = (/ sqrt (qnorm2 RRing q) * / sqrt (qnorm2 RRing q)) * qnorm2 RRing q)
    by (dquat q; runf; ring).
  rewrite E, inv_sqrt_sq by assumption. now apply Rinv_l.
Qed.
Lemma normalize_unit (q : quatR) : qnorm2 RRing q = 1 -> r_normalize q = q.
Proof.
  intros H. unfold r_normalize, qnormalize. rewrite H, sqrt_1, Rinv_1. dquat q. runf. pair_split; ring.
Qed.

(* first column of (+/-) M(q) has squared length |q|^4 *)
Lemma rmat_col0 (r : rotR) : dot3 RRing (col RRing v0 (rmat RRing r)) (col RRing v0 (rmat RRing r)) = qnorm2 RRing (fst r) * qnorm2 RRing (fst r).
Proof. destruct r as [q f]. dquat q. destruct f; runf; ring. Qed.
Lemma rmat_normalize (r : rotR) : rmat RRing (r_elem KNormalize r) = mnormalize (rmat RRing r).
Proof.
  destruct r as [q f]. unfold mnormalize. rewrite rmat_col0. cbn [fst].
  rewrite sqrt_square by apply qnorm2_nonneg.
  unfold r_elem, elem_apply, rmat. cbn [fst snd]. fold (r_normalize q). rewrite qmat_normalize.
  destruct f; [|reflexivity]. dmat (qmat RRing q). runf. pair_split; ring.
Qed.
Lemma rmat_invert_axes_norm (r : rotR) : rmat RRing (r_elem KInvertAxes r) = mopp RRing (mnormalize (rmat RRing r)).
Proof.
  rewrite <- rmat_normalize. destruct r as [q f]. unfold r_elem, elem_apply. cbn [fst snd].
  change (qnormalize RRing Rinv sqrt q, negb f) with (rinvert_axes RRing (qnormalize RRing Rinv sqrt q, f)).
  apply rmat_invert_axes.
Qed.
Definition matrix_level (k : elem_op RRing) : Prop := match k with KNormalize | KInvertAxes => True | _ => False end.
Lemma r_elem_matrix_level k r : matrix_level k -> rmat RRing (r_elem k r) = m_elem k (rmat RRing r).
Proof. destruct k; cbn; intros H; try contradiction; [apply rmat_normalize | apply rmat_invert_axes_norm]. Qed.

(* histories of gather / setitem / concatenate / reshape / invert_axes: the matrices evolve by the same edits on matrices *)
Definition structural (e : edit RRing rotR) : Prop := edit_good RRing rotR matrix_level e.
Theorem history_matrices (h : list (edit RRing rotR)) (st : list rotR) : Forall structural h ->
  map (map (rmat RRing)) (rot_trace RRing Rinv sqrt Rltb h st)
  = trace RRing matR (rmat RRing (rid RRing)) m_elem (map (map_edit RRing rotR matR (rmat RRing)) h) (map (rmat RRing) st).
Proof. intros H. unfold rot_trace. apply (trace_natural RRing rotR matR (rid RRing) r_elem m_elem (rmat RRing) matrix_level); [apply r_elem_matrix_level | exact H]. Qed.

(* every stored element, whatever the history (incl. component setters that denormalise): its matrix is (+/-) M(q) of the
   STORED quaternion: orthogonal up to |q|^4 and det = (+/-)|q|^6 with the sign given by the flag *)
Theorem history_invariant (h : list (edit RRing rotR)) (st : list rotR) :
  Forall (fun r => mmul RRing (mtrans RRing (rmat RRing r)) (rmat RRing r) = mscal RRing (qnorm2 RRing (fst r) * qnorm2 RRing (fst r)) (mid RRing)
                   /\ mdet RRing (rmat RRing r) = sgn RRing (snd r) * (qnorm2 RRing (fst r) * qnorm2 RRing (fst r) * qnorm2 RRing (fst r)))
         (rot_run RRing Rinv sqrt Rltb h st).
Proof. apply Forall_forall. intros r _. split; [apply rmat_orthogonal | apply (rmat_det RRing)]. Qed.

(* normalising edits restore unit norm *)
Lemma elem_normalize_unit (k : elem_op RRing) (r : rotR) : matrix_level k -> qnorm2 RRing (fst r) <> 0 -> qnorm2 RRing (fst (r_elem k r)) = 1.
Proof. destruct k; cbn; intros H Hn; try contradiction; now apply qnorm2_normalize. Qed.

(* ---- reflect ---- *)
Lemma qcanon_cases (q : quatR) : qcanon RRing Rltb q = q \/ qcanon RRing Rltb q = qopp RRing q.
Proof. unfold qcanon. destruct (needs_inversion RRing Rltb q); auto. Qed.
Lemma qreflect_aux (q c : quatR) : qcanon RRing Rltb q = c ->
  let v := qvec RRing c in 0 < dot3 RRing v v ->
  qmat RRing (qreflect RRing Rinv sqrt Rltb q)
  = mscal RRing (/ (qnorm2 RRing c * dot3 RRing v v)) (qmat RRing (q3 c * q0 c, q3 c * q1 c, q3 c * q2 c, - dot3 RRing v v)).
Proof.
  intros Ec v Hv. unfold qreflect. rewrite Ec. cbv zeta. fold v.
  assert (Hq : 0 < qnorm2 RRing c) by (dquat c; subst v; runf; nra).
  cbn [StarRing.K StarRing.k0 StarRing.k1 StarRing.kadd StarRing.kmul StarRing.ksub StarRing.kopp RRing].
  set (nv := sqrt (dot3 RRing v v)). set (nq := sqrt (qnorm2 RRing c)).
  assert (Hnv : nv * nv = dot3 RRing v v) by (apply sqrt_sqrt; lra).
  assert (Hnq : nq * nq = qnorm2 RRing c) by (apply sqrt_sqrt; lra).
  assert (Hnv0 : nv <> 0) by (intros E; rewrite E in Hnv; lra).
  assert (Hnq0 : nq <> 0) by (intros E; rewrite E in Hnq; lra).
  replace (q3 c * / nq * / nv * q0 c, q3 c * / nq * / nv * q1 c, q3 c * / nq * / nv * q2 c, - (nv * / nq))
    with (qscal RRing (/ (nq * nv)) (q3 c * q0 c, q3 c * q1 c, q3 c * q2 c, - dot3 RRing v v)).
  2:{ rewrite <- Hnv. generalize nv nq Hnv0 Hnq0. intros a b Ha Hb. dquat c. unf.
      cbn [StarRing.K StarRing.k0 StarRing.k1 StarRing.kadd StarRing.kmul StarRing.ksub StarRing.kopp RRing]. pair_split; field; auto. }
  rewrite qmat_scal. f_equal. cbn [StarRing.K StarRing.kmul RRing]. rewrite <- Hnv, <- Hnq. field; auto.
Qed.
(* reflect = Householder reflection (I - 2 v v^T / v.v) applied after the normalised rotation, v = stored vector part *)
Theorem reflect_matrix (r : rotR) :
  let v := qvec RRing (fst r) in 0 < dot3 RRing v v ->
  rmat RRing (r_elem KReflect r)
  = mmul RRing (mscal RRing (/ dot3 RRing v v) (householder RRing v)) (mscal RRing (/ qnorm2 RRing (fst r)) (rmat RRing r)).
Proof.
  destruct r as [q f]. cbv zeta. cbn [fst]. set (v := qvec RRing q). intros Hv.
  unfold r_elem, elem_apply, rmat. cbn [fst snd].
  assert (Hq : 0 < qnorm2 RRing q) by (dquat q; subst v; runf; nra).
  pose proof (reflect_householder RRing q) as B. cbv zeta in B. fold v in B.
  match type of B with mopp _ (qmat _ ?t) = _ => set (qq := t) in * end.
  assert (A : qmat RRing (qreflect RRing Rinv sqrt Rltb q) = mscal RRing (/ (qnorm2 RRing q * dot3 RRing v v)) (qmat RRing qq)).
  { destruct (qcanon_cases q) as [E|E].
    - exact (qreflect_aux q q E Hv).
    - assert (Hv' : 0 < dot3 RRing (qvec RRing (qopp RRing q)) (qvec RRing (qopp RRing q))) by (dquat q; subst v; runf; nra).
      rewrite (qreflect_aux q (qopp RRing q) E Hv').
      assert (E1 : dot3 RRing (qvec RRing (qopp RRing q)) (qvec RRing (qopp RRing q)) = dot3 RRing v v) by (dquat q; subst v; runf; ring).
      assert (E2 : qnorm2 RRing (qopp RRing q) = qnorm2 RRing q) by (dquat q; runf; ring).
      rewrite E1, E2. f_equal. subst qq. dquat q. subst v. runf. pair_split; ring. }
  rewrite A, mmul_mscal.
  replace (@kmul RRing (/ dot3 RRing v v) (/ qnorm2 RRing q)) with (/ (qnorm2 RRing q * dot3 RRing v v))
    by (cbn [StarRing.K StarRing.kmul RRing]; rewrite Rinv_mult; ring).
  destruct f; cbn [negb].
  - now rewrite mmul_opp_r, <- B, mopp_mopp.
  - now rewrite mopp_mscal, B.
Qed.
