(* C19 - proofs about the power-iteration model (Model/PowerIter.v):
   part A (any field): the whole run is invariant under scaling the start vectors by c <> 0;
   part B (reals): Cauchy-Schwarz for finite sums, the squared estimate never exceeds any s with |Ax|^2 <= s|x|^2,
                   and the squared estimates never decrease along u, Gu, G(Gu), ...;
   part C (reals): the combination rule of LinearOperatorMatrix.operator_norm. *)
From Coq Require Import List Bool Arith Lia Field.
Import ListNotations.
From MrVerif Require Import Model.CG Model.PowerIter Proofs.CGProofs.

Section ScaleFree.
  Variable F : Type.
  Variables (f0 f1 : F) (fadd fmul fsub : F -> F -> F) (fopp : F -> F) (fdiv : F -> F -> F) (finv : F -> F).
  Hypothesis Fth : field_theory f0 f1 fadd fmul fsub fopp fdiv finv (@eq F).
  Add Field Ff2 : Fth.
  Variable feqb : F -> F -> bool.
  Hypothesis feqb_spec : forall a b, feqb a b = true <-> a = b.
  Variable close : F -> F -> bool.

  Notation vec := (list F).
  Notation "c *v u" := (vscale F fmul c u) (at level 40, left associativity).
  Notation "<< u , v >>" := (dot F f0 fadd fmul u v) (at level 0).
  Notation rq' := (rq F f0 fadd fmul fdiv feqb).

  Definition homogeneous (G : vec -> vec) : Prop := forall c u, G (c *v u) = c *v G u.

  Lemma feqb_false a b : a <> b -> feqb a b = false.
  Proof. intros H. destruct (feqb a b) eqn:E; [apply feqb_spec in E; contradiction|reflexivity]. Qed.

  Lemma mul_nonzero a b : a <> f0 -> b <> f0 -> fmul a b <> f0.
  Proof.
    intros Ha Hb Hab. apply Hb. transitivity (fdiv (fmul a b) a); [field; exact Ha|]. rewrite Hab. field. exact Ha.
  Qed.

  Lemma dot_scale_both c u w : << c *v u, c *v w >> = fmul (fmul c c) << u, w >>.
  Proof.
    rewrite (dot_vscale_l F _ _ _ _ _ _ _ _ Fth), (dot_vscale_r F _ _ _ _ _ _ _ _ Fth). ring.
  Qed.

  Lemma rq_scale G c u : c <> f0 -> homogeneous G -> rq' G (c *v u) = rq' G u.
  Proof.
    intros Hc HG. unfold rq, sdiv. rewrite HG, !dot_scale_both.
    destruct (feqb << u, u >> f0) eqn:E.
    - apply feqb_spec in E. rewrite E. replace (fmul (fmul c c) f0) with f0 by ring.
      rewrite (proj2 (feqb_spec f0 f0) eq_refl). reflexivity.
    - assert (Hm : << u, u >> <> f0) by (intros H; apply feqb_spec in H; congruence).
      rewrite feqb_false by (apply mul_nonzero; [apply mul_nonzero; exact Hc|exact Hm]).
      f_equal. field. split; assumption.
  Qed.

  Variable c : F.
  Hypothesis Hc : c <> f0.

  Lemma map_rq_scale Gs : Forall homogeneous Gs -> forall us,
    map (fun Gu : (vec -> vec) * vec => rq' (fst Gu) (snd Gu)) (combine Gs (map (vscale F fmul c) us))
    = map (fun Gu : (vec -> vec) * vec => rq' (fst Gu) (snd Gu)) (combine Gs us).
  Proof.
    induction 1 as [|G Gs HG _ IH]; intros us; [reflexivity|].
    destruct us as [|u us]; [reflexivity|]. cbn [map combine fst snd]. rewrite rq_scale by assumption. now rewrite IH.
  Qed.

  Lemma next_vec_scale G u : homogeneous G ->
    next_vec F f0 fadd fmul feqb G (c *v u) = c *v next_vec F f0 fadd fmul feqb G u.
  Proof.
    intros HG. unfold next_vec. cbv zeta. rewrite HG, dot_scale_both.
    destruct (feqb << G u, G u >> f0) eqn:E.
    - apply feqb_spec in E. rewrite E. replace (fmul (fmul c c) f0) with f0 by ring.
      rewrite (proj2 (feqb_spec f0 f0) eq_refl). reflexivity.
    - rewrite feqb_false; [reflexivity|]. apply mul_nonzero; [apply mul_nonzero; exact Hc|].
      intros H. apply feqb_spec in H. congruence.
  Qed.

  Lemma apply_all_scale Gs : Forall homogeneous Gs -> forall us,
    apply_all F f0 fadd fmul feqb Gs (map (vscale F fmul c) us) = map (vscale F fmul c) (apply_all F f0 fadd fmul feqb Gs us).
  Proof.
    unfold apply_all. induction 1 as [|G Gs HG _ IH]; intros us; [reflexivity|].
    destruct us as [|u us]; [reflexivity|]. cbn [map combine fst snd]. rewrite next_vec_scale by exact HG. now rewrite IH.
  Qed.

  Variable Gs : list (vec -> vec).
  Hypothesis HGs : Forall homogeneous Gs.
  Notation pstep' := (pstep F f0 fadd fmul fdiv feqb close Gs).
  Notation ploop' := (ploop F f0 fadd fmul fdiv feqb close Gs).

  Definition scale_state (st : pstate F) : pstate F := mkP (map (vscale F fmul c) (pu st)) (pold st).

  Lemma pstep_scale st :
    pstep' (scale_state st) = match pstep' st with
                              | PStop _ q => PStop F q | PFail _ => PFail F | PNext _ q s => PNext F q (scale_state s) end.
  Proof.
    unfold pstep, scale_state. cbn [pu pold]. rewrite map_rq_scale by exact HGs.
    destruct (all_some _) as [qs|]; [|reflexivity].
    destruct (all_close F close qs (pold st)); [reflexivity|]. rewrite apply_all_scale by exact HGs. reflexivity.
  Qed.

  Lemma ploop_scale fuel : forall st last, ploop' fuel (scale_state st) last = ploop' fuel st last.
  Proof.
    induction fuel as [|fuel IH]; intros st last; [reflexivity|]. cbn [ploop]. rewrite pstep_scale.
    destruct (pstep' st) as [q| |q s]; try reflexivity. rewrite IH. reflexivity.
  Qed.

  (* the whole outcome (error kind, returned squared estimates, callback sequence) does not depend on the length
     (nor on the sign) of the start vectors *)
  Theorem operator_norm_scale_free v0s n :
    operator_norm_sq F f0 fadd fmul fdiv feqb close Gs (map (vscale F fmul c) v0s) n
    = operator_norm_sq F f0 fadd fmul fdiv feqb close Gs v0s n.
  Proof.
    unfold operator_norm_sq. destruct (Nat.eqb n 0); [reflexivity|].
    assert (E : existsb (fun v => feqb << v, v >> f0) (map (vscale F fmul c) v0s) = existsb (fun v => feqb << v, v >> f0) v0s).
    { induction v0s as [|v vs IH]; [reflexivity|]. cbn [map existsb]. rewrite IH. f_equal.
      rewrite dot_scale_both. destruct (feqb << v, v >> f0) eqn:E.
      - apply feqb_spec in E. rewrite E. apply feqb_spec. ring.
      - apply feqb_false. apply mul_nonzero; [apply mul_nonzero; exact Hc|]. intros H. apply feqb_spec in H. congruence. }
    rewrite E. destruct (existsb _ v0s); [reflexivity|].
    rewrite map_map. change (mkP (map (vscale F fmul c) v0s) (map (fun _ => f0) v0s)) with (scale_state (mkP v0s (map (fun _ => f0) v0s))).
    rewrite ploop_scale. reflexivity.
  Qed.
End ScaleFree.

(* ---------------------------------------------------------------- no 0/0 (repaired code)
   With non-zero start vectors the iteration never divides zero by zero: every vector of the state keeps <u,u> <> 0, because a vanishing
   G u is not taken over.  Any field, any operators (not even linear), any stopping test, any budget. *)
Section NeverNan.
  Variable F : Type.
  Variables (f0 : F) (fadd fmul fdiv : F -> F -> F).
  Variable feqb : F -> F -> bool.
  Variable close : F -> F -> bool.
  Notation vec := (list F).
  Notation "<< u , v >>" := (dot F f0 fadd fmul u v) (at level 0).
  Variable Gs : list (vec -> vec).
  Notation pstep' := (pstep F f0 fadd fmul fdiv feqb close Gs).
  Notation ploop' := (ploop F f0 fadd fmul fdiv feqb close Gs).

  Definition nonzero_state (us : list vec) : Prop := Forall (fun u => feqb << u, u >> f0 = false) us.

  Lemma next_vec_nonzero G u : feqb << u, u >> f0 = false ->
    feqb << next_vec F f0 fadd fmul feqb G u, next_vec F f0 fadd fmul feqb G u >> f0 = false.
  Proof. intros H. unfold next_vec. cbv zeta. destruct (feqb << G u, G u >> f0) eqn:E; assumption. Qed.

  Lemma apply_all_nonzero : forall Gl us, nonzero_state us -> nonzero_state (apply_all F f0 fadd fmul feqb Gl us).
  Proof.
    unfold apply_all. induction Gl as [|G Gl IH]; intros us H; [constructor|].
    destruct us as [|u us]; [constructor|]. inversion H as [|? ? Hu Hus]; subst. cbn [combine map fst snd].
    constructor; [apply next_vec_nonzero; exact Hu|apply IH; exact Hus].
  Qed.

  Lemma all_some_rq : forall Gl us, nonzero_state us ->
    exists qs, all_some (map (fun Gu : (vec -> vec) * vec => rq F f0 fadd fmul fdiv feqb (fst Gu) (snd Gu)) (combine Gl us)) = Some qs.
  Proof.
    induction Gl as [|G Gl IH]; intros us H; [exists []; reflexivity|].
    destruct us as [|u us]; [exists []; reflexivity|]. inversion H as [|? ? Hu Hus]; subst. cbn [combine map fst snd all_some].
    unfold rq at 1, sdiv. rewrite Hu. destruct (IH us Hus) as [qs Hq]. rewrite Hq. eexists; reflexivity.
  Qed.

  Lemma pstep_never_fails st : nonzero_state (pu st) ->
    match pstep' st with PFail _ => False | PStop _ _ => True | PNext _ _ st' => nonzero_state (pu st') end.
  Proof.
    intros H. unfold pstep. destruct (all_some_rq Gs (pu st) H) as [qs Hq]. rewrite Hq.
    destruct (all_close F close qs (pold st)); [exact I|]. cbn [pu]. apply apply_all_nonzero. exact H.
  Qed.

  Lemma ploop_never_fails fuel : forall st last, nonzero_state (pu st) -> exists e, fst (ploop' fuel st last) = Some e.
  Proof.
    induction fuel as [|fuel IH]; intros st last H; [eexists; reflexivity|]. cbn [ploop].
    pose proof (pstep_never_fails st H) as Hs. destruct (pstep' st) as [q| |q st']; [eexists; reflexivity|contradiction|].
    destruct (IH st' q Hs) as [e He]. destruct (ploop' fuel st' q) as [r t]. cbn [fst] in *. eexists; exact He.
  Qed.

  Theorem operator_norm_never_nan v0s n : n <> 0 -> existsb (fun v => feqb << v, v >> f0) v0s = false ->
    exists e t, operator_norm_sq F f0 fadd fmul fdiv feqb close Gs v0s n = PDone e t.
  Proof.
    intros Hn Hz. unfold operator_norm_sq. destruct (Nat.eqb n 0) eqn:En; [apply Nat.eqb_eq in En; contradiction|]. rewrite Hz.
    assert (Hnz : nonzero_state v0s).
    { unfold nonzero_state. apply Forall_forall. intros v Hv. destruct (feqb << v, v >> f0) eqn:E; [|reflexivity].
      assert (X : existsb (fun v => feqb << v, v >> f0) v0s = true) by (apply existsb_exists; exists v; split; assumption). congruence. }
    match goal with |- context [let (_, _) := ploop _ _ _ _ _ _ _ _ ?n' ?st ?l in _] =>
      destruct (ploop_never_fails n' st l Hnz) as [e He]; destruct (ploop F f0 fadd fmul fdiv feqb close Gs n' st l) as [r t] end.
    cbn [fst] in He. subst r. exists e, t. reflexivity.
  Qed.
End NeverNan.

(* ================================================================ reals *)
From Coq Require Import Reals Lra Psatz.
Local Open Scope R_scope.

Notation dotR := (dot R 0 Rplus Rmult).
Notation vaddR := (vadd R Rplus).
Notation vsubR := (vsub R Rminus Ropp).
Notation vscaleR := (vscale R Rmult).
Definition RF := RealField.Rfield.

Lemma dotR_nonneg u : 0 <= dotR u u.
Proof. induction u as [|a u IH]; cbn; [lra|nra]. Qed.

Lemma dotR_zero v : dotR v v = 0 -> forall u, dotR u v = 0.
Proof.
  induction v as [|c v IH]; intros Hv u; [destruct u; reflexivity|].
  destruct u as [|a u]; [reflexivity|]. cbn in *. pose proof (dotR_nonneg v).
  assert (c = 0) by nra. assert (dotR v v = 0) by nra. rewrite IH by assumption. subst c. ring.
Qed.

(* Cauchy-Schwarz for finite sums *)
Lemma cauchy_schwarz u v : dotR u v * dotR u v <= dotR u u * dotR v v.
Proof.
  set (a := dotR v v). set (b := dotR u v). set (X := dotR u u).
  pose proof (dotR_nonneg (vsubR (vscaleR a u) (vscaleR b v))) as Hz.
  rewrite (dot_vsub_l R _ _ _ _ _ _ _ _ RF), !(dot_vsub_r R _ _ _ _ _ _ _ _ RF) in Hz.
  rewrite !(dot_vscale_l R _ _ _ _ _ _ _ _ RF), !(dot_vscale_r R _ _ _ _ _ _ _ _ RF) in Hz.
  rewrite (dot_comm R _ _ _ _ _ _ _ _ RF v u) in Hz. fold a b X in Hz.
  assert (Ha : 0 <= a) by apply dotR_nonneg.
  destruct (Req_dec a 0) as [Ha0|Ha0].
  - assert (b = 0) by (apply dotR_zero; exact Ha0). nra.
  - assert (0 < a) by lra. assert (0 <= a * (a * X - b * b)) by nra. nra.
Qed.

Lemma ratio_monotone m0 m1 m2 m3 : 0 < m0 -> 0 < m2 -> 0 <= m1 -> 0 <= m3 ->
  m1 * m1 <= m0 * m2 -> m2 * m2 <= m1 * m3 -> m1 / m0 <= m3 / m2.
Proof.
  intros H0 H2 H1 H3 Ha Hb.
  assert (H1p : 0 < m1). { destruct (Req_dec m1 0); [subst; nra|lra]. }
  assert (Hk : m1 * m2 <= m0 * m3).
  { apply (Rmult_le_reg_r (m1 * m2)); [nra|]. nra. }
  apply (Rmult_le_reg_r (m0 * m2)); [nra|]. unfold Rdiv.
  replace (m1 * / m0 * (m0 * m2)) with (m1 * m2) by (field; lra).
  replace (m3 * / m2 * (m0 * m2)) with (m0 * m3) by (field; lra). exact Hk.
Qed.

Section Rayleigh.
  Variables A At : list R -> list R.
  Hypothesis adjoint : forall u w, dotR (A u) w = dotR u (At w).
  Definition G (u : list R) := At (A u).

  Lemma dot_G u w : dotR u (G w) = dotR (A u) (A w).
  Proof. unfold G. now rewrite adjoint. Qed.

  (* the squared estimate never exceeds any s that bounds |A x|^2 / |x|^2 (no supremum needed) *)
  Theorem rayleigh_below_norm u s : 0 < dotR u u -> (forall x, dotR (A x) (A x) <= s * dotR x x) ->
    dotR u (G u) / dotR u u <= s.
  Proof.
    intros Hu Hs. rewrite dot_G. apply (Rmult_le_reg_r (dotR u u)); [exact Hu|].
    replace (dotR (A u) (A u) / dotR u u * dotR u u) with (dotR (A u) (A u)) by (field; lra). apply Hs.
  Qed.

  Corollary unit_below_norm v s : dotR v v = 1 -> (forall x, dotR (A x) (A x) <= s * dotR x x) -> dotR v (G v) <= s.
  Proof.
    intros Hv Hs. pose proof (rayleigh_below_norm v s) as H. rewrite Hv in H. unfold Rdiv in H. rewrite Rinv_1, Rmult_1_r in H.
    apply H; [lra|exact Hs].
  Qed.

  (* Rayleigh quotients do not decrease from u to G u *)
  Theorem rayleigh_monotone u : 0 < dotR u u -> 0 < dotR (G u) (G u) ->
    dotR u (G u) / dotR u u <= dotR (G u) (G (G u)) / dotR (G u) (G u).
  Proof.
    intros H0 H2. apply ratio_monotone; try assumption.
    - rewrite dot_G. apply dotR_nonneg.
    - rewrite dot_G. apply dotR_nonneg.
    - apply cauchy_schwarz.
    - assert (E : dotR (G u) (G u) = dotR (A u) (A (G u))).
      { unfold G at 1. rewrite (dot_comm R _ _ _ _ _ _ _ _ RF (At (A u)) (G u)), <- adjoint. apply (dot_comm R _ _ _ _ _ _ _ _ RF). }
      rewrite E at 1 2. rewrite !dot_G. apply cauchy_schwarz.
  Qed.
End Rayleigh.

(* ---- the model's squared estimate over R is this Rayleigh quotient *)
Definition Reqb' (a b : R) : bool := if Req_EM_T a b then true else false.
Lemma rq_R_value Gop u q : rq R 0 Rplus Rmult Rdiv Reqb' Gop u = Some q -> dotR u u <> 0 /\ q = dotR u (Gop u) / dotR u u.
Proof.
  unfold rq, sdiv, Reqb'. destruct (Req_EM_T (dotR u u) 0); [discriminate|]. intros [= <-]. split; [assumption|reflexivity].
Qed.

Theorem model_estimates_monotone A At u q q' : (forall x w, dotR (A x) w = dotR x (At w)) ->
  rq R 0 Rplus Rmult Rdiv Reqb' (G A At) u = Some q -> rq R 0 Rplus Rmult Rdiv Reqb' (G A At) (G A At u) = Some q' -> q <= q'.
Proof.
  intros Hadj H1 H2. apply rq_R_value in H1. apply rq_R_value in H2. destruct H1 as [Hn1 ->]. destruct H2 as [Hn2 ->].
  apply rayleigh_monotone; [exact Hadj| |].
  - pose proof (dotR_nonneg u). lra.
  - pose proof (dotR_nonneg (G A At u)). lra.
Qed.

Theorem model_estimate_below_norm A At u q s : (forall x w, dotR (A x) w = dotR x (At w)) ->
  (forall x, dotR (A x) (A x) <= s * dotR x x) -> rq R 0 Rplus Rmult Rdiv Reqb' (G A At) u = Some q -> q <= s.
Proof.
  intros Hadj Hs H1. apply rq_R_value in H1. destruct H1 as [Hn1 ->]. apply rayleigh_below_norm; try assumption.
  pose proof (dotR_nonneg u). lra.
Qed.

(* ================================================================ operator matrices *)
Notation rule := (matrix_norm_sq R 0 Rplus Rmax).

(* [I I] (1x1 blocks): every entry has norm 1, the documented "upper bound" is 1, but |M x|^2 = 4 > 1 * |x|^2 = 2 for x = (1,1) *)
Theorem horizontal_rule_refuted : exists x1 x2 : R,
  rule [[1; 1]] = 1 /\ (forall y, (1 * y) * (1 * y) <= 1 * (y * y)) /\
  (1 * x1 + 1 * x2) * (1 * x1 + 1 * x2) > rule [[1; 1]] * (x1 * x1 + x2 * x2).
Proof.
  assert (E : rule [[1; 1]] = 1) by (cbn; apply Rmax_left; lra).
  exists 1, 1. rewrite E. repeat split; intros; nra.
Qed.

(* the vertical rule sqrt(sum of squares) is a bound: |[A1; ..; Ak] x|^2 = sum |Ai x|^2 <= (sum ni^2) |x|^2 *)
Fixpoint rsum (l : list R) : R := match l with [] => 0 | a :: l' => a + rsum l' end.
Theorem vertical_rule_bound X : forall ys n2s, Forall2 (fun y n2 => y <= n2 * X) ys n2s -> rsum ys <= rsum n2s * X.
Proof. induction 1 as [|y n2 ys n2s Hy _ IH]; cbn; [lra|nra]. Qed.

Lemma rule_two_rows a b : rule [[a]; [b]] = a + b.
Proof. reflexivity. Qed.
Lemma rule_three_rows a b c : rule [[a]; [b]; [c]] = a + (b + c).
Proof. reflexivity. Qed.

(* a rule that is a bound for the horizontal layout [A B]: |A x1 + B x2|^2 <= (a^2 + b^2)(|x1|^2 + |x2|^2) *)
Theorem horizontal_sum_of_squares_bound u v a2 b2 X1 X2 : 0 <= a2 -> 0 <= b2 -> 0 <= X1 -> 0 <= X2 ->
  dotR u u <= a2 * X1 -> dotR v v <= b2 * X2 -> dotR (vaddR u v) (vaddR u v) <= (a2 + b2) * (X1 + X2).
Proof.
  intros Ha Hb H1 H2 Hu Hv.
  rewrite (dot_vadd_l R _ _ _ _ _ _ _ _ RF), !(dot_vadd_r R _ _ _ _ _ _ _ _ RF), (dot_comm R _ _ _ _ _ _ _ _ RF v u).
  pose proof (cauchy_schwarz u v) as Hcs. pose proof (dotR_nonneg u). pose proof (dotR_nonneg v).
  set (t := dotR u v) in *. set (U := dotR u u) in *. set (V := dotR v v) in *.
  set (P := a2 * X2). set (Q := b2 * X1).
  assert (HP : 0 <= P) by (unfold P; nra). assert (HQ : 0 <= Q) by (unfold Q; nra).
  assert (Ht : t * t <= P * Q).
  { apply Rle_trans with (U * V); [exact Hcs|]. unfold P, Q.
    apply Rle_trans with ((a2 * X1) * (b2 * X2)); [apply Rmult_le_compat; assumption|]. right. ring. }
  assert (H2t : 2 * t <= P + Q).
  { destruct (Rle_dec (2 * t) (P + Q)) as [|Hn]; [assumption|]. exfalso. clearbody P Q t. pose proof (Rle_0_sqr (P - Q)) as Hsq. unfold Rsqr in Hsq.
    assert (0 < (2 * t - (P + Q)) * (2 * t + (P + Q))) by (apply Rmult_lt_0_compat; lra). nra. }
  unfold P, Q in H2t. nra.
Qed.

(* ================================================================ any r x c layout: |M x|^2 <= (sum_ij n_ij^2) |x|^2 *)
Fixpoint vsum (ys : list (list R)) : list R := match ys with [] => [] | y :: ys' => vaddR y (vsum ys') end.

(* a block row: operators with their squared norm bounds, applied to the parts x_j of the input and summed *)
Definition block := ((list R -> list R) * R)%type.
Definition apply_row (row : list block) (xs : list (list R)) : list R :=
  vsum (map (fun bx : block * list R => fst (fst bx) (snd bx)) (combine row xs)).
Definition norm_ok (b : block) : Prop := 0 <= snd b /\ forall x, dotR (fst b x) (fst b x) <= snd b * dotR x x.
Definition sqnorms (xs : list (list R)) : R := rsum (map (fun x => dotR x x) xs).

Lemma rsum_nonneg l : Forall (fun a => 0 <= a) l -> 0 <= rsum l.
Proof. induction 1; cbn; lra. Qed.

Lemma sqnorms_nonneg xs : 0 <= sqnorms xs.
Proof. unfold sqnorms. induction xs as [|x xs IH]; cbn; [lra|]. pose proof (dotR_nonneg x). lra. Qed.

(* one block row (horizontal layout with any number of blocks), by induction with the two-block bound *)
Lemma row_sum_of_squares_bound (row : list block) : Forall norm_ok row -> forall xs,
  dotR (apply_row row xs) (apply_row row xs) <= rsum (map snd row) * sqnorms xs.
Proof.
  induction 1 as [|b row [Hb0 Hb] Hrow IH]; intros xs.
  - unfold apply_row. cbn. pose proof (sqnorms_nonneg xs). lra.
  - destruct xs as [|x xs].
    + unfold apply_row, sqnorms. cbn. assert (0 <= rsum (map snd row)).
      { apply rsum_nonneg. apply Forall_map. eapply Forall_impl; [|exact Hrow]. intros c [H0 _]. exact H0. }
      nra.
    + unfold apply_row, sqnorms. cbn [combine map vsum rsum fst snd].
      apply horizontal_sum_of_squares_bound.
      * exact Hb0.
      * apply rsum_nonneg. apply Forall_map. eapply Forall_impl; [|exact Hrow]. intros c [H0 _]. exact H0.
      * apply dotR_nonneg.
      * apply (sqnorms_nonneg xs).
      * apply Hb.
      * apply (IH xs).
Qed.

(* the whole grid: the output is the stack of the rows, its squared norm the sum over the rows *)
Definition apply_grid_sq (grid : list (list block)) (xs : list (list R)) : R :=
  rsum (map (fun row => dotR (apply_row row xs) (apply_row row xs)) grid).
Definition sum_of_squares (grid : list (list block)) : R := rsum (map (fun row => rsum (map snd row)) grid).

Theorem grid_sum_of_squares_bound (grid : list (list block)) : Forall (Forall norm_ok) grid -> forall xs,
  apply_grid_sq grid xs <= sum_of_squares grid * sqnorms xs.
Proof.
  unfold apply_grid_sq, sum_of_squares. induction 1 as [|row grid Hrow _ IH]; intros xs; cbn [map rsum]; [lra|].
  pose proof (row_sum_of_squares_bound row Hrow xs). specialize (IH xs). lra.
Qed.
