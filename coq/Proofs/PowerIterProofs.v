From MrVerif Require Import Model.CG Model.PowerIter.
