(* C17 - proofs about the signal models (Model/SignalModels.v): code expression = documented closed form. *)
From Coq Require Import Reals Lra Lia Psatz List Arith.
From MrVerif Require Import Model.SignalModels.
Import ListNotations.
Open Scope R_scope.

(* ---- IR / SR / mono-exponential: the same expression, for every argument (no side condition at all) ----------- *)
Lemma ir_eq_doc : forall m0 t1 ti, ir_code m0 t1 ti = ir_doc m0 t1 ti.
Proof.
  intros. unfold ir_code, ir_doc. replace (- (ti / t1)) with (- ti * / t1) by (unfold Rdiv; ring). ring.
Qed.
Lemma sr_eq_doc : forall m0 t1 ti, sr_code m0 t1 ti = sr_doc m0 t1 ti.
Proof.
  intros. unfold sr_code, sr_doc. replace (- (ti / t1)) with (- ti * / t1) by (unfold Rdiv; ring). ring.
Qed.
Lemma mono_eq_doc : forall m0 tc t, mono_code m0 tc t = mono_doc m0 tc t.
Proof.
  intros. unfold mono_code, mono_doc. replace (- (t / tc)) with (- t * / tc) by (unfold Rdiv; ring). ring.
Qed.

(* limiting values that the repository's tests look at are consequences *)
Lemma ir_at_0 : forall m0 t1, ir_code m0 t1 0 = - m0.
Proof. intros. unfold ir_code. replace (- (0 / t1)) with 0 by (unfold Rdiv; ring). rewrite exp_0. ring. Qed.
Lemma sr_at_0 : forall m0 t1, sr_code m0 t1 0 = 0.
Proof. intros. unfold sr_code. replace (- (0 / t1)) with 0 by (unfold Rdiv; ring). rewrite exp_0. ring. Qed.
Lemma mono_at_0 : forall m0 tc, mono_code m0 tc 0 = m0.
Proof. intros. unfold mono_code. replace (- (0 / tc)) with 0 by (unfold Rdiv; ring). rewrite exp_0. ring. Qed.

(* ---- MOLLI ------------------------------------------------------------------------------------------------------- *)
Lemma molli_eq_doc : forall a c t1 ti, t1 <> 0 -> c <> 1 -> molli_code a c t1 ti = molli_doc a c t1 ti.
Proof.
  intros a c t1 ti Ht Hc. unfold molli_code, molli_doc.
  replace (- ti / (t1 / (c - 1))) with (ti / t1 * (1 - c)) by (field; split; lra). reflexivity.
Qed.
Lemma molli_doc_orig : forall a b t1 ti, a <> 0 -> molli_doc a (b / a) t1 ti = molli_orig a b t1 ti.
Proof. intros a b t1 ti Ha. unfold molli_doc, molli_orig. field. exact Ha. Qed.
Lemma molli_eq_orig : forall a b t1 ti, a <> 0 -> t1 <> 0 -> b <> a -> molli_code a (b / a) t1 ti = molli_orig a b t1 ti.
Proof.
  intros a b t1 ti Ha Ht Hb. rewrite molli_eq_doc; [apply molli_doc_orig; exact Ha|exact Ht|].
  intro E. apply Hb. apply (Rmult_eq_compat_r a) in E. unfold Rdiv in E. rewrite Rmult_assoc, Rinv_l in E by exact Ha. lra.
Qed.
(* the formula as printed in the docstring, a(1-c)e^{..}, is not what the code (and the cited paper) computes *)
Lemma molli_docstring_literal_differs : exists a c t1 ti, t1 > 0 /\ molli_code a c t1 ti <> molli_docstring_literal a c t1 ti.
Proof.
  exists 1, 0, 1, 1. split; [lra|]. unfold molli_code, molli_docstring_literal.
  replace (1 * (1 - 0 * exp (1 / 1 * (1 - 0)))) with 1 by ring.
  replace (1 * (1 - 0) * exp (- (1) / (1 / (0 - 1)))) with (exp 1).
  - pose proof exp_ineq1 1 as H. lra.
  - replace (- (1) / (1 / (0 - 1))) with 1 by (field; lra). ring.
Qed.

(* ---- TransientSteadyStateWithPreparation ------------------------------------------------------------------------- *)
Lemma tss_eq_doc : forall m0 t1 fa delay scal tr t,
  t1 <> 0 -> 1 / t1 - ln (cos fa) / tr <> 0 ->
  tss_code m0 t1 fa delay scal tr t = tss_doc m0 t1 fa delay scal tr t.
Proof.
  intros m0 t1 fa delay scal tr t Ht Hr. unfold tss_code, tss_doc, tss_t1_star. cbv zeta.
  set (L := ln (cos fa) / tr) in *.
  assert (Hd : 1 - t1 * L <> 0).
  { intro E. apply Hr. replace (1 / t1 - L) with ((1 - t1 * L) / t1) by (field; exact Ht). rewrite E. unfold Rdiv. ring. }
  replace (- t / (1 / (1 / t1 - L))) with (- t * (1 / t1 - L)) by (field; split; [exact Ht|]; intro E; apply Hd; lra).
  replace (- delay / t1) with (- (delay / t1)) by (unfold Rdiv; ring).
  replace (m0 * (1 / (1 / t1 - L)) / t1) with (m0 / (1 - t1 * L)).
  - ring.
  - field. repeat split; try assumption. intro E. apply Hd. lra.
Qed.
(* for 0 < t1, 0 < tr and a flip angle with 0 < cos < 1 the side condition holds: the domain of the model *)
Lemma tss_domain : forall t1 fa tr, 0 < t1 -> 0 < tr -> 0 < cos fa -> 1 / t1 - ln (cos fa) / tr <> 0.
Proof.
  intros t1 fa tr Ht Htr Hc.
  assert (Hl : ln (cos fa) <= 0).
  { destruct (Req_dec (cos fa) 1) as [E|E]; [rewrite E, ln_1; lra|].
    left. rewrite <- ln_1. apply ln_increasing; [exact Hc|]. pose proof (COS_bound fa). lra. }
  assert (H1 : 0 < 1 / t1) by (apply Rdiv_lt_0_compat; lra).
  assert (H2 : ln (cos fa) / tr <= 0).
  { unfold Rdiv. replace 0 with (0 * / tr) by ring. apply Rmult_le_compat_r; [left; apply Rinv_0_lt_compat; exact Htr|exact Hl]. }
  lra.
Qed.

(* ---- sinc ------------------------------------------------------------------------------------------------------ *)
Lemma sinc_0 : sinc 0 = 1.
Proof. unfold sinc. destruct (Req_EM_T 0 0); [reflexivity|contradiction]. Qed.
Lemma sinc_nz : forall x, x <> 0 -> sinc x = sin (PI * x) / (PI * x).
Proof. intros x Hx. unfold sinc. destruct (Req_EM_T x 0); [contradiction|reflexivity]. Qed.

Lemma sumsq_pos : forall u v, 0 <= u ^ 2 + v ^ 2.
Proof. intros. nra. Qed.

(* ---- WASABI ------------------------------------------------------------------------------------------------------ *)
Lemma wasabi_code_nz : forall b0 rb1 c d b1n g off tp,
  tp * sqrt ((b1n * rb1 * g) ^ 2 + (off - b0) ^ 2) <> 0 ->
  wasabi_code b0 rb1 c d b1n g off tp = wasabi_nz b0 rb1 c d b1n g off tp.
Proof. intros. unfold wasabi_code, wasabi_nz. cbv zeta. rewrite sinc_nz by assumption. reflexivity. Qed.

(* code = documented form, for every argument (on resonance with B1 = 0 and for tp = 0 both sides are c) *)
Lemma wasabi_eq_doc : forall b0 rb1 c d b1n g off tp,
  wasabi_code b0 rb1 c d b1n g off tp = wasabi_doc b0 rb1 c d b1n g off tp.
Proof.
  intros b0 rb1 c d b1n g off tp. unfold wasabi_code, wasabi_doc. cbv zeta.
  replace (g * (b1n * rb1)) with (b1n * rb1 * g) by ring.
  replace (PI * (b1n * rb1) * g * tp) with (PI * (b1n * rb1 * g) * tp) by ring.
  set (u := b1n * rb1 * g). set (v := off - b0).
  pose proof (sumsq_pos u v) as Hs.
  set (q := u ^ 2 + v ^ 2) in *.
  destruct (Req_dec (tp * sqrt q) 0) as [E|E].
  - rewrite E, sinc_0.
    destruct (Rmult_integral _ _ E) as [Et|Eq].
    + subst tp. replace (PI * 0 * sqrt q) with 0 by ring. rewrite sin_0. ring.
    + assert (Hq : q = 0) by (apply sqrt_eq_0; assumption).
      assert (Hu : u = 0) by (unfold q in Hq; nra).
      rewrite Hu. unfold Rdiv. ring.
  - rewrite sinc_nz by exact E.
    assert (Hq : 0 < q).
    { destruct Hs as [Hs|Hs]; [exact Hs|]. exfalso. apply E. rewrite <- Hs, sqrt_0. ring. }
    assert (Htp : tp <> 0) by (intro Z; apply E; rewrite Z; ring).
    assert (Hsq : sqrt q <> 0) by (intro Z; apply E; rewrite Z; ring).
    replace (PI * tp * sqrt q) with (PI * (tp * sqrt q)) by ring.
    set (S := sin (PI * (tp * sqrt q))).
    replace (u ^ 2 / q) with (u ^ 2 / (sqrt q * sqrt q)) by (rewrite sqrt_sqrt by lra; reflexivity).
    field. repeat split; try assumption. apply PI_neq0.
Qed.

(* documented form = the formula of the paper (sin^2 atan) off resonance *)
Lemma sin_atan_sq : forall x, sin (atan x) ^ 2 = x ^ 2 / (1 + x ^ 2).
Proof.
  intros x. rewrite sin_atan.
  assert (H : 0 < 1 + x ^ 2) by nra.
  replace (1 + x²) with (1 + x ^ 2) by (unfold Rsqr; ring).
  unfold Rdiv. rewrite Rpow_mult_distr.
  replace ((/ sqrt (1 + x ^ 2)) ^ 2) with (/ (sqrt (1 + x ^ 2) * sqrt (1 + x ^ 2))).
  - rewrite sqrt_sqrt by lra. reflexivity.
  - assert (sqrt (1 + x ^ 2) <> 0) by (intro Z; apply sqrt_eq_0 in Z; lra). field. assumption.
Qed.

Lemma wasabi_doc_paper : forall b0 rb1 c d b1n g off tp, off - b0 <> 0 ->
  wasabi_doc b0 rb1 c d b1n g off tp = wasabi_paper b0 rb1 c d b1n g off tp.
Proof.
  intros b0 rb1 c d b1n g off tp Hv. unfold wasabi_doc, wasabi_paper. cbv zeta.
  set (u := g * (b1n * rb1)). set (v := off - b0) in *.
  assert (Hq : 0 < u ^ 2 + v ^ 2) by nra.
  pose proof PI_RGT_0 as Hpi.
  rewrite sin_atan_sq.
  replace ((2 * PI * u) ^ 2 + (2 * PI * v) ^ 2) with ((2 * PI) * (2 * PI) * (u ^ 2 + v ^ 2)) by ring.
  rewrite sqrt_mult by nra. rewrite sqrt_square by lra.
  replace (2 * PI * sqrt (u ^ 2 + v ^ 2) * tp / 2) with (PI * tp * sqrt (u ^ 2 + v ^ 2)) by field.
  replace ((2 * PI * u / (2 * PI * v)) ^ 2 / (1 + (2 * PI * u / (2 * PI * v)) ^ 2)) with (u ^ 2 / (u ^ 2 + v ^ 2)).
  - reflexivity.
  - field. repeat split; try lra; nra.
Qed.

Lemma wasabi_eq_paper : forall b0 rb1 c d b1n g off tp, off <> b0 ->
  wasabi_code b0 rb1 c d b1n g off tp = wasabi_paper b0 rb1 c d b1n g off tp.
Proof. intros. rewrite wasabi_eq_doc. apply wasabi_doc_paper. lra. Qed.

(* ---- WASABITI ---------------------------------------------------------------------------------------------------- *)
Lemma wasabiti_code_nz : forall b0 rb1 t1 b1n g off tp trec,
  tp * sqrt ((b1n * rb1 * g) ^ 2 + (off - b0) ^ 2) <> 0 ->
  wasabiti_code b0 rb1 t1 b1n g off tp trec = wasabiti_nz b0 rb1 t1 b1n g off tp trec.
Proof. intros. unfold wasabiti_code, wasabiti_nz. cbv zeta. rewrite sinc_nz by assumption. reflexivity. Qed.

Lemma wasabiti_code_wasabi : forall b0 rb1 t1 b1n g off tp trec,
  wasabiti_code b0 rb1 t1 b1n g off tp trec = sr_code 1 t1 trec * wasabi_code b0 rb1 1 2 b1n g off tp.
Proof.
  intros. unfold wasabiti_code, sr_code, wasabi_code. cbv zeta.
  replace (- trec / t1) with (- (trec / t1)) by (unfold Rdiv; ring). ring.
Qed.

Lemma wasabiti_eq_doc : forall b0 rb1 t1 b1n g off tp trec,
  wasabiti_code b0 rb1 t1 b1n g off tp trec = wasabiti_doc b0 rb1 t1 b1n g off tp trec.
Proof. intros. rewrite wasabiti_code_wasabi, sr_eq_doc, wasabi_eq_doc. reflexivity. Qed.

(* ---- shapes -------------------------------------------------------------------------------------------------------- *)
Lemma bc_dim_1_r : forall t, bc_dim t 1 = Some t.
Proof.
  intros t. unfold bc_dim. destruct (Nat.eqb t 1) eqn:E; [reflexivity|]. reflexivity.
Qed.
Lemma bc_dim_1_l : forall t, bc_dim 1 t = Some t.
Proof.
  intros t. unfold bc_dim. destruct (Nat.eqb 1 t) eqn:E.
  - apply Nat.eqb_eq in E. subst. reflexivity.
  - reflexivity.
Qed.

Lemma bc_aligned_ones_l : forall ps, bc_aligned (repeat 1%nat (length ps)) ps = Some ps.
Proof. induction ps as [|p ps IH]; cbn [length repeat bc_aligned]; [reflexivity|]. rewrite bc_dim_1_l, IH. reflexivity. Qed.

Lemma bc_aligned_length : forall a b r, bc_aligned a b = Some r -> length r = length a /\ length r = length b.
Proof.
  induction a as [|x a IH]; intros [|y b] r H; cbn in H; try discriminate.
  - inversion H. split; reflexivity.
  - destruct (bc_dim x y); [|discriminate]. destruct (bc_aligned a b) eqn:E; [|discriminate].
    inversion H; subst. destruct (IH _ _ E) as [H1 H2]. cbn. split; congruence.
Qed.

(* each output size is one of the two input sizes and the other one is equal to it or 1 *)
Lemma bc_dim_spec : forall x y d, bc_dim x y = Some d -> (d = x /\ (y = x \/ y = 1%nat)) \/ (d = y /\ x = 1%nat).
Proof.
  intros x y d. unfold bc_dim.
  destruct (Nat.eqb x y) eqn:E1.
  - apply Nat.eqb_eq in E1. intros H; inversion H; subst. left. auto.
  - destruct (Nat.eqb x 1) eqn:E2.
    + apply Nat.eqb_eq in E2. intros H; inversion H; subst. right. auto.
    + destruct (Nat.eqb y 1) eqn:E3; [|discriminate].
      apply Nat.eqb_eq in E3. intros H; inversion H; subst. left. auto.
Qed.

Lemma unsqueeze_right_length : forall s n, length (unsqueeze_right s n) = (length s + n)%nat.
Proof. intros. unfold unsqueeze_right. rewrite app_length, repeat_length. reflexivity. Qed.
Lemma unsqueeze_left_length : forall s n, length (unsqueeze_left s n) = (n + length s)%nat.
Proof. intros. unfold unsqueeze_left. rewrite app_length, repeat_length. reflexivity. Qed.
Lemma unsqueeze_right_nth : forall s n i, nth i (unsqueeze_right s n) 1%nat = nth i s 1%nat.
Proof.
  intros s n i. unfold unsqueeze_right. destruct (Nat.lt_ge_cases i (length s)) as [H|H].
  - apply app_nth1. exact H.
  - rewrite app_nth2 by exact H. rewrite (nth_overflow s) by exact H.
    destruct (Nat.lt_ge_cases (i - length s) n) as [H2|H2].
    + apply nth_repeat.
    + apply nth_overflow. rewrite repeat_length. exact H2.
Qed.
Lemma unsqueeze_left_nth : forall s n i, nth (n + i) (unsqueeze_left s n) 1%nat = nth i s 1%nat.
Proof.
  intros s n i. unfold unsqueeze_left. rewrite app_nth2 by (rewrite repeat_length; lia).
  rewrite repeat_length. f_equal. lia.
Qed.

(* the time-like axis comes first and the rest is the broadcast of the (right-padded) trailing time dims with the parameters *)
Lemma model_out_shape_time_first : forall T ts ps, (length ts <= length ps)%nat ->
  model_out_shape (T :: ts) ps
  = option_map (cons T) (bc_aligned (unsqueeze_right ts (length ps - length ts)) ps).
Proof.
  intros T ts ps Hk. unfold model_out_shape, broadcast.
  replace (length (T :: ts) - 1)%nat with (length ts) by (cbn; lia).
  assert (Hl : length (unsqueeze_right (T :: ts) (length ps - length ts)) = S (length ps)).
  { rewrite unsqueeze_right_length. cbn. lia. }
  rewrite Hl. replace (Nat.max (S (length ps)) (length ps)) with (S (length ps)) by lia.
  replace (S (length ps) - S (length ps))%nat with 0%nat by lia.
  replace (S (length ps) - length ps)%nat with 1%nat by lia.
  unfold unsqueeze_left. cbn [repeat app]. unfold unsqueeze_right. cbn [app bc_aligned].
  rewrite bc_dim_1_r.
  destruct (bc_aligned (ts ++ repeat 1%nat (length ps - length ts)) ps); reflexivity.
Qed.

Lemma model_out_shape_vector_time : forall T ps, model_out_shape [T] ps = Some (T :: ps).
Proof.
  intros T ps. rewrite model_out_shape_time_first by (cbn; lia).
  unfold unsqueeze_right. cbn [app length]. rewrite Nat.sub_0_r, bc_aligned_ones_l. reflexivity.
Qed.

Lemma model_out_shape_rank : forall T ts ps r, (length ts <= length ps)%nat ->
  model_out_shape (T :: ts) ps = Some r -> exists r', r = T :: r' /\ length r' = length ps.
Proof.
  intros T ts ps r Hk H. rewrite model_out_shape_time_first in H by exact Hk.
  destruct (bc_aligned (unsqueeze_right ts (length ps - length ts)) ps) as [r'|] eqn:E; [|discriminate].
  inversion H; subst. exists r'. split; [reflexivity|]. apply (bc_aligned_length _ _ _ E).
Qed.

Lemma seqparam_shape_spec : forall ss ps, (length ss <= length ps)%nat ->
  length (seqparam_shape ss ps) = length ps /\ forall i, nth i (seqparam_shape ss ps) 1%nat = nth i ss 1%nat.
Proof.
  intros ss ps H. unfold seqparam_shape. split.
  - rewrite unsqueeze_right_length. lia.
  - intro i. apply unsqueeze_right_nth.
Qed.

(* ---- the implementation's shape computation -------------------------------------------------------------------------- *)
Lemma model_shape_impl_documented : forall T ts p0 pbc, length p0 = length pbc ->
  model_shape_impl (T :: ts) p0 pbc [] =
  match model_out_shape (T :: ts) pbc with Some r => ShapeOk r | None => BroadcastError end.
Proof.
  intros T ts p0 pbc H. unfold model_shape_impl, model_out_shape. rewrite H. cbn [unsq_all fold_left]. reflexivity.
Qed.

(* one per-voxel sequence parameter: it is aligned with the LEADING parameter dims *)
Lemma model_shape_impl_seqparam : forall tshape p0 pbc ss, length p0 = length pbc ->
  model_shape_impl tshape p0 pbc [ss] =
  match model_out_shape tshape pbc with
  | Some r => match broadcast r (seqparam_shape ss pbc) with Some r' => ShapeOk r' | None => BroadcastError end
  | None => BroadcastError
  end.
Proof.
  intros tshape p0 pbc ss H. unfold model_shape_impl, model_out_shape, seqparam_shape. rewrite H. cbn [unsq_all fold_left].
  destruct (broadcast (unsqueeze_right tshape (length pbc - (length tshape - 1))) pbc); reflexivity.
Qed.

Lemma shape_first_param_rank_counterexample :
  model_shape_impl [2]%nat [] [2; 2]%nat [] = ShapeOk [2; 2]%nat /\ model_out_shape [2]%nat [2; 2]%nat = Some [2; 2; 2]%nat
  /\ model_shape_impl [3]%nat [] [2; 2]%nat [] = BroadcastError /\ model_out_shape [3]%nat [2; 2]%nat = Some [3; 2; 2]%nat.
Proof. repeat split; reflexivity. Qed.
