(* WaveletOp: the synthesis filter bank is the adjoint of the analysis filter bank exactly when the reconstruction
   filters are the reversed (conjugated) decomposition filters - for every filter length, signal length (even or odd),
   number of levels and scalar ring. *)
From MrVerif Require Import Base.Prelude Base.StarRing Base.Sums Model.OpAlg Model.ZeroPad Model.ElemOps Model.Wavelet Proofs.OpAlgProofs
  Proofs.ElemOpsProofs Proofs.AlongProofs.
Local Open Scope nat_scope.

Section WaveletProofs.
  Variable R : StarRing.
  Add Ring RrW : (k_ring R).
  Local Open Scope K_scope.
  Notation vec := (nat -> R).
  Notation linop := (linop R).

  (* selecting the entry t with  c = t + d  out of a sum over t < n *)
  Lemma sum_select_Z n (c d : Z) (F : vec) :
    sum n (fun t => if (c =? Z.of_nat t + d)%Z then F t else k0)
    = if ((0 <=? c - d) && (c - d <? Z.of_nat n))%Z then F (Z.to_nat (c - d)) else k0.
  Proof.
    destruct ((0 <=? c - d) && (c - d <? Z.of_nat n))%Z eqn:E.
    - rewrite (sum_ext _ n _ (fun t => if Nat.eqb t (Z.to_nat (c - d)) then F t else k0)).
      + apply sum_delta. lia.
      + intros t Ht. destruct (Z.eqb_spec c (Z.of_nat t + d)) as [Hc|Hc];
          destruct (Nat.eqb_spec t (Z.to_nat (c - d))) as [Ht2|Ht2]; try reflexivity; exfalso; lia.
    - rewrite (sum_ext _ n _ (fun _ => k0)); [apply sum_zero|].
      intros t Ht. destruct (Z.eqb_spec c (Z.of_nat t + d)) as [Hc|Hc]; [exfalso; lia|reflexivity].
  Qed.

  Lemma sum_sum_zero a b : sum a (fun _ => sum b (fun _ => (k0 : R))) = k0.
  Proof. rewrite (sum_ext _ a _ (fun _ => k0)) by (intros; apply sum_zero). apply sum_zero. Qed.

  (* ---------- one band ---------- *)
  Lemma band_adjoint L n m (f g : vec) : filters_match L f g -> adjoint_pair (band_op L n m f g).
  Proof.
    intros Hfg u v. cbn [band_op dom ran fwd adj]. unfold inner, analysis, synthesis.
    (* right-hand side: conjugate inside, then sum over t innermost *)
    rewrite (sum_ext _ n _ (fun t => sum m (fun j => sum L (fun k =>
        if (2 * Z.of_nat j + Z.of_nat k =? Z.of_nat t + (Z.of_nat L - 2))%Z
        then u t * (f k * kconj (v j)) else k0)))).
    2:{ intros t _. rewrite sum_conj. rewrite <- sum_mul_l. apply sum_ext. intros j _.
        rewrite sum_conj. rewrite <- sum_mul_l. apply sum_ext. intros k Hk.
        destruct (_ =? _)%Z.
        - rewrite kconj_mul. rewrite (Hfg k Hk). rewrite kconj_inv. reflexivity.
        - rewrite kconj_0. ring. }
    rewrite sum_swap. apply sum_ext. intros j _.
    rewrite <- sum_mul_r.
    rewrite sum_swap. apply sum_ext. intros k _.
    rewrite (sum_select_Z n (2 * Z.of_nat j + Z.of_nat k) (Z.of_nat L - 2) (fun t => u t * (f k * kconj (v j)))).
    unfold zext.
    destruct ((0 <=? 2 * Z.of_nat j + Z.of_nat k - (Z.of_nat L - 2)) &&
              (2 * Z.of_nat j + Z.of_nat k - (Z.of_nat L - 2) <? Z.of_nat n))%Z; ring.
  Qed.

  (* converse: if the pair is adjoint on signals of length >= 2 then the filters match *)
  Lemma analysis_delta L n f t j : (t < n)%nat ->
    analysis L n f (delta (R:=R) t) j
    = sum L (fun k => if (2 * Z.of_nat j + Z.of_nat k =? Z.of_nat t + (Z.of_nat L - 2))%Z then f k else k0).
  Proof.
    intros Ht. unfold analysis. apply sum_ext. intros k _. unfold zext, delta.
    destruct (Z.eqb_spec (2 * Z.of_nat j + Z.of_nat k) (Z.of_nat t + (Z.of_nat L - 2))) as [E|E].
    - replace (2 * Z.of_nat j + Z.of_nat k - (Z.of_nat L - 2))%Z with (Z.of_nat t) by lia.
      rewrite Nat2Z.id, Nat.eqb_refl.
      destruct ((0 <=? Z.of_nat t) && (Z.of_nat t <? Z.of_nat n))%Z eqn:E2; [ring|exfalso; lia].
    - destruct ((0 <=? 2 * Z.of_nat j + Z.of_nat k - (Z.of_nat L - 2)) &&
                (2 * Z.of_nat j + Z.of_nat k - (Z.of_nat L - 2) <? Z.of_nat n))%Z eqn:E2; [|ring].
      destruct (Nat.eqb_spec (Z.to_nat (2 * Z.of_nat j + Z.of_nat k - (Z.of_nat L - 2))) t); [exfalso; lia|ring].
  Qed.

  Lemma synthesis_delta L m g t j : (j < m)%nat ->
    synthesis L m g (delta (R:=R) j) t
    = sum L (fun k => if (2 * Z.of_nat j + Z.of_nat k =? Z.of_nat t + (Z.of_nat L - 2))%Z then g k else k0).
  Proof.
    intros Hj. unfold synthesis.
    rewrite (sum_ext _ m _ (fun j' => if Nat.eqb j' j then
       sum L (fun k => if (2 * Z.of_nat j' + Z.of_nat k =? Z.of_nat t + (Z.of_nat L - 2))%Z then g k else k0) else k0)).
    - rewrite sum_delta by exact Hj. reflexivity.
    - intros j' _. unfold delta. destruct (Nat.eqb_spec j' j) as [->|Hne].
      + apply sum_ext. intros k _. destruct (_ =? _)%Z; ring.
      + rewrite (sum_ext _ L _ (fun _ => k0)); [apply sum_zero|]. intros k _. destruct (_ =? _)%Z; ring.
  Qed.

  (* the sum over k with 2j + k = t + L - 2 has at most one term *)
  Lemma sum_pick_k L (h : vec) j t k : (k < L)%nat ->
    (2 * Z.of_nat j + Z.of_nat k = Z.of_nat t + (Z.of_nat L - 2))%Z ->
    sum L (fun k' => if (2 * Z.of_nat j + Z.of_nat k' =? Z.of_nat t + (Z.of_nat L - 2))%Z then h k' else k0) = h k.
  Proof.
    intros Hk E.
    rewrite (sum_ext _ L _ (fun k' => if Nat.eqb k' k then h k' else k0)).
    - apply sum_delta. exact Hk.
    - intros k' _. destruct (Z.eqb_spec (2 * Z.of_nat j + Z.of_nat k') (Z.of_nat t + (Z.of_nat L - 2)));
        destruct (Nat.eqb_spec k' k); try reflexivity; exfalso; lia.
  Qed.

  Lemma band_adjoint_converse L n m (f g : vec) :
    (2 <= n)%nat -> (L <= 2 * m)%nat -> adjoint_pair (band_op L n m f g) -> filters_match L f g.
  Proof.
    intros Hn Hm Hadj k Hk.
    (* choose j, t with 2 j + k = t + L - 2, t in {0, 1} *)
    set (j := Z.to_nat ((Z.of_nat L - 2 - Z.of_nat k + 1) / 2)).
    set (t := Z.to_nat (2 * Z.of_nat j + Z.of_nat k - (Z.of_nat L - 2))).
    assert (Hj : (j < m)%nat) by (subst j; lia).
    assert (Ht : (t < n)%nat) by (subst t j; lia).
    assert (E : (2 * Z.of_nat j + Z.of_nat k = Z.of_nat t + (Z.of_nat L - 2))%Z) by (subst t j; lia).
    pose proof (Hadj (delta t) (delta j)) as H. cbn [band_op dom ran fwd adj] in H. unfold inner in H.
    rewrite (sum_ext _ m _ (fun j' => if Nat.eqb j' j then analysis L n f (delta t) j' else k0)) in H.
    2:{ intros j' _. unfold delta at 2. destruct (Nat.eqb j' j); [rewrite kconj_1|rewrite kconj_0]; ring. }
    rewrite sum_delta in H by exact Hj.
    rewrite (sum_ext _ n _ (fun t' => if Nat.eqb t' t then kconj (synthesis L m g (delta j) t') else k0)) in H.
    2:{ intros t' _. unfold delta at 1. destruct (Nat.eqb t' t); ring. }
    rewrite sum_delta in H by exact Ht.
    rewrite analysis_delta in H by exact Ht. rewrite synthesis_delta in H by exact Hj.
    rewrite (sum_pick_k L f j t k Hk E) in H. rewrite (sum_pick_k L g j t k Hk E) in H.
    rewrite H. rewrite kconj_inv. reflexivity.
  Qed.

  (* ---------- block diagonal ---------- *)
  Lemma bdiag_adjoint (A B : linop) : adjoint_pair A -> adjoint_pair B -> adjoint_pair (bdiag A B).
  Proof.
    intros HA HB u v. cbn [bdiag dom ran fwd adj]. unfold inner. rewrite !sum_split. f_equal.
    - pose proof (HA u v) as E. unfold inner in E.
      rewrite (sum_ext _ (ran A) _ (fun i => fwd A u i * kconj (v i))).
      2:{ intros i Hi. destruct (Nat.ltb_spec i (ran A)); [reflexivity|lia]. }
      rewrite E. apply sum_ext. intros j Hj. destruct (Nat.ltb_spec j (dom A)); [reflexivity|lia].
    - pose proof (HB (fun j => u (dom A + j)%nat) (fun i => v (ran A + i)%nat)) as E. unfold inner in E.
      rewrite (sum_ext _ (ran B) _ (fun i => fwd B (fun j => u (dom A + j)%nat) i * kconj (v (ran A + i)%nat))).
      2:{ intros i Hi. destruct (Nat.ltb_spec (ran A + i) (ran A)); [lia|].
          replace (ran A + i - ran A)%nat with i by lia. reflexivity. }
      rewrite E. apply sum_ext. intros j Hj. destruct (Nat.ltb_spec (dom A + j) (dom A)); [lia|].
      replace (dom A + j - dom A)%nat with j by lia. reflexivity.
  Qed.

  (* ---------- one level and all levels ---------- *)
  Lemma dwt1_adjoint L n (flo fhi glo ghi : vec) :
    filters_match L flo glo -> filters_match L fhi ghi -> adjoint_pair (dwt1 L n flo fhi glo ghi).
  Proof.
    intros Hlo Hhi. unfold dwt1. apply vstack_adjoint; [reflexivity| |]; apply band_adjoint; assumption.
  Qed.

  Lemma wavedec_dom level L n (flo fhi glo ghi : vec) : dom (wavedec_op level L n flo fhi glo ghi) = n.
  Proof. destruct level; reflexivity. Qed.

  Theorem wavedec_adjoint level : forall L n (flo fhi glo ghi : vec),
    filters_match L flo glo -> filters_match L fhi ghi -> adjoint_pair (wavedec_op level L n flo fhi glo ghi).
  Proof.
    induction level as [|l IH]; intros L n flo fhi glo ghi Hlo Hhi; cbn [wavedec_op].
    - apply idop_adjoint.
    - apply comp_adjoint.
      + cbn [bdiag dom idop]. rewrite wavedec_dom. reflexivity.
      + apply bdiag_adjoint; [apply IH; assumption|apply idop_adjoint].
      + apply dwt1_adjoint; assumption.
  Qed.

  (* first level decides: the one-level operator is an adjoint pair iff both filter pairs match *)
  Lemma dwt1_adjoint_converse L n (flo fhi glo ghi : vec) :
    (2 <= n)%nat -> adjoint_pair (dwt1 L n flo fhi glo ghi) -> filters_match L flo glo /\ filters_match L fhi ghi.
  Proof.
    intros Hn Hadj.
    assert (Hm : (L <= 2 * wlen L n)%nat).
    { unfold wlen. pose proof (Nat.div_mod (n + L - 1) 2 ltac:(lia)) as E1.
      pose proof (Nat.mod_upper_bound (n + L - 1) 2 ltac:(lia)) as E2. lia. }
    split.
    - apply (band_adjoint_converse L n (wlen L n)); [exact Hn|exact Hm|].
      intros u v. pose proof (Hadj u (fun i => if Nat.ltb i (wlen L n) then v i else k0)) as H.
      unfold dwt1 in H. cbn [vstack band_op dom ran fwd adj] in H. cbn [band_op dom ran fwd adj].
      unfold inner in *. rewrite sum_split in H.
      rewrite (sum_ext _ (wlen L n) _ (fun i => analysis L n flo u i * kconj (v i))) in H.
      2:{ intros i Hi. destruct (Nat.ltb_spec i (wlen L n)); [reflexivity|lia]. }
      rewrite (sum_ext _ (wlen L n) (fun i => _ * kconj (if Nat.ltb (wlen L n + i) _ then _ else _)) (fun _ => k0)) in H.
      2:{ intros i Hi. destruct (Nat.ltb_spec (wlen L n + i) (wlen L n)); [lia|]. rewrite kconj_0. ring. }
      rewrite sum_zero in H.
      transitivity (sum (wlen L n) (fun i => analysis L n flo u i * kconj (v i)) + k0); [ring|]. rewrite H.
      apply sum_ext. intros t _. f_equal. f_equal.
      transitivity (synthesis L (wlen L n) glo v t + k0); [|ring]. f_equal.
      + unfold synthesis. apply sum_ext. intros j Hj. apply sum_ext. intros k _.
        destruct (Nat.ltb_spec j (wlen L n)); [reflexivity|lia].
      + unfold synthesis. rewrite (sum_ext _ (wlen L n) _ (fun _ => k0)); [apply sum_zero|].
        intros j Hj. rewrite (sum_ext _ L _ (fun _ => k0)); [apply sum_zero|]. intros k _.
        destruct (Nat.ltb_spec (wlen L n + j) (wlen L n)); [lia|]. destruct (_ =? _)%Z; ring.
    - apply (band_adjoint_converse L n (wlen L n)); [exact Hn|exact Hm|].
      intros u v. pose proof (Hadj u (fun i => if Nat.ltb i (wlen L n) then k0 else v (i - wlen L n)%nat)) as H.
      unfold dwt1 in H. cbn [vstack band_op dom ran fwd adj] in H. cbn [band_op dom ran fwd adj].
      unfold inner in *. rewrite sum_split in H.
      rewrite (sum_ext _ (wlen L n) (fun i => (if Nat.ltb i _ then _ else _) * kconj (if Nat.ltb i _ then _ else _)) (fun _ => k0)) in H.
      2:{ intros i Hi. destruct (Nat.ltb_spec i (wlen L n)); [|lia]. rewrite kconj_0. ring. }
      rewrite sum_zero in H.
      rewrite (sum_ext _ (wlen L n) (fun i => (if Nat.ltb (wlen L n + i) _ then _ else _) * _)
                 (fun i => analysis L n fhi u i * kconj (v i))) in H.
      2:{ intros i Hi. destruct (Nat.ltb_spec (wlen L n + i) (wlen L n)); [lia|].
          replace (wlen L n + i - wlen L n)%nat with i by lia. reflexivity. }
      transitivity (k0 + sum (wlen L n) (fun i => analysis L n fhi u i * kconj (v i))); [ring|]. rewrite H.
      apply sum_ext. intros t _. f_equal. f_equal.
      transitivity (k0 + synthesis L (wlen L n) ghi v t); [|ring]. f_equal.
      + unfold synthesis. rewrite (sum_ext _ (wlen L n) _ (fun _ => k0)); [apply sum_zero|].
        intros j Hj. rewrite (sum_ext _ L _ (fun _ => k0)); [apply sum_zero|]. intros k _.
        destruct (Nat.ltb_spec j (wlen L n)); [|lia]. destruct (_ =? _)%Z; ring.
      + unfold synthesis. apply sum_ext. intros j Hj. apply sum_ext. intros k _.
        destruct (Nat.ltb_spec (wlen L n + j) (wlen L n)); [lia|].
        replace (wlen L n + j - wlen L n)%nat with j by lia. reflexivity.
  Qed.

  Theorem dwt1_adjoint_iff L n (flo fhi glo ghi : vec) : (2 <= n)%nat ->
    (adjoint_pair (dwt1 L n flo fhi glo ghi) <-> filters_match L flo glo /\ filters_match L fhi ghi).
  Proof.
    intros Hn. split; [apply dwt1_adjoint_converse; exact Hn|]. intros [H1 H2]. apply dwt1_adjoint; assumption.
  Qed.
  (* ---------- two dimensions ---------- *)
  Lemma band2_adjoint L n1 n2 (fa ga fb gb : vec) :
    filters_match L fa ga -> filters_match L fb gb -> adjoint_pair (band2_op L n1 n2 fa ga fb gb).
  Proof.
    intros Ha Hb. unfold band2_op. apply comp_adjoint.
    - cbn [along dom ran band_op]. ring.
    - apply along_adjoint, band_adjoint; assumption.
    - apply along_adjoint, band_adjoint; assumption.
  Qed.

  Lemma dwt2_adjoint L n1 n2 (flo fhi glo ghi : vec) :
    filters_match L flo glo -> filters_match L fhi ghi -> adjoint_pair (dwt2 L n1 n2 flo fhi glo ghi).
  Proof.
    intros Hlo Hhi. unfold dwt2.
    repeat (apply vstack_adjoint; [reflexivity|apply band2_adjoint; assumption|]). apply band2_adjoint; assumption.
  Qed.

  Lemma wavedec2_dom level L n1 n2 (flo fhi glo ghi : vec) : dom (wavedec2_op level L n1 n2 flo fhi glo ghi) = (n1 * (n2 * 1))%nat.
  Proof. destruct level; reflexivity. Qed.

  Theorem wavedec2_adjoint level : forall L n1 n2 (flo fhi glo ghi : vec),
    filters_match L flo glo -> filters_match L fhi ghi -> adjoint_pair (wavedec2_op level L n1 n2 flo fhi glo ghi).
  Proof.
    induction level as [|l IH]; intros L n1 n2 flo fhi glo ghi Hlo Hhi; cbn [wavedec2_op].
    - apply idop_adjoint.
    - cbv zeta. apply comp_adjoint.
      + cbn [bdiag dom idop]. rewrite wavedec2_dom. unfold dwt2, band2_op. cbn [vstack comp along ran dom band_op]. ring.
      + apply bdiag_adjoint; [apply IH; assumption|apply idop_adjoint].
      + apply dwt2_adjoint; assumption.
  Qed.
  (* ---------- three dimensions ---------- *)
  Lemma band3_adjoint L n1 n2 n3 (fa ga fb gb fc gc : vec) :
    filters_match L fa ga -> filters_match L fb gb -> filters_match L fc gc -> adjoint_pair (band3_op L n1 n2 n3 fa ga fb gb fc gc).
  Proof.
    intros Ha Hb Hc. unfold band3_op. cbv zeta. apply comp_adjoint.
    - cbn [along comp dom ran band_op]. ring.
    - apply along_adjoint, band_adjoint; assumption.
    - apply comp_adjoint.
      + cbn [along dom ran band_op]. ring.
      + apply along_adjoint, band_adjoint; assumption.
      + apply along_adjoint, band_adjoint; assumption.
  Qed.

  Lemma dwt3_adjoint L n1 n2 n3 (flo fhi glo ghi : vec) :
    filters_match L flo glo -> filters_match L fhi ghi -> adjoint_pair (dwt3 L n1 n2 n3 flo fhi glo ghi).
  Proof.
    intros Hlo Hhi. unfold dwt3. cbv zeta.
    repeat (apply vstack_adjoint; [reflexivity|apply band3_adjoint; assumption|]). apply band3_adjoint; assumption.
  Qed.

  Lemma wavedec3_dom level L n1 n2 n3 (flo fhi glo ghi : vec) :
    dom (wavedec3_op level L n1 n2 n3 flo fhi glo ghi) = ((n1 * n2) * (n3 * 1))%nat.
  Proof. destruct level; reflexivity. Qed.

  Theorem wavedec3_adjoint level : forall L n1 n2 n3 (flo fhi glo ghi : vec),
    filters_match L flo glo -> filters_match L fhi ghi -> adjoint_pair (wavedec3_op level L n1 n2 n3 flo fhi glo ghi).
  Proof.
    induction level as [|l IH]; intros L n1 n2 n3 flo fhi glo ghi Hlo Hhi; cbn [wavedec3_op].
    - apply idop_adjoint.
    - cbv zeta. apply comp_adjoint.
      + cbn [bdiag dom idop]. rewrite wavedec3_dom. unfold dwt3, band3_op. cbn [vstack comp along ran dom band_op]. ring.
      + apply bdiag_adjoint; [apply IH; assumption|apply idop_adjoint].
      + apply dwt3_adjoint; assumption.
  Qed.
End WaveletProofs.

(* the boolean test the harness evaluates on pywt's filter banks implies the hypothesis of the theorems *)
Lemma filters_match_b_sound dec rc : filters_match_b dec rc = true ->
  filters_match (R:=ZRing) (length dec) (zvec (rev dec)) (zvec rc).
Proof.
  unfold filters_match_b. intros H. apply andb_prop in H. destruct H as [_ H].
  rewrite forallb_forall in H. intros k Hk. specialize (H k). rewrite in_seq in H.
  specialize (H ltac:(lia)). apply Z.eqb_eq in H. unfold zvec. cbn. exact H.
Qed.
