(* Proofs, part 5: int / slice index expressions resolved in the model; getitem / setitem consistency. *)
From MrVerif Require Import Base.Prelude Base.StarRing Model.Rotation Proofs.RotationBatchProofs.

Lemma clamp_index_range n d o : 0 <= n -> 0 <= d <= n -> 0 <= clamp_index n d o <= n.
Proof. intros Hn Hd. unfold clamp_index. destruct o; lia. Qed.

Lemma slice_count_spec start stop step k : 0 < step -> 0 <= k < slice_count start stop step -> start + k * step < stop.
Proof.
  intros Hs [Hk0 Hk]. unfold slice_count in Hk. destruct (stop <=? start) eqn:E; [lia|]. apply Z.leb_gt in E.
  pose proof (Z.mul_div_le (stop - start + step - 1) step Hs) as H. 
  assert (k + 1 <= (stop - start + step - 1) / step) by lia.
  assert ((k + 1) * step <= step * ((stop - start + step - 1) / step)) by nia. lia.
Qed.
Lemma slice_count_complete start stop step : 0 < step -> start < stop -> stop <= start + slice_count start stop step * step.
Proof.
  intros Hs Hlt. unfold slice_count. replace (stop <=? start) with false by lia.
  pose proof (Z.mod_pos_bound (stop - start + step - 1) step Hs) as Hm.
  pose proof (Z.div_mod (stop - start + step - 1) step ltac:(lia)) as Hd. nia.
Qed.

Lemma NoDup_map_inj_in (A B : Type) (f : A -> B) (l : list A) :
  (forall x y, In x l -> In y l -> f x = f y -> x = y) -> NoDup l -> NoDup (map f l).
Proof.
  intros Hinj Hnd. induction Hnd as [|a l Hnin Hnd IH]; cbn; constructor.
  - intros Hin. apply in_map_iff in Hin. destruct Hin as [y [Hy Hyl]]. apply Hnin.
    rewrite <- (Hinj y a (or_intror Hyl) (or_introl eq_refl) Hy). assumption.
  - apply IH. intros x y Hx Hy. apply Hinj; now right.
Qed.

(* every selected position lies inside the batch, and no position is selected twice *)
Theorem resolve_in_range n ix pos : resolve_index n ix = Some pos -> Forall (fun p => (p < n)%nat) pos.
Proof.
  unfold resolve_index. destruct ix as [i | a b st].
  - destruct ((- Z.of_nat n <=? i) && (i <? Z.of_nat n)) eqn:E; [|discriminate]. intros [= <-]. constructor; [|constructor].
    destruct (i <? 0) eqn:E2; lia.
  - set (step := match st with None => 1 | Some s => s end). destruct (step <=? 0) eqn:Es; [discriminate|]. apply Z.leb_gt in Es.
    intros [= <-]. apply Forall_forall. intros p Hp. apply in_map_iff in Hp. destruct Hp as [k [<- Hk]]. apply in_seq in Hk.
    pose proof (clamp_index_range (Z.of_nat n) 0 a ltac:(lia) ltac:(lia)) as Ha.
    pose proof (clamp_index_range (Z.of_nat n) (Z.of_nat n) b ltac:(lia) ltac:(lia)) as Hb.
    pose proof (slice_count_spec (clamp_index (Z.of_nat n) 0 a) (clamp_index (Z.of_nat n) (Z.of_nat n) b) step (Z.of_nat k) Es ltac:(lia)). nia.
Qed.
Theorem resolve_nodup n ix pos : resolve_index n ix = Some pos -> NoDup pos.
Proof.
  unfold resolve_index. destruct ix as [i | a b st].
  - destruct ((- Z.of_nat n <=? i) && (i <? Z.of_nat n)); [|discriminate]. intros [= <-]. constructor; [intros []|constructor].
  - set (step := match st with None => 1 | Some s => s end). destruct (step <=? 0) eqn:Es; [discriminate|]. apply Z.leb_gt in Es.
    intros [= <-]. pose proof (clamp_index_range (Z.of_nat n) 0 a ltac:(lia) ltac:(lia)) as Ha.
    apply NoDup_map_inj_in; [|apply seq_NoDup].
    intros x y Hx Hy Heq. apply in_seq in Hx. apply in_seq in Hy. nia.
Qed.
(* integers: i and i - n denote the same element; out of range is rejected *)
Theorem resolve_int n i : (0 <= i < Z.of_nat n) ->
  resolve_index n (IInt i) = Some [Z.to_nat i] /\ resolve_index n (IInt (i - Z.of_nat n)) = Some [Z.to_nat i].
Proof.
  intros H. unfold resolve_index. split.
  - replace ((- Z.of_nat n <=? i) && (i <? Z.of_nat n)) with true by lia. replace (i <? 0) with false by lia. reflexivity.
  - replace ((- Z.of_nat n <=? i - Z.of_nat n) && (i - Z.of_nat n <? Z.of_nat n)) with true by lia.
    replace (i - Z.of_nat n <? 0) with true by lia. do 2 f_equal. lia.
Qed.
Theorem resolve_int_reject n i : (i < - Z.of_nat n \/ Z.of_nat n <= i) -> resolve_index n (IInt i) = None.
Proof. intros H. unfold resolve_index. replace ((- Z.of_nat n <=? i) && (i <? Z.of_nat n)) with false by lia. reflexivity. Qed.
(* the k-th selected position of a slice is start + k * step, and the slice stops exactly where the next one would reach stop *)
Theorem resolve_slice n a b st : let step := match st with None => 1 | Some s => s end in 0 < step ->
  let start := clamp_index (Z.of_nat n) 0 a in let stop := clamp_index (Z.of_nat n) (Z.of_nat n) b in
  exists pos, resolve_index n (ISlice a b st) = Some pos
    /\ (forall k, (k < length pos)%nat -> nth k pos 0%nat = Z.to_nat (start + Z.of_nat k * step))
    /\ (start < stop -> stop <= start + Z.of_nat (length pos) * step) /\ (stop <= start -> pos = []).
Proof.
  intros step Hs start stop. unfold resolve_index. fold step. replace (step <=? 0) with false by lia. fold start stop.
  eexists. split; [reflexivity|]. rewrite map_length, seq_length. repeat split.
  - intros k Hk. rewrite (nth_indep _ 0%nat (Z.to_nat (start + Z.of_nat 0 * step))) by (now rewrite map_length, seq_length).
    rewrite (map_nth (fun k => Z.to_nat (start + Z.of_nat k * step))), seq_nth by assumption. reflexivity.
  - intros Hlt. pose proof (slice_count_complete start stop step Hs Hlt).
    assert (0 <= slice_count start stop step) by (unfold slice_count; destruct (stop <=? start); [lia | apply Z.div_pos; lia]). lia.
  - intros Hle. unfold slice_count. replace (stop <=? start) with true by lia. reflexivity.
Qed.
Theorem resolve_full_slice n : resolve_index n (ISlice None None None) = Some (seq 0 n).
Proof.
  unfold resolve_index, clamp_index, slice_count. change (1 <=? 0) with false. cbv iota.
  destruct (Z.of_nat n <=? 0) eqn:E.
  - assert (n = 0%nat) by lia. subst. reflexivity.
  - f_equal. replace ((Z.of_nat n - 0 + 1 - 1) / 1) with (Z.of_nat n) by (rewrite Z.div_1_r; lia). rewrite Nat2Z.id.
    rewrite <- (map_id (seq 0 n)) at 2. apply map_ext. intros k. lia.
Qed.

(* getitem / setitem consistency on lists *)
Section GetSet.
  Variable E : Type.
  Lemma set_len i (x : E) l : length (set_nth i x l) = length l.
  Proof. revert i; induction l as [|h t IH]; intros [|i]; cbn; try reflexivity. now rewrite IH. Qed.
  Lemma nth_set_same i (x d : E) l : (i < length l)%nat -> nth i (set_nth i x l) d = x.
  Proof. revert i; induction l as [|h t IH]; intros [|i] H; cbn in *; try lia; [reflexivity | apply IH; lia]. Qed.
  Lemma nth_set_other i j (x d : E) l : i <> j -> nth j (set_nth i x l) d = nth j l d.
  Proof. revert i j; induction l as [|h t IH]; intros [|i] [|j] H; cbn; try reflexivity; try lia. apply IH. lia. Qed.
  Lemma gather_scatter (d : E) pos vals (l : list E) : NoDup pos -> Forall (fun p => (p < length l)%nat) pos -> length vals = length pos ->
    gather d pos (scatter pos vals l) = vals.
  Proof.
    revert vals l. induction pos as [|p pt IH]; intros [|v vt] l Hnd Hr Hl; cbn in *; try reflexivity; try discriminate.
    inversion Hnd as [|? ? Hnin Hnd']; subst. inversion Hr as [|? ? Hp Hr']; subst. f_equal.
    - clear IH. assert (G : forall (pt : list nat) (vt : list E) (l : list E), ~ In p pt -> nth p (scatter pt vt l) d = nth p l d).
      { clear. induction pt as [|a pt IH]; intros [|v vt] l Hn; cbn; try reflexivity.
        rewrite IH by (cbn in Hn; tauto). apply nth_set_other. cbn in Hn. intros ->. tauto. }
      rewrite G by assumption. now apply nth_set_same.
    - apply IH; [assumption | | congruence]. rewrite set_len. assumption.
  Qed.
  Lemma scatter_other (d : E) pos vals (l : list E) j : ~ In j pos -> nth j (scatter pos vals l) d = nth j l d.
  Proof.
    revert vals l. induction pos as [|a pt IH]; intros [|v vt] l Hn; cbn; try reflexivity.
    rewrite IH by (cbn in Hn; tauto). apply nth_set_other. cbn in Hn. intros ->. tauto.
  Qed.
  Lemma scatter_length pos vals (l : list E) : length (scatter pos vals l) = length l.
  Proof. revert vals l. induction pos as [|a pt IH]; intros [|v vt] l; cbn; try reflexivity. now rewrite IH, set_len. Qed.

  (* r[ix] = v; r[ix] reads v back, every other element is untouched, the batch keeps its size *)
  Theorem setitem_getitem (d : E) ix vals (l l' : list E) pos : resolve_index (length l) ix = Some pos -> length vals = length pos ->
    setitem_ix ix vals l = Some l' ->
    getitem_ix d ix l' = Some vals /\ length l' = length l /\ (forall j, ~ In j pos -> nth j l' d = nth j l d).
  Proof.
    intros Hr Hl. unfold setitem_ix, getitem_ix. rewrite Hr. cbn [option_map]. intros [= <-]. rewrite scatter_length, Hr. cbn [option_map].
    repeat split.
    - f_equal. apply gather_scatter; [eapply resolve_nodup; eassumption | eapply resolve_in_range; eassumption | assumption].
    - intros j Hj. now apply scatter_other.
  Qed.
  (* r[ix] has one element per selected position, element k being the element at the k-th selected position *)
  Theorem getitem_elements (d : E) ix (l g : list E) pos : resolve_index (length l) ix = Some pos -> getitem_ix d ix l = Some g ->
    length g = length pos /\ forall k, (k < length pos)%nat -> nth k g d = nth (nth k pos 0%nat) l d.
  Proof.
    intros Hr. unfold getitem_ix. rewrite Hr. cbn [option_map]. intros [= <-]. unfold gather. rewrite map_length. split; [reflexivity|].
    intros k Hk. rewrite (nth_indep _ d (nth (nth 0 pos 0%nat) l d)) by (now rewrite map_length).
    rewrite (nth_indep pos 0%nat (nth 0 pos 0%nat) Hk). apply (map_nth (fun i => nth i l d)).
  Qed.
End GetSet.
(* observing (e.g. taking matrices) commutes with indexing *)
Theorem getitem_natural (E M : Type) (obs : E -> M) (d : E) ix (l : list E) :
  option_map (map obs) (getitem_ix d ix l) = getitem_ix (obs d) ix (map obs l).
Proof. unfold getitem_ix. rewrite map_length. destruct (resolve_index (length l) ix); cbn; [now rewrite map_gather | reflexivity]. Qed.
Theorem setitem_natural (E M : Type) (obs : E -> M) ix vals (l : list E) :
  option_map (map obs) (setitem_ix ix vals l) = setitem_ix ix (map obs vals) (map obs l).
Proof. unfold setitem_ix. rewrite map_length. destruct (resolve_index (length l) ix); cbn; [now rewrite map_scatter | reflexivity]. Qed.
