(* Facts about the modelled IQR outlier rule of dcf_2d3d_voronoi (Model/Voronoi2D.v: outlier_params, replace_outliers):
   exactly the cells above the fence q3 + 1.5 IQR are replaced, all by one fill value; the fill value is an average of
   input areas (so it lies between the smallest and the largest area and is positive when all areas are), provided at
   least one area is not above the fence. *)
From Coq Require Import QArith Qabs Qround List Lia Lra Lqa Psatz Permutation ZArith.
From MrVerif Require Import Model.Voronoi1D Model.Voronoi2D Proofs.Voronoi1DProofs.
Import ListNotations.
Open Scope Q_scope.

Definition fence (dcf : list Q) : Q := fst (outlier_params dcf).
Definition fillv (dcf : list Q) : Q := snd (outlier_params dcf).

(* the slice of the sorted areas that is averaged *)
Definition top_of (dcf : list Q) : list Q :=
  let s := qsort dcf in
  let nout := length (filter (fun v => Qlt_bool (fence dcf) v) dcf) in
  let m := (length s - nout)%nat in
  let hs := Z.to_nat ((99 * Z.of_nat m) / 100) in
  firstn (m - hs) (skipn hs s).

Lemma fillv_top dcf : fillv dcf = Qred (qsum (top_of dcf) / qnat (length (top_of dcf))).
Proof. reflexivity. Qed.

Theorem replace_outliers_spec dcf :
  replace_outliers dcf = map (fun v => if Qlt_bool (fence dcf) v then fillv dcf else v) dcf.
Proof. unfold replace_outliers, fence, fillv. destruct (outlier_params dcf) as [ub fill]. reflexivity. Qed.

(* replaced = exactly those above the fence; everything else is returned unchanged *)
Lemma replace_exact_gen ub f l :
  Forall2 (fun v w => (ub < v -> w = f) /\ (v <= ub -> w = v)) l (map (fun v => if Qlt_bool ub v then f else v) l).
Proof.
  induction l as [|v r IH]; cbn [map]; constructor; [|exact IH].
  destruct (Qlt_bool ub v) eqn:E.
  - apply Qlt_bool_iff in E. split; [reflexivity | intros H; exfalso; lra].
  - apply Qlt_bool_false in E. split; [intros H; exfalso; lra | reflexivity].
Qed.

Theorem replace_outliers_exact dcf :
  Forall2 (fun v w => (fence dcf < v -> w = fillv dcf) /\ (v <= fence dcf -> w = v)) dcf (replace_outliers dcf).
Proof. rewrite replace_outliers_spec. apply replace_exact_gen. Qed.

(* ---- sorting is a permutation ---- *)
Lemma qinsert_perm x l : Permutation (qinsert x l) (x :: l).
Proof.
  induction l as [|y r IH]; simpl; [reflexivity|].
  destruct (Qle_bool x y); [reflexivity|]. rewrite IH. apply perm_swap.
Qed.

Lemma qsort_perm l : Permutation (qsort l) l.
Proof. induction l as [|x r IH]; simpl; [reflexivity|]. unfold qsort in *. simpl. rewrite qinsert_perm, IH. reflexivity. Qed.

Lemma In_firstn {A} (x : A) k l : In x (firstn k l) -> In x l.
Proof. revert l. induction k as [|k IH]; intros [|a l] H; simpl in *; try contradiction. destruct H; [left; assumption | right; apply IH; assumption]. Qed.

Lemma In_skipn {A} (x : A) k l : In x (skipn k l) -> In x l.
Proof. revert l. induction k as [|k IH]; intros [|a l] H; simpl in *; try contradiction; auto. Qed.

Lemma top_of_In dcf x : In x (top_of dcf) -> In x dcf.
Proof.
  unfold top_of. intros H. apply In_firstn, In_skipn in H. apply (Permutation_in _ (qsort_perm dcf) H).
Qed.

(* ---- the slice is not empty when something is accepted ---- *)
Lemma filter_len_le {A} (f : A -> bool) l : (length (filter f l) <= length l)%nat.
Proof. induction l as [|a r IH]; simpl; [lia|]. destruct (f a); simpl; lia. Qed.

Lemma filter_length_lt {A} (f : A -> bool) l x : In x l -> f x = false -> (length (filter f l) < length l)%nat.
Proof.
  induction l as [|a r IH]; intros Hin Hf; [destruct Hin|].
  simpl. destruct Hin as [->|Hin].
  - rewrite Hf. pose proof (filter_len_le f r). lia.
  - specialize (IH Hin Hf). destruct (f a); simpl; lia.
Qed.

Lemma top_of_nonempty dcf : (exists v, In v dcf /\ v <= fence dcf) -> (0 < length (top_of dcf))%nat.
Proof.
  intros [v [Hin Hv]]. unfold top_of. cbv zeta.
  set (nout := length (filter (fun v => Qlt_bool (fence dcf) v) dcf)).
  assert (nout < length dcf)%nat as Hn.
  { apply (filter_length_lt _ dcf v Hin). apply Qlt_bool_false. exact Hv. }
  rewrite (Permutation_length (qsort_perm dcf)).
  set (m := (length dcf - nout)%nat). assert (1 <= m)%nat as Hm by (unfold m; lia).
  assert (99 * Z.of_nat m / 100 < Z.of_nat m)%Z as Hd by (apply Z.div_lt_upper_bound; lia).
  assert (0 <= 99 * Z.of_nat m / 100)%Z as Hd0 by (apply Z.div_pos; lia).
  rewrite firstn_length, skipn_length, (Permutation_length (qsort_perm dcf)).
  unfold m in *. lia.
Qed.

(* ---- averages ---- *)
Lemma qnat_S n : qnat (S n) == qnat n + 1.
Proof. unfold qnat. rewrite Nat2Z.inj_succ. unfold Z.succ. rewrite inject_Z_plus. reflexivity. Qed.

Lemma qsum_lower lo l : Forall (Qle lo) l -> qnat (length l) * lo <= qsum l.
Proof.
  induction 1 as [|x r Hx HF IH].
  - change (qnat (length (@nil Q))) with 0. change (qsum []) with 0. lra.
  - change (qsum (x :: r)) with (x + qsum r). change (length (x :: r)) with (S (length r)). rewrite qnat_S. lra.
Qed.

Lemma qsum_upper hi l : Forall (fun v => v <= hi) l -> qsum l <= qnat (length l) * hi.
Proof.
  induction 1 as [|x r Hx HF IH].
  - change (qnat (length (@nil Q))) with 0. change (qsum []) with 0. lra.
  - change (qsum (x :: r)) with (x + qsum r). change (length (x :: r)) with (S (length r)). rewrite qnat_S. lra.
Qed.

Lemma qsum_pos l : Forall (Qlt 0) l -> (0 < length l)%nat -> 0 < qsum l.
Proof.
  induction 1 as [|x r Hx HF IH]; simpl; intros Hl; [lia|].
  change (fold_right Qplus 0 r) with (qsum r). destruct r as [|y r']; [simpl; lra|].
  assert (0 < qsum (y :: r')) by (apply IH; simpl; lia). lra.
Qed.

(* the fill value is an average of input areas: between the smallest and the largest one *)
Theorem fill_bounds dcf lo hi :
  Forall (fun v => lo <= v /\ v <= hi) dcf -> (exists v, In v dcf /\ v <= fence dcf) -> lo <= fillv dcf /\ fillv dcf <= hi.
Proof.
  intros HF Hacc. rewrite fillv_top, Qred_correct.
  pose proof (top_of_nonempty dcf Hacc) as Hne.
  pose proof (qnat_pos _ Hne) as Hq.
  rewrite Forall_forall in HF.
  assert (Forall (Qle lo) (top_of dcf)) as H1 by (apply Forall_forall; intros x Hx; apply (HF x (top_of_In dcf x Hx))).
  assert (Forall (fun v => v <= hi) (top_of dcf)) as H2 by (apply Forall_forall; intros x Hx; apply (HF x (top_of_In dcf x Hx))).
  split.
  - apply Qle_shift_div_l; [exact Hq|]. rewrite Qmult_comm. apply qsum_lower. exact H1.
  - apply Qle_shift_div_r; [exact Hq|]. rewrite Qmult_comm. apply qsum_upper. exact H2.
Qed.

(* positivity survives the outlier rule *)
Theorem replace_outliers_positive dcf :
  Forall (Qlt 0) dcf -> (exists v, In v dcf /\ v <= fence dcf) -> Forall (Qlt 0) (replace_outliers dcf).
Proof.
  intros HF Hacc.
  assert (0 < fillv dcf) as Hfill.
  { rewrite fillv_top, Qred_correct. pose proof (top_of_nonempty dcf Hacc) as Hne.
    apply Qlt_shift_div_l; [apply qnat_pos; exact Hne|]. rewrite Qmult_0_l. apply qsum_pos; [|exact Hne].
    apply Forall_forall. intros x Hx. rewrite Forall_forall in HF. apply HF, top_of_In, Hx. }
  rewrite replace_outliers_spec. apply Forall_forall. intros w Hw. apply in_map_iff in Hw.
  destruct Hw as [v [<- Hv]]. destruct (Qlt_bool (fence dcf) v); [exact Hfill|].
  rewrite Forall_forall in HF. apply HF, Hv.
Qed.

(* ---------- the averaged slice consists of accepted areas only ---------- *)
From Coq Require Import Sorted.

Lemma qinsert_Forall_le a x l : a <= x -> Forall (Qle a) l -> Forall (Qle a) (qinsert x l).
Proof.
  intros Hax. induction l as [|y r IH]; simpl; intros H.
  - constructor; auto.
  - inversion H; subst. destruct (Qle_bool x y); constructor; auto.
Qed.

Lemma qinsert_sorted x l : StronglySorted Qle l -> StronglySorted Qle (qinsert x l).
Proof.
  induction l as [|y r IH]; simpl; intros H.
  - constructor; constructor.
  - inversion H; subst. destruct (Qle_bool x y) eqn:E.
    + apply Qle_bool_iff in E. constructor; [exact H|]. constructor; [exact E|].
      eapply Forall_impl; [|exact H3]. intros z Hz. apply Qle_trans with y; assumption.
    + assert (y <= x) as Hyx.
      { destruct (Qlt_le_dec x y) as [L|L]; [|exact L]. exfalso. apply Qlt_le_weak in L. apply Qle_bool_iff in L. congruence. }
      constructor; [apply IH; exact H2|]. apply qinsert_Forall_le; assumption.
Qed.

Lemma qsort_sorted l : StronglySorted Qle (qsort l).
Proof. induction l as [|x r IH]; [constructor|]. unfold qsort in *. simpl. apply qinsert_sorted. exact IH. Qed.

Lemma filter_len_perm {A} (f : A -> bool) l l' : Permutation l l' -> length (filter f l) = length (filter f l').
Proof.
  induction 1; simpl; try lia.
  - destruct (f x); simpl; lia.
  - destruct (f x), (f y); simpl; lia.
Qed.

Lemma filter_len_all {A} (f : A -> bool) l : (forall x, In x l -> f x = true) -> length (filter f l) = length l.
Proof.
  induction l as [|a r IH]; intros H; [reflexivity|]. simpl. rewrite (H a (or_introl eq_refl)). simpl.
  rewrite IH; [reflexivity|]. intros x Hx. apply H. right. exact Hx.
Qed.

Lemma sorted_skipn_ge s : StronglySorted Qle s -> forall i x, (i < length s)%nat -> In x (skipn i s) -> nth i s 0 <= x.
Proof.
  induction 1 as [|a r HS IH HF]; intros i x Hi Hx; [simpl in Hi; lia|].
  destruct i as [|i].
  - simpl in *. destruct Hx as [<-|Hx]; [apply Qle_refl|]. rewrite Forall_forall in HF. apply HF, Hx.
  - simpl in *. apply IH; [lia | exact Hx].
Qed.

(* in a sorted list with k elements above ub, the first (length - k) elements are not above ub *)
Lemma sorted_prefix_accepted s ub i : StronglySorted Qle s ->
  (i < length s - length (filter (fun v => Qlt_bool ub v) s))%nat -> nth i s 0 <= ub.
Proof.
  intros HS Hi. destruct (Qlt_le_dec ub (nth i s 0)) as [C|C]; [|exact C]. exfalso.
  set (f := fun v => Qlt_bool ub v) in *.
  assert (i < length s)%nat as Hil by lia.
  assert (length (filter f (skipn i s)) = length (skipn i s)) as K.
  { apply filter_len_all. intros x Hx. apply Qlt_bool_iff.
    apply Qlt_le_trans with (nth i s 0); [exact C | apply (sorted_skipn_ge s HS i x Hil Hx)]. }
  assert (length (filter f s) = length (filter f (firstn i s)) + length (filter f (skipn i s)))%nat as Sp.
  { rewrite <- (firstn_skipn i s) at 1. rewrite filter_app, app_length. reflexivity. }
  rewrite K, skipn_length in Sp. lia.
Qed.

Lemma nth_firstn' {A} (l : list A) d : forall k j, (j < k)%nat -> nth j (firstn k l) d = nth j l d.
Proof.
  induction l as [|a l IH]; intros k j H; [destruct k; destruct j; reflexivity|].
  destruct k as [|k]; [lia|]. destruct j as [|j]; [reflexivity|]. simpl. apply IH. lia.
Qed.

Lemma nth_skipn' {A} (l : list A) d : forall h j, nth j (skipn h l) d = nth (h + j) l d.
Proof.
  induction l as [|a l IH]; intros h j; [destruct h; destruct j; reflexivity|].
  destruct h as [|h]; [reflexivity|]. simpl. apply IH.
Qed.

Lemma nth_firstn_skipn (s : list Q) hs k x : In x (firstn k (skipn hs s)) -> exists i, (hs <= i < hs + k)%nat /\ (i < length s)%nat /\ nth i s 0 = x.
Proof.
  intros H. destruct (In_nth _ _ 0 H) as [j [Hj Hn]]. rewrite firstn_length, skipn_length in Hj.
  exists (hs + j)%nat. split; [lia|]. split; [lia|].
  rewrite <- Hn. rewrite nth_firstn' by lia. rewrite nth_skipn'. reflexivity.
Qed.

Theorem top_of_accepted dcf x : In x (top_of dcf) -> In x dcf /\ x <= fence dcf.
Proof.
  intros H. split; [apply top_of_In; exact H|].
  unfold top_of in H. cbv zeta in H.
  destruct (nth_firstn_skipn _ _ _ _ H) as [i [Hi [Hil <-]]].
  apply sorted_prefix_accepted; [apply qsort_sorted|].
  rewrite (filter_len_perm _ _ _ (qsort_perm dcf)).
  set (nout := length (filter (fun v => Qlt_bool (fence dcf) v) dcf)) in *.
  set (m := (length (qsort dcf) - nout)%nat) in *.
  assert (0 <= 99 * Z.of_nat m / 100)%Z by (apply Z.div_pos; lia).
  assert (99 * Z.of_nat m / 100 <= Z.of_nat m)%Z by (apply Z.div_le_upper_bound; lia).
  lia.
Qed.

(* the fill value is the mean of accepted areas only: it does not exceed the fence and is at least the smallest area *)
Theorem fill_le_fence dcf : (exists v, In v dcf /\ v <= fence dcf) -> fillv dcf <= fence dcf.
Proof.
  intros Hacc. rewrite fillv_top, Qred_correct.
  pose proof (top_of_nonempty dcf Hacc) as Hne.
  apply Qle_shift_div_r; [apply qnat_pos; exact Hne|]. rewrite Qmult_comm. apply qsum_upper.
  apply Forall_forall. intros x Hx. apply (top_of_accepted dcf x Hx).
Qed.

(* ---------- support for the regenerated obligations (Gen/voronoi_gen.v): the fence as a formula of the quartiles ---------- *)
Definition fence_formula (q1 q3 : Q) : Q := q3 + (3 # 2) * (q3 - q1).

Lemma fence_is_formula dcf : fence dcf = fence_formula (percentile (qsort dcf) 1 4) (percentile (qsort dcf) 3 4).
Proof. reflexivity. Qed.
