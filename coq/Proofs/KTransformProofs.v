(* Lemmas about Model/KTransform.v: every re-organisation is an index map that takes data, trajectory and header of an output
   position from ONE in-range source position. *)
From MrVerif Require Import Base.Prelude Base.Tensor Model.KTransform.

Definition inr5 (k : fds) (o c a b j : Z) : Prop :=
  0 <= o < nO k /\ 0 <= c < nC k /\ 0 <= a < n2 k /\ 0 <= b < n1 k /\ 0 <= j < n0 k.

(* every sample of k' is a sample of k, with the trajectory point and the header row (scan_counter) it had in k *)
Definition refines (k' k : fds) : Prop :=
  forall o c a b j, inr5 k' o c a b j ->
    exists o' a' b' j', inr5 k o' c a' b' j' /\ fd k' o c a b j = fd k o' c a' b' j' /\
                        (forall m, ft k' m o a b j = ft k m o' a' b' j') /\ fi k' 0 o a b = fi k 0 o' a' b'.

Lemma refines_refl k : refines k k.
Proof. intros o c a b j H. exists o, a, b, j. auto. Qed.

Lemma refines_trans k3 k2 k1 : refines k3 k2 -> refines k2 k1 -> refines k3 k1.
Proof.
  intros H32 H21 o c a b j H. destruct (H32 _ _ _ _ _ H) as (o2 & a2 & b2 & j2 & R2 & D2 & T2 & I2).
  destruct (H21 _ _ _ _ _ R2) as (o1 & a1 & b1 & j1 & R1 & D1 & T1 & I1).
  exists o1, a1, b1, j1. split; [exact R1|]. split; [congruence|]. split; [|congruence].
  intros m. rewrite T2. apply T1.
Qed.

(* the scan_counter array has the shape of the data *)
Definition inv (k : fds) : Prop := ish k 0 = (nO k, n2 k, n1 k).

(* ---- index tables ---- *)
Lemma fold_max_ge l x : In x l -> x <= fold_right Z.max 0 l.
Proof. induction l as [|y l IH]; cbn; [tauto|]. intros [->|H]; [lia|]. specialize (IH H). lia. Qed.
Lemma fold_min_le l x : In x l -> fold_right Z.min 0 l <= x.
Proof. induction l as [|y l IH]; cbn; [tauto|]. intros [->|H]; [lia|]. specialize (IH H). lia. Qed.
Lemma fold_max_nonneg l : 0 <= fold_right Z.max 0 l.
Proof. induction l; cbn; lia. Qed.
Lemma fold_min_nonpos l : fold_right Z.min 0 l <= 0.
Proof. induction l; cbn; lia. Qed.

Lemma zfun2_bounds tbl s b : ztable_min tbl <= zfun2 tbl s b <= ztable_max tbl.
Proof.
  unfold zfun2, ztable_min, ztable_max.
  destruct (nth_in_or_default (Z.to_nat s) tbl []) as [Hr|Hr].
  - destruct (nth_in_or_default (Z.to_nat b) (nth (Z.to_nat s) tbl []) 0) as [Hv|Hv].
    + assert (In (nth (Z.to_nat b) (nth (Z.to_nat s) tbl []) 0) (concat tbl)) by (apply in_concat; eauto).
      split; [now apply fold_min_le|now apply fold_max_ge].
    + rewrite Hv. split; [apply fold_min_nonpos|apply fold_max_nonneg].
  - rewrite Hr. destruct (Z.to_nat b); cbn; split; try apply fold_min_nonpos; apply fold_max_nonneg.
Qed.

Lemma div_range o n ns : 0 <= ns -> 0 <= o < n * ns -> 0 <= o / ns < n /\ 0 <= o mod ns < ns.
Proof.
  intros Hns H. assert (0 < ns) by (destruct (Z.eq_dec ns 0) as [->|]; lia).
  split; [split; [apply Z.div_pos; lia|apply Z.div_lt_upper_bound; lia]|apply Z.mod_pos_bound; lia].
Qed.

(* ---- one operation ---- *)
Lemma split_k1_refines sidx label k k' : 1 <= label -> inv k -> split_k1 sidx label k = inr k' -> refines k' k /\ inv k'.
Proof.
  intros Hl Hi. destruct label as [|lp|lp]; try lia. unfold split_k1.
  destruct (1 <? _); [discriminate|]. destruct (_ || _) eqn:E1; [discriminate|]. destruct (t1 k <=? _); [discriminate|].
  intros E. injection E as <-. apply orb_false_iff in E1. destruct E1 as [E1 E2].
  split.
  - intros o c a b j (Ho & Hc & Ha & Hb & Hj). cbn in *.
    destruct (div_range _ _ _ (Zle_0_nat _) Ho) as [Hd Hm].
    pose proof (zfun2_bounds sidx (o mod Z.of_nat (length sidx)) b) as Hz.
    exists (o / Z.of_nat (length sidx)), a, (zfun2 sidx (o mod Z.of_nat (length sidx)) b), j.
    split; [unfold inr5; repeat split; lia|]. split; [reflexivity|]. split; reflexivity.
  - unfold inv in *. cbn. rewrite Hi. reflexivity.
Qed.

Lemma split_k2_refines sidx label k k' : 1 <= label -> inv k -> split_k2 sidx label k = inr k' -> refines k' k /\ inv k'.
Proof.
  intros Hl Hi. destruct label as [|lp|lp]; try lia. unfold split_k2.
  destruct (1 <? _); [discriminate|]. destruct (_ || _) eqn:E1; [discriminate|]. destruct (t2 k <=? _); [discriminate|].
  intros E. injection E as <-. apply orb_false_iff in E1. destruct E1 as [E1 E2].
  split.
  - intros o c a b j (Ho & Hc & Ha & Hb & Hj). cbn in *.
    destruct (div_range _ _ _ (Zle_0_nat _) Ho) as [Hd Hm].
    pose proof (zfun2_bounds sidx (o mod Z.of_nat (length sidx)) a) as Hz.
    exists (o / Z.of_nat (length sidx)), (zfun2 sidx (o mod Z.of_nat (length sidx)) a), b, j.
    split; [unfold inr5; repeat split; lia|]. split; [reflexivity|]. split; reflexivity.
  - unfold inv in *. cbn. rewrite Hi. reflexivity.
Qed.

Lemma other_index_range k label subset v : fst (fst (ish k label)) = nO k -> In v (other_index k label subset) -> 0 <= v < nO k.
Proof.
  unfold other_index. destruct (ish k label) as [[xo x2] x1]. cbn. intros <- H.
  apply in_flat_map in H. destruct H as [el [_ H]]. apply filter_In in H. destruct H as [H _]. now apply zrange_In in H.
Qed.

Lemma select_refines subset label k k' : fst (fst (ish k label)) = nO k -> inv k ->
  select_other_subset subset label k = inr k' -> refines k' k /\ inv k'.
Proof.
  intros Hs Hi. unfold select_other_subset. destruct (negb _); [discriminate|]. intros E. injection E as <-. split.
  - intros o c a b j (Ho & Hc & Ha & Hb & Hj). cbn in *.
    set (oi := other_index k label subset) in *.
    assert (Hin : In (nth (Z.to_nat o) oi 0) oi) by (apply nth_In; lia).
    pose proof (other_index_range k label subset _ Hs Hin).
    exists (nth (Z.to_nat o) oi 0), a, b, j. split; [unfold inr5; repeat split; lia|]. auto.
  - unfold inv in *. cbn. rewrite Hi. reflexivity.
Qed.

Lemma rearrange_refines k k' : 0 < n1 k -> inv k -> rearrange_k2_k1_into_k1 k = inr k' -> refines k' k /\ inv k'.
Proof.
  intros Hp Hi. unfold rearrange_k2_k1_into_k1. intros E. injection E as <-. split.
  - intros o c a b j (Ho & Hc & Ha & Hb & Hj). cbn in *.
    destruct (div_range b (n2 k) (n1 k) (Z.lt_le_incl _ _ Hp) Hb) as [Hd Hm].
    exists o, (b / n1 k), (b mod n1 k), j. split; [unfold inr5; repeat split; lia|]. split; [reflexivity|]. split; [reflexivity|].
    unfold inv in Hi. rewrite Hi. reflexivity.
  - unfold inv in *. cbn. rewrite Hi. reflexivity.
Qed.

Lemma remove_os_refines k k' : inv k -> remove_readout_os k = inr k' -> refines k' k /\ inv k'.
Proof.
  intros Hi. unfold remove_readout_os. destruct (Z.eqb_spec (reconx k) (encx k)).
  - intros E. injection E as <-. split; [apply refines_refl|exact Hi].
  - destruct (Z.ltb_spec (encx k) (reconx k)); [discriminate|]. intros E. injection E as <-. split.
    + intros o c a b j (Ho & Hc & Ha & Hb & Hj). cbn in *.
      exists o, a, b, ((encx k / 2 - reconx k / 2) + j). split; [unfold inr5; repeat split; lia|]. auto.
    + exact Hi.
Qed.

Lemma compress_refines n k k' : n <= nC k -> inv k -> compress_coils n k = inr k' -> refines k' k /\ inv k'.
Proof.
  intros Hn Hi E. injection E as <-. split; [|exact Hi].
  intros o c a b j (Ho & Hc & Ha & Hb & Hj). cbn in *. exists o, a, b, j. split; [unfold inr5; repeat split; lia|]. auto.
Qed.

(* ---- sequences ---- *)
Definition op_ok (op : kop) (k : fds) : Prop :=
  match op with
  | OpSplitK1 _ l | OpSplitK2 _ l => 1 <= l
  | OpSelect _ l => fst (fst (ish k l)) = nO k
  | OpRearrange => 0 < n1 k
  | OpCompress n => n <= nC k
  | _ => True
  end.

Lemma apply_op_refines op k k' : op_ok op k -> inv k -> apply_op op k = inr k' -> refines k' k /\ inv k'.
Proof.
  destruct op; cbn [op_ok apply_op]; intros Hok Hi E.
  - now apply (split_k1_refines sidx label).
  - now apply (split_k2_refines sidx label).
  - now apply (select_refines subset label).
  - now apply rearrange_refines.
  - now apply remove_os_refines.
  - now apply (compress_refines n).
  - injection E as <-. split; [apply refines_refl|exact Hi].
  - injection E as <-. split; [apply refines_refl|exact Hi].
Qed.

Fixpoint run_ok (ops : list kop) (k : fds) : Prop :=
  match ops with
  | [] => True
  | op :: r => op_ok op k /\ match apply_op op k with inr k' => run_ok r k' | inl _ => True end
  end.

Lemma run_refines ops : forall k, inv k -> run_ok ops k -> refines (fst (fst (run ops k))) k /\ inv (fst (fst (run ops k))).
Proof.
  induction ops as [|op r IH]; intros k Hi Hok; cbn [run].
  - split; [apply refines_refl|exact Hi].
  - destruct Hok as [H1 H2]. destruct (apply_op op k) as [e|k'] eqn:E.
    + cbn. split; [apply refines_refl|exact Hi].
    + destruct (apply_op_refines _ _ _ H1 Hi E) as [R1 I1]. destruct (IH k' I1 H2) as [R2 I2].
      destruct (run r k') as [[kf e] n]. cbn in *. split; [eapply refines_trans; eauto|exact I2].
Qed.

(* ---- shapes: the label tensor written by a split ---- *)
Lemma split_k1_label_shape sidx label k k' : split_k1 sidx label k = inr k' ->
  ish k' label = (nO k * Z.of_nat (length sidx), n2 k, Z.of_nat (length (hd [] sidx))) /\ nO k' = nO k * Z.of_nat (length sidx).
Proof.
  unfold split_k1. destruct (1 <? _); [discriminate|]. destruct (_ || _); [discriminate|]. destruct (t1 k <=? _); [discriminate|].
  intros E. injection E as <-. cbn. now rewrite Z.eqb_refl.
Qed.

(* the source dataset is a function argument: no operation can change it (values are immutable in the model); what is
   checked on the implementation is that the Python objects behave like values *)

(* ---- multiset facts ---- *)
(* select keeps exactly the chosen other-positions, in the order of subset_idx, with multiplicity *)
Lemma select_spec subset label k k' : select_other_subset subset label k = inr k' ->
  nO k' = Z.of_nat (length (other_index k label subset)) /\
  forall o c a b j, fd k' o c a b j = fd k (nth (Z.to_nat o) (other_index k label subset) 0) c a b j.
Proof.
  unfold select_other_subset. destruct (negb _); [discriminate|]. intros E. injection E as <-. cbn. split; reflexivity.
Qed.

(* a split is a regrouping: block s, entry b of the result is entry sidx[s][b] of the source *)
Lemma split_k1_spec sidx label k k' : split_k1 sidx label k = inr k' ->
  forall o s c a b j, 0 <= s < Z.of_nat (length sidx) ->
    fd k' (o * Z.of_nat (length sidx) + s) c a b j = fd k o c a (zfun2 sidx s b) j.
Proof.
  unfold split_k1. destruct (1 <? _); [discriminate|]. destruct (_ || _); [discriminate|]. destruct (t1 k <=? _); [discriminate|].
  intros E. injection E as <-. intros o s c a b j Hs. cbn.
  rewrite Z.div_add_l by lia. rewrite (Z.add_comm (o * _)), Z.mod_add by lia.
  rewrite Z.div_small, Z.mod_small by lia. now rewrite Z.add_0_r.
Qed.

(* crop: the centred window *)
Lemma remove_os_spec k k' : reconx k < encx k -> remove_readout_os k = inr k' ->
  forall o c a b j, fd k' o c a b j = fd k o c a b ((encx k / 2 - reconx k / 2) + j) /\
                    (forall m, ft k' m o a b j = ft k m o a b ((encx k / 2 - reconx k / 2) + j)) /\
                    fi k' 7 o a b = fi k 7 o a b - (encx k / 2 - reconx k / 2).
Proof.
  intros Hlt. unfold remove_readout_os. destruct (Z.eqb_spec (reconx k) (encx k)); [lia|].
  destruct (Z.ltb_spec (encx k) (reconx k)); [lia|]. intros E. injection E as <-. intros. cbn. auto.
Qed.

(* ---- split_idx ---- *)
Lemma split_idx_spec n per ov cyc nb f : 0 < n -> split_idx n per ov cyc = Some (nb, f) ->
  ov < per /\ (forall s b, f s b = (s * (per - ov) + b) mod n) /\
  nb = ((if cyc then n + Z.min (per - ov) n else n) - per) / (per - ov) + 1 /\
  per <= (if cyc then n + Z.min (per - ov) n else n).
Proof.
  intros Hn. unfold split_idx. destruct (Z.leb_spec per ov); [discriminate|].
  destruct (Z.ltb_spec (if cyc then n + Z.min (per - ov) n else n) per); [discriminate|].
  intros E. injection E as <- <-. repeat split; auto; lia.
Qed.

(* blocks are contiguous (mod n), start at multiples of the stride, and the last block still fits *)
Lemma split_idx_blocks n per ov cyc nb f : 0 < n -> split_idx n per ov cyc = Some (nb, f) ->
  forall s b, 0 <= s < nb -> 0 <= b < per ->
    s * (per - ov) + b < (if cyc then n + Z.min (per - ov) n else n) /\
    (b + 1 < per -> f s (b + 1) = (f s b + 1) mod n) /\ f (s + 1) 0 = (f s 0 + (per - ov)) mod n.
Proof.
  intros Hn E s b Hs Hb. destruct (split_idx_spec _ _ _ _ _ _ Hn E) as (Hov & Hf & Hnb & Hlen).
  set (len := if cyc then n + Z.min (per - ov) n else n) in *.
  assert (Hstep : 0 < per - ov) by lia.
  split; [|split].
  - assert (s <= (len - per) / (per - ov)) by lia.
    assert ((per - ov) * ((len - per) / (per - ov)) <= len - per) by (apply Z.mul_div_le; lia). nia.
  - intros _. rewrite !Hf. rewrite Zplus_mod_idemp_l. f_equal. lia.
  - rewrite !Hf. rewrite Zplus_mod_idemp_l. f_equal. lia.
Qed.

(* ---- remove_readout_os, k-space side, full statement ------------------------------------------------------------------- *)
Lemma remove_os_full k k' : reconx k < encx k -> 0 < reconx k -> n0 k = encx k -> remove_readout_os k = inr k' ->
  let start := encx k / 2 - reconx k / 2 in
  0 <= start /\ start + reconx k <= n0 k /\                               (* the window lies inside the readout *)
  n0 k' = reconx k /\ encx k' = reconx k /\ reconx k' = reconx k /\       (* exactly recon samples remain; header matrix updated *)
  nO k' = nO k /\ nC k' = nC k /\ n2 k' = n2 k /\ n1 k' = n1 k /\
  (forall o c a b j, fd k' o c a b j = fd k o c a b (start + j)) /\
  (forall m o a b j, ft k' m o a b j = ft k m o a b (start + j)) /\
  (forall r o a b, fi k' r o a b = if r =? 7 then fi k r o a b - start else fi k r o a b) /\
  remove_readout_os k' = inr k'.                                           (* a second call changes nothing *)
Proof.
  intros Hlt Hpos Hn. unfold remove_readout_os. destruct (Z.eqb_spec (reconx k) (encx k)); [lia|].
  destruct (Z.ltb_spec (encx k) (reconx k)); [lia|]. intros E. injection E as <-. cbn.
  assert (Hm : Z.min (reconx k) (n0 k - (encx k / 2 - reconx k / 2)) = reconx k) by lia.
  rewrite Hm. repeat split; try lia; try reflexivity.
  now rewrite Z.eqb_refl.
Qed.

(* the window keeps exactly the samples start .. start + recon - 1, each once *)
Lemma remove_os_window k k' : reconx k < encx k -> 0 < reconx k -> n0 k = encx k -> remove_readout_os k = inr k' ->
  let start := encx k / 2 - reconx k / 2 in
  (forall j, 0 <= j < n0 k' -> start <= start + j < start + reconx k /\ 0 <= start + j < n0 k) /\
  (forall js, start <= js < start + reconx k -> exists j, 0 <= j < n0 k' /\ start + j = js /\ forall j', start + j' = js -> j' = j).
Proof.
  intros Hlt Hpos Hn E. destruct (remove_os_full _ _ Hlt Hpos Hn E) as (H0 & H1 & H2 & _). cbv zeta. split.
  - intros j Hj. lia.
  - intros js Hjs. exists (js - (encx k / 2 - reconx k / 2)). repeat split; lia.
Qed.

(* readouts whose kx is "sample number minus center_sample" stay so: center_sample is moved with the window *)
Lemma remove_os_kfreq_consistent k k' : reconx k < encx k -> 0 < reconx k -> n0 k = encx k -> remove_readout_os k = inr k' ->
  (forall o a b j, ft k 2 o a b j = j - fi k 7 o a b) -> forall o a b j, ft k' 2 o a b j = j - fi k' 7 o a b.
Proof.
  intros Hlt Hpos Hn E H o a b j. destruct (remove_os_full _ _ Hlt Hpos Hn E) as (_ & _ & _ & _ & _ & _ & _ & _ & _ & _ & Ht & Hi & _).
  rewrite Ht, Hi, H. cbn. lia.
Qed.

(* a readout centred in the encoding matrix (center_sample = enc // 2) is centred in the recon matrix afterwards, the cropped kx is
   the centred grid of the reduced matrix, symmetric around 0 when its size is odd *)
Lemma remove_os_centred k k' : reconx k < encx k -> 0 < reconx k -> n0 k = encx k -> remove_readout_os k = inr k' ->
  (forall o a b, fi k 7 o a b = encx k / 2) -> (forall o a b j, ft k 2 o a b j = j - encx k / 2) ->
  (forall o a b, fi k' 7 o a b = encx k' / 2) /\
  (forall o a b j, ft k' 2 o a b j = j - encx k' / 2) /\
  (forall o a b, ft k' 2 o a b (encx k' / 2) = 0) /\
  (Z.odd (reconx k) = true -> forall o a b j, ft k' 2 o a b (n0 k' - 1 - j) = - ft k' 2 o a b j).
Proof.
  intros Hlt Hpos Hn E Hc Hx. destruct (remove_os_full _ _ Hlt Hpos Hn E) as (_ & _ & Hn0 & He & _ & _ & _ & _ & _ & _ & Ht & Hi & _).
  assert (A : forall o a b, fi k' 7 o a b = encx k' / 2) by (intros; rewrite Hi, Hc, He; cbn; lia).
  assert (B : forall o a b j, ft k' 2 o a b j = j - encx k' / 2) by (intros; rewrite Ht, Hx, He; lia).
  split; [exact A|]. split; [exact B|]. split; [intros; rewrite B; lia|].
  intros Hodd o a b j. rewrite !B, Hn0, He. rewrite Z.odd_spec in Hodd. destruct Hodd as [q Hq]. lia.
Qed.

(* ---- rearrange_k2_k1_into_k1 is a regrouping: nothing dropped, nothing duplicated ------------------------------------- *)
Lemma rearrange_bijection k k' : 0 < n1 k -> rearrange_k2_k1_into_k1 k = inr k' ->
  n2 k' = 1 /\ n1 k' = n2 k * n1 k /\ nO k' = nO k /\ nC k' = nC k /\ n0 k' = n0 k /\
  (forall o c a b j, 0 <= a < n2 k -> 0 <= b < n1 k ->
     0 <= a * n1 k + b < n1 k' /\ fd k' o c 0 (a * n1 k + b) j = fd k o c a b j /\
     (forall m, ft k' m o 0 (a * n1 k + b) j = ft k m o a b j)) /\
  (forall b', 0 <= b' < n1 k' -> exists a b, 0 <= a < n2 k /\ 0 <= b < n1 k /\ b' = a * n1 k + b /\
     forall a2 b2, 0 <= b2 < n1 k -> b' = a2 * n1 k + b2 -> a2 = a /\ b2 = b).
Proof.
  intros Hp E. injection E as <-. cbn. repeat split; try reflexivity.
  - nia.
  - nia.
  - rewrite Z.div_add_l, Z.div_small, Z.add_0_r by lia. rewrite Z.add_comm, Z.mod_add, Z.mod_small by lia. reflexivity.
  - intros m. rewrite Z.div_add_l, Z.div_small, Z.add_0_r by lia. rewrite Z.add_comm, Z.mod_add, Z.mod_small by lia. reflexivity.
  - intros b' Hb. exists (b' / n1 k), (b' mod n1 k).
    assert (Hm : 0 <= b' mod n1 k < n1 k) by (apply Z.mod_pos_bound; lia).
    assert (Hd : 0 <= b' / n1 k < n2 k) by (split; [apply Z.div_pos; lia|apply Z.div_lt_upper_bound; lia]).
    assert (Hdm : b' = b' / n1 k * n1 k + b' mod n1 k) by (rewrite Z.mul_comm; apply Z.div_mod; lia).
    repeat split; try lia.
    + intros. subst b'. rewrite Z.div_add_l, Z.div_small by lia. lia.
    + intros. subst b'. rewrite Z.add_comm, Z.mod_add, Z.mod_small by lia. lia.
Qed.

(* a split whose index table is a bijection onto 0..n1-1 (split_idx without overlap that divides n1, or any permutation table) is
   a regrouping too: every source k1 line occurs in exactly one (block, entry) *)
Lemma split_k1_regrouping sidx label k k' : split_k1 sidx label k = inr k' ->
  (forall b, 0 <= b < n1 k -> exists s e, 0 <= s < Z.of_nat (length sidx) /\ 0 <= e < Z.of_nat (length (hd [] sidx)) /\ zfun2 sidx s e = b /\
     forall s2 e2, 0 <= s2 < Z.of_nat (length sidx) -> 0 <= e2 < Z.of_nat (length (hd [] sidx)) -> zfun2 sidx s2 e2 = b -> s2 = s /\ e2 = e) ->
  forall o c a b j, 0 <= b < n1 k -> 0 <= o ->
    exists s e, 0 <= s < Z.of_nat (length sidx) /\ 0 <= e < n1 k' /\ fd k' (o * Z.of_nat (length sidx) + s) c a e j = fd k o c a b j /\
      forall s2 e2, 0 <= s2 < Z.of_nat (length sidx) -> 0 <= e2 < n1 k' -> zfun2 sidx s2 e2 = b -> s2 = s /\ e2 = e.
Proof.
  intros E Hbij o c a b j Hb Ho. destruct (Hbij b Hb) as (s & e & Hs & He & Hz & Hu).
  pose proof (split_k1_spec _ _ _ _ E o s c a e j Hs) as Hf.
  assert (Hn1 : n1 k' = Z.of_nat (length (hd [] sidx))).
  { revert E. unfold split_k1. destruct (1 <? _); [discriminate|]. destruct (_ || _); [discriminate|]. destruct (t1 k <=? _); [discriminate|].
    intros E. now injection E as <-. }
  exists s, e. rewrite Hn1. repeat split; try lia.
  - rewrite Hf, Hz. reflexivity.
  - eapply Hu; eauto.
  - eapply Hu; eauto.
Qed.

(* ---- pairing for every AcqInfo array that the operations only move (not only scan_counter) ------------------------------ *)
Section AllArrays.
  Variable rs : Z -> Prop.     (* the AcqInfo arrays that are followed: any set that avoids the label written by a split and,
                                  if remove_readout_os is used, center_sample (array 7), whose values are shifted *)

  Definition refines_on (k' k : fds) : Prop :=
    forall o c a b j, inr5 k' o c a b j ->
      exists o' a' b' j', inr5 k o' c a' b' j' /\ fd k' o c a b j = fd k o' c a' b' j' /\
                          (forall m, ft k' m o a b j = ft k m o' a' b' j') /\
                          (forall r, rs r -> fi k' r o a b = fi k r o' a' b').

  Definition inv_on (k : fds) : Prop := forall r, rs r -> ish k r = (nO k, n2 k, n1 k).

  Lemma refines_on_refl k : refines_on k k.
  Proof. intros o c a b j H. exists o, a, b, j. auto. Qed.

  Lemma refines_on_trans k3 k2 k1 : refines_on k3 k2 -> refines_on k2 k1 -> refines_on k3 k1.
  Proof.
    intros H32 H21 o c a b j H. destruct (H32 _ _ _ _ _ H) as (o2 & a2 & b2 & j2 & R2 & D2 & T2 & I2).
    destruct (H21 _ _ _ _ _ R2) as (o1 & a1 & b1 & j1 & R1 & D1 & T1 & I1).
    exists o1, a1, b1, j1. split; [exact R1|]. split; [congruence|]. split.
    - intros m. rewrite T2. apply T1.
    - intros r Hr. rewrite (I2 r Hr). now apply I1.
  Qed.

  Lemma split_k1_refines_on sidx label k k' : ~ rs label -> inv_on k -> split_k1 sidx label k = inr k' -> refines_on k' k /\ inv_on k'.
  Proof.
    intros Hl Hi. unfold split_k1.
    destruct (1 <? _); [discriminate|]. destruct (_ || _) eqn:E1; [discriminate|]. destruct (t1 k <=? _); [discriminate|].
    intros E. injection E as <-. apply orb_false_iff in E1. destruct E1 as [E1 E2]. split.
    - intros o c a b j (Ho & Hc & Ha & Hb & Hj). cbn in *.
      destruct (div_range _ _ _ (Zle_0_nat _) Ho) as [Hd Hm].
      pose proof (zfun2_bounds sidx (o mod Z.of_nat (length sidx)) b) as Hz.
      exists (o / Z.of_nat (length sidx)), a, (zfun2 sidx (o mod Z.of_nat (length sidx)) b), j.
      split; [unfold inr5; repeat split; lia|]. split; [reflexivity|]. split; [reflexivity|].
      intros r Hr. destruct (Z.eqb_spec r label); [subst; contradiction|reflexivity].
    - intros r Hr. cbn. destruct (Z.eqb_spec r label); [subst; contradiction|]. rewrite (Hi r Hr). reflexivity.
  Qed.

  Lemma split_k2_refines_on sidx label k k' : ~ rs label -> inv_on k -> split_k2 sidx label k = inr k' -> refines_on k' k /\ inv_on k'.
  Proof.
    intros Hl Hi. unfold split_k2.
    destruct (1 <? _); [discriminate|]. destruct (_ || _) eqn:E1; [discriminate|]. destruct (t2 k <=? _); [discriminate|].
    intros E. injection E as <-. apply orb_false_iff in E1. destruct E1 as [E1 E2]. split.
    - intros o c a b j (Ho & Hc & Ha & Hb & Hj). cbn in *.
      destruct (div_range _ _ _ (Zle_0_nat _) Ho) as [Hd Hm].
      pose proof (zfun2_bounds sidx (o mod Z.of_nat (length sidx)) a) as Hz.
      exists (o / Z.of_nat (length sidx)), (zfun2 sidx (o mod Z.of_nat (length sidx)) a), b, j.
      split; [unfold inr5; repeat split; lia|]. split; [reflexivity|]. split; [reflexivity|].
      intros r Hr. destruct (Z.eqb_spec r label); [subst; contradiction|reflexivity].
    - intros r Hr. cbn. destruct (Z.eqb_spec r label); [subst; contradiction|]. rewrite (Hi r Hr). reflexivity.
  Qed.

  Lemma select_refines_on subset label k k' : fst (fst (ish k label)) = nO k -> inv_on k ->
    select_other_subset subset label k = inr k' -> refines_on k' k /\ inv_on k'.
  Proof.
    intros Hs Hi. unfold select_other_subset. destruct (negb _); [discriminate|]. intros E. injection E as <-. split.
    - intros o c a b j (Ho & Hc & Ha & Hb & Hj). cbn in *.
      set (oi := other_index k label subset) in *.
      assert (Hin : In (nth (Z.to_nat o) oi 0) oi) by (apply nth_In; lia).
      pose proof (other_index_range k label subset _ Hs Hin).
      exists (nth (Z.to_nat o) oi 0), a, b, j. split; [unfold inr5; repeat split; lia|]. auto.
    - intros r Hr. cbn. rewrite (Hi r Hr). reflexivity.
  Qed.

  Lemma rearrange_refines_on k k' : 0 < n1 k -> inv_on k -> rearrange_k2_k1_into_k1 k = inr k' -> refines_on k' k /\ inv_on k'.
  Proof.
    intros Hp Hi. unfold rearrange_k2_k1_into_k1. intros E. injection E as <-. split.
    - intros o c a b j (Ho & Hc & Ha & Hb & Hj). cbn in *.
      destruct (div_range b (n2 k) (n1 k) (Z.lt_le_incl _ _ Hp) Hb) as [Hd Hm].
      exists o, (b / n1 k), (b mod n1 k), j. split; [unfold inr5; repeat split; lia|]. split; [reflexivity|]. split; [reflexivity|].
      intros r Hr. rewrite (Hi r Hr). reflexivity.
    - intros r Hr. cbn. rewrite (Hi r Hr). reflexivity.
  Qed.

  Lemma remove_os_refines_on k k' : ~ rs 7 -> inv_on k -> remove_readout_os k = inr k' -> refines_on k' k /\ inv_on k'.
  Proof.
    intros H7 Hi. unfold remove_readout_os. destruct (Z.eqb_spec (reconx k) (encx k)).
    - intros E. injection E as <-. split; [apply refines_on_refl|exact Hi].
    - destruct (Z.ltb_spec (encx k) (reconx k)); [discriminate|]. intros E. injection E as <-. split.
      + intros o c a b j (Ho & Hc & Ha & Hb & Hj). cbn in *.
        exists o, a, b, ((encx k / 2 - reconx k / 2) + j). split; [unfold inr5; repeat split; lia|].
        split; [reflexivity|]. split; [reflexivity|].
        intros r Hr. destruct (Z.eqb_spec r 7); [subst; contradiction|reflexivity].
      + exact Hi.
  Qed.

  Lemma compress_refines_on n k k' : n <= nC k -> inv_on k -> compress_coils n k = inr k' -> refines_on k' k /\ inv_on k'.
  Proof.
    intros Hn Hi E. injection E as <-. split; [|exact Hi].
    intros o c a b j (Ho & Hc & Ha & Hb & Hj). cbn in *. exists o, a, b, j. split; [unfold inr5; repeat split; lia|]. auto.
  Qed.

  Definition op_ok_on (op : kop) (k : fds) : Prop :=
    match op with
    | OpSplitK1 _ l | OpSplitK2 _ l => ~ rs l
    | OpSelect _ l => fst (fst (ish k l)) = nO k
    | OpRearrange => 0 < n1 k
    | OpRemoveOs => ~ rs 7
    | OpCompress n => n <= nC k
    | _ => True
    end.

  Lemma apply_op_refines_on op k k' : op_ok_on op k -> inv_on k -> apply_op op k = inr k' -> refines_on k' k /\ inv_on k'.
  Proof.
    destruct op; cbn [op_ok_on apply_op]; intros Hok Hi E.
    - now apply (split_k1_refines_on sidx label).
    - now apply (split_k2_refines_on sidx label).
    - now apply (select_refines_on subset label).
    - now apply rearrange_refines_on.
    - now apply remove_os_refines_on.
    - now apply (compress_refines_on n).
    - injection E as <-. split; [apply refines_on_refl|exact Hi].
    - injection E as <-. split; [apply refines_on_refl|exact Hi].
  Qed.

  Fixpoint run_ok_on (ops : list kop) (k : fds) : Prop :=
    match ops with
    | [] => True
    | op :: r => op_ok_on op k /\ match apply_op op k with inr k' => run_ok_on r k' | inl _ => True end
    end.

  Lemma run_refines_on ops : forall k, inv_on k -> run_ok_on ops k ->
    refines_on (fst (fst (run ops k))) k /\ inv_on (fst (fst (run ops k))).
  Proof.
    induction ops as [|op r IH]; intros k Hi Hok; cbn [run].
    - split; [apply refines_on_refl|exact Hi].
    - destruct Hok as [H1 H2]. destruct (apply_op op k) as [e|k'] eqn:E.
      + cbn. split; [apply refines_on_refl|exact Hi].
      + destruct (apply_op_refines_on _ _ _ H1 Hi E) as [R1 I1]. destruct (IH k' I1 H2) as [R2 I2].
        destruct (run r k') as [[kf e] n]. cbn in *. split; [eapply refines_on_trans; eauto|exact I2].
  Qed.
End AllArrays.
