(* C17 - proofs about the constraint transformations (Model/Constraints.v). *)
From Coq Require Import Reals Lra Lia Psatz List Bool.
From MrVerif Require Import Model.Constraints.
Import ListNotations.
Open Scope R_scope.

(* ---- sigmoid ---------------------------------------------------------------------------------------------------- *)
Lemma sigmoid_range : forall beta x, 0 < sigmoid beta x < 1.
Proof.
  intros beta x. unfold sigmoid. pose proof (exp_pos (- (beta * x))) as He.
  split.
  - apply Rdiv_lt_0_compat; lra.
  - apply (Rmult_lt_reg_r (1 + exp (- (beta * x)))); [lra|].
    unfold Rdiv. rewrite Rmult_assoc, Rinv_l by lra. lra.
Qed.

Lemma inv_lt_pos : forall u v, 0 < u -> u < v -> / v < / u.
Proof. intros u v Hu Huv. apply Rinv_lt_contravar; [nra|exact Huv]. Qed.

Lemma sigmoid_increasing : forall beta x y, 0 < beta -> x < y -> sigmoid beta x < sigmoid beta y.
Proof.
  intros beta x y Hb Hxy. unfold sigmoid.
  assert (H : exp (- (beta * y)) < exp (- (beta * x))) by (apply exp_increasing; nra).
  pose proof (exp_pos (- (beta * y))) as Hy.
  unfold Rdiv. rewrite !Rmult_1_l. apply inv_lt_pos; lra.
Qed.

Lemma sigmoid_inv_fwd : forall beta x, beta <> 0 -> sigmoid_inverse beta (sigmoid beta x) = x.
Proof.
  intros beta x Hb. unfold sigmoid_inverse, sigmoid.
  pose proof (exp_pos (- (beta * x))) as He.
  replace (1 / (1 + exp (- (beta * x))) / (1 - 1 / (1 + exp (- (beta * x))))) with (/ exp (- (beta * x)))
    by (field; split; lra).
  rewrite <- exp_Ropp, Ropp_involutive, ln_exp. field. exact Hb.
Qed.

Lemma sigmoid_fwd_inv : forall beta y, beta <> 0 -> 0 < y < 1 -> sigmoid beta (sigmoid_inverse beta y) = y.
Proof.
  intros beta y Hb [Hy0 Hy1]. unfold sigmoid_inverse, sigmoid.
  assert (Hq : 0 < y / (1 - y)) by (apply Rdiv_lt_0_compat; lra).
  replace (- (beta * (ln (y / (1 - y)) / beta))) with (- ln (y / (1 - y))) by (field; exact Hb).
  rewrite exp_Ropp, exp_ln by exact Hq. field. split; lra.
Qed.

(* ---- softplus --------------------------------------------------------------------------------------------------- *)
Lemma softplus_pos : forall beta x, 0 < beta -> 0 < softplus beta x.
Proof.
  intros beta x Hb. unfold softplus. apply Rdiv_lt_0_compat; [|exact Hb].
  rewrite <- ln_1. apply ln_increasing; [lra|]. pose proof (exp_pos (beta * x)). lra.
Qed.

Lemma softplus_increasing : forall beta x y, 0 < beta -> x < y -> softplus beta x < softplus beta y.
Proof.
  intros beta x y Hb Hxy. unfold softplus, Rdiv.
  apply Rmult_lt_compat_r; [apply Rinv_0_lt_compat; exact Hb|].
  pose proof (exp_pos (beta * x)) as Hx.
  apply ln_increasing; [lra|]. apply Rplus_lt_compat_l. apply exp_increasing. nra.
Qed.

Lemma softplus_inv_fwd : forall beta x, 0 < beta -> softplus_inverse beta (softplus beta x) = x.
Proof.
  intros beta x Hb. unfold softplus_inverse, softplus.
  pose proof (exp_pos (beta * x)) as He.
  replace (- (beta * (ln (1 + exp (beta * x)) / beta))) with (- ln (1 + exp (beta * x))) by (field; lra).
  rewrite exp_Ropp, exp_ln by lra.
  replace (1 - / (1 + exp (beta * x))) with (exp (beta * x) / (1 + exp (beta * x))) by (field; lra).
  replace (exp (beta * x) / (1 + exp (beta * x))) with (exp (beta * x) * / (1 + exp (beta * x))) by reflexivity.
  rewrite ln_mult; [|lra|apply Rinv_0_lt_compat; lra].
  rewrite ln_Rinv by lra. rewrite ln_exp. field. lra.
Qed.

Lemma softplus_fwd_inv : forall beta y, 0 < beta -> 0 < y -> softplus beta (softplus_inverse beta y) = y.
Proof.
  intros beta y Hb Hy. unfold softplus_inverse, softplus.
  assert (Hlt : exp (- (beta * y)) < 1).
  { rewrite <- exp_0. apply exp_increasing. nra. }
  pose proof (exp_pos (- (beta * y))) as He.
  replace (beta * (y + ln (1 - exp (- (beta * y))) / beta)) with (beta * y + ln (1 - exp (- (beta * y))))
    by (field; lra).
  rewrite exp_plus, exp_ln by lra.
  replace (1 + exp (beta * y) * (1 - exp (- (beta * y)))) with (exp (beta * y)).
  - rewrite ln_exp. field. lra.
  - rewrite Rmult_minus_distr_l, <- exp_plus.
    replace (beta * y + - (beta * y)) with 0 by ring. rewrite exp_0. ring.
Qed.

(* ---- two-sided (a,b) -------------------------------------------------------------------------------------------- *)
Lemma fwd_ab_increasing : forall a b beta x y, a < b -> 0 < beta -> x < y -> fwd_ab a b beta x < fwd_ab a b beta y.
Proof. intros. unfold fwd_ab. pose proof (sigmoid_increasing beta x y). nra. Qed.

Lemma fwd_ab_range : forall a b beta x, a < b -> a < fwd_ab a b beta x < b.
Proof. intros a b beta x Hab. unfold fwd_ab. pose proof (sigmoid_range beta x). nra. Qed.

Lemma inv_fwd_ab : forall a b beta x, a < b -> 0 < beta -> inv_ab a b beta (fwd_ab a b beta x) = x.
Proof.
  intros a b beta x Hab Hb. unfold inv_ab, fwd_ab.
  replace ((a + (b - a) * sigmoid beta x - a) / (b - a)) with (sigmoid beta x) by (field; lra).
  apply sigmoid_inv_fwd. lra.
Qed.

Lemma fwd_inv_ab : forall a b beta y, a < b -> 0 < beta -> a < y < b -> fwd_ab a b beta (inv_ab a b beta y) = y.
Proof.
  intros a b beta y Hab Hb [Hy0 Hy1]. unfold inv_ab, fwd_ab.
  rewrite sigmoid_fwd_inv; [field; lra|lra|].
  split.
  - apply Rdiv_lt_0_compat; lra.
  - apply (Rmult_lt_reg_r (b - a)); [lra|]. unfold Rdiv. rewrite Rmult_assoc, Rinv_l by lra. lra.
Qed.

(* ---- one-sided (a, +inf) and (-inf, b) ---------------------------------------------------------------------------- *)
Lemma fwd_lo_increasing : forall a beta x y, 0 < beta -> x < y -> fwd_lo a beta x < fwd_lo a beta y.
Proof. intros. unfold fwd_lo. pose proof (softplus_increasing beta x y). lra. Qed.
Lemma fwd_lo_range : forall a beta x, 0 < beta -> a < fwd_lo a beta x.
Proof. intros. unfold fwd_lo. pose proof (softplus_pos beta x). lra. Qed.
Lemma inv_fwd_lo : forall a beta x, 0 < beta -> inv_lo a beta (fwd_lo a beta x) = x.
Proof.
  intros. unfold inv_lo, fwd_lo. replace (a + softplus beta x - a) with (softplus beta x) by ring.
  apply softplus_inv_fwd. assumption.
Qed.
Lemma fwd_inv_lo : forall a beta y, 0 < beta -> a < y -> fwd_lo a beta (inv_lo a beta y) = y.
Proof. intros. unfold inv_lo, fwd_lo. rewrite softplus_fwd_inv by lra. ring. Qed.

Lemma fwd_hi_increasing : forall b beta x y, 0 < beta -> x < y -> fwd_hi b beta x < fwd_hi b beta y.
Proof. intros. unfold fwd_hi. pose proof (softplus_increasing beta (- y) (- x)). lra. Qed.
Lemma fwd_hi_range : forall b beta x, 0 < beta -> fwd_hi b beta x < b.
Proof. intros. unfold fwd_hi. pose proof (softplus_pos beta (- x)). lra. Qed.
Lemma inv_fwd_hi : forall b beta x, 0 < beta -> inv_hi b beta (fwd_hi b beta x) = x.
Proof.
  intros. unfold inv_hi, fwd_hi. replace (- (b - softplus beta (- x) - b)) with (softplus beta (- x)) by ring.
  rewrite softplus_inv_fwd by assumption. ring.
Qed.
Lemma fwd_inv_hi : forall b beta y, 0 < beta -> y < b -> fwd_hi b beta (inv_hi b beta y) = y.
Proof.
  intros. unfold inv_hi, fwd_hi. rewrite Ropp_involutive, softplus_fwd_inv by lra. ring.
Qed.

(* the one-sided maps are onto their open half-lines as well (every admissible y is attained) *)
Lemma fwd_lo_onto : forall a beta y, 0 < beta -> a < y -> exists x, fwd_lo a beta x = y.
Proof. intros a beta y Hb Hy. exists (inv_lo a beta y). apply fwd_inv_lo; assumption. Qed.
Lemma fwd_ab_onto : forall a b beta y, a < b -> 0 < beta -> a < y < b -> exists x, fwd_ab a b beta x = y.
Proof. intros a b beta y Hab Hb Hy. exists (inv_ab a b beta y). apply fwd_inv_ab; assumption. Qed.

(* ---- the operator's branch structure ------------------------------------------------------------------------------- *)
Lemma constraint_fwd_total : forall lb ub bs bp x, constraint_fwd lb ub bs bp x <> NoBranch.
Proof. intros lb ub bs bp x. destruct lb, ub; cbn; discriminate. Qed.
Lemma constraint_inv_total : forall lb ub bs bp y, constraint_inv lb ub bs bp y <> NoBranch.
Proof. intros lb ub bs bp y. destruct lb, ub; cbn; discriminate. Qed.

(* finite and None bounds: the code takes the documented transformation *)
Lemma constraint_fwd_fin_fin : forall a b bs bp x, constraint_fwd (XFin a) (XFin b) bs bp x = Ok (fwd_ab a b bs x).
Proof. reflexivity. Qed.
Lemma constraint_fwd_fin_open : forall a ub bs bp x, unbounded_above ub -> constraint_fwd (XFin a) ub bs bp x = Ok (fwd_lo a bp x).
Proof. intros a ub bs bp x [-> | ->]; reflexivity. Qed.
Lemma constraint_fwd_open_fin : forall lb b bs bp x, unbounded_below lb -> constraint_fwd lb (XFin b) bs bp x = Ok (fwd_hi b bp x).
Proof. intros lb b bs bp x [-> | ->]; reflexivity. Qed.
Lemma constraint_fwd_none_none : forall bs bp x, constraint_fwd XNone XNone bs bp x = Ok x.
Proof. reflexivity. Qed.
Lemma constraint_inv_fin_fin : forall a b bs bp y, constraint_inv (XFin a) (XFin b) bs bp y = Ok (inv_ab a b bs y).
Proof. reflexivity. Qed.
Lemma constraint_inv_fin_open : forall a ub bs bp y, unbounded_above ub -> constraint_inv (XFin a) ub bs bp y = Ok (inv_lo a bp y).
Proof. intros a ub bs bp y [-> | ->]; reflexivity. Qed.
Lemma constraint_inv_open_fin : forall lb b bs bp y, unbounded_below lb -> constraint_inv lb (XFin b) bs bp y = Ok (inv_hi b bp y).
Proof. intros lb b bs bp y [-> | ->]; reflexivity. Qed.
Lemma constraint_inv_none_none : forall bs bp y, constraint_inv XNone XNone bs bp y = Ok y.
Proof. reflexivity. Qed.

(* code = documentation whenever no infinity is written on a side that is meant to be unconstrained by the *other* bound
   being None/inf: precisely, except for (-inf, None), (-inf, +inf), (None, +inf) *)
Definition inf_unconstrained (lb ub : xbound) : Prop :=
  (lb = XNegInf /\ unbounded_above ub) \/ (unbounded_below lb /\ ub = XPosInf).

Lemma constraint_fwd_documented : forall lb ub bs bp x,
  ~ inf_unconstrained lb ub -> documented_fwd lb ub bs bp x <> NonReal ->
  constraint_fwd lb ub bs bp x = documented_fwd lb ub bs bp x.
Proof.
  intros lb ub bs bp x Hn Hd. unfold inf_unconstrained, unbounded_above, unbounded_below in Hn.
  destruct lb, ub; cbn in *; try reflexivity; try (exfalso; apply Hd; reflexivity);
    exfalso; apply Hn; auto.
Qed.

(* ... and on exactly those three the code does arithmetic with the infinity instead of passing x through *)
Lemma constraint_fwd_inf_refuted : forall lb ub bs bp x,
  inf_unconstrained lb ub -> documented_fwd lb ub bs bp x = Ok x /\ constraint_fwd lb ub bs bp x = NonReal.
Proof.
  intros lb ub bs bp x [[-> [-> | ->]] | [[-> | ->] ->]]; cbn; split; reflexivity.
Qed.

(* ---- tuple level ----------------------------------------------------------------------------------------------------- *)
Lemma forward_list_length : forall bounds bs bp xs, length (forward_list bounds bs bp xs) = length xs.
Proof.
  induction bounds as [|[lb ub] bt IH]; intros bs bp xs; cbn.
  - apply map_length.
  - destruct xs as [|x xt]; cbn; [reflexivity|]. rewrite IH. reflexivity.
Qed.

Lemma forward_list_passthrough : forall bounds bs bp xs i,
  (length bounds <= i)%nat -> nth_error (forward_list bounds bs bp xs) i = option_map Ok (nth_error xs i).
Proof.
  induction bounds as [|[lb ub] bt IH]; intros bs bp xs i Hi; cbn.
  - apply nth_error_map.
  - destruct xs as [|x xt]; cbn.
    + destruct i; reflexivity.
    + destruct i as [|i]; [cbn in Hi; lia|]. cbn. apply IH. cbn in Hi. lia.
Qed.

Lemma forward_list_elementwise : forall bounds bs bp xs i lb ub x,
  nth_error bounds i = Some (lb, ub) -> nth_error xs i = Some x ->
  nth_error (forward_list bounds bs bp xs) i = Some (constraint_fwd lb ub bs bp x).
Proof.
  induction bounds as [|[lb0 ub0] bt IH]; intros bs bp xs i lb ub x Hb Hx.
  - destruct i; discriminate.
  - destruct xs as [|x0 xt]; [destruct i; discriminate|].
    destruct i as [|i]; cbn in *.
    + inversion Hb; inversion Hx; subst. reflexivity.
    + eapply IH; eassumption.
Qed.

Lemma inverse_list_length : forall bounds bs bp ys, length (inverse_list bounds bs bp ys) = length ys.
Proof.
  induction bounds as [|[lb ub] bt IH]; intros bs bp ys; cbn.
  - apply map_length.
  - destruct ys as [|y yt]; cbn; [reflexivity|]. rewrite IH. reflexivity.
Qed.

Lemma inverse_list_passthrough : forall bounds bs bp ys i,
  (length bounds <= i)%nat -> nth_error (inverse_list bounds bs bp ys) i = option_map Ok (nth_error ys i).
Proof.
  induction bounds as [|[lb ub] bt IH]; intros bs bp ys i Hi; cbn.
  - apply nth_error_map.
  - destruct ys as [|y yt]; cbn.
    + destruct i; reflexivity.
    + destruct i as [|i]; [cbn in Hi; lia|]. cbn. apply IH. cbn in Hi. lia.
Qed.
