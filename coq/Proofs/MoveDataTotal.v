(* Totality of the C18 model on acyclic graphs: the fuel S (length h) suffices (non-vacuity of the C18 theorems). *)
From MrVerif Require Import Base.Prelude Model.MoveData Proofs.MoveDataProofs.
Local Open Scope nat_scope.

Section Total.
Variable c : cfg.
Variable h0 : heap.
Variable nsb : nat.
Hypothesis Hwf : wf_heap h0.

Notation HI := (HI h0 nsb).
Notation MI := (MI c h0 nsb).

Lemma field_loop_total convf bound :
  (forall x, x < bound -> conv_spec c h0 nsb convf x) ->
  (forall x st, x < bound -> (exists nd, nth_error h0 x = Some nd) -> HI st -> MI st -> exists y st', convf x st = Some (y, st')) ->
  forall fs st, Forall (fun x => x < bound /\ exists nd, nth_error h0 x = Some nd) fs -> HI st -> MI st ->
  exists ys st', field_loop convf fs st = Some (ys, st').
Proof.
  intros Hspec Htot. induction fs as [|x r IH]; intros st Hfs H HM; simpl; eauto.
  inversion Hfs as [|? ? [Hxb Hx0] Hr]; subst.
  destruct (lookup x (s_memo st)) as [y|] eqn:El.
  - destruct (IH st Hr H HM) as (ys & st' & ->). do 2 eexists; reflexivity.
  - destruct (Htot x st Hxb Hx0 H HM) as (y & st1 & Hc). rewrite Hc.
    destruct (Hspec x Hxb st y st1 Hx0 H HM Hc) as (H1 & X1 & M1 & Me1 & K1 & G1).
    assert (Hnone : lookup x (s_memo st1) = None) by (rewrite K1 by lia; exact El).
    destruct (IH (add_memo x y st1) Hr (HI_memo _ _ _ _ H1) (MI_add _ _ _ st1 x y M1 Hnone G1)) as (ys & st' & ->).
    do 2 eexists; reflexivity.
Qed.

Lemma conv_total fuel : forall d st, d < fuel -> (exists nd, nth_error h0 d = Some nd) -> HI st -> MI st ->
  exists y st', conv fuel c d st = Some (y, st').
Proof.
  induction fuel as [|f IH]; intros d st Hf [nd0 Hd0] H HM; [lia|]. simpl.
  rewrite (hi_old _ _ _ _ _ H Hd0). destruct nd0 as [t|fs|fs|ts|ct m].
  - simpl. destruct (needs_new c t); eauto.
  - pose proof (children_src h0 Hwf d fs (or_introl Hd0)) as Hch.
    destruct (field_loop_total (conv f c) d (fun x _ => conv_ok c h0 nsb Hwf f x)
                (fun x st' Hx Hx0 H' HM' => IH x st' ltac:(lia) Hx0 H' HM') fs st Hch H HM) as (ys & st1 & ->).
    unfold alloc; eauto.
  - pose proof (children_src h0 Hwf d fs (or_intror Hd0)) as Hch.
    destruct (field_loop_total (conv f c) d (fun x _ => conv_ok c h0 nsb Hwf f x)
                (fun x st' Hx Hx0 H' HM' => IH x st' ltac:(lia) Hx0 H' HM') fs st Hch H HM) as (ys & st1 & ->).
    unfold alloc; eauto.
  - simpl. destruct (conv_module c ts (s_next st)). eauto.
  - simpl. destruct (c_copy c && m); eauto.
Qed.
End Total.

Theorem call_total a h ns root : wf_heap h -> root < length h ->
  exists r h', call_top a h ns root = Some (r, h').
Proof.
  intros Hwf Hr. unfold call_top, to_top.
  destruct (conv_total (parse a) h ns Hwf (S (length h)) root _ ltac:(lia) (lt_nth_error _ _ Hr)
              (HI_init h ns) (MI_init (parse a) h ns)) as (y & st & ->).
  eauto.
Qed.
