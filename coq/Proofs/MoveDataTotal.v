(* Totality of the C18 model on acyclic graphs: the fuel S (length h) suffices (non-vacuity of the C18 theorems). *)
From MrVerif Require Import Base.Prelude Model.MoveData Proofs.MoveDataProofs.
Local Open Scope nat_scope.

Section Total.
Variable c : cfg.
Variable h0 : heap.
Variable nsb : nat.
Hypothesis Hwf : wf_heap h0.

Definition spatial_ok : Prop := forall d fs, nth_error h0 d = Some (NSpatial fs) ->
  Forall (fun x => exists nd, nth_error h0 x = Some nd /\ is_leaf nd = true) fs.
Hypothesis Hsp : spatial_ok.

Notation HI := (HI c h0 nsb).
Notation MI := (MI c h0 nsb).

Lemma conv_leaf_total st d nd0 : HI st -> nth_error h0 d = Some nd0 -> is_leaf nd0 = true ->
  exists nd y st', nth_error (s_heap st) d = Some nd /\ conv_leaf c d nd st = Some (y, st').
Proof.
  intros H Hd Hl. pose proof (hi_old _ _ _ _ H _ _ Hd) as Hnow.
  destruct nd0 as [t|fs|fs|ts|ct m]; simpl in *; try discriminate.
  - exists (NTensor t). simpl. destruct (needs_new c t); eauto.
  - destruct Hnow as (ts1 & Hn & _). exists (NModule ts1). simpl.
    destruct (conv_module c ts1 (s_next st)) as [ts2 s2]. destruct (c_copy c); eauto.
  - exists (NPlain ct m). simpl. destruct (c_copy c && m); eauto.
Qed.

Lemma leaf_loop_total fs : forall lm st, HI st ->
  Forall (fun x => exists nd, nth_error h0 x = Some nd /\ is_leaf nd = true) fs ->
  exists ys st', leaf_loop c fs lm st = Some (ys, st').
Proof.
  induction fs as [|x r IH]; intros lm st H Hfs; simpl; eauto.
  inversion Hfs as [|? ? (nd0 & Hx0 & Hl) Hr]; subst.
  destruct (lookup x lm) as [y|].
  - destruct (IH lm st H Hr) as (ys & st' & ->). eauto.
  - destruct (conv_leaf_total st x nd0 H Hx0 Hl) as (nd & y & st1 & Hn & Hc). rewrite Hn, Hc.
    destruct (conv_leaf_ok c h0 nsb st x nd0 nd y st1 H Hx0 Hn Hc) as (H1 & _).
    destruct (IH ((x, y) :: lm) st1 H1 Hr) as (ys & st' & ->). eauto.
Qed.

Lemma MI_add st x y : MI st -> lookup x (s_memo st) = None -> good c h0 nsb (s_memo st) (s_heap st) x y ->
  MI (add_memo x y st).
Proof.
  intros HM Hn Hg d y' Hd. unfold add_memo in *. simpl in *.
  assert (Hadd : mext (s_memo st) ((x, y) :: s_memo st)) by (apply mext_add; exact Hn).
  destruct (Nat.eq_dec x d) as [->|Hne].
  - rewrite Nat.eqb_refl in Hd. injection Hd as <-. eapply good_stable; eauto using ext_refl.
  - destruct (Nat.eqb x d) eqn:Ee; [apply Nat.eqb_eq in Ee; contradiction|].
    eapply good_stable; [apply HM; exact Hd|apply ext_refl|exact Hadd].
Qed.

Lemma field_loop_total convf bound :
  (forall x, x < bound -> conv_spec c h0 nsb convf x) ->
  (forall x st, x < bound -> (exists nd, nth_error h0 x = Some nd) -> HI st -> MI st -> exists y st', convf x st = Some (y, st')) ->
  forall fs st, Forall (fun x => x < bound /\ exists nd, nth_error h0 x = Some nd) fs -> HI st -> MI st ->
  exists ys st', field_loop convf fs st = Some (ys, st').
Proof.
  intros Hspec Htot. induction fs as [|x r IH]; intros st Hfs H HM; simpl; eauto.
  inversion Hfs as [|? ? [Hxb Hx0] Hr]; subst.
  destruct (lookup x (s_memo st)) as [y|] eqn:El.
  - destruct (IH st Hr H HM) as (ys & st' & ->). do 2 eexists; reflexivity.
  - destruct (Htot x st Hxb Hx0 H HM) as (y & st1 & Hc). rewrite Hc.
    destruct (Hspec x Hxb st y st1 Hx0 H HM Hc) as (H1 & X1 & M1 & Me1 & K1 & G1).
    assert (Hnone : lookup x (s_memo st1) = None) by (rewrite K1 by lia; exact El).
    destruct (IH (add_memo x y st1) Hr (HI_memo _ _ _ _ _ H1) (MI_add st1 x y M1 Hnone G1)) as (ys & st' & ->). do 2 eexists; reflexivity.
Qed.

Lemma conv_total fuel : forall d st, d < fuel -> (exists nd, nth_error h0 d = Some nd) -> HI st -> MI st ->
  exists y st', conv fuel c d st = Some (y, st').
Proof.
  induction fuel as [|f IH]; intros d st Hf [nd0 Hd0] H HM; [lia|]. simpl.
  pose proof (hi_old _ _ _ _ H _ _ Hd0) as Hnow. destruct nd0 as [t|fs|fs|ts|ct m]; simpl in Hnow.
  - rewrite Hnow. simpl. destruct (needs_new c t); eauto.
  - rewrite Hnow. pose proof (children_src h0 Hwf d fs (or_introl Hd0)) as Hch.
    destruct (field_loop_total (conv f c) d (fun x _ => conv_ok c h0 nsb Hwf f x)
                (fun x st' Hx Hx0 H' HM' => IH x st' ltac:(lia) Hx0 H' HM') fs st Hch H HM) as (ys & st1 & ->). unfold alloc; eauto.
  - rewrite Hnow. destruct (leaf_loop_total fs [] st H (Hsp d fs Hd0)) as (ys & st1 & ->). unfold alloc; eauto.
  - destruct Hnow as (ts1 & -> & _). simpl. destruct (conv_module c ts1 (s_next st)). destruct (c_copy c); eauto.
  - rewrite Hnow. simpl. destruct (c_copy c && m); eauto.
Qed.
End Total.

Theorem call_total a h ns root : wf_heap h -> spatial_ok h -> root < length h ->
  exists r h', call_top a h ns root = Some (r, h').
Proof.
  intros Hwf Hsp Hr. unfold call_top, to_top.
  assert (H0 : HI (parse a) h ns (mkS h [] ns)).
  { constructor; simpl; auto.
    intros i n Hi. destruct n; simpl; auto. eexists; split; eauto. apply Forall2_refl_eq. intros; left; reflexivity. }
  assert (M0 : MI (parse a) h ns (mkS h [] ns)) by (intros d y Hd; discriminate).
  destruct (conv_total (parse a) h ns Hwf Hsp (S (length h)) root _ ltac:(lia) (lt_nth_error _ _ Hr) H0 M0) as (y & st & ->).
  eauto.
Qed.
