(* N-D from 1-D: an adjoint pair applied along one axis of a row-major (pre, n, post) tensor is an adjoint pair;
   so N-D zero padding, FFT, finite differences ... inherit adjointness (and linearity) from their 1-D models. *)
From MrVerif Require Import Base.Prelude Base.StarRing Base.Sums Model.OpAlg Model.ElemOps Proofs.OpAlgProofs.
From Coq Require Import Psatz.
Local Open Scope nat_scope.

Lemma idx3 a k b M post : (k < M)%nat -> (b < post)%nat ->
  ((a * (M * post) + (k * post + b)) / (M * post) = a /\
   ((a * (M * post) + (k * post + b)) / post) mod M = k /\
   (a * (M * post) + (k * post + b)) mod post = b)%nat.
Proof.
  intros Hk Hb.
  assert (Hr : (k * post + b < M * post)%nat) by nia.
  assert (E : (a * (M * post) + (k * post + b) = (a * M + k) * post + b)%nat) by nia.
  repeat split.
  - rewrite Nat.div_add_l by nia. rewrite (Nat.div_small (k * post + b)) by exact Hr. lia.
  - rewrite E. rewrite Nat.div_add_l by lia. rewrite (Nat.div_small b) by exact Hb.
    rewrite Nat.add_0_r. rewrite Nat.add_comm, Nat.mod_add by lia. apply Nat.mod_small. exact Hk.
  - rewrite E. rewrite Nat.add_comm, Nat.mod_add by lia. apply Nat.mod_small. exact Hb.
Qed.

Section Along.
  Variable R : StarRing.
  Add Ring Rr5 : (k_ring R).
  Local Open Scope K_scope.
  Notation vec := (nat -> R).

  Lemma sum3 pre M post (f : vec) :
    sum (pre * (M * post)) f =
    sum pre (fun a => sum post (fun b => sum M (fun k => f (a * (M * post) + (k * post + b))%nat))).
  Proof.
    rewrite sum_flatten. apply sum_ext. intros a _.
    rewrite sum_flatten. rewrite sum_swap. reflexivity.
  Qed.

  Theorem along_adjoint pre post (A : linop R) : adjoint_pair A -> adjoint_pair (along pre post A).
  Proof.
    intros HA u v. cbn [along dom ran fwd adj]. unfold inner.
    rewrite (sum3 pre (ran A) post), (sum3 pre (dom A) post).
    apply sum_ext. intros a _. apply sum_ext. intros b Hb.
    pose proof (HA (fun k => u (a * (dom A * post) + (k * post + b))%nat)
                   (fun k' => v (a * (ran A * post) + (k' * post + b))%nat)) as E.
    unfold inner in E.
    rewrite (sum_ext _ (ran A) _ (fun k' => fwd A (fun k => u (a * (dom A * post) + (k * post + b))%nat) k' *
                                          kconj (v (a * (ran A * post) + (k' * post + b))%nat))).
    2:{ intros k' Hk. destruct (idx3 a k' b (ran A) post Hk Hb) as (-> & -> & ->). reflexivity. }
    rewrite E. apply sum_ext. intros k Hk.
    destruct (idx3 a k b (dom A) post Hk Hb) as (-> & -> & ->). reflexivity.
  Qed.
End Along.
