(* N-D from 1-D: an adjoint pair applied along one axis of a row-major (pre, n, post) tensor is an adjoint pair;
   so N-D zero padding, FFT, finite differences ... inherit adjointness (and linearity) from their 1-D models. *)
From MrVerif Require Import Base.Prelude Base.StarRing Base.Sums Model.OpAlg Model.ElemOps Proofs.OpAlgProofs.
From Coq Require Import Psatz.
Local Open Scope nat_scope.

Lemma idx3 a k b M post : (k < M)%nat -> (b < post)%nat ->
  ((a * (M * post) + (k * post + b)) / (M * post) = a /\
   ((a * (M * post) + (k * post + b)) / post) mod M = k /\
   (a * (M * post) + (k * post + b)) mod post = b)%nat.
Proof.
  intros Hk Hb.
  assert (Hr : (k * post + b < M * post)%nat) by nia.
  assert (E : (a * (M * post) + (k * post + b) = (a * M + k) * post + b)%nat) by nia.
  repeat split.
  - rewrite Nat.div_add_l by nia. rewrite (Nat.div_small (k * post + b)) by exact Hr. lia.
  - rewrite E. rewrite Nat.div_add_l by lia. rewrite (Nat.div_small b) by exact Hb.
    rewrite Nat.add_0_r. rewrite Nat.add_comm, Nat.mod_add by lia. apply Nat.mod_small. exact Hk.
  - rewrite E. rewrite Nat.add_comm, Nat.mod_add by lia. apply Nat.mod_small. exact Hb.
Qed.

Section Along.
  Variable R : StarRing.
  Add Ring Rr5 : (k_ring R).
  Local Open Scope K_scope.
  Notation vec := (nat -> R).

  Lemma sum3 pre M post (f : vec) :
    sum (pre * (M * post)) f =
    sum pre (fun a => sum post (fun b => sum M (fun k => f (a * (M * post) + (k * post + b))%nat))).
  Proof.
    rewrite sum_flatten. apply sum_ext. intros a _.
    rewrite sum_flatten. rewrite sum_swap. reflexivity.
  Qed.

  Theorem along_adjoint pre post (A : linop R) : adjoint_pair A -> adjoint_pair (along pre post A).
  Proof.
    intros HA u v. cbn [along dom ran fwd adj]. unfold inner.
    rewrite (sum3 pre (ran A) post), (sum3 pre (dom A) post).
    apply sum_ext. intros a _. apply sum_ext. intros b Hb.
    pose proof (HA (fun k => u (a * (dom A * post) + (k * post + b))%nat)
                   (fun k' => v (a * (ran A * post) + (k' * post + b))%nat)) as E.
    unfold inner in E.
    rewrite (sum_ext _ (ran A) _ (fun k' => fwd A (fun k => u (a * (dom A * post) + (k * post + b))%nat) k' *
                                          kconj (v (a * (ran A * post) + (k' * post + b))%nat))).
    2:{ intros k' Hk. destruct (idx3 a k' b (ran A) post Hk Hb) as (-> & -> & ->). reflexivity. }
    rewrite E. apply sum_ext. intros k Hk.
    destruct (idx3 a k b (dom A) post Hk Hb) as (-> & -> & ->). reflexivity.
  Qed.
End Along.

(* linearity is inherited by the lifting along an axis as well *)
Section AlongWf.
  Variable R : StarRing.
  Add Ring Rr5b : (k_ring R).
  Local Open Scope K_scope.

  Lemma idx3_bound a k b M post pre : (a < pre)%nat -> (k < M)%nat -> (b < post)%nat ->
    (a * (M * post) + (k * post + b) < pre * (M * post))%nat.
  Proof.
    intros Ha Hk Hb.
    assert (H1 : (k * post + b < M * post)%nat) by nia.
    assert (H2 : ((a + 1) * (M * post) <= pre * (M * post))%nat) by (apply Nat.mul_le_mono_r; lia).
    lia.
  Qed.

  Lemma flat_decompose i M post : (0 < M)%nat -> (0 < post)%nat ->
    (i = (i / (M * post)) * (M * post) + (((i / post) mod M) * post + i mod post))%nat.
  Proof.
    intros HM Hp.
    rewrite (Nat.div_mod i post) at 1 by lia.
    rewrite (Nat.div_mod (i / post) M) at 1 by lia.
    rewrite Nat.div_div by lia. rewrite (Nat.mul_comm post M). nia.
  Qed.

  Theorem along_wf pre post (A : linop R) : (0 < post)%nat -> (0 < dom A)%nat -> (0 < ran A)%nat -> wf A -> wf (along pre post A).
  Proof.
    intros Hp Hd Hr (LA & EA & LA' & EA'). unfold wf. cbn [along dom ran fwd adj].
    assert (B1 : forall i, (i < pre * (ran A * post))%nat -> ((i / post) mod ran A < ran A)%nat) by (intros; apply Nat.mod_upper_bound; lia).
    assert (B2 : forall j, (j < pre * (dom A * post))%nat -> ((j / post) mod dom A < dom A)%nat) by (intros; apply Nat.mod_upper_bound; lia).
    split; [|split; [|split]].
    - intros a b x y i Hi. rewrite <- LA by (apply B1; exact Hi). apply EA; [|apply B1; exact Hi]. intros k Hk. reflexivity.
    - intros x y H i Hi. apply EA; [|apply B1; exact Hi]. intros k Hk. apply H.
      apply idx3_bound; [|exact Hk|apply Nat.mod_upper_bound; lia].
      apply Nat.div_lt_upper_bound; [nia|]. rewrite Nat.mul_comm. exact Hi.
    - intros a b x y j Hj. rewrite <- LA' by (apply B2; exact Hj). apply EA'; [|apply B2; exact Hj]. intros k Hk. reflexivity.
    - intros x y H j Hj. apply EA'; [|apply B2; exact Hj]. intros k Hk. apply H.
      apply idx3_bound; [|exact Hk|apply Nat.mod_upper_bound; lia].
      apply Nat.div_lt_upper_bound; [nia|]. rewrite Nat.mul_comm. exact Hj.
  Qed.
End AlongWf.
