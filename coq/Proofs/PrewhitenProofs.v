(* C07 - "prewhitening maps the noise scan itself to unit coil covariance".
   prewhiten_kspace (src/mrpro/algorithms/prewhiten_kspace.py): C = (1/m) N N^H over all noise samples, L = cholesky(C),
   whitened = solve_triangular(L, data).  Contracts of the two torch.linalg calls as used here: L L^H = C with L invertible,
   and L X = N.  Then (1/m) X X^H = I, for every number of coils and samples, over every commutative *-ring. *)
From MrVerif Require Import Base.Prelude Base.StarRing Base.Sums.
Local Open Scope nat_scope.

Section Prewhiten.
  Variable R : StarRing.
  Add Ring RrPW : (k_ring R).
  Local Open Scope K_scope.
  Notation mat := (nat -> nat -> R).

  (* (A B)_{ij} = sum_{k<p} A_{ik} B_{kj};  A^H_{ij} = conj A_{ji};  I *)
  Definition mm (p : nat) (A B : mat) : mat := fun i j => sum p (fun k => A i k * B k j).
  Definition mH (A : mat) : mat := fun i j => kconj (A j i).
  Definition mI : mat := fun i j => if Nat.eqb i j then k1 else k0.
  Definition meq (r c : nat) (A B : mat) : Prop := forall i j, (i < r)%nat -> (j < c)%nat -> A i j = B i j.
  (* coil covariance of a (coils x samples) array with the factor s = 1/samples *)
  Definition cov (m : nat) (s : R) (N : mat) : mat := fun i j => s * sum m (fun t => N i t * kconj (N j t)).

  Lemma mm_assoc p q (A B C : mat) i j : mm q (mm p A B) C i j = mm p A (mm q B C) i j.
  Proof.
    unfold mm.
    rewrite (sum_ext _ q _ (fun k => sum p (fun l => A i l * B l k * C k j))) by (intros k _; rewrite <- sum_mul_r; reflexivity).
    rewrite sum_swap. apply sum_ext. intros l _. rewrite <- sum_mul_l. apply sum_ext. intros k _. ring.
  Qed.

  Lemma mm_ext p (A A' B B' : mat) i j :
    (forall k, (k < p)%nat -> A i k = A' i k) -> (forall k, (k < p)%nat -> B k j = B' k j) -> mm p A B i j = mm p A' B' i j.
  Proof. intros HA HB. unfold mm. apply sum_ext. intros k Hk. rewrite HA, HB by exact Hk. reflexivity. Qed.

  Lemma mm_I_l n (A : mat) i j : (i < n)%nat -> mm n mI A i j = A i j.
  Proof.
    intros Hi. unfold mm, mI.
    rewrite (sum_ext _ n _ (fun k => if Nat.eqb k i then A k j else k0)).
    - exact (sum_delta R n i (fun k => A k j) Hi).
    - intros k _. rewrite (Nat.eqb_sym i k). destruct (Nat.eqb k i) eqn:E; [apply Nat.eqb_eq in E; subst; ring|ring].
  Qed.
  Lemma mm_I_r n (A : mat) i j : (j < n)%nat -> mm n A mI i j = A i j.
  Proof.
    intros Hj. unfold mm, mI.
    rewrite (sum_ext _ n _ (fun k => if Nat.eqb k j then A i k else k0)).
    - exact (sum_delta R n j (fun k => A i k) Hj).
    - intros k _. destruct (Nat.eqb k j) eqn:E; [apply Nat.eqb_eq in E; subst; ring|ring].
  Qed.

  Lemma mH_mm p (A B : mat) i j : mH (mm p A B) i j = mm p (mH B) (mH A) i j.
  Proof. unfold mH, mm. rewrite sum_conj. apply sum_ext. intros k _. rewrite kconj_mul. ring. Qed.

  Lemma mH_I i j : mH mI i j = mI i j.
  Proof. unfold mH, mI. rewrite (Nat.eqb_sym j i). destruct (Nat.eqb i j); [apply kconj_1|apply kconj_0]. Qed.

  (* cov of a product: cov(L X) = L cov(X) L^H *)
  Lemma cov_mm n m s (L X : mat) i j :
    cov m s (mm n L X) i j = mm n (mm n L (cov m s X)) (mH L) i j.
  Proof.
    unfold cov, mm, mH.
    transitivity (sum n (fun k => sum n (fun l => sum m (fun t => s * (L i k * X k t * (kconj (L j l) * kconj (X l t))))))).
    - (* s * sum_t (sum_k L i k X k t) * conj (sum_l L j l X l t) *)
      rewrite <- sum_mul_l.
      rewrite (sum_ext _ m _ (fun t => sum n (fun k => sum n (fun l => s * (L i k * X k t * (kconj (L j l) * kconj (X l t))))))).
      2:{ intros t _. rewrite sum_conj. rewrite <- sum_mul_r. rewrite <- sum_mul_l. apply sum_ext. intros k _.
          rewrite <- !sum_mul_l. apply sum_ext. intros l _. rewrite kconj_mul. ring. }
      rewrite sum_swap. apply sum_ext. intros k _. rewrite sum_swap. reflexivity.
    - (* sum_l (sum_k L i k * (s * sum_t X k t conj(X l t))) * conj (L j l) *)
      rewrite (sum_ext _ n (fun l => sum n (fun k => L i k * (s * sum m (fun t => X k t * kconj (X l t)))) * kconj (L j l))
                       (fun l => sum n (fun k => sum m (fun t => s * (L i k * X k t * (kconj (L j l) * kconj (X l t))))))).
      2:{ intros l _. rewrite <- sum_mul_r. apply sum_ext. intros k _. rewrite <- !sum_mul_l. rewrite <- sum_mul_r.
          apply sum_ext. intros t _. ring. }
      rewrite sum_swap. reflexivity.
  Qed.

  (* ---- the theorem ---- *)
  Theorem prewhiten_unit_covariance n m (s : R) (N L Li X : mat) :
    meq n n (mm n L (mH L)) (cov m s N) ->          (* L = cholesky(C), C = s N N^H *)
    meq n n (mm n Li L) mI ->                       (* L is invertible *)
    meq n m (mm n L X) N ->                         (* X = solve_triangular(L, N): the whitened noise scan *)
    meq n n (cov m s X) mI.
  Proof.
    intros HC HLi HX i j Hi Hj.
    set (D := cov m s X).
    (* L D L^H = cov (L X) = cov N = L L^H on the n x n block *)
    assert (E : forall a b, (a < n)%nat -> (b < n)%nat -> mm n (mm n L D) (mH L) a b = mm n L (mH L) a b).
    { intros a b Ha Hb. unfold D. rewrite <- (cov_mm n m s L X a b). rewrite (HC a b Ha Hb).
      unfold cov. f_equal. apply sum_ext. intros t Ht. rewrite (HX a t Ha Ht), (HX b t Hb Ht). reflexivity. }
    (* multiply by Li on the left and Li^H on the right *)
    assert (HLiH : forall a b, (a < n)%nat -> (b < n)%nat -> mm n (mH L) (mH Li) a b = mI a b).
    { intros a b Ha Hb. rewrite <- mH_mm. rewrite <- (mH_I a b). unfold mH. f_equal. apply HLi; assumption. }
    transitivity (mm n (mm n Li (mm n (mm n L D) (mH L))) (mH Li) i j).
    - (* = (Li L) D (L^H Li^H) = D *)
      symmetry.
      rewrite (mm_ext n _ (mm n (mm n (mm n Li L) D) (mH L)) (mH Li) (mH Li) i j); [| |reflexivity].
      2:{ intros k Hk. rewrite <- mm_assoc. apply mm_ext; [|reflexivity]. intros l Hl. rewrite <- mm_assoc. reflexivity. }
      rewrite mm_assoc.
      rewrite (mm_ext n _ (mm n (mm n Li L) D) _ mI i j); [| reflexivity | intros k Hk; apply HLiH; assumption].
      rewrite mm_I_r by exact Hj.
      rewrite (mm_ext n (mm n Li L) mI D D i j); [|intros k Hk; apply HLi; assumption|reflexivity].
      apply mm_I_l. exact Hi.
    - (* = Li (L L^H) Li^H = (Li L)(L^H Li^H) = I *)
      rewrite (mm_ext n _ (mm n Li (mm n L (mH L))) (mH Li) (mH Li) i j); [| |reflexivity].
      2:{ intros k Hk. apply mm_ext; [reflexivity|]. intros l Hl. apply E; assumption. }
      rewrite (mm_ext n _ (mm n (mm n Li L) (mH L)) (mH Li) (mH Li) i j); [| |reflexivity].
      2:{ intros k Hk. rewrite mm_assoc. reflexivity. }
      rewrite mm_assoc.
      rewrite (mm_ext n _ (mm n Li L) _ mI i j); [| reflexivity | intros k Hk; apply HLiH; assumption].
      rewrite mm_I_r by exact Hj. apply HLi; assumption.
  Qed.
End Prewhiten.
