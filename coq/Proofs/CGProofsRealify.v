(* C06 - realification of complex Hermitian systems (the step the harness performs before running the model):
   a complex vector z = x + i y is the real vector x ++ y, a complex matrix H = A + i B is the real matrix
   [[A, -B], [B, A]].  Proved for every field (in which the "complex" structure is formal):
   - the realified matrix applied to x ++ y is the realification of H z                       (realify_matvec)
   - Re <z, w> (what torch.vdot(..).real computes) is the real dot product of the realifications (realify_inner)
   - H Hermitian (A self-adjoint, B skew-adjoint) => [[A,-B],[B,A]] self-adjoint               (realify_self_adjoint)
   - H Hermitian => Im <p, H p> = 0: alpha = rr / <p,Hp> is real, and Re <p, H p> is the real curvature (realify_alpha_real)
   so that every quantity cg.py computes on the complex system is the one the model computes on the realified system. *)
From Coq Require Import List Bool Arith Lia Field.
Import ListNotations.
From MrVerif Require Import Model.CG Proofs.CGProofs.

Section Realify.
  Variable F : Type.
  Variables (f0 f1 : F) (fadd fmul fsub : F -> F -> F) (fopp : F -> F) (fdiv : F -> F -> F) (finv : F -> F).
  Hypothesis Fth : field_theory f0 f1 fadd fmul fsub fopp fdiv finv (@eq F).
  Add Field Ff3 : Fth.
  Notation vec := (list F).
  Notation "u +v v" := (vadd F fadd u v) (at level 50, left associativity).
  Notation "u -v v" := (vsub F fsub fopp u v) (at level 50, left associativity).
  Notation "<< u , v >>" := (dot F f0 fadd fmul u v) (at level 0).
  Notation mv := (matvec F f0 fadd fmul).

  Definition realify_mat (A B : list vec) : list vec :=
    map (fun ab : vec * vec => fst ab ++ map fopp (snd ab)) (combine A B)
    ++ map (fun ba : vec * vec => fst ba ++ snd ba) (combine B A).

  (* complex matrix-vector product on (real part, imaginary part) *)
  Definition cmatvec (A B : list vec) (z : vec * vec) : vec * vec :=
    (mv A (fst z) -v mv B (snd z), mv B (fst z) +v mv A (snd z)).
  Definition realify (z : vec * vec) : vec := fst z ++ snd z.
  (* conj(z) . w = (x.x' + y.y') + i (x.y' - y.x') *)
  Definition cdot_re (z w : vec * vec) : F := fadd << fst z, fst w >> << snd z, snd w >>.
  Definition cdot_im (z w : vec * vec) : F := fsub << fst z, snd w >> << snd z, fst w >>.

  Lemma dot_app (u1 : vec) : forall v1 u2 v2, length u1 = length v1 ->
    << u1 ++ u2, v1 ++ v2 >> = fadd << u1, v1 >> << u2, v2 >>.
  Proof.
    induction u1 as [|a u1 IH]; intros [|b v1] u2 v2 Hl; try discriminate; cbn [app dot].
    - ring.
    - rewrite IH by (now injection Hl). ring.
  Qed.

  Lemma dot_map_opp_l (u : vec) : forall v, << map fopp u, v >> = fopp << u, v >>.
  Proof. induction u as [|a u IH]; intros [|b v]; cbn [map dot]; try ring. rewrite IH. ring. Qed.

  Variable n : nat.
  Definition rows_ok (A : list vec) : Prop := Forall (fun r : vec => length r = n) A.

  Lemma realify_rows (A : list vec) : forall B x y, rows_ok A -> rows_ok B -> length A = length B -> length x = n ->
    mv (map (fun ab : vec * vec => fst ab ++ map fopp (snd ab)) (combine A B)) (x ++ y) = mv A x -v mv B y
    /\ mv (map (fun ba : vec * vec => fst ba ++ snd ba) (combine B A)) (x ++ y) = mv B x +v mv A y.
  Proof.
    unfold matvec. induction A as [|ra A IH]; intros [|rb B] x y HA HB Hl Hx; try discriminate; [split; reflexivity|].
    apply Forall_cons_iff in HA. destruct HA as [Hra HA]. apply Forall_cons_iff in HB. destruct HB as [Hrb HB].
    destruct (IH B x y HA HB ltac:(now injection Hl) Hx) as [E1 E2]. cbn [combine map fst snd vsub vadd]. split.
    - rewrite E1. f_equal. rewrite dot_app by (rewrite Hra, Hx; reflexivity). rewrite dot_map_opp_l. ring.
    - rewrite E2. f_equal. rewrite dot_app by (rewrite Hrb, Hx; reflexivity). reflexivity.
  Qed.

  (* the realified matrix acts as the complex matrix *)
  Theorem realify_matvec A B z : rows_ok A -> rows_ok B -> length A = length B -> length (fst z) = n ->
    mv (realify_mat A B) (realify z) = realify (cmatvec A B z).
  Proof.
    intros HA HB Hl Hx. unfold realify_mat, realify, cmatvec. cbn [fst snd].
    assert (Eapp : forall l1 l2 v, mv (l1 ++ l2) v = mv l1 v ++ mv l2 v) by (intros; unfold matvec; apply map_app).
    rewrite Eapp.
    destruct (realify_rows A B (fst z) (snd z) HA HB Hl Hx) as [E1 E2]. rewrite E1, E2. reflexivity.
  Qed.

  (* vdot(z, w).real is the real dot product of the realifications *)
  Theorem realify_inner z w : length (fst z) = length (fst w) -> << realify z, realify w >> = cdot_re z w.
  Proof. intros Hl. unfold realify, cdot_re. apply dot_app. exact Hl. Qed.

  (* Hermitian H = A + iB: A self-adjoint and B skew-adjoint on F^n *)
  Definition hermitian (A B : list vec) : Prop :=
    (forall x x', length x = n -> length x' = n -> << x, mv A x' >> = << mv A x, x' >>) /\
    (forall x x', length x = n -> length x' = n -> << x, mv B x' >> = fopp << mv B x, x' >>).

  Lemma len_re A B z : length A = n -> length B = n -> length (fst (cmatvec A B z)) = n.
  Proof.
    intros HA HB. unfold cmatvec. cbn [fst].
    rewrite length_vsub, !matvec_length. unfold CG.vec. rewrite HA, HB. lia.
  Qed.

  Theorem realify_self_adjoint A B : rows_ok A -> rows_ok B -> length A = n -> length B = n -> hermitian A B ->
    forall z w, length (fst z) = n -> length (snd z) = n -> length (fst w) = n -> length (snd w) = n ->
    << realify z, mv (realify_mat A B) (realify w) >> = << mv (realify_mat A B) (realify z), realify w >>.
  Proof.
    intros HrA HrB HA HB [Hs Hk] [x y] [x' y'] Hx Hy Hx' Hy'. cbn [fst snd] in *.
    rewrite !realify_matvec by (cbn [fst]; congruence).
    rewrite !realify_inner by (cbn [fst]; rewrite ?len_re by assumption; congruence).
    unfold cdot_re, cmatvec. cbn [fst snd].
    rewrite (dot_vsub_r F _ _ _ _ _ _ _ _ Fth), (dot_vadd_r F _ _ _ _ _ _ _ _ Fth),
            (dot_vsub_l F _ _ _ _ _ _ _ _ Fth), (dot_vadd_l F _ _ _ _ _ _ _ _ Fth).
    rewrite (Hs x x'), (Hs y y'), (Hk x y'), (Hk y x') by assumption. ring.
  Qed.

  (* <p, H p> is real for Hermitian H (so alpha = rr / <p,Hp> is real) and its real part is the curvature of the realified system *)
  Theorem realify_alpha_real A B : rows_ok A -> rows_ok B -> length A = n -> length B = n -> hermitian A B -> fadd f1 f1 <> f0 ->
    forall p, length (fst p) = n -> length (snd p) = n ->
    cdot_im p (cmatvec A B p) = f0 /\
    cdot_re p (cmatvec A B p) = << realify p, mv (realify_mat A B) (realify p) >>.
  Proof.
    intros HrA HrB HA HB [Hs Hk] H2 [x y] Hx Hy. cbn [fst snd] in *. split.
    - unfold cdot_im, cmatvec. cbn [fst snd].
      rewrite (dot_vadd_r F _ _ _ _ _ _ _ _ Fth), (dot_vsub_r F _ _ _ _ _ _ _ _ Fth).
      assert (Ex : << x, mv B x >> = f0).
      { pose proof (Hk x x Hx Hx) as E. rewrite (dot_comm F _ _ _ _ _ _ _ _ Fth (mv B x) x) in E.
        assert (E2 : fmul (fadd f1 f1) << x, mv B x >> = f0).
        { transitivity (fadd << x, mv B x >> << x, mv B x >>); [ring|]. rewrite E at 1. ring. }
        transitivity (fdiv (fmul (fadd f1 f1) << x, mv B x >>) (fadd f1 f1)); [field; exact H2|]. rewrite E2. field. exact H2. }
      assert (Ey : << y, mv B y >> = f0).
      { pose proof (Hk y y Hy Hy) as E. rewrite (dot_comm F _ _ _ _ _ _ _ _ Fth (mv B y) y) in E.
        assert (E2 : fmul (fadd f1 f1) << y, mv B y >> = f0).
        { transitivity (fadd << y, mv B y >> << y, mv B y >>); [ring|]. rewrite E at 1. ring. }
        transitivity (fdiv (fmul (fadd f1 f1) << y, mv B y >>) (fadd f1 f1)); [field; exact H2|]. rewrite E2. field. exact H2. }
      rewrite Ex, Ey, (Hs x y Hx Hy), (dot_comm F _ _ _ _ _ _ _ _ Fth (mv A x) y). ring.
    - rewrite realify_matvec by (cbn [fst]; congruence). symmetry. apply realify_inner.
      rewrite len_re by assumption. exact Hx.
  Qed.
End Realify.
