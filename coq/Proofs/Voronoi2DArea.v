(* Additivity of the (signed) shoelace area under Sutherland-Hodgman cutting:
     shoelace2 (clip h l) + shoelace2 (clip (negh h) l) == shoelace2 l
   for EVERY vertex list l and every proper half-plane h (normal vector <> 0): the kept piece and the discarded piece
   (the clip against the complementary closed half-plane) together have exactly the signed area of the input.
   Proof: one pass over the edges with the state (last vertex emitted to the kept piece, last vertex emitted to the
   discarded piece, previous input vertex); each edge changes  kept + discarded - input  by cross(X, Y) for two points
   X, Y on the cutting line, and n2 * cross(X, Y) == c * (dL Y - dL X) telescopes around the cycle. *)
From Coq Require Import QArith Qabs List Lia Lra Psatz Setoid Morphisms.
From MrVerif Require Import Model.Voronoi1D Model.Voronoi2D Proofs.Voronoi2DProofs.
Import ListNotations.
Open Scope Q_scope.

Definition negh (h : hp) : hp := let '(a, b, c) := h in (- a, - b, - c).
Definition n2 (h : hp) : Q := let '(a, b, c) := h in a * a + b * b.
Definition cst (h : hp) : Q := let '(a, b, c) := h in c.
Definition dL (h : hp) (z : pt) : Q := let '(a, b, c) := h in - b * fst z + a * snd z.

Lemma hval_negh h x : hval (negh h) x == - hval h x.
Proof. destruct h as [[a b] c]. unfold hval, negh. ring. Qed.

(* ---------- points up to == ---------- *)
Definition peq (x y : pt) : Prop := fst x == fst y /\ snd x == snd y.

Global Instance peq_equiv : Equivalence peq.
Proof.
  split.
  - intros x. split; reflexivity.
  - intros x y [H1 H2]. split; symmetry; assumption.
  - intros x y z [H1 H2] [H3 H4]. split; [rewrite H1 | rewrite H2]; assumption.
Qed.

Global Instance cross_proper : Proper (peq ==> peq ==> Qeq) cross.
Proof. intros x x' [H1 H2] y y' [H3 H4]. unfold cross. rewrite H1, H2, H3, H4. reflexivity. Qed.

Global Instance hval_proper h : Proper (peq ==> Qeq) (hval h).
Proof. intros x x' [H1 H2]. destruct h as [[a b] c]. unfold hval. rewrite H1, H2. reflexivity. Qed.

Global Instance dL_proper h : Proper (peq ==> Qeq) (dL h).
Proof. intros x x' [H1 H2]. destruct h as [[a b] c]. unfold dL. rewrite H1, H2. reflexivity. Qed.

(* ---------- two points on the cutting line ---------- *)
Lemma line_cross h X Y : hval h X == 0 -> hval h Y == 0 -> n2 h * cross X Y == cst h * (dL h Y - dL h X).
Proof.
  destruct h as [[a b] c], X as [x1 x2], Y as [y1 y2]. unfold hval, n2, cst, dL, cross. cbn [fst snd]. intros H1 H2.
  assert (a * x1 + b * x2 == c) as C1 by lra. assert (a * y1 + b * y2 == c) as C2 by lra.
  transitivity ((a * x1 + b * x2) * (- b * y1 + a * y2) + (a * y1 + b * y2) * (b * x1 - a * x2)); [ring|].
  rewrite C1, C2. ring.
Qed.

(* ---------- the intersection point ---------- *)
Lemma inter_peq h s e :
  peq (inter h s e) (fst s + hval h s / (hval h s - hval h e) * (fst e - fst s),
                     snd s + hval h s / (hval h s - hval h e) * (snd e - snd s)).
Proof. unfold inter, peq. cbn [fst snd]. rewrite !Qred_correct. split; reflexivity. Qed.

Lemma inter_collinear h p c : ~ hval h p - hval h c == 0 ->
  cross p (inter h p c) + cross (inter h p c) c == cross p c.
Proof.
  intros Hne. rewrite (inter_peq h p c). unfold cross. cbn [fst snd]. field. exact Hne.
Qed.

Lemma inter_negh h p c : ~ hval h p - hval h c == 0 -> peq (inter (negh h) p c) (inter h p c).
Proof.
  intros Hne. rewrite (inter_peq h p c), (inter_peq (negh h) p c). unfold peq. cbn [fst snd].
  rewrite !hval_negh. split; field; split; try exact Hne; intros C; apply Hne; lra.
Qed.

Lemma inter_at_s h s e : hval h s == 0 -> ~ hval h e == 0 -> peq (inter h s e) s.
Proof.
  intros Hs He. rewrite (inter_peq h s e). unfold peq. cbn [fst snd]. rewrite Hs. split; field; intros C; apply He; lra.
Qed.

Lemma inter_at_e h s e : hval h e == 0 -> ~ hval h s == 0 -> peq (inter h s e) e.
Proof.
  intros He Hs. rewrite (inter_peq h s e). unfold peq. cbn [fst snd]. rewrite He. split; field; intros C; apply Hs; lra.
Qed.

Lemma inter_on_line h s e : ~ hval h s - hval h e == 0 -> hval h (inter h s e) == 0.
Proof. apply inter_on_boundary. Qed.

(* ---------- inside bits of both half-planes ---------- *)
Lemma ins_lt h x : hval h x < 0 -> inside h x = true /\ inside (negh h) x = false.
Proof.
  intros H. split.
  - apply inside_true. unfold sat. lra.
  - destruct (inside (negh h) x) eqn:E; [|reflexivity]. apply inside_true in E. unfold sat in E. rewrite hval_negh in E. lra.
Qed.

Lemma ins_gt h x : 0 < hval h x -> inside h x = false /\ inside (negh h) x = true.
Proof.
  intros H. split.
  - destruct (inside h x) eqn:E; [|reflexivity]. apply inside_true in E. unfold sat in E. lra.
  - apply inside_true. unfold sat. rewrite hval_negh. lra.
Qed.

Lemma ins_eq h x : hval h x == 0 -> inside h x = true /\ inside (negh h) x = true.
Proof.
  intros H. split; apply inside_true; unfold sat; [|rewrite hval_negh]; lra.
Qed.

(* ---------- the emission of one edge ---------- *)
Definition block (h : hp) (p c : pt) : list pt :=
  match inside h p, inside h c with
  | true, true => [c]
  | true, false => [inter h p c]
  | false, true => [inter h p c; c]
  | false, false => []
  end.

Lemma clip_edges_cons h p c r : clip_edges h p (c :: r) = block h p c ++ clip_edges h c r.
Proof. reflexivity. Qed.

(* ---------- path sums ---------- *)
Lemma last_cons {A} (b : A) l a : last (b :: l) a = last l b.
Proof. destruct l as [|c l]; [reflexivity|]. change (last (c :: l) a = last (c :: l) b). apply last_indep. Qed.

Lemma last_app_d {A} (l1 l2 : list A) d : last (l1 ++ l2) d = last l2 (last l1 d).
Proof.
  revert d. induction l1 as [|a l1 IH]; intros d; [reflexivity|].
  change ((a :: l1) ++ l2) with (a :: (l1 ++ l2)). rewrite !last_cons. apply IH.
Qed.

Lemma last_last {A} (l : list A) d : last l (last l d) = last l d.
Proof. destruct l as [|a l]; [reflexivity|]. apply last_indep. Qed.

Lemma path_sum_cons2 a b r : path_sum (a :: b :: r) = cross a b + path_sum (b :: r).
Proof. reflexivity. Qed.

Lemma path_sum_app a l1 l2 : path_sum (a :: l1 ++ l2) == path_sum (a :: l1) + path_sum (last l1 a :: l2).
Proof.
  revert a. induction l1 as [|b l1 IH]; intros a.
  - simpl app. simpl last. change (path_sum [a]) with 0. ring.
  - change (a :: (b :: l1) ++ l2) with (a :: b :: (l1 ++ l2)). rewrite !path_sum_cons2, IH, last_cons. ring.
Qed.

Lemma shoelace2_path l d : shoelace2 l == path_sum (last l d :: l).
Proof.
  destruct l as [|a r]; [reflexivity|].
  unfold shoelace2. rewrite path_sum_cons2, (last_indep a r d a). ring.
Qed.

(* ---------- the state of the pass ---------- *)
Definition cons_st (h : hp) (a b p : pt) : Prop :=
  (hval h p < 0 -> peq a p /\ hval h b == 0) /\
  (0 < hval h p -> peq b p /\ hval h a == 0) /\
  (hval h p == 0 -> peq a p /\ peq b p).

(* the most recent point on the cutting line *)
Definition mk (h : hp) (a b p : pt) : pt := if inside h p then b else a.

Lemma finish (n c S B E : Q) : S == 0 -> n * B == c * E -> n * (S + B) == c * E.
Proof. intros H1 H2. rewrite H1, <- H2. ring. Qed.

Lemma edge_step h a b p c : cons_st h a b p ->
  cons_st h (last (block h p c) a) (last (block (negh h) p c) b) c /\
  n2 h * (path_sum (a :: block h p c) + path_sum (b :: block (negh h) p c) - cross p c)
  == cst h * (dL h (mk h (last (block h p c) a) (last (block (negh h) p c) b) c) - dL h (mk h a b p)).
Proof.
  intros [CL [CG CE]]. unfold block, mk.
  destruct (Q_dec (hval h p) 0) as [[Lp|Gp]|Ep]; destruct (Q_dec (hval h c) 0) as [[Lc|Gc]|Ec].
  - (* in, in *)
    destruct (ins_lt h p Lp) as [-> ->]. destruct (ins_lt h c Lc) as [-> ->]. destruct (CL Lp) as [Ha Hb].
    cbn [last]. split.
    + repeat split; intros; try lra; try reflexivity; assumption.
    + rewrite path_sum_cons2. change (path_sum [c]) with 0. change (path_sum [b]) with 0. rewrite Ha. ring.
  - (* in, out *)
    destruct (ins_lt h p Lp) as [-> ->]. destruct (ins_gt h c Gc) as [-> ->]. destruct (CL Lp) as [Ha Hb].
    assert (~ hval h p - hval h c == 0) as Hne by lra.
    cbn [last]. split.
    + repeat split; intros; try lra; try reflexivity. apply inter_on_line. exact Hne.
    + rewrite !path_sum_cons2. change (path_sum [inter h p c]) with 0. change (path_sum [c]) with 0.
      rewrite (inter_negh h p c Hne), Ha.
      pose proof (inter_collinear h p c Hne) as K.
      pose proof (line_cross h b (inter h p c) Hb (inter_on_line h p c Hne)) as Lid.
      setoid_replace (cross p (inter h p c) + 0 + (cross b (inter h p c) + (cross (inter h p c) c + 0)) - cross p c)
        with ((cross p (inter h p c) + cross (inter h p c) c - cross p c) + cross b (inter h p c)) by ring.
      apply finish; [lra | exact Lid].
  - (* in, on *)
    destruct (ins_lt h p Lp) as [-> ->]. destruct (ins_eq h c Ec) as [-> ->]. destruct (CL Lp) as [Ha Hb].
    assert (peq (inter (negh h) p c) c) as HX.
    { apply inter_at_e; rewrite hval_negh; [lra | intros C; lra]. }
    cbn [last]. split.
    + repeat split; intros; try lra; reflexivity.
    + rewrite !path_sum_cons2. change (path_sum [c]) with 0. rewrite HX, Ha.
      pose proof (line_cross h b c Hb Ec) as Lid.
      assert (cross c c == 0) as Z by (unfold cross; ring).
      setoid_replace (cross p c + 0 + (cross b c + (cross c c + 0)) - cross p c) with (cross c c + cross b c) by ring.
      apply finish; [exact Z | exact Lid].
  - (* out, in *)
    destruct (ins_gt h p Gp) as [-> ->]. destruct (ins_lt h c Lc) as [-> ->]. destruct (CG Gp) as [Hb Ha].
    assert (~ hval h p - hval h c == 0) as Hne by lra.
    cbn [last]. split.
    + repeat split; intros; try lra; try reflexivity. rewrite (inter_negh h p c Hne). apply inter_on_line. exact Hne.
    + rewrite !path_sum_cons2. change (path_sum [inter (negh h) p c]) with 0. change (path_sum [c]) with 0.
      rewrite (inter_negh h p c Hne), Hb.
      pose proof (inter_collinear h p c Hne) as K.
      pose proof (line_cross h a (inter h p c) Ha (inter_on_line h p c Hne)) as Lid.
      setoid_replace (cross a (inter h p c) + (cross (inter h p c) c + 0) + (cross p (inter h p c) + 0) - cross p c)
        with ((cross p (inter h p c) + cross (inter h p c) c - cross p c) + cross a (inter h p c)) by ring.
      apply finish; [lra | exact Lid].
  - (* out, out *)
    destruct (ins_gt h p Gp) as [-> ->]. destruct (ins_gt h c Gc) as [-> ->]. destruct (CG Gp) as [Hb Ha].
    cbn [last]. split.
    + repeat split; intros; try lra; try reflexivity; assumption.
    + rewrite path_sum_cons2. change (path_sum [c]) with 0. change (path_sum [a]) with 0. rewrite Hb. ring.
  - (* out, on *)
    destruct (ins_gt h p Gp) as [-> ->]. destruct (ins_eq h c Ec) as [-> ->]. destruct (CG Gp) as [Hb Ha].
    assert (peq (inter h p c) c) as HX by (apply inter_at_e; [exact Ec | lra]).
    cbn [last]. split.
    + repeat split; intros; try lra; reflexivity.
    + rewrite !path_sum_cons2. change (path_sum [c]) with 0. rewrite HX, Hb.
      pose proof (line_cross h a c Ha Ec) as Lid.
      assert (cross c c == 0) as Z by (unfold cross; ring).
      setoid_replace (cross a c + (cross c c + 0) + (cross p c + 0) - cross p c) with (cross c c + cross a c) by ring.
      apply finish; [exact Z | exact Lid].
  - (* on, in *)
    destruct (ins_eq h p Ep) as [-> ->]. destruct (ins_lt h c Lc) as [-> ->]. destruct (CE Ep) as [Ha Hb].
    assert (peq (inter (negh h) p c) p) as HX.
    { apply inter_at_s; rewrite hval_negh; [lra | intros C; lra]. }
    cbn [last]. split.
    + repeat split; intros; try lra; try reflexivity. rewrite HX. exact Ep.
    + rewrite !path_sum_cons2. change (path_sum [c]) with 0. change (path_sum [inter (negh h) p c]) with 0.
      rewrite HX, Ha, Hb. unfold cross. ring.
  - (* on, out *)
    destruct (ins_eq h p Ep) as [-> ->]. destruct (ins_gt h c Gc) as [-> ->]. destruct (CE Ep) as [Ha Hb].
    assert (peq (inter h p c) p) as HX by (apply inter_at_s; [exact Ep | lra]).
    cbn [last]. split.
    + repeat split; intros; try lra; try reflexivity. rewrite HX. exact Ep.
    + rewrite !path_sum_cons2. change (path_sum [c]) with 0. change (path_sum [inter h p c]) with 0.
      rewrite HX, Ha, Hb. unfold cross. ring.
  - (* on, on *)
    destruct (ins_eq h p Ep) as [-> ->]. destruct (ins_eq h c Ec) as [-> ->]. destruct (CE Ep) as [Ha Hb].
    cbn [last]. split.
    + repeat split; intros; try lra; reflexivity.
    + rewrite !path_sum_cons2. change (path_sum [c]) with 0. rewrite Ha, Hb.
      pose proof (line_cross h p c Ep Ec) as Lid.
      setoid_replace (cross p c + 0 + (cross p c + 0) - cross p c) with (0 + cross p c) by ring.
      apply finish; [reflexivity | exact Lid].
Qed.

(* ---------- the whole pass ---------- *)
Lemma pass_invariant h : forall l a b p, cons_st h a b p ->
  cons_st h (last (clip_edges h p l) a) (last (clip_edges (negh h) p l) b) (last l p) /\
  n2 h * (path_sum (a :: clip_edges h p l) + path_sum (b :: clip_edges (negh h) p l) - path_sum (p :: l))
  == cst h * (dL h (mk h (last (clip_edges h p l) a) (last (clip_edges (negh h) p l) b) (last l p)) - dL h (mk h a b p)).
Proof.
  induction l as [|c r IH]; intros a b p Hc.
  - simpl clip_edges. cbn [last]. split; [exact Hc|]. change (path_sum [a]) with 0. change (path_sum [b]) with 0.
    change (path_sum [p]) with 0. ring.
  - rewrite !clip_edges_cons, !last_app_d, last_cons.
    destruct (edge_step h a b p c Hc) as [Hc1 E1].
    destruct (IH _ _ c Hc1) as [Hc2 E2].
    split; [exact Hc2|].
    rewrite !path_sum_app, path_sum_cons2.
    set (a1 := last (block h p c) a) in *. set (b1 := last (block (negh h) p c) b) in *.
    set (OH := clip_edges h c r) in *. set (ON := clip_edges (negh h) c r) in *.
    setoid_replace (path_sum (a :: block h p c) + path_sum (a1 :: OH) + (path_sum (b :: block (negh h) p c) + path_sum (b1 :: ON))
                    - (cross p c + path_sum (c :: r)))
      with ((path_sum (a :: block h p c) + path_sum (b :: block (negh h) p c) - cross p c)
            + (path_sum (a1 :: OH) + path_sum (b1 :: ON) - path_sum (c :: r))) by ring.
    rewrite Qmult_plus_distr_r, E1, E2. ring.
Qed.

(* ---------- additivity ---------- *)
Lemma point_on_line h : ~ n2 h == 0 -> exists m : pt, hval h m == 0.
Proof.
  destruct h as [[a b] c]. unfold n2, hval. intros Hn.
  exists (c * a / (a * a + b * b), c * b / (a * a + b * b)). cbn [fst snd]. field. exact Hn.
Qed.

Theorem clip_area_additive h l : ~ n2 h == 0 ->
  shoelace2 (clip h l) + shoelace2 (clip (negh h) l) == shoelace2 l.
Proof.
  intros Hn. destruct l as [|v r]; [reflexivity|].
  change (clip h (v :: r)) with (clip_edges h (last (v :: r) v) (v :: r)).
  change (clip (negh h) (v :: r)) with (clip_edges (negh h) (last (v :: r) v) (v :: r)).
  set (l := v :: r). set (p0 := last l v).
  (* a point on the line, and a consistent start state *)
  destruct (point_on_line h Hn) as [m0 Hm0].
  set (a1 := if Qle_bool (hval h p0) 0 then p0 else m0).
  set (b1 := if Qle_bool 0 (hval h p0) then p0 else m0).
  assert (cons_st h a1 b1 p0) as C1.
  { unfold a1, b1. split; [|split]; intros Hp; split.
    - assert (Qle_bool (hval h p0) 0 = true) as -> by (apply Qle_bool_iff; lra). reflexivity.
    - destruct (Qle_bool 0 (hval h p0)) eqn:E; [apply Qle_bool_iff in E; lra | exact Hm0].
    - assert (Qle_bool 0 (hval h p0) = true) as -> by (apply Qle_bool_iff; lra). reflexivity.
    - destruct (Qle_bool (hval h p0) 0) eqn:E; [apply Qle_bool_iff in E; lra | exact Hm0].
    - assert (Qle_bool (hval h p0) 0 = true) as -> by (apply Qle_bool_iff; lra). reflexivity.
    - assert (Qle_bool 0 (hval h p0) = true) as -> by (apply Qle_bool_iff; lra). reflexivity. }
  destruct (pass_invariant h l a1 b1 p0 C1) as [C2 _].
  assert (last l p0 = p0) as Lp by (unfold p0; apply last_last).
  rewrite Lp in C2.
  destruct (pass_invariant h l _ _ p0 C2) as [_ E].
  rewrite Lp, !last_last in E.
  assert (n2 h * (shoelace2 (clip_edges h p0 l) + shoelace2 (clip_edges (negh h) p0 l) - shoelace2 l) == 0) as Z.
  { rewrite (shoelace2_path (clip_edges h p0 l) a1), (shoelace2_path (clip_edges (negh h) p0 l) b1), (shoelace2_path l v).
    fold p0. rewrite E. ring. }
  apply Qmult_integral in Z. destruct Z as [Z|Z]; [contradiction | lra].
Qed.

Theorem clip_area_additive_abs h l :
  ~ n2 h == 0 -> 0 <= shoelace2 (clip h l) -> 0 <= shoelace2 (clip (negh h) l) ->
  area (clip h l) + area (clip (negh h) l) == area l.
Proof.
  intros Hn H1 H2. pose proof (clip_area_additive h l Hn) as A. unfold area.
  rewrite (Qabs_pos _ H1), (Qabs_pos _ H2), (Qabs_pos (shoelace2 l)) by lra. rewrite <- A. field.
Qed.

(* ---------- the cell construction is a dissection of the start box ---------- *)
(* the pieces cut off, one per other site *)
Fixpoint discarded (box : list pt) (p : pt) (others : list pt) : list (list pt) :=
  match others with
  | [] => []
  | q :: r => clip (negh (bisector p q)) box :: discarded (clip (bisector p q) box) p r
  end.

Lemma cell_poly_cons box p q r : cell_poly box p (q :: r) = cell_poly (clip (bisector p q) box) p r.
Proof. reflexivity. Qed.

Lemma n2_bisector p q : ~ peq p q -> ~ n2 (bisector p q) == 0.
Proof.
  unfold peq, n2, bisector. intros Hne C. apply Hne.
  set (d1 := fst q - fst p) in *. set (d2 := snd q - snd p) in *.
  assert (d1 * d1 + d2 * d2 == 0) as K by lra.
  assert (0 <= d1 * d1) as S1 by (destruct (Qlt_le_dec d1 0); nra).
  assert (0 <= d2 * d2) as S2 by (destruct (Qlt_le_dec d2 0); nra).
  assert (d1 == 0) as Z1 by (destruct (Q_dec d1 0) as [[L|G]|E]; [nra | nra | exact E]).
  assert (d2 == 0) as Z2 by (destruct (Q_dec d2 0) as [[L|G]|E]; [nra | nra | exact E]).
  unfold d1, d2 in *. split; lra.
Qed.

Definition qsum2 (l : list Q) : Q := fold_right Qplus 0 l.

(* signed area of the box = signed area of the kept polygon + signed areas of all pieces cut off *)
Theorem cell_poly_dissection p others : forall box, (forall q, In q others -> ~ peq p q) ->
  shoelace2 box == shoelace2 (cell_poly box p others) + qsum2 (map shoelace2 (discarded box p others)).
Proof.
  induction others as [|q r IH]; intros box Hne.
  - simpl. unfold cell_poly. simpl. ring.
  - rewrite cell_poly_cons.
    change (qsum2 (map shoelace2 (discarded box p (q :: r))))
      with (shoelace2 (clip (negh (bisector p q)) box) + qsum2 (map shoelace2 (discarded (clip (bisector p q) box) p r))).
    rewrite <- (clip_area_additive (bisector p q) box) by (apply n2_bisector, Hne; left; reflexivity).
    rewrite (IH (clip (bisector p q) box)) at 1 by (intros q' Hq'; apply Hne; right; exact Hq'). ring.
Qed.

(* every piece cut off lies on the far side of the bisector that cut it (no nearer to p than to that site), and keeps
   every constraint of the polygon it was cut from *)
Theorem discarded_far p others : forall box D, In D (discarded box p others) ->
  exists q, In q others /\ Forall (fun x => dist2 x q <= dist2 x p) D.
Proof.
  induction others as [|q r IH]; intros box D HD; [destruct HD|].
  simpl in HD. destruct HD as [<-|HD].
  - exists q. split; [left; reflexivity|].
    pose proof (clip_self (negh (bisector p q)) box) as H. eapply Forall_impl; [|exact H].
    intros x Hx. unfold sat in Hx. rewrite hval_negh, bisector_dist in Hx. lra.
  - destruct (IH _ D HD) as [q' [Hq' HF]]. exists q'. split; [right; exact Hq' | exact HF].
Qed.

Theorem discarded_in_box g p others : forall box D, Forall (sat g) box -> In D (discarded box p others) -> Forall (sat g) D.
Proof.
  induction others as [|q r IH]; intros box D Hb HD; [destruct HD|].
  simpl in HD. destruct HD as [<-|HD].
  - apply clip_keep. exact Hb.
  - apply (IH (clip (bisector p q) box)); [apply clip_keep; exact Hb | exact HD].
Qed.
