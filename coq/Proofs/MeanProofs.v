(* C12 - Rotation.mean: the code forms K = sum_i w_i q_i q_i^T (k = (weights * Q^T) @ Q) and returns the eigenvector of the largest
   eigenvalue (torch.linalg.eigh, the last column).  Proved about K, for every number of rotations and every commutative ring:
   K does not change when any q_i is replaced by -q_i (the mean does not depend on the q ~ -q ambiguity), and when all rotations are the
   same one (up to sign) K = (sum w) q q^T: K q = (sum w) |q|^2 q and K x = 0 for every x orthogonal to q - so for positive total weight
   q spans the eigenspace of the only non-zero (hence largest) eigenvalue and the mean is that rotation.  The eigen-decomposition itself
   (torch.linalg.eigh) is an oracle; general means are decided against scipy. *)
From MrVerif Require Import Base.Prelude Base.StarRing Model.Rotation Proofs.RotationProofs.
Local Open Scope nat_scope.

Section Mean.
  Variable R : StarRing.
  Add Ring RrM : (k_ring R).
  Local Open Scope K_scope.
  Notation quat := (quat R).

  Definition qcomp (i : nat) (q : quat) : R := match i with 0%nat => q0 q | 1%nat => q1 q | 2%nat => q2 q | _ => q3 q end.
  Definition qdot (p q : quat) : R := q0 p * q0 q + q1 p * q1 q + q2 p * q2 q + q3 p * q3 q.

  (* K_{ab} = sum_i w_i (q_i)_a (q_i)_b *)
  Fixpoint kmat (l : list (R * quat)) (a b : nat) : R :=
    match l with [] => k0 | (w, q) :: r => w * qcomp a q * qcomp b q + kmat r a b end.
  (* (K x)_a *)
  Definition kapply (l : list (R * quat)) (x : quat) (a : nat) : R :=
    kmat l a 0 * q0 x + kmat l a 1 * q1 x + kmat l a 2 * q2 x + kmat l a 3 * q3 x.
  Fixpoint wsum (l : list (R * quat)) : R := match l with [] => k0 | (w, _) :: r => w + wsum r end.

  Definition qneg (q : quat) : quat := (- q0 q, - q1 q, - q2 q, - q3 q).
  (* flip the sign of the quaternions selected by the boolean list *)
  Fixpoint flip (s : list bool) (l : list (R * quat)) : list (R * quat) :=
    match s, l with
    | b :: s', (w, q) :: r => (w, if b then qneg q else q) :: flip s' r
    | _, _ => l
    end.

  Lemma qcomp_neg a q : qcomp a (qneg q) = - qcomp a q.
  Proof. destruct a as [|[|[|a]]]; destruct q as [[[x y] z] w]; reflexivity. Qed.

  Theorem kmat_sign_invariant s l a b : kmat (flip s l) a b = kmat l a b.
  Proof.
    revert s. induction l as [|[w q] r IH]; intros [|[|] s]; cbn [flip kmat]; try reflexivity.
    - rewrite !qcomp_neg, IH. ring.
    - rewrite IH. reflexivity.
  Qed.

  (* all rotations equal to q up to sign *)
  Definition all_pm (q : quat) (l : list (R * quat)) : Prop := Forall (fun wq => snd wq = q \/ snd wq = qneg q) l.

  Lemma kmat_identical q l a b : all_pm q l -> kmat l a b = wsum l * qcomp a q * qcomp b q.
  Proof.
    induction 1 as [|[w p] r Hp _ IH]; cbn [kmat wsum]; [ring|]. rewrite IH. cbn [snd] in Hp.
    destruct Hp as [->| ->]; [ring|]. rewrite !qcomp_neg. ring.
  Qed.

  Theorem mean_identical_eigen q l a : all_pm q l -> (a < 4)%nat -> kapply l q a = wsum l * qdot q q * qcomp a q.
  Proof.
    intros H Ha. unfold kapply. rewrite !(kmat_identical q l) by exact H. unfold qdot. cbn [qcomp]. ring.
  Qed.

  Theorem mean_identical_orthogonal q l x a : all_pm q l -> qdot q x = k0 -> kapply l x a = k0.
  Proof.
    intros H Hx. unfold kapply. rewrite !(kmat_identical q l) by exact H. cbn [qcomp].
    transitivity (wsum l * qcomp a q * qdot q x); [unfold qdot; ring|]. rewrite Hx. ring.
  Qed.
End Mean.
