(* Proofs about Model/MoveData.v (C18). *)
From MrVerif Require Import Base.Prelude Model.MoveData.
Local Open Scope nat_scope.

(* ---------------------------------------------------------------------------------------------- *)
(* lists                                                                                           *)
(* ---------------------------------------------------------------------------------------------- *)
Lemma upd_length h i n : length (upd h i n) = length h.
Proof. revert i; induction h as [|x r IH]; intros [|j]; simpl; auto. Qed.

Lemma nth_error_upd h i n j : i < length h ->
  nth_error (upd h i n) j = if Nat.eqb j i then Some n else nth_error h j.
Proof.
  revert i j; induction h as [|x r IH]; intros i j Hi; simpl in Hi; [lia|].
  destruct i as [|i], j as [|j]; simpl; auto.
  rewrite IH by lia. reflexivity.
Qed.

Lemma nth_error_Some_lt {A} (l : list A) i x : nth_error l i = Some x -> i < length l.
Proof. intros H. apply nth_error_Some. congruence. Qed.

Lemma nth_error_app_old {A} (l e : list A) i x : nth_error l i = Some x -> nth_error (l ++ e) i = Some x.
Proof. intros H. rewrite nth_error_app1; auto. eapply nth_error_Some_lt; eauto. Qed.

Lemma nth_error_snoc {A} (l : list A) x : nth_error (l ++ [x]) (length l) = Some x.
Proof. rewrite nth_error_app2 by lia. now rewrite Nat.sub_diag. Qed.

Lemma Forall2_nth_l {A B} (R : A -> B -> Prop) l l' i a :
  Forall2 R l l' -> nth_error l i = Some a -> exists b, nth_error l' i = Some b /\ R a b.
Proof.
  intros H; revert i; induction H; intros [|i] Hi; simpl in *; try discriminate.
  - injection Hi as <-. eauto.
  - eauto.
Qed.

Lemma Forall2_nth_r {A B} (R : A -> B -> Prop) l l' i b :
  Forall2 R l l' -> nth_error l' i = Some b -> exists a, nth_error l i = Some a /\ R a b.
Proof.
  intros H; revert i; induction H; intros [|i] Hi; simpl in *; try discriminate.
  - injection Hi as <-. eauto.
  - eauto.
Qed.

Lemma Forall2_impl {A B} (R R' : A -> B -> Prop) l l' :
  (forall a b, R a b -> R' a b) -> Forall2 R l l' -> Forall2 R' l l'.
Proof. intros HR H; induction H; constructor; auto. Qed.

Lemma Forall2_refl_eq {A} (R : A -> A -> Prop) l : (forall a, R a a) -> Forall2 R l l.
Proof. intros HR; induction l; constructor; auto. Qed.

(* ---------------------------------------------------------------------------------------------- *)
(* memo                                                                                            *)
(* ---------------------------------------------------------------------------------------------- *)
Definition mext (m m' : list (nat * nat)) : Prop := forall k v, lookup k m = Some v -> lookup k m' = Some v.

Lemma mext_refl m : mext m m. Proof. intros k v H; exact H. Qed.
Lemma mext_trans a b c : mext a b -> mext b c -> mext a c.
Proof. intros H1 H2 k v H; auto. Qed.

Lemma lookup_cons_eq k v m : lookup k ((k, v) :: m) = Some v.
Proof. simpl. now rewrite Nat.eqb_refl. Qed.
Lemma lookup_cons_ne k k' v m : k' <> k -> lookup k ((k', v) :: m) = lookup k m.
Proof. intros H. simpl. destruct (Nat.eqb k' k) eqn:E; auto. apply Nat.eqb_eq in E. contradiction. Qed.

Lemma mext_add k v m : lookup k m = None -> mext m ((k, v) :: m).
Proof.
  intros Hn k' v' H. destruct (Nat.eq_dec k k') as [->|Hne].
  - congruence.
  - now rewrite lookup_cons_ne.
Qed.

(* ---------------------------------------------------------------------------------------------- *)
(* tensors                                                                                         *)
(* ---------------------------------------------------------------------------------------------- *)
Section Conv.
Variable c : cfg.
Variable h0 : heap.     (* the heap before the call *)
Variable nsb : nat.     (* every storage id below nsb may be in use before the call *)

Lemma prec_eqb_eq a b : prec_eqb a b = true <-> a = b.
Proof. destruct a, b; simpl; split; congruence. Qed.

(* t' is t as the call leaves it: same kind, same content, requested precision; fresh storage when copying *)
Definition trel (t t' : tens) : Prop :=
  t_kind t' = t_kind t /\ t_content t' = t_content t /\ t_prec t' = target_prec c t
  /\ (c_copy c = true -> nsb <= t_storage t').
Definition pre (t t1 : tens) : Prop := t1 = t \/ trel t t1.

Definition tstep (s : nat) (t : tens) : tens := if needs_new c t then conv_tens c s t else t.

Lemma target_prec_kind t t' : t_kind t' = t_kind t -> t_prec t' = target_prec c t -> target_prec c t' = target_prec c t.
Proof.
  unfold target_prec, new_dtype. intros -> Hp.
  destruct (c_dtype c) as [d|]; [destruct (t_kind t); simpl; auto|]; simpl; auto.
  all: revert Hp; unfold target_prec, new_dtype; simpl; auto.
Qed.

Lemma trel_tstep_self t s : nsb <= s -> trel t (tstep s t).
Proof.
  intros Hs. unfold tstep, trel. destruct (needs_new c t) eqn:E; simpl.
  - repeat split; auto.
  - unfold needs_new in E. apply orb_false_iff in E as [Ec Ep].
    apply negb_false_iff, prec_eqb_eq in Ep. repeat split; auto. congruence.
Qed.

Lemma trel_tstep t t1 s : trel t t1 -> nsb <= s -> trel t (tstep s t1).
Proof.
  intros (Hk & Hc & Hp & Hs) Hle. pose proof (target_prec_kind t t1 Hk Hp) as Ht.
  unfold tstep. destruct (needs_new c t1) eqn:E; simpl.
  - unfold trel; simpl. repeat split; auto.
  - repeat split; auto.
Qed.

Lemma pre_tstep t t1 s : pre t t1 -> nsb <= s -> trel t (tstep s t1).
Proof. intros [->|H] Hs; [apply trel_tstep_self|eapply trel_tstep]; eauto. Qed.

Lemma conv_module_spec ts : forall ts1 s ts2 s', Forall2 pre ts ts1 -> nsb <= s ->
  conv_module c ts1 s = (ts2, s') -> Forall2 trel ts ts2 /\ s <= s'.
Proof.
  induction ts as [|t r IH]; intros ts1 s ts2 s' HF Hs Hc; inversion HF; subst; simpl in Hc.
  - injection Hc as <- <-. split; [constructor|lia].
  - match goal with H : pre t ?y |- _ => rename H into Hp; rename y into t1 end.
    match goal with H : Forall2 pre r ?l |- _ => rename H into Hr; rename l into r1 end.
    pose proof (pre_tstep t t1 s Hp Hs) as Hstep. unfold tstep in Hstep.
    destruct (needs_new c t1) eqn:E.
    + destruct (conv_module c r1 (S s)) as [r' s1] eqn:Er. injection Hc as <- <-.
      destruct (IH r1 (S s) r' s1 Hr ltac:(lia) Er) as [H1 H2]. split; [constructor; auto|lia].
    + destruct (conv_module c r1 s) as [r' s1] eqn:Er. injection Hc as <- <-.
      destruct (IH r1 s r' s1 Hr Hs Er) as [H1 H2]. split; [constructor; auto|lia].
Qed.

(* ---------------------------------------------------------------------------------------------- *)
(* invariants                                                                                      *)
(* ---------------------------------------------------------------------------------------------- *)
Definition n0 := length h0.

(* how a node of the source heap may look in the current heap *)
Definition node_now (n : node) (cur : option node) : Prop :=
  match n with
  | NModule ts => exists ts1, cur = Some (NModule ts1) /\ Forall2 pre ts ts1
  | _ => cur = Some n
  end.

Record HI (st : state) : Prop := {
  hi_len : n0 <= length (s_heap st);
  hi_old : forall i n, nth_error h0 i = Some n -> node_now n (nth_error (s_heap st) i);
  hi_next : nsb <= s_next st;
  hi_copy : c_copy c = true -> forall i n, nth_error h0 i = Some n -> nth_error (s_heap st) i = Some n
}.

Definition not_module (i : nat) : Prop := forall ts, nth_error h0 i <> Some (NModule ts).

(* how the heap may evolve: everything except the source's module nodes is immutable; converted modules stay converted *)
Record ext (h h' : heap) : Prop := {
  e_len : length h <= length h';
  e_keep : forall i, i < length h -> not_module i -> nth_error h' i = nth_error h i;
  e_mod : forall i ts ts1, nth_error h0 i = Some (NModule ts) -> nth_error h i = Some (NModule ts1) ->
          Forall2 trel ts ts1 -> exists ts2, nth_error h' i = Some (NModule ts2) /\ Forall2 trel ts ts2
}.

Lemma ext_refl h : ext h h.
Proof. constructor; eauto. Qed.

Lemma ext_trans a b d : ext a b -> ext b d -> ext a d.
Proof.
  intros [l1 k1 m1] [l2 k2 m2]. constructor.
  - lia.
  - intros i Hi Hn. rewrite k2 by (auto; lia). now apply k1.
  - intros i ts ts1 H0 H1 HF. destruct (m1 i ts ts1 H0 H1 HF) as (ts2 & H2 & HF2). eauto.
Qed.

Lemma ext_app h e : ext h (h ++ e).
Proof.
  constructor.
  - rewrite app_length; lia.
  - intros i Hi _. now rewrite nth_error_app1.
  - intros i ts ts1 _ H1 HF. exists ts1. split; auto. now apply nth_error_app_old.
Qed.

Lemma ext_keep_some h h' i n : ext h h' -> nth_error h i = Some n -> not_module i -> nth_error h' i = Some n.
Proof. intros E H Hn. rewrite (e_keep _ _ E); auto. eapply nth_error_Some_lt; eauto. Qed.

Lemma not_module_new i : n0 <= i -> not_module i.
Proof.
  intros Hi ts H. apply nth_error_Some_lt in H. unfold n0 in Hi. lia.
Qed.

(* what "y is the converted d" means for tensors, modules and plain objects *)
Definition leaf_good (hp : heap) (d y : nat) : Prop :=
  match nth_error h0 d with
  | Some (NTensor t) => exists t', nth_error hp y = Some (NTensor t') /\ trel t t' /\ (y = d \/ n0 <= y)
                                  /\ (c_copy c = true -> n0 <= y)
  | Some (NModule ts) => exists ts', nth_error hp y = Some (NModule ts') /\ Forall2 trel ts ts' /\ (y = d \/ n0 <= y)
                                    /\ (c_copy c = true -> n0 <= y)
  | Some (NPlain ct m) => nth_error hp y = Some (NPlain ct m) /\ (y = d \/ n0 <= y)
                          /\ (c_copy c = true -> m = true -> n0 <= y)
  | _ => False
  end.

Definition good (M : list (nat * nat)) (hp : heap) (d y : nat) : Prop :=
  match nth_error h0 d with
  | Some (NMixin fs) => exists ys, nth_error hp y = Some (NMixin ys) /\ n0 <= y
                                  /\ Forall2 (fun a b => lookup a M = Some b) fs ys
  | Some (NSpatial fs) => exists ys, nth_error hp y = Some (NSpatial ys) /\ n0 <= y /\ Forall2 (leaf_good hp) fs ys
  | _ => leaf_good hp d y
  end.

Lemma pos_not_module d y : (y = d \/ n0 <= y) -> not_module d -> not_module y.
Proof. intros [->|H] Hn; auto using not_module_new. Qed.

Lemma leaf_good_stable hp hp' d y : leaf_good hp d y -> ext hp hp' -> leaf_good hp' d y.
Proof.
  intros Hg E. unfold leaf_good in *. destruct (nth_error h0 d) as [[t|fs|fs|ts|ct m]|] eqn:E0; auto.
  - destruct Hg as (t' & Hy & Hr & Hpos & Hc). exists t'. split; [|tauto].
    eapply ext_keep_some; eauto. eapply pos_not_module; eauto. intros ts H. congruence.
  - destruct Hg as (ts' & Hy & Hr & Hpos & Hc). destruct Hpos as [->|Hpos].
    + destruct (e_mod _ _ E d ts ts' E0 Hy Hr) as (ts2 & H2 & HF2). exists ts2. split; [auto|]. split; [auto|]. tauto.
    + exists ts'. split; [|tauto]. eapply ext_keep_some; eauto using not_module_new.
  - destruct Hg as (Hy & Hpos & Hc). split; [|tauto].
    eapply ext_keep_some; eauto. eapply pos_not_module; eauto. intros ts H. congruence.
Qed.

Lemma good_stable M M' hp hp' d y : good M hp d y -> ext hp hp' -> mext M M' -> good M' hp' d y.
Proof.
  intros Hg E HM. unfold good in *. destruct (nth_error h0 d) as [[t|fs|fs|ts|ct m]|] eqn:E0;
    try (eapply leaf_good_stable; eauto).
  - destruct Hg as (ys & Hy & Hn & HF). exists ys. split; [|split; [auto|]].
    + eapply ext_keep_some; eauto using not_module_new.
    + eapply Forall2_impl; [|exact HF]. intros a b Hab. simpl in *. auto.
  - destruct Hg as (ys & Hy & Hn & HF). exists ys. split; [|split; [auto|]].
    + eapply ext_keep_some; eauto using not_module_new.
    + eapply Forall2_impl; [|exact HF]. intros a b Hab. eapply leaf_good_stable; eauto.
Qed.

Definition MI (st : state) : Prop := forall d y, lookup d (s_memo st) = Some y -> good (s_memo st) (s_heap st) d y.

(* ---------------------------------------------------------------------------------------------- *)
(* the leaves                                                                                      *)
(* ---------------------------------------------------------------------------------------------- *)
Lemma HI_app st e nx : HI st -> s_next st <= nx -> HI (mkS (s_heap st ++ e) (s_memo st) nx).
Proof.
  intros [l o n cp] Hn. constructor; simpl.
  - rewrite app_length; lia.
  - intros i nd Hi. specialize (o i nd Hi). destruct nd; simpl in *;
      try (now apply nth_error_app_old).
    destruct o as (ts1 & H1 & HF). exists ts1. split; auto. now apply nth_error_app_old.
  - lia.
  - intros Hc i nd Hi. apply nth_error_app_old. auto.
Qed.

Lemma conv_leaf_ok st d nd0 nd y st' :
  HI st -> nth_error h0 d = Some nd0 -> nth_error (s_heap st) d = Some nd ->
  conv_leaf c d nd st = Some (y, st') ->
  HI st' /\ ext (s_heap st) (s_heap st') /\ leaf_good (s_heap st') d y /\ s_memo st' = s_memo st.
Proof.
  intros H Hd0 Hd Hc. pose proof (hi_old _ H _ _ Hd0) as Hnow.
  assert (Hdl : d < n0) by (eapply nth_error_Some_lt; eauto).
  pose proof (hi_len _ H) as Hlen. pose proof (hi_next _ H) as Hnx.
  destruct nd as [t|fs|fs|ts1|ct m]; simpl in Hc; try discriminate.
  - (* tensor *)
    assert (nd0 = NTensor t) as ->.
    { destruct nd0; simpl in Hnow; try congruence. destruct Hnow as (? & ? & _); congruence. }
    destruct (needs_new c t) eqn:En; injection Hc as <- <-.
    + split; [apply HI_app; simpl; auto|]. split; [apply ext_app|]. split; auto.
      unfold leaf_good. rewrite Hd0. cbn [s_heap]. exists (conv_tens c (s_next st) t). rewrite nth_error_snoc.
      split; auto. split; [|split; intros; right + idtac; lia].
      pose proof (trel_tstep_self t (s_next st) Hnx) as Ht. unfold tstep in Ht. now rewrite En in Ht.
    + split; auto. split; [apply ext_refl|]. split; auto.
      unfold leaf_good. rewrite Hd0. exists t. split; auto.
      pose proof (trel_tstep_self t (s_next st) Hnx) as Ht. unfold tstep in Ht. rewrite En in Ht.
      split; auto. split; auto. intros Hcp. unfold needs_new in En. rewrite Hcp in En. discriminate.
  - (* module *)
    destruct nd0 as [?|?|?|ts|? ?]; simpl in Hnow; try congruence.
    destruct Hnow as (ts1' & Heq & Hpre). assert (ts1' = ts1) as -> by congruence.
    destruct (conv_module c ts1 (s_next st)) as [ts2 s2] eqn:Em.
    destruct (conv_module_spec ts ts1 _ _ _ Hpre Hnx Em) as [HF Hs].
    destruct (c_copy c) eqn:Ecp; injection Hc as <- <-.
    + split; [apply HI_app; simpl; auto|]. split; [apply ext_app|]. split; auto.
      unfold leaf_good. rewrite Hd0. cbn [s_heap]. exists ts2. rewrite nth_error_snoc. repeat split; auto; intros; lia.
    + assert (Hdl' : d < length (s_heap st)) by lia.
      split; [|split; [|split]]; simpl; auto.
      * constructor; simpl.
        -- rewrite upd_length. lia.
        -- intros i nd Hi. rewrite nth_error_upd by lia. destruct (Nat.eqb i d) eqn:Ei.
           ++ apply Nat.eqb_eq in Ei. subst i. assert (nd = NModule ts) as -> by congruence. simpl.
              exists ts2. split; auto. eapply Forall2_impl; [|exact HF]. intros; right; auto.
           ++ exact (hi_old _ H _ _ Hi).
        -- lia.
        -- intros Hcp; congruence.
      * constructor.
        -- rewrite upd_length; lia.
        -- intros i Hi Hnm. rewrite nth_error_upd by lia. destruct (Nat.eqb i d) eqn:Ei; auto.
           apply Nat.eqb_eq in Ei. subst i. exfalso. eapply Hnm; eauto.
        -- intros i ts0 ts0' Hi0 Hi1 HF0. rewrite nth_error_upd by lia. destruct (Nat.eqb i d) eqn:Ei; eauto.
           apply Nat.eqb_eq in Ei. subst i. assert (ts0 = ts) as -> by congruence. eauto.
      * unfold leaf_good. rewrite Hd0. cbn [s_heap]. exists ts2. rewrite nth_error_upd by lia. rewrite Nat.eqb_refl.
        split; [auto|]. split; [auto|]. split; [auto|]. intros; congruence.
  - (* plain *)
    assert (nd0 = NPlain ct m) as ->.
    { destruct nd0; simpl in Hnow; try congruence. destruct Hnow as (? & ? & _); congruence. }
    destruct (c_copy c && m) eqn:En; injection Hc as <- <-.
    + split; [apply HI_app; simpl; auto|]. split; [apply ext_app|]. split; auto.
      unfold leaf_good. rewrite Hd0. cbn [s_heap]. rewrite nth_error_snoc. repeat split; auto; intros; lia.
    + split; auto. split; [apply ext_refl|]. split; auto.
      unfold leaf_good. rewrite Hd0. repeat split; auto. intros Hcp Hm. rewrite Hcp, Hm in En. discriminate.
Qed.

(* SpatialDimension: its own memo *)
Lemma leaf_loop_ok fs : forall lm st ys st',
  HI st -> Forall (fun x => exists nd, nth_error h0 x = Some nd) fs ->
  (forall a b, lookup a lm = Some b -> leaf_good (s_heap st) a b) ->
  leaf_loop c fs lm st = Some (ys, st') ->
  HI st' /\ ext (s_heap st) (s_heap st') /\ Forall2 (leaf_good (s_heap st')) fs ys /\ s_memo st' = s_memo st.
Proof.
  induction fs as [|x r IH]; intros lm st ys st' H Hsrc Hlm Hl; simpl in Hl.
  - injection Hl as <- <-. repeat split; auto using ext_refl.
  - inversion Hsrc as [|? ? [nd0 Hx0] Hr]; subst.
    destruct (lookup x lm) as [y|] eqn:El.
    + destruct (leaf_loop c r lm st) as [[ys1 st1]|] eqn:E1; [|discriminate]. injection Hl as <- <-.
      destruct (IH lm st ys1 st1 H Hr Hlm E1) as (H1 & X1 & F1 & M1). repeat split; auto.
      constructor; auto. eapply leaf_good_stable; eauto.
    + destruct (nth_error (s_heap st) x) as [nd|] eqn:Ex; [|discriminate].
      destruct (conv_leaf c x nd st) as [[y st1]|] eqn:Ec; [|discriminate].
      destruct (leaf_loop c r ((x, y) :: lm) st1) as [[ys2 st2]|] eqn:E2; [|discriminate]. injection Hl as <- <-.
      destruct (conv_leaf_ok st x nd0 nd y st1 H Hx0 Ex Ec) as (H1 & X1 & G1 & M1).
      assert (Hlm1 : forall a b, lookup a ((x, y) :: lm) = Some b -> leaf_good (s_heap st1) a b).
      { intros a b Hab. destruct (Nat.eq_dec x a) as [->|Hne].
        - rewrite lookup_cons_eq in Hab. injection Hab as <-. auto.
        - rewrite lookup_cons_ne in Hab by auto. eapply leaf_good_stable; eauto. }
      destruct (IH _ st1 ys2 st2 H1 Hr Hlm1 E2) as (H2 & X2 & F2 & M2).
      split; auto. split; [eapply ext_trans; eauto|]. split; [|congruence].
      constructor; auto. eapply leaf_good_stable; eauto.
Qed.
