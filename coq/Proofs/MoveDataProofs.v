(* Proofs about Model/MoveData.v (C18). *)
From MrVerif Require Import Base.Prelude Model.MoveData.
Local Open Scope nat_scope.

(* ---------------------------------------------------------------------------------------------- *)
(* lists                                                                                           *)
(* ---------------------------------------------------------------------------------------------- *)
Lemma upd_length h i n : length (upd h i n) = length h.
Proof. revert i; induction h as [|x r IH]; intros [|j]; simpl; auto. Qed.

Lemma nth_error_upd h i n j : i < length h ->
  nth_error (upd h i n) j = if Nat.eqb j i then Some n else nth_error h j.
Proof.
  revert i j; induction h as [|x r IH]; intros i j Hi; simpl in Hi; [lia|].
  destruct i as [|i], j as [|j]; simpl; auto.
  rewrite IH by lia. reflexivity.
Qed.

Lemma nth_error_Some_lt {A} (l : list A) i x : nth_error l i = Some x -> i < length l.
Proof. intros H. apply nth_error_Some. congruence. Qed.

Lemma nth_error_app_old {A} (l e : list A) i x : nth_error l i = Some x -> nth_error (l ++ e) i = Some x.
Proof. intros H. rewrite nth_error_app1; auto. eapply nth_error_Some_lt; eauto. Qed.

Lemma nth_error_snoc {A} (l : list A) x : nth_error (l ++ [x]) (length l) = Some x.
Proof. rewrite nth_error_app2 by lia. now rewrite Nat.sub_diag. Qed.

Lemma Forall2_nth_l {A B} (R : A -> B -> Prop) l l' i a :
  Forall2 R l l' -> nth_error l i = Some a -> exists b, nth_error l' i = Some b /\ R a b.
Proof.
  intros H; revert i; induction H; intros [|i] Hi; simpl in *; try discriminate.
  - injection Hi as <-. eauto.
  - eauto.
Qed.

Lemma Forall2_nth_r {A B} (R : A -> B -> Prop) l l' i b :
  Forall2 R l l' -> nth_error l' i = Some b -> exists a, nth_error l i = Some a /\ R a b.
Proof.
  intros H; revert i; induction H; intros [|i] Hi; simpl in *; try discriminate.
  - injection Hi as <-. eauto.
  - eauto.
Qed.

Lemma Forall2_impl {A B} (R R' : A -> B -> Prop) l l' :
  (forall a b, R a b -> R' a b) -> Forall2 R l l' -> Forall2 R' l l'.
Proof. intros HR H; induction H; constructor; auto. Qed.

Lemma Forall2_refl_eq {A} (R : A -> A -> Prop) l : (forall a, R a a) -> Forall2 R l l.
Proof. intros HR; induction l; constructor; auto. Qed.

(* ---------------------------------------------------------------------------------------------- *)
(* memo                                                                                            *)
(* ---------------------------------------------------------------------------------------------- *)
Definition mext (m m' : list (nat * nat)) : Prop := forall k v, lookup k m = Some v -> lookup k m' = Some v.

Lemma mext_refl m : mext m m. Proof. intros k v H; exact H. Qed.
Lemma mext_trans a b c : mext a b -> mext b c -> mext a c.
Proof. intros H1 H2 k v H; auto. Qed.

Lemma lookup_cons_eq k v m : lookup k ((k, v) :: m) = Some v.
Proof. simpl. now rewrite Nat.eqb_refl. Qed.
Lemma lookup_cons_ne k k' v m : k' <> k -> lookup k ((k', v) :: m) = lookup k m.
Proof. intros H. simpl. destruct (Nat.eqb k' k) eqn:E; auto. apply Nat.eqb_eq in E. contradiction. Qed.

Lemma mext_add k v m : lookup k m = None -> mext m ((k, v) :: m).
Proof.
  intros Hn k' v' H. destruct (Nat.eq_dec k k') as [->|Hne].
  - congruence.
  - now rewrite lookup_cons_ne.
Qed.

(* ---------------------------------------------------------------------------------------------- *)
(* tensors                                                                                         *)
(* ---------------------------------------------------------------------------------------------- *)
Section Conv.
Variable c : cfg.
Variable h0 : heap.     (* the heap before the call *)
Variable nsb : nat.     (* every storage id below nsb may be in use before the call *)

Lemma prec_eqb_eq a b : prec_eqb a b = true <-> a = b.
Proof. destruct a, b; simpl; split; congruence. Qed.

(* t' is t as the call leaves it: same kind, same content, requested precision; fresh storage when copying *)
Definition trel (t t' : tens) : Prop :=
  t_kind t' = t_kind t /\ t_content t' = t_content t /\ t_prec t' = target_prec c t
  /\ (c_copy c = true -> nsb <= t_storage t').
Definition pre (t t1 : tens) : Prop := t1 = t \/ trel t t1.

Definition tstep (s : nat) (t : tens) : tens := if needs_new c t then conv_tens c s t else t.

Lemma target_prec_kind t t' : t_kind t' = t_kind t -> t_prec t' = target_prec c t -> target_prec c t' = target_prec c t.
Proof.
  unfold target_prec, new_dtype. intros -> Hp.
  destruct (c_dtype c) as [d|]; [destruct (t_kind t); simpl; auto|]; simpl; auto.
  all: revert Hp; unfold target_prec, new_dtype; simpl; auto.
Qed.

Lemma trel_tstep_self t s : nsb <= s -> trel t (tstep s t).
Proof.
  intros Hs. unfold tstep, trel. destruct (needs_new c t) eqn:E; simpl.
  - repeat split; auto.
  - unfold needs_new in E. apply orb_false_iff in E as [Ec Ep].
    apply negb_false_iff, prec_eqb_eq in Ep. repeat split; auto. congruence.
Qed.

Lemma trel_tstep t t1 s : trel t t1 -> nsb <= s -> trel t (tstep s t1).
Proof.
  intros (Hk & Hc & Hp & Hs) Hle. pose proof (target_prec_kind t t1 Hk Hp) as Ht.
  unfold tstep. destruct (needs_new c t1) eqn:E; simpl.
  - unfold trel; simpl. repeat split; auto.
  - repeat split; auto.
Qed.

Lemma pre_tstep t t1 s : pre t t1 -> nsb <= s -> trel t (tstep s t1).
Proof. intros [->|H] Hs; [apply trel_tstep_self|eapply trel_tstep]; eauto. Qed.

Lemma conv_module_spec ts : forall ts1 s ts2 s', Forall2 pre ts ts1 -> nsb <= s ->
  conv_module c ts1 s = (ts2, s') -> Forall2 trel ts ts2 /\ s <= s'.
Proof.
  induction ts as [|t r IH]; intros ts1 s ts2 s' HF Hs Hc; inversion HF; subst; simpl in Hc.
  - injection Hc as <- <-. split; [constructor|lia].
  - match goal with H : pre t ?y |- _ => rename H into Hp; rename y into t1 end.
    match goal with H : Forall2 pre r ?l |- _ => rename H into Hr; rename l into r1 end.
    pose proof (pre_tstep t t1 s Hp Hs) as Hstep. unfold tstep in Hstep.
    destruct (needs_new c t1) eqn:E.
    + destruct (conv_module c r1 (S s)) as [r' s1] eqn:Er. injection Hc as <- <-.
      destruct (IH r1 (S s) r' s1 Hr ltac:(lia) Er) as [H1 H2]. split; [constructor; auto|lia].
    + destruct (conv_module c r1 s) as [r' s1] eqn:Er. injection Hc as <- <-.
      destruct (IH r1 s r' s1 Hr Hs Er) as [H1 H2]. split; [constructor; auto|lia].
Qed.

(* ---------------------------------------------------------------------------------------------- *)
(* invariants                                                                                      *)
(* ---------------------------------------------------------------------------------------------- *)
Definition n0 := length h0.

(* how a node of the source heap may look in the current heap *)
Definition node_now (n : node) (cur : option node) : Prop :=
  match n with
  | NModule ts => exists ts1, cur = Some (NModule ts1) /\ Forall2 pre ts ts1
  | _ => cur = Some n
  end.

Record HI (st : state) : Prop := {
  hi_len : n0 <= length (s_heap st);
  hi_old : forall i n, nth_error h0 i = Some n -> node_now n (nth_error (s_heap st) i);
  hi_next : nsb <= s_next st;
  hi_copy : c_copy c = true -> forall i n, nth_error h0 i = Some n -> nth_error (s_heap st) i = Some n
}.

Definition not_module (i : nat) : Prop := forall ts, nth_error h0 i <> Some (NModule ts).

(* how the heap may evolve: everything except the source's module nodes is immutable; converted modules stay converted *)
Record ext (h h' : heap) : Prop := {
  e_len : length h <= length h';
  e_keep : forall i, i < length h -> not_module i -> nth_error h' i = nth_error h i;
  e_mod : forall i ts ts1, nth_error h0 i = Some (NModule ts) -> nth_error h i = Some (NModule ts1) ->
          Forall2 trel ts ts1 -> exists ts2, nth_error h' i = Some (NModule ts2) /\ Forall2 trel ts ts2
}.

Lemma ext_refl h : ext h h.
Proof. constructor; eauto. Qed.

Lemma ext_trans a b d : ext a b -> ext b d -> ext a d.
Proof.
  intros [l1 k1 m1] [l2 k2 m2]. constructor.
  - lia.
  - intros i Hi Hn. rewrite k2 by (auto; lia). now apply k1.
  - intros i ts ts1 H0 H1 HF. destruct (m1 i ts ts1 H0 H1 HF) as (ts2 & H2 & HF2). eauto.
Qed.

Lemma ext_app h e : ext h (h ++ e).
Proof.
  constructor.
  - rewrite app_length; lia.
  - intros i Hi _. now rewrite nth_error_app1.
  - intros i ts ts1 _ H1 HF. exists ts1. split; auto. now apply nth_error_app_old.
Qed.

Lemma ext_keep_some h h' i n : ext h h' -> nth_error h i = Some n -> not_module i -> nth_error h' i = Some n.
Proof. intros E H Hn. rewrite (e_keep _ _ E); auto. eapply nth_error_Some_lt; eauto. Qed.

Lemma not_module_new i : n0 <= i -> not_module i.
Proof.
  intros Hi ts H. apply nth_error_Some_lt in H. unfold n0 in Hi. lia.
Qed.

(* what "y is the converted d" means for tensors, modules and plain objects *)
Definition leaf_good (hp : heap) (d y : nat) : Prop :=
  match nth_error h0 d with
  | Some (NTensor t) => exists t', nth_error hp y = Some (NTensor t') /\ trel t t' /\ (y = d \/ n0 <= y)
                                  /\ (c_copy c = true -> n0 <= y)
  | Some (NModule ts) => exists ts', nth_error hp y = Some (NModule ts') /\ Forall2 trel ts ts' /\ (y = d \/ n0 <= y)
                                    /\ (c_copy c = true -> n0 <= y)
  | Some (NPlain ct m) => nth_error hp y = Some (NPlain ct m) /\ (y = d \/ n0 <= y)
                          /\ (c_copy c = true -> m = true -> n0 <= y)
  | _ => False
  end.

Definition good (M : list (nat * nat)) (hp : heap) (d y : nat) : Prop :=
  match nth_error h0 d with
  | Some (NMixin fs) => exists ys, nth_error hp y = Some (NMixin ys) /\ n0 <= y
                                  /\ Forall2 (fun a b => lookup a M = Some b) fs ys
  | Some (NSpatial fs) => exists ys, nth_error hp y = Some (NSpatial ys) /\ n0 <= y /\ Forall2 (leaf_good hp) fs ys
  | _ => leaf_good hp d y
  end.

Lemma pos_not_module d y : (y = d \/ n0 <= y) -> not_module d -> not_module y.
Proof. intros [->|H] Hn; auto using not_module_new. Qed.

Lemma leaf_good_stable hp hp' d y : leaf_good hp d y -> ext hp hp' -> leaf_good hp' d y.
Proof.
  intros Hg E. unfold leaf_good in *. destruct (nth_error h0 d) as [[t|fs|fs|ts|ct m]|] eqn:E0; auto.
  - destruct Hg as (t' & Hy & Hr & Hpos & Hc). exists t'. split; [|tauto].
    eapply ext_keep_some; eauto. eapply pos_not_module; eauto. intros ts H. congruence.
  - destruct Hg as (ts' & Hy & Hr & Hpos & Hc). destruct Hpos as [->|Hpos].
    + destruct (e_mod _ _ E d ts ts' E0 Hy Hr) as (ts2 & H2 & HF2). exists ts2. split; [auto|]. split; [auto|]. tauto.
    + exists ts'. split; [|tauto]. eapply ext_keep_some; eauto using not_module_new.
  - destruct Hg as (Hy & Hpos & Hc). split; [|tauto].
    eapply ext_keep_some; eauto. eapply pos_not_module; eauto. intros ts H. congruence.
Qed.

Lemma good_stable M M' hp hp' d y : good M hp d y -> ext hp hp' -> mext M M' -> good M' hp' d y.
Proof.
  intros Hg E HM. unfold good in *. destruct (nth_error h0 d) as [[t|fs|fs|ts|ct m]|] eqn:E0;
    try (eapply leaf_good_stable; eauto).
  - destruct Hg as (ys & Hy & Hn & HF). exists ys. split; [|split; [auto|]].
    + eapply ext_keep_some; eauto using not_module_new.
    + eapply Forall2_impl; [|exact HF]. intros a b Hab. simpl in *. auto.
  - destruct Hg as (ys & Hy & Hn & HF). exists ys. split; [|split; [auto|]].
    + eapply ext_keep_some; eauto using not_module_new.
    + eapply Forall2_impl; [|exact HF]. intros a b Hab. eapply leaf_good_stable; eauto.
Qed.

Definition MI (st : state) : Prop := forall d y, lookup d (s_memo st) = Some y -> good (s_memo st) (s_heap st) d y.

(* ---------------------------------------------------------------------------------------------- *)
(* the leaves                                                                                      *)
(* ---------------------------------------------------------------------------------------------- *)
Lemma HI_app st e nx : HI st -> s_next st <= nx -> HI (mkS (s_heap st ++ e) (s_memo st) nx).
Proof.
  intros [l o n cp] Hn. constructor; simpl.
  - rewrite app_length; lia.
  - intros i nd Hi. specialize (o i nd Hi). destruct nd; simpl in *;
      try (now apply nth_error_app_old).
    destruct o as (ts1 & H1 & HF). exists ts1. split; auto. now apply nth_error_app_old.
  - lia.
  - intros Hc i nd Hi. apply nth_error_app_old. auto.
Qed.

Lemma conv_leaf_ok st d nd0 nd y st' :
  HI st -> nth_error h0 d = Some nd0 -> nth_error (s_heap st) d = Some nd ->
  conv_leaf c d nd st = Some (y, st') ->
  HI st' /\ ext (s_heap st) (s_heap st') /\ leaf_good (s_heap st') d y /\ s_memo st' = s_memo st.
Proof.
  intros H Hd0 Hd Hc. pose proof (hi_old _ H _ _ Hd0) as Hnow.
  assert (Hdl : d < n0) by (eapply nth_error_Some_lt; eauto).
  pose proof (hi_len _ H) as Hlen. pose proof (hi_next _ H) as Hnx.
  destruct nd as [t|fs|fs|ts1|ct m]; simpl in Hc; try discriminate.
  - (* tensor *)
    assert (nd0 = NTensor t) as ->.
    { destruct nd0; simpl in Hnow; try congruence. destruct Hnow as (? & ? & _); congruence. }
    destruct (needs_new c t) eqn:En; injection Hc as <- <-.
    + split; [apply HI_app; simpl; auto|]. split; [apply ext_app|]. split; auto.
      unfold leaf_good. rewrite Hd0. cbn [s_heap]. exists (conv_tens c (s_next st) t). rewrite nth_error_snoc.
      split; auto. split; [|split; intros; right + idtac; lia].
      pose proof (trel_tstep_self t (s_next st) Hnx) as Ht. unfold tstep in Ht. now rewrite En in Ht.
    + split; auto. split; [apply ext_refl|]. split; auto.
      unfold leaf_good. rewrite Hd0. exists t. split; auto.
      pose proof (trel_tstep_self t (s_next st) Hnx) as Ht. unfold tstep in Ht. rewrite En in Ht.
      split; auto. split; auto. intros Hcp. unfold needs_new in En. rewrite Hcp in En. discriminate.
  - (* module *)
    destruct nd0 as [?|?|?|ts|? ?]; simpl in Hnow; try congruence.
    destruct Hnow as (ts1' & Heq & Hpre). assert (ts1' = ts1) as -> by congruence.
    destruct (conv_module c ts1 (s_next st)) as [ts2 s2] eqn:Em.
    destruct (conv_module_spec ts ts1 _ _ _ Hpre Hnx Em) as [HF Hs].
    destruct (c_copy c) eqn:Ecp; injection Hc as <- <-.
    + split; [apply HI_app; simpl; auto|]. split; [apply ext_app|]. split; auto.
      unfold leaf_good. rewrite Hd0. cbn [s_heap]. exists ts2. rewrite nth_error_snoc. repeat split; auto; intros; lia.
    + assert (Hdl' : d < length (s_heap st)) by lia.
      split; [|split; [|split]]; simpl; auto.
      * constructor; simpl.
        -- rewrite upd_length. lia.
        -- intros i nd Hi. rewrite nth_error_upd by lia. destruct (Nat.eqb i d) eqn:Ei.
           ++ apply Nat.eqb_eq in Ei. subst i. assert (nd = NModule ts) as -> by congruence. simpl.
              exists ts2. split; auto. eapply Forall2_impl; [|exact HF]. intros; right; auto.
           ++ exact (hi_old _ H _ _ Hi).
        -- lia.
        -- intros Hcp; congruence.
      * constructor.
        -- rewrite upd_length; lia.
        -- intros i Hi Hnm. rewrite nth_error_upd by lia. destruct (Nat.eqb i d) eqn:Ei; auto.
           apply Nat.eqb_eq in Ei. subst i. exfalso. eapply Hnm; eauto.
        -- intros i ts0 ts0' Hi0 Hi1 HF0. rewrite nth_error_upd by lia. destruct (Nat.eqb i d) eqn:Ei; eauto.
           apply Nat.eqb_eq in Ei. subst i. assert (ts0 = ts) as -> by congruence. eauto.
      * unfold leaf_good. rewrite Hd0. cbn [s_heap]. exists ts2. rewrite nth_error_upd by lia. rewrite Nat.eqb_refl.
        split; [auto|]. split; [auto|]. split; [auto|]. intros; congruence.
  - (* plain *)
    assert (nd0 = NPlain ct m) as ->.
    { destruct nd0; simpl in Hnow; try congruence. destruct Hnow as (? & ? & _); congruence. }
    destruct (c_copy c && m) eqn:En; injection Hc as <- <-.
    + split; [apply HI_app; simpl; auto|]. split; [apply ext_app|]. split; auto.
      unfold leaf_good. rewrite Hd0. cbn [s_heap]. rewrite nth_error_snoc. repeat split; auto; intros; lia.
    + split; auto. split; [apply ext_refl|]. split; auto.
      unfold leaf_good. rewrite Hd0. repeat split; auto. intros Hcp Hm. rewrite Hcp, Hm in En. discriminate.
Qed.

(* SpatialDimension: its own memo *)
Lemma leaf_loop_ok fs : forall lm st ys st',
  HI st -> Forall (fun x => exists nd, nth_error h0 x = Some nd) fs ->
  (forall a b, lookup a lm = Some b -> leaf_good (s_heap st) a b) ->
  leaf_loop c fs lm st = Some (ys, st') ->
  HI st' /\ ext (s_heap st) (s_heap st') /\ Forall2 (leaf_good (s_heap st')) fs ys /\ s_memo st' = s_memo st.
Proof.
  induction fs as [|x r IH]; intros lm st ys st' H Hsrc Hlm Hl; simpl in Hl.
  - injection Hl as <- <-. split; [auto|]. split; [apply ext_refl|]. split; [constructor|reflexivity].
  - inversion Hsrc as [|? ? [nd0 Hx0] Hr]; subst.
    destruct (lookup x lm) as [y|] eqn:El.
    + destruct (leaf_loop c r lm st) as [[ys1 st1]|] eqn:E1; [|discriminate]. injection Hl as <- <-.
      destruct (IH lm st ys1 st1 H Hr Hlm E1) as (H1 & X1 & F1 & M1). split; [auto|]. split; [auto|]. split; [|auto].
      constructor; auto. eapply leaf_good_stable; eauto.
    + destruct (nth_error (s_heap st) x) as [nd|] eqn:Ex; [|discriminate].
      destruct (conv_leaf c x nd st) as [[y st1]|] eqn:Ec; [|discriminate].
      destruct (leaf_loop c r ((x, y) :: lm) st1) as [[ys2 st2]|] eqn:E2; [|discriminate]. injection Hl as <- <-.
      destruct (conv_leaf_ok st x nd0 nd y st1 H Hx0 Ex Ec) as (H1 & X1 & G1 & M1).
      assert (Hlm1 : forall a b, lookup a ((x, y) :: lm) = Some b -> leaf_good (s_heap st1) a b).
      { intros a b Hab. destruct (Nat.eq_dec x a) as [->|Hne].
        - rewrite lookup_cons_eq in Hab. injection Hab as <-. auto.
        - rewrite lookup_cons_ne in Hab by auto. eapply leaf_good_stable; eauto. }
      destruct (IH _ st1 ys2 st2 H1 Hr Hlm1 E2) as (H2 & X2 & F2 & M2).
      split; auto. split; [eapply ext_trans; eauto|]. split; [|congruence].
      constructor; auto. eapply leaf_good_stable; eauto.
Qed.

(* ---------------------------------------------------------------------------------------------- *)
(* the containers                                                                                  *)
(* ---------------------------------------------------------------------------------------------- *)
Hypothesis Hwf : wf_heap h0.

Lemma lt_nth_error {A} (l : list A) i : i < length l -> exists x, nth_error l i = Some x.
Proof. intros H. destruct (nth_error l i) eqn:E; eauto. apply nth_error_None in E. lia. Qed.

Lemma children_src d fs : (nth_error h0 d = Some (NMixin fs) \/ nth_error h0 d = Some (NSpatial fs)) ->
  Forall (fun x => x < d /\ exists nd, nth_error h0 x = Some nd) fs.
Proof.
  intros H. pose proof (Hwf d fs H) as Hlt.
  assert (Hd : d < length h0) by (destruct H as [H|H]; eapply nth_error_Some_lt; eauto).
  eapply Forall_impl; [|exact Hlt]. intros x Hx. simpl in Hx. split; auto. apply lt_nth_error. lia.
Qed.

Definition conv_spec (convf : nat -> state -> option (nat * state)) (x : nat) : Prop :=
  forall st y st', (exists nd, nth_error h0 x = Some nd) -> HI st -> MI st -> convf x st = Some (y, st') ->
    HI st' /\ ext (s_heap st) (s_heap st') /\ MI st' /\ mext (s_memo st) (s_memo st')
    /\ (forall k, x <= k -> lookup k (s_memo st') = lookup k (s_memo st))
    /\ good (s_memo st') (s_heap st') x y.

Lemma HI_memo st m : HI st -> HI (mkS (s_heap st) m (s_next st)).
Proof. intros [a b d e]. constructor; simpl; auto. Qed.

Lemma field_loop_ok convf bound : (forall x, x < bound -> conv_spec convf x) ->
  forall fs st ys st', Forall (fun x => x < bound /\ exists nd, nth_error h0 x = Some nd) fs ->
  HI st -> MI st -> field_loop convf fs st = Some (ys, st') ->
  HI st' /\ ext (s_heap st) (s_heap st') /\ MI st' /\ mext (s_memo st) (s_memo st')
  /\ (forall k, bound <= k -> lookup k (s_memo st') = lookup k (s_memo st))
  /\ Forall2 (fun a b => lookup a (s_memo st') = Some b) fs ys.
Proof.
  intros Hspec. induction fs as [|x r IH]; intros st ys st' Hfs H HM Hl; simpl in Hl.
  - injection Hl as <- <-. split; [auto|]. split; [apply ext_refl|]. split; [auto|]. split; [apply mext_refl|].
    split; [auto|constructor].
  - inversion Hfs as [|? ? [Hxb Hx0] Hr]; subst.
    destruct (lookup x (s_memo st)) as [y|] eqn:El.
    + destruct (field_loop convf r st) as [[ys1 st1]|] eqn:E1; [|discriminate]. injection Hl as <- <-.
      destruct (IH st ys1 st1 Hr H HM E1) as (H1 & X1 & M1 & Me1 & K1 & F1).
      split; [auto|]. split; [auto|]. split; [auto|]. split; [auto|]. split; [auto|]. constructor; auto.
    + destruct (convf x st) as [[y st1]|] eqn:Ec; [|discriminate].
      destruct (field_loop convf r (add_memo x y st1)) as [[ys2 st2]|] eqn:E2; [|discriminate]. injection Hl as <- <-.
      destruct (Hspec x Hxb st y st1 Hx0 H HM Ec) as (H1 & X1 & M1 & Me1 & K1 & G1).
      assert (Hnone : lookup x (s_memo st1) = None) by (rewrite K1 by lia; exact El).
      assert (Hadd : mext (s_memo st1) ((x, y) :: s_memo st1)) by (apply mext_add; exact Hnone).
      assert (H1' : HI (add_memo x y st1)) by (apply HI_memo; exact H1).
      assert (M1' : MI (add_memo x y st1)).
      { intros d y' Hd. unfold add_memo in *. simpl in *. destruct (Nat.eq_dec x d) as [->|Hne].
        - rewrite Nat.eqb_refl in Hd. injection Hd as <-. eapply good_stable; eauto using ext_refl.
        - destruct (Nat.eqb x d) eqn:Ee; [apply Nat.eqb_eq in Ee; contradiction|].
          eapply good_stable; [apply M1; exact Hd|apply ext_refl|exact Hadd]. }
      destruct (IH (add_memo x y st1) ys2 st2 Hr H1' M1' E2) as (H2 & X2 & M2 & Me2 & K2 & F2).
      unfold add_memo in X2, Me2, K2; cbn [s_heap s_memo s_next] in X2, Me2, K2.
      split; [auto|]. split; [eapply ext_trans; eauto|]. split; [auto|].
      split; [eapply mext_trans; [exact Me1|eapply mext_trans; [exact Hadd|exact Me2]]|].
      split.
      * intros k Hk. rewrite K2 by lia. rewrite lookup_cons_ne by lia. apply K1. lia.
      * constructor; auto. apply Me2. apply lookup_cons_eq.
Qed.

Lemma conv_ok fuel : forall x, conv_spec (conv fuel c) x.
Proof.
  induction fuel as [|f IH]; intros x st y st' [nd0 Hx0] H HM Hc; simpl in Hc; [discriminate|].
  pose proof (hi_old _ H _ _ Hx0) as Hnow. pose proof (hi_len _ H) as Hlen.
  destruct nd0 as [t|fs|fs|ts|ct m]; simpl in Hnow.
  - rewrite Hnow in Hc. destruct (conv_leaf_ok st x _ _ y st' H Hx0 Hnow Hc) as (H1 & X1 & G1 & M1).
    split; [auto|]. split; [auto|]. split; [|split; [rewrite M1; apply mext_refl|split; [intros; now rewrite M1|]]].
    + intros d y' Hd. rewrite M1 in *. eapply good_stable; [apply HM; exact Hd|exact X1|apply mext_refl].
    + unfold good. rewrite Hx0. exact G1.
  - (* mixin *)
    rewrite Hnow in Hc.
    destruct (field_loop (conv f c) fs st) as [[ys st1]|] eqn:El; [|discriminate]. injection Hc as <- <-.
    pose proof (children_src x fs (or_introl Hx0)) as Hch.
    destruct (field_loop_ok (conv f c) x (fun x' _ => IH x') fs st ys st1 Hch H HM El) as (H1 & X1 & M1 & Me1 & K1 & F1).
    pose proof (hi_len _ H1) as Hlen1.
    split; [apply HI_app; auto|]. simpl.
    split; [eapply ext_trans; [exact X1|apply ext_app]|].
    split; [|split; [exact Me1|split; [exact K1|]]].
    + intros d y' Hd. simpl in *. eapply good_stable; [apply M1; exact Hd|apply ext_app|apply mext_refl].
    + unfold good. rewrite Hx0. exists ys. rewrite nth_error_snoc. split; [auto|]. split; [exact Hlen1|exact F1].
  - (* spatial *)
    rewrite Hnow in Hc.
    destruct (leaf_loop c fs [] st) as [[ys st1]|] eqn:El; [|discriminate]. injection Hc as <- <-.
    pose proof (children_src x fs (or_intror Hx0)) as Hch.
    assert (Hch' : Forall (fun x => exists nd, nth_error h0 x = Some nd) fs)
      by (eapply Forall_impl; [|exact Hch]; intros a [_ Ha]; exact Ha).
    destruct (leaf_loop_ok fs [] st ys st1 H Hch' ltac:(intros a b Hab; discriminate) El) as (H1 & X1 & F1 & M1).
    pose proof (hi_len _ H1) as Hlen1.
    split; [apply HI_app; auto|]. simpl.
    split; [eapply ext_trans; [exact X1|apply ext_app]|].
    split; [|split; [rewrite M1; apply mext_refl|split; [intros; now rewrite M1|]]].
    + intros d y' Hd. simpl in *. rewrite M1 in *.
      eapply good_stable; [apply HM; exact Hd|eapply ext_trans; [exact X1|apply ext_app]|apply mext_refl].
    + unfold good. rewrite Hx0. exists ys. rewrite nth_error_snoc. split; [auto|]. split; [exact Hlen1|].
      eapply Forall2_impl; [|exact F1]. intros a b Hab. eapply leaf_good_stable; [exact Hab|apply ext_app].
  - (* module *)
    destruct Hnow as (ts1 & Hnow & Hpre). rewrite Hnow in Hc.
    destruct (conv_leaf_ok st x _ _ y st' H Hx0 Hnow Hc) as (H1 & X1 & G1 & M1).
    split; [auto|]. split; [auto|]. split; [|split; [rewrite M1; apply mext_refl|split; [intros; now rewrite M1|]]].
    + intros d y' Hd. rewrite M1 in *. eapply good_stable; [apply HM; exact Hd|exact X1|apply mext_refl].
    + unfold good. rewrite Hx0. exact G1.
  - rewrite Hnow in Hc. destruct (conv_leaf_ok st x _ _ y st' H Hx0 Hnow Hc) as (H1 & X1 & G1 & M1).
    split; [auto|]. split; [auto|]. split; [|split; [rewrite M1; apply mext_refl|split; [intros; now rewrite M1|]]].
    + intros d y' Hd. rewrite M1 in *. eapply good_stable; [apply HM; exact Hd|exact X1|apply mext_refl].
    + unfold good. rewrite Hx0. exact G1.
Qed.

(* ---------------------------------------------------------------------------------------------- *)
(* the whole call                                                                                  *)
(* ---------------------------------------------------------------------------------------------- *)
Lemma top_ok root r st' : root < length h0 -> to_top c h0 nsb root = Some (r, st') ->
  HI st' /\ MI st' /\ good (s_memo st') (s_heap st') root r.
Proof.
  intros Hr Ht. unfold to_top in Ht.
  assert (H0 : HI (mkS h0 [] nsb)).
  { constructor; simpl; auto.
    intros i n Hi. destruct n; simpl; auto. eexists; split; eauto. apply Forall2_refl_eq. intros; left; reflexivity. }
  assert (M0 : MI (mkS h0 [] nsb)) by (intros d y Hd; discriminate).
  destruct (conv_ok _ root _ _ _ (lt_nth_error _ _ Hr) H0 M0 Ht) as (H1 & _ & M1 & _ & _ & G1). auto.
Qed.

Lemma leaf_good_good M hp a b : leaf_good hp a b -> good M hp a b.
Proof. unfold good, leaf_good. destruct (nth_error h0 a) as [[?|?|?|?|? ?]|]; auto; contradiction. Qed.

Section Final.
Variable M : list (nat * nat).
Variable H : heap.
Hypothesis HMI : forall d y, lookup d M = Some y -> good M H d y.

Lemma resolve_good p : forall d y x, good M H d y -> resolve h0 d p = Some x ->
  exists z, resolve H y p = Some z /\ good M H x z.
Proof.
  induction p as [|i q IH]; intros d y x Hg Hr; simpl in Hr.
  - injection Hr as <-. exists y. split; auto.
  - unfold good in Hg. destruct (nth_error h0 d) as [[t|fs|fs|ts|ct m]|] eqn:Ed; try discriminate.
    + destruct (nth_error fs i) as [a|] eqn:Ea; [|discriminate].
      destruct Hg as (ys & Hy & _ & HF). destruct (Forall2_nth_l _ _ _ _ _ HF Ea) as (b & Hb & Hab).
      destruct (IH a b x (HMI _ _ Hab) Hr) as (z & Hz & Hgz). exists z. split; auto. simpl. now rewrite Hy, Hb.
    + destruct (nth_error fs i) as [a|] eqn:Ea; [|discriminate].
      destruct Hg as (ys & Hy & _ & HF). destruct (Forall2_nth_l _ _ _ _ _ HF Ea) as (b & Hb & Hab).
      destruct (IH a b x (leaf_good_good _ _ _ _ Hab) Hr) as (z & Hz & Hgz). exists z. split; auto. simpl. now rewrite Hy, Hb.
Qed.

Lemma resolve_good_conv p : forall d y z, good M H d y -> resolve H y p = Some z ->
  exists x, resolve h0 d p = Some x /\ good M H x z.
Proof.
  induction p as [|i q IH]; intros d y z Hg Hr; simpl in Hr.
  - injection Hr as <-. exists d. split; auto.
  - unfold good in Hg. destruct (nth_error h0 d) as [[t|fs|fs|ts|ct m]|] eqn:Ed.
    + unfold leaf_good in Hg. rewrite Ed in Hg. destruct Hg as (t' & Hy & _). rewrite Hy in Hr. discriminate.
    + destruct Hg as (ys & Hy & _ & HF). rewrite Hy in Hr. destruct (nth_error ys i) as [b|] eqn:Eb; [|discriminate].
      destruct (Forall2_nth_r _ _ _ _ _ HF Eb) as (a & Ha & Hab).
      destruct (IH a b z (HMI _ _ Hab) Hr) as (x & Hx & Hgx). exists x. split; auto. simpl. now rewrite Ed, Ha.
    + destruct Hg as (ys & Hy & _ & HF). rewrite Hy in Hr. destruct (nth_error ys i) as [b|] eqn:Eb; [|discriminate].
      destruct (Forall2_nth_r _ _ _ _ _ HF Eb) as (a & Ha & Hab).
      destruct (IH a b z (leaf_good_good _ _ _ _ Hab) Hr) as (x & Hx & Hgx). exists x. split; auto. simpl. now rewrite Ed, Ha.
    + unfold leaf_good in Hg. rewrite Ed in Hg. destruct Hg as (t' & Hy & _). rewrite Hy in Hr. discriminate.
    + unfold leaf_good in Hg. rewrite Ed in Hg. destruct Hg as (Hy & _). rewrite Hy in Hr. discriminate.
    + unfold leaf_good in Hg. rewrite Ed in Hg. contradiction.
Qed.

(* paths through containers that share the memo end in the memo's image *)
Lemma resolve_g_memo p : forall d y x, p <> [] -> good M H d y -> resolve_g h0 d p = Some x ->
  exists z, lookup x M = Some z /\ resolve H y p = Some z.
Proof.
  induction p as [|i q IH]; intros d y x Hne Hg Hr; [congruence|]. simpl in Hr.
  destruct (nth_error h0 d) as [[t|fs|fs|ts|ct m]|] eqn:Ed; try discriminate.
  destruct (nth_error fs i) as [a|] eqn:Ea; [|discriminate].
  unfold good in Hg. rewrite Ed in Hg. destruct Hg as (ys & Hy & _ & HF).
  destruct (Forall2_nth_l _ _ _ _ _ HF Ea) as (b & Hb & Hab).
  destruct q as [|j q'].
  - simpl in Hr. injection Hr as <-. exists b. split; auto. simpl. now rewrite Hy, Hb.
  - destruct (IH a b x ltac:(discriminate) (HMI _ _ Hab) Hr) as (z & Hz & Hrz).
    exists z. split; auto. remember (j :: q') as qq. simpl. now rewrite Hy, Hb.
Qed.
End Final.
End Conv.

(* ---------------------------------------------------------------------------------------------- *)
(* statements                                                                                      *)
(* ---------------------------------------------------------------------------------------------- *)
Definition tens_conv (c : cfg) (t t' : tens) : Prop :=
  t_kind t' = t_kind t /\ t_content t' = t_content t /\ t_prec t' = target_prec c t.

(* what the converted object at the same field path looks like *)
Definition node_conv (c : cfg) (n n' : node) : Prop :=
  match n, n' with
  | NTensor t, NTensor t' => tens_conv c t t'
  | NModule ts, NModule ts' => Forall2 (tens_conv c) ts ts'
  | NPlain ct m, NPlain ct' m' => ct' = ct /\ m' = m
  | NMixin fs, NMixin ys => length ys = length fs
  | NSpatial fs, NSpatial ys => length ys = length fs
  | _, _ => False
  end.

Lemma Forall2_length' {A B} (R : A -> B -> Prop) l l' : Forall2 R l l' -> length l' = length l.
Proof. induction 1; simpl; auto. Qed.

Lemma good_node_conv c h ns M H d y nd : good c h ns M H d y -> nth_error h d = Some nd ->
  exists nd', nth_error H y = Some nd' /\ node_conv c nd nd'.
Proof.
  unfold good, leaf_good. intros Hg Hd. rewrite Hd in Hg. destruct nd as [t|fs|fs|ts|ct m].
  - destruct Hg as (t' & Hy & (Hk & Hc & Hp & _) & _). exists (NTensor t'). split; auto. simpl. unfold tens_conv; auto.
  - destruct Hg as (ys & Hy & _ & HF). exists (NMixin ys). split; auto. simpl. eapply Forall2_length'; eauto.
  - destruct Hg as (ys & Hy & _ & HF). exists (NSpatial ys). split; auto. simpl. eapply Forall2_length'; eauto.
  - destruct Hg as (ts' & Hy & HF & _). exists (NModule ts'). split; auto. simpl.
    eapply Forall2_impl; [|exact HF]. intros a b (Hk & Hc & Hp & _). unfold tens_conv; auto.
  - destruct Hg as (Hy & _). exists (NPlain ct m). split; auto. simpl; auto.
Qed.

Theorem to_top_structure c h ns root r st p x nd :
  wf_heap h -> root < length h -> to_top c h ns root = Some (r, st) ->
  resolve h root p = Some x -> nth_error h x = Some nd ->
  exists z nd', resolve (s_heap st) r p = Some z /\ nth_error (s_heap st) z = Some nd' /\ node_conv c nd nd'.
Proof.
  intros Hwf Hr Ht Hp Hx. destruct (top_ok c h ns Hwf root r st Hr Ht) as (HH & HM & HG).
  destruct (resolve_good c h ns _ _ HM p root r x HG Hp) as (z & Hz & Hgz).
  destruct (good_node_conv _ _ _ _ _ _ _ _ Hgz Hx) as (nd' & Hn & Hc). eauto.
Qed.

Theorem to_top_alias c h ns root r st p q x :
  wf_heap h -> root < length h -> to_top c h ns root = Some (r, st) -> p <> [] -> q <> [] ->
  resolve_g h root p = Some x -> resolve_g h root q = Some x ->
  exists z, resolve (s_heap st) r p = Some z /\ resolve (s_heap st) r q = Some z.
Proof.
  intros Hwf Hr Ht Hp Hq Rp Rq. destruct (top_ok c h ns Hwf root r st Hr Ht) as (HH & HM & HG).
  destruct (resolve_g_memo c h ns _ _ HM p root r x Hp HG Rp) as (z & Hz & Hrz).
  destruct (resolve_g_memo c h ns _ _ HM q root r x Hq HG Rq) as (z' & Hz' & Hrz').
  assert (z' = z) by congruence. subst. eauto.
Qed.

Lemma Forall2_In_r {A B} (R : A -> B -> Prop) l l' b : Forall2 R l l' -> In b l' -> exists a, In a l /\ R a b.
Proof. induction 1; simpl; intros Hi; [contradiction|]. destruct Hi as [<-|Hi]; eauto. destruct (IHForall2 Hi) as (a & ? & ?). eauto. Qed.

(* copy=True: whatever is reachable in the result is new: tensors (also inside modules) live in storages that did not
   exist before, mutable plain objects, modules and containers are new objects *)
Theorem to_top_fresh c h ns root r st p z :
  wf_heap h -> root < length h -> c_copy c = true -> to_top c h ns root = Some (r, st) ->
  resolve (s_heap st) r p = Some z ->
  match nth_error (s_heap st) z with
  | Some (NTensor t') => ns <= t_storage t' /\ length h <= z
  | Some (NModule ts') => Forall (fun t' => ns <= t_storage t') ts' /\ length h <= z
  | Some (NPlain _ true) => length h <= z
  | Some (NMixin _) | Some (NSpatial _) => length h <= z
  | _ => True
  end.
Proof.
  intros Hwf Hr Hc Ht Hp. destruct (top_ok c h ns Hwf root r st Hr Ht) as (HH & HM & HG).
  destruct (resolve_good_conv c h ns _ _ HM p root r z HG Hp) as (x & Hx & Hgx).
  unfold good, leaf_good in Hgx. destruct (nth_error h x) as [[t|fs|fs|ts|ct m]|] eqn:Ex; try contradiction.
  - destruct Hgx as (t' & Hy & (_ & _ & _ & Hs) & _ & Hn). rewrite Hy. split; auto.
  - destruct Hgx as (ys & Hy & Hn & _). rewrite Hy. exact Hn.
  - destruct Hgx as (ys & Hy & Hn & _). rewrite Hy. exact Hn.
  - destruct Hgx as (ts' & Hy & HF & _ & Hn). rewrite Hy. split; [|auto].
    apply Forall_forall. intros t' Hin. destruct (Forall2_In_r _ _ _ _ HF Hin) as (a & _ & (_ & _ & _ & Hs)). auto.
  - destruct Hgx as (Hy & _ & Hn). rewrite Hy. destruct m; auto.
Qed.

Theorem to_top_source_untouched c h ns root r st :
  wf_heap h -> root < length h -> to_top c h ns root = Some (r, st) ->
  forall i n, nth_error h i = Some n -> (c_copy c = true \/ forall ts, n <> NModule ts) ->
  nth_error (s_heap st) i = Some n.
Proof.
  intros Hwf Hr Ht i n Hi Hor. destruct (top_ok c h ns Hwf root r st Hr Ht) as (HH & _ & _).
  destruct Hor as [Hc|Hn].
  - exact (hi_copy _ _ _ _ HH Hc i n Hi).
  - pose proof (hi_old _ _ _ _ HH i n Hi) as Hnow. destruct n; simpl in Hnow; auto. exfalso. eapply Hn; eauto.
Qed.

(* ---- in terms of the public calls ---------------------------------------------------------------- *)
Lemma call_top_inv a h ns root r h' : call_top a h ns root = Some (r, h') ->
  exists st, to_top (parse a) h ns root = Some (r, st) /\ s_heap st = h'.
Proof.
  unfold call_top. destruct (to_top (parse a) h ns root) as [[r0 st]|]; [|discriminate].
  intros E; injection E as <- <-. eauto.
Qed.

Definition requested_prec (a : to_call) (t : tens) : prec :=
  match c_dtype (parse a), t_kind t with
  | Some d, KFloat | Some d, KComplex => d_prec d
  | _, _ => t_prec t
  end.

Lemma target_prec_requested a t : target_prec (parse a) t = requested_prec a t.
Proof. unfold target_prec, requested_prec, new_dtype. destruct (c_dtype (parse a)), (t_kind t); reflexivity. Qed.

Lemma call_kind a h ns root r h' p x t :
  wf_heap h -> root < length h -> call_top a h ns root = Some (r, h') ->
  resolve h root p = Some x -> nth_error h x = Some (NTensor t) ->
  exists z t', resolve h' r p = Some z /\ nth_error h' z = Some (NTensor t')
               /\ t_kind t' = t_kind t /\ t_prec t' = requested_prec a t.
Proof.
  intros Hwf Hr Hc Hp Hx. destruct (call_top_inv _ _ _ _ _ _ Hc) as (st & Ht & <-).
  destruct (to_top_structure _ _ _ _ _ _ _ _ _ Hwf Hr Ht Hp Hx) as (z & nd' & Hz & Hn & Hconv).
  destruct nd'; simpl in Hconv; try contradiction. destruct Hconv as (Hk & _ & Hpr).
  exists z, t0. rewrite <- target_prec_requested. auto.
Qed.

Lemma call_kind_module a h ns root r h' p x ts :
  wf_heap h -> root < length h -> call_top a h ns root = Some (r, h') ->
  resolve h root p = Some x -> nth_error h x = Some (NModule ts) ->
  exists z ts', resolve h' r p = Some z /\ nth_error h' z = Some (NModule ts')
    /\ Forall2 (fun t t' => t_kind t' = t_kind t /\ t_content t' = t_content t /\ t_prec t' = requested_prec a t) ts ts'.
Proof.
  intros Hwf Hr Hc Hp Hx. destruct (call_top_inv _ _ _ _ _ _ Hc) as (st & Ht & <-).
  destruct (to_top_structure _ _ _ _ _ _ _ _ _ Hwf Hr Ht Hp Hx) as (z & nd' & Hz & Hn & Hconv).
  destruct nd'; simpl in Hconv; try contradiction.
  exists z, ts0. split; auto. split; auto. eapply Forall2_impl; [|exact Hconv].
  intros t t' (Hk & Hcn & Hpr). rewrite <- target_prec_requested. auto.
Qed.

Lemma call_values a h ns root r h' p x nd :
  wf_heap h -> root < length h -> call_top a h ns root = Some (r, h') ->
  resolve h root p = Some x -> nth_error h x = Some nd ->
  exists z nd', resolve h' r p = Some z /\ nth_error h' z = Some nd' /\ node_conv (parse a) nd nd'.
Proof.
  intros Hwf Hr Hc Hp Hx. destruct (call_top_inv _ _ _ _ _ _ Hc) as (st & Ht & <-).
  eapply to_top_structure; eauto.
Qed.

Lemma call_alias a h ns root r h' p q x :
  wf_heap h -> root < length h -> call_top a h ns root = Some (r, h') -> p <> [] -> q <> [] ->
  resolve_g h root p = Some x -> resolve_g h root q = Some x ->
  exists z, resolve h' r p = Some z /\ resolve h' r q = Some z.
Proof.
  intros Hwf Hr Hc Hp Hq Rp Rq. destruct (call_top_inv _ _ _ _ _ _ Hc) as (st & Ht & <-).
  eapply to_top_alias; eauto.
Qed.

Definition storages (n : node) : list nat :=
  match n with NTensor t => [t_storage t] | NModule ts => map t_storage ts | _ => [] end.

Lemma heap_below_storages ns h i n s : heap_below ns h -> nth_error h i = Some n -> In s (storages n) -> s < ns.
Proof.
  intros Hb Hi Hs. unfold heap_below in Hb. rewrite Forall_forall in Hb. specialize (Hb n (nth_error_In _ _ Hi)).
  destruct n; simpl in *; try contradiction.
  - destruct Hs as [<-|[]]. exact Hb.
  - apply in_map_iff in Hs as (t & <- & Hin). rewrite Forall_forall in Hb. exact (Hb t Hin).
Qed.

(* no storage of the result is a storage of the source; no mutable plain object / module / container is shared *)
Lemma call_fresh a h ns root r h' p z n' :
  wf_heap h -> root < length h -> heap_below ns h -> c_copy (parse a) = true ->
  call_top a h ns root = Some (r, h') -> resolve h' r p = Some z -> nth_error h' z = Some n' ->
  (forall i n s, nth_error h i = Some n -> In s (storages n) -> ~ In s (storages n'))
  /\ (match n' with NPlain _ false | NTensor _ => True | _ => length h <= z end).
Proof.
  intros Hwf Hr Hb Hcp Hc Hp Hn. destruct (call_top_inv _ _ _ _ _ _ Hc) as (st & Ht & <-).
  pose proof (to_top_fresh _ _ _ _ _ _ _ _ Hwf Hr Hcp Ht Hp) as Hf. rewrite Hn in Hf. split.
  - intros i n s Hi Hs Hs'. pose proof (heap_below_storages _ _ _ _ _ Hb Hi Hs) as Hlt.
    destruct n'; simpl in Hs'; try contradiction.
    + destruct Hs' as [<-|[]]. destruct Hf. lia.
    + destruct Hf as [Hf _]. apply in_map_iff in Hs' as (t & <- & Hin). rewrite Forall_forall in Hf.
      specialize (Hf t Hin). lia.
  - destruct n' as [?|?|?|?|? []]; try tauto; auto.
Qed.

Lemma call_source_untouched a h ns root r h' :
  wf_heap h -> root < length h -> call_top a h ns root = Some (r, h') ->
  forall i n, nth_error h i = Some n -> (c_copy (parse a) = true \/ forall ts, n <> NModule ts) -> nth_error h' i = Some n.
Proof.
  intros Hwf Hr Hc i n Hi Hor. destruct (call_top_inv _ _ _ _ _ _ Hc) as (st & Ht & <-).
  eapply to_top_source_untouched; eauto.
Qed.
