(* Proofs about Model/MoveData.v (C18). *)
From MrVerif Require Import Base.Prelude Model.MoveData.
Local Open Scope nat_scope.

(* ---------------------------------------------------------------------------------------------- *)
(* lists                                                                                           *)
(* ---------------------------------------------------------------------------------------------- *)
Lemma nth_error_Some_lt {A} (l : list A) i x : nth_error l i = Some x -> i < length l.
Proof. intros H. apply nth_error_Some. congruence. Qed.

Lemma nth_error_app_old {A} (l e : list A) i x : nth_error l i = Some x -> nth_error (l ++ e) i = Some x.
Proof. intros H. rewrite nth_error_app1; auto. eapply nth_error_Some_lt; eauto. Qed.

Lemma nth_error_snoc {A} (l : list A) x : nth_error (l ++ [x]) (length l) = Some x.
Proof. rewrite nth_error_app2 by lia. now rewrite Nat.sub_diag. Qed.

Lemma Forall2_nth_l {A B} (R : A -> B -> Prop) l l' i a :
  Forall2 R l l' -> nth_error l i = Some a -> exists b, nth_error l' i = Some b /\ R a b.
Proof.
  intros H; revert i; induction H; intros [|i] Hi; simpl in *; try discriminate.
  - injection Hi as <-. eauto.
  - eauto.
Qed.

Lemma Forall2_nth_r {A B} (R : A -> B -> Prop) l l' i b :
  Forall2 R l l' -> nth_error l' i = Some b -> exists a, nth_error l i = Some a /\ R a b.
Proof.
  intros H; revert i; induction H; intros [|i] Hi; simpl in *; try discriminate.
  - injection Hi as <-. eauto.
  - eauto.
Qed.

Lemma Forall2_impl {A B} (R R' : A -> B -> Prop) l l' :
  (forall a b, R a b -> R' a b) -> Forall2 R l l' -> Forall2 R' l l'.
Proof. intros HR H; induction H; constructor; auto. Qed.

Lemma Forall2_refl_eq {A} (R : A -> A -> Prop) l : (forall a, R a a) -> Forall2 R l l.
Proof. intros HR; induction l; constructor; auto. Qed.

(* ---------------------------------------------------------------------------------------------- *)
(* memo                                                                                            *)
(* ---------------------------------------------------------------------------------------------- *)
Definition mext (m m' : list (nat * nat)) : Prop := forall k v, lookup k m = Some v -> lookup k m' = Some v.

Lemma mext_refl m : mext m m. Proof. intros k v H; exact H. Qed.
Lemma mext_trans a b c : mext a b -> mext b c -> mext a c.
Proof. intros H1 H2 k v H; auto. Qed.

Lemma lookup_cons_eq k v m : lookup k ((k, v) :: m) = Some v.
Proof. simpl. now rewrite Nat.eqb_refl. Qed.
Lemma lookup_cons_ne k k' v m : k' <> k -> lookup k ((k', v) :: m) = lookup k m.
Proof. intros H. simpl. destruct (Nat.eqb k' k) eqn:E; auto. apply Nat.eqb_eq in E. contradiction. Qed.

Lemma mext_add k v m : lookup k m = None -> mext m ((k, v) :: m).
Proof.
  intros Hn k' v' H. destruct (Nat.eq_dec k k') as [->|Hne].
  - congruence.
  - now rewrite lookup_cons_ne.
Qed.

(* ---------------------------------------------------------------------------------------------- *)
(* tensors                                                                                         *)
(* ---------------------------------------------------------------------------------------------- *)
Section Conv.
Variable c : cfg.
Variable h0 : heap.     (* the heap before the call *)
Variable nsb : nat.     (* every storage id below nsb may be in use before the call *)

Lemma prec_eqb_eq a b : prec_eqb a b = true <-> a = b.
Proof. destruct a, b; simpl; split; congruence. Qed.

(* t' is t as the call leaves it: same kind, same content, requested precision; fresh storage when copying *)
Definition trel (t t' : tens) : Prop :=
  t_kind t' = t_kind t /\ t_content t' = t_content t /\ t_prec t' = target_prec c t
  /\ (c_copy c = true -> nsb <= t_storage t').
(* tensors of a module field: always in a fresh storage *)
Definition mrel (t t' : tens) : Prop :=
  t_kind t' = t_kind t /\ t_content t' = t_content t /\ t_prec t' = target_prec c t /\ nsb <= t_storage t'.

Lemma conv_module_spec ts : forall s ts2 s', nsb <= s ->
  conv_module c ts s = (ts2, s') -> Forall2 mrel ts ts2 /\ s <= s'.
Proof.
  induction ts as [|t r IH]; intros s ts2 s' Hs Hc; simpl in Hc.
  - injection Hc as <- <-. split; [constructor|lia].
  - destruct (conv_module c r (S s)) as [r' s1] eqn:Er. injection Hc as <- <-.
    destruct (IH (S s) r' s1 ltac:(lia) Er) as [H1 H2]. split; [|lia]. constructor; auto.
    unfold mrel; simpl. auto.
Qed.

(* ---------------------------------------------------------------------------------------------- *)
(* invariants                                                                                      *)
(* ---------------------------------------------------------------------------------------------- *)
Definition n0 := length h0.

(* the heap only grows *)
Definition ext (h h' : heap) : Prop := exists e, h' = h ++ e.

Lemma ext_refl h : ext h h.
Proof. exists []. now rewrite app_nil_r. Qed.
Lemma ext_trans a b d : ext a b -> ext b d -> ext a d.
Proof. intros [e1 ->] [e2 ->]. exists (e1 ++ e2). now rewrite app_assoc. Qed.
Lemma ext_app h e : ext h (h ++ e).
Proof. now exists e. Qed.
Lemma ext_keep_some h h' i n : ext h h' -> nth_error h i = Some n -> nth_error h' i = Some n.
Proof. intros [e ->] H. now apply nth_error_app_old. Qed.
Lemma ext_len h h' : ext h h' -> length h <= length h'.
Proof. intros [e ->]. rewrite app_length. lia. Qed.

Record HI (st : state) : Prop := {
  hi_ext : ext h0 (s_heap st);
  hi_next : nsb <= s_next st
}.

Lemma hi_old st i n : HI st -> nth_error h0 i = Some n -> nth_error (s_heap st) i = Some n.
Proof. intros [E _] H. eapply ext_keep_some; eauto. Qed.
Lemma hi_len st : HI st -> n0 <= length (s_heap st).
Proof. intros [E _]. apply ext_len. exact E. Qed.

(* what "y is the converted d" means for tensors, modules and plain objects *)
Definition leaf_good (hp : heap) (d y : nat) : Prop :=
  match nth_error h0 d with
  | Some (NTensor t) => exists t', nth_error hp y = Some (NTensor t') /\ trel t t' /\ (y = d \/ n0 <= y)
                                  /\ (c_copy c = true -> n0 <= y)
  | Some (NModule ts) => exists ts', nth_error hp y = Some (NModule ts') /\ Forall2 mrel ts ts' /\ n0 <= y
  | Some (NPlain ct m) => nth_error hp y = Some (NPlain ct m) /\ (y = d \/ n0 <= y)
                          /\ (c_copy c = true -> m = true -> n0 <= y)
  | _ => False
  end.

Definition good (M : list (nat * nat)) (hp : heap) (d y : nat) : Prop :=
  match nth_error h0 d with
  | Some (NMixin fs) => exists ys, nth_error hp y = Some (NMixin ys) /\ n0 <= y
                                  /\ Forall2 (fun a b => lookup a M = Some b) fs ys
  | Some (NSpatial fs) => exists ys, nth_error hp y = Some (NSpatial ys) /\ n0 <= y
                                  /\ Forall2 (fun a b => lookup a M = Some b) fs ys
  | _ => leaf_good hp d y
  end.

Lemma leaf_good_stable hp hp' d y : leaf_good hp d y -> ext hp hp' -> leaf_good hp' d y.
Proof.
  intros Hg E. unfold leaf_good in *. destruct (nth_error h0 d) as [[t|fs|fs|ts|ct m]|] eqn:E0; auto.
  - destruct Hg as (t' & Hy & Hr). exists t'. split; [|exact Hr]. eapply ext_keep_some; eauto.
  - destruct Hg as (ts' & Hy & Hr). exists ts'. split; [|exact Hr]. eapply ext_keep_some; eauto.
  - destruct Hg as (Hy & Hr). split; [|exact Hr]. eapply ext_keep_some; eauto.
Qed.

Lemma good_stable M M' hp hp' d y : good M hp d y -> ext hp hp' -> mext M M' -> good M' hp' d y.
Proof.
  intros Hg E HM. unfold good in *. destruct (nth_error h0 d) as [[t|fs|fs|ts|ct m]|] eqn:E0;
    try (eapply leaf_good_stable; eauto).
  - destruct Hg as (ys & Hy & Hn & HF). exists ys. split; [|split; [auto|]].
    + eapply ext_keep_some; eauto.
    + eapply Forall2_impl; [|exact HF]. intros a b Hab. simpl in *. auto.
  - destruct Hg as (ys & Hy & Hn & HF). exists ys. split; [|split; [auto|]].
    + eapply ext_keep_some; eauto.
    + eapply Forall2_impl; [|exact HF]. intros a b Hab. simpl in *. auto.
Qed.

Definition MI (st : state) : Prop := forall d y, lookup d (s_memo st) = Some y -> good (s_memo st) (s_heap st) d y.

(* ---------------------------------------------------------------------------------------------- *)
(* the leaves                                                                                      *)
(* ---------------------------------------------------------------------------------------------- *)
Lemma HI_app st e nx : HI st -> s_next st <= nx -> HI (mkS (s_heap st ++ e) (s_memo st) nx).
Proof.
  intros [E n] Hn. constructor; simpl; [|lia]. eapply ext_trans; [exact E|apply ext_app].
Qed.

Lemma conv_leaf_ok st d nd y st' :
  HI st -> nth_error h0 d = Some nd -> conv_leaf c d nd st = Some (y, st') ->
  HI st' /\ ext (s_heap st) (s_heap st') /\ leaf_good (s_heap st') d y /\ s_memo st' = s_memo st.
Proof.
  intros H Hd0 Hc. pose proof (hi_old _ _ _ H Hd0) as Hd.
  pose proof (hi_len _ H) as Hlen. pose proof (hi_next _ H) as Hnx.
  destruct nd as [t|fs|fs|ts|ct m]; simpl in Hc; try discriminate.
  - destruct (needs_new c t) eqn:En; injection Hc as <- <-.
    + split; [apply HI_app; simpl; auto|]. split; [apply ext_app|]. split; auto.
      unfold leaf_good. rewrite Hd0. cbn [s_heap]. exists (conv_tens c (s_next st) t). rewrite nth_error_snoc.
      split; auto. split; [unfold trel; simpl; auto|]. split; [right; exact Hlen|intros; exact Hlen].
    + split; auto. split; [apply ext_refl|]. split; auto.
      unfold leaf_good. rewrite Hd0. exists t. split; auto.
      unfold needs_new in En. apply orb_false_iff in En as [Ec Ep]. apply negb_false_iff, prec_eqb_eq in Ep.
      split; [unfold trel; repeat split; auto; congruence|]. split; auto. intros Hcp. congruence.
  - destruct (conv_module c ts (s_next st)) as [ts2 s2] eqn:Em.
    destruct (conv_module_spec ts _ _ _ Hnx Em) as [HF Hs]. injection Hc as <- <-.
    split; [apply HI_app; simpl; auto|]. split; [apply ext_app|]. split; auto.
    unfold leaf_good. rewrite Hd0. cbn [s_heap]. exists ts2. rewrite nth_error_snoc. auto.
  - destruct (c_copy c && m) eqn:En; injection Hc as <- <-.
    + split; [apply HI_app; simpl; auto|]. split; [apply ext_app|]. split; auto.
      unfold leaf_good. rewrite Hd0. cbn [s_heap]. rewrite nth_error_snoc.
      split; [reflexivity|]. split; [right; exact Hlen|intros; exact Hlen].
    + split; auto. split; [apply ext_refl|]. split; auto.
      unfold leaf_good. rewrite Hd0. split; auto. split; auto. intros Hcp Hm. rewrite Hcp, Hm in En. discriminate.
Qed.

(* ---------------------------------------------------------------------------------------------- *)
(* the containers                                                                                  *)
(* ---------------------------------------------------------------------------------------------- *)
Hypothesis Hwf : wf_heap h0.

Lemma lt_nth_error {A} (l : list A) i : i < length l -> exists x, nth_error l i = Some x.
Proof. intros H. destruct (nth_error l i) eqn:E; eauto. apply nth_error_None in E. lia. Qed.

Lemma children_src d fs : (nth_error h0 d = Some (NMixin fs) \/ nth_error h0 d = Some (NSpatial fs)) ->
  Forall (fun x => x < d /\ exists nd, nth_error h0 x = Some nd) fs.
Proof.
  intros H. pose proof (Hwf d fs H) as Hlt.
  assert (Hd : d < length h0) by (destruct H as [H|H]; eapply nth_error_Some_lt; eauto).
  eapply Forall_impl; [|exact Hlt]. intros x Hx. simpl in Hx. split; auto. apply lt_nth_error. lia.
Qed.

Definition conv_spec (convf : nat -> state -> option (nat * state)) (x : nat) : Prop :=
  forall st y st', (exists nd, nth_error h0 x = Some nd) -> HI st -> MI st -> convf x st = Some (y, st') ->
    HI st' /\ ext (s_heap st) (s_heap st') /\ MI st' /\ mext (s_memo st) (s_memo st')
    /\ (forall k, x <= k -> lookup k (s_memo st') = lookup k (s_memo st))
    /\ good (s_memo st') (s_heap st') x y.

Lemma HI_memo st m : HI st -> HI (mkS (s_heap st) m (s_next st)).
Proof. intros [a b]. constructor; simpl; auto. Qed.

Lemma MI_add st x y : MI st -> lookup x (s_memo st) = None -> good (s_memo st) (s_heap st) x y ->
  MI (add_memo x y st).
Proof.
  intros HM Hn Hg d y' Hd. unfold add_memo in *. simpl in *.
  assert (Hadd : mext (s_memo st) ((x, y) :: s_memo st)) by (apply mext_add; exact Hn).
  destruct (Nat.eq_dec x d) as [->|Hne].
  - rewrite Nat.eqb_refl in Hd. injection Hd as <-. eapply good_stable; eauto using ext_refl.
  - destruct (Nat.eqb x d) eqn:Ee; [apply Nat.eqb_eq in Ee; contradiction|].
    eapply good_stable; [apply HM; exact Hd|apply ext_refl|exact Hadd].
Qed.

Lemma field_loop_ok convf bound : (forall x, x < bound -> conv_spec convf x) ->
  forall fs st ys st', Forall (fun x => x < bound /\ exists nd, nth_error h0 x = Some nd) fs ->
  HI st -> MI st -> field_loop convf fs st = Some (ys, st') ->
  HI st' /\ ext (s_heap st) (s_heap st') /\ MI st' /\ mext (s_memo st) (s_memo st')
  /\ (forall k, bound <= k -> lookup k (s_memo st') = lookup k (s_memo st))
  /\ Forall2 (fun a b => lookup a (s_memo st') = Some b) fs ys.
Proof.
  intros Hspec. induction fs as [|x r IH]; intros st ys st' Hfs H HM Hl; simpl in Hl.
  - injection Hl as <- <-. split; [auto|]. split; [apply ext_refl|]. split; [auto|]. split; [apply mext_refl|].
    split; [auto|constructor].
  - inversion Hfs as [|? ? [Hxb Hx0] Hr]; subst.
    destruct (lookup x (s_memo st)) as [y|] eqn:El.
    + destruct (field_loop convf r st) as [[ys1 st1]|] eqn:E1; [|discriminate]. injection Hl as <- <-.
      destruct (IH st ys1 st1 Hr H HM E1) as (H1 & X1 & M1 & Me1 & K1 & F1).
      split; [auto|]. split; [auto|]. split; [auto|]. split; [auto|]. split; [auto|]. constructor; auto.
    + destruct (convf x st) as [[y st1]|] eqn:Ec; [|discriminate].
      destruct (field_loop convf r (add_memo x y st1)) as [[ys2 st2]|] eqn:E2; [|discriminate]. injection Hl as <- <-.
      destruct (Hspec x Hxb st y st1 Hx0 H HM Ec) as (H1 & X1 & M1 & Me1 & K1 & G1).
      assert (Hnone : lookup x (s_memo st1) = None) by (rewrite K1 by lia; exact El).
      assert (Hadd : mext (s_memo st1) ((x, y) :: s_memo st1)) by (apply mext_add; exact Hnone).
      destruct (IH (add_memo x y st1) ys2 st2 Hr (HI_memo _ _ H1) (MI_add st1 x y M1 Hnone G1) E2)
        as (H2 & X2 & M2 & Me2 & K2 & F2).
      unfold add_memo in X2, Me2, K2; cbn [s_heap s_memo s_next] in X2, Me2, K2.
      split; [auto|]. split; [eapply ext_trans; eauto|]. split; [auto|].
      split; [eapply mext_trans; [exact Me1|eapply mext_trans; [exact Hadd|exact Me2]]|].
      split.
      * intros k Hk. rewrite K2 by lia. rewrite lookup_cons_ne by lia. apply K1. lia.
      * constructor; auto. apply Me2. apply lookup_cons_eq.
Qed.

Lemma conv_ok fuel : forall x, conv_spec (conv fuel c) x.
Proof.
  induction fuel as [|f IH]; intros x st y st' [nd0 Hx0] H HM Hc; simpl in Hc; [discriminate|].
  rewrite (hi_old _ _ _ H Hx0) in Hc.
  assert (Hleaf : forall nd, nd0 = nd -> conv_leaf c x nd st = Some (y, st') -> (good (s_memo st') (s_heap st') x y <-> leaf_good (s_heap st') x y) ->
    HI st' /\ ext (s_heap st) (s_heap st') /\ MI st' /\ mext (s_memo st) (s_memo st')
    /\ (forall k, x <= k -> lookup k (s_memo st') = lookup k (s_memo st)) /\ good (s_memo st') (s_heap st') x y).
  { intros nd -> Hcl Hiff. destruct (conv_leaf_ok st x _ y st' H Hx0 Hcl) as (H1 & X1 & G1 & M1).
    split; [auto|]. split; [auto|]. split; [|split; [rewrite M1; apply mext_refl|split; [intros; now rewrite M1|]]].
    - intros d y' Hd. rewrite M1 in *. eapply good_stable; [apply HM; exact Hd|exact X1|apply mext_refl].
    - apply Hiff. exact G1. }
  destruct nd0 as [t|fs|fs|ts|ct m].
  - apply (Hleaf _ eq_refl Hc). unfold good. rewrite Hx0. tauto.
  - destruct (field_loop (conv f c) fs st) as [[ys st1]|] eqn:El; [|discriminate]. injection Hc as <- <-.
    pose proof (children_src x fs (or_introl Hx0)) as Hch.
    destruct (field_loop_ok (conv f c) x (fun x' _ => IH x') fs st ys st1 Hch H HM El) as (H1 & X1 & M1 & Me1 & K1 & F1).
    pose proof (hi_len _ H1) as Hlen1.
    split; [apply HI_app; auto|]. simpl.
    split; [eapply ext_trans; [exact X1|apply ext_app]|].
    split; [|split; [exact Me1|split; [exact K1|]]].
    + intros d y' Hd. simpl in *. eapply good_stable; [apply M1; exact Hd|apply ext_app|apply mext_refl].
    + unfold good. rewrite Hx0. exists ys. rewrite nth_error_snoc. split; [auto|]. split; [exact Hlen1|exact F1].
  - destruct (field_loop (conv f c) fs st) as [[ys st1]|] eqn:El; [|discriminate]. injection Hc as <- <-.
    pose proof (children_src x fs (or_intror Hx0)) as Hch.
    destruct (field_loop_ok (conv f c) x (fun x' _ => IH x') fs st ys st1 Hch H HM El) as (H1 & X1 & M1 & Me1 & K1 & F1).
    pose proof (hi_len _ H1) as Hlen1.
    split; [apply HI_app; auto|]. simpl.
    split; [eapply ext_trans; [exact X1|apply ext_app]|].
    split; [|split; [exact Me1|split; [exact K1|]]].
    + intros d y' Hd. simpl in *. eapply good_stable; [apply M1; exact Hd|apply ext_app|apply mext_refl].
    + unfold good. rewrite Hx0. exists ys. rewrite nth_error_snoc. split; [auto|]. split; [exact Hlen1|exact F1].
  - apply (Hleaf _ eq_refl Hc). unfold good. rewrite Hx0. tauto.
  - apply (Hleaf _ eq_refl Hc). unfold good. rewrite Hx0. tauto.
Qed.

(* ---------------------------------------------------------------------------------------------- *)
(* the whole call                                                                                  *)
(* ---------------------------------------------------------------------------------------------- *)
Lemma HI_init : HI (mkS h0 [] nsb).
Proof. constructor; simpl; auto using ext_refl. Qed.
Lemma MI_init : MI (mkS h0 [] nsb).
Proof. intros d y Hd; discriminate. Qed.

Lemma top_ok root r st' : root < length h0 -> to_top c h0 nsb root = Some (r, st') ->
  HI st' /\ MI st' /\ good (s_memo st') (s_heap st') root r.
Proof.
  intros Hr Ht. unfold to_top in Ht.
  destruct (conv_ok _ root _ _ _ (lt_nth_error _ _ Hr) HI_init MI_init Ht) as (H1 & _ & M1 & _ & _ & G1). auto.
Qed.

Section Final.
Variable M : list (nat * nat).
Variable H : heap.
Hypothesis HMI : forall d y, lookup d M = Some y -> good M H d y.

Lemma good_children d y fs : good M H d y ->
  (nth_error h0 d = Some (NMixin fs) \/ nth_error h0 d = Some (NSpatial fs)) ->
  exists ys, (nth_error H y = Some (NMixin ys) \/ nth_error H y = Some (NSpatial ys))
             /\ Forall2 (fun a b => lookup a M = Some b) fs ys.
Proof.
  unfold good. intros Hg [E|E]; rewrite E in Hg; destruct Hg as (ys & Hy & _ & HF); eauto.
Qed.

Lemma resolve_step h d i q : forall fs, (nth_error h d = Some (NMixin fs) \/ nth_error h d = Some (NSpatial fs)) ->
  resolve h d (i :: q) = match nth_error fs i with Some x => resolve h x q | None => None end.
Proof. intros fs [E|E]; simpl; rewrite E; reflexivity. Qed.

Lemma resolve_container h d i q x : resolve h d (i :: q) = Some x ->
  exists fs, nth_error h d = Some (NMixin fs) \/ nth_error h d = Some (NSpatial fs).
Proof. simpl. destruct (nth_error h d) as [[?|fs|fs|?|? ?]|]; try discriminate; eauto. Qed.

(* every non-empty path ends in the memo's image of the source object *)
Lemma resolve_memo p : forall d y x, p <> [] -> good M H d y -> resolve h0 d p = Some x ->
  exists z, lookup x M = Some z /\ resolve H y p = Some z.
Proof.
  induction p as [|i q IH]; intros d y x Hne Hg Hr; [congruence|].
  destruct (resolve_container _ _ _ _ _ Hr) as (fs & Ed).
  rewrite (resolve_step _ _ _ _ fs Ed) in Hr. destruct (nth_error fs i) as [a|] eqn:Ea; [|discriminate].
  destruct (good_children d y fs Hg Ed) as (ys & Ey & HF).
  destruct (Forall2_nth_l _ _ _ _ _ HF Ea) as (b & Hb & Hab).
  rewrite (resolve_step _ _ _ _ ys Ey), Hb.
  destruct q as [|j q'].
  - simpl in *. injection Hr as <-. eauto.
  - apply (IH a b x ltac:(discriminate) (HMI _ _ Hab) Hr).
Qed.

Lemma resolve_good p : forall d y x, good M H d y -> resolve h0 d p = Some x ->
  exists z, resolve H y p = Some z /\ good M H x z.
Proof.
  intros d y x Hg Hr. destruct p as [|i q].
  - simpl in Hr. injection Hr as <-. exists y. split; auto.
  - destruct (resolve_memo (i :: q) d y x ltac:(discriminate) Hg Hr) as (z & Hz & Hrz). eauto.
Qed.

Lemma resolve_good_conv p : forall d y z, good M H d y -> resolve H y p = Some z ->
  exists x, resolve h0 d p = Some x /\ good M H x z.
Proof.
  induction p as [|i q IH]; intros d y z Hg Hr.
  - simpl in Hr. injection Hr as <-. exists d. split; auto.
  - destruct (resolve_container _ _ _ _ _ Hr) as (ys & Ey).
    assert (exists fs, nth_error h0 d = Some (NMixin fs) \/ nth_error h0 d = Some (NSpatial fs)) as (fs & Ed).
    { unfold good, leaf_good in Hg. destruct (nth_error h0 d) as [[t|fs|fs|ts|ct m]|]; eauto; exfalso.
      - destruct Hg as (t' & Hy & _). destruct Ey; congruence.
      - destruct Hg as (t' & Hy & _). destruct Ey; congruence.
      - destruct Hg as (Hy & _). destruct Ey; congruence.
      - exact Hg. }
    destruct (good_children d y fs Hg Ed) as (ys' & Ey' & HF).
    assert (ys' = ys) as -> by (destruct Ey, Ey'; congruence).
    rewrite (resolve_step _ _ _ _ ys Ey) in Hr. destruct (nth_error ys i) as [b|] eqn:Eb; [|discriminate].
    destruct (Forall2_nth_r _ _ _ _ _ HF Eb) as (a & Ha & Hab).
    destruct (IH a b z (HMI _ _ Hab) Hr) as (x & Hx & Hgx). exists x. split; auto.
    rewrite (resolve_step _ _ _ _ fs Ed), Ha. exact Hx.
Qed.
End Final.
End Conv.

(* ---------------------------------------------------------------------------------------------- *)
(* statements                                                                                      *)
(* ---------------------------------------------------------------------------------------------- *)
Definition tens_conv (c : cfg) (t t' : tens) : Prop :=
  t_kind t' = t_kind t /\ t_content t' = t_content t /\ t_prec t' = target_prec c t.

(* what the converted object at the same field path looks like *)
Definition node_conv (c : cfg) (n n' : node) : Prop :=
  match n, n' with
  | NTensor t, NTensor t' => tens_conv c t t'
  | NModule ts, NModule ts' => Forall2 (tens_conv c) ts ts'
  | NPlain ct m, NPlain ct' m' => ct' = ct /\ m' = m
  | NMixin fs, NMixin ys => length ys = length fs
  | NSpatial fs, NSpatial ys => length ys = length fs
  | _, _ => False
  end.

Lemma Forall2_length' {A B} (R : A -> B -> Prop) l l' : Forall2 R l l' -> length l' = length l.
Proof. induction 1; simpl; auto. Qed.

Lemma good_node_conv c h ns M H d y nd : good c h ns M H d y -> nth_error h d = Some nd ->
  exists nd', nth_error H y = Some nd' /\ node_conv c nd nd'.
Proof.
  unfold good, leaf_good. intros Hg Hd. rewrite Hd in Hg. destruct nd as [t|fs|fs|ts|ct m].
  - destruct Hg as (t' & Hy & (Hk & Hc & Hp & _) & _). exists (NTensor t'). split; auto. simpl. unfold tens_conv; auto.
  - destruct Hg as (ys & Hy & _ & HF). exists (NMixin ys). split; auto. simpl. eapply Forall2_length'; eauto.
  - destruct Hg as (ys & Hy & _ & HF). exists (NSpatial ys). split; auto. simpl. eapply Forall2_length'; eauto.
  - destruct Hg as (ts' & Hy & HF & _). exists (NModule ts'). split; auto. simpl.
    eapply Forall2_impl; [|exact HF]. intros a b (Hk & Hc & Hp & _). unfold tens_conv; auto.
  - destruct Hg as (Hy & _). exists (NPlain ct m). split; auto. simpl; auto.
Qed.

Theorem to_top_structure c h ns root r st p x nd :
  wf_heap h -> root < length h -> to_top c h ns root = Some (r, st) ->
  resolve h root p = Some x -> nth_error h x = Some nd ->
  exists z nd', resolve (s_heap st) r p = Some z /\ nth_error (s_heap st) z = Some nd' /\ node_conv c nd nd'.
Proof.
  intros Hwf Hr Ht Hp Hx. destruct (top_ok c h ns Hwf root r st Hr Ht) as (HH & HM & HG).
  destruct (resolve_good c h ns _ _ HM p root r x HG Hp) as (z & Hz & Hgz).
  destruct (good_node_conv _ _ _ _ _ _ _ _ Hgz Hx) as (nd' & Hn & Hc). eauto.
Qed.

Theorem to_top_alias c h ns root r st p q x :
  wf_heap h -> root < length h -> to_top c h ns root = Some (r, st) -> p <> [] -> q <> [] ->
  resolve h root p = Some x -> resolve h root q = Some x ->
  exists z, resolve (s_heap st) r p = Some z /\ resolve (s_heap st) r q = Some z.
Proof.
  intros Hwf Hr Ht Hp Hq Rp Rq. destruct (top_ok c h ns Hwf root r st Hr Ht) as (HH & HM & HG).
  destruct (resolve_memo c h ns _ _ HM p root r x Hp HG Rp) as (z & Hz & Hrz).
  destruct (resolve_memo c h ns _ _ HM q root r x Hq HG Rq) as (z' & Hz' & Hrz').
  assert (z' = z) by congruence. subst. eauto.
Qed.

Lemma Forall2_In_r {A B} (R : A -> B -> Prop) l l' b : Forall2 R l l' -> In b l' -> exists a, In a l /\ R a b.
Proof. induction 1; simpl; intros Hi; [contradiction|]. destruct Hi as [<-|Hi]; eauto. destruct (IHForall2 Hi) as (a & ? & ?). eauto. Qed.

(* whatever is reachable in the result: containers and modules are always new objects and module tensors always live in
   storages that did not exist before; with copy=True the same holds for every tensor and every mutable plain object *)
Theorem to_top_fresh c h ns root r st p z :
  wf_heap h -> root < length h -> to_top c h ns root = Some (r, st) ->
  resolve (s_heap st) r p = Some z ->
  match nth_error (s_heap st) z with
  | Some (NTensor t') => c_copy c = true -> ns <= t_storage t' /\ length h <= z
  | Some (NModule ts') => Forall (fun t' => ns <= t_storage t') ts' /\ length h <= z
  | Some (NPlain _ true) => c_copy c = true -> length h <= z
  | Some (NMixin _) | Some (NSpatial _) => length h <= z
  | _ => True
  end.
Proof.
  intros Hwf Hr Ht Hp. destruct (top_ok c h ns Hwf root r st Hr Ht) as (HH & HM & HG).
  destruct (resolve_good_conv c h ns _ _ HM p root r z HG Hp) as (x & Hx & Hgx).
  unfold good, leaf_good in Hgx. destruct (nth_error h x) as [[t|fs|fs|ts|ct m]|] eqn:Ex; try contradiction.
  - destruct Hgx as (t' & Hy & (_ & _ & _ & Hs) & _ & Hn). rewrite Hy. intros Hc. split; auto.
  - destruct Hgx as (ys & Hy & Hn & _). rewrite Hy. exact Hn.
  - destruct Hgx as (ys & Hy & Hn & _). rewrite Hy. exact Hn.
  - destruct Hgx as (ts' & Hy & HF & Hn). rewrite Hy. split; [|auto].
    apply Forall_forall. intros t' Hin. destruct (Forall2_In_r _ _ _ _ HF Hin) as (a & _ & (_ & _ & _ & Hs)). auto.
  - destruct Hgx as (Hy & _ & Hn). rewrite Hy. destruct m; auto.
Qed.

(* the call only allocates: every node of the source heap is unchanged, for every copy flag *)
Theorem to_top_source_untouched c h ns root r st :
  wf_heap h -> root < length h -> to_top c h ns root = Some (r, st) ->
  forall i n, nth_error h i = Some n -> nth_error (s_heap st) i = Some n.
Proof.
  intros Hwf Hr Ht i n Hi. destruct (top_ok c h ns Hwf root r st Hr Ht) as (HH & _ & _).
  eapply hi_old; eauto.
Qed.

(* ---- in terms of the public calls ---------------------------------------------------------------- *)
Lemma call_top_inv a h ns root r h' : call_top a h ns root = Some (r, h') ->
  exists st, to_top (parse a) h ns root = Some (r, st) /\ s_heap st = h'.
Proof.
  unfold call_top. destruct (to_top (parse a) h ns root) as [[r0 st]|]; [|discriminate].
  intros E; injection E as <- <-. eauto.
Qed.

Definition requested_prec (a : to_call) (t : tens) : prec :=
  match c_dtype (parse a), t_kind t with
  | Some d, KFloat | Some d, KComplex => d_prec d
  | _, _ => t_prec t
  end.

Lemma target_prec_requested a t : target_prec (parse a) t = requested_prec a t.
Proof. unfold target_prec, requested_prec, new_dtype. destruct (c_dtype (parse a)), (t_kind t); reflexivity. Qed.

Lemma call_kind a h ns root r h' p x t :
  wf_heap h -> root < length h -> call_top a h ns root = Some (r, h') ->
  resolve h root p = Some x -> nth_error h x = Some (NTensor t) ->
  exists z t', resolve h' r p = Some z /\ nth_error h' z = Some (NTensor t')
               /\ t_kind t' = t_kind t /\ t_prec t' = requested_prec a t.
Proof.
  intros Hwf Hr Hc Hp Hx. destruct (call_top_inv _ _ _ _ _ _ Hc) as (st & Ht & <-).
  destruct (to_top_structure _ _ _ _ _ _ _ _ _ Hwf Hr Ht Hp Hx) as (z & nd' & Hz & Hn & Hconv).
  destruct nd'; simpl in Hconv; try contradiction. destruct Hconv as (Hk & _ & Hpr).
  exists z, t0. rewrite <- target_prec_requested. auto.
Qed.

Lemma call_kind_module a h ns root r h' p x ts :
  wf_heap h -> root < length h -> call_top a h ns root = Some (r, h') ->
  resolve h root p = Some x -> nth_error h x = Some (NModule ts) ->
  exists z ts', resolve h' r p = Some z /\ nth_error h' z = Some (NModule ts')
    /\ Forall2 (fun t t' => t_kind t' = t_kind t /\ t_content t' = t_content t /\ t_prec t' = requested_prec a t) ts ts'.
Proof.
  intros Hwf Hr Hc Hp Hx. destruct (call_top_inv _ _ _ _ _ _ Hc) as (st & Ht & <-).
  destruct (to_top_structure _ _ _ _ _ _ _ _ _ Hwf Hr Ht Hp Hx) as (z & nd' & Hz & Hn & Hconv).
  destruct nd'; simpl in Hconv; try contradiction.
  exists z, ts0. split; auto. split; auto. eapply Forall2_impl; [|exact Hconv].
  intros t t' (Hk & Hcn & Hpr). rewrite <- target_prec_requested. auto.
Qed.

Lemma call_values a h ns root r h' p x nd :
  wf_heap h -> root < length h -> call_top a h ns root = Some (r, h') ->
  resolve h root p = Some x -> nth_error h x = Some nd ->
  exists z nd', resolve h' r p = Some z /\ nth_error h' z = Some nd' /\ node_conv (parse a) nd nd'.
Proof.
  intros Hwf Hr Hc Hp Hx. destruct (call_top_inv _ _ _ _ _ _ Hc) as (st & Ht & <-).
  eapply to_top_structure; eauto.
Qed.

Lemma call_alias a h ns root r h' p q x :
  wf_heap h -> root < length h -> call_top a h ns root = Some (r, h') -> p <> [] -> q <> [] ->
  resolve h root p = Some x -> resolve h root q = Some x ->
  exists z, resolve h' r p = Some z /\ resolve h' r q = Some z.
Proof.
  intros Hwf Hr Hc Hp Hq Rp Rq. destruct (call_top_inv _ _ _ _ _ _ Hc) as (st & Ht & <-).
  eapply to_top_alias; eauto.
Qed.

Definition storages (n : node) : list nat :=
  match n with NTensor t => [t_storage t] | NModule ts => map t_storage ts | _ => [] end.

Lemma heap_below_storages ns h i n s : heap_below ns h -> nth_error h i = Some n -> In s (storages n) -> s < ns.
Proof.
  intros Hb Hi Hs. unfold heap_below in Hb. rewrite Forall_forall in Hb. specialize (Hb n (nth_error_In _ _ Hi)).
  destruct n; simpl in *; try contradiction.
  - destruct Hs as [<-|[]]. exact Hb.
  - apply in_map_iff in Hs as (t & <- & Hin). rewrite Forall_forall in Hb. exact (Hb t Hin).
Qed.

(* copy=True: no storage of the result is a storage of the source; no mutable plain object / module / container is shared *)
Lemma call_fresh a h ns root r h' p z n' :
  wf_heap h -> root < length h -> heap_below ns h -> c_copy (parse a) = true ->
  call_top a h ns root = Some (r, h') -> resolve h' r p = Some z -> nth_error h' z = Some n' ->
  (forall i n s, nth_error h i = Some n -> In s (storages n) -> ~ In s (storages n'))
  /\ (match n' with NPlain _ false | NTensor _ => True | _ => length h <= z end).
Proof.
  intros Hwf Hr Hb Hcp Hc Hp Hn. destruct (call_top_inv _ _ _ _ _ _ Hc) as (st & Ht & <-).
  pose proof (to_top_fresh _ _ _ _ _ _ _ _ Hwf Hr Ht Hp) as Hf. rewrite Hn in Hf. split.
  - intros i n s Hi Hs Hs'. pose proof (heap_below_storages _ _ _ _ _ Hb Hi Hs) as Hlt.
    destruct n'; simpl in Hs'; try contradiction.
    + destruct Hs' as [<-|[]]. destruct (Hf Hcp). lia.
    + destruct Hf as [Hf _]. apply in_map_iff in Hs' as (t & <- & Hin). rewrite Forall_forall in Hf.
      specialize (Hf t Hin). lia.
  - destruct n' as [?|?|?|?|? []]; try tauto; auto.
Qed.

(* for EVERY copy flag: module fields and containers of the result are new objects and module tensors never share a
   storage with the source (the module is deep-copied before Module._apply) *)
Lemma call_module_fresh a h ns root r h' p z ts' :
  wf_heap h -> root < length h -> heap_below ns h ->
  call_top a h ns root = Some (r, h') -> resolve h' r p = Some z -> nth_error h' z = Some (NModule ts') ->
  length h <= z /\ forall i n s, nth_error h i = Some n -> In s (storages n) -> ~ In s (map t_storage ts').
Proof.
  intros Hwf Hr Hb Hc Hp Hn. destruct (call_top_inv _ _ _ _ _ _ Hc) as (st & Ht & <-).
  pose proof (to_top_fresh _ _ _ _ _ _ _ _ Hwf Hr Ht Hp) as Hf. rewrite Hn in Hf. destruct Hf as [Hf Hz]. split; auto.
  intros i n s Hi Hs Hs'. pose proof (heap_below_storages _ _ _ _ _ Hb Hi Hs) as Hlt.
  apply in_map_iff in Hs' as (t & <- & Hin). rewrite Forall_forall in Hf. specialize (Hf t Hin). lia.
Qed.

Lemma call_source_untouched a h ns root r h' :
  wf_heap h -> root < length h -> call_top a h ns root = Some (r, h') ->
  forall i n, nth_error h i = Some n -> nth_error h' i = Some n.
Proof.
  intros Hwf Hr Hc i n Hi. destruct (call_top_inv _ _ _ _ _ _ Hc) as (st & Ht & <-).
  eapply to_top_source_untouched; eauto.
Qed.
