(* C06 - the executed instance (exact rationals Qc, dense matrix) satisfies the hypotheses of Proofs/CGProofs.v,
   so the general theorems apply verbatim to the definition that the harness runs ([cgQ]). *)
From Coq Require Import List Bool Arith Lia Field QArith Qcanon.
Import ListNotations.
From MrVerif Require Import Model.CG Proofs.CGProofs.

Lemma Qc_eq_bool_spec (a b : Qc) : Qc_eq_bool a b = true <-> a = b.
Proof.
  split; [apply Qc_eq_bool_correct|]. intros ->. unfold Qc_eq_bool. destruct (Qc_eq_dec b b); congruence.
Qed.

Definition dotQ := dot Qc (Q2Qc 0) Qcplus Qcmult.
Definition mvQ (M : list (list Qc)) := matvec Qc (Q2Qc 0) Qcplus Qcmult M.
Definition vsubQ := vsub Qc Qcminus Qcopp.
Definition vaddQ := vadd Qc Qcplus.

(* self-adjoint, positive definite on Q^n (u <> 0 is written "u is not orthogonal to everything"), semi-definite *)
Definition symQ (M : list (list Qc)) : Prop := forall u v, dotQ u (mvQ M v) = dotQ (mvQ M u) v.
Definition pdQ (n : nat) (M : list (list Qc)) : Prop :=
  forall u w, length u = n -> length w = n -> dotQ u w <> Q2Qc 0 -> (Q2Qc 0 < dotQ u (mvQ M u))%Qc.
Definition psdQ (M : list (list Qc)) : Prop := forall d, (Q2Qc 0 <= dotQ d (mvQ M d))%Qc.

Lemma mvQ_add M u v : mvQ M (vaddQ u v) = vaddQ (mvQ M u) (mvQ M v).
Proof. exact (matvec_add Qc _ _ _ _ _ _ _ _ Qcft M u v). Qed.
Lemma mvQ_scale M c u : mvQ M (vscale Qc Qcmult c u) = vscale Qc Qcmult c (mvQ M u).
Proof. exact (matvec_scale Qc _ _ _ _ _ _ _ _ Qcft M c u). Qed.

Lemma Qc_le_add_nonneg (a c : Qc) : (Q2Qc 0 <= c -> a <= a + c)%Qc.
Proof.
  intros Hc. replace a with (a + Q2Qc 0)%Qc at 1 by ring. apply Qcplus_le_compat; [apply Qcle_refl|exact Hc].
Qed.

Lemma pdQ_definite n M : pdQ n M ->
  forall u w, length u = n -> length w = n -> dotQ u w <> Q2Qc 0 -> dotQ u (mvQ M u) <> Q2Qc 0.
Proof.
  intros Hpd u w Hu Hw Hne Hz. specialize (Hpd u w Hu Hw Hne). rewrite Hz in Hpd. exact (Qclt_not_eq _ _ Hpd eq_refl).
Qed.

Theorem cgQ_residual M tol b x0 n x r k trace res :
  (cgQ M tol b x0 n = Done res trace \/ cgQ M tol b x0 n = Diverged trace) -> In (x, r, k) trace -> r = vsubQ b (mvQ M x).
Proof.
  exact (cg_residual Qc _ _ _ _ _ _ _ _ Qcft Qc_eq_bool Qc_ltb Qc_eq_bool_spec (mvQ M) (mvQ_add M) (mvQ_scale M) tol b x0 n x r k trace res).
Qed.

Theorem cgQ_finite nn M tol b x0 m trace : length M = nn -> pdQ nn M -> length b = nn -> cgQ M tol b x0 m <> Diverged trace.
Proof.
  intros HM Hpd Hb.
  refine (cg_finite Qc _ _ _ _ _ _ _ _ Qcft Qc_eq_bool Qc_ltb Qc_eq_bool_spec (mvQ M) tol nn _ (pdQ_definite nn M Hpd) b x0 m trace Hb).
  intros u. unfold mvQ. rewrite (matvec_length Qc). exact HM.
Qed.

Definition errHQ M xs := errH Qc (Q2Qc 0) Qcplus Qcmult Qcminus Qcopp (mvQ M) xs.
Definition runQ M tol := cg_run Qc (Q2Qc 0) Qcplus Qcmult Qcminus Qcopp Qcdiv Qc_eq_bool Qc_ltb (mvQ M) tol.
Definition initQ M := cg_init Qc Qcminus Qcopp (mvQ M).

Theorem cgQ_optimal M tol xs b x0 m res h h1 s h2 : symQ M -> psdQ M ->
  runQ M tol b x0 m = (res, h) -> h = h1 ++ s :: h2 -> mvQ M xs = b ->
  forall cs, (errHQ M xs (sx s) <= errHQ M xs (vaddQ (sx s) (lincomb Qc Qcplus Qcmult cs (map sp (h1 ++ [s])))))%Qc.
Proof.
  intros Hs Hp Hr Hh Hb cs.
  exact (cg_optimal Qc _ _ _ _ _ _ _ _ Qcft Qc_eq_bool Qc_ltb Qc_eq_bool_spec (mvQ M) (mvQ_add M) (mvQ_scale M) tol Hs
           (sx (initQ M b x0)) xs Qcle Qc_le_add_nonneg Hp b x0 m res h h1 s h2 eq_refl Hr Hh Hb cs).
Qed.

Theorem cgQ_monotone M tol xs b x0 m res h l1 s s' l2 : symQ M -> psdQ M ->
  runQ M tol b x0 m = (res, h) -> initQ M b x0 :: h = l1 ++ s :: s' :: l2 -> mvQ M xs = b ->
  (errHQ M xs (sx s') <= errHQ M xs (sx s))%Qc.
Proof.
  intros Hs Hp Hr Hh Hb.
  exact (cg_monotone Qc _ _ _ _ _ _ _ _ Qcft Qc_eq_bool Qc_ltb Qc_eq_bool_spec (mvQ M) (mvQ_add M) (mvQ_scale M) tol Hs
           (sx (initQ M b x0)) xs Qcle Qc_le_add_nonneg Hp b x0 m res h l1 s s' l2 eq_refl Hr Hh Hb).
Qed.


(* ---- Krylov optimality and termination within n steps for the executed instance ---- *)
Definition spanQ (n : nat) := span Qc (Q2Qc 0) Qcplus Qcmult n.
Definition kryQ (M : list (list Qc)) := kry Qc (mvQ M).

Lemma initQ_r_len n M b x0 : length M = n -> length b = n -> length (sr (initQ M b x0)) = n.
Proof.
  intros HM Hb. unfold initQ, cg_init. cbn [sr].
  rewrite length_vsub. unfold mvQ. rewrite (matvec_length Qc). unfold CG.vec. rewrite HM, Hb. apply Nat.max_id.
Qed.

Theorem cgQ_optimal_krylov n M tol xs b x0 m res h h1 s h2 : length M = n -> symQ M -> psdQ M ->
  length b = n -> length (sx (initQ M b x0)) = n ->
  runQ M tol b x0 m = (res, h) -> h = h1 ++ s :: h2 -> mvQ M xs = b ->
  (exists d, spanQ n (kryQ M (sr (initQ M b x0)) (length (h1 ++ [s]))) d /\ sx s = vaddQ (sx (initQ M b x0)) d) /\
  forall d, spanQ n (kryQ M (sr (initQ M b x0)) (length (h1 ++ [s]))) d ->
    (errHQ M xs (sx s) <= errHQ M xs (vaddQ (sx (initQ M b x0)) d))%Qc.
Proof.
  intros HM Hs Hp Hb Hx Hr Hh Hxs.
  assert (Hl : forall u, length (mvQ M u) = n) by (intros u; unfold mvQ; rewrite (matvec_length Qc); exact HM).
  pose proof (initQ_r_len n M b x0 HM Hb) as Hr0. split.
  - exact (cg_iterate_in_krylov Qc _ _ _ _ _ _ _ _ Qcft Qc_eq_bool Qc_ltb Qc_eq_bool_spec (mvQ M) (mvQ_add M) (mvQ_scale M) tol n Hl Hs
             _ _ Hr0 b x0 m res h eq_refl Hx Hb eq_refl Hr h1 s h2 Hh).
  - exact (cg_optimal_krylov Qc _ _ _ _ _ _ _ _ Qcft Qc_eq_bool Qc_ltb Qc_eq_bool_spec (mvQ M) (mvQ_add M) (mvQ_scale M) tol n Hl Hs
             _ xs Qcle Qc_le_add_nonneg Hp _ Hr0 b x0 m res h h1 s h2 eq_refl Hx Hb eq_refl Hr Hh Hxs).
Qed.

Theorem cgQ_within_n n M b x0 m : length M = n -> symQ M -> pdQ n M -> length b = n -> (n <= m)%nat ->
  exists y h, runQ M (Q2Qc 0) b x0 m = (Some y, h) /\ dotQ (vsubQ b (mvQ M y)) (vsubQ b (mvQ M y)) = Q2Qc 0.
Proof.
  intros HM Hs Hpd Hb Hnm.
  assert (Hl : forall u, length (mvQ M u) = n) by (intros u; unfold mvQ; rewrite (matvec_length Qc); exact HM).
  pose proof (cg_run_finite Qc _ _ _ _ _ _ _ _ Qcft Qc_eq_bool Qc_ltb Qc_eq_bool_spec (mvQ M) (Q2Qc 0) n Hl (pdQ_definite n M Hpd) b x0 m Hb) as Hfin.
  unfold runQ. destruct (cg_run Qc (Q2Qc 0) Qcplus Qcmult Qcminus Qcopp Qcdiv Qc_eq_bool Qc_ltb (mvQ M) (Q2Qc 0) b x0 m) as [[y|] h] eqn:Er;
    [|cbn in Hfin; congruence].
  exists y, h. split; [reflexivity|].
  exact (cg_exact_within_n Qc _ _ _ _ _ _ _ _ Qcft Qc_eq_bool Qc_ltb Qc_eq_bool_spec (mvQ M) (mvQ_add M) (mvQ_scale M) (Q2Qc 0) n Hl (pdQ_definite n M Hpd) Hs
           _ _ (initQ_r_len n M b x0 HM Hb) b x0 m y h eq_refl Hnm Hb eq_refl Er).
Qed.

(* the reals are an instance of the general theorems as well *)
From Coq Require Import Reals.
Definition Reqb (a b : R) : bool := if Req_EM_T a b then true else false.
Lemma Reqb_spec a b : Reqb a b = true <-> a = b.
Proof. unfold Reqb. destruct (Req_EM_T a b); split; congruence. Qed.
Lemma R_le_add_nonneg (a c : R) : (0 <= c -> a <= a + c)%R.
Proof. intros. rewrite <- (Rplus_0_r a) at 1. apply Rplus_le_compat_l. assumption. Qed.
Definition R_field_theory : field_theory 0%R 1%R Rplus Rmult Rminus Ropp Rdiv Rinv (@eq R) := RealField.Rfield.
