(* C18 legacy: the model of MoveDataMixin._to as it was BEFORE the repairs c3cf2ec (SpatialDimension.apply_ dropped the
   memo) and ff6337f (Module fields converted in place without copy), kept under the module name Legacy together with the
   two refutations that documented the defects (former KF-C18-1 / KF-C18-2).  Nothing else depends on this file. *)
From MrVerif Require Import Base.Prelude.
Local Open Scope nat_scope.

Module Legacy.
Inductive kind := KFloat | KComplex | KInt | KBool.
Inductive prec := P16 | P32 | P64.   (* bits of one real component: float16/32/64, complex32/64/128; ints keep theirs *)

Definition prec_eqb (a b : prec) : bool :=
  match a, b with P16, P16 | P32, P32 | P64, P64 => true | _, _ => false end.

Record tens := mkT { t_kind : kind; t_prec : prec; t_storage : nat; t_content : nat; t_view : bool }.

Inductive node :=
| NTensor (t : tens)
| NMixin (fields : list nat)
| NSpatial (fields : list nat)
| NModule (ts : list tens)
| NPlain (content : nat) (mutable : bool).

Definition heap := list node.

(* ---- the arguments of to() and friends ---------------------------------------------------------- *)
(* a floating torch.dtype: float16/32/64 (FReal) or complex32/64/128 (FCplx) *)
Inductive fkind := FReal | FCplx.
Record dtype := mkD { d_kind : fkind; d_prec : prec }.

Inductive to_call :=
| ToDevice (dt : option dtype) (copy : bool)   (* overload 1: to(device=None, dtype=None, non_blocking, copy=...) *)
| ToDtype (dt : dtype) (copy : bool)           (* overload 2: to(dtype, non_blocking, copy=...)                   *)
| ToTensor (other : dtype) (copy : bool)       (* overload 3: to(tensor, ...): dtype and device of `tensor`       *)
| Cpu (copy : bool)
| Double (copy : bool)
| Single (copy : bool)
| Half (copy : bool)
| Clone.

(* what _to receives *)
Record cfg := mkC { c_dtype : option dtype; c_copy : bool }.

Definition parse (a : to_call) : cfg :=
  match a with
  | ToDevice dt copy => mkC dt copy                      (* parse1 *)
  | ToDtype dt copy => mkC (Some dt) copy                (* parse2 *)
  | ToTensor other copy => mkC (Some other) copy         (* parse3: other.dtype *)
  | Cpu copy => mkC None copy
  | Double copy => mkC (Some (mkD FReal P64)) copy
  | Single copy => mkC (Some (mkD FReal P32)) copy
  | Half copy => mkC (Some (mkD FReal P16)) copy
  | Clone => mkC None true
  end.

(* dtype.to_real() / dtype.to_complex() keep the precision of one component *)
Definition to_real (d : dtype) : dtype := mkD FReal (d_prec d).
Definition to_complex (d : dtype) : dtype := mkD FCplx (d_prec d).

(* _tensor_to: the dtype handed to Tensor.to; None = keep *)
Definition new_dtype (c : cfg) (t : tens) : option dtype :=
  match c_dtype c, t_kind t with
  | Some d, KFloat => Some (to_real d)
  | Some d, KComplex => Some (to_complex d)
  | _, _ => None
  end.

Definition target_prec (c : cfg) (t : tens) : prec :=
  match new_dtype c t with Some d => d_prec d | None => t_prec t end.

(* Tensor.to(dtype, copy=copy) returns self unless copy is set or the dtype differs *)
Definition needs_new (c : cfg) (t : tens) : bool :=
  c_copy c || negb (prec_eqb (target_prec c t) (t_prec t)).

(* the converted tensor lives in a fresh storage [s]; the kind and the content are kept *)
Definition conv_tens (c : cfg) (s : nat) (t : tens) : tens :=
  mkT (t_kind t) (target_prec c t) s (t_content t) false.

(* ---- state: heap, memo (python dict id -> converted object), next unused storage id ------------- *)
Record state := mkS { s_heap : heap; s_memo : list (nat * nat); s_next : nat }.

Fixpoint lookup (k : nat) (m : list (nat * nat)) : option nat :=
  match m with
  | [] => None
  | (a, b) :: r => if Nat.eqb a k then Some b else lookup k r
  end.

Fixpoint upd (h : heap) (i : nat) (n : node) : heap :=
  match h, i with
  | [], _ => []
  | _ :: r, O => n :: r
  | x :: r, S j => x :: upd r j n
  end.

Definition alloc (n : node) (st : state) : nat * state :=
  (length (s_heap st), mkS (s_heap st ++ [n]) (s_memo st) (s_next st)).

Definition add_memo (k v : nat) (st : state) : state := mkS (s_heap st) ((k, v) :: s_memo st) (s_next st).

(* Module._apply(_tensor_to): every parameter / buffer, in order; fresh storages are numbered from [s] *)
Fixpoint conv_module (c : cfg) (ts : list tens) (s : nat) : list tens * nat :=
  match ts with
  | [] => ([], s)
  | t :: r =>
      if needs_new c t
      then let '(r', s') := conv_module c r (S s) in (conv_tens c s t :: r', s')
      else let '(r', s') := conv_module c r s in (t :: r', s')
  end.

(* _convert on an object that is neither a MoveDataMixin ... *)
Definition conv_leaf (c : cfg) (d : nat) (n : node) (st : state) : option (nat * state) :=
  match n with
  | NTensor t =>
      if needs_new c t
      then Some (length (s_heap st),
                 mkS (s_heap st ++ [NTensor (conv_tens c (s_next st) t)]) (s_memo st) (S (s_next st)))
      else Some (d, st)
  | NModule ts =>
      let '(ts', s') := conv_module c ts (s_next st) in
      if c_copy c
      then (* deepcopy(module)._apply(...) *)
           Some (length (s_heap st), mkS (s_heap st ++ [NModule ts']) (s_memo st) s')
      else (* module._apply(...) works IN PLACE on the source's module *)
           Some (d, mkS (upd (s_heap st) d (NModule ts')) (s_memo st) s')
  | NPlain ct mut =>
      if c_copy c && mut
      then Some (length (s_heap st), mkS (s_heap st ++ [NPlain ct mut]) (s_memo st) (s_next st))   (* deepcopy *)
      else Some (d, st)    (* shared (copy=False), or an immutable object whose identity does not matter *)
  | _ => None
  end.

(* SpatialDimension: MoveDataMixin.apply_ with a memo of its own [lm]; the fields are tensors or plain values *)
Fixpoint leaf_loop (c : cfg) (fs : list nat) (lm : list (nat * nat)) (st : state) : option (list nat * state) :=
  match fs with
  | [] => Some ([], st)
  | x :: r =>
      match lookup x lm with
      | Some y => match leaf_loop c r lm st with Some (ys, st') => Some (y :: ys, st') | None => None end
      | None =>
          match nth_error (s_heap st) x with
          | Some n =>
              match conv_leaf c x n st with
              | Some (y, st1) =>
                  match leaf_loop c r ((x, y) :: lm) st1 with Some (ys, st2) => Some (y :: ys, st2) | None => None end
              | None => None
              end
          | None => None
          end
      end
  end.

(* MoveDataMixin.apply_(function, memo=memo, recurse=False): one pass over _items() *)
Fixpoint field_loop (convf : nat -> state -> option (nat * state)) (fs : list nat) (st : state)
  : option (list nat * state) :=
  match fs with
  | [] => Some ([], st)
  | x :: r =>
      match lookup x (s_memo st) with
      | Some y => match field_loop convf r st with Some (ys, st') => Some (y :: ys, st') | None => None end
      | None =>
          match convf x st with
          | Some (y, st1) =>
              match field_loop convf r (add_memo x y st1) with Some (ys, st2) => Some (y :: ys, st2) | None => None end
          | None => None
          end
      end
  end.

(* _convert / _to on the object with id [d].  Fuel bounds the nesting depth (python: the recursion limit). *)
Fixpoint conv (fuel : nat) (c : cfg) (d : nat) (st : state) : option (nat * state) :=
  match fuel with
  | O => None
  | S f =>
      match nth_error (s_heap st) d with
      | None => None
      | Some (NMixin fs) =>
          (* new = shallowcopy(self); new.apply_(_convert, memo=memo, recurse=False) *)
          match field_loop (conv f c) fs st with
          | Some (ys, st') => Some (alloc (NMixin ys) st')
          | None => None
          end
      | Some (NSpatial fs) =>
          match leaf_loop c fs [] st with
          | Some (ys, st') => Some (alloc (NSpatial ys) st')
          | None => None
          end
      | Some n => conv_leaf c d n st
      end
  end.

(* obj.to(...) etc. on the object [root] of heap [h]; [ns] is larger than every storage id in use *)
Definition to_top (c : cfg) (h : heap) (ns : nat) (root : nat) : option (nat * state) :=
  conv (S (length h)) c root (mkS h [] ns).

Definition call_top (a : to_call) (h : heap) (ns root : nat) : option (nat * heap) :=
  match to_top (parse a) h ns root with
  | Some (r, st) => Some (r, s_heap st)
  | None => None
  end.

(* ---- vocabulary of the theorems ------------------------------------------------------------------ *)
(* follow field positions from object [d] *)
Fixpoint resolve (h : heap) (d : nat) (p : list nat) : option nat :=
  match p with
  | [] => Some d
  | i :: q =>
      match nth_error h d with
      | Some (NMixin fs) | Some (NSpatial fs) =>
          match nth_error fs i with Some x => resolve h x q | None => None end
      | _ => None
      end
  end.

(* the same, but only through containers that use the shared memo *)
Fixpoint resolve_g (h : heap) (d : nat) (p : list nat) : option nat :=
  match p with
  | [] => Some d
  | i :: q =>
      match nth_error h d with
      | Some (NMixin fs) => match nth_error fs i with Some x => resolve_g h x q | None => None end
      | _ => None
      end
  end.

(* children have smaller ids than their parents: an acyclic graph, numbered in post-order *)
Definition wf_heap (h : heap) : Prop :=
  forall d fs, (nth_error h d = Some (NMixin fs) \/ nth_error h d = Some (NSpatial fs)) -> Forall (fun x => x < d) fs.

(* SpatialDimension holds tensors or plain values only *)
Definition is_leaf (n : node) : bool := match n with NTensor _ | NPlain _ _ | NModule _ => true | _ => false end.

(* all storage ids in the heap are below [ns] *)
Definition tens_below (ns : nat) (t : tens) : Prop := t_storage t < ns.
Definition node_below (ns : nat) (n : node) : Prop :=
  match n with
  | NTensor t => tens_below ns t
  | NModule ts => Forall (tens_below ns) ts
  | _ => True
  end.
Definition heap_below (ns : nat) (h : heap) : Prop := Forall (node_below ns) h.

(* executable versions for the Examples *)
Definition wf_heapb (h : heap) : bool :=
  forallb (fun '(d, n) => match n with NMixin fs | NSpatial fs => forallb (fun x => x <? d) fs | _ => true end)
          (combine (seq 0 (length h)) h).


(* old behaviour: aliasing across a SpatialDimension boundary was lost by clone() *)
Theorem alias_spatial_refuted : exists h ns root r h' x z z',
  wf_heap h /\ call_top Clone h ns root = Some (r, h')
  /\ resolve h root [0; 0] = Some x /\ resolve h root [1] = Some x
  /\ resolve h' r [0; 0] = Some z /\ resolve h' r [1] = Some z' /\ z <> z'.
Proof.
  exists [NTensor (mkT KFloat P32 0 0 false); NTensor (mkT KFloat P32 1 1 false); NSpatial [0; 1; 1]; NMixin [2; 0]],
         2, 3. do 5 eexists.
  split.
  - intros d fs [H|H]; destruct d as [|[|[|[|d]]]]; simpl in H; try discriminate; try (destruct d; discriminate);
      injection H as <-; repeat constructor.
  - vm_compute. split; [reflexivity|]. split; [reflexivity|]. split; [reflexivity|]. split; [reflexivity|].
    split; [reflexivity|]. discriminate.
Qed.

(* old behaviour: a precision-changing call without copy modified the source's module node *)
Theorem source_modified_nocopy_refuted : exists h ns root r h',
  wf_heap h /\ call_top (Single false) h ns root = Some (r, h') /\ nth_error h' 0 <> nth_error h 0.
Proof.
  exists [NModule [mkT KFloat P64 0 0 false]; NMixin [0]], 1, 1. do 2 eexists.
  split.
  - intros d fs [H|H]; destruct d as [|[|d]]; simpl in H; try discriminate; try (destruct d; discriminate);
      injection H as <-; repeat constructor.
  - vm_compute. split; [reflexivity|discriminate].
Qed.
End Legacy.
