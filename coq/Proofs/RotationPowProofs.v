(* Proofs, part 4: De Moivre over R and the integer power of proper / improper rotations. *)
From MrVerif Require Import Base.Prelude Base.StarRing Model.Rotation Model.Euler Proofs.RotationProofs Proofs.RotationRealProofs.
From Coq Require Import Reals Lra Psatz.
Local Open Scope R_scope.

Ltac toR := cbn [StarRing.K StarRing.k0 StarRing.k1 StarRing.kadd StarRing.kmul StarRing.ksub StarRing.kopp RRing] in *.

Lemma polar_mul (u : vecR) (a b : R) : dot3 RRing u u = 1 -> qmul RRing (polar u a) (polar u b) = polar u (a + b).
Proof.
  intros Hu. dvec u. unfold polar. unf. toR. rewrite sin_plus, cos_plus. pair_split; try ring.
  transitivity (cos a * cos b - sin a * sin b * (k * k + k0 * k0 + k1 * k1)); [ring | rewrite Hu; ring].
Qed.
Lemma polar_0 (u : vecR) : polar u 0 = qone RRing.
Proof. dvec u. unfold polar, qone. unf. toR. rewrite sin_0, cos_0. pair_split; ring. Qed.
Lemma polar_conj (u : vecR) (a : R) : qconj RRing (polar u a) = polar u (- a).
Proof. dvec u. unfold polar. unf. toR. rewrite sin_neg, cos_neg. pair_split; ring. Qed.
Lemma polar_unit (u : vecR) (a : R) : dot3 RRing u u = 1 -> qnorm2 RRing (polar u a) = 1.
Proof.
  intros Hu. dvec u. unfold polar. unf. toR. pose proof (sin2_cos2 a) as H. unfold Rsqr in H.
  transitivity (sin a * sin a * (k * k + k0 * k0 + k1 * k1) + cos a * cos a); [ring | rewrite Hu; lra].
Qed.
(* De Moivre: the n-fold Hamilton product of (sin(phi) u, cos(phi)) is (sin(n phi) u, cos(n phi)) *)
Theorem de_moivre (u : vecR) (phi : R) (n : nat) : dot3 RRing u u = 1 ->
  qpow_nat RRing n (polar u phi) = polar u (INR n * phi).
Proof.
  intros Hu. induction n.
  - cbn [qpow_nat INR]. rewrite Rmult_0_l. symmetry. apply polar_0.
  - cbn [qpow_nat]. rewrite IHn, polar_mul by assumption. f_equal. rewrite S_INR. ring.
Qed.

(* from_rotvec(t u) for a unit axis u and any real t is the polar form with half angle t/2 *)
Lemma from_rotvec_polar (u : vecR) (t : R) : dot3 RRing u u = 1 -> from_rotvec (vscal RRing t u) = polar u (t / 2).
Proof.
  intros Hu.
  assert (Hd : dot3 RRing (vscal RRing t u) (vscal RRing t u) = t * t).
  { dvec u. unf. toR. transitivity (t * t * (k * k + k0 * k0 + k1 * k1)); [ring | rewrite Hu; ring]. }
  unfold from_rotvec. rewrite Hd. cbv zeta.
  replace (t * t) with (Rsqr t) by reflexivity. rewrite sqrt_Rsqr_abs.
  unfold rotvec_scale, polar. destruct (Req_EM_T (Rabs t) 0) as [E|E].
  - assert (t = 0) by (destruct (Req_dec t 0); [assumption | exfalso; now apply (Rabs_no_R0 t)]). subst t.
    dvec u. unf. toR. rewrite Rabs_R0. replace (0 / 2) with 0 by field. rewrite sin_0, cos_0. pair_split; ring.
  - assert (Ht : t <> 0) by (intros ->; apply E, Rabs_R0).
    assert (Hs : sin (Rabs t / 2) / Rabs t * t = sin (t / 2)).
    { unfold Rabs. destruct (Rcase_abs t).
      - replace (- t / 2) with (- (t / 2)) by field. rewrite sin_neg. field. assumption.
      - field. assumption. }
    assert (Hc : cos (Rabs t / 2) = cos (t / 2)).
    { unfold Rabs. destruct (Rcase_abs t); [|reflexivity]. replace (- t / 2) with (- (t / 2)) by field. apply cos_neg. }
    dvec u. unf. toR. rewrite Hc. pair_split; try reflexivity.
    + rewrite <- Hs. ring.
    + rewrite <- Hs. ring.
    + rewrite <- Hs. ring.
Qed.

(* __pow__ computes from_rotvec(n * rotvec) with flag (flag && n odd); for every integer n this is the n-fold composition
   (negative n: of the inverse), for proper and improper rotations alike, whenever rotvec = t u is a rotation vector of
   the stored quaternion *)
Theorem pow_is_repeated_composition (u : vecR) (t : R) (f : bool) (n : Z) : dot3 RRing u u = 1 ->
  rpow_code n (vscal RRing t u) f = rpow RRing n (from_rotvec (vscal RRing t u), f).
Proof.
  intros Hu. unfold rpow_code.
  assert (Hs : vscal RRing (IZR n) (vscal RRing t u) = vscal RRing (IZR n * t) u) by (dvec u; unf; toR; pair_split; ring).
  rewrite Hs, !from_rotvec_polar by assumption.
  apply injective_projections; cbn [fst snd]; [| symmetry; apply (rpow_flag RRing n (polar u (t / 2), f))].
  unfold rpow. destruct (n <? 0)%Z eqn:E.
  - rewrite rpow_nat_quat. cbn [rinv fst]. rewrite polar_conj, de_moivre by assumption. f_equal.
    rewrite INR_IZR_INZ, Z2Nat.id by lia. rewrite opp_IZR. field.
  - rewrite rpow_nat_quat. cbn [fst]. rewrite de_moivre by assumption. f_equal.
    rewrite INR_IZR_INZ, Z2Nat.id by lia. field.
Qed.
(* and its matrix: (+/-)^n M(q)^n  --  (-R)^n = (-1)^n R^n *)
Lemma sgn_pow_flag (n : nat) (f : bool) : sgn RRing (f && Nat.odd n) = (sgn RRing f) ^ n.
Proof.
  induction n; [destruct f; cbn; toR; ring|]. rewrite Nat.odd_succ, <- Nat.negb_odd. cbn [pow]. rewrite <- IHn.
  destruct f, (Nat.odd n); cbn; toR; ring.
Qed.
