(* Proofs about Model/Rotation.v, part 2: batch edits act element-wise (naturality of the structural skeleton). *)
From MrVerif Require Import Base.Prelude Base.StarRing Model.Rotation.

Section ListEditFacts.
  Variables (E M : Type) (obs : E -> M).
  Lemma map_set_nth i x (l : list E) : map obs (set_nth i x l) = set_nth i (obs x) (map obs l).
  Proof. revert i; induction l as [|h t IH]; intros [|i]; cbn; try reflexivity. now rewrite IH. Qed.
  Lemma map_gather d idxs (l : list E) : map obs (gather d idxs l) = gather (obs d) idxs (map obs l).
  Proof. unfold gather. rewrite map_map. apply map_ext. intros i. symmetry. apply map_nth. Qed.
  Lemma map_scatter idxs vals (l : list E) : map obs (scatter idxs vals l) = scatter idxs (map obs vals) (map obs l).
  Proof.
    revert vals l; induction idxs as [|i it IH]; intros [|x xt] l; cbn; try reflexivity.
    now rewrite IH, map_set_nth.
  Qed.
  Lemma set_nth_length i (x : E) l : length (set_nth i x l) = length l.
  Proof. revert i; induction l as [|h t IH]; intros [|i]; cbn; try reflexivity. now rewrite IH. Qed.
  Lemma nth_set_nth_same i (x d : E) l : (i < length l)%nat -> nth i (set_nth i x l) d = x.
  Proof. revert i; induction l as [|h t IH]; intros [|i] H; cbn in *; try lia; [reflexivity | apply IH; lia]. Qed.
  Lemma nth_set_nth_other i j (x d : E) l : i <> j -> nth j (set_nth i x l) d = nth j l d.
  Proof. revert i j; induction l as [|h t IH]; intros [|i] [|j] H; cbn; try reflexivity; try lia. apply IH. lia. Qed.
End ListEditFacts.

Section Naturality.
  Variable R : StarRing.
  Variables (E M : Type) (dE : E) (fe : elem_op R -> E -> E) (fm : elem_op R -> M -> M) (obs : E -> M).
  Variable good : elem_op R -> Prop.
  Hypothesis comm : forall k e, good k -> obs (fe k e) = fm k (obs e).

  Definition map_edit (e : edit R E) : edit R M :=
    match e with
    | EGather idxs => EGather idxs
    | ESetItem idxs vals => ESetItem idxs (map obs vals)
    | EConcat others => EConcat (map obs others)
    | EReshape => EReshape | EReflect => EReflect | EInvertAxes => EInvertAxes
    | ESetComp c vals => ESetComp c vals
    end.
  Definition edit_good (e : edit R E) : Prop :=
    match e with
    | EReshape => good KNormalize | EReflect => good KReflect | EInvertAxes => good KInvertAxes
    | ESetComp c vals => Forall (fun a => good (KSetComp c a)) vals
    | _ => True
    end.

  Lemma map_map2_setcomp c vals (l : list E) : Forall (fun a => good (KSetComp c a)) vals ->
    map obs (map2_setcomp R E fe c vals l) = map2_setcomp R M fm c vals (map obs l).
  Proof.
    intros H; revert l; induction H as [|a vt Ha Hv IH]; intros [|e t]; cbn; try reflexivity.
    now rewrite comm, IH.
  Qed.
  Lemma step_natural (st : list E) (e : edit R E) : edit_good e ->
    map obs (step R E dE fe st e) = step R M (obs dE) fm (map obs st) (map_edit e).
  Proof.
    destruct e; cbn [step map_edit edit_good]; intros H.
    - apply map_gather.
    - apply map_scatter.
    - apply map_app.
    - rewrite !map_map. apply map_ext. intros; now apply comm.
    - rewrite !map_map. apply map_ext. intros; now apply comm.
    - rewrite !map_map. apply map_ext. intros; now apply comm.
    - now apply map_map2_setcomp.
  Qed.
  Theorem run_natural (h : list (edit R E)) (st : list E) : Forall edit_good h ->
    map obs (run R E dE fe h st) = run R M (obs dE) fm (map map_edit h) (map obs st).
  Proof.
    unfold run. intros H; revert st; induction H as [|e h He Hh IH]; intros st; cbn [fold_left map]; [reflexivity|].
    now rewrite IH, step_natural.
  Qed.
  Theorem trace_natural (h : list (edit R E)) (st : list E) : Forall edit_good h ->
    map (map obs) (trace R E dE fe h st) = trace R M (obs dE) fm (map map_edit h) (map obs st).
  Proof.
    intros H; revert st; induction H as [|e h He Hh IH]; intros st; cbn [trace map]; [reflexivity|].
    now rewrite IH, step_natural.
  Qed.
End Naturality.

(* Structural facts that hold for every history, with no condition on the per-element operations:
   the edits never mix elements.  Stated for one step: every element of the new state is either an inserted value or
   the image of exactly one old element under one per-element operation (or the old element itself). *)
Section Locality.
  Variable R : StarRing.
  Variables (E : Type) (dE : E) (fe : elem_op R -> E -> E).
  Inductive from_old (st : list E) (vals : list E) (x : E) : Prop :=
  | FO_same : In x st -> from_old st vals x
  | FO_default : x = dE -> from_old st vals x
  | FO_val : In x vals -> from_old st vals x
  | FO_op k e : In e st -> x = fe k e -> from_old st vals x.
  Definition edit_values (e : edit R E) : list E :=
    match e with ESetItem _ vals => vals | EConcat o => o | _ => [] end.
  Lemma In_set_nth i (x y : E) l : In y (set_nth i x l) -> y = x \/ In y l.
  Proof. revert i; induction l as [|h t IH]; intros [|i]; cbn; intuition. destruct (IH _ H0); intuition. Qed.
  Lemma In_scatter idxs vals (l : list E) y : In y (scatter idxs vals l) -> In y vals \/ In y l.
  Proof.
    revert vals l; induction idxs as [|i it IH]; intros [|x xt] l; cbn; intuition.
    destruct (IH _ _ H) as [H1|H1]; [intuition|]. destruct (In_set_nth _ _ _ _ H1); subst; intuition.
  Qed.
  Lemma In_map2_setcomp c vals (l : list E) y : In y (map2_setcomp R E fe c vals l) ->
    In y l \/ exists a e, In e l /\ y = fe (KSetComp c a) e.
  Proof.
    revert vals; induction l as [|e t IH]; intros [|a vt]; cbn; intuition.
    - right. exists a, e. intuition.
    - destruct (IH _ H0) as [H1|[a' [e' [H1 H2]]]]; [intuition|]. right. exists a', e'. intuition.
  Qed.
  Theorem step_local (st : list E) (e : edit R E) x :
    In x (step R E dE fe st e) -> from_old st (edit_values e) x.
  Proof.
    destruct e; cbn [step edit_values]; intros H.
    - unfold gather in H. apply in_map_iff in H. destruct H as [i [<- _]].
      destruct (Nat.lt_ge_cases i (length st)); [apply FO_same; now apply nth_In | apply FO_default; now apply nth_overflow].
    - destruct (In_scatter _ _ _ _ H); [now apply FO_val | now apply FO_same].
    - apply in_app_or in H. destruct H; [now apply FO_same | now apply FO_val].
    - apply in_map_iff in H. destruct H as [e [<- H]]. now apply (FO_op _ _ _ KNormalize e).
    - apply in_map_iff in H. destruct H as [e [<- H]]. now apply (FO_op _ _ _ KReflect e).
    - apply in_map_iff in H. destruct H as [e [<- H]]. now apply (FO_op _ _ _ KInvertAxes e).
    - destruct (In_map2_setcomp _ _ _ _ H) as [H1|[a [e [H1 H2]]]]; [now apply FO_same | now apply (FO_op _ _ _ (KSetComp c a) e)].
  Qed.
End Locality.
