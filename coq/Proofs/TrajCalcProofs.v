(* Lemmas about Model/TrajCalc.v: every trajectory sample agrees with its readout's indices and flags; rescaling of
   sequence-file trajectories is always defined. *)
From MrVerif Require Import Base.Prelude Model.KLoad Model.TrajCalc.
From Coq Require Import QArith Qabs Qminmax Reals Lra.
Local Open Scope Z_scope.

Lemma kfreq_forward r j : is_reversed r = false -> kfreq r j = j - r_center r.
Proof. unfold kfreq. now intros ->. Qed.

Lemma kfreq_reversed r j : is_reversed r = true -> kfreq r j = (r_n r - 1 - j) - r_center r.
Proof. unfold kfreq. now intros ->. Qed.

(* a reversed readout is the forward readout read backwards *)
Lemma kfreq_flip r r' j : r_n r = r_n r' -> r_center r = r_center r' -> is_reversed r = true -> is_reversed r' = false ->
  kfreq r j = kfreq r' (r_n r - 1 - j).
Proof. intros En Ec H1 H2. rewrite (kfreq_reversed _ _ H1), (kfreq_forward _ _ H2). lia. Qed.

Lemma kfreq_injective r j j' : kfreq r j = kfreq r j' -> j = j'.
Proof. unfold kfreq. destruct (is_reversed r); lia. Qed.

(* the k-space centre is sampled at centre_sample (forward) resp. at its mirror image (reversed) *)
Lemma kfreq_zero r j : kfreq r j = 0 <-> j = (if is_reversed r then r_n r - 1 - r_center r else r_center r).
Proof. unfold kfreq. destruct (is_reversed r); lia. Qed.

Lemma kfreq_step r j : kfreq r (j + 1) - kfreq r j = (if is_reversed r then -1 else 1).
Proof. unfold kfreq. destruct (is_reversed r); lia. Qed.

(* from a Cartesian trajectory point the indices of its readout and the sample number are recovered *)
Lemma cartesian_recover c1 c2 r j kz ky kx : cartesian c1 c2 r j = (kz, ky, kx) ->
  r_k2 r = kz + c2 /\ r_k1 r = ky + c1 /\
  j = (if is_reversed r then r_n r - 1 - (kx + r_center r) else kx + r_center r).
Proof. unfold cartesian, kfreq. intros E. injection E as <- <- <-. destruct (is_reversed r); lia. Qed.

Lemma cartesian_centre c1 c2 r : r_k1 r = c1 -> r_k2 r = c2 -> is_reversed r = false -> cartesian c1 c2 r (r_center r) = (0, 0, 0).
Proof. intros E1 E2 H. unfold cartesian. rewrite (kfreq_forward _ _ H), E1, E2. f_equal; [f_equal|]; lia. Qed.

Lemma cartesian_injective c1 c2 r r' j j' : is_reversed r = is_reversed r' -> r_n r = r_n r' -> r_center r = r_center r' ->
  cartesian c1 c2 r j = cartesian c1 c2 r' j' -> r_k1 r = r_k1 r' /\ r_k2 r = r_k2 r' /\ j = j'.
Proof.
  unfold cartesian, kfreq. intros Hr Hn Hc E. injection E as E1 E2 E3. rewrite Hr, Hn, Hc in E3.
  destruct (is_reversed r'); lia.
Qed.

(* ---- radial / RPE: the Cartesian coordinates in R ------------------------------------------------------------------- *)
Definition radial_kx (angle : R) (r : readout) (j : Z) : R := (IZR (fst (radial2d_polar r j)) * cos (IZR (snd (radial2d_polar r j)) * angle))%R.
Definition radial_ky (angle : R) (r : readout) (j : Z) : R := (IZR (fst (radial2d_polar r j)) * sin (IZR (snd (radial2d_polar r j)) * angle))%R.

Lemma radial_norm angle r j : (radial_kx angle r j * radial_kx angle r j + radial_ky angle r j * radial_ky angle r j
                               = IZR (kfreq r j) * IZR (kfreq r j))%R.
Proof.
  unfold radial_kx, radial_ky, radial2d_polar. cbn [fst snd].
  pose proof (sin2_cos2 (IZR (r_k1 r) * angle)) as H. unfold Rsqr in H.
  set (c := cos _) in *. set (s := sin _) in *. set (k := IZR _).
  replace (k * c * (k * c) + k * s * (k * s))%R with (k * k * (s * s + c * c))%R by ring. rewrite H. ring.
Qed.

Lemma radial_spoke0 angle r j : r_k1 r = 0 -> radial_kx angle r j = IZR (kfreq r j) /\ radial_ky angle r j = 0%R.
Proof.
  intros E. unfold radial_kx, radial_ky, radial2d_polar. cbn [fst snd]. rewrite E, Rmult_0_l, cos_0, sin_0. split; ring.
Qed.

(* the point sampled at the centre sample lies in the k-space centre for every spoke *)
Lemma radial_centre angle r j : kfreq r j = 0 -> radial_kx angle r j = 0%R /\ radial_ky angle r j = 0%R.
Proof. intros E. unfold radial_kx, radial_ky, radial2d_polar. cbn [fst snd]. rewrite E. split; ring. Qed.

Definition rpe_ky (angle : R) (shifts : list Q) (c1 : Z) (r : readout) : R := (Q2R (rpe_krad shifts c1 r) * cos (IZR (r_k2 r) * angle))%R.
Definition rpe_kz (angle : R) (shifts : list Q) (c1 : Z) (r : readout) : R := (Q2R (rpe_krad shifts c1 r) * sin (IZR (r_k2 r) * angle))%R.

Lemma rpe_norm angle shifts c1 r :
  (rpe_ky angle shifts c1 r * rpe_ky angle shifts c1 r + rpe_kz angle shifts c1 r * rpe_kz angle shifts c1 r
   = Q2R (rpe_krad shifts c1 r) * Q2R (rpe_krad shifts c1 r))%R.
Proof.
  unfold rpe_ky, rpe_kz. pose proof (sin2_cos2 (IZR (r_k2 r) * angle)) as H. unfold Rsqr in H.
  set (c := cos _) in *. set (s := sin _) in *. set (k := Q2R _).
  replace (k * c * (k * c) + k * s * (k * s))%R with (k * k * (s * s + c * c))%R by ring. rewrite H. ring.
Qed.

(* the k-space centre of a phase-encoding line is never shifted *)
Lemma rpe_centre_unshifted shifts c1 r : r_k1 r = c1 -> (rpe_krad shifts c1 r == 0)%Q.
Proof.
  intros E. unfold rpe_krad. rewrite E, Z.sub_diag. destruct shifts; [reflexivity|]. cbn. reflexivity.
Qed.

Lemma rpe_shift shifts c1 r : shifts <> [] -> r_k1 r <> c1 ->
  rpe_krad shifts c1 r = (inject_Z (r_k1 r - c1) + nth (Z.to_nat (r_k2 r mod Z.of_nat (length shifts))) shifts 0%Q)%Q.
Proof.
  intros Hs Hk. unfold rpe_krad. destruct shifts as [|s0 sr]; [congruence|].
  destruct (Z.eqb_spec (r_k1 r - c1) 0); [lia|reflexivity].
Qed.

(* ---- Pulseq rescaling is always defined (never 0/0) --------------------------------------------------------------- *)
Lemma pulseq_defined enc ks : exists res, pulseq_rescale enc ks = Some res /\ length res = length ks.
Proof.
  unfold pulseq_rescale. destruct (Qle_bool (qabs_max ks) 0) eqn:E; [eauto|].
  unfold safe_div. destruct (Qeq_bool (2 * qabs_max ks) 0) eqn:E2.
  - exfalso. apply Qeq_bool_iff in E2. apply Qmult_integral in E2. destruct E2 as [E2|E2]; [discriminate E2|].
    assert (Qle_bool (qabs_max ks) 0 = true) by (apply Qle_bool_iff; rewrite E2; apply Qle_refl). congruence.
  - eexists. split; [reflexivity|]. apply map_length.
Qed.

Lemma qabs_max_zeros n : qabs_max (repeat 0%Q n) = 0%Q.
Proof. induction n as [|n IH]; cbn; [reflexivity|]. unfold qabs_max in IH. rewrite IH. reflexivity. Qed.

(* a direction without gradients stays identically zero *)
Lemma pulseq_zero_axis enc n : pulseq_rescale enc (repeat 0%Q n) = Some (repeat 0%Q n).
Proof. unfold pulseq_rescale. rewrite qabs_max_zeros. reflexivity. Qed.

Lemma pulseq_unguarded_undefined enc n : pulseq_rescale_unguarded enc (repeat 0%Q n) = None.
Proof. unfold pulseq_rescale_unguarded. rewrite qabs_max_zeros. reflexivity. Qed.

Lemma qabs_max_ge ks k : In k ks -> (Qabs k <= qabs_max ks)%Q.
Proof.
  induction ks as [|x ks IH]; cbn; [tauto|]. intros [->|H].
  - apply Q.le_max_l.
  - eapply Qle_trans; [apply IH, H|apply Q.le_max_r].
Qed.

Lemma qabs_max_nonneg ks : (0 <= qabs_max ks)%Q.
Proof. destruct ks as [|x ks]; cbn; [apply Qle_refl|]. eapply Qle_trans; [apply Qabs_nonneg|apply Q.le_max_l]. Qed.

(* after rescaling every coordinate lies in [-enc/2, enc/2] *)
Lemma pulseq_bound enc ks res k' : 0 <= enc -> pulseq_rescale enc ks = Some res -> (0 < qabs_max ks)%Q -> In k' res ->
  (Qabs k' <= inject_Z enc / 2)%Q.
Proof.
  intros He. unfold pulseq_rescale. intros E Hm Hin.
  destruct (Qle_bool (qabs_max ks) 0) eqn:E0.
  { apply Qle_bool_iff in E0. exfalso. apply (Qlt_irrefl 0). eapply Qlt_le_trans; eauto. }
  unfold safe_div in E. destruct (Qeq_bool (2 * qabs_max ks) 0); [discriminate|]. injection E as <-.
  apply in_map_iff in Hin. destruct Hin as [k [<- Hk]].
  set (m := qabs_max ks) in *.
  apply Qle_trans with (Qabs (k * (inject_Z enc / (2 * m))))%Q.
  { apply Qle_lteq. right. exact (Qabs_wd _ _ (Qred_correct (k * (inject_Z enc / (2 * m))))). }
  assert (Hpos : (0 < 2 * m)%Q) by (apply Qmult_lt_0_compat; [reflexivity|exact Hm]).
  assert (Hs : (0 <= inject_Z enc / (2 * m))%Q).
  { apply Qle_shift_div_l; [exact Hpos|]. rewrite Qmult_0_l. change 0%Q with (inject_Z 0). rewrite <- Zle_Qle. exact He. }
  rewrite Qabs_Qmult. rewrite (Qabs_pos (inject_Z enc / (2 * m))) by exact Hs.
  apply Qle_trans with (m * (inject_Z enc / (2 * m)))%Q.
  - apply Qmult_le_compat_r; [apply qabs_max_ge, Hk|exact Hs].
  - assert (Hne : ~ (m == 0)%Q) by (intros Hz; rewrite Hz in Hm; now apply Qlt_irrefl in Hm).
    assert (Eq : (m * (inject_Z enc / (2 * m)) == inject_Z enc / 2)%Q) by (field; exact Hne).
    rewrite Eq. apply Qle_refl.
Qed.
