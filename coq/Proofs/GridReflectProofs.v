(* C20 - reflection padding: the reflected coordinate always lies inside the reflection interval, coordinates inside are left alone,
   and the map is even about the lower border. *)
From MrVerif Require Import Base.Prelude Model.GridSample Model.GridReflect.
From Coq Require Import QArith Qround Qminmax Qabs Lra Lqa.
Local Open Scope Q_scope.

Lemma inject_Z_minus a b : inject_Z (a - b) = inject_Z a - inject_Z b.
Proof. unfold Z.sub. rewrite inject_Z_plus, inject_Z_opp. reflexivity. Qed.

Lemma floor_bounds (d span : Q) : 0 < span ->
  inject_Z (Qfloor (d / span)) * span <= d /\ d < (inject_Z (Qfloor (d / span)) + 1) * span.
Proof.
  intros Hs. pose proof (Qfloor_le (d / span)) as H1. pose proof (Qlt_floor (d / span)) as H2.
  assert (E : d / span * span == d) by (field; lra).
  split.
  - rewrite <- E at 2. apply Qmult_le_compat_r; [exact H1|lra].
  - rewrite <- E at 1. apply Qmult_lt_compat_r; [exact Hs|]. rewrite inject_Z_plus in H2. exact H2.
Qed.

Section Reflect.
  Variables (tl th : Z).
  Hypothesis Hlt : (tl < th)%Z.
  Let mn := inject_Z tl / 2.
  Let span := inject_Z (th - tl) / 2.

  Lemma span_pos : 0 < span.
  Proof.
    unfold span. assert (H : 0 < inject_Z (th - tl)) by (replace 0 with (inject_Z 0) by reflexivity; rewrite <- Zlt_Qlt; lia).
    apply Qlt_shift_div_l; [reflexivity|]. rewrite Qmult_0_l. exact H.
  Qed.

  (* the result lies in [min, min + span] *)
  Theorem reflect_range x : mn <= reflectQ tl th x <= mn + span.
  Proof.
    unfold reflectQ. destruct (Z.eqb_spec tl th) as [E|_]; [lia|]. fold mn span. cbv zeta.
    pose proof span_pos as Hs. destruct (floor_bounds (Qabs (x - mn)) span Hs) as [B1 B2].
    destruct (Z.even _); split; lra.
  Qed.

  (* coordinates inside the interval are fixed *)
  Theorem reflect_fixed x : mn <= x <= mn + span -> reflectQ tl th x == x.
  Proof.
    intros [Hx1 Hx2]. unfold reflectQ. destruct (Z.eqb_spec tl th) as [E|_]; [lia|]. fold mn span. cbv zeta.
    pose proof span_pos as Hs.
    assert (Ed : Qabs (x - mn) == x - mn) by (apply Qabs_pos; lra).
    set (d := Qabs (x - mn)) in *.
    destruct (floor_bounds d span Hs) as [B1 B2].
    set (fl := Qfloor (d / span)) in *.
    assert (H0 : (0 <= fl)%Z).
    { unfold fl. replace 0%Z with (Qfloor 0) by reflexivity. apply Qfloor_resp_le. apply Qle_shift_div_l; [exact Hs|]. lra. }
    assert (H1 : (fl <= 1)%Z).
    { destruct (Z_le_gt_dec fl 1) as [|Hg]; [assumption|exfalso].
      assert (2 <= inject_Z fl) by (replace 2 with (inject_Z 2) by reflexivity; rewrite <- Zle_Qle; lia). nra. }
    assert (C : fl = 0%Z \/ fl = 1%Z) by lia. destruct C as [C|C]; rewrite C in *; cbn [Z.even].
    - replace (inject_Z 0) with 0 in * by reflexivity. lra.
    - replace (inject_Z 1) with 1 in * by reflexivity. lra.
  Qed.

  (* even about the lower border: positions mirrored at min are sampled alike *)
  Theorem reflect_even x : reflectQ tl th (2 * mn - x) == reflectQ tl th x.
  Proof.
    unfold reflectQ. destruct (Z.eqb_spec tl th) as [E|_]; [reflexivity|]. fold mn span. cbv zeta.
    assert (Ea : Qabs (2 * mn - x - mn) == Qabs (x - mn)).
    { rewrite <- (Qabs_opp (x - mn)). apply Qabs_wd. ring. }
    assert (Ef : Qfloor (Qabs (2 * mn - x - mn) / span) = Qfloor (Qabs (x - mn) / span)) by (apply Qfloor_comp; rewrite Ea; reflexivity).
    rewrite Ef. destruct (Z.even _); rewrite Ea; reflexivity.
  Qed.
End Reflect.

(* with reflection padding the clip that follows never moves the coordinate when align_corners = true and n >= 2 *)
Theorem pad_reflect_ac_in_image n ix : (2 <= n)%Z -> 0 <= pad_reflect true n ix <= inject_Z n - 1.
Proof.
  intros Hn. unfold pad_reflect, clip.
  assert (H2 : 2 <= inject_Z n) by (replace 2 with (inject_Z 2) by reflexivity; rewrite <- Zle_Qle; lia).
  assert (0 <= inject_Z n - 1) by lra.
  split.
  - apply Q.min_glb; [assumption|apply Q.le_max_r].
  - apply Q.le_min_l.
Qed.

(* a coordinate on a pixel centre is not moved *)
Theorem pad_reflect_on_pixel ac n j : (2 <= n)%Z -> (0 <= j < n)%Z -> pad_reflect ac n (inject_Z j) == inject_Z j.
Proof.
  intros Hn Hj. unfold pad_reflect, reflect_coord.
  assert (Hj0 : 0 <= inject_Z j) by (replace 0 with (inject_Z 0) by reflexivity; rewrite <- Zle_Qle; lia).
  assert (Hj1 : inject_Z j <= inject_Z n - 1).
  { assert (inject_Z j <= inject_Z (n - 1)) by (rewrite <- Zle_Qle; lia). rewrite inject_Z_minus in H. exact H. }
  assert (R : (if ac then reflectQ 0 (2 * (n - 1)) (inject_Z j) else reflectQ (-1) (2 * n - 1) (inject_Z j)) == inject_Z j).
  { destruct ac.
    - apply reflect_fixed; [lia|]. change (inject_Z 0) with 0.
      assert (E : inject_Z (2 * (n - 1) - 0) == 2 * (inject_Z n - 1)).
      { rewrite Z.sub_0_r, inject_Z_mult, inject_Z_minus. reflexivity. }
      assert (Eh : forall q, q / 2 == q * (1 # 2)) by (intros; field).
      rewrite E, !Eh. split; lra.
    - apply reflect_fixed; [lia|]. change (inject_Z (-1)) with (-1).
      assert (E : inject_Z (2 * n - 1 - -1) == 2 * inject_Z n).
      { replace (2 * n - 1 - -1)%Z with (2 * n)%Z by lia. rewrite inject_Z_mult. reflexivity. }
      assert (Eh : forall q, q / 2 == q * (1 # 2)) by (intros; field).
      rewrite E, !Eh. split; lra. }
  unfold clip. rewrite R. rewrite Q.max_l by exact Hj0. apply Q.min_r. exact Hj1.
Qed.
