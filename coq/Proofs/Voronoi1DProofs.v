From Coq Require Import QArith List.
From MrVerif Require Import Model.Voronoi1D.
