(* Proofs about Model/Voronoi1D.v: the code-shaped dcf_1d equals the neighbour characterisation `weight`, and the
   characterisation has the invariances of Voronoi cell lengths. *)
From Coq Require Import QArith Qminmax Qabs List Lia Lra Psatz Permutation Sorted Setoid Morphisms.
From MrVerif Require Import Model.Voronoi1D.
Import ListNotations.
Open Scope Q_scope.

(* ---------- booleans ---------- *)
Lemma Qlt_bool_iff a b : Qlt_bool a b = true <-> a < b.
Proof.
  unfold Qlt_bool. rewrite Bool.negb_true_iff. split; intros H.
  - apply Qnot_le_lt. intros C. apply Qle_bool_iff in C. congruence.
  - destruct (Qle_bool b a) eqn:E; [|reflexivity]. apply Qle_bool_iff in E. exfalso. apply (Qlt_not_le _ _ H E).
Qed.

Lemma Qlt_bool_false a b : Qlt_bool a b = false <-> b <= a.
Proof.
  split; intros H.
  - destruct (Qlt_le_dec a b) as [L|L]; [|exact L]. apply Qlt_bool_iff in L. congruence.
  - destruct (Qlt_bool a b) eqn:E; [|reflexivity]. apply Qlt_bool_iff in E. exfalso. apply (Qlt_not_le _ _ E H).
Qed.

Lemma Qeq_bool_true a b : Qeq_bool a b = true <-> a == b.
Proof. apply Qeq_bool_iff. Qed.

Lemma Qeq_bool_compat a a' b b' : a == a' -> b == b' -> Qeq_bool a b = Qeq_bool a' b'.
Proof.
  intros Ha Hb. destruct (Qeq_bool a b) eqn:E, (Qeq_bool a' b') eqn:E'; try reflexivity.
  - apply Qeq_bool_iff in E. assert (a' == b') as H by (rewrite <- Ha, <- Hb; exact E). apply Qeq_bool_iff in H. congruence.
  - apply Qeq_bool_iff in E'. assert (a == b) as H by (rewrite Ha, Hb; exact E'). apply Qeq_bool_iff in H. congruence.
Qed.

(* ---------- membership up to == ---------- *)
Definition InQ (a : Q) (l : list Q) : Prop := exists a', In a' l /\ a' == a.

Lemma InQ_cons a x l : InQ a (x :: l) <-> x == a \/ InQ a l.
Proof.
  unfold InQ. split.
  - intros [a' [[->|H] E]]; [left; exact E | right; exists a'; auto].
  - intros [E|[a' [H E]]]; [exists x; simpl; auto | exists a'; simpl; auto].
Qed.

Lemma InQ_nil a : ~ InQ a [].
Proof. intros [a' [[] _]]. Qed.

Lemma In_InQ a l : In a l -> InQ a l.
Proof. intros H. exists a. split; [exact H | reflexivity]. Qed.

Lemma InQ_compat a b l : a == b -> InQ a l -> InQ b l.
Proof. intros E [a' [H E']]. exists a'. split; [exact H | rewrite E'; exact E]. Qed.

Definition same_set (l l' : list Q) : Prop := forall s, InQ s l <-> InQ s l'.

(* ---------- option equality up to == ---------- *)
Definition oeq (o1 o2 : option Q) : Prop :=
  match o1, o2 with Some a, Some b => a == b | None, None => True | _, _ => False end.

Lemma oeq_refl o : oeq o o.
Proof. destruct o; simpl; auto. reflexivity. Qed.

(* ---------- specification of lower / upper ---------- *)
Definition is_lower (l : list Q) (x : Q) (o : option Q) : Prop :=
  match o with
  | Some a => InQ a l /\ a < x /\ (forall s, In s l -> s < x -> s <= a)
  | None => forall s, In s l -> ~ s < x
  end.
Definition is_upper (l : list Q) (x : Q) (o : option Q) : Prop :=
  match o with
  | Some b => InQ b l /\ x < b /\ (forall s, In s l -> x < s -> b <= s)
  | None => forall s, In s l -> ~ x < s
  end.

Lemma lower_spec l x : is_lower l x (lower l x).
Proof.
  induction l as [|s r IH]; simpl.
  - intros s [].
  - destruct (Qlt_bool s x) eqn:E.
    + apply Qlt_bool_iff in E. destruct (lower r x) as [a|]; simpl in *.
      * destruct IH as [Hin [Hlt Hmax]].
        destruct (Q.max_spec s a) as [[L M]|[L M]].
        -- split; [|split].
           ++ apply InQ_cons. right. apply (InQ_compat a); [symmetry; exact M | exact Hin].
           ++ rewrite M. exact Hlt.
           ++ intros t [<-|Ht] Htx; rewrite M; [apply Qlt_le_weak; exact L | apply Hmax; assumption].
        -- split; [|split].
           ++ apply InQ_cons. left. symmetry. exact M.
           ++ rewrite M. exact E.
           ++ intros t [<-|Ht] Htx; rewrite M; [apply Qle_refl | apply Qle_trans with a; [apply Hmax; assumption | exact L]].
      * split; [|split].
        -- apply InQ_cons. left. reflexivity.
        -- exact E.
        -- intros t [<-|Ht] Htx; [apply Qle_refl | exfalso; exact (IH t Ht Htx)].
    + apply Qlt_bool_false in E. destruct (lower r x) as [a|]; simpl in *.
      * destruct IH as [Hin [Hlt Hmax]]. split; [|split].
        -- apply InQ_cons. right. exact Hin.
        -- exact Hlt.
        -- intros t [<-|Ht] Htx; [exfalso; exact (Qlt_not_le _ _ Htx E) | apply Hmax; assumption].
      * intros t [<-|Ht] Htx; [exact (Qlt_not_le _ _ Htx E) | exact (IH t Ht Htx)].
Qed.

Lemma upper_spec l x : is_upper l x (upper l x).
Proof.
  induction l as [|s r IH]; simpl.
  - intros s [].
  - destruct (Qlt_bool x s) eqn:E.
    + apply Qlt_bool_iff in E. destruct (upper r x) as [a|]; simpl in *.
      * destruct IH as [Hin [Hlt Hmin]].
        destruct (Q.min_spec s a) as [[L M]|[L M]].
        -- split; [|split].
           ++ apply InQ_cons. left. symmetry. exact M.
           ++ rewrite M. exact E.
           ++ intros t [<-|Ht] Htx; rewrite M; [apply Qle_refl | apply Qle_trans with a; [apply Qlt_le_weak; exact L | apply Hmin; assumption]].
        -- split; [|split].
           ++ apply InQ_cons. right. apply (InQ_compat a); [symmetry; exact M | exact Hin].
           ++ rewrite M. exact Hlt.
           ++ intros t [<-|Ht] Htx; rewrite M; [exact L | apply Hmin; assumption].
      * split; [|split].
        -- apply InQ_cons. left. reflexivity.
        -- exact E.
        -- intros t [<-|Ht] Htx; [apply Qle_refl | exfalso; exact (IH t Ht Htx)].
    + apply Qlt_bool_false in E. destruct (upper r x) as [a|]; simpl in *.
      * destruct IH as [Hin [Hlt Hmin]]. split; [|split].
        -- apply InQ_cons. right. exact Hin.
        -- exact Hlt.
        -- intros t [<-|Ht] Htx; [exfalso; exact (Qlt_not_le _ _ Htx E) | apply Hmin; assumption].
      * intros t [<-|Ht] Htx; [exact (Qlt_not_le _ _ Htx E) | exact (IH t Ht Htx)].
Qed.

Lemma is_lower_unique l x o1 o2 : is_lower l x o1 -> is_lower l x o2 -> oeq o1 o2.
Proof.
  destruct o1 as [a|], o2 as [b|]; simpl; auto.
  - intros [[a' [Ia Ea]] [La Ma]] [[b' [Ib Eb]] [Lb Mb]].
    apply Qle_antisym.
    + rewrite <- Ea. apply Mb; [exact Ia | rewrite Ea; exact La].
    + rewrite <- Eb. apply Ma; [exact Ib | rewrite Eb; exact Lb].
  - intros [[a' [Ia Ea]] [La _]] H. apply (H a' Ia). rewrite Ea. exact La.
  - intros H [[b' [Ib Eb]] [Lb _]]. apply (H b' Ib). rewrite Eb. exact Lb.
Qed.

Lemma is_upper_unique l x o1 o2 : is_upper l x o1 -> is_upper l x o2 -> oeq o1 o2.
Proof.
  destruct o1 as [a|], o2 as [b|]; simpl; auto.
  - intros [[a' [Ia Ea]] [La Ma]] [[b' [Ib Eb]] [Lb Mb]].
    apply Qle_antisym.
    + rewrite <- Eb. apply Ma; [exact Ib | rewrite Eb; exact Lb].
    + rewrite <- Ea. apply Mb; [exact Ia | rewrite Ea; exact La].
  - intros [[a' [Ia Ea]] [La _]] H. apply (H a' Ia). rewrite Ea. exact La.
  - intros H [[b' [Ib Eb]] [Lb _]]. apply (H b' Ib). rewrite Eb. exact Lb.
Qed.

(* transfer of the specification along a map f that is monotone (g = f) or antitone, element-wise *)
Lemma is_lower_transfer l l' x x' o o' :
  (forall s', In s' l' -> exists s, In s l /\ (s' < x' -> s < x) /\
      (match o, o' with Some a, Some a' => s < x -> s <= a -> s' <= a' | _, _ => True end)) ->
  (match o, o' with
   | Some a, Some a' => a < x -> a' < x' /\ (InQ a l -> InQ a' l')
   | None, None => True
   | _, _ => False end) ->
  is_lower l x o -> is_lower l' x' o'.
Proof.
  intros Hel Ho H. destruct o as [a|], o' as [a'|]; simpl in *; try contradiction.
  - destruct H as [Hin [Hlt Hmax]]. destruct (Ho Hlt) as [Hlt' Hin']. split; [|split]; auto.
    intros s' Hs' Hs'x. destruct (Hel s' Hs') as [s [Hs [H1 H2]]]. apply H2; auto.
  - intros s' Hs' Hs'x. destruct (Hel s' Hs') as [s [Hs [H1 _]]]. exact (H s Hs (H1 Hs'x)).
Qed.

Lemma is_upper_transfer l l' x x' o o' :
  (forall s', In s' l' -> exists s, In s l /\ (x' < s' -> x < s) /\
      (match o, o' with Some a, Some a' => x < s -> a <= s -> a' <= s' | _, _ => True end)) ->
  (match o, o' with
   | Some a, Some a' => x < a -> x' < a' /\ (InQ a l -> InQ a' l')
   | None, None => True
   | _, _ => False end) ->
  is_upper l x o -> is_upper l' x' o'.
Proof.
  intros Hel Ho H. destruct o as [a|], o' as [a'|]; simpl in *; try contradiction.
  - destruct H as [Hin [Hlt Hmin]]. destruct (Ho Hlt) as [Hlt' Hin']. split; [|split]; auto.
    intros s' Hs' Hs'x. destruct (Hel s' Hs') as [s [Hs [H1 H2]]]. apply H2; auto.
  - intros s' Hs' Hs'x. destruct (Hel s' Hs') as [s [Hs [H1 _]]]. exact (H s Hs (H1 Hs'x)).
Qed.

(* lower in terms of upper of the mirrored configuration (used for negative scale factors) *)
Lemma is_lower_of_upper l l' x x' o o' :
  (forall s', In s' l' -> exists s, In s l /\ (s' < x' -> x < s) /\
      (match o, o' with Some a, Some a' => x < s -> a <= s -> s' <= a' | _, _ => True end)) ->
  (match o, o' with
   | Some a, Some a' => x < a -> a' < x' /\ (InQ a l -> InQ a' l')
   | None, None => True
   | _, _ => False end) ->
  is_upper l x o -> is_lower l' x' o'.
Proof.
  intros Hel Ho H. destruct o as [a|], o' as [a'|]; simpl in *; try contradiction.
  - destruct H as [Hin [Hlt Hmin]]. destruct (Ho Hlt) as [Hlt' Hin']. split; [|split]; auto.
    intros s' Hs' Hs'x. destruct (Hel s' Hs') as [s [Hs [H1 H2]]]. apply H2; auto.
  - intros s' Hs' Hs'x. destruct (Hel s' Hs') as [s [Hs [H1 _]]]. exact (H s Hs (H1 Hs'x)).
Qed.

Lemma is_upper_of_lower l l' x x' o o' :
  (forall s', In s' l' -> exists s, In s l /\ (x' < s' -> s < x) /\
      (match o, o' with Some a, Some a' => s < x -> s <= a -> a' <= s' | _, _ => True end)) ->
  (match o, o' with
   | Some a, Some a' => a < x -> x' < a' /\ (InQ a l -> InQ a' l')
   | None, None => True
   | _, _ => False end) ->
  is_lower l x o -> is_upper l' x' o'.
Proof.
  intros Hel Ho H. destruct o as [a|], o' as [a'|]; simpl in *; try contradiction.
  - destruct H as [Hin [Hlt Hmax]]. destruct (Ho Hlt) as [Hlt' Hin']. split; [|split]; auto.
    intros s' Hs' Hs'x. destruct (Hel s' Hs') as [s [Hs [H1 H2]]]. apply H2; auto.
  - intros s' Hs' Hs'x. destruct (Hel s' Hs') as [s [Hs [H1 _]]]. exact (H s Hs (H1 Hs'x)).
Qed.

(* ---------- cell length from the two neighbours ---------- *)
Definition clen (lo up : option Q) (x : Q) : Q :=
  match lo, up with
  | Some a, Some b => (b - a) / 2
  | None, Some b => b - x
  | Some a, None => x - a
  | None, None => 1
  end.

Lemma cell_len_clen l x : cell_len l x = clen (lower l x) (upper l x) x.
Proof. reflexivity. Qed.

Lemma clen_compat lo lo' up up' x x' : oeq lo lo' -> oeq up up' -> x == x' -> clen lo up x == clen lo' up' x'.
Proof.
  destruct lo, lo', up, up'; simpl; try contradiction; intros H1 H2 H3; try rewrite H1; try rewrite H2; try rewrite H3; reflexivity.
Qed.

(* any description of the neighbours determines the cell length *)
Lemma cell_len_by_spec l x lo up : is_lower l x lo -> is_upper l x up -> cell_len l x == clen lo up x.
Proof.
  intros Hl Hu. rewrite cell_len_clen. apply clen_compat.
  - apply (is_lower_unique l x); [apply lower_spec | exact Hl].
  - apply (is_upper_unique l x); [apply upper_spec | exact Hu].
  - reflexivity.
Qed.

(* ---------- counts ---------- *)
Lemma count_compat x x' l : x == x' -> count x l = count x' l.
Proof.
  intros E. induction l as [|y r IH]; simpl; [reflexivity|].
  rewrite (Qeq_bool_compat x x' y y E (Qeq_refl y)), IH. reflexivity.
Qed.

Lemma count_perm x l l' : Permutation l l' -> count x l = count x l'.
Proof.
  induction 1; simpl; try congruence.
  - rewrite IHPermutation. reflexivity.
  - destruct (Qeq_bool x y), (Qeq_bool x x0); reflexivity.
Qed.

Lemma count_map f x l : (forall y, Qeq_bool (f x) (f y) = Qeq_bool x y) -> count (f x) (map f l) = count x l.
Proof. intros Hf. induction l as [|y r IH]; simpl; [reflexivity|]. rewrite Hf, IH. reflexivity. Qed.

Lemma count_pos x l : InQ x l -> (0 < count x l)%nat.
Proof.
  induction l as [|y r IH]; intros H.
  - destruct (InQ_nil _ H).
  - simpl. apply InQ_cons in H. destruct (Qeq_bool x y) eqn:E; [lia|].
    destruct H as [H|H]; [|exact (IH H)].
    assert (x == y) as H' by (symmetry; exact H). apply Qeq_bool_iff in H'. congruence.
Qed.

Lemma qnat_pos n : (0 < n)%nat -> 0 < qnat n.
Proof. intros H. unfold qnat. change 0 with (inject_Z 0). rewrite <- Zlt_Qlt. lia. Qed.

(* ---------- invariances of the characterisation ---------- *)
Lemma same_set_In l l' s' : same_set l l' -> In s' l' -> exists s, In s l /\ s == s'.
Proof. intros H Hs. destruct (proj2 (H s') (In_InQ _ _ Hs)) as [s [Hin E]]. exists s. auto. Qed.

Lemma cell_len_same_set l l' x x' : same_set l l' -> x == x' -> cell_len l x == cell_len l' x'.
Proof.
  intros HS E. symmetry.
  rewrite (cell_len_by_spec l' x' (lower l x) (upper l x)).
  - rewrite cell_len_clen. apply clen_compat; [apply oeq_refl | apply oeq_refl | symmetry; exact E].
  - apply (is_lower_transfer l l' x x' (lower l x) (lower l x)); [| |apply lower_spec].
    + intros s' Hs'. destruct (same_set_In l l' s' HS Hs') as [s [Hs Es]]. exists s. split; [exact Hs|]. split.
      * rewrite <- Es, <- E. auto.
      * destruct (lower l x); auto. intros _ H. rewrite <- Es. exact H.
    + destruct (lower l x); auto. intros H. split; [rewrite <- E; exact H | apply HS].
  - apply (is_upper_transfer l l' x x' (upper l x) (upper l x)); [| |apply upper_spec].
    + intros s' Hs'. destruct (same_set_In l l' s' HS Hs') as [s [Hs Es]]. exists s. split; [exact Hs|]. split.
      * rewrite <- Es, <- E. auto.
      * destruct (upper l x); auto. intros _ H. rewrite <- Es. exact H.
    + destruct (upper l x); auto. intros H. split; [rewrite <- E; exact H | apply HS].
Qed.

Lemma perm_same_set l l' : Permutation l l' -> same_set l l'.
Proof.
  intros P s. split; intros [a [H E]]; exists a; split; auto.
  - apply (Permutation_in _ P H).
  - apply (Permutation_in _ (Permutation_sym P) H).
Qed.

Lemma qdiv_compat a a' b b' : a == a' -> b == b' -> a / b == a' / b'.
Proof. intros H1 H2. rewrite H1, H2. reflexivity. Qed.

Lemma weight_perm l l' x : Permutation l l' -> weight l x == weight l' x.
Proof.
  intros P. unfold weight. apply qdiv_compat.
  - apply cell_len_same_set; [apply perm_same_set; exact P | reflexivity].
  - rewrite (count_perm x l l' P). reflexivity.
Qed.

Lemma weight_compat l x y : x == y -> weight l x == weight l y.
Proof.
  intros E. unfold weight. apply qdiv_compat.
  - apply cell_len_same_set; [intros s; reflexivity | exact E].
  - rewrite (count_compat x y l E). reflexivity.
Qed.

Lemma InQ_map f a l : (forall u v, u == v -> f u == f v) -> InQ a l -> InQ (f a) (map f l).
Proof. intros Hf [a' [H E]]. exists (f a'). split; [apply in_map; exact H | apply Hf; exact E]. Qed.

Lemma omap_cases (f : Q -> Q) (o : option Q) :
  (o = None /\ option_map f o = None) \/ (exists a, o = Some a /\ option_map f o = Some (f a)).
Proof. destruct o; [right; eauto | left; auto]. Qed.

(* translation *)
Lemma cell_len_translate t l x : cell_len (map (Qplus t) l) (t + x) == cell_len l x.
Proof.
  rewrite (cell_len_by_spec (map (Qplus t) l) (t + x) (option_map (Qplus t) (lower l x)) (option_map (Qplus t) (upper l x))).
  - rewrite cell_len_clen. destruct (lower l x), (upper l x); simpl; field.
  - apply (is_lower_transfer l _ x _ (lower l x)); [| |apply lower_spec].
    + intros s' Hs'. apply in_map_iff in Hs'. destruct Hs' as [s [<- Hs]]. exists s. split; [exact Hs|]. split.
      * intros H. lra.
      * destruct (lower l x); simpl; auto. intros _ H. lra.
    + destruct (lower l x); simpl; auto. intros H. split; [lra|].
      apply InQ_map. intros u v E. rewrite E. reflexivity.
  - apply (is_upper_transfer l _ x _ (upper l x)); [| |apply upper_spec].
    + intros s' Hs'. apply in_map_iff in Hs'. destruct Hs' as [s [<- Hs]]. exists s. split; [exact Hs|]. split.
      * intros H. lra.
      * destruct (upper l x); simpl; auto. intros _ H. lra.
    + destruct (upper l x); simpl; auto. intros H. split; [lra|].
      apply InQ_map. intros u v E. rewrite E. reflexivity.
Qed.

Lemma Qeq_bool_plus t x y : Qeq_bool (t + x) (t + y) = Qeq_bool x y.
Proof.
  destruct (Qeq_bool x y) eqn:E.
  - apply Qeq_bool_iff in E. apply Qeq_bool_iff. rewrite E. reflexivity.
  - destruct (Qeq_bool (t + x) (t + y)) eqn:E'; [|reflexivity]. apply Qeq_bool_iff in E'.
    assert (x == y) as H by lra. apply Qeq_bool_iff in H. congruence.
Qed.

Lemma weight_translate t l x : weight (map (Qplus t) l) (t + x) == weight l x.
Proof.
  unfold weight. apply qdiv_compat; [apply cell_len_translate|].
  rewrite (count_map (Qplus t) x l); [reflexivity | intros y; apply Qeq_bool_plus].
Qed.

(* scaling *)
Lemma Qeq_bool_mult a x y : ~ a == 0 -> Qeq_bool (a * x) (a * y) = Qeq_bool x y.
Proof.
  intros Ha. destruct (Qeq_bool x y) eqn:E.
  - apply Qeq_bool_iff in E. apply Qeq_bool_iff. rewrite E. reflexivity.
  - destruct (Qeq_bool (a * x) (a * y)) eqn:E'; [|reflexivity]. apply Qeq_bool_iff in E'.
    assert (x == y) as H by (apply (Qmult_inj_l x y a Ha); exact E'). apply Qeq_bool_iff in H. congruence.
Qed.

Lemma mult_lt_pos a u v : 0 < a -> (a * u < a * v <-> u < v).
Proof. intros Ha. split; intros H; nra. Qed.
Lemma mult_le_pos a u v : 0 < a -> (a * u <= a * v <-> u <= v).
Proof. intros Ha. split; intros H; nra. Qed.
Lemma mult_lt_neg a u v : a < 0 -> (a * u < a * v <-> v < u).
Proof. intros Ha. split; intros H; nra. Qed.
Lemma mult_le_neg a u v : a < 0 -> (a * u <= a * v <-> v <= u).
Proof. intros Ha. split; intros H; nra. Qed.

Lemma cell_len_scale_pos a l x : 0 < a -> ~ (forall s, In s l -> s == x) ->
  cell_len (map (Qmult a) l) (a * x) == a * cell_len l x.
Proof.
  intros Ha Hne.
  rewrite (cell_len_by_spec (map (Qmult a) l) (a * x) (option_map (Qmult a) (lower l x)) (option_map (Qmult a) (upper l x))).
  - rewrite cell_len_clen. pose proof (lower_spec l x) as HL. pose proof (upper_spec l x) as HU.
    destruct (lower l x), (upper l x); simpl in *; try field.
    exfalso. apply Hne. intros s Hs. specialize (HL s Hs). specialize (HU s Hs).
    apply Qle_antisym; apply Qnot_lt_le; assumption.
  - apply (is_lower_transfer l _ x _ (lower l x)); [| |apply lower_spec].
    + intros s' Hs'. apply in_map_iff in Hs'. destruct Hs' as [s [<- Hs]]. exists s. split; [exact Hs|]. split.
      * intros H. apply (mult_lt_pos a); assumption.
      * destruct (lower l x); simpl; auto. intros _ H. apply (mult_le_pos a); assumption.
    + destruct (lower l x); simpl; auto. intros H. split; [apply (mult_lt_pos a); assumption|].
      apply InQ_map. intros u v E. rewrite E. reflexivity.
  - apply (is_upper_transfer l _ x _ (upper l x)); [| |apply upper_spec].
    + intros s' Hs'. apply in_map_iff in Hs'. destruct Hs' as [s [<- Hs]]. exists s. split; [exact Hs|]. split.
      * intros H. apply (mult_lt_pos a); assumption.
      * destruct (upper l x); simpl; auto. intros _ H. apply (mult_le_pos a); assumption.
    + destruct (upper l x); simpl; auto. intros H. split; [apply (mult_lt_pos a); assumption|].
      apply InQ_map. intros u v E. rewrite E. reflexivity.
Qed.

Lemma cell_len_scale_neg a l x : a < 0 -> ~ (forall s, In s l -> s == x) ->
  cell_len (map (Qmult a) l) (a * x) == - a * cell_len l x.
Proof.
  intros Ha Hne.
  rewrite (cell_len_by_spec (map (Qmult a) l) (a * x) (option_map (Qmult a) (upper l x)) (option_map (Qmult a) (lower l x))).
  - rewrite cell_len_clen. pose proof (lower_spec l x) as HL. pose proof (upper_spec l x) as HU.
    destruct (lower l x), (upper l x); simpl in *; try field.
    exfalso. apply Hne. intros s Hs. specialize (HL s Hs). specialize (HU s Hs).
    apply Qle_antisym; apply Qnot_lt_le; assumption.
  - apply (is_lower_of_upper l _ x _ (upper l x)); [| |apply upper_spec].
    + intros s' Hs'. apply in_map_iff in Hs'. destruct Hs' as [s [<- Hs]]. exists s. split; [exact Hs|]. split.
      * intros H. apply (mult_lt_neg a); assumption.
      * destruct (upper l x); simpl; auto. intros _ H. apply (mult_le_neg a); assumption.
    + destruct (upper l x); simpl; auto. intros H. split; [apply (mult_lt_neg a); assumption|].
      apply InQ_map. intros u v E. rewrite E. reflexivity.
  - apply (is_upper_of_lower l _ x _ (lower l x)); [| |apply lower_spec].
    + intros s' Hs'. apply in_map_iff in Hs'. destruct Hs' as [s [<- Hs]]. exists s. split; [exact Hs|]. split.
      * intros H. apply (mult_lt_neg a); assumption.
      * destruct (lower l x); simpl; auto. intros _ H. apply (mult_le_neg a); assumption.
    + destruct (lower l x); simpl; auto. intros H. split; [apply (mult_lt_neg a); assumption|].
      apply InQ_map. intros u v E. rewrite E. reflexivity.
Qed.

Lemma weight_scale a l x : ~ a == 0 -> ~ (forall s, In s l -> s == x) ->
  weight (map (Qmult a) l) (a * x) == Qabs a * weight l x.
Proof.
  intros Ha Hne. unfold weight.
  rewrite (count_map (Qmult a) x l) by (intros y; apply Qeq_bool_mult; exact Ha).
  destruct (Qlt_le_dec 0 a) as [P|N].
  - rewrite (cell_len_scale_pos a l x P Hne). rewrite (Qabs_pos a) by (apply Qlt_le_weak; exact P).
    unfold Qdiv. ring.
  - assert (a < 0) as N' by (apply Qle_lteq in N; destruct N as [N|N]; [exact N | exfalso; apply Ha; exact N]).
    rewrite (cell_len_scale_neg a l x N' Hne). rewrite (Qabs_neg a N). unfold Qdiv. ring.
Qed.

(* positivity *)
Lemma cell_len_pos l x : (exists y, In y l /\ ~ y == x) -> 0 < cell_len l x.
Proof.
  intros [y [Hy Ne]]. rewrite cell_len_clen.
  pose proof (lower_spec l x) as HL. pose proof (upper_spec l x) as HU.
  destruct (lower l x) as [a|], (upper l x) as [b|]; simpl in *.
  - destruct HL as [_ [HL _]]. destruct HU as [_ [HU _]]. apply Qlt_shift_div_l; lra.
  - destruct HL as [_ [HL _]]. lra.
  - destruct HU as [_ [HU _]]. lra.
  - exfalso. specialize (HL y Hy). specialize (HU y Hy). apply Ne.
    apply Qle_antisym; apply Qnot_lt_le; assumption.
Qed.

Lemma weight_pos l x : In x l -> (exists y, In y l /\ ~ y == x) -> 0 < weight l x.
Proof.
  intros Hx Hy. unfold weight. apply Qlt_shift_div_l.
  - apply qnat_pos, count_pos, In_InQ, Hx.
  - rewrite Qmult_0_l. apply cell_len_pos, Hy.
Qed.

(* the coincident samples together carry exactly the cell *)
Lemma weight_split l x : In x l -> qnat (count x l) * weight l x == cell_len l x.
Proof.
  intros Hx. unfold weight. field. intros C.
  pose proof (qnat_pos _ (count_pos x l (In_InQ _ _ Hx))) as P. rewrite C in P. exact (Qlt_irrefl _ P).
Qed.

(* interior: nearest neighbours a < x < b give the Voronoi cell [(a+x)/2, (x+b)/2] *)
Lemma cell_len_interior l x a b :
  InQ a l -> InQ b l -> a < x -> x < b ->
  (forall s, In s l -> s < x -> s <= a) -> (forall s, In s l -> x < s -> b <= s) ->
  cell_len l x == (b - a) / 2.
Proof.
  intros Ia Ib La Lb Ma Mb. apply (cell_len_by_spec l x (Some a) (Some b)); simpl; auto.
Qed.

Lemma cell1_interior l p a b y :
  InQ a l -> InQ b l -> a < p -> p < b ->
  (forall s, In s l -> s < p -> s <= a) -> (forall s, In s l -> p < s -> b <= s) ->
  (cell1 l p y <-> a + p <= 2 * y <= p + b).
Proof.
  intros [a' [Ia Ea]] [b' [Ib Eb]] La Lb Ma Mb. unfold cell1. split.
  - intros H. pose proof (H a' Ia) as Ha. pose proof (H b' Ib) as Hb. rewrite Ea in Ha. rewrite Eb in Hb.
    split.
    + assert (0 <= (p - a) * (2 * y - p - a)) as K by lra.
      destruct (Qlt_le_dec (2 * y) (a + p)) as [C|C]; [|exact C]. exfalso. nra.
    + assert (0 <= (b - p) * (b + p - 2 * y)) as K by lra.
      destruct (Qlt_le_dec (p + b) (2 * y)) as [C|C]; [|exact C]. exfalso. nra.
  - intros [H1 H2] q Hq.
    destruct (Q_dec q p) as [[L|G]|E].
    + pose proof (Ma q Hq L). assert (0 <= (p - q) * (2 * y - p - q)) as K by nra. lra.
    + pose proof (Mb q Hq G). assert (0 <= (q - p) * (q + p - 2 * y)) as K by nra. lra.
    + rewrite E. apply Qle_refl.
Qed.

(* ---------- torch.unique: strictly increasing, same set ---------- *)
Lemma uinsert_InQ s x l : InQ s (uinsert x l) <-> x == s \/ InQ s l.
Proof.
  induction l as [|y r IH]; simpl.
  - rewrite InQ_cons. reflexivity.
  - destruct (x ?= y) eqn:C.
    + apply Qeq_alt in C. rewrite InQ_cons. split; [tauto|]. intros [H|H]; [left; rewrite <- C; exact H | exact H].
    + rewrite InQ_cons. reflexivity.
    + rewrite InQ_cons, IH, InQ_cons. tauto.
Qed.

Lemma unique_same_set l : same_set (unique l) l.
Proof.
  induction l as [|x r IH]; intros s; simpl.
  - reflexivity.
  - rewrite uinsert_InQ, InQ_cons, (IH s). reflexivity.
Qed.

Lemma uinsert_Forall_lt a x l : a < x -> Forall (Qlt a) l -> Forall (Qlt a) (uinsert x l).
Proof.
  intros Hax. induction l as [|y r IH]; simpl; intros H.
  - constructor; auto.
  - inversion H; subst. destruct (x ?= y); auto.
Qed.

Lemma uinsert_sorted x l : StronglySorted Qlt l -> StronglySorted Qlt (uinsert x l).
Proof.
  induction l as [|y r IH]; simpl; intros H.
  - constructor; constructor.
  - inversion H; subst. destruct (x ?= y) eqn:C.
    + exact H.
    + apply Qlt_alt in C. constructor; [exact H|]. constructor; [exact C|].
      eapply Forall_impl; [|exact H3]. intros z Hz. apply Qlt_trans with y; assumption.
    + apply Qgt_alt in C. constructor; [apply IH; exact H2|]. apply uinsert_Forall_lt; assumption.
Qed.

Lemma unique_sorted l : StronglySorted Qlt (unique l).
Proof. induction l; simpl; [constructor | apply uinsert_sorted; assumption]. Qed.

Lemma sorted_nth_lt u : StronglySorted Qlt u -> forall i j, (i < j < length u)%nat -> nth i u 0 < nth j u 0.
Proof.
  induction 1 as [|a r HS IH HF]; intros i j Hij; simpl in *; [lia|].
  destruct j as [|j]; [lia|]. destruct i as [|i].
  - rewrite Forall_forall in HF. apply HF. apply nth_In. lia.
  - apply IH. lia.
Qed.

Lemma sorted_lower u i : StronglySorted Qlt u -> (i < length u)%nat ->
  is_lower u (nth i u 0) (match i with O => None | S k => Some (nth k u 0) end).
Proof.
  intros HS Hi. destruct i as [|k]; simpl.
  - intros s Hs Hlt. destruct (In_nth u s 0 Hs) as [j [Hj <-]].
    destruct j as [|j]; [exact (Qlt_irrefl _ Hlt)|].
    pose proof (sorted_nth_lt u HS 0 (S j) ltac:(lia)) as H. exact (Qlt_irrefl _ (Qlt_trans _ _ _ H Hlt)).
  - split; [|split].
    + apply In_InQ, nth_In. lia.
    + apply (sorted_nth_lt u HS). lia.
    + intros s Hs Hlt. destruct (In_nth u s 0 Hs) as [j [Hj <-]].
      destruct (Nat.lt_trichotomy j k) as [L|[->|G]].
      * apply Qlt_le_weak, (sorted_nth_lt u HS). lia.
      * apply Qle_refl.
      * exfalso. destruct (Nat.eq_dec j (S k)) as [->|Ne]; [exact (Qlt_irrefl _ Hlt)|].
        pose proof (sorted_nth_lt u HS (S k) j ltac:(lia)) as H. exact (Qlt_irrefl _ (Qlt_trans _ _ _ H Hlt)).
Qed.

Lemma sorted_upper u i : StronglySorted Qlt u -> (i < length u)%nat ->
  is_upper u (nth i u 0) (if Nat.eqb (S i) (length u) then None else Some (nth (S i) u 0)).
Proof.
  intros HS Hi. destruct (Nat.eqb (S i) (length u)) eqn:E.
  - apply Nat.eqb_eq in E. intros s Hs Hlt. destruct (In_nth u s 0 Hs) as [j [Hj <-]].
    destruct (Nat.eq_dec j i) as [->|Ne]; [exact (Qlt_irrefl _ Hlt)|].
    pose proof (sorted_nth_lt u HS j i ltac:(lia)) as H. exact (Qlt_irrefl _ (Qlt_trans _ _ _ H Hlt)).
  - apply Nat.eqb_neq in E. split; [|split].
    + apply In_InQ, nth_In. lia.
    + apply (sorted_nth_lt u HS). lia.
    + intros s Hs Hlt. destruct (In_nth u s 0 Hs) as [j [Hj <-]].
      destruct (Nat.lt_trichotomy j (S i)) as [L|[->|G]].
      * exfalso. destruct (Nat.eq_dec j i) as [->|Ne]; [exact (Qlt_irrefl _ Hlt)|].
        pose proof (sorted_nth_lt u HS j i ltac:(lia)) as H. exact (Qlt_irrefl _ (Qlt_trans _ _ _ H Hlt)).
      * apply Qle_refl.
      * apply Qlt_le_weak, (sorted_nth_lt u HS). lia.
Qed.

(* ---------- the code-shaped central differences ---------- *)
Lemma conv3_length u : length (conv3 u) = (length u - 2)%nat.
Proof.
  induction u as [|a r IH]; [reflexivity|]. destruct r as [|b [|c t]]; try reflexivity.
  change (conv3 (a :: b :: c :: t)) with (((-1 # 2) * a + (1 # 2) * c) :: conv3 (b :: c :: t)).
  simpl length in *. rewrite IH. lia.
Qed.

Lemma conv3_nth u : forall i, (i + 2 < length u)%nat -> nth i (conv3 u) 0 == (nth (i + 2) u 0 - nth i u 0) / 2.
Proof.
  induction u as [|a r IH]; intros i Hi; [simpl in Hi; lia|].
  destruct r as [|b [|c t]]; try (simpl in Hi; lia).
  change (conv3 (a :: b :: c :: t)) with (((-1 # 2) * a + (1 # 2) * c) :: conv3 (b :: c :: t)).
  destruct i as [|i].
  - simpl. field.
  - change (nth (S i) (((-1 # 2) * a + (1 # 2) * c) :: conv3 (b :: c :: t)) 0) with (nth i (conv3 (b :: c :: t)) 0).
    rewrite IH by (simpl in *; lia). reflexivity.
Qed.

Lemma central_diff_length u : length (central_diff u) = length u.
Proof.
  destruct u as [|a [|b [|c t]]]; try reflexivity.
  set (u := a :: b :: c :: t).
  transitivity (S (length (conv3 u ++ [nth (length u - 1) u 0 - nth (length u - 2) u 0]))); [reflexivity|].
  rewrite app_length, conv3_length. subst u. simpl. lia.
Qed.

Lemma central_diff_nth u i : (i < length u)%nat ->
  nth i (central_diff u) 0 ==
  clen (match i with O => None | S k => Some (nth k u 0) end)
       (if Nat.eqb (S i) (length u) then None else Some (nth (S i) u 0)) (nth i u 0).
Proof.
  intros Hi. destruct u as [|a [|b [|c t]]].
  - simpl in Hi. lia.
  - destruct i as [|i]; [reflexivity | simpl in Hi; lia].
  - destruct i as [|[|i]]; [reflexivity | reflexivity | simpl in Hi; lia].
  - set (u := a :: b :: c :: t) in *.
    assert (central_diff u = (b - a) :: conv3 u ++ [nth (length u - 1) u 0 - nth (length u - 2) u 0]) as -> by reflexivity.
    destruct i as [|j].
    + assert (Nat.eqb 1 (length u) = false) as -> by (apply Nat.eqb_neq; simpl; lia). reflexivity.
    + change (nth (S j) ((b - a) :: conv3 u ++ [nth (length u - 1) u 0 - nth (length u - 2) u 0]) 0)
        with (nth j (conv3 u ++ [nth (length u - 1) u 0 - nth (length u - 2) u 0]) 0).
      destruct (Nat.eqb (S (S j)) (length u)) eqn:E.
      * apply Nat.eqb_eq in E. rewrite app_nth2 by (rewrite conv3_length; lia).
        rewrite conv3_length. replace (j - (length u - 2))%nat with O by lia.
        replace (length u - 1)%nat with (S j) by lia. replace (length u - 2)%nat with j by lia. reflexivity.
      * apply Nat.eqb_neq in E. rewrite app_nth1 by (rewrite conv3_length; lia).
        rewrite conv3_nth by lia. replace (j + 2)%nat with (S (S j)) by lia. reflexivity.
Qed.

(* ---------- index ---------- *)
Lemma index_spec x u : InQ x u -> (index x u < length u)%nat /\ nth (index x u) u 0 == x.
Proof.
  induction u as [|y r IH]; intros H; [destruct (InQ_nil _ H)|].
  simpl. destruct (Qeq_bool x y) eqn:E.
  - apply Qeq_bool_iff in E. split; [lia | symmetry; exact E].
  - apply InQ_cons in H. destruct H as [H|H].
    + assert (x == y) as H' by (symmetry; exact H). apply Qeq_bool_iff in H'. congruence.
    + destruct (IH H). split; [lia | assumption].
Qed.

Lemma map2_nth {A B C} (f : A -> B -> C) l m da db dc i :
  (i < length l)%nat -> (i < length m)%nat -> nth i (map2 f l m) dc = f (nth i l da) (nth i m db).
Proof.
  revert m i. induction l as [|a l IH]; intros [|b m] i Hl Hm; simpl in *; try lia.
  destruct i; [reflexivity | apply IH; lia].
Qed.

(* ---------- main correspondence lemma: the code computes `weight` ---------- *)
Lemma dcf_1d_point l x : In x l ->
  nth (index x (unique l)) (map2 Qdiv (central_diff (unique l)) (map (fun s => qnat (count s l)) (unique l))) 0 == weight l x.
Proof.
  intros Hx. set (u := unique l).
  assert (InQ x u) as Hu by (apply (unique_same_set l x), In_InQ, Hx).
  destruct (index_spec x u Hu) as [Hi Hn]. set (i := index x u) in *.
  rewrite (map2_nth Qdiv _ _ 0 (qnat (count 0 l)) 0) by (rewrite ?central_diff_length, ?map_length; exact Hi).
  rewrite (map_nth (fun s => qnat (count s l)) u 0 i).
  unfold weight. apply qdiv_compat.
  - rewrite central_diff_nth by exact Hi.
    rewrite <- (cell_len_by_spec u (nth i u 0)) by (first [apply sorted_lower | apply sorted_upper]; [apply unique_sorted | exact Hi]).
    apply cell_len_same_set; [apply unique_same_set | exact Hn].
  - rewrite (count_compat _ _ l Hn). reflexivity.
Qed.

Lemma Forall2_map_same {A} (R : Q -> Q -> Prop) (f g : A -> Q) l : (forall x, In x l -> R (f x) (g x)) -> Forall2 R (map f l) (map g l).
Proof. induction l; simpl; intros H; constructor; auto. Qed.

Theorem dcf_1d_eq_weight l : Forall2 Qeq (dcf_1d l) (map (weight l) l).
Proof. unfold dcf_1d. apply Forall2_map_same. intros x Hx. apply dcf_1d_point, Hx. Qed.

(* permutation equivariance of the code: the weights of the shuffled samples are the weights of the samples *)
Theorem dcf_1d_perm l l' : Permutation l l' -> Forall2 Qeq (dcf_1d l') (map (weight l) l').
Proof.
  intros P. pose proof (dcf_1d_eq_weight l') as H.
  assert (Forall2 Qeq (map (weight l') l') (map (weight l) l')) as H2.
  { apply Forall2_map_same. intros x _. symmetry. apply weight_perm, P. }
  revert H H2. generalize (dcf_1d l') (map (weight l') l') (map (weight l) l').
  intros a b c H. revert c. induction H; intros c H2; inversion H2; subst; constructor.
  - rewrite H. assumption.
  - apply IHForall2. assumption.
Qed.

Lemma Forall2_Qeq_trans a b c : Forall2 Qeq a b -> Forall2 Qeq b c -> Forall2 Qeq a c.
Proof.
  intros H. revert c. induction H; intros c H2; inversion H2; subst; constructor.
  - rewrite H. assumption.
  - apply IHForall2. assumption.
Qed.

Theorem dcf_1d_translate t l : Forall2 Qeq (dcf_1d (map (Qplus t) l)) (dcf_1d l).
Proof.
  eapply Forall2_Qeq_trans; [apply dcf_1d_eq_weight|].
  assert (Forall2 Qeq (map (weight l) l) (dcf_1d l)) as H.
  { pose proof (dcf_1d_eq_weight l) as H. induction H; constructor; [symmetry; assumption | assumption]. }
  eapply Forall2_Qeq_trans; [|exact H].
  rewrite map_map. apply Forall2_map_same. intros x _. apply weight_translate.
Qed.

Theorem dcf_1d_scale a l : ~ a == 0 -> (exists x y, In x l /\ In y l /\ ~ x == y) ->
  Forall2 Qeq (dcf_1d (map (Qmult a) l)) (map (Qmult (Qabs a)) (dcf_1d l)).
Proof.
  intros Ha [x0 [y0 [Hx0 [Hy0 Ne]]]].
  eapply Forall2_Qeq_trans; [apply dcf_1d_eq_weight|].
  assert (Forall2 Qeq (map (fun x => Qabs a * weight l x) l) (map (Qmult (Qabs a)) (dcf_1d l))) as H.
  { pose proof (dcf_1d_eq_weight l) as H. rewrite <- (map_map (weight l) (Qmult (Qabs a))).
    induction H; simpl; constructor; [rewrite H; reflexivity | assumption]. }
  eapply Forall2_Qeq_trans; [|exact H].
  rewrite map_map. apply Forall2_map_same. intros x _. apply weight_scale; [exact Ha|].
  intros C. apply Ne. rewrite (C x0 Hx0), (C y0 Hy0). reflexivity.
Qed.

Theorem dcf_1d_positive l : (exists x y, In x l /\ In y l /\ ~ x == y) -> Forall (Qlt 0) (dcf_1d l).
Proof.
  intros [x0 [y0 [Hx0 [Hy0 Ne]]]].
  assert (Forall (Qlt 0) (map (weight l) l)) as H.
  { apply Forall_forall. intros w Hw. apply in_map_iff in Hw. destruct Hw as [x [<- Hx]].
    apply weight_pos; [exact Hx|].
    destruct (Qeq_dec x0 x) as [E|E]; [exists y0; split; [exact Hy0|]; intros C; apply Ne; rewrite E, C; reflexivity | exists x0; auto]. }
  pose proof (dcf_1d_eq_weight l) as H2. revert H. generalize (map (weight l) l) H2. generalize (dcf_1d l).
  intros a b H3. induction H3; intros HF; constructor; inversion HF; subst; [rewrite H; assumption | auto].
Qed.

(* ---------- weights sum to the covered length (telescoping) ---------- *)
Definition qsum1 (l : list Q) : Q := fold_right Qplus 0 l.

Lemma conv3_sum u : (2 <= length u)%nat ->
  qsum1 (conv3 u) == (nth (length u - 1) u 0 + nth (length u - 2) u 0 - nth 0 u 0 - nth 1 u 0) / 2.
Proof.
  induction u as [|a r IH]; intros Hl; [simpl in Hl; lia|].
  destruct r as [|b [|c t]].
  - simpl in Hl. lia.
  - simpl. field.
  - change (conv3 (a :: b :: c :: t)) with (((-1 # 2) * a + (1 # 2) * c) :: conv3 (b :: c :: t)).
    change (qsum1 (((-1 # 2) * a + (1 # 2) * c) :: conv3 (b :: c :: t)))
      with (((-1 # 2) * a + (1 # 2) * c) + qsum1 (conv3 (b :: c :: t))).
    rewrite IH by (simpl; lia).
    replace (length (a :: b :: c :: t) - 1)%nat with (S (length (b :: c :: t) - 1)) by (simpl; lia).
    replace (length (a :: b :: c :: t) - 2)%nat with (S (length (b :: c :: t) - 2)) by (simpl; lia).
    change (nth (S (length (b :: c :: t) - 1)) (a :: b :: c :: t) 0) with (nth (length (b :: c :: t) - 1) (b :: c :: t) 0).
    change (nth (S (length (b :: c :: t) - 2)) (a :: b :: c :: t) 0) with (nth (length (b :: c :: t) - 2) (b :: c :: t) 0).
    change (nth 0 (a :: b :: c :: t) 0) with a. change (nth 1 (a :: b :: c :: t) 0) with b.
    change (nth 0 (b :: c :: t) 0) with b. change (nth 1 (b :: c :: t) 0) with c.
    field.
Qed.

Lemma count_zero_above a r : Forall (Qlt a) r -> count a r = O.
Proof.
  induction 1 as [|y r Hy HF IH]; simpl; [reflexivity|].
  destruct (Qeq_bool a y) eqn:E; [|exact IH]. apply Qeq_bool_iff in E. rewrite E in Hy. exfalso. exact (Qlt_irrefl _ Hy).
Qed.

Lemma count_sorted l x : StronglySorted Qlt l -> In x l -> count x l = 1%nat.
Proof.
  induction 1 as [|a r HS IH HF]; intros Hx; [destruct Hx|].
  simpl. destruct Hx as [->|Hx].
  - assert (Qeq_bool x x = true) as -> by (apply Qeq_bool_iff; reflexivity). rewrite (count_zero_above x r HF). reflexivity.
  - assert (Qeq_bool x a = false) as ->.
    { destruct (Qeq_bool x a) eqn:E; [|reflexivity]. apply Qeq_bool_iff in E.
      rewrite Forall_forall in HF. specialize (HF x Hx). rewrite E in HF. exfalso. exact (Qlt_irrefl _ HF). }
    apply IH. exact Hx.
Qed.

Lemma Forall2_nth_Qeq a b : length a = length b -> (forall i, (i < length a)%nat -> nth i a 0 == nth i b 0) -> Forall2 Qeq a b.
Proof.
  revert b. induction a as [|x a IH]; intros [|y b] Hl H; simpl in Hl; try lia; constructor.
  - apply (H O). simpl. lia.
  - apply IH; [lia|]. intros i Hi. apply (H (S i)). simpl. lia.
Qed.

(* sorted distinct samples: the code returns exactly the central differences *)
Lemma dcf_1d_sorted l : StronglySorted Qlt l -> Forall2 Qeq (dcf_1d l) (central_diff l).
Proof.
  intros HS. eapply Forall2_Qeq_trans; [apply dcf_1d_eq_weight|].
  apply Forall2_nth_Qeq; [rewrite map_length, central_diff_length; reflexivity|].
  rewrite map_length. intros i Hi.
  rewrite (nth_indep _ 0 (weight l 0)) by (rewrite map_length; exact Hi).
  rewrite (map_nth (weight l) l 0 i). unfold weight.
  rewrite (count_sorted l _ HS (nth_In l 0 Hi)).
  rewrite central_diff_nth by exact Hi.
  rewrite (cell_len_by_spec l (nth i l 0) _ _ (sorted_lower l i HS Hi) (sorted_upper l i HS Hi)).
  unfold qnat. simpl. field.
Qed.

Lemma qsum1_compat a b : Forall2 Qeq a b -> qsum1 a == qsum1 b.
Proof. induction 1; simpl; [reflexivity|]. rewrite H, IHForall2. reflexivity. Qed.

Lemma Forall2_tl {A B} (R : A -> B -> Prop) a b : Forall2 R a b -> Forall2 R (tl a) (tl b).
Proof. destruct 1; simpl; [constructor | assumption]. Qed.

Lemma Forall2_removelast {A B} (R : A -> B -> Prop) a b : Forall2 R a b -> Forall2 R (removelast a) (removelast b).
Proof.
  induction 1 as [|x y a b Hxy Hab IH]; simpl; [constructor|].
  destruct Hab; [constructor | constructor; assumption].
Qed.

(* the interior weights of sorted distinct samples x_0 < ... < x_{n-1} add up to the length they cover,
   from the midpoint of the first gap to the midpoint of the last gap *)
Theorem dcf_1d_interior_sum l : StronglySorted Qlt l -> (3 <= length l)%nat ->
  qsum1 (removelast (tl (dcf_1d l)))
  == (nth (length l - 1) l 0 + nth (length l - 2) l 0) / 2 - (nth 0 l 0 + nth 1 l 0) / 2.
Proof.
  intros HS Hl.
  rewrite (qsum1_compat _ _ (Forall2_removelast _ _ _ (Forall2_tl _ _ _ (dcf_1d_sorted l HS)))).
  destruct l as [|a [|b [|c t]]]; try (simpl in Hl; lia).
  set (u := a :: b :: c :: t) in *.
  assert (central_diff u = (b - a) :: conv3 u ++ [nth (length u - 1) u 0 - nth (length u - 2) u 0]) as -> by reflexivity.
  change (tl ((b - a) :: conv3 u ++ [nth (length u - 1) u 0 - nth (length u - 2) u 0]))
    with (conv3 u ++ [nth (length u - 1) u 0 - nth (length u - 2) u 0]).
  rewrite removelast_last. rewrite conv3_sum by (subst u; simpl; lia). field.
Qed.

(* ---------- support for the regenerated obligations (Gen/voronoi_gen.v) ---------- *)
Lemma Forall2_Qeq_refl l : Forall2 Qeq l l.
Proof. induction l; constructor; [reflexivity | assumption]. Qed.

Lemma map2_Qdiv_compat a a' b : Forall2 Qeq a a' -> Forall2 Qeq (map2 Qdiv a b) (map2 Qdiv a' b).
Proof.
  intros H. revert b. induction H as [|x y a a' Hxy Ha IH]; intros [|c b]; simpl; constructor.
  - rewrite Hxy. reflexivity.
  - apply IH.
Qed.

Lemma nth_Forall2_Qeq w w' i : Forall2 Qeq w w' -> nth i w 0 == nth i w' 0.
Proof. intros H. revert i. induction H; intros [|i]; simpl; try reflexivity; auto. Qed.

(* (w)[inverse]: gathering through the inverse index respects == *)
Lemma gather_compat u w w' (traj : list Q) : Forall2 Qeq w w' ->
  Forall2 Qeq (map (fun x => nth (index x u) w 0) traj) (map (fun x => nth (index x u) w' 0) traj).
Proof. intros H. apply Forall2_map_same. intros x _. apply nth_Forall2_Qeq, H. Qed.
