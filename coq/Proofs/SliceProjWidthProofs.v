(* C20 - _find_width (as repaired) of rectangular profiles, for all sizes mx and all bounds. *)
From MrVerif Require Import Base.Prelude Model.SliceProj Proofs.SliceProjProofs.
From Coq Require Import QArith Qround Qminmax Qabs Lqa Setoid Morphisms.
Local Open Scope Q_scope.

Lemma inj_eq (a b : Z) : a = b -> inject_Z a == inject_Z b.
Proof. intros ->. reflexivity. Qed.

(* ---------------------------------------------------------------- the scan that find_width performs *)
(* consecutive integers a, a+1, ..., a+n-1 *)
Fixpoint consec (a : Z) (n : nat) : list Z := match n with O => [] | S m => a :: consec (a + 1) m end.

Lemma map_seq_consec c s n : map (fun i => (i + c)%Z) (map Z.of_nat (seq s n)) = consec (Z.of_nat s + c) n.
Proof.
  revert s. induction n as [|n IH]; intros s; cbn [seq map consec]; [reflexivity|].
  f_equal. rewrite IH. f_equal. lia.
Qed.

Lemma test_values_consec mx : map (fun i => (i - mx)%Z) (zrange (2 * mx + 1)) = consec (- mx) (Z.to_nat (2 * mx + 1)).
Proof.
  unfold zrange. rewrite (map_ext (fun i => (i - mx)%Z) (fun i => (i + - mx)%Z)) by (intros; lia).
  rewrite map_seq_consec. reflexivity.
Qed.

(* first test value whose cdf exceeds the threshold: cumsum / total / comparison / argmax fused into one recursion *)
Fixpoint scan (p : Q -> Q) (tot thr : Q) (default : Z) (acc : Q) (tv : list Z) : Z :=
  match tv with
  | [] => default
  | t :: r => if negb (Qle_bool ((acc + p (inject_Z t)) / tot) thr) then t else scan p tot thr default (acc + p (inject_Z t)) r
  end.

Lemma first_true_scan p tot thr default acc tv :
  first_true tv (map (fun v => negb (Qle_bool v thr)) (map (fun s => s / tot) (cumsum acc (map (fun t => p (inject_Z t)) tv)))) default
  = scan p tot thr default acc tv.
Proof.
  revert acc. induction tv as [|t r IH]; intros acc; cbn [map cumsum first_true scan]; [reflexivity|].
  rewrite IH. reflexivity.
Qed.

Lemma find_width_scan mx p :
  find_width mx p =
  let tv := consec (- mx) (Z.to_nat (2 * mx + 1)) in
  let tot := qsum (map (fun t => p (inject_Z t)) tv) in
  (Z.max (Z.abs (scan p tot (1 # 100) (- mx) 0 tv)) (Z.abs (scan p tot (99 # 100) (- mx) 0 tv)) + 1)%Z.
Proof.
  unfold find_width. rewrite test_values_consec. cbv zeta. rewrite !first_true_scan. reflexivity.
Qed.

(* ---------------------------------------------------------------- indicator profiles on the integers *)
Section Indicator.
  Variable p : Q -> Q.
  Variables L R : Z.
  Hypothesis HLR : (L <= R)%Z.
  Hypothesis Hp : forall t : Z, p (inject_Z t) == if ((L <=? t) && (t <=? R))%Z then 1 else 0.

  (* number of test values of a, ..., a+n-1 inside [L, R] *)
  Definition cnt (a : Z) (n : nat) : Z := Z.max 0 (Z.min (a + Z.of_nat n - 1) R - Z.max a L + 1).

  Lemma total_count a n : qsum (map (fun t => p (inject_Z t)) (consec a n)) == inject_Z (cnt a n).
  Proof.
    revert a. induction n as [|n IH]; intros a; cbn [consec map qsum].
    - unfold cnt. replace (Z.max 0 _) with 0%Z by lia. reflexivity.
    - rewrite IH, Hp. unfold cnt.
      destruct (Z.leb_spec L a), (Z.leb_spec a R); cbn [andb].
      + change 1 with (inject_Z 1). rewrite <- inject_Z_plus. apply inj_eq. lia.
      + rewrite Qplus_0_l. apply inj_eq. lia.
      + rewrite Qplus_0_l. apply inj_eq. lia.
      + rewrite Qplus_0_l. apply inj_eq. lia.
  Qed.

  Variable tot : Q.
  Variable N : Z.
  Hypothesis HN : N = (R - L + 1)%Z.
  Hypothesis Htot : tot == inject_Z N.
  Hypothesis HN100 : (N < 100)%Z.

  Lemma tot_pos : 0 < tot.
  Proof. rewrite Htot. change 0 with (inject_Z 0). rewrite <- Zlt_Qlt. lia. Qed.

  (* left end: the first test value with cdf > 1 % is L *)
  Lemma scan_left default n : forall a acc, acc == 0 -> (a <= L < a + Z.of_nat n)%Z ->
    scan p tot (1 # 100) default acc (consec a n) = L.
  Proof.
    pose proof tot_pos as Htp.
    induction n as [|n IH]; intros a acc Hacc Ha; [lia|]. cbn [consec scan].
    destruct (Z.eq_dec a L) as [->|NE].
    - assert (E : (acc + p (inject_Z L)) / tot == 1 / tot).
      { rewrite Hp, Hacc. replace ((L <=? L) && (L <=? R))%Z with true by lia. field. lra. }
      assert (B : Qle_bool ((acc + p (inject_Z L)) / tot) (1 # 100) = false).
      { apply Bool.not_true_iff_false. intros B. apply Qle_bool_iff in B. rewrite E in B.
        assert (B2 : (1 / tot) * tot <= (1 # 100) * tot) by (apply Qmult_le_r; assumption).
        assert (E2 : (1 / tot) * tot == 1) by (field; lra).
        rewrite E2, Htot in B2.
        assert (B' : inject_Z 100 <= inject_Z N) by (change (inject_Z 100) with 100; lra).
        rewrite <- Zle_Qle in B'. lia. }
      rewrite B. reflexivity.
    - assert (E : acc + p (inject_Z a) == 0).
      { rewrite Hp, Hacc. replace ((L <=? a) && (a <=? R))%Z with false by lia. ring. }
      assert (B : Qle_bool ((acc + p (inject_Z a)) / tot) (1 # 100) = true).
      { apply Qle_bool_iff. rewrite E. unfold Qdiv. rewrite Qmult_0_l. discriminate. }
      rewrite B. cbn [negb]. apply IH; [exact E|lia].
  Qed.

  (* right end: the first test value with cdf > 99 % is R *)
  Lemma scan_right default n : forall a acc, acc == inject_Z (Z.max 0 (a - L)) -> (a <= R < a + Z.of_nat n)%Z ->
    scan p tot (99 # 100) default acc (consec a n) = R.
  Proof.
    pose proof tot_pos as Htp.
    induction n as [|n IH]; intros a acc Hacc Ha; [lia|]. cbn [consec scan].
    destruct (Z.eq_dec a R) as [->|NE].
    - assert (E : (acc + p (inject_Z R)) / tot == 1).
      { rewrite Hp, Hacc. replace ((L <=? R) && (R <=? R))%Z with true by lia.
        replace (Z.max 0 (R - L)) with (N - 1)%Z by lia. rewrite Htot.
        unfold Z.sub. rewrite inject_Z_plus, inject_Z_opp. change (inject_Z 1) with 1.
        field. rewrite <- Htot. lra. }
      assert (B : Qle_bool ((acc + p (inject_Z R)) / tot) (99 # 100) = false).
      { apply Bool.not_true_iff_false. intros B. apply Qle_bool_iff in B. rewrite E in B. unfold Qle in B. cbn in B. lia. }
      rewrite B. reflexivity.
    - assert (E : acc + p (inject_Z a) == inject_Z (Z.max 0 (a + 1 - L))).
      { rewrite Hp, Hacc. destruct (Z.leb_spec L a); cbn [andb].
        - replace (a <=? R)%Z with true by lia. change 1 with (inject_Z 1). rewrite <- inject_Z_plus. apply inj_eq. lia.
        - rewrite Qplus_0_r. apply inj_eq. lia. }
      assert (B : Qle_bool ((acc + p (inject_Z a)) / tot) (99 # 100) = true).
      { apply Qle_bool_iff. rewrite E. apply Qle_shift_div_r; [exact Htp|]. rewrite Htot.
        assert (K : (100 * Z.max 0 (a + 1 - L) <= 99 * N)%Z) by lia.
        rewrite Zle_Qle in K. rewrite !inject_Z_mult in K. change (inject_Z 100) with 100 in K. change (inject_Z 99) with 99 in K.
        lra. }
      rewrite B. cbn [negb]. apply IH; [exact E|lia].
  Qed.
End Indicator.

(* THEOREM: for every profile that is the indicator of the integers L..R on the test grid (-mx <= L <= R <= mx, fewer than 100
   of them), _find_width returns max(|L|, |R|) + 1 *)
Theorem find_width_indicator p L R mx :
  (forall t : Z, p (inject_Z t) == if ((L <=? t) && (t <=? R))%Z then 1 else 0) ->
  (- mx <= L)%Z -> (L <= R)%Z -> (R <= mx)%Z -> (R - L + 1 < 100)%Z ->
  find_width mx p = (Z.max (Z.abs L) (Z.abs R) + 1)%Z.
Proof.
  intros Hp H1 H2 H3 H4. rewrite find_width_scan. cbv zeta.
  set (n := Z.to_nat (2 * mx + 1)). set (tot := qsum _).
  assert (Htot : tot == inject_Z (R - L + 1)).
  { unfold tot. rewrite (total_count p L R H2 Hp). apply inj_eq. unfold cnt, n. lia. }
  rewrite (scan_left p L R H2 Hp tot (R - L + 1) eq_refl Htot H4) by (try reflexivity; unfold n; lia).
  rewrite (scan_right p L R H2 Hp tot (R - L + 1) eq_refl Htot H4).
  - reflexivity.
  - replace (Z.max 0 (- mx - L)) with 0%Z by lia. reflexivity.
  - unfold n. lia.
Qed.

(* ---------------------------------------------------------------- rectangles *)
Lemma le_inject_floor (t : Z) (x : Q) : inject_Z t <= x <-> (t <= Qfloor x)%Z.
Proof.
  split; intros H.
  - replace t with (Qfloor (inject_Z t)) by apply Qfloor_Z. apply Qfloor_resp_le. exact H.
  - apply Qle_trans with (inject_Z (Qfloor x)); [rewrite <- Zle_Qle; exact H|apply Qfloor_le].
Qed.

Lemma ceiling_le_inject (t : Z) (x : Q) : x <= inject_Z t <-> (Qceiling x <= t)%Z.
Proof.
  split; intros H.
  - replace t with (Qceiling (inject_Z t)) by apply Qceiling_Z. apply Qceiling_resp_le. exact H.
  - apply Qle_trans with (inject_Z (Qceiling x)); [apply Qle_ceiling|rewrite <- Zle_Qle; exact H].
Qed.

Lemma arect_indicator lo hi (t : Z) :
  arect lo hi (inject_Z t) == if ((Qceiling lo <=? t) && (t <=? Qfloor hi))%Z then 1 else 0.
Proof.
  unfold arect.
  assert (E1 : Qle_bool lo (inject_Z t) = (Qceiling lo <=? t)%Z).
  { apply Bool.eq_true_iff_eq. rewrite Qle_bool_iff, ceiling_le_inject. symmetry. apply Z.leb_le. }
  assert (E2 : Qle_bool (inject_Z t) hi = (t <=? Qfloor hi)%Z).
  { apply Bool.eq_true_iff_eq. rewrite Qle_bool_iff, le_inject_floor. symmetry. apply Z.leb_le. }
  rewrite E1, E2. reflexivity.
Qed.

Lemma rect_indicator h (t : Z) :
  rect h (inject_Z t) == if ((- Qfloor h <=? t) && (t <=? Qfloor h))%Z then 1 else 0.
Proof.
  unfold rect.
  assert (E : Qle_bool (Qabs (inject_Z t)) h = ((- Qfloor h <=? t) && (t <=? Qfloor h))%Z).
  { apply Bool.eq_true_iff_eq. rewrite Qle_bool_iff, Qabs_Qle_condition, Bool.andb_true_iff, !Z.leb_le.
    rewrite le_inject_floor.
    assert (K : - h <= inject_Z t <-> (- Qfloor h <= t)%Z).
    { pose proof (le_inject_floor (- t) h) as F. rewrite inject_Z_opp in F. split; intros K.
      - assert (- inject_Z t <= h) by lra. apply F in H. lia.
      - assert (H : (- t <= Qfloor h)%Z) by lia. apply F in H. lra. }
    rewrite K. reflexivity. }
  rewrite E. reflexivity.
Qed.

(* THEOREM: asymmetric rectangle lo <= d <= hi: width = max(|ceil lo|, |floor hi|) + 1 *)
Theorem find_width_arect lo hi mx :
  (- mx <= Qceiling lo)%Z -> (Qceiling lo <= Qfloor hi)%Z -> (Qfloor hi <= mx)%Z -> (Qfloor hi - Qceiling lo + 1 < 100)%Z ->
  find_width mx (arect lo hi) = (Z.max (Z.abs (Qceiling lo)) (Z.abs (Qfloor hi)) + 1)%Z.
Proof. intros. apply find_width_indicator; try assumption. apply arect_indicator. Qed.

(* THEOREM: symmetric rectangle |d| <= h: width = floor h + 1, for every h >= 0 with floor h <= mx and 2 floor h + 1 < 100 *)
Theorem find_width_rect h mx : 0 <= h -> (Qfloor h <= mx)%Z -> (2 * Qfloor h + 1 < 100)%Z ->
  find_width mx (rect h) = (Qfloor h + 1)%Z.
Proof.
  intros H0 H1 H2.
  assert (Hf : (0 <= Qfloor h)%Z) by (change 0%Z with (Qfloor 0); apply Qfloor_resp_le; exact H0).
  rewrite (find_width_indicator (rect h) (- Qfloor h) (Qfloor h) mx (rect_indicator h)) by lia. lia.
Qed.

(* the width found for a rectangle reaches its half-width: h <= width *)
Lemma find_width_rect_covers h mx : 0 <= h -> (Qfloor h <= mx)%Z -> (2 * Qfloor h + 1 < 100)%Z ->
  h <= inject_Z (find_width mx (rect h)).
Proof.
  intros H0 H1 H2. rewrite find_width_rect by assumption.
  pose proof (Qlt_floor h) as F. apply Qlt_le_weak. exact F.
Qed.
