(* C09 - the 2-D wavelet transform (wavedec2 / waverec2 model): W^H W = c^2 identity for one level under the perfect-reconstruction
   condition, and W^H W = identity at every level for orthonormal filter banks. *)
From MrVerif Require Import Base.Prelude Base.StarRing Base.Sums Model.OpAlg Model.ZeroPad Model.ElemOps Model.Wavelet Proofs.OpAlgProofs
  Proofs.ElemOpsProofs Proofs.AlongProofs Proofs.ElemOpsWf Proofs.WaveletProofs Proofs.WaveletWf Proofs.WaveletPRProofs Proofs.AlongGramProofs.
Local Open Scope nat_scope.

Section Gram2.
  Variable R : StarRing.
  Add Ring RrG2 : (k_ring R).
  Local Open Scope K_scope.
  Notation vec := (nat -> R).
  Notation linop := (linop R).

  Definition gram (A : linop) (x : vec) : vec := adj A (fwd A x).

  Lemma vstack_gram (A B : linop) : wf A -> wf B -> dom A = dom B ->
    forall x j, (j < dom A)%nat -> gram (vstack A B) x j = gram A x j + gram B x j.
  Proof.
    intros (_ & _ & _ & EA') (_ & _ & _ & EB') Hd x j Hj. unfold gram. cbn [vstack dom ran fwd adj]. f_equal.
    - apply EA'; [|exact Hj]. intros i Hi. destruct (Nat.ltb_spec i (ran A)); [reflexivity|lia].
    - apply EB'; [|rewrite <- Hd; exact Hj]. intros i Hi. destruct (Nat.ltb_spec (ran A + i) (ran A)); [lia|].
      replace (ran A + i - ran A)%nat with i by lia. reflexivity.
  Qed.

  Lemma along_gram_pair pre post (A1 A2 : linop) (c : R) :
    (0 < post)%nat -> (0 < dom A1)%nat -> dom A1 = dom A2 -> wf A1 -> wf A2 ->
    (forall x k, (k < dom A1)%nat -> gram A1 x k + gram A2 x k = c * x k) ->
    forall x j, (j < pre * (dom A1 * post))%nat -> gram (along pre post A1) x j + gram (along pre post A2) x j = c * x j.
  Proof.
    intros Hp Hd Hdd (_ & _ & _ & E1) (_ & _ & _ & E2) HG x j Hj. unfold gram in *. cbn [along dom ran fwd adj]. rewrite <- Hdd.
    set (a := (j / (dom A1 * post))%nat). set (k := ((j / post) mod dom A1)%nat). set (b := (j mod post)%nat).
    assert (Hk : (k < dom A1)%nat) by (apply Nat.mod_upper_bound; lia).
    assert (Hb : (b < post)%nat) by (apply Nat.mod_upper_bound; lia).
    set (xs := fun k0 => x (a * (dom A1 * post) + (k0 * post + b))%nat).
    rewrite (E1 _ (fwd A1 xs)); [| |exact Hk].
    2:{ intros k' Hk'. destruct (idx3 a k' b (ran A1) post Hk' Hb) as (-> & -> & ->). reflexivity. }
    rewrite (E2 _ (fwd A2 xs)); [| |rewrite <- Hdd; exact Hk].
    2:{ intros k' Hk'. destruct (idx3 a k' b (ran A2) post Hk' Hb) as (-> & -> & ->). reflexivity. }
    rewrite (HG xs k Hk). unfold xs. f_equal. f_equal. unfold a, k, b. symmetry. apply flat_decompose; assumption.
  Qed.

  (* the two bands of one 1-D level together *)
  Lemma band_pair_gram L n (flo fhi glo ghi : vec) (c : R) : (0 < L)%nat -> pr_cond L flo fhi glo ghi c ->
    forall x k, (k < n)%nat ->
      gram (band_op L n (wlen L n) flo glo) x k + gram (band_op L n (wlen L n) fhi ghi) x k = c * x k.
  Proof.
    intros HL HPR x k Hk.
    rewrite <- (vstack_gram (band_op L n (wlen L n) flo glo) (band_op L n (wlen L n) fhi ghi)); [|apply band_wf|apply band_wf|reflexivity|exact Hk].
    exact (dwt1_perfect_reconstruction R L n flo fhi glo ghi c HL HPR x k Hk).
  Qed.

  Lemma gram_comp (A B : linop) x j : gram (comp A B) x j = adj B (gram A (fwd B x)) j.
  Proof. reflexivity. Qed.

  (* sum over the two row bands behind one column band *)
  Lemma column_band_sum (Cb Rlo Rhi : linop) (c : R) x j :
    wf Cb -> dom Rlo = ran Cb -> dom Rhi = ran Cb -> (j < dom Cb)%nat ->
    (forall z i, (i < ran Cb)%nat -> gram Rlo z i + gram Rhi z i = c * z i) ->
    gram (comp Rlo Cb) x j + gram (comp Rhi Cb) x j = c * gram Cb x j.
  Proof.
    intros (_ & _ & LC & EC) H1 H2 Hj HR. rewrite !gram_comp. set (z := fwd Cb x).
    transitivity (adj Cb (fun i => k1 * gram Rlo z i + k1 * gram Rhi z i) j).
    - rewrite (LC k1 k1 (gram Rlo z) (gram Rhi z) j Hj). ring.
    - rewrite (EC _ (fun i => c * z i + k0 * z i)); [| |exact Hj].
      + rewrite (LC c k0 z z j Hj). unfold gram, z. ring.
      + intros i Hi. rewrite <- (HR z i Hi). ring.
  Qed.

  Theorem dwt2_gram L n1 n2 (flo fhi glo ghi : vec) (c : R) :
    (2 <= L)%nat -> (1 <= n1)%nat -> (1 <= n2)%nat -> pr_cond L flo fhi glo ghi c ->
    forall x j, (j < n1 * (n2 * 1))%nat -> gram (dwt2 L n1 n2 flo fhi glo ghi) x j = c * (c * x j).
  Proof.
    intros HL H1 H2 HPR x j Hj.
    pose proof (wlen_pos L n1 HL H1) as Hm1. pose proof (wlen_pos L n2 HL H2) as Hm2.
    set (m1 := wlen L n1) in *. set (m2 := wlen L n2) in *.
    set (Rlo := along 1 m2 (band_op L n1 m1 flo glo)). set (Rhi := along 1 m2 (band_op L n1 m1 fhi ghi)).
    set (Clo := along n1 1 (band_op L n2 m2 flo glo)). set (Chi := along n1 1 (band_op L n2 m2 fhi ghi)).
    assert (WB : forall fa ga fb gb : vec, wf (band2_op L n1 n2 fa ga fb gb)) by (intros; apply band2_wf; assumption).
    assert (WClo : wf Clo) by (apply along_wf; cbn [band_op dom ran]; try lia; apply band_wf).
    assert (WChi : wf Chi) by (apply along_wf; cbn [band_op dom ran]; try lia; apply band_wf).
    assert (HL0 : (0 < L)%nat) by lia.
    (* rows: the two row bands together give c on every column-transformed array *)
    assert (HR : forall z i, (i < 1 * (n1 * m2))%nat -> gram Rlo z i + gram Rhi z i = c * z i).
    { intros z i Hi.
      refine (along_gram_pair 1 m2 (band_op L n1 m1 flo glo) (band_op L n1 m1 fhi ghi) c Hm2 _ eq_refl (band_wf R L n1 m1 flo glo) (band_wf R L n1 m1 fhi ghi) _ z i Hi).
      - cbn [band_op dom]. lia.
      - intros y k Hk. cbn [band_op dom] in Hk. apply band_pair_gram; assumption. }
    (* columns *)
    assert (HC : forall y i, (i < n1 * (n2 * 1))%nat -> gram Clo y i + gram Chi y i = c * y i).
    { intros y i Hi.
      refine (along_gram_pair n1 1 (band_op L n2 m2 flo glo) (band_op L n2 m2 fhi ghi) c Nat.lt_0_1 _ eq_refl (band_wf R L n2 m2 flo glo) (band_wf R L n2 m2 fhi ghi) _ y i Hi).
      - cbn [band_op dom]. lia.
      - intros y' k Hk. cbn [band_op dom] in Hk. apply band_pair_gram; assumption. }
    unfold dwt2. fold m1 m2. change (band2_op L n1 n2 flo glo flo glo) with (comp Rlo Clo).
    change (band2_op L n1 n2 fhi ghi flo glo) with (comp Rhi Clo). change (band2_op L n1 n2 flo glo fhi ghi) with (comp Rlo Chi).
    change (band2_op L n1 n2 fhi ghi fhi ghi) with (comp Rhi Chi).
    assert (Wll : wf (comp Rlo Clo)) by apply (WB flo glo flo glo). assert (Whl : wf (comp Rhi Clo)) by apply (WB fhi ghi flo glo).
    assert (Wlh : wf (comp Rlo Chi)) by apply (WB flo glo fhi ghi). assert (Whh : wf (comp Rhi Chi)) by apply (WB fhi ghi fhi ghi).
    rewrite vstack_gram; [|exact Wll|repeat (apply vstack_wf; [reflexivity|assumption|]); assumption|reflexivity|exact Hj].
    rewrite vstack_gram; [|exact Whl|repeat (apply vstack_wf; [reflexivity|assumption|]); assumption|reflexivity|exact Hj].
    rewrite vstack_gram; [|exact Wlh|exact Whh|reflexivity|exact Hj].
    transitivity ((gram (comp Rlo Clo) x j + gram (comp Rhi Clo) x j) + (gram (comp Rlo Chi) x j + gram (comp Rhi Chi) x j)); [ring|].
    rewrite (column_band_sum Clo Rlo Rhi c x j WClo); [| | |exact Hj|].
    - rewrite (column_band_sum Chi Rlo Rhi c x j WChi); [| | |exact Hj|].
      + rewrite <- (HC x j Hj). ring.
      + unfold Rlo, Chi. cbn [along dom ran band_op]. ring.
      + unfold Rhi, Chi. cbn [along dom ran band_op]. ring.
      + intros z i Hi. apply HR. unfold Chi in Hi. cbn [along dom ran band_op] in Hi. lia.
    - unfold Rlo, Clo. cbn [along dom ran band_op]. ring.
    - unfold Rhi, Clo. cbn [along dom ran band_op]. ring.
    - intros z i Hi. apply HR. unfold Clo in Hi. cbn [along dom ran band_op] in Hi. lia.
  Qed.

  (* all levels, orthonormal banks: wavedec2 followed by waverec2 is the identity *)
  Theorem wavedec2_isometry level : forall L n1 n2 (flo fhi glo ghi : vec), (2 <= L)%nat -> (1 <= n1)%nat -> (1 <= n2)%nat ->
    pr_cond L flo fhi glo ghi k1 ->
    forall x j, (j < n1 * (n2 * 1))%nat -> gram (wavedec2_op level L n1 n2 flo fhi glo ghi) x j = x j.
  Proof.
    induction level as [|l IH]; intros L n1 n2 flo fhi glo ghi HL H1 H2 HPR x j Hj; cbn [wavedec2_op].
    - reflexivity.
    - cbv zeta. pose proof (wlen_pos L n1 HL H1) as Hm1. pose proof (wlen_pos L n2 HL H2) as Hm2.
      set (m1 := wlen L n1) in *. set (m2 := wlen L n2) in *.
      set (W := wavedec2_op l L m1 m2 flo fhi glo ghi). set (D := dwt2 L n1 n2 flo fhi glo ghi).
      set (E := (1 * (m1 * m2) + (1 * (m1 * m2) + 1 * (m1 * m2)))%nat).
      unfold gram. cbn [comp fwd adj].
      assert (HdW : dom W = (m1 * (m2 * 1))%nat) by apply wavedec2_dom'.
      assert (HrD : ran D = (1 * (m1 * m2) + E)%nat) by reflexivity.
      assert (HdD : dom D = (n1 * (n2 * 1))%nat) by reflexivity.
      destruct (wavedec2_wf R l L m1 m2 flo fhi glo ghi HL ltac:(lia) ltac:(lia)) as (_ & _ & _ & EW'). fold W in EW'.
      destruct (dwt2_wf R L n1 n2 flo fhi glo ghi HL H1 H2) as (_ & _ & _ & ED'). fold D in ED'.
      set (y := fwd D x).
      assert (Hb : forall i, (i < 1 * (m1 * m2) + E)%nat -> adj (bdiag W (idop (R:=R) E)) (fwd (bdiag W (idop (R:=R) E)) y) i = y i).
      { intros i Hi. cbn [bdiag idop dom ran fwd adj]. rewrite HdW.
        destruct (Nat.ltb_spec i (m1 * (m2 * 1))) as [Him|Him].
        - rewrite (EW' _ (fwd W y)); [apply (IH L m1 m2 flo fhi glo ghi HL ltac:(lia) ltac:(lia) HPR y i Him)| |rewrite HdW; exact Him].
          intros t Ht. destruct (Nat.ltb_spec t (ran W)); [reflexivity|lia].
        - destruct (Nat.ltb_spec (ran W + (i - m1 * (m2 * 1))) (ran W)); [lia|].
          replace (ran W + (i - m1 * (m2 * 1)) - ran W)%nat with (i - m1 * (m2 * 1))%nat by lia. f_equal. lia. }
      rewrite (ED' _ y); [| |rewrite HdD; exact Hj].
      + change (gram (dwt2 L n1 n2 flo fhi glo ghi) x j = x j). rewrite (dwt2_gram L n1 n2 flo fhi glo ghi k1 HL H1 H2 HPR x j Hj). ring.
      + intros i Hi. rewrite HrD in Hi. apply Hb. exact Hi.
  Qed.
End Gram2.
