(* C08 - proofs about the scalar cores of Model/Functionals.v over the reals:
   prox optimality (global minimiser), Moreau identity, value formulas, lifting to index lists,
   scaled functionals and separable sums. *)
From Coq Require Import Reals Lra Psatz List.
From MrVerif Require Import Model.Functionals.
Import ListNotations.
Local Open Scope R_scope.

(* ------------------------------------------------------------------------------------------------ *)
(* basic facts                                                                                       *)
(* ------------------------------------------------------------------------------------------------ *)
Lemma sgnR_abs d : sgnR d * Rabs d = d.
Proof. unfold sgnR, Rabs. destruct (Rlt_dec 0 d), (Rlt_dec d 0), (Rcase_abs d); lra. Qed.

Lemma reluR_nonneg x : 0 <= reluR x.
Proof. unfold reluR. apply Rmax_r. Qed.

Lemma Rabs_scaled w s n : 0 <= s -> 0 < n -> Rabs (w * s / n) = s * Rabs w / n.
Proof.
  intros Hs Hn. unfold Rdiv. rewrite !Rabs_mult. rewrite (Rabs_pos_eq s) by assumption.
  rewrite (Rabs_pos_eq (/ n)) by (left; apply Rinv_0_lt_compat; assumption). ring.
Qed.

(* the real soft-threshold is the minimiser of  t |q| + 1/2 (d - q)^2 *)
Lemma soft_opt d q t : 0 <= t ->
  t * Rabs (softR d t) + / 2 * sq (d - softR d t) <= t * Rabs q + / 2 * sq (d - q).
Proof.
  intros Ht. unfold softR, reluR, sq.
  destruct (Rle_dec (Rabs d - t) 0) as [H|H].
  - rewrite Rmax_right by lra. rewrite Rmult_0_r, Rabs_R0.
    unfold Rabs in *. destruct (Rcase_abs d), (Rcase_abs q); nra.
  - rewrite Rmax_left by lra.
    unfold sgnR. destruct (Rlt_dec 0 d); [|destruct (Rlt_dec d 0)].
    + assert (Ed : Rabs d = d) by (apply Rabs_pos_eq; lra). rewrite Ed in *.
      rewrite Rmult_1_l. rewrite (Rabs_pos_eq (d - t)) by lra.
      unfold Rabs. destruct (Rcase_abs q).
      * pose proof (Rle_0_sqr (- q - d + t)). unfold Rsqr in *. assert (0 <= d * - q) by nra. nra.
      * pose proof (Rle_0_sqr (q - d + t)). unfold Rsqr in *. nra.
    + assert (Ed : Rabs d = - d) by (apply Rabs_left; lra). rewrite Ed in *.
      rewrite (Rabs_left (-1 * (- d - t))) by lra.
      unfold Rabs. destruct (Rcase_abs q).
      * pose proof (Rle_0_sqr (- q + d + t)). unfold Rsqr in *. nra.
      * pose proof (Rle_0_sqr (q + d + t)). unfold Rsqr in *. assert (0 <= - d * q) by nra. nra.
    + assert (d = 0) by lra. subst. rewrite Rabs_R0 in H. lra.
Qed.

(* ------------------------------------------------------------------------------------------------ *)
(* L1Norm, real elements                                                                             *)
(* ------------------------------------------------------------------------------------------------ *)
Definition obj (sigma fval x p : R) : R := sigma * fval + / 2 * sq (x - p).

Lemma l1_prox_opt n w b sigma x p : 0 < n -> 0 <= sigma ->
  obj sigma (l1_val w b (l1_prox n w b sigma x) / n) x (l1_prox n w b sigma x)
  <= obj sigma (l1_val w b p / n) x p.
Proof.
  intros Hn Hs. unfold obj, l1_val, l1_prox.
  rewrite Rabs_scaled by assumption. set (t := sigma * Rabs w / n).
  assert (Ht : 0 <= t).
  { unfold t, Rdiv. apply Rmult_le_pos; [apply Rmult_le_pos; [lra|apply Rabs_pos]|left; apply Rinv_0_lt_compat; lra]. }
  pose proof (soft_opt (x - b) (p - b) t Ht) as H.
  rewrite !Rabs_mult.
  replace (softR (x - b) t + b - b) with (softR (x - b) t) by ring.
  replace (x - (softR (x - b) t + b)) with (x - b - softR (x - b) t) by ring.
  replace (x - p) with (x - b - (p - b)) by ring.
  replace (sigma * (Rabs w * Rabs (softR (x - b) t) / n)) with (t * Rabs (softR (x - b) t)) by (unfold t; field; lra).
  replace (sigma * (Rabs w * Rabs (p - b) / n)) with (t * Rabs (p - b)) by (unfold t; field; lra).
  exact H.
Qed.

Lemma soft_plus_clamp d t : 0 <= t -> sgnR d * reluR (Rabs d - t) + sgnR d * Rmin (Rabs d) t = d.
Proof.
  intros Ht. rewrite <- Rmult_plus_distr_l.
  replace (reluR (Rabs d - t) + Rmin (Rabs d) t) with (Rabs d); [apply sgnR_abs|].
  unfold reluR, Rmax, Rmin. destruct (Rle_dec _ _), (Rle_dec _ _); lra.
Qed.

Lemma sgnR_scale s d : 0 < s -> sgnR (d / s) = sgnR d.
Proof.
  intros Hs. assert (Hi : 0 < / s) by (apply Rinv_0_lt_compat; lra).
  unfold sgnR, Rdiv. destruct (Rlt_dec 0 d), (Rlt_dec d 0), (Rlt_dec 0 (d * / s)), (Rlt_dec (d * / s) 0); try lra; nra.
Qed.

(* Moreau: x = prox_{sigma f}(x) + sigma prox_{f*/sigma}(x/sigma), closed-form prox_convex_conj of L1Norm *)
Lemma l1_moreau n w b sigma x : 0 < n -> 0 < sigma ->
  x = l1_prox n w b sigma x + sigma * l1_pcc n w b (/ sigma) (x / sigma).
Proof.
  intros Hn Hs. unfold l1_prox, l1_pcc, softR. cbv zeta.
  rewrite Rabs_scaled by lra. set (t := sigma * Rabs w / n).
  assert (Hi : 0 < / sigma) by (apply Rinv_0_lt_compat; lra).
  assert (Hin : 0 < / n) by (apply Rinv_0_lt_compat; lra).
  assert (Ht : 0 <= t).
  { unfold t, Rdiv. apply Rmult_le_pos; [apply Rmult_le_pos; [lra|apply Rabs_pos]|lra]. }
  replace (x / sigma - / sigma * b) with ((x - b) / sigma) by (field; lra).
  rewrite sgnR_scale by assumption.
  assert (E : sigma * Rmin (Rabs ((x - b) / sigma)) (Rabs (Rabs w / n)) = Rmin (Rabs (x - b)) t).
  { assert (Ea : Rabs ((x - b) / sigma) = Rabs (x - b) / sigma).
    { unfold Rdiv. rewrite Rabs_mult, (Rabs_pos_eq (/ sigma)) by lra. reflexivity. }
    assert (Eb : Rabs (Rabs w / n) = Rabs w / n).
    { apply Rabs_pos_eq. unfold Rdiv. apply Rmult_le_pos; [apply Rabs_pos|lra]. }
    rewrite Ea, Eb. set (A := Rabs (x - b)). set (W := Rabs w / n).
    assert (Et : t = sigma * W) by (unfold t, W; field; lra).
    assert (EA : A = sigma * (A / sigma)) by (field; lra).
    unfold Rmin. destruct (Rle_dec (A / sigma) W), (Rle_dec A t); try (field; lra); try lra; exfalso; nra. }
  replace (sigma * (sgnR (x - b) * Rmin (Rabs ((x - b) / sigma)) (Rabs (Rabs w / n))))
    with (sgnR (x - b) * (sigma * Rmin (Rabs ((x - b) / sigma)) (Rabs (Rabs w / n)))) by ring.
  rewrite E. pose proof (soft_plus_clamp (x - b) t Ht). lra.
Qed.

(* ------------------------------------------------------------------------------------------------ *)
(* L2NormSquared / MSE, real elements                                                                 *)
(* ------------------------------------------------------------------------------------------------ *)
Lemma quad_opt k b x p : 0 <= k ->
  let ps := (x + 2 * k * b) / (1 + 2 * k) in
  k * sq (ps - b) + / 2 * sq (x - ps) <= k * sq (p - b) + / 2 * sq (x - p).
Proof.
  intros Hk ps.
  assert (E : k * sq (p - b) + / 2 * sq (x - p) - (k * sq (ps - b) + / 2 * sq (x - ps)) = (k + / 2) * sq (p - ps)).
  { unfold ps, sq. field. lra. }
  assert (0 <= (k + / 2) * sq (p - ps)) by (apply Rmult_le_pos; [lra|apply (Rle_0_sqr (p - ps))]).
  lra.
Qed.

Lemma l2_val_alt w b x : l2_val w b x = w * w * sq (x - b).
Proof. unfold l2_val, sq. rewrite <- Rabs_mult. rewrite Rabs_pos_eq by apply (Rle_0_sqr (w * (x - b))). ring. Qed.

Lemma l2_prox_opt n w b sigma x p : 0 < n -> 0 <= sigma ->
  obj sigma (l2_val w b (l2_prox n w b sigma x) / n) x (l2_prox n w b sigma x)
  <= obj sigma (l2_val w b p / n) x p.
Proof.
  intros Hn Hs. unfold obj. rewrite !l2_val_alt. unfold l2_prox. cbv zeta.
  set (k := sigma * (w * w) / n).
  assert (Hk : 0 <= k).
  { unfold k, Rdiv. apply Rmult_le_pos; [apply Rmult_le_pos; [lra|nra]|left; apply Rinv_0_lt_compat; lra]. }
  pose proof (quad_opt k b x p Hk) as H. cbv zeta in H.
  replace (w * w * 2 * sigma / n) with (2 * k) by (unfold k; field; lra).
  replace (sigma * (w * w * sq ((x + 2 * k * b) / (1 + 2 * k) - b) / n)) with (k * sq ((x + 2 * k * b) / (1 + 2 * k) - b))
    by (unfold k; field; lra).
  replace (sigma * (w * w * sq (p - b) / n)) with (k * sq (p - b)) by (unfold k; field; lra).
  exact H.
Qed.

Lemma l2_moreau n w b sigma x : 0 < n -> 0 < sigma ->
  x = l2_prox n w b sigma x + sigma * l2_pcc n w b (/ sigma) (x / sigma).
Proof.
  intros Hn Hs. unfold l2_prox, l2_pcc. cbv zeta.
  assert (0 <= w * w / n) by (unfold Rdiv; apply Rmult_le_pos; [nra|left; apply Rinv_0_lt_compat; lra]).
  assert (0 < / sigma) by (apply Rinv_0_lt_compat; lra).
  assert (w * w * 2 * sigma / n = 2 * sigma * (w * w / n)) by (field; lra).
  field. repeat split; try lra; nra.
Qed.

(* ------------------------------------------------------------------------------------------------ *)
(* ZeroFunctional                                                                                     *)
(* ------------------------------------------------------------------------------------------------ *)
Lemma zero_prox_opt sigma x p : obj sigma (zero_val (zero_prox sigma x)) x (zero_prox sigma x) <= obj sigma (zero_val p) x p.
Proof. unfold obj, zero_val, zero_prox, sq. pose proof (Rle_0_sqr (x - p)) as H. unfold Rsqr in H. replace ((x - x) * (x - x)) with 0 by ring. lra. Qed.

Lemma zero_moreau sigma x : 0 < sigma -> x = zero_prox sigma x + sigma * zero_pcc (/ sigma) (x / sigma).
Proof.
  intros Hs. unfold zero_prox, zero_pcc. destruct (Req_EM_T (/ sigma) 0) as [E|E]; [|ring].
  exfalso. apply (Rinv_neq_0_compat sigma); lra.
Qed.

(* ------------------------------------------------------------------------------------------------ *)
(* generic fallback of prox_convex_conj                                                               *)
(* ------------------------------------------------------------------------------------------------ *)
Lemma tweak_id s : 1 / 100000000 <= s -> tweak s = s.
Proof. intros H. unfold tweak. destruct (Rlt_dec _ _); lra. Qed.

Lemma fallback_moreau (prox : R -> R -> R) sigma x : 0 < sigma -> 1 / 100000000 <= / sigma ->
  x = prox sigma x + sigma * pcc_fallback prox (/ sigma) (x / sigma).
Proof.
  intros Hs Ht. unfold pcc_fallback. cbv zeta. rewrite tweak_id by assumption.
  replace (1 / / sigma) with sigma by (field; lra).
  replace (x / sigma / / sigma) with x by (field; lra). field. lra.
Qed.

(* what the tweak does for sigma > 1e8: the conjugate prox is evaluated with step 1/sigma + 1e-6 instead of 1/sigma *)
Lemma fallback_tweaked (prox : R -> R -> R) sigma x : 0 < sigma -> / sigma < 1 / 100000000 ->
  let tau := / sigma + 1 / 1000000 in
  sigma * pcc_fallback prox (/ sigma) (x / sigma) = x - sigma * tau * prox (/ tau) (x / (sigma * tau)).
Proof.
  intros Hs Ht tau. unfold pcc_fallback, tweak. cbv zeta. destruct (Rlt_dec _ _) as [_|N]; [|lra].
  fold tau. assert (0 < / sigma) by (apply Rinv_0_lt_compat; lra). assert (0 < tau) by (unfold tau; lra).
  replace (1 / tau) with (/ tau) by (field; lra).
  replace (x / sigma / tau) with (x / (sigma * tau)) by (field; lra). field. lra.
Qed.

(* ------------------------------------------------------------------------------------------------ *)
(* complex elements                                                                                   *)
(* ------------------------------------------------------------------------------------------------ *)
Lemma cnorm2_nonneg z : 0 <= cnorm2 z.
Proof. unfold cnorm2. nra. Qed.

Lemma cabs_nonneg z : 0 <= cabs z.
Proof. apply sqrt_pos. Qed.

Lemma cabs_sq z : cabs z * cabs z = cnorm2 z.
Proof. apply sqrt_sqrt, cnorm2_nonneg. Qed.

Lemma cabs_unique z a : 0 <= a -> a * a = cnorm2 z -> cabs z = a.
Proof. intros Ha E. unfold cabs. rewrite <- E. apply sqrt_square. assumption. Qed.

Lemma cabs_0 : cabs (0, 0) = 0.
Proof. apply cabs_unique; [lra|unfold cnorm2; cbn; ring]. Qed.

Lemma cabs_eq_0 z : cabs z = 0 -> z = (0, 0).
Proof.
  intros H. pose proof (cabs_sq z) as E. rewrite H in E. unfold cnorm2 in E. destruct z as [a b]; cbn in *.
  assert (a = 0) by nra. assert (b = 0) by nra. subst. reflexivity.
Qed.

Lemma cabs_mul a b : cabs (cmul a b) = cabs a * cabs b.
Proof.
  apply cabs_unique.
  - apply Rmult_le_pos; apply cabs_nonneg.
  - replace (cabs a * cabs b * (cabs a * cabs b)) with ((cabs a * cabs a) * (cabs b * cabs b)) by ring.
    rewrite !cabs_sq. unfold cnorm2, cmul. cbn. ring.
Qed.

Lemma cabs_scale s z : cabs (cscale s z) = Rabs s * cabs z.
Proof.
  apply cabs_unique.
  - apply Rmult_le_pos; [apply Rabs_pos|apply cabs_nonneg].
  - replace (Rabs s * cabs z * (Rabs s * cabs z)) with ((Rabs s * Rabs s) * (cabs z * cabs z)) by ring.
    rewrite cabs_sq. replace (Rabs s * Rabs s) with (s * s) by (unfold Rabs; destruct (Rcase_abs s); ring).
    unfold cnorm2, cscale. cbn. ring.
Qed.

Lemma cabs_real x : cabs (x, 0) = Rabs x.
Proof.
  apply cabs_unique; [apply Rabs_pos|]. unfold cnorm2. cbn.
  unfold Rabs; destruct (Rcase_abs x); ring.
Qed.

(* Cauchy-Schwarz in R^2 *)
Lemma cs2 d q : fst d * fst q + snd d * snd q <= cabs d * cabs q.
Proof.
  pose proof (cabs_nonneg d) as Hd. pose proof (cabs_nonneg q) as Hq.
  pose proof (cabs_sq d) as Ed. pose proof (cabs_sq q) as Eq. unfold cnorm2 in *.
  destruct d as [d1 d2], q as [q1 q2]; cbn in *.
  set (r := cabs (d1, d2)) in *. set (s := cabs (q1, q2)) in *.
  destruct (Rle_dec (d1 * q1 + d2 * q2) (r * s)) as [H|H]; [exact H|exfalso].
  assert (Hrs : 0 <= r * s) by (apply Rmult_le_pos; assumption).
  assert (H1 : (r * s) * (r * s) < (d1 * q1 + d2 * q2) * (d1 * q1 + d2 * q2)) by nra.
  assert (H2 : (r * s) * (r * s) = (d1 * d1 + d2 * d2) * (q1 * q1 + q2 * q2)) by (rewrite <- Ed, <- Eq; ring).
  pose proof (Rle_0_sqr (d1 * q2 - d2 * q1)) as H3. unfold Rsqr in H3. nra.
Qed.

Lemma csoft_abs d t : 0 <= t ->
  cabs (csoft d t) = reluR (cabs d - t) /\ cnorm2 (csub d (csoft d t)) = sq (cabs d - reluR (cabs d - t)).
Proof.
  intros Ht. unfold csoft, csgn. set (m := reluR (cabs d - t)).
  pose proof (reluR_nonneg (cabs d - t)) as Hm. fold m in Hm.
  destruct (Req_EM_T (cabs d) 0) as [E|E].
  - assert (Em : m = 0).
    { unfold m, reluR. rewrite E. apply Rmax_right. lra. }
    pose proof (cabs_eq_0 _ E) as ->. rewrite Em. split.
    + rewrite cabs_scale, cabs_0. ring.
    + rewrite cabs_0. unfold cnorm2, csub, cscale, sq; cbn. ring.
  - pose proof (cabs_nonneg d) as Hr. pose proof (cabs_sq d) as Er. unfold cnorm2 in Er.
    set (r := cabs d) in *. destruct d as [d1 d2]; cbn [fst snd] in *.
    assert (Hr0 : 0 < r) by lra.
    split.
    + apply cabs_unique; [exact Hm|]. unfold cnorm2, cscale; cbn [fst snd].
      replace (m * (d1 / r) * (m * (d1 / r)) + m * (d2 / r) * (m * (d2 / r)))
        with (m * m * ((d1 * d1 + d2 * d2) / (r * r))) by (field; lra).
      rewrite <- Er. field. lra.
    + unfold cnorm2, csub, cscale, sq; cbn [fst snd].
      replace ((d1 - m * (d1 / r)) * (d1 - m * (d1 / r)) + (d2 - m * (d2 / r)) * (d2 - m * (d2 / r)))
        with ((d1 * d1 + d2 * d2) * ((1 - m / r) * (1 - m / r))) by (field; lra).
      rewrite <- Er. field. lra.
Qed.

(* the complex soft-threshold (on the modulus) is the minimiser of  t |q| + 1/2 |d - q|^2  over q in C *)
Lemma csoft_opt d q t : 0 <= t ->
  t * cabs (csoft d t) + / 2 * cnorm2 (csub d (csoft d t)) <= t * cabs q + / 2 * cnorm2 (csub d q).
Proof.
  intros Ht. destruct (csoft_abs d t Ht) as [E1 E2]. rewrite E1, E2.
  pose proof (cs2 d q) as CS. pose proof (cabs_nonneg d) as Hr. pose proof (cabs_nonneg q) as Hs.
  pose proof (cabs_sq d) as Er. pose proof (cabs_sq q) as Es.
  assert (En : cnorm2 (csub d q) = cnorm2 d - 2 * (fst d * fst q + snd d * snd q) + cnorm2 q).
  { unfold cnorm2, csub; cbn. ring. }
  rewrite En, <- Er, <- Es. set (r := cabs d) in *. set (s := cabs q) in *.
  set (ip := fst d * fst q + snd d * snd q) in *.
  unfold reluR, Rmax, sq. destruct (Rle_dec (r - t) 0) as [H|H].
  - nra.
  - pose proof (Rle_0_sqr (s - r + t)) as H3. unfold Rsqr in H3. nra.
Qed.

Definition cobj (sigma fval : R) (x p : C) : R := sigma * fval + / 2 * cnorm2 (csub x p).

Lemma csub_add_cancel a b : csub (cadd a b) b = a.
Proof. destruct a, b; unfold csub, cadd; cbn. f_equal; ring. Qed.

Lemma csub_shift x b p : csub x p = csub (csub x b) (csub p b).
Proof. destruct x, b, p; unfold csub; cbn. f_equal; ring. Qed.

Lemma cl1_prox_opt n w b sigma x p : 0 < n -> 0 <= sigma ->
  cobj sigma (cl1_val w b (cl1_prox n w b sigma x) / n) x (cl1_prox n w b sigma x)
  <= cobj sigma (cl1_val w b p / n) x p.
Proof.
  intros Hn Hs. unfold cobj, cl1_val, cl1_prox.
  assert (Hin : 0 < / n) by (apply Rinv_0_lt_compat; lra).
  rewrite cabs_scale. rewrite (Rabs_pos_eq (sigma / n)) by (unfold Rdiv; apply Rmult_le_pos; lra).
  set (t := sigma / n * cabs w).
  assert (Ht : 0 <= t) by (unfold t, Rdiv; apply Rmult_le_pos; [apply Rmult_le_pos; lra|apply cabs_nonneg]).
  pose proof (csoft_opt (csub x b) (csub p b) t Ht) as H.
  rewrite !cabs_mul, csub_add_cancel.
  rewrite (csub_shift x b (cadd _ b)), csub_add_cancel. rewrite (csub_shift x b p).
  replace (sigma * (cabs w * cabs (csoft (csub x b) t) / n)) with (t * cabs (csoft (csub x b) t)) by (unfold t; field; lra).
  replace (sigma * (cabs w * cabs (csub p b) / n)) with (t * cabs (csub p b)) by (unfold t; field; lra).
  exact H.
Qed.

Lemma csgn_abs d : cscale (cabs d) (csgn d) = d.
Proof.
  unfold csgn. destruct (Req_EM_T (cabs d) 0) as [E|E].
  - rewrite (cabs_eq_0 _ E). unfold cscale; cbn. f_equal; ring.
  - destruct d as [d1 d2]; unfold cscale; cbn [fst snd]. f_equal; field; exact E.
Qed.

Lemma csgn_scale s d : 0 < s -> csgn (cscale (/ s) d) = csgn d.
Proof.
  intros Hs. assert (Hi : 0 < / s) by (apply Rinv_0_lt_compat; lra).
  unfold csgn. rewrite cabs_scale, (Rabs_pos_eq (/ s)) by lra.
  pose proof (cabs_nonneg d) as Hd.
  destruct (Req_EM_T (/ s * cabs d) 0) as [E|E], (Req_EM_T (cabs d) 0) as [E'|E']; try reflexivity.
  - exfalso. apply E'. nra.
  - exfalso. apply E. rewrite E'. ring.
  - destruct d as [d1 d2]; unfold cscale; cbn [fst snd]. f_equal; field; lra.
Qed.

Lemma cscale_cscale a b z : cscale a (cscale b z) = cscale (a * b) z.
Proof. destruct z; unfold cscale; cbn. f_equal; ring. Qed.

Lemma cscale_add_distr a b z : cadd (cscale a z) (cscale b z) = cscale (a + b) z.
Proof. destruct z; unfold cscale, cadd; cbn. f_equal; ring. Qed.

Lemma cl1_moreau n w b sigma x : 0 < n -> 0 < sigma ->
  x = cadd (cl1_prox n w b sigma x) (cscale sigma (cl1_pcc n w b (/ sigma) (cscale (/ sigma) x))).
Proof.
  intros Hn Hs. unfold cl1_prox, cl1_pcc, csoft. cbv zeta.
  assert (Hi : 0 < / sigma) by (apply Rinv_0_lt_compat; lra).
  assert (Hin : 0 < / n) by (apply Rinv_0_lt_compat; lra).
  pose proof (cabs_nonneg w) as Hw.
  rewrite cabs_scale. rewrite (Rabs_pos_eq (sigma / n)) by (unfold Rdiv; apply Rmult_le_pos; lra).
  set (t := sigma / n * cabs w).
  assert (Ht : 0 <= t) by (unfold t, Rdiv; apply Rmult_le_pos; [apply Rmult_le_pos; lra|lra]).
  replace (csub (cscale (/ sigma) x) (cscale (/ sigma) b)) with (cscale (/ sigma) (csub x b))
    by (destruct x, b; unfold cscale, csub; cbn; f_equal; ring).
  rewrite csgn_scale by assumption. rewrite cabs_scale, (Rabs_pos_eq (/ sigma)) by lra.
  rewrite (Rabs_pos_eq (cabs w / n)) by (unfold Rdiv; apply Rmult_le_pos; lra).
  rewrite cscale_cscale. set (d := csub x b). set (A := cabs d). pose proof (cabs_nonneg d) as HA. fold A in HA.
  assert (E : sigma * Rmin (/ sigma * A) (cabs w / n) = Rmin A t).
  { assert (Et : t = sigma * (cabs w / n)) by (unfold t; field; lra).
    assert (EA : A = sigma * (/ sigma * A)) by (field; lra).
    unfold Rmin. destruct (Rle_dec (/ sigma * A) (cabs w / n)), (Rle_dec A t); try (field; lra); try lra; exfalso; nra. }
  rewrite E.
  assert (E2 : reluR (A - t) + Rmin A t = A).
  { unfold reluR, Rmax, Rmin. destruct (Rle_dec _ _), (Rle_dec _ _); lra. }
  replace x with (cadd d b) at 1 by (unfold d; destruct x, b; unfold cadd, csub; cbn; f_equal; ring).
  rewrite <- (csgn_abs d) at 1. fold A. rewrite <- E2 at 1.
  destruct (csgn d) as [g1 g2], b as [b1 b2]. unfold cadd, cscale; cbn. f_equal; ring.
Qed.


(* explicit branches of the complex soft-threshold (used by the per-case `interval` lemmas of the harness) *)
Lemma cl1_prox_shrink n w b sigma x :
  0 < cabs (csub x b) - cabs (cscale (sigma / n) w) ->
  cl1_prox n w b sigma x =
    ((cabs (csub x b) - cabs (cscale (sigma / n) w)) * (fst (csub x b) / cabs (csub x b)) + fst b,
     (cabs (csub x b) - cabs (cscale (sigma / n) w)) * (snd (csub x b) / cabs (csub x b)) + snd b).
Proof.
  intros H. unfold cl1_prox, csoft, csgn.
  pose proof (cabs_nonneg (cscale (sigma / n) w)) as Ht.
  destruct (Req_EM_T (cabs (csub x b)) 0) as [E|E]; [lra|].
  unfold reluR. rewrite Rmax_left by lra. unfold cadd, cscale at 1; cbn [fst snd]. reflexivity.
Qed.

Lemma cl1_prox_kill n w b sigma x :
  cabs (csub x b) - cabs (cscale (sigma / n) w) <= 0 -> cl1_prox n w b sigma x = b.
Proof.
  intros H. unfold cl1_prox, csoft, reluR. rewrite Rmax_right by lra.
  destruct (csgn (csub x b)) as [g1 g2], b as [b1 b2]. unfold cadd, cscale; cbn [fst snd]. f_equal; ring.
Qed.

(* ---- L2 complex ---- *)
Lemma cl2_val_alt w b x : cl2_val w b x = cnorm2 w * cnorm2 (csub x b).
Proof. unfold cl2_val, sq. rewrite cabs_mul. rewrite <- !cabs_sq. ring. Qed.

Lemma cl2_prox_opt n w b sigma x p : 0 < n -> 0 <= sigma ->
  cobj sigma (cl2_val w b (cl2_prox n w b sigma x) / n) x (cl2_prox n w b sigma x)
  <= cobj sigma (cl2_val w b p / n) x p.
Proof.
  intros Hn Hs. unfold cobj. rewrite !cl2_val_alt. unfold cl2_prox. cbv zeta.
  pose proof (cnorm2_nonneg w) as Hw. set (W := cnorm2 w) in *.
  set (k := sigma * W / n).
  assert (Hk : 0 <= k).
  { unfold k, Rdiv. apply Rmult_le_pos; [apply Rmult_le_pos; lra|left; apply Rinv_0_lt_compat; lra]. }
  replace (W * 2 * sigma / n) with (2 * k) by (unfold k; field; lra).
  destruct x as [x1 x2], b as [b1 b2], p as [p1 p2].
  pose proof (quad_opt k b1 x1 p1 Hk) as H1. pose proof (quad_opt k b2 x2 p2 Hk) as H2. cbv zeta in H1, H2.
  unfold cnorm2, csub, cadd, cscale, sq in *; cbn [fst snd] in *.
  replace (/ (1 + 2 * k) * (x1 + 2 * k * b1)) with ((x1 + 2 * k * b1) / (1 + 2 * k)) by (field; lra).
  replace (/ (1 + 2 * k) * (x2 + 2 * k * b2)) with ((x2 + 2 * k * b2) / (1 + 2 * k)) by (field; lra).
  set (q1 := (x1 + 2 * k * b1) / (1 + 2 * k)) in *. set (q2 := (x2 + 2 * k * b2) / (1 + 2 * k)) in *.
  replace (sigma * (W * ((q1 - b1) * (q1 - b1) + (q2 - b2) * (q2 - b2)) / n))
    with (k * ((q1 - b1) * (q1 - b1)) + k * ((q2 - b2) * (q2 - b2))) by (unfold k; field; lra).
  replace (sigma * (W * ((p1 - b1) * (p1 - b1) + (p2 - b2) * (p2 - b2)) / n))
    with (k * ((p1 - b1) * (p1 - b1)) + k * ((p2 - b2) * (p2 - b2))) by (unfold k; field; lra).
  lra.
Qed.

Lemma cl2_moreau n w b sigma x : 0 < n -> 0 < sigma ->
  x = cadd (cl2_prox n w b sigma x) (cscale sigma (cl2_pcc n w b (/ sigma) (cscale (/ sigma) x))).
Proof.
  intros Hn Hs. unfold cl2_prox, cl2_pcc. cbv zeta.
  pose proof (cnorm2_nonneg w) as Hw. set (W := cnorm2 w) in *.
  assert (Hin : 0 < / n) by (apply Rinv_0_lt_compat; lra).
  assert (HWn : 0 <= W / n) by (unfold Rdiv; apply Rmult_le_pos; lra).
  assert (Hi : 0 < / sigma) by (apply Rinv_0_lt_compat; lra).
  assert (Hc : 0 <= W * 2 * sigma / n).
  { replace (W * 2 * sigma / n) with (2 * sigma * (W / n)) by (field; lra). apply Rmult_le_pos; lra. }
  destruct x as [x1 x2], b as [b1 b2]. unfold cadd, cscale, csub; cbn [fst snd].
  f_equal; field; repeat split; try lra.
  all: try (replace (n + W * 2 * sigma) with (n * (1 + W * 2 * sigma / n)) by (field; lra); apply Rmult_integral_contrapositive_currified; lra).
  all: try (replace (n + 2 * W * sigma) with (n * (1 + W * 2 * sigma / n)) by (field; lra); apply Rmult_integral_contrapositive_currified; lra).
Qed.

(* ---- L1NormViewAsReal ---- *)
Lemma l1r_prox_opt n wr wi b sigma x p : 0 < n -> 0 <= sigma ->
  cobj sigma (l1r_val wr wi b (l1r_prox n wr wi b sigma x) / n) x (l1r_prox n wr wi b sigma x)
  <= cobj sigma (l1r_val wr wi b p / n) x p.
Proof.
  intros Hn Hs. destruct x as [x1 x2], b as [b1 b2], p as [p1 p2].
  pose proof (l1_prox_opt n wr b1 sigma x1 p1 Hn Hs) as H1.
  pose proof (l1_prox_opt n wi b2 sigma x2 p2 Hn Hs) as H2.
  unfold cobj, l1r_val, l1r_prox, cnorm2, csub, obj, l1_val, l1_prox, sq in *; cbn [fst snd] in *.
  unfold Rdiv in *. rewrite !Rmult_plus_distr_r, !Rmult_plus_distr_l. lra.
Qed.

Lemma cfallback_moreau (prox : R -> C -> C) sigma x : 0 < sigma -> 1 / 100000000 <= / sigma ->
  x = cadd (prox sigma x) (cscale sigma (cpcc_fallback prox (/ sigma) (cscale (/ sigma) x))).
Proof.
  intros Hs Ht. unfold cpcc_fallback. cbv zeta. rewrite tweak_id by assumption.
  replace (1 / / sigma) with sigma by (field; lra).
  rewrite cscale_cscale. replace (/ / sigma * / sigma) with 1 by (field; lra).
  replace (cscale 1 x) with x by (destruct x; unfold cscale; cbn; f_equal; ring).
  destruct x as [x1 x2], (prox sigma (x1, x2)) as [q1 q2]. unfold cadd, cscale, csub; cbn [fst snd].
  f_equal; field; lra.
Qed.

Lemma czero_moreau sigma x : 0 < sigma -> x = cadd x (cscale sigma (czero_pcc (/ sigma) (cscale (/ sigma) x))).
Proof.
  intros Hs. unfold czero_pcc. destruct (Req_EM_T (/ sigma) 0) as [E|E].
  - exfalso. apply (Rinv_neq_0_compat sigma); lra.
  - destruct x; unfold cadd, cscale; cbn. f_equal; ring.
Qed.

(* ---- values: what forward evaluates vs the documented formula ---- *)
Lemma l1_val_doc w b x : l1_val w b x = Rabs w * Rabs (x - b).
Proof. unfold l1_val. apply Rabs_mult. Qed.

Lemma cl1_val_doc w b x : cl1_val w b x = cabs w * cabs (csub x b).
Proof. unfold cl1_val. apply cabs_mul. Qed.

Lemma l2_val_doc w b x : l2_val w b x = sq (Rabs w) * sq (Rabs (x - b)).
Proof.
  rewrite l2_val_alt. unfold sq. unfold Rabs. destruct (Rcase_abs w), (Rcase_abs (x - b)); ring.
Qed.

Lemma cl2_val_doc w b x : cl2_val w b x = sq (cabs w) * sq (cabs (csub x b)).
Proof. rewrite cl2_val_alt. unfold sq. rewrite !cabs_sq. reflexivity. Qed.

(* L1NormViewAsReal.forward agrees with the documented  |Wr Re(x-b)| + |Wi Im(x-b)|  (Wi = Wr for a real weight, im w = 0);
   real data (dc = false) have zero imaginary parts *)
Lemma l1r_val_code_ok (wc dc : bool) w b x :
  (wc = false -> snd w = 0) -> (dc = false -> snd x = 0 /\ snd b = 0) ->
  l1r_val_code wc dc w b x = l1r_val (fst w) (if wc then snd w else fst w) b x.
Proof.
  intros Hw Hd. unfold l1r_val_code, l1r_val, csub; cbn [fst snd].
  destruct dc; [destruct wc; reflexivity|].
  destruct (Hd eq_refl) as [-> ->].
  replace ((if wc then snd w else fst w) * (0 - 0)) with 0 by ring. rewrite Rabs_R0. ring.
Qed.

(* Legacy: the definition before the repair violated the documented value for a complex weight on real data *)
Lemma l1r_val_code_legacy_refuted : exists w b x,
  snd x = 0 /\ snd b = 0 /\ l1r_val_code_legacy true false w b x <> l1r_val (fst w) (snd w) b x.
Proof.
  exists (3, 4), (0, 0), (1, 0). split; [reflexivity|split; [reflexivity|]].
  unfold l1r_val_code_legacy, l1r_val, csub; cbn [fst snd].
  assert (E : cabs (cmul (3, 4) (1 - 0, 0)) = 5).
  { apply cabs_unique; [lra|]. unfold cnorm2, cmul; cbn [fst snd]. ring. }
  rewrite E. replace (3 * (1 - 0)) with 3 by ring. replace (4 * (0 - 0)) with 0 by ring.
  rewrite Rabs_R0, (Rabs_pos_eq 3) by lra. lra.
Qed.

(* ---- sums over index lists ---- *)
Lemma sumR_le {A} (g h : A -> R) l : (forall a, In a l -> g a <= h a) -> sumR g l <= sumR h l.
Proof.
  induction l as [|a r IH]; intros H; cbn [sumR]; [lra|].
  pose proof (H a (or_introl eq_refl)). assert (sumR g r <= sumR h r) by (apply IH; intros; apply H; right; assumption). lra.
Qed.

Lemma sumR_plus {A} (g h : A -> R) l : sumR (fun a => g a + h a) l = sumR g l + sumR h l.
Proof. induction l as [|a r IH]; cbn [sumR]; [ring|]. rewrite IH. ring. Qed.

Lemma sumR_scal {A} c (g : A -> R) l : sumR (fun a => c * g a) l = c * sumR g l.
Proof. induction l as [|a r IH]; cbn [sumR]; [ring|]. rewrite IH. ring. Qed.

Lemma sumR_ext {A} (g h : A -> R) l : (forall a, In a l -> g a = h a) -> sumR g l = sumR h l.
Proof.
  induction l as [|a r IH]; intros H; cbn [sumR]; [reflexivity|].
  rewrite (H a (or_introl eq_refl)), IH; [reflexivity|]. intros; apply H; right; assumption.
Qed.

Lemma sumR_app {A} (g : A -> R) l1 l2 : sumR g (l1 ++ l2) = sumR g l1 + sumR g l2.
Proof. induction l1 as [|a r IH]; cbn [sumR app]; [ring|]. rewrite IH. ring. Qed.

(* the separable objective: if each element is minimised, the sum over any index list is minimised
   (a reduced batch, a whole tensor, or all tensors of a separable sum) *)
Lemma lift_opt {A} (o : A -> R) (o' : A -> R) l : (forall a, In a l -> o a <= o' a) -> sumR o l <= sumR o' l.
Proof. apply sumR_le. Qed.

(* with one sigma for the whole list the summed elementwise objective is  sigma * f(p) + 1/2 |x - p|^2  with
   f(p) = (sum_i val_i (p_i)) / n *)
Lemma sum_obj {A} sigma n (v : A -> R) (x p : A -> R) l :
  sumR (fun i => obj sigma (v i / n) (x i) (p i)) l = sigma * (sumR v l / n) + / 2 * sumR (fun i => sq (x i - p i)) l.
Proof.
  unfold obj. rewrite sumR_plus. f_equal.
  - rewrite sumR_scal. f_equal. unfold Rdiv.
    rewrite (Rmult_comm (sumR v l)). rewrite <- sumR_scal. apply sumR_ext. intros; ring.
  - rewrite sumR_scal. reflexivity.
Qed.

Lemma sum_cobj {A} sigma n (v : A -> R) (x p : A -> C) l :
  sumR (fun i => cobj sigma (v i / n) (x i) (p i)) l = sigma * (sumR v l / n) + / 2 * sumR (fun i => cnorm2 (csub (x i) (p i))) l.
Proof.
  unfold cobj. rewrite sumR_plus. f_equal.
  - rewrite sumR_scal. f_equal. unfold Rdiv.
    rewrite (Rmult_comm (sumR v l)). rewrite <- sumR_scal. apply sumR_ext. intros; ring.
  - rewrite sumR_scal. reflexivity.
Qed.

(* torch.mean = sum / number of reduced elements *)
Lemma reduce_list_mean {A} (g : A -> R) l : reduce_list true g l = sumR g l / INR (length l).
Proof. reflexivity. Qed.
Lemma reduce_list_sum {A} (g : A -> R) l : reduce_list false g l = sumR g l.
Proof. reflexivity. Qed.

(* ---- scaled functionals ---- *)
Definition is_opt (f : R -> R) (prox : R -> R -> R) :=
  forall sigma x p, 0 <= sigma -> obj sigma (f (prox sigma x)) x (prox sigma x) <= obj sigma (f p) x p.
Definition is_copt (f : C -> R) (prox : R -> C -> C) :=
  forall sigma x p, 0 <= sigma -> cobj sigma (f (prox sigma x)) x (prox sigma x) <= cobj sigma (f p) x p.
Definition moreau (prox pcc : R -> R -> R) := forall sigma x, 0 < sigma -> x = prox sigma x + sigma * pcc (/ sigma) (x / sigma).
Definition cmoreau (prox pcc : R -> C -> C) :=
  forall sigma x, 0 < sigma -> x = cadd (prox sigma x) (cscale sigma (pcc (/ sigma) (cscale (/ sigma) x))).

Lemma scaled_opt a f prox : 0 <= a -> is_opt f prox -> is_opt (fun x => a * f x) (sc_prox a prox).
Proof.
  intros Ha H sigma x p Hs. unfold sc_prox, obj.
  assert (Hsa : 0 <= sigma * a) by (apply Rmult_le_pos; assumption).
  pose proof (H (sigma * a) x p Hsa) as H0. unfold obj in H0. lra.
Qed.

Lemma scaled_copt a f prox : 0 <= a -> is_copt f prox -> is_copt (fun x => a * f x) (sc_prox a prox).
Proof.
  intros Ha H sigma x p Hs. unfold sc_prox, cobj.
  assert (Hsa : 0 <= sigma * a) by (apply Rmult_le_pos; assumption).
  pose proof (H (sigma * a) x p Hsa) as H0. unfold cobj in H0. lra.
Qed.

Lemma scaled_moreau a prox pcc : 0 < a -> moreau prox pcc -> moreau (sc_prox a prox) (sc_pcc a pcc).
Proof.
  intros Ha H sigma x Hs. unfold sc_prox, sc_pcc.
  assert (Hsa : 0 < sigma * a) by (apply Rmult_lt_0_compat; assumption).
  pose proof (H (sigma * a) x Hsa) as H0.
  replace (/ sigma / a) with (/ (sigma * a)) by (field; lra).
  replace (x / sigma / a) with (x / (sigma * a)) by (field; lra). lra.
Qed.

(* scale 0: (0 f) is the zero functional, prox_{sigma 0 f} = prox_0 = id and the prox of its convex conjugate (indicator of {0}) is 0;
   the code as repaired (and the model: 0 * _) returns 0 *)
Lemma scaled_moreau_zero prox pcc : (forall x, prox 0 x = x) -> moreau (sc_prox 0 prox) (sc_pcc 0 pcc).
Proof.
  intros H0 sigma x Hs. unfold sc_prox, sc_pcc. rewrite Rmult_0_r, H0. lra.
Qed.

Lemma scaled_cmoreau a prox pcc : 0 < a -> cmoreau prox pcc -> cmoreau (sc_prox a prox) (csc_pcc a pcc).
Proof.
  intros Ha H sigma x Hs. unfold sc_prox, csc_pcc.
  assert (Hsa : 0 < sigma * a) by (apply Rmult_lt_0_compat; assumption).
  pose proof (H (sigma * a) x Hsa) as H0.
  replace (/ sigma / a) with (/ (sigma * a)) by (field; lra).
  rewrite !cscale_cscale. replace (/ a * / sigma) with (/ (sigma * a)) by (field; lra). exact H0.
Qed.

(* ------------------------------------------------------------------------------------------------ *)
(* lifting to tensors: any list [l] of element indices (a reduced batch or the whole tensor), after  *)
(* broadcasting every element i has its own weight w i, target b i and sigma i; n is common          *)
(* ------------------------------------------------------------------------------------------------ *)
Section Lift.
  Context {A : Type}.
  Variable l : list A.
  Variable n : R.
  Hypothesis Hn : 0 < n.

  Lemma l1_prox_opt_list (w b sigma x p : A -> R) : (forall i, In i l -> 0 <= sigma i) ->
    sumR (fun i => obj (sigma i) (l1_val (w i) (b i) (l1_prox n (w i) (b i) (sigma i) (x i)) / n) (x i) (l1_prox n (w i) (b i) (sigma i) (x i))) l
    <= sumR (fun i => obj (sigma i) (l1_val (w i) (b i) (p i) / n) (x i) (p i)) l.
  Proof. intros Hs. apply sumR_le. intros i Hi. apply l1_prox_opt; [exact Hn|apply Hs, Hi]. Qed.

  Lemma l2_prox_opt_list (w b sigma x p : A -> R) : (forall i, In i l -> 0 <= sigma i) ->
    sumR (fun i => obj (sigma i) (l2_val (w i) (b i) (l2_prox n (w i) (b i) (sigma i) (x i)) / n) (x i) (l2_prox n (w i) (b i) (sigma i) (x i))) l
    <= sumR (fun i => obj (sigma i) (l2_val (w i) (b i) (p i) / n) (x i) (p i)) l.
  Proof. intros Hs. apply sumR_le. intros i Hi. apply l2_prox_opt; [exact Hn|apply Hs, Hi]. Qed.

  Lemma cl1_prox_opt_list (w b : A -> C) (sigma : A -> R) (x p : A -> C) : (forall i, In i l -> 0 <= sigma i) ->
    sumR (fun i => cobj (sigma i) (cl1_val (w i) (b i) (cl1_prox n (w i) (b i) (sigma i) (x i)) / n) (x i) (cl1_prox n (w i) (b i) (sigma i) (x i))) l
    <= sumR (fun i => cobj (sigma i) (cl1_val (w i) (b i) (p i) / n) (x i) (p i)) l.
  Proof. intros Hs. apply sumR_le. intros i Hi. apply cl1_prox_opt; [exact Hn|apply Hs, Hi]. Qed.

  Lemma cl2_prox_opt_list (w b : A -> C) (sigma : A -> R) (x p : A -> C) : (forall i, In i l -> 0 <= sigma i) ->
    sumR (fun i => cobj (sigma i) (cl2_val (w i) (b i) (cl2_prox n (w i) (b i) (sigma i) (x i)) / n) (x i) (cl2_prox n (w i) (b i) (sigma i) (x i))) l
    <= sumR (fun i => cobj (sigma i) (cl2_val (w i) (b i) (p i) / n) (x i) (p i)) l.
  Proof. intros Hs. apply sumR_le. intros i Hi. apply cl2_prox_opt; [exact Hn|apply Hs, Hi]. Qed.

  Lemma l1r_prox_opt_list (wr wi : A -> R) (b : A -> C) (sigma : A -> R) (x p : A -> C) : (forall i, In i l -> 0 <= sigma i) ->
    sumR (fun i => cobj (sigma i) (l1r_val (wr i) (wi i) (b i) (l1r_prox n (wr i) (wi i) (b i) (sigma i) (x i)) / n) (x i) (l1r_prox n (wr i) (wi i) (b i) (sigma i) (x i))) l
    <= sumR (fun i => cobj (sigma i) (l1r_val (wr i) (wi i) (b i) (p i) / n) (x i) (p i)) l.
  Proof. intros Hs. apply sumR_le. intros i Hi. apply l1r_prox_opt; [exact Hn|apply Hs, Hi]. Qed.

  (* one sigma for the list: sigma * f(prox) + 1/2 |x - prox|^2 <= sigma * f(p) + 1/2 |x - p|^2 with
     f(p) = (sum_i |w_i (p_i - b_i)|) / n, i.e. the forward value of the batch (n = N if divide_by_n else 1) *)
  Lemma l1_prox_opt_batch (w b x p : A -> R) sigma : 0 <= sigma ->
    let q := fun i => l1_prox n (w i) (b i) sigma (x i) in
    sigma * (sumR (fun i => l1_val (w i) (b i) (q i)) l / n) + / 2 * sumR (fun i => sq (x i - q i)) l
    <= sigma * (sumR (fun i => l1_val (w i) (b i) (p i)) l / n) + / 2 * sumR (fun i => sq (x i - p i)) l.
  Proof.
    intros Hs q. rewrite <- (sum_obj sigma n (fun i => l1_val (w i) (b i) (q i)) x q).
    rewrite <- (sum_obj sigma n (fun i => l1_val (w i) (b i) (p i)) x p).
    apply (l1_prox_opt_list w b (fun _ => sigma) x p). intros; assumption.
  Qed.

  Lemma l2_prox_opt_batch (w b x p : A -> R) sigma : 0 <= sigma ->
    let q := fun i => l2_prox n (w i) (b i) sigma (x i) in
    sigma * (sumR (fun i => l2_val (w i) (b i) (q i)) l / n) + / 2 * sumR (fun i => sq (x i - q i)) l
    <= sigma * (sumR (fun i => l2_val (w i) (b i) (p i)) l / n) + / 2 * sumR (fun i => sq (x i - p i)) l.
  Proof.
    intros Hs q. rewrite <- (sum_obj sigma n (fun i => l2_val (w i) (b i) (q i)) x q).
    rewrite <- (sum_obj sigma n (fun i => l2_val (w i) (b i) (p i)) x p).
    apply (l2_prox_opt_list w b (fun _ => sigma) x p). intros; assumption.
  Qed.

  Lemma cl1_prox_opt_batch (w b x p : A -> C) sigma : 0 <= sigma ->
    let q := fun i => cl1_prox n (w i) (b i) sigma (x i) in
    sigma * (sumR (fun i => cl1_val (w i) (b i) (q i)) l / n) + / 2 * sumR (fun i => cnorm2 (csub (x i) (q i))) l
    <= sigma * (sumR (fun i => cl1_val (w i) (b i) (p i)) l / n) + / 2 * sumR (fun i => cnorm2 (csub (x i) (p i))) l.
  Proof.
    intros Hs q. rewrite <- (sum_cobj sigma n (fun i => cl1_val (w i) (b i) (q i)) x q).
    rewrite <- (sum_cobj sigma n (fun i => cl1_val (w i) (b i) (p i)) x p).
    apply (cl1_prox_opt_list w b (fun _ => sigma) x p). intros; assumption.
  Qed.

  Lemma cl2_prox_opt_batch (w b x p : A -> C) sigma : 0 <= sigma ->
    let q := fun i => cl2_prox n (w i) (b i) sigma (x i) in
    sigma * (sumR (fun i => cl2_val (w i) (b i) (q i)) l / n) + / 2 * sumR (fun i => cnorm2 (csub (x i) (q i))) l
    <= sigma * (sumR (fun i => cl2_val (w i) (b i) (p i)) l / n) + / 2 * sumR (fun i => cnorm2 (csub (x i) (p i))) l.
  Proof.
    intros Hs q. rewrite <- (sum_cobj sigma n (fun i => cl2_val (w i) (b i) (q i)) x q).
    rewrite <- (sum_cobj sigma n (fun i => cl2_val (w i) (b i) (p i)) x p).
    apply (cl2_prox_opt_list w b (fun _ => sigma) x p). intros; assumption.
  Qed.

  Lemma l1r_prox_opt_batch (wr wi : A -> R) (b x p : A -> C) sigma : 0 <= sigma ->
    let q := fun i => l1r_prox n (wr i) (wi i) (b i) sigma (x i) in
    sigma * (sumR (fun i => l1r_val (wr i) (wi i) (b i) (q i)) l / n) + / 2 * sumR (fun i => cnorm2 (csub (x i) (q i))) l
    <= sigma * (sumR (fun i => l1r_val (wr i) (wi i) (b i) (p i)) l / n) + / 2 * sumR (fun i => cnorm2 (csub (x i) (p i))) l.
  Proof.
    intros Hs q. rewrite <- (sum_cobj sigma n (fun i => l1r_val (wr i) (wi i) (b i) (q i)) x q).
    rewrite <- (sum_cobj sigma n (fun i => l1r_val (wr i) (wi i) (b i) (p i)) x p).
    apply (l1r_prox_opt_list wr wi b (fun _ => sigma) x p). intros; assumption.
  Qed.
End Lift.

(* ---- separable sum: sum_k f_k(x_k); prox and prox_convex_conj act componentwise with the same sigma ---- *)
(* a component is (f, prox, x, p); the summed objective is minimised when every component is *)
Lemma separable_opt (comps : list ((R -> R) * (R -> R -> R) * R * R)) sigma : 0 <= sigma ->
  (forall c, In c comps -> is_opt (fst (fst (fst c))) (snd (fst (fst c)))) ->
  sigma * sumR (fun c => let '(f, prox, x, p) := c in f (prox sigma x)) comps
    + / 2 * sumR (fun c => let '(f, prox, x, p) := c in sq (x - prox sigma x)) comps
  <= sigma * sumR (fun c => let '(f, prox, x, p) := c in f p) comps
    + / 2 * sumR (fun c => let '(f, prox, x, p) := c in sq (x - p)) comps.
Proof.
  intros Hs H. rewrite <- !sumR_scal, <- !sumR_plus. apply sumR_le.
  intros [[[f prox] x] p] Hc. pose proof (H _ Hc sigma x p Hs) as H0. unfold obj in H0. cbn in *. lra.
Qed.

Lemma separable_copt (comps : list ((C -> R) * (R -> C -> C) * C * C)) sigma : 0 <= sigma ->
  (forall c, In c comps -> is_copt (fst (fst (fst c))) (snd (fst (fst c)))) ->
  sigma * sumR (fun c => let '(f, prox, x, p) := c in f (prox sigma x)) comps
    + / 2 * sumR (fun c => let '(f, prox, x, p) := c in cnorm2 (csub x (prox sigma x))) comps
  <= sigma * sumR (fun c => let '(f, prox, x, p) := c in f p) comps
    + / 2 * sumR (fun c => let '(f, prox, x, p) := c in cnorm2 (csub x p)) comps.
Proof.
  intros Hs H. rewrite <- !sumR_scal, <- !sumR_plus. apply sumR_le.
  intros [[[f prox] x] p] Hc. pose proof (H _ Hc sigma x p Hs) as H0. unfold cobj in H0. cbn in *. lra.
Qed.

(* instances of is_opt / moreau for the elementary functionals (value already divided by n) *)
Lemma l1_is_opt n w b : 0 < n -> is_opt (fun x => l1_val w b x / n) (l1_prox n w b).
Proof. intros Hn sigma x p Hs. apply l1_prox_opt; assumption. Qed.
Lemma l2_is_opt n w b : 0 < n -> is_opt (fun x => l2_val w b x / n) (l2_prox n w b).
Proof. intros Hn sigma x p Hs. apply l2_prox_opt; assumption. Qed.
Lemma zero_is_opt : is_opt zero_val zero_prox.
Proof. intros sigma x p Hs. apply zero_prox_opt. Qed.
Lemma cl1_is_copt n w b : 0 < n -> is_copt (fun x => cl1_val w b x / n) (cl1_prox n w b).
Proof. intros Hn sigma x p Hs. apply cl1_prox_opt; assumption. Qed.
Lemma cl2_is_copt n w b : 0 < n -> is_copt (fun x => cl2_val w b x / n) (cl2_prox n w b).
Proof. intros Hn sigma x p Hs. apply cl2_prox_opt; assumption. Qed.
Lemma l1r_is_copt n wr wi b : 0 < n -> is_copt (fun x => l1r_val wr wi b x / n) (l1r_prox n wr wi b).
Proof. intros Hn sigma x p Hs. apply l1r_prox_opt; assumption. Qed.
Lemma l1_is_moreau n w b : 0 < n -> moreau (l1_prox n w b) (l1_pcc n w b).
Proof. intros Hn sigma x Hs. apply l1_moreau; assumption. Qed.
Lemma l2_is_moreau n w b : 0 < n -> moreau (l2_prox n w b) (l2_pcc n w b).
Proof. intros Hn sigma x Hs. apply l2_moreau; assumption. Qed.
Lemma cl1_is_cmoreau n w b : 0 < n -> cmoreau (cl1_prox n w b) (cl1_pcc n w b).
Proof. intros Hn sigma x Hs. apply cl1_moreau; assumption. Qed.
Lemma cl2_is_cmoreau n w b : 0 < n -> cmoreau (cl2_prox n w b) (cl2_pcc n w b).
Proof. intros Hn sigma x Hs. apply cl2_moreau; assumption. Qed.

(* the divide_by_n factor is positive *)
Lemma nfac_pos divn N : (0 < N)%nat -> 0 < nfac divn N.
Proof. intros H. unfold nfac. destruct divn; [apply lt_0_INR; assumption|lra]. Qed.
