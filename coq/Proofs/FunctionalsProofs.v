(* C08 - proofs about the scalar cores of Model/Functionals.v over the reals:
   prox optimality (global minimiser), Moreau identity, value formulas, lifting to index lists,
   scaled functionals and separable sums. *)
From Coq Require Import Reals Lra Psatz List.
From MrVerif Require Import Model.Functionals.
Import ListNotations.
Local Open Scope R_scope.

(* ------------------------------------------------------------------------------------------------ *)
(* basic facts                                                                                       *)
(* ------------------------------------------------------------------------------------------------ *)
Lemma sgnR_abs d : sgnR d * Rabs d = d.
Proof. unfold sgnR, Rabs. destruct (Rlt_dec 0 d), (Rlt_dec d 0), (Rcase_abs d); lra. Qed.

Lemma reluR_nonneg x : 0 <= reluR x.
Proof. unfold reluR. apply Rmax_r. Qed.

Lemma Rabs_scaled w s n : 0 <= s -> 0 < n -> Rabs (w * s / n) = s * Rabs w / n.
Proof.
  intros Hs Hn. unfold Rdiv. rewrite !Rabs_mult. rewrite (Rabs_pos_eq s) by assumption.
  rewrite (Rabs_pos_eq (/ n)) by (left; apply Rinv_0_lt_compat; assumption). ring.
Qed.

(* the real soft-threshold is the minimiser of  t |q| + 1/2 (d - q)^2 *)
Lemma soft_opt d q t : 0 <= t ->
  t * Rabs (softR d t) + / 2 * sq (d - softR d t) <= t * Rabs q + / 2 * sq (d - q).
Proof.
  intros Ht. unfold softR, reluR, sq.
  destruct (Rle_dec (Rabs d - t) 0) as [H|H].
  - rewrite Rmax_right by lra. rewrite Rmult_0_r, Rabs_R0.
    unfold Rabs in *. destruct (Rcase_abs d), (Rcase_abs q); nra.
  - rewrite Rmax_left by lra.
    unfold sgnR. destruct (Rlt_dec 0 d); [|destruct (Rlt_dec d 0)].
    + assert (Ed : Rabs d = d) by (apply Rabs_pos_eq; lra). rewrite Ed in *.
      rewrite Rmult_1_l. rewrite (Rabs_pos_eq (d - t)) by lra.
      unfold Rabs. destruct (Rcase_abs q).
      * pose proof (Rle_0_sqr (- q - d + t)). unfold Rsqr in *. assert (0 <= d * - q) by nra. nra.
      * pose proof (Rle_0_sqr (q - d + t)). unfold Rsqr in *. nra.
    + assert (Ed : Rabs d = - d) by (apply Rabs_left; lra). rewrite Ed in *.
      rewrite (Rabs_left (-1 * (- d - t))) by lra.
      unfold Rabs. destruct (Rcase_abs q).
      * pose proof (Rle_0_sqr (- q + d + t)). unfold Rsqr in *. nra.
      * pose proof (Rle_0_sqr (q + d + t)). unfold Rsqr in *. assert (0 <= - d * q) by nra. nra.
    + assert (d = 0) by lra. subst. rewrite Rabs_R0 in H. lra.
Qed.

(* ------------------------------------------------------------------------------------------------ *)
(* L1Norm, real elements                                                                             *)
(* ------------------------------------------------------------------------------------------------ *)
Definition obj (sigma fval x p : R) : R := sigma * fval + / 2 * sq (x - p).

Lemma l1_prox_opt n w b sigma x p : 0 < n -> 0 <= sigma ->
  obj sigma (l1_val w b (l1_prox n w b sigma x) / n) x (l1_prox n w b sigma x)
  <= obj sigma (l1_val w b p / n) x p.
Proof.
  intros Hn Hs. unfold obj, l1_val, l1_prox.
  rewrite Rabs_scaled by assumption. set (t := sigma * Rabs w / n).
  assert (Ht : 0 <= t).
  { unfold t, Rdiv. apply Rmult_le_pos; [apply Rmult_le_pos; [lra|apply Rabs_pos]|left; apply Rinv_0_lt_compat; lra]. }
  pose proof (soft_opt (x - b) (p - b) t Ht) as H.
  rewrite !Rabs_mult.
  replace (softR (x - b) t + b - b) with (softR (x - b) t) by ring.
  replace (x - (softR (x - b) t + b)) with (x - b - softR (x - b) t) by ring.
  replace (x - p) with (x - b - (p - b)) by ring.
  replace (sigma * (Rabs w * Rabs (softR (x - b) t) / n)) with (t * Rabs (softR (x - b) t)) by (unfold t; field; lra).
  replace (sigma * (Rabs w * Rabs (p - b) / n)) with (t * Rabs (p - b)) by (unfold t; field; lra).
  exact H.
Qed.

Lemma soft_plus_clamp d t : 0 <= t -> sgnR d * reluR (Rabs d - t) + sgnR d * Rmin (Rabs d) t = d.
Proof.
  intros Ht. rewrite <- Rmult_plus_distr_l.
  replace (reluR (Rabs d - t) + Rmin (Rabs d) t) with (Rabs d); [apply sgnR_abs|].
  unfold reluR, Rmax, Rmin. destruct (Rle_dec _ _), (Rle_dec _ _); lra.
Qed.

Lemma sgnR_scale s d : 0 < s -> sgnR (d / s) = sgnR d.
Proof.
  intros Hs. assert (Hi : 0 < / s) by (apply Rinv_0_lt_compat; lra).
  unfold sgnR, Rdiv. destruct (Rlt_dec 0 d), (Rlt_dec d 0), (Rlt_dec 0 (d * / s)), (Rlt_dec (d * / s) 0); try lra; nra.
Qed.

(* Moreau: x = prox_{sigma f}(x) + sigma prox_{f*/sigma}(x/sigma), closed-form prox_convex_conj of L1Norm *)
Lemma l1_moreau n w b sigma x : 0 < n -> 0 < sigma ->
  x = l1_prox n w b sigma x + sigma * l1_pcc n w b (/ sigma) (x / sigma).
Proof.
  intros Hn Hs. unfold l1_prox, l1_pcc, softR. cbv zeta.
  rewrite Rabs_scaled by lra. set (t := sigma * Rabs w / n).
  assert (Hi : 0 < / sigma) by (apply Rinv_0_lt_compat; lra).
  assert (Hin : 0 < / n) by (apply Rinv_0_lt_compat; lra).
  assert (Ht : 0 <= t).
  { unfold t, Rdiv. apply Rmult_le_pos; [apply Rmult_le_pos; [lra|apply Rabs_pos]|lra]. }
  replace (x / sigma - / sigma * b) with ((x - b) / sigma) by (field; lra).
  rewrite sgnR_scale by assumption.
  assert (E : sigma * Rmin (Rabs ((x - b) / sigma)) (Rabs (Rabs w / n)) = Rmin (Rabs (x - b)) t).
  { assert (Ea : Rabs ((x - b) / sigma) = Rabs (x - b) / sigma).
    { unfold Rdiv. rewrite Rabs_mult, (Rabs_pos_eq (/ sigma)) by lra. reflexivity. }
    assert (Eb : Rabs (Rabs w / n) = Rabs w / n).
    { apply Rabs_pos_eq. unfold Rdiv. apply Rmult_le_pos; [apply Rabs_pos|lra]. }
    rewrite Ea, Eb. set (A := Rabs (x - b)). set (W := Rabs w / n).
    assert (Et : t = sigma * W) by (unfold t, W; field; lra).
    assert (EA : A = sigma * (A / sigma)) by (field; lra).
    unfold Rmin. destruct (Rle_dec (A / sigma) W), (Rle_dec A t); try (field; lra); try lra; exfalso; nra. }
  replace (sigma * (sgnR (x - b) * Rmin (Rabs ((x - b) / sigma)) (Rabs (Rabs w / n))))
    with (sgnR (x - b) * (sigma * Rmin (Rabs ((x - b) / sigma)) (Rabs (Rabs w / n)))) by ring.
  rewrite E. pose proof (soft_plus_clamp (x - b) t Ht). lra.
Qed.

(* ------------------------------------------------------------------------------------------------ *)
(* L2NormSquared / MSE, real elements                                                                 *)
(* ------------------------------------------------------------------------------------------------ *)
Lemma quad_opt k b x p : 0 <= k ->
  let ps := (x + 2 * k * b) / (1 + 2 * k) in
  k * sq (ps - b) + / 2 * sq (x - ps) <= k * sq (p - b) + / 2 * sq (x - p).
Proof.
  intros Hk ps.
  assert (E : k * sq (p - b) + / 2 * sq (x - p) - (k * sq (ps - b) + / 2 * sq (x - ps)) = (k + / 2) * sq (p - ps)).
  { unfold ps, sq. field. lra. }
  assert (0 <= (k + / 2) * sq (p - ps)) by (apply Rmult_le_pos; [lra|apply (Rle_0_sqr (p - ps))]).
  lra.
Qed.

Lemma l2_val_alt w b x : l2_val w b x = w * w * sq (x - b).
Proof. unfold l2_val, sq. rewrite <- Rabs_mult. rewrite Rabs_pos_eq by apply (Rle_0_sqr (w * (x - b))). ring. Qed.

Lemma l2_prox_opt n w b sigma x p : 0 < n -> 0 <= sigma ->
  obj sigma (l2_val w b (l2_prox n w b sigma x) / n) x (l2_prox n w b sigma x)
  <= obj sigma (l2_val w b p / n) x p.
Proof.
  intros Hn Hs. unfold obj. rewrite !l2_val_alt. unfold l2_prox. cbv zeta.
  set (k := sigma * (w * w) / n).
  assert (Hk : 0 <= k).
  { unfold k, Rdiv. apply Rmult_le_pos; [apply Rmult_le_pos; [lra|nra]|left; apply Rinv_0_lt_compat; lra]. }
  pose proof (quad_opt k b x p Hk) as H. cbv zeta in H.
  replace (w * w * 2 * sigma / n) with (2 * k) by (unfold k; field; lra).
  replace (sigma * (w * w * sq ((x + 2 * k * b) / (1 + 2 * k) - b) / n)) with (k * sq ((x + 2 * k * b) / (1 + 2 * k) - b))
    by (unfold k; field; lra).
  replace (sigma * (w * w * sq (p - b) / n)) with (k * sq (p - b)) by (unfold k; field; lra).
  exact H.
Qed.

Lemma l2_moreau n w b sigma x : 0 < n -> 0 < sigma ->
  x = l2_prox n w b sigma x + sigma * l2_pcc n w b (/ sigma) (x / sigma).
Proof.
  intros Hn Hs. unfold l2_prox, l2_pcc. cbv zeta.
  assert (0 <= w * w / n) by (unfold Rdiv; apply Rmult_le_pos; [nra|left; apply Rinv_0_lt_compat; lra]).
  assert (0 < / sigma) by (apply Rinv_0_lt_compat; lra).
  assert (w * w * 2 * sigma / n = 2 * sigma * (w * w / n)) by (field; lra).
  field. repeat split; try lra; nra.
Qed.

(* ------------------------------------------------------------------------------------------------ *)
(* ZeroFunctional                                                                                     *)
(* ------------------------------------------------------------------------------------------------ *)
Lemma zero_prox_opt sigma x p : obj sigma (zero_val (zero_prox sigma x)) x (zero_prox sigma x) <= obj sigma (zero_val p) x p.
Proof. unfold obj, zero_val, zero_prox, sq. pose proof (Rle_0_sqr (x - p)) as H. unfold Rsqr in H. replace ((x - x) * (x - x)) with 0 by ring. lra. Qed.

Lemma zero_moreau sigma x : 0 < sigma -> x = zero_prox sigma x + sigma * zero_pcc (/ sigma) (x / sigma).
Proof.
  intros Hs. unfold zero_prox, zero_pcc. destruct (Req_EM_T (/ sigma) 0) as [E|E]; [|ring].
  exfalso. apply (Rinv_neq_0_compat sigma); lra.
Qed.

(* ------------------------------------------------------------------------------------------------ *)
(* generic fallback of prox_convex_conj                                                               *)
(* ------------------------------------------------------------------------------------------------ *)
Lemma tweak_id s : 1 / 100000000 <= s -> tweak s = s.
Proof. intros H. unfold tweak. destruct (Rlt_dec _ _); lra. Qed.

Lemma fallback_moreau (prox : R -> R -> R) sigma x : 0 < sigma -> 1 / 100000000 <= / sigma ->
  x = prox sigma x + sigma * pcc_fallback prox (/ sigma) (x / sigma).
Proof.
  intros Hs Ht. unfold pcc_fallback. cbv zeta. rewrite tweak_id by assumption.
  replace (1 / / sigma) with sigma by (field; lra).
  replace (x / sigma / / sigma) with x by (field; lra). field. lra.
Qed.

(* what the tweak does for sigma > 1e8: the conjugate prox is evaluated with step 1/sigma + 1e-6 instead of 1/sigma *)
Lemma fallback_tweaked (prox : R -> R -> R) sigma x : 0 < sigma -> / sigma < 1 / 100000000 ->
  let tau := / sigma + 1 / 1000000 in
  sigma * pcc_fallback prox (/ sigma) (x / sigma) = x - sigma * tau * prox (/ tau) (x / (sigma * tau)).
Proof.
  intros Hs Ht tau. unfold pcc_fallback, tweak. cbv zeta. destruct (Rlt_dec _ _) as [_|N]; [|lra].
  fold tau. assert (0 < / sigma) by (apply Rinv_0_lt_compat; lra). assert (0 < tau) by (unfold tau; lra).
  replace (1 / tau) with (/ tau) by (field; lra).
  replace (x / sigma / tau) with (x / (sigma * tau)) by (field; lra). field. lra.
Qed.

(* ------------------------------------------------------------------------------------------------ *)
(* complex elements                                                                                   *)
(* ------------------------------------------------------------------------------------------------ *)
Lemma cnorm2_nonneg z : 0 <= cnorm2 z.
Proof. unfold cnorm2. nra. Qed.

Lemma cabs_nonneg z : 0 <= cabs z.
Proof. apply sqrt_pos. Qed.

Lemma cabs_sq z : cabs z * cabs z = cnorm2 z.
Proof. apply sqrt_sqrt, cnorm2_nonneg. Qed.

Lemma cabs_unique z a : 0 <= a -> a * a = cnorm2 z -> cabs z = a.
Proof. intros Ha E. unfold cabs. rewrite <- E. apply sqrt_square. assumption. Qed.

Lemma cabs_0 : cabs (0, 0) = 0.
Proof. apply cabs_unique; [lra|unfold cnorm2; cbn; ring]. Qed.

Lemma cabs_eq_0 z : cabs z = 0 -> z = (0, 0).
Proof.
  intros H. pose proof (cabs_sq z) as E. rewrite H in E. unfold cnorm2 in E. destruct z as [a b]; cbn in *.
  assert (a = 0) by nra. assert (b = 0) by nra. subst. reflexivity.
Qed.

Lemma cabs_mul a b : cabs (cmul a b) = cabs a * cabs b.
Proof.
  apply cabs_unique.
  - apply Rmult_le_pos; apply cabs_nonneg.
  - replace (cabs a * cabs b * (cabs a * cabs b)) with ((cabs a * cabs a) * (cabs b * cabs b)) by ring.
    rewrite !cabs_sq. unfold cnorm2, cmul. cbn. ring.
Qed.

Lemma cabs_scale s z : cabs (cscale s z) = Rabs s * cabs z.
Proof.
  apply cabs_unique.
  - apply Rmult_le_pos; [apply Rabs_pos|apply cabs_nonneg].
  - replace (Rabs s * cabs z * (Rabs s * cabs z)) with ((Rabs s * Rabs s) * (cabs z * cabs z)) by ring.
    rewrite cabs_sq. replace (Rabs s * Rabs s) with (s * s) by (unfold Rabs; destruct (Rcase_abs s); ring).
    unfold cnorm2, cscale. cbn. ring.
Qed.

Lemma cabs_real x : cabs (x, 0) = Rabs x.
Proof.
  apply cabs_unique; [apply Rabs_pos|]. unfold cnorm2. cbn.
  unfold Rabs; destruct (Rcase_abs x); ring.
Qed.

(* Cauchy-Schwarz in R^2 *)
Lemma cs2 d q : fst d * fst q + snd d * snd q <= cabs d * cabs q.
Proof.
  pose proof (cabs_nonneg d) as Hd. pose proof (cabs_nonneg q) as Hq.
  pose proof (cabs_sq d) as Ed. pose proof (cabs_sq q) as Eq. unfold cnorm2 in *.
  destruct d as [d1 d2], q as [q1 q2]; cbn in *.
  set (r := cabs (d1, d2)) in *. set (s := cabs (q1, q2)) in *.
  destruct (Rle_dec (d1 * q1 + d2 * q2) (r * s)) as [H|H]; [exact H|exfalso].
  assert (Hrs : 0 <= r * s) by (apply Rmult_le_pos; assumption).
  assert (H1 : (r * s) * (r * s) < (d1 * q1 + d2 * q2) * (d1 * q1 + d2 * q2)) by nra.
  assert (H2 : (r * s) * (r * s) = (d1 * d1 + d2 * d2) * (q1 * q1 + q2 * q2)) by (rewrite <- Ed, <- Eq; ring).
  pose proof (Rle_0_sqr (d1 * q2 - d2 * q1)) as H3. unfold Rsqr in H3. nra.
Qed.

