(* A complete label grid lands at exactly (i-th other, i-th k2, i-th k1): if the kept acquisitions carry every combination
   of n_other other-label tuples, n_k2 k2 values and n_k1 k1 values exactly once, then `load` decides (n_k1, n_k2) =
   (|k1s|, |k2s|) and the acquisition at flat position (o * n_k2 + i2) * n_k1 + i1 has the i1-th smallest k1, the i2-th
   smallest k2 and the o-th smallest other tuple. *)
From MrVerif Require Import Base.Prelude Model.KLoad Proofs.KLoadProofs.
From Coq Require Import Permutation Sorted.

Definition lab_leb (a b : list Z) : bool := lex_leb (rev a) (rev b).
Definition lab_lt (a b : list Z) : Prop := lab_leb a b = true /\ a <> b.

(* labels = k1 :: k2 :: other labels *)
Definition grid_labels (others : list (list Z)) (k2s k1s : list Z) : list (list Z) :=
  flat_map (fun o => flat_map (fun k2 => map (fun k1 => k1 :: k2 :: o) k1s) k2s) others.

(* ---- lexicographic order and concatenation ---- *)
Lemma lex_app_eq p x y : lex_leb (p ++ x) (p ++ y) = lex_leb x y.
Proof. induction p as [|a p IH]; cbn; [reflexivity|]. now rewrite Z.ltb_irrefl, Z.eqb_refl, IH. Qed.

Lemma lex_app_lt p : forall q x y, length p = length q -> lex_leb p q = true -> p <> q -> lex_leb (p ++ x) (q ++ y) = true.
Proof.
  induction p as [|a p IH]; intros [|b q] x y Hl Hle Hne; cbn in *; try discriminate; [congruence|].
  destruct (Z.ltb_spec a b); [reflexivity|]. destruct (Z.eqb_spec a b); cbn in *; [|discriminate].
  subst b. apply IH; [lia|exact Hle|congruence].
Qed.

Lemma lab_leb_cons2 k1 k2 o k1' k2' o' :
  lab_leb (k1 :: k2 :: o) (k1' :: k2' :: o') = lex_leb (rev o ++ [k2; k1]) (rev o' ++ [k2'; k1']).
Proof. unfold lab_leb. cbn [rev]. now rewrite <- !app_assoc. Qed.

(* ---- sortedness of concatenations ---- *)
Lemma SS_app {A} (R : A -> A -> Prop) l1 l2 :
  StronglySorted R l1 -> StronglySorted R l2 -> (forall a b, In a l1 -> In b l2 -> R a b) -> StronglySorted R (l1 ++ l2).
Proof.
  induction 1 as [|a l1 S1 IH F]; intros S2 Hc; cbn; [exact S2|].
  constructor.
  - apply IH; [exact S2|]. intros x y Hx Hy. apply Hc; [now right|exact Hy].
  - apply Forall_app. split; [exact F|]. apply Forall_forall. intros y Hy. apply Hc; [now left|exact Hy].
Qed.

Lemma SS_flat_map {X A} (S : X -> X -> Prop) (R : A -> A -> Prop) (f : X -> list A) xs :
  StronglySorted S xs -> (forall x, In x xs -> StronglySorted R (f x)) ->
  (forall x y, In x xs -> In y xs -> S x y -> forall a b, In a (f x) -> In b (f y) -> R a b) ->
  StronglySorted R (flat_map f xs).
Proof.
  induction 1 as [|x xs Sx IH F]; intros H1 H2; cbn; [constructor|].
  apply SS_app.
  - apply H1. now left.
  - apply IH; [intros; apply H1; now right|]. intros x' y' Hx' Hy'. apply H2; now right.
  - intros a b Ha Hb. apply in_flat_map in Hb. destruct Hb as [y [Hy Hb]].
    rewrite Forall_forall in F. apply (H2 x y); [now left|now right|now apply F|exact Ha|exact Hb].
Qed.

Lemma SS_map {X A} (S : X -> X -> Prop) (R : A -> A -> Prop) (g : X -> A) xs :
  StronglySorted S xs -> (forall x y, In x xs -> In y xs -> S x y -> R (g x) (g y)) -> StronglySorted R (map g xs).
Proof.
  induction 1 as [|x xs Sx IH F]; intros H; cbn; constructor.
  - apply IH. intros; apply H; auto; now right.
  - rewrite Forall_forall in *. intros b Hb. apply in_map_iff in Hb. destruct Hb as [y [<- Hy]].
    apply H; [now left|now right|now apply F].
Qed.

Lemma SS_NoDup {A} (R : A -> A -> Prop) l : (forall a, ~ R a a) -> StronglySorted R l -> NoDup l.
Proof.
  intros Hirr. induction 1 as [|a l S IH F]; constructor; [|exact IH].
  intros Hin. rewrite Forall_forall in F. exact (Hirr a (F a Hin)).
Qed.

Lemma grid_sorted others k2s k1s n :
  StronglySorted Z.lt k1s -> StronglySorted Z.lt k2s -> StronglySorted lab_lt others -> Forall (fun o => length o = n) others ->
  StronglySorted (fun a b => lab_leb a b = true) (grid_labels others k2s k1s).
Proof.
  intros S1 S2 So Hlen. rewrite Forall_forall in Hlen. unfold grid_labels.
  apply (SS_flat_map lab_lt); [exact So| |].
  - intros o Ho. apply (SS_flat_map Z.lt); [exact S2| |].
    + intros k2 Hk2. apply (SS_map Z.lt); [exact S1|]. intros k1 k1' _ _ Hlt.
      rewrite lab_leb_cons2, lex_app_eq. cbn. rewrite Z.ltb_irrefl, Z.eqb_refl. cbn.
      destruct (Z.ltb_spec k1 k1'); [reflexivity|lia].
    + intros k2 k2' _ _ Hlt a b Ha Hb. apply in_map_iff in Ha, Hb. destruct Ha as [k1 [<- _]]. destruct Hb as [k1' [<- _]].
      rewrite lab_leb_cons2, lex_app_eq. cbn. destruct (Z.ltb_spec k2 k2'); [reflexivity|lia].
  - intros o o' Ho Ho' [Hle Hne] a b Ha Hb.
    apply in_flat_map in Ha, Hb. destruct Ha as [k2 [_ Ha]]. destruct Hb as [k2' [_ Hb]].
    apply in_map_iff in Ha, Hb. destruct Ha as [k1 [<- _]]. destruct Hb as [k1' [<- _]].
    rewrite lab_leb_cons2. apply lex_app_lt.
    + rewrite !rev_length. now rewrite (Hlen o Ho), (Hlen o' Ho').
    + exact Hle.
    + intros E. apply Hne. rewrite <- (rev_involutive o), E. apply rev_involutive.
Qed.

(* ---- the sorted kept acquisitions carry exactly the grid labels, in grid order ---- *)
Lemma load_grid_labels h l others k2s k1s n :
  StronglySorted Z.lt k1s -> StronglySorted Z.lt k2s -> StronglySorted lab_lt others -> Forall (fun o => length o = n) others ->
  Permutation (map labels (kept h l)) (grid_labels others k2s k1s) ->
  map labels (load_sorted h l) = grid_labels others k2s k1s.
Proof.
  intros S1 S2 So Hlen P.
  apply (sorted_perm_unique _ lab_leb).
  - apply (SS_map (fun a b => acq_leb a b = true)); [apply load_sorted_sorted|]. intros x y _ _ H. exact H.
  - eapply grid_sorted; eauto.
  - rewrite <- P. apply Permutation_map, Permutation_sym, load_sorted_perm.
  - intros a b _ _ H1 H2. pose proof (lex_leb_antisym _ _ H1 H2) as E.
    rewrite <- (rev_involutive a), E. apply rev_involutive.
Qed.

(* ---- indexing a uniform flat_map ---- *)
Lemma length_flat_map_uniform {X A} (f : X -> list A) xs m :
  (forall x, In x xs -> length (f x) = m) -> length (flat_map f xs) = (length xs * m)%nat.
Proof.
  induction xs as [|x xs IH]; intros H; cbn; [reflexivity|].
  rewrite app_length, (H x) by now left. rewrite IH by (intros; apply H; now right). reflexivity.
Qed.

Lemma nth_flat_map_uniform {X A} (f : X -> list A) m (dx : X) (d : A) : forall xs i j,
  (forall x, In x xs -> length (f x) = m) -> (i < length xs)%nat -> (j < m)%nat ->
  nth (i * m + j) (flat_map f xs) d = nth j (f (nth i xs dx)) d.
Proof.
  induction xs as [|x xs IH]; intros i j H Hi Hj; cbn in Hi; [lia|].
  cbn [flat_map]. assert (Hl : length (f x) = m) by (apply H; now left). destruct i as [|i].
  - cbn [Nat.mul Nat.add nth]. rewrite app_nth1 by lia. reflexivity.
  - rewrite app_nth2 by lia. rewrite Hl.
    replace (S i * m + j - m)%nat with (i * m + j)%nat by lia.
    cbn [nth]. apply IH; [intros; apply H; now right|lia|exact Hj].
Qed.

Lemma nth_map_lt {A B} (g : A -> B) l i d d0 : (i < length l)%nat -> nth i (map g l) d = g (nth i l d0).
Proof. intros H. rewrite (nth_indep _ d (g d0)) by (now rewrite map_length). apply map_nth. Qed.

Lemma grid_nth others k2s k1s o i2 i1 :
  (o < length others)%nat -> (i2 < length k2s)%nat -> (i1 < length k1s)%nat ->
  nth ((o * length k2s + i2) * length k1s + i1) (grid_labels others k2s k1s) [] = nth i1 k1s 0 :: nth i2 k2s 0 :: nth o others [].
Proof.
  intros Ho H2 H1. unfold grid_labels.
  assert (Hin : forall o', length (flat_map (fun k2 => map (fun k1 => k1 :: k2 :: o') k1s) k2s) = (length k2s * length k1s)%nat).
  { intros o'. apply length_flat_map_uniform. intros; apply map_length. }
  replace ((o * length k2s + i2) * length k1s + i1)%nat with (o * (length k2s * length k1s) + (i2 * length k1s + i1))%nat by lia.
  rewrite (nth_flat_map_uniform _ (length k2s * length k1s)%nat [] []); [|intros; apply Hin|exact Ho|nia].
  rewrite (nth_flat_map_uniform _ (length k1s) 0 []); [|intros; apply map_length|exact H2|exact H1].
  now rewrite (nth_map_lt _ k1s i1 [] 0 H1).
Qed.

(* ---- counting: the shape decision on a grid ---- *)
Lemma filter_map_length {A B} (g : A -> B) (p : B -> bool) l : length (filter (fun a => p (g a)) l) = length (filter p (map g l)).
Proof. induction l as [|a l IH]; cbn; [reflexivity|]. destruct (p (g a)); cbn; now rewrite IH. Qed.

Lemma count_flat_map_one {X A} (f : X -> list A) (p : A -> bool) xs x0 :
  NoDup xs -> In x0 xs -> (forall x, In x xs -> x <> x0 -> forall a, In a (f x) -> p a = false) ->
  length (filter p (flat_map f xs)) = length (filter p (f x0)).
Proof.
  induction 1 as [|x xs Hx N IH]; intros Hin Hoff; [contradiction|].
  cbn [flat_map]. rewrite filter_app, app_length. destruct Hin as [->|Hin].
  - rewrite (filter_all_false p (flat_map f xs)); [cbn; lia|].
    intros a Ha. apply in_flat_map in Ha. destruct Ha as [y [Hy Ha]]. apply (Hoff y); [now right|congruence|exact Ha].
  - rewrite (filter_all_false p (f x)).
    + cbn. apply IH; [exact Hin|]. intros y Hy. apply Hoff. now right.
    + intros a Ha. apply (Hoff x); [now left|congruence|exact Ha].
Qed.

Lemma list_eqb_neq a b : a <> b -> list_eqb a b = false.
Proof. intros H. destruct (list_eqb a b) eqn:E; [|reflexivity]. apply list_eqb_eq in E. contradiction. Qed.

Lemma list_eqb_refl a : list_eqb a a = true.
Proof. now apply list_eqb_eq. Qed.

Section Grid.
  Variables (others : list (list Z)) (k2s k1s : list Z).
  Hypothesis No : NoDup others.
  Hypothesis N2 : NoDup k2s.

  (* number of grid entries sharing (k2, other) resp. other with a given entry *)
  Lemma grid_count_k2 o k2 : In o others -> In k2 k2s ->
    length (filter (fun lb => list_eqb (skipn 1 lb) (k2 :: o)) (grid_labels others k2s k1s)) = length k1s.
  Proof.
    intros Ho Hk2. unfold grid_labels.
    rewrite (count_flat_map_one _ _ others o No Ho).
    - rewrite (count_flat_map_one _ _ k2s k2 N2 Hk2).
      + rewrite filter_all_true; [apply map_length|]. intros a Ha. apply in_map_iff in Ha. destruct Ha as [k1 [<- _]]. cbn [skipn]. apply list_eqb_refl.
      + intros k2' _ Hne a Ha. apply in_map_iff in Ha. destruct Ha as [k1 [<- _]]. cbn [skipn]. apply list_eqb_neq. congruence.
    - intros o' _ Hne a Ha. apply in_flat_map in Ha. destruct Ha as [k2' [_ Ha]]. apply in_map_iff in Ha. destruct Ha as [k1 [<- _]].
      cbn [skipn]. apply list_eqb_neq. congruence.
  Qed.

  Lemma grid_count_other o : In o others ->
    length (filter (fun lb => list_eqb (skipn 2 lb) o) (grid_labels others k2s k1s)) = (length k2s * length k1s)%nat.
  Proof.
    intros Ho. unfold grid_labels. rewrite (count_flat_map_one _ _ others o No Ho).
    - rewrite filter_all_true.
      + apply length_flat_map_uniform. intros; apply map_length.
      + intros a Ha. apply in_flat_map in Ha. destruct Ha as [k2' [_ Ha]]. apply in_map_iff in Ha. destruct Ha as [k1 [<- _]].
        cbn [skipn]. apply list_eqb_refl.
    - intros o' _ Hne a Ha. apply in_flat_map in Ha. destruct Ha as [k2' [_ Ha]]. apply in_map_iff in Ha. destruct Ha as [k1 [<- _]].
      cbn [skipn]. apply list_eqb_neq. congruence.
  Qed.

  Lemma grid_in lb : In lb (grid_labels others k2s k1s) -> exists o k2 k1, lb = k1 :: k2 :: o /\ In o others /\ In k2 k2s /\ In k1 k1s.
  Proof.
    unfold grid_labels. intros H. apply in_flat_map in H. destruct H as [o [Ho H]]. apply in_flat_map in H. destruct H as [k2 [Hk2 H]].
    apply in_map_iff in H. destruct H as [k1 [<- Hk1]]. eauto 8.
  Qed.

  Lemma grid_decide_shape (k : list acq) :
    k1s <> [] -> k <> [] -> Permutation (map labels k) (grid_labels others k2s k1s) ->
    decide_shape k = (Z.of_nat (length k1s), Z.of_nat (length k2s)).
  Proof.
    intros H1 Hk P.
    assert (C2 : forall a, In a k -> count_key other_k2_key k a = Z.of_nat (length k1s)).
    { intros a Ha. unfold count_key, other_k2_key.
      assert (Hg : In (labels a) (grid_labels others k2s k1s)) by (eapply Permutation_in; [exact P|now apply in_map]).
      destruct (grid_in _ Hg) as (o & k2 & k1 & E & Ho & Hk2 & _). rewrite E. cbn [skipn].
      rewrite (filter_map_length labels (fun lb => list_eqb (skipn 1 lb) (k2 :: o))).
      rewrite (Permutation_length (filter_perm _ _ _ P)). f_equal. now apply grid_count_k2. }
    assert (Co : forall a, In a k -> count_key other_key k a = Z.of_nat (length k2s * length k1s)).
    { intros a Ha. unfold count_key, other_key.
      assert (Hg : In (labels a) (grid_labels others k2s k1s)) by (eapply Permutation_in; [exact P|now apply in_map]).
      destruct (grid_in _ Hg) as (o & k2 & k1 & E & Ho & _). rewrite E. cbn [skipn].
      rewrite (filter_map_length labels (fun lb => list_eqb (skipn 2 lb) o)).
      rewrite (Permutation_length (filter_perm _ _ _ P)). f_equal. now apply grid_count_other. }
    assert (NE : forall key, counts key k <> []) by (intros key; unfold counts; destruct k; [congruence|discriminate]).
    destruct (lmin_lmax_const (Z.of_nat (length k1s)) (counts other_k2_key k) (NE _)) as [E1 E2].
    { intros x Hx. unfold counts in Hx. apply in_map_iff in Hx. destruct Hx as [a [<- Ha]]. now apply C2. }
    destruct (lmin_lmax_const (Z.of_nat (length k2s * length k1s)) (counts other_key k) (NE _)) as [E3 _].
    { intros x Hx. unfold counts in Hx. apply in_map_iff in Hx. destruct Hx as [a [<- Ha]]. now apply Co. }
    unfold decide_shape. rewrite E1, E2, E3, Z.eqb_refl. f_equal.
    rewrite Nat2Z.inj_mul. apply Z.div_mul. destruct k1s; [congruence|cbn; lia].
  Qed.
End Grid.

Lemma lab_lt_irrefl a : ~ lab_lt a a.
Proof. intros [_ H]. congruence. Qed.

(* ---- the whole statement ---- *)
Theorem load_grid h l others k2s k1s n :
  StronglySorted Z.lt k1s -> StronglySorted Z.lt k2s -> StronglySorted lab_lt others -> Forall (fun o => length o = n) others ->
  others <> [] -> k2s <> [] -> k1s <> [] ->
  Permutation (map labels (kept h l)) (grid_labels others k2s k1s) ->
  let no := length others in let n2 := length k2s in let n1 := length k1s in
  (exists d i t, load h l = inr ((Z.of_nat no, Z.of_nat n2, Z.of_nat n1), d, i, t)) /\
  forall o i2 i1, (o < no)%nat -> (i2 < n2)%nat -> (i1 < n1)%nat ->
    exists a, nth_error (load_sorted h l) ((o * n2 + i2) * n1 + i1) = Some a /\
              labels a = nth i1 k1s 0 :: nth i2 k2s 0 :: nth o others [].
Proof.
  intros S1 S2 So Hlen Eo E2 E1 P. cbv zeta.
  assert (Lg : length (grid_labels others k2s k1s) = (length others * (length k2s * length k1s))%nat).
  { unfold grid_labels. apply length_flat_map_uniform. intros. apply length_flat_map_uniform. intros; apply map_length. }
  assert (Lk : length (kept h l) = (length others * (length k2s * length k1s))%nat).
  { rewrite <- Lg, <- (Permutation_length P). now rewrite map_length. }
  assert (Pos : (0 < length others /\ 0 < length k2s /\ 0 < length k1s)%nat).
  { destruct others, k2s, k1s; try congruence; cbn; lia. }
  assert (Kne : kept h l <> []) by (intros E; rewrite E in Lk; cbn in Lk; nia).
  pose proof (grid_decide_shape others k2s k1s (SS_NoDup _ _ lab_lt_irrefl So) (SS_NoDup _ _ Z.lt_irrefl S2) (kept h l) E1 Kne P) as DS.
  split.
  - rewrite load_unfold. cbv zeta. rewrite DS. cbn [fst snd]. rewrite Lk.
    destruct (Z.eqb_spec (Z.of_nat (length others * (length k2s * length k1s))) 0) as [Ez|_]; [nia|].
    replace (Z.of_nat (length others * (length k2s * length k1s))) with
      (Z.of_nat (length others) * (Z.of_nat (length k1s) * Z.of_nat (length k2s))) by nia.
    rewrite Z_mod_mult, Z.eqb_refl, Z.div_mul by nia. eauto.
  - intros o i2 i1 Ho Hi2 Hi1.
    pose proof (load_grid_labels h l others k2s k1s n S1 S2 So Hlen P) as EL.
    set (p := ((o * length k2s + i2) * length k1s + i1)%nat).
    assert (Hp : (p < length (load_sorted h l))%nat).
    { unfold load_sorted. rewrite isort_length, Lk. unfold p.
      assert (A1 : (o * length k2s + i2 + 1 <= length others * length k2s)%nat) by nia.
      pose proof (Nat.mul_le_mono_r _ _ (length k1s) A1) as A2. lia. }
    destruct (nth_error (load_sorted h l) p) as [a|] eqn:Ea; [|apply nth_error_None in Ea; lia].
    exists a. split; [reflexivity|].
    pose proof (map_nth_error labels _ _ Ea) as Em. rewrite EL in Em.
    apply (nth_error_nth _ _ []) in Em. rewrite <- Em. unfold p. now apply grid_nth.
Qed.
