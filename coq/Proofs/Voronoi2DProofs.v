(* Proofs about Model/Voronoi2D.v: invariances of the shoelace area, soundness of half-plane clipping (every vertex of the
   clipped polygon lies in the Voronoi cell), equivariance of the cell predicate, product layouts. *)
From Coq Require Import QArith Qminmax Qabs List Lia Lra Psatz Permutation Setoid.
From MrVerif Require Import Model.Voronoi1D Model.Voronoi2D.
Import ListNotations.
Open Scope Q_scope.

(* ---------- maps of the plane ---------- *)
Definition tr (t p : pt) : pt := (fst p + fst t, snd p + snd t).
(* x -> M x,  M = [[a b] [c d]] *)
Definition lin (a b c d : Q) (p : pt) : pt := (a * fst p + b * snd p, c * fst p + d * snd p).

Lemma last_indep {A} (b : A) l d1 d2 : last (b :: l) d1 = last (b :: l) d2.
Proof. revert b. induction l as [|c l IH]; intros b; [reflexivity|]. change (last (c :: l) d1 = last (c :: l) d2). apply IH. Qed.

Lemma last_cons_ne {A} (a b : A) l d : last (a :: b :: l) d = last (b :: l) a.
Proof. change (last (b :: l) d = last (b :: l) a). apply last_indep. Qed.

Lemma last_map_d {A B} (f : A -> B) l d : last (map f l) (f d) = f (last l d).
Proof. induction l as [|a [|b l] IH]; try reflexivity. change (last (map f (a :: b :: l)) (f d)) with (last (map f (b :: l)) (f d)). rewrite IH. reflexivity. Qed.

(* ---------- shoelace: linear maps ---------- *)
Lemma cross_lin a b c d p q : cross (lin a b c d p) (lin a b c d q) == (a * d - b * c) * cross p q.
Proof. unfold cross, lin. simpl. ring. Qed.

Lemma path_sum_lin a b c d l : path_sum (map (lin a b c d) l) == (a * d - b * c) * path_sum l.
Proof.
  induction l as [|p [|q r] IH]; try (simpl; ring).
  change (path_sum (map (lin a b c d) (p :: q :: r)))
    with (cross (lin a b c d p) (lin a b c d q) + path_sum (map (lin a b c d) (q :: r))).
  change (path_sum (p :: q :: r)) with (cross p q + path_sum (q :: r)).
  rewrite IH, cross_lin. ring.
Qed.

Lemma shoelace2_lin a b c d l : shoelace2 (map (lin a b c d) l) == (a * d - b * c) * shoelace2 l.
Proof.
  destruct l as [|p r]; [simpl; ring|].
  unfold shoelace2. change (map (lin a b c d) (p :: r)) with (lin a b c d p :: map (lin a b c d) r) at 1.
  cbv iota beta.
  change (lin a b c d p :: map (lin a b c d) r) with (map (lin a b c d) (p :: r)).
  rewrite last_map_d, path_sum_lin, cross_lin. ring.
Qed.

Theorem area_lin a b c d l : area (map (lin a b c d) l) == Qabs (a * d - b * c) * area l.
Proof. unfold area. rewrite shoelace2_lin, Qabs_Qmult. unfold Qdiv. ring. Qed.

Theorem area_scale a l : area (map (lin a 0 0 a) l) == a * a * area l.
Proof.
  rewrite area_lin. assert (a * a - 0 * 0 == a * a) as -> by ring.
  rewrite Qabs_pos; [reflexivity|]. destruct (Qlt_le_dec a 0); nra.
Qed.

Theorem area_rotation a b c d l : a * d - b * c == 1 -> area (map (lin a b c d) l) == area l.
Proof. intros H. rewrite area_lin, H. simpl. ring. Qed.

Theorem area_reflection a b c d l : a * d - b * c == -1 -> area (map (lin a b c d) l) == area l.
Proof. intros H. rewrite area_lin, H. simpl. ring. Qed.

(* ---------- shoelace: translations ---------- *)
Lemma cross_tr t p q : cross (tr t p) (tr t q) == cross p q + cross t q - cross t p.
Proof. unfold cross, tr. simpl. ring. Qed.

Lemma path_sum_tr t a r :
  path_sum (map (tr t) (a :: r)) == path_sum (a :: r) + cross t (last (a :: r) a) - cross t a.
Proof.
  revert a. induction r as [|b r IH]; intros a.
  - simpl. ring.
  - change (path_sum (map (tr t) (a :: b :: r))) with (cross (tr t a) (tr t b) + path_sum (map (tr t) (b :: r))).
    change (path_sum (a :: b :: r)) with (cross a b + path_sum (b :: r)).
    rewrite (IH b), cross_tr, (last_cons_ne a b r a), (last_indep b r a b). ring.
Qed.

Theorem shoelace2_translate t l : shoelace2 (map (tr t) l) == shoelace2 l.
Proof.
  destruct l as [|a r]; [reflexivity|].
  unfold shoelace2. change (map (tr t) (a :: r)) with (tr t a :: map (tr t) r) at 1. cbv iota beta.
  change (tr t a :: map (tr t) r) with (map (tr t) (a :: r)).
  rewrite last_map_d, path_sum_tr, cross_tr. ring.
Qed.

Theorem area_translate t l : area (map (tr t) l) == area l.
Proof. unfold area. rewrite shoelace2_translate. reflexivity. Qed.

(* ---------- clipping ---------- *)
Definition sat (g : hp) (x : pt) : Prop := hval g x <= 0.

Lemma inside_true h x : inside h x = true <-> sat h x.
Proof. unfold inside, sat. apply Qle_bool_iff. Qed.

Lemma inside_false h x : inside h x = false -> 0 < hval h x.
Proof.
  unfold inside. intros H. apply Qnot_le_lt. intros C. apply Qle_bool_iff in C. congruence.
Qed.

Lemma hval_red g x y : hval g (Qred x, Qred y) == hval g (x, y).
Proof. destruct g as [[ga gb] gc]. unfold hval. cbn [fst snd]. rewrite !Qred_correct. reflexivity. Qed.

Lemma hval_inter g h s e :
  ~ hval h s - hval h e == 0 ->
  hval g (inter h s e) == (1 - hval h s / (hval h s - hval h e)) * hval g s + hval h s / (hval h s - hval h e) * hval g e.
Proof.
  intros Hne. unfold inter. cbv zeta. rewrite hval_red.
  set (hs := hval h s) in *. set (he := hval h e) in *.
  destruct g as [[ga gb] gc]. unfold hval. cbn [fst snd]. field. exact Hne.
Qed.

Lemma inter_on_boundary h s e : ~ hval h s - hval h e == 0 -> hval h (inter h s e) == 0.
Proof. intros Hne. rewrite hval_inter by exact Hne. field. exact Hne. Qed.

Lemma inter_sat g h s e : sat g s -> sat g e ->
  (hval h s <= 0 /\ 0 < hval h e) \/ (0 < hval h s /\ hval h e <= 0) -> sat g (inter h s e).
Proof.
  unfold sat. intros Hs He Hside.
  assert (~ hval h s - hval h e == 0) as Hne by (intros C; destruct Hside; lra).
  rewrite hval_inter by exact Hne.
  set (t := hval h s / (hval h s - hval h e)).
  assert (0 <= t /\ t <= 1) as [T0 T1].
  { unfold t. destruct Hside as [[A B]|[A B]].
    - assert (hval h s / (hval h s - hval h e) == (- hval h s) / (hval h e - hval h s)) as -> by (field; lra).
      split; [apply Qle_shift_div_l; lra | apply Qle_shift_div_r; lra].
    - split; [apply Qle_shift_div_l; lra | apply Qle_shift_div_r; lra]. }
  nra.
Qed.

Lemma inter_sat_self h s e :
  (hval h s <= 0 /\ 0 < hval h e) \/ (0 < hval h s /\ hval h e <= 0) -> sat h (inter h s e).
Proof.
  intros Hside. unfold sat. rewrite inter_on_boundary; [apply Qle_refl|]. intros C. destruct Hside; lra.
Qed.

(* every emitted vertex lies in the clipping half-plane *)
Lemma clip_edges_self h : forall l prev, Forall (sat h) (clip_edges h prev l).
Proof.
  induction l as [|cur r IH]; intros prev; simpl; [constructor|].
  apply Forall_app. split; [|apply IH].
  destruct (inside h prev) eqn:Ep, (inside h cur) eqn:Ec.
  - constructor; [apply inside_true; exact Ec | constructor].
  - constructor; [|constructor]. apply inter_sat_self. left. split; [apply inside_true; exact Ep | apply inside_false; exact Ec].
  - constructor; [|constructor; [apply inside_true; exact Ec | constructor]].
    apply inter_sat_self. right. split; [apply inside_false; exact Ep | apply inside_true; exact Ec].
  - constructor.
Qed.

(* and keeps every half-plane constraint that the input vertices satisfied *)
Lemma clip_edges_keep g h : forall l prev, sat g prev -> Forall (sat g) l -> Forall (sat g) (clip_edges h prev l).
Proof.
  induction l as [|cur r IH]; intros prev Hp Hl; simpl; [constructor|].
  inversion Hl as [|? ? Hc Hr]; subst.
  apply Forall_app. split; [|apply IH; assumption].
  destruct (inside h prev) eqn:Ep, (inside h cur) eqn:Ec.
  - constructor; [exact Hc | constructor].
  - constructor; [|constructor]. apply inter_sat; auto. left. split; [apply inside_true; exact Ep | apply inside_false; exact Ec].
  - constructor; [|constructor; [exact Hc | constructor]].
    apply inter_sat; auto. right. split; [apply inside_false; exact Ep | apply inside_true; exact Ec].
  - constructor.
Qed.

Lemma Forall_last {A} (P : A -> Prop) l d : P d -> Forall P l -> P (last l d).
Proof. intros Hd H. induction H as [|a l Ha Hl IH]; [exact Hd|]. destruct l; [exact Ha | exact IH]. Qed.

Lemma clip_self h l : Forall (sat h) (clip h l).
Proof. destruct l; [constructor | apply clip_edges_self]. Qed.

Lemma clip_keep g h l : Forall (sat g) l -> Forall (sat g) (clip h l).
Proof.
  intros H. destruct l as [|a r]; [constructor|]. unfold clip. apply clip_edges_keep; [|exact H].
  apply Forall_last; [inversion H; assumption | exact H].
Qed.

Lemma cell_poly_keep g p others : forall box, Forall (sat g) box -> Forall (sat g) (cell_poly box p others).
Proof.
  unfold cell_poly. induction others as [|q r IH]; intros box H; simpl; [exact H|].
  apply IH. apply clip_keep. exact H.
Qed.

Lemma cell_poly_sat p others : forall box q, In q others -> Forall (sat (bisector p q)) (cell_poly box p others).
Proof.
  unfold cell_poly. induction others as [|q0 r IH]; intros box q Hq; [destruct Hq|].
  simpl. destruct Hq as [->|Hq].
  - apply (cell_poly_keep (bisector p q) p r). apply clip_self.
  - apply IH. exact Hq.
Qed.

Lemma bisector_dist p q x : hval (bisector p q) x == dist2 x p - dist2 x q.
Proof. unfold hval, bisector, dist2. destruct p, q, x. simpl. ring. Qed.

(* soundness: every vertex of the computed polygon lies in the Voronoi cell of p w.r.t. the other sites,
   and inside every half-plane that bounds the start polygon *)
Theorem cell_poly_sound box p others x : In x (cell_poly box p others) -> cell2 others p x.
Proof.
  intros Hx q Hq. pose proof (cell_poly_sat p others box q Hq) as H.
  rewrite Forall_forall in H. specialize (H x Hx). unfold sat in H. rewrite bisector_dist in H. lra.
Qed.

Theorem cell_poly_in_box g box p others x : Forall (sat g) box -> In x (cell_poly box p others) -> sat g x.
Proof. intros H Hx. pose proof (cell_poly_keep g p others box H) as K. rewrite Forall_forall in K. auto. Qed.

(* ---------- the cell predicate ---------- *)
Theorem cell2_perm P P' p x : Permutation P P' -> (cell2 P p x <-> cell2 P' p x).
Proof.
  intros HP. unfold cell2. split; intros H q Hq; apply H.
  - apply (Permutation_in _ (Permutation_sym HP) Hq).
  - apply (Permutation_in _ HP Hq).
Qed.

Lemma dist2_tr t x p : dist2 (tr t x) (tr t p) == dist2 x p.
Proof. unfold dist2, tr. simpl. ring. Qed.

Theorem cell2_translate t P p x : cell2 (map (tr t) P) (tr t p) (tr t x) <-> cell2 P p x.
Proof.
  unfold cell2. split; intros H q Hq.
  - specialize (H (tr t q) (in_map _ _ _ Hq)). rewrite !dist2_tr in H. exact H.
  - apply in_map_iff in Hq. destruct Hq as [q0 [<- Hq]]. rewrite !dist2_tr. apply H. exact Hq.
Qed.

(* similarity: M^T M = s I, s > 0  (s = 1: rotations and reflections;  M = a I, s = a^2: isotropic scaling) *)
Lemma dist2_lin a b c d s x p : a * a + c * c == s -> b * b + d * d == s -> a * b + c * d == 0 ->
  dist2 (lin a b c d x) (lin a b c d p) == s * dist2 x p.
Proof.
  intros H1 H2 H3. unfold dist2, lin. simpl.
  assert (forall u v, (a * u + b * v) * (a * u + b * v) + (c * u + d * v) * (c * u + d * v)
                      == (a * a + c * c) * (u * u) + (b * b + d * d) * (v * v) + 2 * (a * b + c * d) * (u * v)) as K by (intros; ring).
  assert (a * fst x + b * snd x - (a * fst p + b * snd p) == a * (fst x - fst p) + b * (snd x - snd p)) as -> by ring.
  assert (c * fst x + d * snd x - (c * fst p + d * snd p) == c * (fst x - fst p) + d * (snd x - snd p)) as -> by ring.
  rewrite K, H1, H2, H3. ring.
Qed.

Theorem cell2_similarity a b c d s P p x :
  a * a + c * c == s -> b * b + d * d == s -> a * b + c * d == 0 -> 0 < s ->
  (cell2 (map (lin a b c d) P) (lin a b c d p) (lin a b c d x) <-> cell2 P p x).
Proof.
  intros H1 H2 H3 Hs. unfold cell2. split; intros H q Hq.
  - specialize (H (lin a b c d q) (in_map _ _ _ Hq)). rewrite !(dist2_lin a b c d s) in H by assumption. nra.
  - apply in_map_iff in Hq. destruct Hq as [q0 [<- Hq]]. rewrite !(dist2_lin a b c d s) by assumption.
    specialize (H q0 Hq). nra.
Qed.

Theorem cell2_rotation a b c d P p x :
  a * a + c * c == 1 -> b * b + d * d == 1 -> a * b + c * d == 0 ->
  (cell2 (map (lin a b c d) P) (lin a b c d p) (lin a b c d x) <-> cell2 P p x).
Proof. intros. apply (cell2_similarity a b c d 1); auto. reflexivity. Qed.

Theorem cell2_scale a P p x : ~ a == 0 ->
  (cell2 (map (lin a 0 0 a) P) (lin a 0 0 a p) (lin a 0 0 a x) <-> cell2 P p x).
Proof.
  intros Ha. apply (cell2_similarity a 0 0 a (a * a)); try ring.
  destruct (Q_dec a 0) as [[L|G]|E]; [nra | nra | contradiction].
Qed.

(* product layouts: the 2-D cell is the product of the 1-D cells *)
Theorem cell2_product X Y px py x y : In px X -> In py Y ->
  (cell2 (list_prod X Y) (px, py) (x, y) <-> cell1 X px x /\ cell1 Y py y).
Proof.
  intros Hpx Hpy. unfold cell2, cell1, dist2. simpl. split.
  - intros H. split; intros q Hq.
    + specialize (H (q, py) (proj2 (in_prod_iff X Y q py) (conj Hq Hpy))). simpl in H. lra.
    + specialize (H (px, q) (proj2 (in_prod_iff X Y px q) (conj Hpx Hq))). simpl in H. lra.
  - intros [H1 H2] [qx qy] Hq. apply in_prod_iff in Hq. destruct Hq as [Hqx Hqy]. simpl.
    specialize (H1 qx Hqx). specialize (H2 qy Hqy). lra.
Qed.

(* ---------- the start box loses nothing: with the four far corner sites at 10 m, the cell of a site with |p|_inf <= m
   lies inside [-20 m, 20 m]^2 (in fact inside 100/9 m) ---------- *)
Lemma box_x1 m p1 p2 x1 x2 : 0 < m -> - m <= p1 <= m -> - m <= p2 <= m ->
  dist2 (x1, x2) (p1, p2) <= dist2 (x1, x2) (10 * m, 10 * m) ->
  dist2 (x1, x2) (p1, p2) <= dist2 (x1, x2) (10 * m, - (10 * m)) ->
  x1 <= 20 * m.
Proof.
  unfold dist2. simpl. intros Hm [P1 P1'] [P2 P2'] H1 H2.
  destruct (Qlt_le_dec (20 * m) x1) as [C|C]; [|exact C]. exfalso.
  destruct (Qlt_le_dec x2 0) as [N|N].
  - assert (0 <= (x1 - 20 * m) * (10 * m - p1 - 9 * m)) by nra.
    assert (0 <= (- x2) * (10 * m + p2)) by nra.
    assert (p1 * p1 <= m * m) by nra. assert (p2 * p2 <= m * m) by nra. nra.
  - assert (0 <= (x1 - 20 * m) * (10 * m - p1 - 9 * m)) by nra.
    assert (0 <= x2 * (10 * m - p2)) by nra.
    assert (p1 * p1 <= m * m) by nra. assert (p2 * p2 <= m * m) by nra. nra.
Qed.

Theorem cell_in_bigbox m p x : 0 < m -> - m <= fst p <= m -> - m <= snd p <= m ->
  cell2 (corners m) p x ->
  (- (20 * m) <= fst x <= 20 * m) /\ (- (20 * m) <= snd x <= 20 * m).
Proof.
  destruct p as [p1 p2], x as [x1 x2]. simpl fst. simpl snd. intros Hm P1 P2 H.
  assert (dist2 (x1, x2) (p1, p2) <= dist2 (x1, x2) (- (10 * m), - (10 * m))) as Hmm by (apply H; simpl; auto).
  assert (dist2 (x1, x2) (p1, p2) <= dist2 (x1, x2) (- (10 * m), 10 * m)) as Hmp by (apply H; simpl; auto).
  assert (dist2 (x1, x2) (p1, p2) <= dist2 (x1, x2) (10 * m, - (10 * m))) as Hpm by (apply H; simpl; auto).
  assert (dist2 (x1, x2) (p1, p2) <= dist2 (x1, x2) (10 * m, 10 * m)) as Hpp by (apply H; simpl; tauto).
  assert (forall a b c d, dist2 (- a, b) (- c, d) == dist2 (a, b) (c, d)) as Nx by (intros; unfold dist2; simpl; ring).
  assert (forall a b c d, dist2 (b, a) (d, c) == dist2 (a, b) (c, d)) as Sw by (intros; unfold dist2; simpl; ring).
  assert (forall a b c d, dist2 (a, b) (- c, d) == dist2 (- a, b) (c, d)) as Nx' by (intros; unfold dist2; simpl; ring).
  repeat split.
  - assert (- x1 <= 20 * m) as K; [|lra].
    apply (box_x1 m (- p1) p2 (- x1) x2); try lra; rewrite ?Nx; [rewrite <- Nx' | rewrite <- Nx']; rewrite ?Nx; assumption.
  - apply (box_x1 m p1 p2 x1 x2); assumption.
  - assert (- x2 <= 20 * m) as K; [|lra].
    apply (box_x1 m (- p2) p1 (- x2) x1); try lra.
    + rewrite Nx, Sw. rewrite <- Nx', Sw. rewrite <- (Sw x1 x2 (10 * m) (- (10 * m))) in Hpm.
      unfold dist2 in *. simpl in *. lra.
    + unfold dist2 in *. simpl in *. lra.
  - apply (box_x1 m p2 p1 x2 x1); try lra; unfold dist2 in *; simpl in *; lra.
Qed.
