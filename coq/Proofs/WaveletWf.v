(* C02 for the wavelet filter-bank model: analysis and synthesis are linear maps that depend only on the entries of their argument;
   so is the multi-level transform (1-D). *)
From MrVerif Require Import Base.Prelude Base.StarRing Base.Sums Model.OpAlg Model.ZeroPad Model.ElemOps Model.Wavelet Proofs.OpAlgProofs
  Proofs.ElemOpsProofs Proofs.AlongProofs.
Local Open Scope nat_scope.

Section WaveletWf.
  Variable R : StarRing.
  Add Ring RrWf : (k_ring R).
  Local Open Scope K_scope.
  Notation vec := (nat -> R).
  Notation linop := (linop R).

  Lemma zext_linear n a b (x y : vec) i : zext n (fun j => a * x j + b * y j) i = a * zext n x i + b * zext n y i.
  Proof. unfold zext. destruct ((0 <=? i) && (i <? Z.of_nat n))%Z; ring. Qed.
  Lemma zext_ext n (x y : vec) i : (forall j, (j < n)%nat -> x j = y j) -> zext n x i = zext n y i.
  Proof. intros H. unfold zext. destruct ((0 <=? i) && (i <? Z.of_nat n))%Z eqn:E; [apply H; lia|reflexivity]. Qed.

  Lemma analysis_linear L n m f : linear_map m (analysis (R:=R) L n f).
  Proof.
    intros a b x y j _. unfold analysis. rewrite <- !sum_mul_l, <- sum_add. apply sum_ext. intros k _. rewrite zext_linear. ring.
  Qed.
  Lemma analysis_ext L n m f : ext_map n m (analysis (R:=R) L n f).
  Proof. intros x y H j _. unfold analysis. apply sum_ext. intros k _. rewrite (zext_ext n x y _ H). reflexivity. Qed.

  Lemma synthesis_linear L m n g : linear_map n (synthesis (R:=R) L m g).
  Proof.
    intros a b x y t _. unfold synthesis. rewrite <- !sum_mul_l, <- sum_add. apply sum_ext. intros j _.
    rewrite <- !sum_mul_l, <- sum_add. apply sum_ext. intros k _. destruct (_ =? _)%Z; ring.
  Qed.
  Lemma synthesis_ext L m n g : ext_map m n (synthesis (R:=R) L m g).
  Proof.
    intros x y H t _. unfold synthesis. apply sum_ext. intros j Hj. apply sum_ext. intros k _. rewrite (H j Hj). reflexivity.
  Qed.

  Theorem band_wf L n m f g : wf (band_op (R:=R) L n m f g).
  Proof.
    unfold wf. cbn [band_op dom ran fwd adj].
    repeat split; [apply analysis_linear|apply analysis_ext|apply synthesis_linear|apply synthesis_ext].
  Qed.

  Lemma idop_wf n : wf (idop (R:=R) n).
  Proof.
    unfold wf. cbn [idop dom ran fwd adj]. split; [|split; [|split]].
    - intros a b x y i _. reflexivity.
    - intros x y H i Hi. apply H. exact Hi.
    - intros a b x y i _. reflexivity.
    - intros x y H i Hi. apply H. exact Hi.
  Qed.

  Lemma bdiag_wf (A B : linop) : wf A -> wf B -> wf (bdiag A B).
  Proof.
    intros (LA & EA & LA' & EA') (LB & EB & LB' & EB'). unfold wf. cbn [bdiag dom ran fwd adj]. repeat split.
    - intros a b x y i Hi. destruct (Nat.ltb_spec i (ran A)); [apply LA; assumption|].
      rewrite <- LB by lia. reflexivity.
    - intros x y H i Hi. destruct (Nat.ltb_spec i (ran A)).
      + apply EA; [|assumption]. intros j Hj. apply H. lia.
      + apply EB; [|lia]. intros j Hj. apply H. lia.
    - intros a b x y j Hj. destruct (Nat.ltb_spec j (dom A)); [apply LA'; assumption|].
      rewrite <- LB' by lia. reflexivity.
    - intros x y H j Hj. destruct (Nat.ltb_spec j (dom A)).
      + apply EA'; [|assumption]. intros i Hi. apply H. lia.
      + apply EB'; [|lia]. intros i Hi. apply H. lia.
  Qed.

  Lemma wavedec_dom' level L n (flo fhi glo ghi : vec) : dom (wavedec_op level L n flo fhi glo ghi) = n.
  Proof. destruct level; reflexivity. Qed.

  Theorem wavedec_wf level : forall L n (flo fhi glo ghi : vec), wf (wavedec_op level L n flo fhi glo ghi).
  Proof.
    induction level as [|l IH]; intros L n flo fhi glo ghi; cbn [wavedec_op].
    - apply idop_wf.
    - apply comp_wf.
      + cbn [bdiag dom idop]. rewrite wavedec_dom'. reflexivity.
      + apply bdiag_wf; [apply IH|apply idop_wf].
      + unfold dwt1. apply vstack_wf; [reflexivity|apply band_wf|apply band_wf].
  Qed.
  (* ---- two and three dimensions (sizes >= 1, filter length >= 2) ---- *)
  Lemma wlen_pos L n : (2 <= L)%nat -> (1 <= n)%nat -> (0 < wlen L n)%nat.
  Proof. intros HL Hn. unfold wlen. apply Nat.div_str_pos. lia. Qed.

  Lemma band2_wf L n1 n2 (fa ga fb gb : vec) : (2 <= L)%nat -> (1 <= n1)%nat -> (1 <= n2)%nat -> wf (band2_op L n1 n2 fa ga fb gb).
  Proof.
    intros HL H1 H2. pose proof (wlen_pos L n1 HL H1). pose proof (wlen_pos L n2 HL H2). unfold band2_op. apply comp_wf.
    - cbn [along dom ran band_op]. ring.
    - apply along_wf; cbn [band_op dom ran]; try lia. apply band_wf.
    - apply along_wf; cbn [band_op dom ran]; try lia. apply band_wf.
  Qed.

  Theorem dwt2_wf L n1 n2 (flo fhi glo ghi : vec) : (2 <= L)%nat -> (1 <= n1)%nat -> (1 <= n2)%nat -> wf (dwt2 L n1 n2 flo fhi glo ghi).
  Proof.
    intros HL H1 H2. unfold dwt2. repeat (apply vstack_wf; [reflexivity|apply band2_wf; assumption|]). apply band2_wf; assumption.
  Qed.

  Lemma wavedec2_dom' level L n1 n2 (flo fhi glo ghi : vec) : dom (wavedec2_op level L n1 n2 flo fhi glo ghi) = (n1 * (n2 * 1))%nat.
  Proof. destruct level; reflexivity. Qed.

  Theorem wavedec2_wf level : forall L n1 n2 (flo fhi glo ghi : vec), (2 <= L)%nat -> (1 <= n1)%nat -> (1 <= n2)%nat ->
    wf (wavedec2_op level L n1 n2 flo fhi glo ghi).
  Proof.
    induction level as [|l IH]; intros L n1 n2 flo fhi glo ghi HL H1 H2; cbn [wavedec2_op].
    - apply idop_wf.
    - cbv zeta. pose proof (wlen_pos L n1 HL H1). pose proof (wlen_pos L n2 HL H2). apply comp_wf.
      + cbn [bdiag dom idop]. rewrite wavedec2_dom'. unfold dwt2, band2_op. cbn [vstack comp along ran dom band_op]. ring.
      + apply bdiag_wf; [apply IH; lia|apply idop_wf].
      + apply dwt2_wf; assumption.
  Qed.
  Lemma band3_wf L n1 n2 n3 (fa ga fb gb fc gc : vec) : (2 <= L)%nat -> (1 <= n1)%nat -> (1 <= n2)%nat -> (1 <= n3)%nat ->
    wf (band3_op L n1 n2 n3 fa ga fb gb fc gc).
  Proof.
    intros HL H1 H2 H3. pose proof (wlen_pos L n1 HL H1). pose proof (wlen_pos L n2 HL H2). pose proof (wlen_pos L n3 HL H3).
    unfold band3_op. cbv zeta. apply comp_wf.
    - cbn [along comp dom ran band_op]. ring.
    - apply along_wf; cbn [band_op dom ran]; try nia. apply band_wf.
    - apply comp_wf.
      + cbn [along dom ran band_op]. ring.
      + apply along_wf; cbn [band_op dom ran]; try lia. apply band_wf.
      + apply along_wf; cbn [band_op dom ran]; try lia. apply band_wf.
  Qed.

  Theorem dwt3_wf L n1 n2 n3 (flo fhi glo ghi : vec) : (2 <= L)%nat -> (1 <= n1)%nat -> (1 <= n2)%nat -> (1 <= n3)%nat ->
    wf (dwt3 L n1 n2 n3 flo fhi glo ghi).
  Proof.
    intros HL H1 H2 H3. unfold dwt3. cbv zeta.
    repeat (apply vstack_wf; [reflexivity|apply band3_wf; assumption|]). apply band3_wf; assumption.
  Qed.

  Lemma wavedec3_dom' level L n1 n2 n3 (flo fhi glo ghi : vec) :
    dom (wavedec3_op level L n1 n2 n3 flo fhi glo ghi) = ((n1 * n2) * (n3 * 1))%nat.
  Proof. destruct level; reflexivity. Qed.

  Theorem wavedec3_wf level : forall L n1 n2 n3 (flo fhi glo ghi : vec), (2 <= L)%nat -> (1 <= n1)%nat -> (1 <= n2)%nat -> (1 <= n3)%nat ->
    wf (wavedec3_op level L n1 n2 n3 flo fhi glo ghi).
  Proof.
    induction level as [|l IH]; intros L n1 n2 n3 flo fhi glo ghi HL H1 H2 H3; cbn [wavedec3_op].
    - apply idop_wf.
    - cbv zeta. pose proof (wlen_pos L n1 HL H1). pose proof (wlen_pos L n2 HL H2). pose proof (wlen_pos L n3 HL H3). apply comp_wf.
      + cbn [bdiag dom idop]. rewrite wavedec3_dom'. unfold dwt3, band3_op. cbn [vstack comp along ran dom band_op]. ring.
      + apply bdiag_wf; [apply IH; lia|apply idop_wf].
      + apply dwt3_wf; assumption.
  Qed.
End WaveletWf.
