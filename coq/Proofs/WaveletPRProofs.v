(* C09 - "for orthogonal wavelets it is an isometry with W^H W = identity": perfect reconstruction of the filter-bank model.
   If the two filter pairs satisfy the perfect-reconstruction condition (shift by shift, for both parities of the position; a finite
   condition on the filters alone), synthesis after analysis is c times the identity - for every signal length (even or odd), with the
   zero padding of ptwt's mode 'zero'.  For orthonormal filters c = 1. *)
From MrVerif Require Import Base.Prelude Base.StarRing Base.Sums Model.OpAlg Model.ZeroPad Model.ElemOps Model.Wavelet Proofs.OpAlgProofs Proofs.WaveletProofs Proofs.WaveletWf.
Local Open Scope nat_scope.

Section PR.
  Variable R : StarRing.
  Add Ring RrPR : (k_ring R).
  Local Open Scope K_scope.
  Notation vec := (nat -> R).

  (* synthesis after analysis for one band, with the sum over j collapsed:
     SA t = sum_k sum_k' [k = u mod 2 ...] *)
  (* select j with 2 j = v *)
  Lemma sum_select_half m (v : Z) (F : vec) :
    sum m (fun j => if (2 * Z.of_nat j =? v)%Z then F j else k0)
    = if ((0 <=? v) && (v mod 2 =? 0) && (v / 2 <? Z.of_nat m))%Z then F (Z.to_nat (v / 2)) else k0.
  Proof.
    destruct ((0 <=? v) && (v mod 2 =? 0) && (v / 2 <? Z.of_nat m))%Z eqn:E.
    - rewrite (sum_ext _ m _ (fun j => if Nat.eqb j (Z.to_nat (v / 2)) then F j else k0)).
      + apply sum_delta. lia.
      + intros j Hj. destruct (Z.eqb_spec (2 * Z.of_nat j) v) as [Hc|Hc];
          destruct (Nat.eqb_spec j (Z.to_nat (v / 2))) as [Hj2|Hj2]; try reflexivity; exfalso; lia.
    - rewrite (sum_ext _ m _ (fun _ => k0)); [apply sum_zero|].
      intros j Hj. destruct (Z.eqb_spec (2 * Z.of_nat j) v) as [Hc|Hc]; [exfalso; lia|reflexivity].
  Qed.

  (* ---- perfect reconstruction ---- *)
  (* one band: synthesis after analysis with the sum over the coefficient index collapsed *)
  Lemma synth_analysis_band L n m (f g x : vec) t :
    synthesis L m g (analysis L n f x) t
    = sum L (fun k => let v := (Z.of_nat t + (Z.of_nat L - 2) - Z.of_nat k)%Z in
        if ((0 <=? v) && (v mod 2 =? 0) && (v / 2 <? Z.of_nat m))%Z
        then g k * sum L (fun k' => f k' * zext n x (Z.of_nat t + Z.of_nat k' - Z.of_nat k)%Z) else k0).
  Proof.
    unfold synthesis. rewrite sum_swap. apply sum_ext. intros k Hk. cbv zeta.
    set (v := (Z.of_nat t + (Z.of_nat L - 2) - Z.of_nat k)%Z).
    rewrite (sum_ext _ m _ (fun j => if (2 * Z.of_nat j =? v)%Z then g k * analysis L n f x j else k0)).
    2:{ intros j _. destruct (Z.eqb_spec (2 * Z.of_nat j + Z.of_nat k) (Z.of_nat t + (Z.of_nat L - 2)));
        destruct (Z.eqb_spec (2 * Z.of_nat j) v); try reflexivity; exfalso; subst v; lia. }
    rewrite (sum_select_half m v (fun j => g k * analysis L n f x j)).
    destruct ((0 <=? v) && (v mod 2 =? 0) && (v / 2 <? Z.of_nat m))%Z eqn:E; [|reflexivity].
    f_equal. unfold analysis. apply sum_ext. intros k' _. f_equal. f_equal. subst v. rewrite Z2Nat.id by lia. lia.
  Qed.

  (* the perfect-reconstruction condition on the two filter pairs, shift by shift and for both parities of the position *)
  Definition pr_cond (L : nat) (flo fhi glo ghi : vec) (c : R) : Prop :=
    forall p d : Z, (0 <= p < 2)%Z ->
      sum L (fun k => sum L (fun k' =>
        if ((Z.of_nat k mod 2 =? p) && (Z.of_nat k' - Z.of_nat k =? d))%Z then glo k * flo k' + ghi k * fhi k' else k0))
      = if (d =? 0)%Z then c else k0.

  Lemma cond_is_parity L n t k : (t < n)%nat -> (k < L)%nat ->
    let v := (Z.of_nat t + (Z.of_nat L - 2) - Z.of_nat k)%Z in
    ((0 <=? v) && (v mod 2 =? 0) && (v / 2 <? Z.of_nat (wlen L n)))%Z = (Z.of_nat k mod 2 =? (Z.of_nat t + Z.of_nat L) mod 2)%Z.
  Proof.
    intros Ht Hk v. unfold wlen. rewrite Nat2Z.inj_div. replace (Z.of_nat (n + L - 1)) with (Z.of_nat n + Z.of_nat L - 1)%Z by lia.
    replace (Z.of_nat 2) with 2%Z by reflexivity. subst v.
    destruct (Z.eqb_spec (Z.of_nat k mod 2) ((Z.of_nat t + Z.of_nat L) mod 2)) as [E|E].
    - assert (Hm : ((Z.of_nat t + (Z.of_nat L - 2) - Z.of_nat k) mod 2 = 0)%Z) by lia.
      rewrite Hm. cbn [Z.eqb]. rewrite Bool.andb_true_r. apply andb_true_intro. split; [lia|lia].
    - assert (Hm : ((Z.of_nat t + (Z.of_nat L - 2) - Z.of_nat k) mod 2 <> 0)%Z) by lia.
      destruct (Z.eqb_spec ((Z.of_nat t + (Z.of_nat L - 2) - Z.of_nat k) mod 2) 0); [contradiction|].
      rewrite Bool.andb_false_r. reflexivity.
  Qed.

  (* partition of the pairs (k, k') by their difference *)
  Lemma partition_by_shift L (k k' : nat) (F : Z -> R) : (k < L)%nat -> (k' < L)%nat ->
    F (Z.of_nat k' - Z.of_nat k)%Z
    = sum (2 * L) (fun e => if (Z.of_nat k' - Z.of_nat k =? Z.of_nat e - Z.of_nat L)%Z then F (Z.of_nat e - Z.of_nat L)%Z else k0).
  Proof.
    intros Hk Hk'.
    rewrite (sum_ext _ (2 * L) _ (fun e => if (Z.of_nat k' - Z.of_nat k + Z.of_nat L =? Z.of_nat e + 0)%Z then F (Z.of_nat e - Z.of_nat L)%Z else k0)).
    2:{ intros e _. destruct (Z.eqb_spec (Z.of_nat k' - Z.of_nat k) (Z.of_nat e - Z.of_nat L));
        destruct (Z.eqb_spec (Z.of_nat k' - Z.of_nat k + Z.of_nat L) (Z.of_nat e + 0)); try reflexivity; exfalso; lia. }
    rewrite (sum_select_Z R (2 * L) (Z.of_nat k' - Z.of_nat k + Z.of_nat L) 0 (fun e => F (Z.of_nat e - Z.of_nat L)%Z)).
    destruct ((0 <=? Z.of_nat k' - Z.of_nat k + Z.of_nat L - 0) && (Z.of_nat k' - Z.of_nat k + Z.of_nat L - 0 <? Z.of_nat (2 * L)))%Z eqn:E; [|exfalso; lia].
    f_equal. lia.
  Qed.

  Theorem dwt1_perfect_reconstruction L n (flo fhi glo ghi : vec) (c : R) : (0 < L)%nat ->
    pr_cond L flo fhi glo ghi c ->
    forall (x : vec) t, (t < n)%nat -> adj (dwt1 L n flo fhi glo ghi) (fwd (dwt1 L n flo fhi glo ghi) x) t = c * x t.
  Proof.
    intros HL HPR x t Ht. unfold dwt1. cbn [vstack band_op dom ran fwd adj]. set (m := wlen L n).
    rewrite (synthesis_ext R L m n glo _ (analysis L n flo x)); [| |exact Ht].
    2:{ intros j Hj. destruct (Nat.ltb_spec j m); [reflexivity|lia]. }
    rewrite (synthesis_ext R L m n ghi _ (analysis L n fhi x)); [| |exact Ht].
    2:{ intros j Hj. destruct (Nat.ltb_spec (m + j) m); [lia|]. replace (m + j - m)%nat with j by lia. reflexivity. }
    rewrite !synth_analysis_band. rewrite <- sum_add.
    set (p := ((Z.of_nat t + Z.of_nat L) mod 2)%Z).
    set (F := fun d : Z => zext n x (Z.of_nat t + d)%Z).
    (* parity form, the two bands together *)
    rewrite (sum_ext _ L _ (fun k => sum L (fun k' => if (Z.of_nat k mod 2 =? p)%Z
              then (glo k * flo k' + ghi k * fhi k') * F (Z.of_nat k' - Z.of_nat k)%Z else k0))).
    2:{ intros k Hk. cbv zeta. fold m. unfold m. rewrite (cond_is_parity L n t k Ht Hk). fold p.
        destruct (Z.of_nat k mod 2 =? p)%Z.
        - rewrite <- !sum_mul_l. rewrite <- sum_add. apply sum_ext. intros k' _. unfold F.
          replace (Z.of_nat t + (Z.of_nat k' - Z.of_nat k))%Z with (Z.of_nat t + Z.of_nat k' - Z.of_nat k)%Z by lia. ring.
        - rewrite sum_zero. ring. }
    (* partition by the shift e - L = k' - k *)
    rewrite (sum_ext _ L _ (fun k => sum L (fun k' => sum (2 * L) (fun e =>
              if ((Z.of_nat k mod 2 =? p) && (Z.of_nat k' - Z.of_nat k =? Z.of_nat e - Z.of_nat L))%Z
              then (glo k * flo k' + ghi k * fhi k') * F (Z.of_nat e - Z.of_nat L)%Z else k0)))).
    2:{ intros k Hk. apply sum_ext. intros k' Hk'. destruct (Z.of_nat k mod 2 =? p)%Z; cbn [andb].
        - rewrite (partition_by_shift L k k' (fun d => (glo k * flo k' + ghi k * fhi k') * F d) Hk Hk'). reflexivity.
        - rewrite sum_zero. reflexivity. }
    (* bring the sum over e to the front *)
    rewrite (sum_ext _ L _ (fun k => sum (2 * L) (fun e => sum L (fun k' =>
              if ((Z.of_nat k mod 2 =? p) && (Z.of_nat k' - Z.of_nat k =? Z.of_nat e - Z.of_nat L))%Z
              then (glo k * flo k' + ghi k * fhi k') * F (Z.of_nat e - Z.of_nat L)%Z else k0))))
      by (intros k _; apply sum_swap).
    rewrite sum_swap.
    rewrite (sum_ext _ (2 * L) _ (fun e => if Nat.eqb e L then c * F (Z.of_nat e - Z.of_nat L)%Z else k0)).
    - rewrite (sum_delta R (2 * L) L (fun e => c * F (Z.of_nat e - Z.of_nat L)%Z)) by lia.
      unfold F, zext. replace (Z.of_nat t + (Z.of_nat L - Z.of_nat L))%Z with (Z.of_nat t) by lia.
      destruct ((0 <=? Z.of_nat t) && (Z.of_nat t <? Z.of_nat n))%Z eqn:E; [rewrite Nat2Z.id; reflexivity|exfalso; lia].
    - intros e He.
      assert (Hp : (0 <= p < 2)%Z) by (subst p; apply Z.mod_pos_bound; lia).
      pose proof (HPR p (Z.of_nat e - Z.of_nat L)%Z Hp) as H.
      transitivity (sum L (fun k => sum L (fun k' =>
          if ((Z.of_nat k mod 2 =? p) && (Z.of_nat k' - Z.of_nat k =? Z.of_nat e - Z.of_nat L))%Z
          then glo k * flo k' + ghi k * fhi k' else k0)) * F (Z.of_nat e - Z.of_nat L)%Z).
      + rewrite <- sum_mul_r. apply sum_ext. intros k _. rewrite <- sum_mul_r. apply sum_ext. intros k' _.
        destruct (_ && _)%bool; ring.
      + rewrite H. destruct (Nat.eqb_spec e L) as [->|Hne].
        * rewrite Z.sub_diag. cbn [Z.eqb]. ring.
        * destruct (Z.eqb_spec (Z.of_nat e - Z.of_nat L) 0); [exfalso; lia|ring].
  Qed.
End PR.
Arguments pr_cond {R}.

(* ---- executable check of the condition for integer filters, and its soundness ---- *)
Definition pr_sum (L : nat) (flo fhi glo ghi : nat -> Z) (p d : Z) : Z :=
  sum (R:=ZRing) L (fun k => sum (R:=ZRing) L (fun k' =>
    if ((Z.of_nat k mod 2 =? p) && (Z.of_nat k' - Z.of_nat k =? d))%Z then (glo k * flo k' + ghi k * fhi k')%Z else 0%Z)).
Definition pr_cond_b (L : nat) (flo fhi glo ghi : nat -> Z) (c : Z) : bool :=
  forallb (fun p => forallb (fun e => let d := (Z.of_nat e - Z.of_nat L)%Z in
     Z.eqb (pr_sum L flo fhi glo ghi p d) (if (d =? 0)%Z then c else 0%Z)) (seq 0 (2 * L + 1))) [0%Z; 1%Z].

Lemma pr_cond_b_sound L flo fhi glo ghi c : (0 < L)%nat -> pr_cond_b L flo fhi glo ghi c = true -> pr_cond (R:=ZRing) L flo fhi glo ghi c.
Proof.
  intros HL H p d Hp. unfold pr_cond_b in H. rewrite forallb_forall in H.
  assert (Hin : In p [0%Z; 1%Z]) by (cbn; lia). specialize (H p Hin). rewrite forallb_forall in H.
  destruct (Z_lt_le_dec d (- Z.of_nat L)) as [Hlo|Hlo]; [|destruct (Z_lt_le_dec (Z.of_nat L) d) as [Hhi|Hhi]].
  - (* d < -L: no pair has this shift *)
    destruct (Z.eqb_spec d 0); [lia|].
    rewrite (sum_ext ZRing L _ (fun _ => 0%Z)); [apply (sum_zero ZRing)|]. intros k Hk.
    rewrite (sum_ext ZRing L _ (fun _ => 0%Z)); [apply (sum_zero ZRing)|]. intros k' Hk'.
    destruct (Z.eqb_spec (Z.of_nat k' - Z.of_nat k) d); [lia|]. rewrite Bool.andb_false_r. reflexivity.
  - destruct (Z.eqb_spec d 0); [lia|].
    rewrite (sum_ext ZRing L _ (fun _ => 0%Z)); [apply (sum_zero ZRing)|]. intros k Hk.
    rewrite (sum_ext ZRing L _ (fun _ => 0%Z)); [apply (sum_zero ZRing)|]. intros k' Hk'.
    destruct (Z.eqb_spec (Z.of_nat k' - Z.of_nat k) d); [lia|]. rewrite Bool.andb_false_r. reflexivity.
  - specialize (H (Z.to_nat (d + Z.of_nat L))). rewrite in_seq in H. specialize (H ltac:(lia)).
    cbv zeta in H. replace (Z.of_nat (Z.to_nat (d + Z.of_nat L)) - Z.of_nat L)%Z with d in H by lia.
    apply Z.eqb_eq in H. exact H.
Qed.


(* ---- all levels, orthonormal filter banks (c = 1): waverec (wavedec x) = x ---- *)
Section PRLevels.
  Variable R : StarRing.
  Add Ring RrPRL : (k_ring R).
  Local Open Scope K_scope.
  Notation vec := (nat -> R).

  Theorem wavedec_perfect_reconstruction level : forall L n (flo fhi glo ghi : vec), (0 < L)%nat ->
    pr_cond L flo fhi glo ghi k1 ->
    forall (x : vec) t, (t < n)%nat ->
      adj (wavedec_op level L n flo fhi glo ghi) (fwd (wavedec_op level L n flo fhi glo ghi) x) t = x t.
  Proof.
    induction level as [|l IH]; intros L n flo fhi glo ghi HL HPR x t Ht; cbn [wavedec_op].
    - reflexivity.
    - set (m := wlen L n). set (W := wavedec_op l L m flo fhi glo ghi). set (D := dwt1 L n flo fhi glo ghi).
      cbn [comp fwd adj].
      assert (HdW : dom W = m) by apply wavedec_dom'.
      assert (HrD : ran D = (m + m)%nat) by reflexivity.
      assert (HdD : dom D = n) by reflexivity.
      destruct (wavedec_wf R l L m flo fhi glo ghi) as (_ & EW & _ & EW'). fold W in EW, EW'.
      assert (WD : wf D) by (unfold D, dwt1; apply vstack_wf; [reflexivity|apply band_wf|apply band_wf]).
      destruct WD as (_ & _ & _ & ED').
      set (y := fwd D x).
      (* the block-diagonal step gives y back on all 2m entries *)
      assert (Hb : forall j, (j < m + m)%nat -> adj (bdiag W (idop (R:=R) m)) (fwd (bdiag W (idop (R:=R) m)) y) j = y j).
      { intros j Hj. cbn [bdiag idop dom ran fwd adj]. rewrite HdW.
        destruct (Nat.ltb_spec j m) as [Hjm|Hjm].
        - rewrite (EW' _ (fwd W y)); [apply IH; assumption| |rewrite HdW; exact Hjm].
          intros i Hi. destruct (Nat.ltb_spec i (ran W)); [reflexivity|lia].
        - destruct (Nat.ltb_spec (ran W + (j - m)) (ran W)); [lia|].
          replace (ran W + (j - m) - ran W)%nat with (j - m)%nat by lia. f_equal. lia. }
      rewrite (ED' _ y); [| |rewrite HdD; exact Ht].
      + unfold y, D. rewrite (dwt1_perfect_reconstruction R L n flo fhi glo ghi k1 HL HPR x t Ht). ring.
      + intros j Hj. rewrite HrD in Hj. apply Hb. exact Hj.
  Qed.
End PRLevels.
