From MrVerif Require Import Base.Prelude Base.StarRing Base.Sums Model.OpAlg Model.ElemOps Model.CG Model.Recon
  Proofs.OpAlgProofs Proofs.ElemOpsProofs Proofs.CGProofs Proofs.CGProofsInst.
From Coq Require Import QArith Qcanon.
Local Open Scope nat_scope.

(* ---------- iterative reconstructions are CG on the stated system ---------- *)
Lemma reg_sense_is_cg AHWA B lam AHWy x0 n :
  reg_sense AHWA B lam AHWy x0 n =
  cgQ (fst (reg_system AHWA B lam AHWy x0)) q0 (snd (reg_system AHWA B lam AHWy x0)) (Some (snd (reg_system AHWA B lam AHWy x0))) n.
Proof. unfold reg_sense. destruct (reg_system AHWA B lam AHWy x0). reflexivity. Qed.

Lemma reg_sense_lambda_zero AHWA B AHWy x0 n :
  reg_sense AHWA B q0 AHWy x0 n = cgQ AHWA q0 AHWy (Some AHWy) n /\ reg_sense AHWA B q0 AHWy x0 n = iter_sense AHWA AHWy n.
Proof. unfold iter_sense, reg_sense, reg_system. split; reflexivity. Qed.

Lemma vsubQ_zero_eq : forall b v, length v = length b -> vsubQ b v = map (fun _ => q0) b -> v = b.
Proof.
  induction b as [|x b IH]; intros [|y v] L H; cbn [length] in L; try lia; [reflexivity|].
  unfold vsubQ in H. cbn [vsub map] in H.
  pose proof (f_equal (hd q0) H) as H1. pose proof (f_equal (@tl Qc) H) as H2. cbn [hd tl] in H1, H2. f_equal.
  - assert (E2 : x = (x - y + y)%Qc) by ring. rewrite H1 in E2. rewrite E2. unfold q0. ring.
  - apply IH; [lia|exact H2].
Qed.

(* if the reported residual is exactly zero, the returned image solves the (regularised) normal equations *)
Lemma reg_sense_converged AHWA B lam AHWy x0 n res trace x r k :
  reg_sense AHWA B lam AHWy x0 n = Done res trace -> In (x, r, k) trace ->
  let H := fst (reg_system AHWA B lam AHWy x0) in let rhs := snd (reg_system AHWA B lam AHWy x0) in
  length (mvQ H x) = length rhs -> r = map (fun _ => q0) rhs -> mvQ H x = rhs.
Proof.
  intros Hrun Hin H rhs Hlen Hr. rewrite reg_sense_is_cg in Hrun.
  pose proof (cgQ_residual H q0 rhs (Some rhs) n x r k trace res (or_introl Hrun) Hin) as E.
  rewrite Hr in E. apply vsubQ_zero_eq; [exact Hlen|]. symmetry. exact E.
Qed.

(* ---------- operator level (any commutative *-ring) ---------- *)
Section ReconOps.
  Variable R : StarRing.
  Add Ring Rr9 : (k_ring R).
  Local Open Scope K_scope.
  Notation linop := (linop R).

  (* direct reconstruction applies (W F S).H; that is S^H (F^H (W^H y)) - with a real density compensation W^H = W *)
  Lemma direct_is_adjoint_chain (W F S : linop) y j :
    adj (comp W (comp F S)) y j = adj S (adj F (adj W y)) j.
  Proof. reflexivity. Qed.

  Lemma diag_real_selfadjoint n (d : nat -> R) y i : (forall k, kconj (d k) = d k) ->
    adj (diag_op n d) y i = fwd (diag_op n d) y i.
  Proof. intros H. cbn [diag_op fwd adj]. rewrite H. reflexivity. Qed.

  Lemma direct_adjoint_pair (W F S : linop) : dom W = ran F -> dom F = ran S ->
    adjoint_pair W -> adjoint_pair F -> adjoint_pair S -> adjoint_pair (adjop (comp W (comp F S))).
  Proof.
    intros H1 H2 PW PF PS. apply adjop_adjoint. apply comp_adjoint; [exact H1|exact PW|].
    apply comp_adjoint; [exact H2|exact PF|exact PS].
  Qed.

  Lemma direct_linear (W F S : linop) : dom W = ran F -> dom F = ran S -> wf W -> wf F -> wf S -> wf (adjop (comp W (comp F S))).
  Proof.
    intros H1 H2 WW WF WS. apply adjop_wf. apply comp_wf; [exact H1|exact WW|]. apply comp_wf; [exact H2|exact WF|exact WS].
  Qed.

  (* the operator handed to CG, H = A^H W A + lambda B, is self-adjoint when W and B are and lambda is real *)
  Definition selfadj (H : linop) : Prop := dom H = ran H /\ forall u v, inner (ran H) (fwd H u) v = inner (dom H) u (fwd H v).

  Lemma normal_operator_selfadjoint (A W B : linop) (lam : R) :
    adjoint_pair A -> dom W = ran A -> ran W = ran A -> dom B = dom A -> ran B = dom A ->
    selfadj W -> selfadj B -> kconj lam = lam ->
    selfadj (lsum (comp (adjop A) (comp W A)) (prod_right (fun _ => lam) B)).
  Proof.
    intros PA dW rW dB rB [_ SW] [_ SB] Hl. split; [cbn [lsum comp adjop dom ran]; reflexivity|].
    intros u v. cbn [lsum comp adjop prod_right dom ran fwd adj]. unfold inner.
    rewrite (sum_ext _ (dom A) _ (fun i => adj A (fwd W (fwd A u)) i * kconj (v i) + lam * (fwd B u i * kconj (v i)))) by (intros; ring).
    rewrite (sum_ext _ (dom A) (fun i => u i * kconj (adj A (fwd W (fwd A v)) i + lam * fwd B v i))
                     (fun i => u i * kconj (adj A (fwd W (fwd A v)) i) + lam * (u i * kconj (fwd B v i))))
      by (intros; rewrite kconj_add, kconj_mul, Hl; ring).
    rewrite !sum_add, !sum_mul_l. f_equal.
    - (* <A^H W A u, v> = <W A u, A v> = <A u, W A v> = <u, A^H W A v> *)
      pose proof (PA v (fwd W (fwd A u))) as E1. pose proof (PA u (fwd W (fwd A v))) as E2.
      pose proof (SW (fwd A u) (fwd A v)) as E3. unfold inner in E1, E2, E3. rewrite rW, dW in E3.
      transitivity (kconj (sum (ran A) (fun i => fwd A v i * kconj (fwd W (fwd A u) i)))).
      + rewrite E1. rewrite sum_conj. apply sum_ext. intros i _. rewrite kconj_mul, kconj_inv. ring.
      + rewrite <- E2. rewrite sum_conj.
        transitivity (sum (ran A) (fun i => fwd W (fwd A u) i * kconj (fwd A v i))).
        * apply sum_ext. intros i _. rewrite kconj_mul, kconj_inv. ring.
        * rewrite E3. reflexivity.
    - f_equal. pose proof (SB u v) as E. unfold inner in E. rewrite rB, dB in E. exact E.
  Qed.
End ReconOps.
