(* Proofs for C12 (agreement with the reference semantics): Hamilton product in textbook form, matrix -> quaternion round trip,
   from_euler as a product of elementary rotations, rotation vector round trip. *)
From MrVerif Require Import Base.Prelude Base.StarRing Model.Rotation Model.Euler Proofs.RotationProofs Proofs.RotationRealProofs Proofs.RotationPowProofs.
From Coq Require Import Reals Lra Psatz.
Local Open Scope R_scope.

Section Generic.
  Variable R : StarRing.
  Add Ring Rr2 : (k_ring R).
  (* p*q = (pw qv + qw pv + pv x qv, pw qw - pv.qv) *)
  Lemma qmul_textbook (p q : quat R) :
    qmul R p q = let pv := qvec R p in let qv := qvec R q in
                 let v := vadd R (vadd R (vscal R (q3 p) qv) (vscal R (q3 q) pv)) (cross3 R pv qv) in
                 (v0 v, v1 v, v2 v, ksub (kmul (q3 p) (q3 q)) (dot3 R pv qv)).
  Proof. dquat p; dquat q. unf. pair_split; ring. Qed.
End Generic.

Ltac toR' := cbn [StarRing.K StarRing.k0 StarRing.k1 StarRing.kadd StarRing.kmul StarRing.ksub StarRing.kopp RRing] in *.

(* candidates of _matrix_to_quaternion on the matrix of a unit quaternion: row i of 4 q q^T, pivot i = 4 q_i^2 *)
Lemma candidate_unit (i : nat) (q : quatR) : qnorm2 RRing q = 1 ->
  m2q_candidate RRing i (qmat RRing q) = qscal RRing (4 * nth_comp i q) q /\ nth_pivot i (qmat RRing q) = 4 * nth_comp i q * nth_comp i q.
Proof.
  intros H. dquat q. unfold nth_pivot, nth_comp. destruct i as [|[|[|i]]]; unfold m2q_candidate, m2q_pivots; unf; toR'; split; pair_split; nra.
Qed.
Lemma pivots_sum (q : quatR) : qnorm2 RRing q = 1 ->
  nth_pivot 0 (qmat RRing q) + nth_pivot 1 (qmat RRing q) + nth_pivot 2 (qmat RRing q) + nth_pivot 3 (qmat RRing q) = 4.
Proof. intros H. rewrite !(proj2 (candidate_unit _ q H)). dquat q. unfold nth_comp. unf. toR'. nra. Qed.
(* the largest pivot is >= 1, hence non-zero *)
Lemma max_pivot_ge_1 (q : quatR) (i : nat) : qnorm2 RRing q = 1 -> (i <= 3)%nat ->
  (forall j, (j <= 3)%nat -> nth_pivot j (qmat RRing q) <= nth_pivot i (qmat RRing q)) -> 1 <= nth_pivot i (qmat RRing q).
Proof.
  intros H Hi Hmax. pose proof (pivots_sum q H) as S.
  pose proof (Hmax 0%nat ltac:(lia)). pose proof (Hmax 1%nat ltac:(lia)). pose proof (Hmax 2%nat ltac:(lia)). pose proof (Hmax 3%nat ltac:(lia)). lra.
Qed.
(* each candidate with a non-zero pivot reproduces q or -q *)
Theorem matrix_quat_roundtrip (i : nat) (q : quatR) : qnorm2 RRing q = 1 -> nth_pivot i (qmat RRing q) <> 0 ->
  matrix_to_quat i (qmat RRing q) = q \/ matrix_to_quat i (qmat RRing q) = qopp RRing q.
Proof.
  intros H Hp. destruct (candidate_unit i q H) as [Ec Ep]. unfold matrix_to_quat. rewrite Ec, Ep.
  rewrite Ep in Hp. set (x := nth_comp i q) in *.
  assert (Hx : x <> 0) by (intros E; apply Hp; rewrite E; ring).
  replace (4 * x * x) with (Rsqr (2 * x)) by (unfold Rsqr; ring). rewrite sqrt_Rsqr_abs.
  assert (Ha : Rabs (2 * x) <> 0) by (apply Rabs_no_R0; lra).
  unfold Rabs in *. destruct (Rcase_abs (2 * x)); [right | left]; dquat q; unf; toR'; pair_split; field; lra.
Qed.

(* elementary rotations: the matrix of (s e_axis, c) with s = sin(t/2), c = cos(t/2) is the elementary rotation matrix *)
Lemma elementary_matrix (a : nat) (t : R) : qmat RRing (elementary a t) = elem_matrix a t.
Proof.
  unfold elementary, elem_matrix.
  assert (Hc : cos t = cos (t / 2) * cos (t / 2) - sin (t / 2) * sin (t / 2)) by (replace t with (2 * (t / 2)) at 1 by field; apply cos_2a).
  assert (Hs : sin t = 2 * sin (t / 2) * cos (t / 2)) by (replace t with (2 * (t / 2)) at 1 by field; apply sin_2a).
  pose proof (sin2_cos2 (t / 2)) as H1. unfold Rsqr in H1. rewrite Hc, Hs.
  destruct a as [|[|a]]; unfold elementary_sc; unf; toR'; pair_split; nra.
Qed.
(* from_euler with three axes = product of the elementary rotations: intrinsic E1 E2 E3, extrinsic E3 E2 E1 *)
Theorem from_euler_product (a b c : nat) (t1 t2 t3 : R) :
  qmat RRing (from_euler true [a; b; c] [t1; t2; t3]) = mmul RRing (mmul RRing (elem_matrix a t1) (elem_matrix b t2)) (elem_matrix c t3)
  /\ qmat RRing (from_euler false [a; b; c] [t1; t2; t3]) = mmul RRing (elem_matrix c t3) (mmul RRing (elem_matrix b t2) (elem_matrix a t1)).
Proof.
  unfold from_euler, from_euler_sc, half_sc. cbn [map from_euler_acc].
  fold (elementary a t1) (elementary b t2) (elementary c t3).
  rewrite !qmat_mul, !elementary_matrix. split; reflexivity.
Qed.
Theorem from_euler_two (a b : nat) (t1 t2 : R) :
  qmat RRing (from_euler true [a; b] [t1; t2]) = mmul RRing (elem_matrix a t1) (elem_matrix b t2)
  /\ qmat RRing (from_euler false [a; b] [t1; t2]) = mmul RRing (elem_matrix b t2) (elem_matrix a t1)
  /\ qmat RRing (from_euler true [a] [t1]) = elem_matrix a t1.
Proof.
  unfold from_euler, from_euler_sc, half_sc. cbn [map from_euler_acc].
  fold (elementary a t1) (elementary b t2). rewrite !qmat_mul, !elementary_matrix. repeat split; reflexivity.
Qed.
Lemma from_euler_unit (i : bool) (a b c : nat) (t1 t2 t3 : R) : qnorm2 RRing (from_euler i [a; b; c] [t1; t2; t3]) = 1.
Proof.
  assert (E : forall a t, qnorm2 RRing (elementary a t) = 1).
  { intros a' t. pose proof (sin2_cos2 (t / 2)) as H1. unfold Rsqr in H1. unfold elementary, elementary_sc.
    destruct a' as [|[|a']]; unf; toR'; nra. }
  unfold from_euler, from_euler_sc, half_sc. cbn [map from_euler_acc]. fold (elementary a t1) (elementary b t2) (elementary c t3).
  destruct i; rewrite !qnorm2_mul, !E; toR'; ring.
Qed.
(* degrees *)
Lemma deg2rad_180 : deg2rad 180 = PI.
Proof. unfold deg2rad. field. Qed.

(* atan2(sin phi, cos phi) = phi on [0, pi] *)
Lemma atan2_sin_cos (phi : R) : 0 <= phi <= PI -> atan2 (sin phi) (cos phi) = phi.
Proof.
  intros H. unfold atan2. pose proof (sin2_cos2 phi) as S. unfold Rsqr in S.
  replace (cos phi * cos phi + sin phi * sin phi) with 1 by lra. rewrite sqrt_1.
  assert (0 <= sin phi) by (apply sin_ge_0; lra).
  destruct (Rlt_dec (sin phi) 0); [lra|]. replace (cos phi / 1) with (cos phi) by field. apply acos_cos. assumption.
Qed.
(* rotation vectors: as_rotvec of the polar form (sin(phi) u, cos(phi)), |u| = 1, 0 <= phi < pi, is 2 phi u (phi = 0: the sinc branch);
   from_rotvec of it is the polar form again *)
Lemma as_rotvec_polar (u : vecR) (phi : R) : dot3 RRing u u = 1 -> 0 <= phi < PI -> as_rotvec (polar u phi) = vscal RRing (2 * phi) u.
Proof.
  intros Hu Hphi. unfold as_rotvec.
  assert (Hs0 : 0 <= sin phi) by (apply sin_ge_0; lra).
  assert (Hn : sqrt (dot3 RRing (qvec RRing (polar u phi)) (qvec RRing (polar u phi))) = sin phi).
  { replace (dot3 RRing (qvec RRing (polar u phi)) (qvec RRing (polar u phi))) with (Rsqr (sin phi)).
    - apply sqrt_Rsqr. assumption.
    - dvec u. unfold polar, Rsqr. unf. toR'. transitivity (sin phi * sin phi * (k * k + k0 * k0 + k1 * k1)); [rewrite Hu|]; ring. }
  rewrite Hn. replace (q3 (polar u phi)) with (cos phi) by reflexivity. rewrite atan2_sin_cos by lra. cbv zeta.
  destruct (Req_EM_T (2 * phi) 0) as [E|E].
  - assert (phi = 0) by lra. subst phi. unfold polar. rewrite sin_0. dvec u. unf. toR'. pair_split; ring.
  - replace (2 * phi / 2) with phi by field.
    assert (Hs : sin phi <> 0) by (assert (0 < phi) by lra; pose proof (sin_gt_0 phi H (proj2 Hphi)); lra).
    unfold polar. dvec u. unf. toR'. pair_split; field; assumption.
Qed.
Theorem rotvec_roundtrip (u : vecR) (phi : R) : dot3 RRing u u = 1 -> 0 <= phi < PI ->
  from_rotvec (as_rotvec (polar u phi)) = polar u phi.
Proof. intros Hu Hphi. rewrite as_rotvec_polar, from_rotvec_polar by assumption. f_equal. field. Qed.
