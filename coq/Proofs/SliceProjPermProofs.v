(* C20 - SliceProjectionOp under every axis-permuting rotation (signed permutation matrix): the operator is profile-weighted
   slicing along the rotated normal.  All volume shapes, shifts, widths, profiles. *)
From MrVerif Require Import Base.Prelude Model.SliceProj Proofs.SliceProjProofs.
From Coq Require Import QArith Qround Qminmax Qabs Lqa Setoid Morphisms.
Local Open Scope Q_scope.

(* ---------------------------------------------------------------- axes, components, signed permutation matrices *)
Inductive ax := AZ | AY | AX.

Definition ax_eqb (a b : ax) : bool :=
  match a, b with AZ, AZ | AY, AY | AX, AX => true | _, _ => false end.

Definition comp {A} (a : ax) (v : A * A * A) : A :=
  match v with (z, y, x) => match a with AZ => z | AY => y | AX => x end end.

Definition sgn (b : bool) : Q := if b then 1 else (-1 # 1).

(* the matrix M with M e_j = sgn b_j * e_(a_j) for the slice axes j = z (normal), y, x: entry (i, j) = [a_j = i] * sgn b_j *)
Definition sperm_entry (a : ax) (b : bool) (i : ax) : Q := if ax_eqb a i then sgn b else 0.
Definition sperm_row (a0 a1 a2 : ax) (b0 b1 b2 : bool) (i : ax) : vec3 :=
  (sperm_entry a0 b0 i, sperm_entry a1 b1 i, sperm_entry a2 b2 i).
Definition sperm_mat (a0 a1 a2 : ax) (b0 b1 b2 : bool) : mat3 :=
  (sperm_row a0 a1 a2 b0 b1 b2 AZ, sperm_row a0 a1 a2 b0 b1 b2 AY, sperm_row a0 a1 a2 b0 b1 b2 AX).

Definition is_perm (a0 a1 a2 : ax) : Prop := a0 <> a1 /\ a0 <> a2 /\ a1 <> a2.

Lemma sperm_identity : sperm_mat AZ AY AX true true true = I3.
Proof. reflexivity. Qed.

Ltac perm_cases a0 a1 a2 Hp :=
  destruct Hp as [?Hp [?Hp ?Hp]]; destruct a0, a1, a2; try congruence.

(* M v: component a_j is sgn b_j * v_j *)
Lemma mv_sperm a0 a1 a2 b0 b1 b2 v : is_perm a0 a1 a2 ->
  comp a0 (mv (sperm_mat a0 a1 a2 b0 b1 b2) v) == sgn b0 * comp AZ v
  /\ comp a1 (mv (sperm_mat a0 a1 a2 b0 b1 b2) v) == sgn b1 * comp AY v
  /\ comp a2 (mv (sperm_mat a0 a1 a2 b0 b1 b2) v) == sgn b2 * comp AX v.
Proof.
  intros Hp. destruct v as [[vz vy] vx].
  perm_cases a0 a1 a2 Hp; cbn; repeat split; ring.
Qed.

(* M^T u: component j is sgn b_j * u_(a_j) *)
Lemma mtv_sperm a0 a1 a2 b0 b1 b2 u : is_perm a0 a1 a2 ->
  comp AZ (mv (transpose (sperm_mat a0 a1 a2 b0 b1 b2)) u) == sgn b0 * comp a0 u
  /\ comp AY (mv (transpose (sperm_mat a0 a1 a2 b0 b1 b2)) u) == sgn b1 * comp a1 u
  /\ comp AX (mv (transpose (sperm_mat a0 a1 a2 b0 b1 b2)) u) == sgn b2 * comp a2 u.
Proof.
  intros Hp. destruct u as [[uz uy] ux].
  perm_cases a0 a1 a2 Hp; cbn; repeat split; ring.
Qed.

Lemma comp_vsub a p q : comp a (vsub p q) = comp a p - comp a q.
Proof. destruct p as [[? ?] ?], q as [[? ?] ?], a; reflexivity. Qed.

Lemma comp_vadd a p q : comp a (vadd p q) = comp a p + comp a q.
Proof. destruct p as [[? ?] ?], q as [[? ?] ?], a; reflexivity. Qed.

Lemma comp_vofz a pt : comp a (vofz pt) = inject_Z (comp a pt).
Proof. destruct pt as [[? ?] ?], a; reflexivity. Qed.

Lemma comp_vfloor a v : comp a (vfloor v) = Qfloor (comp a v).
Proof. destruct v as [[? ?] ?], a; reflexivity. Qed.

Lemma Qabs_sgn_mult b t : Qabs (sgn b * t) == Qabs t.
Proof. rewrite Qabs_Qmult. destruct b; cbn [sgn]; [change (Qabs 1) with 1|change (Qabs (-1 # 1)) with 1]; ring. Qed.

(* the weight in terms of the three components of d = M^T (pr - pt) *)
Lemma weight_components g pr pt : Proper (Qeq ==> Qeq) (prof g) -> forall dz dy dx,
  comp AZ (mv (transpose (rot g)) (vsub pr (vofz pt))) == dz ->
  comp AY (mv (transpose (rot g)) (vsub pr (vofz pt))) == dy ->
  comp AX (mv (transpose (rot g)) (vsub pr (vofz pt))) == dx ->
  weight g pr pt == relu (1 - Qabs dy) * relu (1 - Qabs dx) * prof g dz.
Proof.
  intros Hprop dz dy dx. unfold weight, weight_yx.
  destruct (mv (transpose (rot g)) (vsub pr (vofz pt))) as [[ez ey] ex]. cbn [comp fst].
  intros -> -> ->. reflexivity.
Qed.

(* THE WEIGHT under a signed permutation when the two in-plane components of the rotated pixel are on the lattice:
   1 * profile(signed distance along the normal axis a0) on the voxel line, 0 elsewhere *)
Lemma weight_sperm g a0 a1 a2 b0 b1 b2 pr pt u1 u2 :
  is_perm a0 a1 a2 -> rot g = sperm_mat a0 a1 a2 b0 b1 b2 -> Proper (Qeq ==> Qeq) (prof g) ->
  comp a1 pr == inject_Z u1 -> comp a2 pr == inject_Z u2 ->
  weight g pr pt == if ((comp a1 pt =? u1) && (comp a2 pt =? u2))%Z
                    then prof g (sgn b0 * (comp a0 pr - inject_Z (comp a0 pt))) else 0.
Proof.
  intros Hp Hrot Hprop H1 H2.
  destruct (mtv_sperm a0 a1 a2 b0 b1 b2 (vsub pr (vofz pt)) Hp) as [Ez [Ey Ex]].
  rewrite <- Hrot in Ez, Ey, Ex. rewrite comp_vsub, comp_vofz in Ez, Ey, Ex.
  rewrite (weight_components g pr pt Hprop _ _ _ Ez Ey Ex).
  rewrite !Qabs_sgn_mult.
  rewrite (relu_int_dist _ u1 (comp a1 pt) H1), (relu_int_dist _ u2 (comp a2 pt) H2).
  destruct (comp a1 pt =? u1)%Z, (comp a2 pt =? u2)%Z; cbn [andb]; ring.
Qed.

(* ---------------------------------------------------------------- the rotated pixel position *)
Definition dimv (g : geom) : Z * Z * Z := (nz g, ny g, nx g).

Lemma comp_centre a g : comp a (centre g) = half (comp a (dimv g)).
Proof. destruct a; reflexivity. Qed.

Lemma pixel_rot_sperm g r c a0 a1 a2 b0 b1 b2 : is_perm a0 a1 a2 -> rot g = sperm_mat a0 a1 a2 b0 b1 b2 ->
  comp a0 (pixel_rot g r c) == sgn b0 * shift g + half (comp a0 (dimv g))
  /\ comp a1 (pixel_rot g r c) == sgn b1 * (inject_Z (pix_y g r) - half (ny g)) + half (comp a1 (dimv g))
  /\ comp a2 (pixel_rot g r c) == sgn b2 * (inject_Z (pix_x g c) - half (nx g)) + half (comp a2 (dimv g)).
Proof.
  intros Hp Hrot. unfold pixel_rot. rewrite Hrot. rewrite !comp_vadd, !comp_centre.
  destruct (mv_sperm a0 a1 a2 b0 b1 b2 (vsub (pixel g r c) (centre g)) Hp) as [E0 [E1 E2]].
  rewrite E0, E1, E2. rewrite !comp_vsub. unfold pixel, centre, pix_y, pix_x. cbn [comp].
  repeat split; ring.
Qed.

(* the in-plane lattice coordinate of the rotated pixel *)
Definition lattice_coord (b : bool) (p n na : Z) : Z :=
  if b then (p + (na - n) / 2)%Z else (- p + (n + na) / 2 - 1)%Z.

Lemma inject_Z_2k k : inject_Z (2 * k) == 2 * inject_Z k.
Proof. rewrite inject_Z_mult. reflexivity. Qed.

Lemma parity_cases n na : Z.even n = Z.even na -> exists k, (na = n + 2 * k)%Z.
Proof.
  intros H. destruct (Z.even n) eqn:En.
  - symmetry in H. apply Z.even_spec in En, H. destruct En as [m ->], H as [m' ->]. exists (m' - m)%Z. lia.
  - symmetry in H. rewrite <- Z.negb_odd in En, H. apply Bool.negb_false_iff in En, H.
    apply Z.odd_spec in En, H. destruct En as [m ->], H as [m' ->]. exists (m' - m)%Z. lia.
Qed.

Lemma lattice_coord_spec b p n na : Z.even n = Z.even na ->
  sgn b * (inject_Z p - half n) + half na == inject_Z (lattice_coord b p n na).
Proof.
  intros H. destruct (parity_cases n na H) as [k ->]. unfold lattice_coord, half.
  destruct b; cbn [sgn].
  - replace ((n + 2 * k - n) / 2)%Z with k by lia.
    rewrite !inject_Z_plus, inject_Z_2k. field.
  - replace ((n + (n + 2 * k)) / 2)%Z with (n + k)%Z by lia.
    unfold Z.sub. rewrite !inject_Z_plus, inject_Z_opp, inject_Z_2k. change (inject_Z (- (1))) with (-1 # 1).
    field.
Qed.

Definition line_n (g : geom) (a0 : ax) (b0 : bool) : Q := sgn b0 * shift g + half (comp a0 (dimv g)).
Definition lat_y (g : geom) (a1 : ax) (b1 : bool) (r : Z) : Z := lattice_coord b1 (pix_y g r) (ny g) (comp a1 (dimv g)).
Definition lat_x (g : geom) (a2 : ax) (b2 : bool) (c : Z) : Z := lattice_coord b2 (pix_x g c) (nx g) (comp a2 (dimv g)).

(* THEOREM (every axis-permuting rotation = signed permutation matrix, ANY shift, width, profile; volume shapes with
   ny = n_(a1) and nx = n_(a2) modulo 2, e.g. every cubic volume, every shape under a rotation that keeps or flips axes):
   each entry of the row of slice pixel (r, c) is  profile(signed distance along the rotated normal a0) * norm  on the voxel
   line {pt : pt_(a1) = lat_y, pt_(a2) = lat_x} through the rotated pixel position, and 0 on every other voxel. *)
Theorem row_sperm g r c a0 a1 a2 b0 b1 b2 :
  is_perm a0 a1 a2 -> rot g = sperm_mat a0 a1 a2 b0 b1 b2 -> Proper (Qeq ==> Qeq) (prof g) ->
  Z.even (ny g) = Z.even (comp a1 (dimv g)) -> Z.even (nx g) = Z.even (comp a2 (dimv g)) ->
  exists a, a == line_n g a0 b0 /\
  forall pt w, In (pt, w) (row g r c) ->
    w == (if ((comp a1 pt =? lat_y g a1 b1 r) && (comp a2 pt =? lat_x g a2 b2 c))%Z
          then prof g (sgn b0 * (a - inject_Z (comp a0 pt))) else 0)
         * (fraction_in_view g (pixel_rot g r c) / (raw_sum g (pixel_rot g r c) + eps)).
Proof.
  intros Hp Hrot Hprop Py Px.
  destruct (pixel_rot_sperm g r c a0 a1 a2 b0 b1 b2 Hp Hrot) as [E0 [E1 E2]].
  rewrite (lattice_coord_spec b1 _ _ _ Py) in E1. rewrite (lattice_coord_spec b2 _ _ _ Px) in E2.
  exists (comp a0 (pixel_rot g r c)). split; [exact E0|].
  intros pt w Hin. unfold row in Hin. apply in_map_iff in Hin.
  destruct Hin as [e [Ee He]]. destruct (coalesced_spec _ _ _ He) as [Ew _].
  destruct e as [pt' w0]. cbn [fst snd] in *. inversion Ee; subst pt' w. rewrite Ew.
  fold (raw_sum g (pixel_rot g r c)).
  rewrite (weight_sperm g a0 a1 a2 b0 b1 b2 (pixel_rot g r c) pt _ _ Hp Hrot Hprop E1 E2). reflexivity.
Qed.

(* ---------------------------------------------------------------- the whole voxel line is among the candidates *)
Lemma Qfloor_plus_int' (x : Q) (n : Z) : Qfloor (x + inject_Z n) = (Qfloor x + n)%Z.
Proof. apply Qfloor_plus_int. Qed.

Lemma pt_ext_perm a0 a1 a2 (p q : pt3) : is_perm a0 a1 a2 ->
  comp a0 p = comp a0 q -> comp a1 p = comp a1 q -> comp a2 p = comp a2 q -> p = q.
Proof.
  intros Hp. destruct p as [[pz py] px], q as [[qz qy] qx].
  perm_cases a0 a1 a2 Hp; cbn [comp]; intros; subst; reflexivity.
Qed.

(* offset along one axis *)
Definition unit_or_zero (a : ax) (one : bool) : pt3 :=
  if one then match a with AZ => (1, 0, 0) | AY => (0, 1, 0) | AX => (0, 0, 1) end%Z else (0, 0, 0)%Z.

Lemma unit_or_zero_In a one : In (unit_or_zero a one) offsets.
Proof. destruct a, one; cbn; tauto. Qed.

Lemma comp_unit_same a one : comp a (unit_or_zero a one) = if one then 1%Z else 0%Z.
Proof. destruct a, one; reflexivity. Qed.

Lemma comp_unit_other a a' one : a' <> a -> comp a' (unit_or_zero a one) = 0%Z.
Proof. intros H. destruct a, a', one; try reflexivity; congruence. Qed.

Lemma sgn_int b (k : Z) : sgn b * inject_Z k == inject_Z ((if b then 1 else -1) * k).
Proof. rewrite inject_Z_mult. destruct b; reflexivity. Qed.

Lemma cands_sperm_line g a0 a1 a2 b0 b1 b2 pr u1 u2 pt :
  is_perm a0 a1 a2 -> rot g = sperm_mat a0 a1 a2 b0 b1 b2 -> (0 <= width g)%Z ->
  comp a1 pr == inject_Z u1 -> comp a2 pr == inject_Z u2 ->
  comp a1 pt = u1 -> comp a2 pt = u2 ->
  (Qfloor (comp a0 pr) - width g <= comp a0 pt <= Qfloor (comp a0 pr) + width g + 1)%Z ->
  In pt (cands g pr).
Proof.
  intros Hp Hrot Hw H1 H2 P1 P2 Hz. unfold cands. rewrite Hrot. apply in_flat_map.
  pose proof Hp as [N01 [N02 N12]].
  set (M := sperm_mat a0 a1 a2 b0 b1 b2).
  (* the three components of a candidate for ray step k and offset (a0, one) *)
  assert (C : forall k one,
     comp a0 (vfloor (vadd (vadd pr (mv M (inject_Z k, 0, 0))) (vofz (unit_or_zero a0 one))))
       = (Qfloor (comp a0 pr) + (if b0 then 1 else -1) * k + (if one then 1 else 0))%Z
     /\ comp a1 (vfloor (vadd (vadd pr (mv M (inject_Z k, 0, 0))) (vofz (unit_or_zero a0 one)))) = u1
     /\ comp a2 (vfloor (vadd (vadd pr (mv M (inject_Z k, 0, 0))) (vofz (unit_or_zero a0 one)))) = u2).
  { intros k one. destruct (mv_sperm a0 a1 a2 b0 b1 b2 (inject_Z k, 0, 0) Hp) as [E0 [E1 E2]]. fold M in E0, E1, E2.
    cbn [comp] in E0, E1, E2.
    rewrite !comp_vfloor, !comp_vadd, !comp_vofz.
    rewrite comp_unit_same, (comp_unit_other a0 a1 one), (comp_unit_other a0 a2 one) by congruence.
    repeat split.
    - rewrite (Qfloor_comp _ (comp a0 pr + inject_Z ((if b0 then 1 else -1) * k + (if one then 1 else 0)))).
      + rewrite Qfloor_plus_int. lia.
      + rewrite E0, sgn_int, inject_Z_plus. ring.
    - rewrite (Qfloor_comp _ (inject_Z u1)); [apply Qfloor_Z|]. rewrite E1, H1. change (inject_Z 0) with 0. ring.
    - rewrite (Qfloor_comp _ (inject_Z u2)); [apply Qfloor_Z|]. rewrite E2, H2. change (inject_Z 0) with 0. ring. }
  destruct (Z_le_gt_dec (comp a0 pt) (Qfloor (comp a0 pr) + width g)) as [Hle|Hgt].
  - exists (unit_or_zero a0 false). split; [apply unit_or_zero_In|]. apply in_map_iff.
    exists ((if b0 then 1 else -1) * (comp a0 pt - Qfloor (comp a0 pr)))%Z. split.
    + destruct (C ((if b0 then 1 else -1) * (comp a0 pt - Qfloor (comp a0 pr)))%Z false) as [C0 [C1 C2]].
      apply (pt_ext_perm a0 a1 a2 _ _ Hp); [rewrite C0|rewrite C1|rewrite C2]; try congruence.
      destruct b0; lia.
    + apply ray_ks_In; [exact Hw|]. destruct b0; lia.
  - exists (unit_or_zero a0 true). split; [apply unit_or_zero_In|]. apply in_map_iff.
    exists ((if b0 then 1 else -1) * width g)%Z. split.
    + destruct (C ((if b0 then 1 else -1) * width g)%Z true) as [C0 [C1 C2]].
      apply (pt_ext_perm a0 a1 a2 _ _ Hp); [rewrite C0|rewrite C1|rewrite C2]; try congruence.
      destruct b0; lia.
    + apply ray_ks_In; [exact Hw|]. destruct b0; lia.
Qed.

(* every in-volume voxel of the line within the candidate window has an entry in the row *)
Lemma row_sperm_complete g r c a0 a1 a2 b0 b1 b2 pt :
  is_perm a0 a1 a2 -> rot g = sperm_mat a0 a1 a2 b0 b1 b2 -> (0 <= width g)%Z ->
  Z.even (ny g) = Z.even (comp a1 (dimv g)) -> Z.even (nx g) = Z.even (comp a2 (dimv g)) ->
  inside g pt = true -> comp a1 pt = lat_y g a1 b1 r -> comp a2 pt = lat_x g a2 b2 c ->
  (Qfloor (comp a0 (pixel_rot g r c)) - width g <= comp a0 pt <= Qfloor (comp a0 (pixel_rot g r c)) + width g + 1)%Z ->
  exists w, In (pt, w) (row g r c).
Proof.
  intros Hp Hrot Hw Py Px Hin P1 P2 Hz.
  destruct (pixel_rot_sperm g r c a0 a1 a2 b0 b1 b2 Hp Hrot) as [E0 [E1 E2]].
  rewrite (lattice_coord_spec b1 _ _ _ Py) in E1. rewrite (lattice_coord_spec b2 _ _ _ Px) in E2.
  assert (Hc : In pt (cands g (pixel_rot g r c))).
  { apply (cands_sperm_line g a0 a1 a2 b0 b1 b2 _ _ _ pt Hp Hrot Hw E1 E2 P1 P2 Hz). }
  assert (Hd : In pt (dedup (filter (inside g) (cands g (pixel_rot g r c))))).
  { apply dedup_In. apply filter_In. split; assumption. }
  unfold row, coalesced. eexists. apply in_map_iff. eexists (_, _). split; [reflexivity|].
  apply in_map_iff. exists pt. split; [reflexivity|exact Hd].
Qed.

(* THEOREM (any signed permutation rotation, rectangular profile of half-width h <= width): every in-volume voxel of the line
   whose distance along the normal is at most h has an entry, and all of them carry the same weight *)
Theorem rect_sperm_taps g r c a0 a1 a2 b0 b1 b2 h :
  is_perm a0 a1 a2 -> rot g = sperm_mat a0 a1 a2 b0 b1 b2 -> prof g = rect h -> 0 <= h -> h <= inject_Z (width g) ->
  Z.even (ny g) = Z.even (comp a1 (dimv g)) -> Z.even (nx g) = Z.even (comp a2 (dimv g)) ->
  forall pt, inside g pt = true -> comp a1 pt = lat_y g a1 b1 r -> comp a2 pt = lat_x g a2 b2 c ->
  Qabs (line_n g a0 b0 - inject_Z (comp a0 pt)) <= h ->
  exists w, In (pt, w) (row g r c)
            /\ w == fraction_in_view g (pixel_rot g r c) / (raw_sum g (pixel_rot g r c) + eps).
Proof.
  intros Hp Hrot Hprof Hh0 Hhw Py Px pt Hin P1 P2 Hd.
  assert (Hw : (0 <= width g)%Z).
  { assert (L : inject_Z 0 <= inject_Z (width g)) by (change (inject_Z 0) with 0; lra). rewrite <- Zle_Qle in L. exact L. }
  assert (Hprop : Proper (Qeq ==> Qeq) (prof g)) by (rewrite Hprof; apply rect_comp).
  destruct (pixel_rot_sperm g r c a0 a1 a2 b0 b1 b2 Hp Hrot) as [E0 _]. fold (line_n g a0 b0) in E0.
  destruct (row_sperm_complete g r c a0 a1 a2 b0 b1 b2 pt Hp Hrot Hw Py Px Hin P1 P2) as [w Hwin].
  { apply (support_in_window _ h); [exact Hhw|]. rewrite E0. exact Hd. }
  exists w. split; [exact Hwin|].
  destruct (row_sperm g r c a0 a1 a2 b0 b1 b2 Hp Hrot Hprop Py Px) as [a [Ha Hall]].
  rewrite (Hall _ _ Hwin). rewrite P1, P2, !Z.eqb_refl. cbn [andb]. rewrite Hprof. unfold rect.
  assert (E : Qle_bool (Qabs (sgn b0 * (a - inject_Z (comp a0 pt)))) h = true).
  { apply Qle_bool_iff. rewrite Qabs_sgn_mult, Ha. exact Hd. }
  rewrite E. ring.
Qed.
