From MrVerif Require Import Base.Prelude Model.ZeroPad Model.Fourier.

Lemma mod_mul_mod N a b : N <> 0 -> ((a mod N) * (b mod N)) mod N = (a * b) mod N.
Proof. intros HN. rewrite <- Z.mul_mod by exact HN. reflexivity. Qed.

(* centred DFT: the shifts make both the frequency and the position index count from the centre N//2,
   for every N >= 1 of either parity *)
Theorem fft_shift_convention N k' r : 0 < N ->
  fft_shifted_exp N k' r = ((k' - N / 2) * (r - N / 2)) mod N.
Proof.
  intros HN. unfold fft_shifted_exp, dft_exp, fftshift_src, ifftshift_dst.
  apply mod_mul_mod. lia.
Qed.

Theorem ifft_shift_convention N r' k' : 0 < N ->
  ifft_shifted_exp N r' k' = ((r' - N / 2) * (k' - N / 2)) mod N.
Proof.
  intros HN. unfold ifft_shifted_exp, dft_exp, fftshift_src, ifftshift_dst.
  apply mod_mul_mod. lia.
Qed.

(* the whole FFT path: the sample at integer frequency k has phase exponent k * (r - n//2) (mod N_enc),
   i.e. exp(-2 pi i k (r - r_c) / N_enc) with r_c = n//2, for all recon/encoding sizes of either parity *)
Theorem fourier_entry_spec n N k r e : 0 < n -> 0 < N ->
  fourier_entry n N k r = Some e -> e = (k * (r - n / 2)) mod N /\ 0 <= r < n /\ - (N / 2) <= k < N - N / 2.
Proof.
  intros Hn HN. unfold fourier_entry, fft_entry.
  destruct ((0 <=? r) && (r <? n) && (0 <=? r + left_pad n N) && (r + left_pad n N <? N) &&
            (0 <=? k + N / 2) && (k + N / 2 <? N)) eqn:E; intros H; [|discriminate].
  injection H as <-. rewrite fft_shift_convention by exact HN. unfold left_pad.
  split; [|lia]. f_equal. lia.
Qed.

(* without cropping (n <= N) every image sample contributes to every in-range frequency *)
Theorem fourier_entry_total n N k r : 0 < n <= N -> 0 <= r < n -> - (N / 2) <= k < N - N / 2 ->
  fourier_entry n N k r = Some ((k * (r - n / 2)) mod N).
Proof.
  intros Hn Hr Hk. unfold fourier_entry, fft_entry, left_pad.
  destruct ((0 <=? r) && (r <? n) && (0 <=? r + (N / 2 - n / 2)) && (r + (N / 2 - n / 2) <? N) &&
            (0 <=? k + N / 2) && (k + N / 2 <? N)) eqn:E; [|exfalso; lia].
  rewrite fft_shift_convention by lia. f_equal. f_equal. lia.
Qed.

(* with cropping (n > N) the sum ranges over the centred window only *)
Theorem fourier_entry_crop n N k r : 0 < N < n -> 0 <= r < n ->
  (fourier_entry n N k r <> None -> n / 2 - N / 2 <= r < n / 2 - N / 2 + N).
Proof.
  intros Hn Hr. unfold fourier_entry, fft_entry, left_pad.
  destruct ((0 <=? r) && (r <? n) && (0 <=? r + (N / 2 - n / 2)) && (r + (N / 2 - n / 2) <? N) &&
            (0 <=? k + N / 2) && (k + N / 2 <? N)) eqn:E; [lia|congruence].
Qed.

(* the coded adjoint (ifftshift/ifftn/fftshift + crop) has, entry by entry, the same exponent as the forward:
   adjoint entry (r,k') = c zeta^(-e) with the e of forward entry (k',r); in particular it is the conjugate transpose *)
Theorem fft_adjoint_entry n N r k' : 0 < n -> 0 < N -> ifft_entry n N r k' = fft_entry n N k' r.
Proof.
  intros Hn HN. unfold ifft_entry, fft_entry.
  replace (r - left_pad N n) with (r + left_pad n N) by (unfold left_pad; lia).
  destruct ((0 <=? r) && (r <? n) && (0 <=? r + left_pad n N) && (r + left_pad n N <? N) && (0 <=? k') && (k' <? N)) eqn:E;
    [|reflexivity].
  rewrite fft_shift_convention, ifft_shift_convention by exact HN. f_equal. f_equal. lia.
Qed.

(* the phase does not depend on how the library chose to compute it: the NUFFT path is specified by
   omega = 2 pi k / N_enc on the recon grid centred at n//2, i.e. exponent k * (r - n//2) as well *)
Definition nufft_spec_exp (n N k r : Z) : Z := (k * (r - n / 2)) mod N.
Theorem dispatch_independent n N k r : 0 < n <= N -> 0 <= r < n -> - (N / 2) <= k < N - N / 2 ->
  fourier_entry n N k r = Some (nufft_spec_exp n N k r).
Proof. exact (fourier_entry_total n N k r). Qed.

(* ---------- N-D: per-axis statements lift to any number of transformed axes, in any order ---------- *)
From Coq Require Import Permutation.

(* every axis of an N-D entry obeys the 1-D specification *)
Lemma fftn_entry_spec : forall ns Ns ks rs es,
  Forall (fun n => 0 < n) ns -> Forall (fun N => 0 < N) Ns ->
  fftn_entry ns Ns ks rs = Some es ->
  Forall2 (fun e '(n, N, k, r) => e = ((k - N / 2) * (r + left_pad n N - N / 2)) mod N /\ 0 <= r < n /\ 0 <= k < N)
          es (combine (combine (combine ns Ns) ks) rs).
Proof.
  induction ns as [|n ns IH]; intros [|N Ns] [|k ks] [|r rs] es Hn HN H; cbn [fftn_entry] in H; try discriminate.
  - injection H as <-. constructor.
  - destruct (fft_entry n N k r) as [e|] eqn:E; [|discriminate].
    destruct (fftn_entry ns Ns ks rs) as [es'|] eqn:E'; [|discriminate].
    injection H as <-. inversion Hn as [|? ? Hn0 Hn']; inversion HN as [|? ? HN0 HN']; subst.
    cbn [combine]. constructor; [|apply IH; assumption].
    unfold fft_entry in E.
    destruct ((0 <=? r) && (r <? n) && (0 <=? r + left_pad n N) && (r + left_pad n N <? N) && (0 <=? k) && (k <? N)) eqn:B; [|discriminate].
    injection E as <-. rewrite fft_shift_convention by exact HN0. split; [reflexivity|lia].
Qed.

(* the transform over a set of axes does not depend on the order in which the axes are listed (dim = (-2,-1) vs (-1,-2)
   with correspondingly permuted sizes): the multiset of per-axis phase factors is the same *)
Fixpoint entries (l : list (Z * Z * Z * Z)) : option (list Z) :=
  match l with
  | [] => Some []
  | (n, N, k, r) :: l' => match fft_entry n N k r, entries l' with Some e, Some es => Some (e :: es) | _, _ => None end
  end.

Lemma entries_perm l l' : Permutation l l' ->
  match entries l, entries l' with
  | Some es, Some es' => Permutation es es'
  | None, None => True
  | _, _ => False
  end.
Proof.
  induction 1 as [|[[[n N] k] r] l l' _ IH|[[[n N] k] r] [[[n' N'] k'] r'] l|l l' l'' _ IH1 _ IH2]; cbn [entries].
  - constructor.
  - destruct (fft_entry n N k r); [|destruct (entries l), (entries l'); auto].
    destruct (entries l), (entries l'); auto; try (constructor; exact IH).
  - destruct (fft_entry n N k r), (fft_entry n' N' k' r'), (entries l); auto; try apply perm_swap.
  - destruct (entries l), (entries l'), (entries l''); auto; try contradiction; try (eapply perm_trans; eauto).
Qed.
