(* C20 - proofs about Model/SliceProj.v (all volume shapes, rotations, shifts, widths, profiles unless stated). *)
From MrVerif Require Import Base.Prelude Model.SliceProj.
From Coq Require Import QArith Qround Qminmax Qabs Lqa Setoid Morphisms.
Local Open Scope Q_scope.

(* ---------------------------------------------------------------- sums *)
Lemma qsum_ext {A} (f g : A -> Q) l : (forall a, In a l -> f a == g a) -> qsum (map f l) == qsum (map g l).
Proof.
  induction l as [|a l IH]; intros H; cbn [map qsum]; [reflexivity|].
  rewrite (H a) by (left; reflexivity). rewrite IH by (intros; apply H; right; assumption). reflexivity.
Qed.

Lemma qsum_scale_r {A} (f : A -> Q) c l : qsum (map (fun a => f a * c) l) == qsum (map f l) * c.
Proof. induction l as [|a l IH]; cbn [map qsum]; [ring|]. rewrite IH. ring. Qed.

Lemma qsum_const {A} (c : Q) (l : list A) : qsum (map (fun _ => c) l) == inject_Z (Z.of_nat (length l)) * c.
Proof.
  induction l as [|a l IH]; cbn [map qsum length]; [ring|]. rewrite IH.
  rewrite Nat2Z.inj_succ. unfold Z.succ. rewrite inject_Z_plus. ring.
Qed.

Lemma qsum_nonneg {A} (f : A -> Q) l : (forall a, In a l -> 0 <= f a) -> 0 <= qsum (map f l).
Proof.
  induction l as [|a l IH]; intros H; cbn [map qsum]; [apply Qle_refl|].
  assert (0 <= f a) by (apply H; left; reflexivity).
  assert (0 <= qsum (map f l)) by (apply IH; intros; apply H; right; assumption). lra.
Qed.

Lemma Qdiv_nonneg a b : 0 <= a -> 0 <= b -> 0 <= a / b.
Proof. intros Ha Hb. unfold Qdiv. apply Qmult_le_0_compat; [exact Ha|apply Qinv_le_0_compat; exact Hb]. Qed.

Lemma inject_Z_nonneg j : (0 <= j)%Z -> 0 <= inject_Z j.
Proof. intros H. change 0 with (inject_Z 0). rewrite <- Zle_Qle. exact H. Qed.

(* ---------------------------------------------------------------- points *)
Lemma pt_eqb_eq p q : pt_eqb p q = true <-> p = q.
Proof.
  destruct p as [[a b] c], q as [[d e] f]. unfold pt_eqb. split.
  - intros H. assert (a = d /\ b = e /\ c = f) as [-> [-> ->]] by lia. reflexivity.
  - intros H. inversion H; subst. lia.
Qed.

Lemma dedup_In p l : In p (dedup l) <-> In p l.
Proof.
  induction l as [|a l IH]; cbn [dedup]; [tauto|]. split.
  - intros [->|H]; [left; reflexivity|]. apply filter_In in H. right. apply IH. apply H.
  - intros [->|H]; [left; reflexivity|].
    destruct (pt_eqb a p) eqn:E.
    + left. apply pt_eqb_eq. exact E.
    + right. apply filter_In. split; [apply IH; exact H|]. rewrite E. reflexivity.
Qed.

Lemma dedup_NoDup l : NoDup (dedup l).
Proof.
  induction l as [|a l IH]; cbn [dedup]; constructor.
  - intros H. apply filter_In in H. destruct H as [_ H].
    assert (pt_eqb a a = true) by (apply pt_eqb_eq; reflexivity). rewrite H0 in H. discriminate.
  - apply NoDup_filter. exact IH.
Qed.

(* ---------------------------------------------------------------- weights are non-negative *)
Lemma relu_nonneg x : 0 <= relu x.
Proof. unfold relu. apply Q.le_max_r. Qed.

Lemma weight_nonneg g pr pt : (forall d, 0 <= prof g d) -> 0 <= weight g pr pt.
Proof.
  intros Hp. unfold weight, weight_yx.
  destruct (mv (transpose (rot g)) (vsub pr (vofz pt))) as [[dz dy] dx]. cbn [fst].
  apply Qmult_le_0_compat; [apply Qmult_le_0_compat; apply relu_nonneg|apply Hp].
Qed.

(* coalesce + division by the number of duplicates gives back the weight of the point: the weight is a function of
   the point, so duplicates carry equal values *)
Lemma coalesced_spec g pr e : In e (coalesced g pr) ->
  snd e == weight g pr (fst e) /\ inside g (fst e) = true /\ In (fst e) (cands g pr).
Proof.
  unfold coalesced. intros H. apply in_map_iff in H. destruct H as [pt [<- Hpt]]. cbn [fst snd].
  apply (proj1 (dedup_In _ _)) in Hpt. pose proof Hpt as Hins. apply filter_In in Hins. destruct Hins as [Hc Hi].
  split; [|split; assumption].
  set (dup := filter (pt_eqb pt) (filter (inside g) (cands g pr))).
  assert (Hall : forall q, In q dup -> q = pt).
  { intros q Hq. apply filter_In in Hq. destruct Hq as [_ Hq]. apply pt_eqb_eq in Hq. symmetry. exact Hq. }
  assert (Hin : In pt dup).
  { apply filter_In. split; [exact Hpt|apply pt_eqb_eq; reflexivity]. }
  rewrite (qsum_ext _ (fun _ => weight g pr pt)) by (intros q Hq; rewrite (Hall q Hq); reflexivity).
  rewrite qsum_const.
  assert (Hlen : ~ inject_Z (Z.of_nat (length dup)) == 0).
  { destruct dup as [|q dup']; [destruct Hin|]. cbn [length]. intros E. unfold Qeq in E. cbn in E. lia. }
  field. exact Hlen.
Qed.

Definition raw_sum (g : geom) (pr : vec3) : Q := qsum (map snd (coalesced g pr)).

Lemma raw_sum_nonneg g pr : (forall d, 0 <= prof g d) -> 0 <= raw_sum g pr.
Proof.
  intros Hp. unfold raw_sum. apply qsum_nonneg. intros e He.
  destruct (coalesced_spec g pr e He) as [E _]. rewrite E. apply weight_nonneg. exact Hp.
Qed.

Lemma count_nonneg {A} (f : A -> bool) l : (0 <= count f l)%Z.
Proof. unfold count. lia. Qed.

Lemma fraction_in_view_nonneg g pr : 0 <= fraction_in_view g pr.
Proof. unfold fraction_in_view. apply Qdiv_nonneg; apply inject_Z_nonneg; apply count_nonneg. Qed.

Lemma filter_length_le {A} (f : A -> bool) l : (length (filter f l) <= length l)%nat.
Proof. induction l as [|a l IH]; cbn; [lia|]. destruct (f a); cbn; lia. Qed.

Lemma count_and_le {A} (f h : A -> bool) l : (count (fun a => f a && h a) l <= count h l)%Z.
Proof.
  unfold count. apply inj_le. induction l as [|a l IH]; cbn; [lia|].
  destruct (f a), (h a); cbn; lia.
Qed.

Lemma fraction_in_view_le1 g pr : fraction_in_view g pr <= 1.
Proof.
  unfold fraction_in_view.
  set (a := count _ _). set (b := count (fun pt => qpos (weight g pr pt)) _).
  assert (Hab : (a <= b)%Z) by apply count_and_le.
  assert (Ha : (0 <= a)%Z) by apply count_nonneg.
  destruct (Z.eq_dec b 0) as [E|NE].
  - rewrite E. unfold Qdiv. change (/ inject_Z 0) with 0. lra.
  - assert (0 < inject_Z b) by (change 0 with (inject_Z 0); rewrite <- Zlt_Qlt; lia).
    apply Qle_shift_div_r; [assumption|]. rewrite Qmult_1_l. rewrite <- Zle_Qle. exact Hab.
Qed.

(* THEOREM: all matrix weights are >= 0 for a non-negative profile *)
Theorem row_nonneg g r c : (forall d, 0 <= prof g d) -> forall e, In e (row g r c) -> 0 <= snd e.
Proof.
  intros Hp e He. unfold row in He. apply in_map_iff in He. destruct He as [e' [<- He']]. cbn [snd].
  destruct (coalesced_spec _ _ _ He') as [E _]. rewrite E.
  apply Qmult_le_0_compat; [apply weight_nonneg; exact Hp|].
  apply Qdiv_nonneg; [apply fraction_in_view_nonneg|].
  pose proof (raw_sum_nonneg g (pixel_rot g r c) Hp) as Hs. unfold raw_sum in Hs. unfold eps. lra.
Qed.

(* THEOREM: every row sums to fraction_in_view * s / (s + 1e-6), s the sum of the raw weights in the volume *)
Definition row_sum (g : geom) (r c : Z) : Q := qsum (map snd (row g r c)).

Theorem row_sum_spec g r c :
  row_sum g r c == fraction_in_view g (pixel_rot g r c) * (raw_sum g (pixel_rot g r c) / (raw_sum g (pixel_rot g r c) + eps)).
Proof.
  unfold row_sum, row. rewrite map_map. cbn [snd]. rewrite qsum_scale_r. fold (raw_sum g (pixel_rot g r c)).
  unfold Qdiv. ring.
Qed.

Theorem row_sum_bounds g r c : (forall d, 0 <= prof g d) -> 0 <= row_sum g r c <= fraction_in_view g (pixel_rot g r c).
Proof.
  intros Hp. rewrite row_sum_spec. set (pr := pixel_rot g r c).
  pose proof (raw_sum_nonneg g pr Hp) as Hs. pose proof (fraction_in_view_nonneg g pr) as Hf.
  assert (He : 0 < raw_sum g pr + eps) by (unfold eps; lra).
  assert (H0 : 0 <= raw_sum g pr / (raw_sum g pr + eps)) by (apply Qdiv_nonneg; lra).
  assert (H1 : raw_sum g pr / (raw_sum g pr + eps) <= 1).
  { apply Qle_shift_div_r; [exact He|]. unfold eps. lra. }
  split; [apply Qmult_le_0_compat; assumption|].
  set (f := fraction_in_view g pr) in *. set (q := raw_sum g pr / (raw_sum g pr + eps)) in *. nra.
Qed.

(* a constant volume: the slice value is the constant times the row sum *)
Theorem project_const g v r c : project g (fun _ => v) r c == v * row_sum g r c.
Proof.
  unfold project, row_sum.
  transitivity (qsum (map (fun e : pt3 * Q => snd e * v) (row g r c))).
  - apply qsum_ext. intros; reflexivity.
  - rewrite (qsum_scale_r (@snd pt3 Q) v (row g r c)). ring.
Qed.

(* whole support inside the volume: the fraction in view is one *)
Definition all_in_view (g : geom) (pr : vec3) : Prop :=
  forall pt, In pt (cands g pr) -> qpos (weight g pr pt) = true -> inside g pt = true.

Lemma fraction_in_view_inside g pr : all_in_view g pr ->
  (0 < count (fun pt => qpos (weight g pr pt)) (cands g pr))%Z -> fraction_in_view g pr == 1.
Proof.
  intros Hall Hpos. unfold fraction_in_view.
  assert (E : count (fun pt => inside g pt && qpos (weight g pr pt)) (cands g pr)
              = count (fun pt => qpos (weight g pr pt)) (cands g pr)).
  { unfold count. f_equal. f_equal. apply filter_ext_in. intros pt Hpt.
    destruct (qpos (weight g pr pt)) eqn:Eq; [rewrite (Hall pt Hpt Eq); reflexivity|apply andb_false_r]. }
  rewrite E. set (b := count _ _) in *.
  assert (~ inject_Z b == 0) by (intros Eb; unfold Qeq in Eb; cbn in Eb; lia).
  field. assumption.
Qed.

(* THEOREM: inside the volume every row sums to s / (s + 1e-6), i.e. to one up to the regulariser: within 1e-6 when the raw
   weights sum to at least one (always the case for a profile with value 1 at the nearest voxel distance) *)
Theorem row_sum_inside g r c : (forall d, 0 <= prof g d) ->
  all_in_view g (pixel_rot g r c) -> (0 < npos g r c)%Z ->
  row_sum g r c * (raw_sum g (pixel_rot g r c) + eps) == raw_sum g (pixel_rot g r c)
  /\ row_sum g r c <= 1
  /\ (1 <= raw_sum g (pixel_rot g r c) -> 1 - eps <= row_sum g r c).
Proof.
  intros Hp Hall Hpos. unfold npos in Hpos. set (pr := pixel_rot g r c) in *.
  pose proof (raw_sum_nonneg g pr Hp) as Hs.
  assert (He : 0 < raw_sum g pr + eps) by (unfold eps; lra).
  assert (E : row_sum g r c == raw_sum g pr / (raw_sum g pr + eps)).
  { rewrite row_sum_spec. fold pr. rewrite (fraction_in_view_inside g pr Hall Hpos). ring. }
  split; [|split].
  - rewrite E. field. lra.
  - rewrite E. apply Qle_shift_div_r; [exact He|]. unfold eps. lra.
  - intros H1. rewrite E. apply Qle_shift_div_l; [exact He|]. unfold eps in *. nra.
Qed.


(* ---------------------------------------------------------------- identity rotation: profile-weighted slicing *)
Definition I3 : mat3 := ((1, 0, 0), (0, 1, 0), (0, 0, 1)).

Global Instance relu_comp : Proper (Qeq ==> Qeq) relu.
Proof. intros a b H. unfold relu. rewrite H. reflexivity. Qed.

Global Instance Qabs_comp : Proper (Qeq ==> Qeq) Qabs.
Proof. intros a b H. apply Qabs_wd. exact H. Qed.

Lemma inject_Z_sub a b : inject_Z (a - b) == inject_Z a - inject_Z b.
Proof. unfold Z.sub. rewrite inject_Z_plus, inject_Z_opp. reflexivity. Qed.

(* in-plane interpolation weight for a pixel position on the lattice: 1 on the lattice point, 0 on every other *)
Lemma relu_int_dist (b : Q) (y0 y : Z) : b == inject_Z y0 ->
  relu (1 - Qabs (b - inject_Z y)) == if (y =? y0)%Z then 1 else 0.
Proof.
  intros Hb.
  assert (E : b - inject_Z y == inject_Z (y0 - y)) by (rewrite Hb, inject_Z_sub; reflexivity).
  rewrite E. change (Qabs (inject_Z (y0 - y))) with (inject_Z (Z.abs (y0 - y))).
  unfold relu. destruct (Z.eqb_spec y y0) as [->|NE].
  - rewrite Z.sub_diag. cbn [Z.abs]. apply Q.max_l. change (inject_Z 0) with 0. lra.
  - assert (H1 : 1 <= inject_Z (Z.abs (y0 - y))).
    { change 1 with (inject_Z 1). rewrite <- Zle_Qle. lia. }
    apply Q.max_r. lra.
Qed.

(* the weight of a voxel under the identity rotation when the in-plane position is the lattice point (y0, x0) *)
Lemma weight_identity g a b c0 y0 x0 z y x :
  rot g = I3 -> Proper (Qeq ==> Qeq) (prof g) -> b == inject_Z y0 -> c0 == inject_Z x0 ->
  weight g (a, b, c0) (z, y, x) == if ((y =? y0) && (x =? x0))%Z then prof g (a - inject_Z z) else 0.
Proof.
  intros Hrot Hprop Hb Hc. unfold weight. rewrite Hrot.
  cbn [I3 transpose mv vsub vofz dot3 fst snd weight_yx].
  setoid_replace (1 * (a - inject_Z z) + 0 * (b - inject_Z y) + 0 * (c0 - inject_Z x)) with (a - inject_Z z) by ring.
  setoid_replace (0 * (a - inject_Z z) + 1 * (b - inject_Z y) + 0 * (c0 - inject_Z x)) with (b - inject_Z y) by ring.
  setoid_replace (0 * (a - inject_Z z) + 0 * (b - inject_Z y) + 1 * (c0 - inject_Z x)) with (c0 - inject_Z x) by ring.
  rewrite (relu_int_dist b y0 y Hb), (relu_int_dist c0 x0 x Hc).
  destruct (y =? y0)%Z, (x =? x0)%Z; cbn [andb]; ring.
Qed.

(* the rotated pixel position under the identity rotation: on the lattice in the plane, at nz/2 - 1/2 + shift along z *)
Definition line_z (g : geom) : Q := half (nz g) + shift g.
Definition pix_y (g : geom) (r : Z) : Z := ((ny g - max_shape g) / 2 + r)%Z.
Definition pix_x (g : geom) (c : Z) : Z := ((nx g - max_shape g) / 2 + c)%Z.

Lemma pixel_rot_identity g r c : rot g = I3 ->
  exists a b c0, pixel_rot g r c = (a, b, c0) /\ a == line_z g /\ b == inject_Z (pix_y g r) /\ c0 == inject_Z (pix_x g c).
Proof.
  intros Hrot. unfold pixel_rot, pixel, centre. rewrite Hrot. cbn [I3 mv vsub vadd dot3].
  eexists _, _, _. split; [reflexivity|]. unfold line_z, pix_y, pix_x. repeat split; ring.
Qed.

(* THEOREM (identity rotation, any shift, any volume shape, any width, any profile): every entry of the row of slice pixel
   (r, c) is  profile(z_line - z) * fraction_in_view / (s + 1e-6)  for voxels (z, y_r, x_c) on the line through the pixel
   along z, and 0 for every other voxel: the operator is profile-weighted slicing. *)
Theorem row_identity g r c : rot g = I3 -> Proper (Qeq ==> Qeq) (prof g) ->
  exists a, a == line_z g /\
  forall z y x w, In ((z, y, x), w) (row g r c) ->
    w == (if ((y =? pix_y g r) && (x =? pix_x g c))%Z then prof g (a - inject_Z z) else 0)
         * (fraction_in_view g (pixel_rot g r c) / (raw_sum g (pixel_rot g r c) + eps)).
Proof.
  intros Hrot Hprop. destruct (pixel_rot_identity g r c Hrot) as [a [b [c0 [Epr [Ha [Hb Hc]]]]]].
  exists a. split; [exact Ha|]. intros z y x w Hin. unfold row in Hin. apply in_map_iff in Hin.
  destruct Hin as [e [Ee He]]. destruct (coalesced_spec _ _ _ He) as [Ew _].
  destruct e as [pt w0]. cbn [fst snd] in *. inversion Ee; subst pt w. rewrite Ew.
  fold (raw_sum g (pixel_rot g r c)). rewrite Epr at 1.
  rewrite (weight_identity g a b c0 (pix_y g r) (pix_x g c) z y x Hrot Hprop Hb Hc). reflexivity.
Qed.

(* rectangular profile: Proper, non-negative, and the selected taps all carry the same weight *)
Global Instance rect_comp h : Proper (Qeq ==> Qeq) (rect h).
Proof. intros a b H. unfold rect. rewrite H. reflexivity. Qed.

Lemma rect_nonneg h d : 0 <= rect h d.
Proof. unfold rect. destruct (Qle_bool (Qabs d) h); lra. Qed.

Lemma rect_spec h d : rect h d == if Qle_bool (Qabs d) h then 1 else 0.
Proof. reflexivity. Qed.

(* the candidate window along z reaches every voxel within the profile's half-width when width >= half-width *)
Lemma support_in_window (pz h : Q) (w z : Z) : h <= inject_Z w -> Qabs (pz - inject_Z z) <= h ->
  (Qfloor pz - w <= z <= Qfloor pz + w + 1)%Z.
Proof.
  intros Hw Hd. apply Qabs_Qle_condition in Hd. destruct Hd as [H1 H2].
  pose proof (Qfloor_le pz) as F1. pose proof (Qlt_floor pz) as F2. rewrite inject_Z_plus in F2. change (inject_Z 1) with 1 in F2.
  split.
  - assert (L : inject_Z (Qfloor pz - w) < inject_Z (z + 1)).
    { rewrite inject_Z_sub, inject_Z_plus. change (inject_Z 1) with 1. lra. }
    rewrite <- Zlt_Qlt in L. lia.
  - assert (L : inject_Z z < inject_Z (Qfloor pz + w + 1)).
    { rewrite !inject_Z_plus. change (inject_Z 1) with 1. lra. }
    rewrite <- Zlt_Qlt in L. lia.
Qed.

(* ---------------------------------------------------------------- identity rotation: the whole support is present *)

Lemma Qfloor_plus_int (x : Q) (n : Z) : Qfloor (x + inject_Z n) = (Qfloor x + n)%Z.
Proof.
  pose proof (Qfloor_le x) as A1. pose proof (Qlt_floor x) as A2.
  pose proof (Qfloor_le (x + inject_Z n)) as B1. pose proof (Qlt_floor (x + inject_Z n)) as B2.
  rewrite inject_Z_plus in A2, B2. change (inject_Z 1) with 1 in *.
  assert (L1 : inject_Z (Qfloor (x + inject_Z n)) < inject_Z (Qfloor x + n + 1)).
  { rewrite !inject_Z_plus. change (inject_Z 1) with 1. lra. }
  assert (L2 : inject_Z (Qfloor x + n) < inject_Z (Qfloor (x + inject_Z n) + 1)).
  { rewrite !inject_Z_plus. change (inject_Z 1) with 1. lra. }
  rewrite <- Zlt_Qlt in L1, L2. lia.
Qed.

Lemma ray_ks_In w k : (0 <= w)%Z -> In k (ray_ks w) <-> (- w <= k <= w)%Z.
Proof.
  intros Hw. unfold ray_ks. rewrite in_map_iff. split.
  - intros [i [<- Hi]]. apply zrange_In in Hi. lia.
  - intros H. exists (k + w)%Z. split; [lia|]. apply zrange_In. lia.
Qed.

(* under the identity rotation the candidates contain the whole window of voxels on the line through the pixel *)
Lemma cands_identity_line g a b c0 y0 x0 z : rot g = I3 -> (0 <= width g)%Z ->
  b == inject_Z y0 -> c0 == inject_Z x0 ->
  (Qfloor a - width g <= z <= Qfloor a + width g + 1)%Z ->
  In (z, y0, x0) (cands g (a, b, c0)).
Proof.
  intros Hrot Hw Hb Hc Hz. unfold cands. rewrite Hrot. apply in_flat_map.
  assert (Ey : forall k : Z, Qfloor (b + (0 * inject_Z k + 1 * 0 + 0 * 0) + inject_Z 0) = y0).
  { intros k. rewrite (Qfloor_comp _ (inject_Z y0)); [apply Qfloor_Z|]. rewrite Hb. change (inject_Z 0) with 0. ring. }
  assert (Ex : forall k : Z, Qfloor (c0 + (0 * inject_Z k + 0 * 0 + 1 * 0) + inject_Z 0) = x0).
  { intros k. rewrite (Qfloor_comp _ (inject_Z x0)); [apply Qfloor_Z|]. rewrite Hc. change (inject_Z 0) with 0. ring. }
  assert (Ez : forall k oz : Z, Qfloor (a + (1 * inject_Z k + 0 * 0 + 0 * 0) + inject_Z oz) = (Qfloor a + k + oz)%Z).
  { intros k oz. rewrite (Qfloor_comp _ (a + inject_Z (k + oz))).
    - rewrite Qfloor_plus_int. lia.
    - rewrite inject_Z_plus. ring. }
  destruct (Z_le_gt_dec z (Qfloor a + width g)) as [Hle|Hgt].
  - exists (0, 0, 0)%Z. split; [cbn; tauto|]. apply in_map_iff. exists (z - Qfloor a)%Z. split.
    + cbn [I3 mv dot3 vadd vofz vfloor]. rewrite Ey, Ex, Ez. f_equal. f_equal. lia.
    + apply ray_ks_In; lia.
  - exists (1, 0, 0)%Z. split; [cbn; tauto|]. apply in_map_iff. exists (width g). split.
    + cbn [I3 mv dot3 vadd vofz vfloor]. rewrite Ey, Ex, Ez. f_equal. f_equal. lia.
    + apply ray_ks_In; lia.
Qed.

(* hence every in-volume voxel of that window has an entry in the row (with the weight given by row_identity) *)
Lemma row_identity_complete g r c z : rot g = I3 -> (0 <= width g)%Z ->
  inside g (z, pix_y g r, pix_x g c) = true ->
  (forall a, a == line_z g -> (Qfloor a - width g <= z <= Qfloor a + width g + 1)%Z) ->
  exists w, In ((z, pix_y g r, pix_x g c), w) (row g r c).
Proof.
  intros Hrot Hw Hin Hz. destruct (pixel_rot_identity g r c Hrot) as [a [b [c0 [Epr [Ha [Hb Hc]]]]]].
  unfold row. rewrite Epr.
  assert (Hc' : In (z, pix_y g r, pix_x g c) (cands g (a, b, c0))).
  { apply (cands_identity_line g a b c0 (pix_y g r) (pix_x g c) z Hrot Hw Hb Hc). apply Hz. exact Ha. }
  assert (Hd : In (z, pix_y g r, pix_x g c) (dedup (filter (inside g) (cands g (a, b, c0))))).
  { apply dedup_In. apply filter_In. split; assumption. }
  unfold coalesced. eexists. apply in_map_iff. eexists (_, _). split; [reflexivity|].
  apply in_map_iff. exists (z, pix_y g r, pix_x g c). split; [reflexivity|exact Hd].
Qed.

(* THEOREM (identity rotation, rectangular profile of half-width h <= width): every in-volume voxel of the column within
   distance h of the slice position has an entry, and all these entries carry the same weight fraction_in_view/(s+1e-6) *)

Theorem rect_identity_taps g r c h : rot g = I3 -> prof g = rect h -> 0 <= h -> h <= inject_Z (width g) ->
  forall z, inside g (z, pix_y g r, pix_x g c) = true -> Qabs (line_z g - inject_Z z) <= h ->
  exists w, In ((z, pix_y g r, pix_x g c), w) (row g r c)
            /\ w == fraction_in_view g (pixel_rot g r c) / (raw_sum g (pixel_rot g r c) + eps).
Proof.
  intros Hrot Hprof Hh0 Hhw z Hin Hd.
  assert (Hw : (0 <= width g)%Z).
  { assert (L : inject_Z 0 <= inject_Z (width g)) by (change (inject_Z 0) with 0; lra). rewrite <- Zle_Qle in L. exact L. }
  assert (Hprop : Proper (Qeq ==> Qeq) (prof g)) by (rewrite Hprof; apply rect_comp).
  destruct (row_identity_complete g r c z Hrot Hw Hin) as [w Hwin].
  { intros a Ha. apply (support_in_window a h); [exact Hhw|]. rewrite Ha. exact Hd. }
  exists w. split; [exact Hwin|].
  destruct (row_identity g r c Hrot Hprop) as [a [Ha Hall]].
  rewrite (Hall _ _ _ _ Hwin). rewrite !Z.eqb_refl. cbn [andb]. rewrite Hprof. unfold rect.
  assert (E : Qle_bool (Qabs (a - inject_Z z)) h = true).
  { apply Qle_bool_iff. rewrite Ha. exact Hd. }
  rewrite E. ring.
Qed.
