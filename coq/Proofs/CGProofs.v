(* C06 - proofs about the conjugate-gradient model (Model/CG.v), part 1:
   vector algebra on zero-padded lists, the residual identity for every linear operator, absence of
   division by zero for definite operators, fixed point at zero residual.
   Everything is proved for an arbitrary field (Section variables + field_theory); no order is used here. *)
From Coq Require Import List Bool Arith Lia Field.
Import ListNotations.
From MrVerif Require Import Model.CG.

Section CGProofs.
  Variable F : Type.
  Variables (f0 f1 : F) (fadd fmul fsub : F -> F -> F) (fopp : F -> F) (fdiv : F -> F -> F) (finv : F -> F).
  Hypothesis Fth : field_theory f0 f1 fadd fmul fsub fopp fdiv finv (@eq F).
  Add Field Ff : Fth.
  Variables feqb fltb : F -> F -> bool.
  Hypothesis feqb_spec : forall a b, feqb a b = true <-> a = b.

  Declare Scope F_scope.
  Delimit Scope F_scope with F.
  Local Open Scope F_scope.
  Notation "0" := f0 : F_scope.
  Notation "1" := f1 : F_scope.
  Infix "+" := fadd : F_scope.
  Infix "*" := fmul : F_scope.
  Infix "-" := fsub : F_scope.
  Infix "/" := fdiv : F_scope.
  Notation "- x" := (fopp x) : F_scope.

  Notation vec := (list F).
  Notation "u +v v" := (vadd F fadd u v) (at level 50, left associativity).
  Notation "u -v v" := (vsub F fsub fopp u v) (at level 50, left associativity).
  Notation "c *v u" := (vscale F fmul c u) (at level 40, left associativity).
  Notation "<< u , v >>" := (dot F f0 fadd fmul u v) (at level 0).

  (* ---------------------------------------------------------------- vectors *)
  Lemma nth_vadd u v i : nth i (u +v v) 0 = nth i u 0 + nth i v 0.
  Proof.
    revert v i. induction u as [|a u IH]; intros v i.
    - cbn. destruct i; ring.
    - destruct v as [|b v]; [cbn; destruct i; ring|].
      destruct i as [|i]; cbn; [reflexivity | apply IH].
  Qed.

  Lemma nth_vsub u v i : nth i (u -v v) 0 = nth i u 0 - nth i v 0.
  Proof.
    revert v i. induction u as [|a u IH]; intros v i.
    - cbn [vsub]. revert i. induction v as [|b v IHv]; intros i; destruct i; cbn; try ring.
      cbn in IHv. rewrite IHv. destruct i; cbn; ring.
    - destruct v as [|b v]; [destruct i; cbn; ring|].
      destruct i as [|i]; cbn; [reflexivity | apply IH].
  Qed.

  Lemma nth_vscale c u i : nth i (c *v u) 0 = c * nth i u 0.
  Proof.
    revert i. induction u as [|a u IH]; intros i; cbn; destruct i; try ring. apply IH.
  Qed.

  Lemma length_vadd u v : length (u +v v) = Nat.max (length u) (length v).
  Proof.
    revert v. induction u as [|a u IH]; intros v; [reflexivity|].
    destruct v as [|b v]; [reflexivity|]. cbn. now rewrite IH.
  Qed.

  Lemma length_vsub u v : length (u -v v) = Nat.max (length u) (length v).
  Proof.
    revert v. induction u as [|a u IH]; intros v; [cbn; now rewrite map_length|].
    destruct v as [|b v]; [reflexivity|]. cbn. now rewrite IH.
  Qed.

  Lemma length_vscale c u : length (c *v u) = length u.
  Proof. apply map_length. Qed.

  Lemma vec_ext (u v : vec) : length u = length v -> (forall i, nth i u 0 = nth i v 0) -> u = v.
  Proof.
    revert v. induction u as [|a u IH]; intros [|b v] Hl Hn; try discriminate; [reflexivity|].
    f_equal; [exact (Hn O)|]. apply IH; [now injection Hl|]. intros i. exact (Hn (S i)).
  Qed.

  Ltac vec_eq := apply vec_ext;
    [ repeat (rewrite ?length_vadd, ?length_vsub, ?length_vscale); lia
    | intros ?i; repeat (rewrite ?nth_vadd, ?nth_vsub, ?nth_vscale); ring ].

  Lemma vsub_vadd_assoc (b y z : vec) : b -v (y +v z) = b -v y -v z.
  Proof. vec_eq. Qed.

  Lemma vsub_as_add (u v : vec) : u -v v = u +v (- (1)) *v v.
  Proof. vec_eq. Qed.

  Lemma vadd_assoc (u v w : vec) : u +v v +v w = u +v (v +v w).
  Proof. vec_eq. Qed.

  (* ---------------------------------------------------------------- inner product *)
  Lemma dot_nil_l u : << [], u >> = 0.
  Proof. reflexivity. Qed.
  Lemma dot_nil_r u : << u, [] >> = 0.
  Proof. destruct u; reflexivity. Qed.

  Lemma dot_comm u v : << u, v >> = << v, u >>.
  Proof.
    revert v. induction u as [|a u IH]; intros [|b v]; cbn; try reflexivity. rewrite IH. ring.
  Qed.

  Lemma dot_vadd_l u v w : << u +v v, w >> = << u, w >> + << v, w >>.
  Proof.
    revert v w. induction u as [|a u IH]; intros v w.
    - cbn [vadd]. rewrite dot_nil_l. ring.
    - destruct v as [|b v]; [cbn [vadd]; rewrite dot_nil_l; ring|].
      destruct w as [|c w]; [cbn; ring|]. cbn. rewrite IH. ring.
  Qed.

  Lemma dot_vscale_l c u w : << c *v u, w >> = c * << u, w >>.
  Proof.
    revert w. induction u as [|a u IH]; intros w; [cbn; ring|].
    destruct w as [|d w]; [cbn; ring|]. cbn. cbn in IH. rewrite IH. ring.
  Qed.

  Lemma dot_vsub_l u v w : << u -v v, w >> = << u, w >> - << v, w >>.
  Proof. rewrite vsub_as_add, dot_vadd_l, dot_vscale_l. ring. Qed.

  Lemma dot_vadd_r w u v : << w, u +v v >> = << w, u >> + << w, v >>.
  Proof. rewrite dot_comm, dot_vadd_l, !(dot_comm w). reflexivity. Qed.
  Lemma dot_vscale_r c w u : << w, c *v u >> = c * << w, u >>.
  Proof. rewrite dot_comm, dot_vscale_l, (dot_comm w). reflexivity. Qed.
  Lemma dot_vsub_r w u v : << w, u -v v >> = << w, u >> - << w, v >>.
  Proof. rewrite dot_comm, dot_vsub_l, !(dot_comm w). reflexivity. Qed.

  Lemma vsub_self_dot u w : << u -v u, w >> = 0.
  Proof. rewrite dot_vsub_l. ring. Qed.

  (* a dense matrix acts linearly (for all lists: missing entries are zeros) *)
  Notation mv M := (matvec F f0 fadd fmul M).
  Lemma matvec_add M u v : mv M (u +v v) = mv M u +v mv M v.
  Proof.
    unfold matvec. induction M as [|row M IH]; [reflexivity|]. cbn [map vadd].
    rewrite IH, dot_vadd_r. reflexivity.
  Qed.
  Lemma matvec_scale M c u : mv M (c *v u) = c *v mv M u.
  Proof.
    unfold matvec. induction M as [|row M IH]; [reflexivity|]. cbn [map vscale].
    cbn [vscale map] in IH. rewrite IH, dot_vscale_r. reflexivity.
  Qed.
  Lemma matvec_length M u : length (mv M u) = length M.
  Proof. apply map_length. Qed.

  (* ---------------------------------------------------------------- the operator *)
  Variable Hop : vec -> vec.
  Hypothesis Hop_add : forall u v, Hop (u +v v) = Hop u +v Hop v.
  Hypothesis Hop_scale : forall c u, Hop (c *v u) = c *v Hop u.
  Variable tol : F.

  Lemma Hop_sub u v : Hop (u -v v) = Hop u -v Hop v.
  Proof. rewrite !vsub_as_add, Hop_add, Hop_scale. reflexivity. Qed.

  Notation step := (cg_step F f0 fadd fmul fsub fopp fdiv feqb fltb Hop tol).
  Notation iter := (cg_iter F f0 fadd fmul fsub fopp fdiv feqb fltb Hop tol).
  Notation init := (cg_init F fsub fopp Hop).
  Notation run := (cg_run F f0 fadd fmul fsub fopp fdiv feqb fltb Hop tol).
  Notation cgm := (cg F f0 fadd fmul fsub fopp fdiv feqb fltb Hop tol).
  Notation sdiv' := (sdiv F f0 fdiv feqb).

  Lemma sdiv_some a b q : sdiv' a b = Some q -> b <> 0 /\ q = a / b.
  Proof.
    unfold sdiv. destruct (feqb b 0) eqn:E; [discriminate|]. intros [= <-]. split; [|reflexivity].
    intros Hb. apply feqb_spec in Hb. congruence.
  Qed.
  Lemma sdiv_nonzero a b : b <> 0 -> sdiv' a b = Some (a / b).
  Proof.
    intros Hb. unfold sdiv. destruct (feqb b 0) eqn:E; [|reflexivity]. apply feqb_spec in E. contradiction.
  Qed.

  (* what one completed iteration does (inversion of cg_step) *)
  Lemma step_next st st' : step st = Next st' ->
    let rr := << sr st, sr st >> in
    rr <> 0 /\
    exists p alpha,
      (match sprev st with
       | None => p = sp st
       | Some rrp => rrp <> 0 /\ p = sr st +v (rr / rrp) *v sp st
       end) /\
      << p, Hop p >> <> 0 /\ alpha = rr / << p, Hop p >> /\
      st' = mkState (sx st +v alpha *v p) (sr st -v alpha *v Hop p) p (Some rr).
  Proof.
    unfold cg_step. intros Hs. cbn zeta.
    destruct (feqb << sr st, sr st >> 0) eqn:E0; [discriminate|]. cbn [orb] in Hs.
    assert (Hrr : << sr st, sr st >> <> 0) by (intros Hc; apply feqb_spec in Hc; congruence).
    split; [exact Hrr|].
    destruct (negb (feqb tol 0) && fltb << sr st, sr st >> (tol * tol)); [discriminate|].
    destruct (sprev st) as [rrp|].
    - destruct (sdiv' << sr st, sr st >> rrp) as [beta|] eqn:Eb; [|discriminate].
      apply sdiv_some in Eb. destruct Eb as [Hrrp ->].
      match type of Hs with context [sdiv' ?a ?d] => destruct (sdiv' a d) as [alpha|] eqn:Ea; [|discriminate] end.
      apply sdiv_some in Ea. destruct Ea as [Hd ->]. injection Hs as <-.
      eexists _, _. repeat split; try reflexivity; assumption.
    - match type of Hs with context [sdiv' ?a ?d] => destruct (sdiv' a d) as [alpha|] eqn:Ea; [|discriminate] end.
      apply sdiv_some in Ea. destruct Ea as [Hd ->]. injection Hs as <-.
      eexists _, _. repeat split; try reflexivity; assumption.
  Qed.

  (* ---------------------------------------------------------------- (1) residual identity, every linear H *)
  Definition Rinv (b : vec) (st : state F) : Prop := sr st = b -v Hop (sx st).

  Lemma step_residual b st st' : Rinv b st -> step st = Next st' -> Rinv b st'.
  Proof.
    intros HR Hs. apply step_next in Hs. destruct Hs as [_ (p & alpha & _ & _ & _ & ->)].
    unfold Rinv in *. cbn [sr sx]. rewrite Hop_add, Hop_scale, HR. symmetry. apply vsub_vadd_assoc.
  Qed.

  Lemma iter_residual b fuel : forall st res h, Rinv b st -> iter fuel st = (res, h) -> Forall (Rinv b) h.
  Proof.
    induction fuel as [|fuel IH]; intros st res h HR Hi; cbn [cg_iter] in Hi.
    - injection Hi as _ <-. constructor.
    - destruct (step st) as [| |st'] eqn:Es; try (injection Hi as _ <-; constructor).
      destruct (iter fuel st') as [res' h'] eqn:Ei. injection Hi as _ <-.
      assert (HR' := step_residual _ _ _ HR Es). constructor; [exact HR'|]. eapply IH; eassumption.
  Qed.

  Lemma init_residual b x0 : Rinv b (init b x0).
  Proof. unfold Rinv, cg_init. reflexivity. Qed.

  Lemma run_residual b x0 n res h : run b x0 n = (res, h) -> Forall (Rinv b) h.
  Proof.
    unfold cg_run. destruct (feqb _ _).
    - intros [= _ <-]. constructor.
    - apply iter_residual, init_residual.
  Qed.

  Lemma In_number (h : list (state F)) : forall k0 x r k, In (x, r, k) (number F k0 h) ->
    exists s, In s h /\ x = sx s /\ r = sr s /\ (k0 <= k < k0 + length h)%nat.
  Proof.
    induction h as [|s h IH]; intros k0 x r k Hin; [destruct Hin|].
    cbn [number] in Hin. destruct Hin as [[= <- <- <-]|Hin].
    - exists s. cbn. repeat split; auto; lia.
    - destruct (IH _ _ _ _ Hin) as (s' & Hs' & -> & -> & Hk). exists s'. cbn. repeat split; auto; lia.
  Qed.

  Lemma number_iteration (h : list (state F)) : forall k0, map snd (number F k0 h) = seq k0 (length h).
  Proof. induction h as [|s h IH]; intros k0; cbn; [reflexivity|]. now rewrite IH. Qed.

  (* every (solution, residual, iteration_number) given to the callback satisfies residual = b - H solution *)
  Theorem cg_residual b x0 n x r k trace res :
    (cgm b x0 n = Done res trace \/ cgm b x0 n = Diverged trace) -> In (x, r, k) trace -> r = b -v Hop x.
  Proof.
    intros Hc Hin. unfold cg in Hc.
    assert (Hrun : exists res' h, run b x0 n = (res', h) /\ trace = number F 0 h).
    { destruct (run b x0 n) as [[y|] h] eqn:Er.
      - exists (Some y), h. split; [reflexivity|].
        destruct x0 as [x0|]; [destruct (Nat.eqb _ _)|]; destruct Hc as [Hc|Hc]; congruence.
      - exists None, h. split; [reflexivity|].
        destruct x0 as [x0|]; [destruct (Nat.eqb _ _)|]; destruct Hc as [Hc|Hc]; congruence. }
    destruct Hrun as (res' & h & Hrun & ->).
    apply In_number in Hin. destruct Hin as (s & Hs & -> & -> & _).
    apply run_residual in Hrun. rewrite Forall_forall in Hrun. exact (Hrun s Hs).
  Qed.

  Theorem cg_iteration_numbers b x0 n trace res :
    cgm b x0 n = Done res trace -> map snd trace = seq 0 (length trace) /\ (length trace <= n)%nat.
  Proof.
    intros Hc. unfold cg in Hc.
    assert (Hrun : exists res' h, run b x0 n = (res', h) /\ trace = number F 0 h).
    { destruct (run b x0 n) as [[y|] h] eqn:Er.
      - exists (Some y), h. split; [reflexivity|]. destruct x0 as [x0|]; [destruct (Nat.eqb _ _)|]; congruence.
      - exists None, h. split; [reflexivity|]. destruct x0 as [x0|]; [destruct (Nat.eqb _ _)|]; congruence. }
    destruct Hrun as (res' & h & Hrun & ->).
    assert (Hlen : length (number F 0 h) = length h).
    { rewrite <- (map_length snd), number_iteration, seq_length. reflexivity. }
    split; [rewrite number_iteration, Hlen; reflexivity|]. rewrite Hlen.
    unfold cg_run in Hrun. destruct (feqb _ _); [injection Hrun as _ <-; cbn; lia|].
    clear - Hrun. revert Hrun. generalize (init b x0). revert res' h.
    induction n as [|n IH]; intros res' h st Hi; cbn [cg_iter] in Hi.
    - injection Hi as _ <-. cbn. lia.
    - destruct (step st) as [| |st']; try (injection Hi as _ <-; cbn; lia).
      destruct (iter n st') as [r' h'] eqn:Ei. injection Hi as _ <-. cbn. apply IH in Ei. lia.
  Qed.

  (* the returned solution is the last iterate given to the callback (or the start value) *)
  Lemma last_cons_default {A} (l : list A) : forall a d, last (a :: l) d = last l a.
  Proof. induction l as [|b l IH]; intros a d; [reflexivity|]. change (last (b :: l) d = last (b :: l) a). now rewrite !IH. Qed.

  Lemma iter_result fuel : forall st y h, iter fuel st = (Some y, h) -> y = sx (last h st).
  Proof.
    induction fuel as [|fuel IH]; intros st y h Hi; cbn [cg_iter] in Hi.
    - injection Hi as <- <-. reflexivity.
    - destruct (step st) as [| |st'] eqn:Es; try (injection Hi as <- <-; reflexivity); try discriminate.
      destruct (iter fuel st') as [r' h'] eqn:Ei. injection Hi as -> <-. apply IH in Ei. rewrite Ei.
      now rewrite last_cons_default.
  Qed.

  (* ---------------------------------------------------------------- (4) fixed point at zero residual *)
  Lemma step_stop st : << sr st, sr st >> = 0 -> step st = Stop.
  Proof.
    intros Hz. unfold cg_step. apply feqb_spec in Hz. rewrite Hz. reflexivity.
  Qed.

  Theorem cg_fixed_point_run b x0 n : let st := init b x0 in << sr st, sr st >> = 0 -> run b x0 n = (Some (sx st), []).
  Proof. intros st Hz. unfold cg_run. fold st. apply feqb_spec in Hz. rewrite Hz. reflexivity. Qed.

  (* start at an exact solution: returned untouched, the callback is never called *)
  Theorem cg_exact_start b x0 n : Hop x0 = b -> run b (Some x0) n = (Some x0, []).
  Proof.
    intros Hb. apply (cg_fixed_point_run b (Some x0) n). cbn. rewrite Hb. apply vsub_self_dot.
  Qed.

  (* once the residual is zero, every further pass through the loop returns the same solution *)
  Theorem cg_iter_fixed_point fuel st : << sr st, sr st >> = 0 -> iter fuel st = (Some (sx st), []).
  Proof. intros Hz. destruct fuel; cbn [cg_iter]; [reflexivity|]. now rewrite step_stop. Qed.

  (* ---------------------------------------------------------------- (3) no division by zero for definite H *)
  Variable n : nat.
  Hypothesis Hop_len : forall u, length (Hop u) = n.
  (* definiteness: a vector that is not orthogonal to everything has non-zero curvature *)
  Hypothesis Hop_definite : forall u w, length w = n -> << u, w >> <> 0 -> << u, Hop u >> <> 0.

  Definition Dinv (st : state F) : Prop :=
    length (sr st) = n /\
    match sprev st with
    | None => sp st = sr st
    | Some rrp => rrp <> 0 /\ << sr st, sp st >> = 0
    end.

  Lemma step_definite st : Dinv st -> step st <> Fail /\ forall st', step st = Next st' -> Dinv st'.
  Proof.
    intros [Hlen Hinv]. split.
    - unfold cg_step. destruct (feqb << sr st, sr st >> 0) eqn:E0; [discriminate|]. cbn [orb].
      assert (Hrr : << sr st, sr st >> <> 0) by (intros Hc; apply feqb_spec in Hc; congruence).
      destruct (negb (feqb tol 0) && fltb _ _); [discriminate|].
      destruct (sprev st) as [rrp|].
      + destruct Hinv as [Hrrp Horth]. rewrite (sdiv_nonzero _ _ Hrrp).
        rewrite sdiv_nonzero; [discriminate|].
        apply (Hop_definite _ (sr st) Hlen).
        rewrite dot_vadd_l, dot_vscale_l, (dot_comm (sp st)), Horth.
        match goal with |- ?e <> 0 => assert (E : e = << sr st, sr st >>) by (field; exact Hrrp) end.
        rewrite E. exact Hrr.
      + rewrite Hinv. rewrite sdiv_nonzero; [discriminate|].
        apply (Hop_definite _ (sr st) Hlen). exact Hrr.
    - intros st' Hs. apply step_next in Hs. cbn zeta in Hs.
      destruct Hs as [Hrr (p & alpha & Hp & Hd & -> & ->)]. unfold Dinv. cbn [sr sp sprev].
      split; [rewrite length_vsub, length_vscale, Hop_len, Hlen; lia|]. split; [exact Hrr|].
      assert (Hpr : << sr st, p >> = << sr st, sr st >>).
      { destruct (sprev st) as [rrp|].
        - destruct Hinv as [Hrrp Horth]. destruct Hp as [_ ->].
          rewrite dot_vadd_r, dot_vscale_r, Horth. field. exact Hrrp.
        - rewrite Hp, Hinv. reflexivity. }
      rewrite dot_vsub_l, dot_vscale_l, Hpr, (dot_comm (Hop p)). field. exact Hd.
  Qed.

  Lemma iter_definite fuel : forall st, Dinv st -> fst (iter fuel st) <> None.
  Proof.
    induction fuel as [|fuel IH]; intros st HD; cbn [cg_iter]; [discriminate|].
    destruct (step_definite st HD) as [Hnf Hnext].
    destruct (step st) as [| |st'] eqn:Es; [discriminate|contradiction|].
    specialize (IH st' (Hnext st' eq_refl)). destruct (iter fuel st') as [res h]. exact IH.
  Qed.

  Theorem cg_run_finite b x0 m : length b = n -> fst (run b x0 m) <> None.
  Proof.
    intros Hb. unfold cg_run. destruct (feqb _ _); [discriminate|].
    apply iter_definite. unfold Dinv, cg_init. cbn [sr sp sprev].
    split; [|reflexivity]. rewrite length_vsub, Hop_len, Hb. lia.
  Qed.

  (* cg never produces a non-finite value: for every start value, budget and tolerance (0 included) *)
  Theorem cg_finite b x0 m trace : length b = n -> cgm b x0 m <> Diverged trace.
  Proof.
    intros Hb. unfold cg. pose proof (cg_run_finite b x0 m Hb) as Hf.
    destruct (run b x0 m) as [[y|] h]; [|cbn in Hf; congruence].
    destruct x0 as [x0|]; [destruct (Nat.eqb _ _)|]; discriminate.
  Qed.
End CGProofs.
