(* C06 - proofs about the conjugate-gradient model (Model/CG.v), part 1:
   vector algebra on zero-padded lists, the residual identity for every linear operator, absence of
   division by zero for definite operators, fixed point at zero residual.
   Everything is proved for an arbitrary field (Section variables + field_theory); no order is used here. *)
From Coq Require Import List Bool Arith Lia Field Permutation.
Import ListNotations.
From MrVerif Require Import Model.CG.

Section CGProofs.
  Variable F : Type.
  Variables (f0 f1 : F) (fadd fmul fsub : F -> F -> F) (fopp : F -> F) (fdiv : F -> F -> F) (finv : F -> F).
  Hypothesis Fth : field_theory f0 f1 fadd fmul fsub fopp fdiv finv (@eq F).
  Add Field Ff : Fth.
  Variables feqb fltb : F -> F -> bool.
  Hypothesis feqb_spec : forall a b, feqb a b = true <-> a = b.

  Declare Scope F_scope.
  Delimit Scope F_scope with F.
  Local Open Scope F_scope.
  Notation "0" := f0 : F_scope.
  Notation "1" := f1 : F_scope.
  Infix "+" := fadd : F_scope.
  Infix "*" := fmul : F_scope.
  Infix "-" := fsub : F_scope.
  Infix "/" := fdiv : F_scope.
  Notation "- x" := (fopp x) : F_scope.

  Notation vec := (list F).
  Notation "u +v v" := (vadd F fadd u v) (at level 50, left associativity).
  Notation "u -v v" := (vsub F fsub fopp u v) (at level 50, left associativity).
  Notation "c *v u" := (vscale F fmul c u) (at level 40, left associativity).
  Notation "<< u , v >>" := (dot F f0 fadd fmul u v) (at level 0).

  (* ---------------------------------------------------------------- vectors *)
  Lemma nth_vadd u v i : nth i (u +v v) 0 = nth i u 0 + nth i v 0.
  Proof.
    revert v i. induction u as [|a u IH]; intros v i.
    - cbn. destruct i; ring.
    - destruct v as [|b v]; [cbn; destruct i; ring|].
      destruct i as [|i]; cbn; [reflexivity | apply IH].
  Qed.

  Lemma nth_vsub u v i : nth i (u -v v) 0 = nth i u 0 - nth i v 0.
  Proof.
    revert v i. induction u as [|a u IH]; intros v i.
    - cbn [vsub]. revert i. induction v as [|b v IHv]; intros i; destruct i; cbn; try ring.
      cbn in IHv. rewrite IHv. destruct i; cbn; ring.
    - destruct v as [|b v]; [destruct i; cbn; ring|].
      destruct i as [|i]; cbn; [reflexivity | apply IH].
  Qed.

  Lemma nth_vscale c u i : nth i (c *v u) 0 = c * nth i u 0.
  Proof.
    revert i. induction u as [|a u IH]; intros i; cbn; destruct i; try ring. apply IH.
  Qed.

  Lemma length_vadd u v : length (u +v v) = Nat.max (length u) (length v).
  Proof.
    revert v. induction u as [|a u IH]; intros v; [reflexivity|].
    destruct v as [|b v]; [reflexivity|]. cbn. now rewrite IH.
  Qed.

  Lemma length_vsub u v : length (u -v v) = Nat.max (length u) (length v).
  Proof.
    revert v. induction u as [|a u IH]; intros v; [cbn; now rewrite map_length|].
    destruct v as [|b v]; [reflexivity|]. cbn. now rewrite IH.
  Qed.

  Lemma length_vscale c u : length (c *v u) = length u.
  Proof. apply map_length. Qed.

  Lemma vec_ext (u v : vec) : length u = length v -> (forall i, nth i u 0 = nth i v 0) -> u = v.
  Proof.
    revert v. induction u as [|a u IH]; intros [|b v] Hl Hn; try discriminate; [reflexivity|].
    f_equal; [exact (Hn O)|]. apply IH; [now injection Hl|]. intros i. exact (Hn (S i)).
  Qed.

  Ltac vec_eq := apply vec_ext;
    [ repeat (rewrite ?length_vadd, ?length_vsub, ?length_vscale); lia
    | intros ?i; repeat (rewrite ?nth_vadd, ?nth_vsub, ?nth_vscale); ring ].

  Lemma vsub_vadd_assoc (b y z : vec) : b -v (y +v z) = b -v y -v z.
  Proof. vec_eq. Qed.

  Lemma vsub_as_add (u v : vec) : u -v v = u +v (- (1)) *v v.
  Proof. vec_eq. Qed.

  Lemma vadd_assoc (u v w : vec) : u +v v +v w = u +v (v +v w).
  Proof. vec_eq. Qed.

  (* ---------------------------------------------------------------- inner product *)
  Lemma dot_nil_l u : << [], u >> = 0.
  Proof. reflexivity. Qed.
  Lemma dot_nil_r u : << u, [] >> = 0.
  Proof. destruct u; reflexivity. Qed.

  Lemma dot_comm u v : << u, v >> = << v, u >>.
  Proof.
    revert v. induction u as [|a u IH]; intros [|b v]; cbn; try reflexivity. rewrite IH. ring.
  Qed.

  Lemma dot_vadd_l u v w : << u +v v, w >> = << u, w >> + << v, w >>.
  Proof.
    revert v w. induction u as [|a u IH]; intros v w.
    - cbn [vadd]. rewrite dot_nil_l. ring.
    - destruct v as [|b v]; [cbn [vadd]; rewrite dot_nil_l; ring|].
      destruct w as [|c w]; [cbn; ring|]. cbn. rewrite IH. ring.
  Qed.

  Lemma dot_vscale_l c u w : << c *v u, w >> = c * << u, w >>.
  Proof.
    revert w. induction u as [|a u IH]; intros w; [cbn; ring|].
    destruct w as [|d w]; [cbn; ring|]. cbn. cbn in IH. rewrite IH. ring.
  Qed.

  Lemma dot_vsub_l u v w : << u -v v, w >> = << u, w >> - << v, w >>.
  Proof. rewrite vsub_as_add, dot_vadd_l, dot_vscale_l. ring. Qed.

  Lemma dot_vadd_r w u v : << w, u +v v >> = << w, u >> + << w, v >>.
  Proof. rewrite dot_comm, dot_vadd_l, !(dot_comm w). reflexivity. Qed.
  Lemma dot_vscale_r c w u : << w, c *v u >> = c * << w, u >>.
  Proof. rewrite dot_comm, dot_vscale_l, (dot_comm w). reflexivity. Qed.
  Lemma dot_vsub_r w u v : << w, u -v v >> = << w, u >> - << w, v >>.
  Proof. rewrite dot_comm, dot_vsub_l, !(dot_comm w). reflexivity. Qed.

  Lemma vsub_self_dot u w : << u -v u, w >> = 0.
  Proof. rewrite dot_vsub_l. ring. Qed.

  (* a dense matrix acts linearly (for all lists: missing entries are zeros) *)
  Notation mv M := (matvec F f0 fadd fmul M).
  Lemma matvec_add M u v : mv M (u +v v) = mv M u +v mv M v.
  Proof.
    unfold matvec. induction M as [|row M IH]; [reflexivity|]. cbn [map vadd].
    rewrite IH, dot_vadd_r. reflexivity.
  Qed.
  Lemma matvec_scale M c u : mv M (c *v u) = c *v mv M u.
  Proof.
    unfold matvec. induction M as [|row M IH]; [reflexivity|]. cbn [map vscale].
    cbn [vscale map] in IH. rewrite IH, dot_vscale_r. reflexivity.
  Qed.
  Lemma matvec_length M u : length (mv M u) = length M.
  Proof. apply map_length. Qed.

  (* ---------------------------------------------------------------- the operator *)
  Variable Hop : vec -> vec.
  Hypothesis Hop_add : forall u v, Hop (u +v v) = Hop u +v Hop v.
  Hypothesis Hop_scale : forall c u, Hop (c *v u) = c *v Hop u.
  Variable tol : F.

  Lemma Hop_sub u v : Hop (u -v v) = Hop u -v Hop v.
  Proof. rewrite !vsub_as_add, Hop_add, Hop_scale. reflexivity. Qed.

  Notation step := (cg_step F f0 fadd fmul fsub fopp fdiv feqb fltb Hop tol).
  Notation iter := (cg_iter F f0 fadd fmul fsub fopp fdiv feqb fltb Hop tol).
  Notation init := (cg_init F fsub fopp Hop).
  Notation run := (cg_run F f0 fadd fmul fsub fopp fdiv feqb fltb Hop tol).
  Notation cgm := (cg F f0 fadd fmul fsub fopp fdiv feqb fltb Hop tol).
  Notation sdiv' := (sdiv F f0 fdiv feqb).

  Lemma sdiv_some a b q : sdiv' a b = Some q -> b <> 0 /\ q = a / b.
  Proof.
    unfold sdiv. destruct (feqb b 0) eqn:E; [discriminate|]. intros [= <-]. split; [|reflexivity].
    intros Hb. apply feqb_spec in Hb. congruence.
  Qed.
  Lemma sdiv_nonzero a b : b <> 0 -> sdiv' a b = Some (a / b).
  Proof.
    intros Hb. unfold sdiv. destruct (feqb b 0) eqn:E; [|reflexivity]. apply feqb_spec in E. contradiction.
  Qed.

  (* what one completed iteration does (inversion of cg_step) *)
  Lemma step_next st st' : step st = Next st' ->
    let rr := << sr st, sr st >> in
    rr <> 0 /\
    exists p alpha,
      (match sprev st with
       | None => p = sp st
       | Some rrp => rrp <> 0 /\ p = sr st +v (rr / rrp) *v sp st
       end) /\
      << p, Hop p >> <> 0 /\ alpha = rr / << p, Hop p >> /\
      st' = mkState (sx st +v alpha *v p) (sr st -v alpha *v Hop p) p (Some rr).
  Proof.
    unfold cg_step. intros Hs. cbn zeta.
    destruct (feqb << sr st, sr st >> 0) eqn:E0; [discriminate|]. cbn [orb] in Hs.
    assert (Hrr : << sr st, sr st >> <> 0) by (intros Hc; apply feqb_spec in Hc; congruence).
    split; [exact Hrr|].
    destruct (negb (feqb tol 0) && fltb << sr st, sr st >> (tol * tol)); [discriminate|].
    destruct (sprev st) as [rrp|].
    - destruct (sdiv' << sr st, sr st >> rrp) as [beta|] eqn:Eb; [|discriminate].
      apply sdiv_some in Eb. destruct Eb as [Hrrp ->].
      match type of Hs with context [sdiv' ?a ?d] => destruct (sdiv' a d) as [alpha|] eqn:Ea; [|discriminate] end.
      apply sdiv_some in Ea. destruct Ea as [Hd ->]. injection Hs as <-.
      eexists _, _. repeat split; try reflexivity; assumption.
    - match type of Hs with context [sdiv' ?a ?d] => destruct (sdiv' a d) as [alpha|] eqn:Ea; [|discriminate] end.
      apply sdiv_some in Ea. destruct Ea as [Hd ->]. injection Hs as <-.
      eexists _, _. repeat split; try reflexivity; assumption.
  Qed.

  (* ---------------------------------------------------------------- (1) residual identity, every linear H *)
  Definition Rinv (b : vec) (st : state F) : Prop := sr st = b -v Hop (sx st).

  Lemma step_residual b st st' : Rinv b st -> step st = Next st' -> Rinv b st'.
  Proof.
    intros HR Hs. apply step_next in Hs. destruct Hs as [_ (p & alpha & _ & _ & _ & ->)].
    unfold Rinv in *. cbn [sr sx]. rewrite Hop_add, Hop_scale, HR. symmetry. apply vsub_vadd_assoc.
  Qed.

  Lemma iter_residual b fuel : forall st res h, Rinv b st -> iter fuel st = (res, h) -> Forall (Rinv b) h.
  Proof.
    induction fuel as [|fuel IH]; intros st res h HR Hi; cbn [cg_iter] in Hi.
    - injection Hi as _ <-. constructor.
    - destruct (step st) as [| |st'] eqn:Es; try (injection Hi as _ <-; constructor).
      destruct (iter fuel st') as [res' h'] eqn:Ei. injection Hi as _ <-.
      assert (HR' := step_residual _ _ _ HR Es). constructor; [exact HR'|]. eapply IH; eassumption.
  Qed.

  Lemma init_residual b x0 : Rinv b (init b x0).
  Proof. unfold Rinv, cg_init. reflexivity. Qed.

  Lemma run_residual b x0 n res h : run b x0 n = (res, h) -> Forall (Rinv b) h.
  Proof.
    unfold cg_run. destruct (feqb _ _).
    - intros [= _ <-]. constructor.
    - apply iter_residual, init_residual.
  Qed.

  Lemma In_number (h : list (state F)) : forall k0 x r k, In (x, r, k) (number F k0 h) ->
    exists s, In s h /\ x = sx s /\ r = sr s /\ (k0 <= k < k0 + length h)%nat.
  Proof.
    induction h as [|s h IH]; intros k0 x r k Hin; [destruct Hin|].
    cbn [number] in Hin. destruct Hin as [[= <- <- <-]|Hin].
    - exists s. cbn. repeat split; auto; lia.
    - destruct (IH _ _ _ _ Hin) as (s' & Hs' & -> & -> & Hk). exists s'. cbn. repeat split; auto; lia.
  Qed.

  Lemma number_iteration (h : list (state F)) : forall k0, map snd (number F k0 h) = seq k0 (length h).
  Proof. induction h as [|s h IH]; intros k0; cbn; [reflexivity|]. now rewrite IH. Qed.

  (* every (solution, residual, iteration_number) given to the callback satisfies residual = b - H solution *)
  Theorem cg_residual b x0 n x r k trace res :
    (cgm b x0 n = Done res trace \/ cgm b x0 n = Diverged trace) -> In (x, r, k) trace -> r = b -v Hop x.
  Proof.
    intros Hc Hin. unfold cg in Hc.
    assert (Hrun : exists res' h, run b x0 n = (res', h) /\ trace = number F 0 h).
    { destruct (run b x0 n) as [[y|] h] eqn:Er.
      - exists (Some y), h. split; [reflexivity|].
        destruct x0 as [x0|]; [destruct (Nat.eqb _ _)|]; destruct Hc as [Hc|Hc]; congruence.
      - exists None, h. split; [reflexivity|].
        destruct x0 as [x0|]; [destruct (Nat.eqb _ _)|]; destruct Hc as [Hc|Hc]; congruence. }
    destruct Hrun as (res' & h & Hrun & ->).
    apply In_number in Hin. destruct Hin as (s & Hs & -> & -> & _).
    apply run_residual in Hrun. rewrite Forall_forall in Hrun. exact (Hrun s Hs).
  Qed.

  Theorem cg_iteration_numbers b x0 n trace res :
    cgm b x0 n = Done res trace -> map snd trace = seq 0 (length trace) /\ (length trace <= n)%nat.
  Proof.
    intros Hc. unfold cg in Hc.
    assert (Hrun : exists res' h, run b x0 n = (res', h) /\ trace = number F 0 h).
    { destruct (run b x0 n) as [[y|] h] eqn:Er.
      - exists (Some y), h. split; [reflexivity|]. destruct x0 as [x0|]; [destruct (Nat.eqb _ _)|]; congruence.
      - exists None, h. split; [reflexivity|]. destruct x0 as [x0|]; [destruct (Nat.eqb _ _)|]; congruence. }
    destruct Hrun as (res' & h & Hrun & ->).
    assert (Hlen : length (number F 0 h) = length h).
    { rewrite <- (map_length snd), number_iteration, seq_length. reflexivity. }
    split; [rewrite number_iteration, Hlen; reflexivity|]. rewrite Hlen.
    unfold cg_run in Hrun. destruct (feqb _ _); [injection Hrun as _ <-; cbn; lia|].
    clear - Hrun. revert Hrun. generalize (init b x0). revert res' h.
    induction n as [|n IH]; intros res' h st Hi; cbn [cg_iter] in Hi.
    - injection Hi as _ <-. cbn. lia.
    - destruct (step st) as [| |st']; try (injection Hi as _ <-; cbn; lia).
      destruct (iter n st') as [r' h'] eqn:Ei. injection Hi as _ <-. cbn. apply IH in Ei. lia.
  Qed.

  (* the returned solution is the last iterate given to the callback (or the start value) *)
  Lemma last_cons_default {A} (l : list A) : forall a d, last (a :: l) d = last l a.
  Proof. induction l as [|b l IH]; intros a d; [reflexivity|]. change (last (b :: l) d = last (b :: l) a). now rewrite !IH. Qed.

  Lemma iter_result fuel : forall st y h, iter fuel st = (Some y, h) -> y = sx (last h st).
  Proof.
    induction fuel as [|fuel IH]; intros st y h Hi; cbn [cg_iter] in Hi.
    - injection Hi as <- <-. reflexivity.
    - destruct (step st) as [| |st'] eqn:Es; try (injection Hi as <- <-; reflexivity); try discriminate.
      destruct (iter fuel st') as [r' h'] eqn:Ei. injection Hi as -> <-. apply IH in Ei. rewrite Ei.
      now rewrite last_cons_default.
  Qed.

  (* ---------------------------------------------------------------- (4) fixed point at zero residual *)
  Lemma step_stop st : << sr st, sr st >> = 0 -> step st = Stop.
  Proof.
    intros Hz. unfold cg_step. apply feqb_spec in Hz. rewrite Hz. reflexivity.
  Qed.

  Theorem cg_fixed_point_run b x0 n : let st := init b x0 in << sr st, sr st >> = 0 -> run b x0 n = (Some (sx st), []).
  Proof. intros st Hz. unfold cg_run. fold st. apply feqb_spec in Hz. rewrite Hz. reflexivity. Qed.

  (* start at an exact solution: returned untouched, the callback is never called *)
  Theorem cg_exact_start b x0 n : Hop x0 = b -> run b (Some x0) n = (Some x0, []).
  Proof.
    intros Hb. apply (cg_fixed_point_run b (Some x0) n). cbn. rewrite Hb. apply vsub_self_dot.
  Qed.

  (* once the residual is zero, every further pass through the loop returns the same solution *)
  Theorem cg_iter_fixed_point fuel st : << sr st, sr st >> = 0 -> iter fuel st = (Some (sx st), []).
  Proof. intros Hz. destruct fuel; cbn [cg_iter]; [reflexivity|]. now rewrite step_stop. Qed.

  (* ---------------------------------------------------------------- (2') the repaired code never divides by zero, whatever the operator:
     beta = rr / rr_previous with rr_previous <> 0 (a pass with rr = 0 returns), and a vanishing <p, H p> returns the current solution *)
  Definition Pinv (st : state F) : Prop := match sprev st with Some rrp => rrp <> 0 | None => True end.

  Lemma step_never_fails st : Pinv st -> step st <> Fail /\ forall st', step st = Next st' -> Pinv st'.
  Proof.
    unfold Pinv, cg_step. intros HP.
    destruct (feqb << sr st, sr st >> 0) eqn:E0; [split; [discriminate|intros; discriminate]|]. cbn [orb].
    assert (Hrr : << sr st, sr st >> <> 0) by (intros Hc; apply feqb_spec in Hc; congruence).
    destruct (negb (feqb tol 0) && fltb _ _); [split; [discriminate|intros; discriminate]|].
    destruct (sprev st) as [rrp|].
    - rewrite (sdiv_nonzero _ _ HP). destruct (sdiv' _ _); (split; [discriminate|intros st' H; try discriminate]).
      injection H as <-. cbn [sprev]. exact Hrr.
    - destruct (sdiv' _ _); (split; [discriminate|intros st' H; try discriminate]).
      injection H as <-. cbn [sprev]. exact Hrr.
  Qed.

  Lemma iter_never_fails fuel : forall st, Pinv st -> fst (iter fuel st) <> None.
  Proof.
    induction fuel as [|fuel IH]; intros st HP; cbn [cg_iter]; [discriminate|].
    destruct (step_never_fails st HP) as [Hnf Hnext].
    destruct (step st) as [| |st'] eqn:Es; [discriminate|contradiction|].
    specialize (IH st' (Hnext st' eq_refl)). destruct (iter fuel st') as [res h]. exact IH.
  Qed.

  Theorem cg_never_diverges b x0 m trace : cgm b x0 m <> Diverged trace.
  Proof.
    assert (Hf : fst (run b x0 m) <> None).
    { unfold cg_run. destruct (feqb _ _); [discriminate|]. apply iter_never_fails. exact I. }
    unfold cg. destruct x0 as [x|].
    - destruct (Nat.eqb _ _); [|discriminate]. destruct (run b (Some x) m) as [[y|] h]; [discriminate|cbn in Hf; congruence].
    - destruct (run b None m) as [[y|] h]; [discriminate|cbn in Hf; congruence].
  Qed.

  (* ---------------------------------------------------------------- (3) no division by zero for definite H *)
  Variable n : nat.
  Hypothesis Hop_len : forall u, length (Hop u) = n.
  (* definiteness: a vector that is not orthogonal to everything has non-zero curvature *)
  Hypothesis Hop_definite : forall u w, length u = n -> length w = n -> << u, w >> <> 0 -> << u, Hop u >> <> 0.

  Definition Dinv (st : state F) : Prop :=
    length (sr st) = n /\ length (sp st) = n /\
    match sprev st with
    | None => sp st = sr st
    | Some rrp => rrp <> 0 /\ << sr st, sp st >> = 0
    end.

  Lemma step_definite st : Dinv st -> step st <> Fail /\ forall st', step st = Next st' -> Dinv st'.
  Proof.
    intros (Hlen & Hlenp & Hinv). split.
    - unfold cg_step. destruct (feqb << sr st, sr st >> 0) eqn:E0; [discriminate|]. cbn [orb].
      assert (Hrr : << sr st, sr st >> <> 0) by (intros Hc; apply feqb_spec in Hc; congruence).
      destruct (negb (feqb tol 0) && fltb _ _); [discriminate|].
      destruct (sprev st) as [rrp|].
      + destruct Hinv as [Hrrp Horth]. rewrite (sdiv_nonzero _ _ Hrrp).
        rewrite sdiv_nonzero; [discriminate|].
        apply (Hop_definite _ (sr st)); [rewrite length_vadd, length_vscale; lia | exact Hlen |].
        rewrite dot_vadd_l, dot_vscale_l, (dot_comm (sp st)), Horth.
        match goal with |- ?e <> 0 => assert (E : e = << sr st, sr st >>) by (field; exact Hrrp) end.
        rewrite E. exact Hrr.
      + rewrite Hinv. rewrite sdiv_nonzero; [discriminate|].
        apply (Hop_definite _ (sr st) Hlen Hlen). exact Hrr.
    - intros st' Hs. apply step_next in Hs. cbn zeta in Hs.
      destruct Hs as [Hrr (p & alpha & Hp & Hd & -> & ->)]. unfold Dinv. cbn [sr sp sprev].
      split; [rewrite length_vsub, length_vscale, Hop_len, Hlen; lia|].
      split; [destruct (sprev st); [destruct Hp as [_ ->]; rewrite length_vadd, length_vscale; lia | rewrite Hp; exact Hlenp]|].
      split; [exact Hrr|].
      assert (Hpr : << sr st, p >> = << sr st, sr st >>).
      { destruct (sprev st) as [rrp|].
        - destruct Hinv as [Hrrp Horth]. destruct Hp as [_ ->].
          rewrite dot_vadd_r, dot_vscale_r, Horth. field. exact Hrrp.
        - rewrite Hp, Hinv. reflexivity. }
      rewrite dot_vsub_l, dot_vscale_l, Hpr, (dot_comm (Hop p)). field. exact Hd.
  Qed.

  Lemma iter_definite fuel : forall st, Dinv st -> fst (iter fuel st) <> None.
  Proof.
    induction fuel as [|fuel IH]; intros st HD; cbn [cg_iter]; [discriminate|].
    destruct (step_definite st HD) as [Hnf Hnext].
    destruct (step st) as [| |st'] eqn:Es; [discriminate|contradiction|].
    specialize (IH st' (Hnext st' eq_refl)). destruct (iter fuel st') as [res h]. exact IH.
  Qed.

  (* for a definite operator a pass can only return early for the documented reasons (zero residual, tolerance): the zero-curvature exit
     of the repaired code is never taken *)
  Lemma step_stop_definite st : Dinv st -> step st = Stop ->
    feqb << sr st, sr st >> 0 || (negb (feqb tol 0) && fltb << sr st, sr st >> (tol * tol)) = true.
  Proof.
    intros (Hlen & Hlenp & Hinv). unfold cg_step. destruct (feqb << sr st, sr st >> 0) eqn:E0; [reflexivity|]. cbn [orb].
    assert (Hrr : << sr st, sr st >> <> 0) by (intros Hc; apply feqb_spec in Hc; congruence).
    destruct (negb (feqb tol 0) && fltb _ _); [reflexivity|].
    destruct (sprev st) as [rrp|].
    + destruct Hinv as [Hrrp Horth]. rewrite (sdiv_nonzero _ _ Hrrp).
      rewrite sdiv_nonzero; [discriminate|].
      apply (Hop_definite _ (sr st)); [rewrite length_vadd, length_vscale; lia | exact Hlen |].
      rewrite dot_vadd_l, dot_vscale_l, (dot_comm (sp st)), Horth.
      match goal with |- ?e <> 0 => assert (E : e = << sr st, sr st >>) by (field; exact Hrrp) end.
      rewrite E. exact Hrr.
    + rewrite Hinv. rewrite sdiv_nonzero; [discriminate|].
      apply (Hop_definite _ (sr st) Hlen Hlen). exact Hrr.
  Qed.

  Lemma init_Dinv b x0 : length b = n -> Dinv (init b x0).
  Proof.
    intros Hb. unfold Dinv, cg_init. cbn [sr sp sprev].
    assert (Hl : length (b -v Hop match x0 with Some x => x | None => b end) = n) by (rewrite length_vsub, Hop_len, Hb; lia).
    repeat split; exact Hl.
  Qed.

  Lemma iter_Dinv fuel : forall st res h, Dinv st -> iter fuel st = (res, h) -> Forall Dinv h.
  Proof.
    induction fuel as [|fuel IH]; intros st res h HD Hi; cbn [cg_iter] in Hi; [injection Hi as _ <-; constructor|].
    destruct (step_definite st HD) as [_ Hnext].
    destruct (step st) as [| |st'] eqn:Es; try (injection Hi as _ <-; constructor).
    destruct (iter fuel st') as [r' h'] eqn:Ei. injection Hi as _ <-.
    constructor; [apply Hnext; reflexivity|]. eapply IH; [apply Hnext; reflexivity|exact Ei].
  Qed.

  Theorem cg_run_finite b x0 m : length b = n -> fst (run b x0 m) <> None.
  Proof.
    intros Hb. unfold cg_run. destruct (feqb _ _); [discriminate|].
    apply iter_definite. unfold Dinv, cg_init. cbn [sr sp sprev].
    assert (Hl : length (b -v Hop match x0 with Some x => x | None => b end) = n) by (rewrite length_vsub, Hop_len, Hb; lia).
    repeat split; exact Hl.
  Qed.

  (* cg never produces a non-finite value: for every start value, budget and tolerance (0 included) *)
  Theorem cg_finite b x0 m trace : length b = n -> cgm b x0 m <> Diverged trace.
  Proof.
    intros Hb. unfold cg. pose proof (cg_run_finite b x0 m Hb) as Hf.
    destruct (run b x0 m) as [[y|] h]; [|cbn in Hf; congruence].
    destruct x0 as [x0|]; [destruct (Nat.eqb _ _)|]; discriminate.
  Qed.

  (* ================================================================ part 2: self-adjoint H *)
  Hypothesis Hop_sym : forall u v, << u, Hop v >> = << Hop u, v >>.

  Lemma fmul_zero_inv a x : a <> 0 -> a * x = 0 -> x = 0.
  Proof. intros Ha Hx. transitivity (a * x / a); [field; exact Ha|]. rewrite Hx. field. exact Ha. Qed.

  Lemma fdiv_nonzero a b : a <> 0 -> b <> 0 -> a / b <> 0.
  Proof. intros Ha Hb Hq. apply Ha. transitivity (a / b * b); [field; exact Hb|]. rewrite Hq. ring. Qed.

  (* past = list of (direction p_j, residual r_j before the step), most recent first *)
  Notation entry := (vec * vec)%type.

  Fixpoint chain (rc : vec) (past : list entry) : Prop :=
    match past with
    | [] => True
    | (p, r) :: rest =>
      (exists a, a <> 0 /\ rc = r -v a *v Hop p) /\
      (match rest with [] => p = r | (p', _) :: _ => exists beta, p = r +v beta *v p' end) /\
      chain r rest
    end.

  Fixpoint conj (past : list entry) : Prop :=
    match past with
    | [] => True
    | (p, _) :: rest => Forall (fun e : entry => << p, Hop (fst e) >> = 0) rest /\ conj rest
    end.

  Lemma chain_orth_H (L : list entry) : forall rc v, chain rc L -> << v, rc >> = 0 ->
    Forall (fun e : entry => << v, snd e >> = 0) L -> Forall (fun e : entry => << v, Hop (fst e) >> = 0) L.
  Proof.
    induction L as [|[p r] L IH]; intros rc v Hc Hv Hr; [constructor|].
    destruct Hc as [(a & Ha & Hrc) [_ Hc]]. apply Forall_cons_iff in Hr. destruct Hr as [Hr1 Hr2]. cbn [snd] in Hr1.
    constructor; [|eapply IH; eassumption].
    cbn [fst]. apply (fmul_zero_inv a); [exact Ha|].
    rewrite Hrc, dot_vsub_r, dot_vscale_r, Hr1 in Hv.
    transitivity (0 - (0 - a * << v, Hop p >>)); [ring|]. rewrite Hv. ring.
  Qed.

  Lemma chain_orth_r (L : list entry) : forall rc v, chain rc L ->
    Forall (fun e : entry => << v, fst e >> = 0) L -> Forall (fun e : entry => << v, snd e >> = 0) L.
  Proof.
    induction L as [|[p r] L IH]; intros rc v Hc Hp; [constructor|].
    destruct Hc as [_ [Hlink Hc]]. apply Forall_cons_iff in Hp. destruct Hp as [Hp1 Hp2]. cbn [fst] in Hp1.
    constructor; [|eapply IH; eassumption]. cbn [snd].
    destruct L as [|[p' r'] L'].
    - rewrite <- Hlink. exact Hp1.
    - destruct Hlink as [beta Hlink]. pose proof (proj1 (proj1 (Forall_cons_iff _ _ _) Hp2)) as Hp21. cbn [fst] in Hp21.
      rewrite Hlink, dot_vadd_r, dot_vscale_r, Hp21 in Hp1.
      transitivity (<< v, r >> + beta * 0); [ring|exact Hp1].
  Qed.

  Fixpoint lincomb (cs : list F) (ps : list vec) : vec :=
    match cs, ps with
    | c :: cs', p :: ps' => c *v p +v lincomb cs' ps'
    | _, _ => []
    end.

  Lemma dot_lincomb v ps : Forall (fun p : vec => << v, p >> = 0) ps -> forall cs, << v, lincomb cs ps >> = 0.
  Proof.
    induction 1 as [|p ps Hp _ IH]; intros [|c cs]; cbn [lincomb]; try apply dot_nil_r.
    rewrite dot_vadd_r, dot_vscale_r, Hp, IH. ring.
  Qed.

  Variable x0v : vec.   (* the start value the run began with *)

  Definition Inv (past : list entry) (st : state F) : Prop :=
    chain (sr st) past /\
    Forall (fun e : entry => << sr st, fst e >> = 0) past /\
    Forall (fun e : entry => << sr st, snd e >> = 0) past /\
    conj past /\
    (exists cs, sx st = x0v +v lincomb cs (map fst past)) /\
    match past with
    | [] => sprev st = None /\ sp st = sr st
    | (p, r) :: _ => sp st = p /\ sprev st = Some << r, r >> /\ << r, r >> <> 0 /\ << p, Hop p >> <> 0 /\
                     sr st = r -v (<< r, r >> / << p, Hop p >>) *v Hop p
    end.

  Lemma Forall_fst_map {A B} (P : A -> Prop) (l : list (A * B)) :
    Forall (fun e => P (fst e)) l -> Forall P (map fst l).
  Proof. induction 1; cbn; constructor; assumption. Qed.

  Lemma step_Inv past st st' : Inv past st -> step st = Next st' -> Inv ((sp st', sr st) :: past) st'.
  Proof.
    intros (Hch & Hop_ & Hor & Hcj & (cs & Hx) & Hhead) Hs.
    apply step_next in Hs. cbn zeta in Hs. destruct Hs as [Hrr (p & alpha & Hp & Hd & Halpha & ->)].
    cbn [sp sr sx sprev].
    set (r := sr st) in *. set (rr := << r, r >>) in *.
    (* <r, p> = rr *)
    assert (Hrp : << r, p >> = rr).
    { destruct past as [|[p1 r1] rest].
      - destruct Hhead as [Hprev Hsp]. rewrite Hprev in Hp. rewrite Hp, Hsp. reflexivity.
      - destruct Hhead as (Hsp & Hprev & Hrr1 & _). rewrite Hprev in Hp. destruct Hp as [_ ->].
        pose proof (proj1 (proj1 (Forall_cons_iff _ _ _) Hop_)) as H1. cbn [fst] in H1. rewrite Hsp.
        rewrite dot_vadd_r, dot_vscale_r, H1. fold rr. field. exact Hrr1. }
    (* the new direction is conjugate to all previous ones *)
    assert (Hnew : Forall (fun e : entry => << p, Hop (fst e) >> = 0) past).
    { destruct past as [|[p1 r1] rest]; [constructor|].
      destruct Hhead as (Hsp & Hprev & Hrr1 & Hd1 & Hr1). rewrite Hprev in Hp. destruct Hp as [_ ->]. rewrite Hsp.
      apply Forall_cons_iff in Hor. destruct Hor as [Ho1 Ho2]. cbn [snd] in Ho1.
      destruct Hch as [_ [_ Hch']]. destruct Hcj as [Hcj1 Hcj2].
      constructor.
      - cbn [fst]. rewrite dot_vadd_l, dot_vscale_l.
        (* <r, H p1> from r = r1 - a1 H p1 *)
        assert (E : (<< r1, r1 >> / << p1, Hop p1 >>) * << r, Hop p1 >> = 0 - rr).
        { assert (Err : rr = << r, r1 -v (<< r1, r1 >> / << p1, Hop p1 >>) *v Hop p1 >>) by (rewrite <- Hr1; reflexivity).
          rewrite Err, dot_vsub_r, dot_vscale_r, Ho1. ring. }
        assert (E2 : << r, Hop p1 >> = (0 - rr) * << p1, Hop p1 >> / << r1, r1 >>).
        { rewrite <- E. field. split; assumption. }
        rewrite E2. fold rr. field. exact Hrr1.
      - assert (HrH : Forall (fun e : entry => << r, Hop (fst e) >> = 0) rest).
        { apply (chain_orth_H rest r1 r Hch' Ho1 Ho2). }
        rewrite Forall_forall in *. intros e He. rewrite dot_vadd_l, dot_vscale_l, (HrH e He), (Hcj1 e He). ring. }
    (* the new residual is orthogonal to all directions, the new one included *)
    assert (Hop' : Forall (fun e : entry => << r -v alpha *v Hop p, fst e >> = 0) ((p, r) :: past)).
    { constructor.
      - cbn [fst]. rewrite dot_vsub_l, dot_vscale_l, Hrp, <- Hop_sym, Halpha. field. exact Hd.
      - rewrite Forall_forall in *. intros e He.
        rewrite dot_vsub_l, dot_vscale_l, (Hop_ e He), <- Hop_sym, (Hnew e He). ring. }
    assert (Hal : alpha <> 0) by (rewrite Halpha; apply fdiv_nonzero; assumption).
    assert (Hch' : chain (r -v alpha *v Hop p) ((p, r) :: past)).
    { cbn [chain]. split; [exists alpha; split; [exact Hal|reflexivity]|]. split; [|exact Hch].
      destruct past as [|[p1 r1] rest].
      - destruct Hhead as [Hprev Hsp]. rewrite Hprev in Hp. rewrite Hp, Hsp. reflexivity.
      - destruct Hhead as (Hsp & Hprev & _). rewrite Hprev in Hp. destruct Hp as [_ ->]. rewrite Hsp. eexists. reflexivity. }
    unfold Inv. cbn [sp sr sx sprev]. repeat split.
    - exists alpha. split; [exact Hal|reflexivity].
    - destruct Hch' as [_ [Hl _]]. exact Hl.
    - exact Hch.
    - exact Hop'.
    - exact (chain_orth_r _ _ _ Hch' Hop').
    - exact Hnew.
    - exact Hcj.
    - exists (alpha :: cs). cbn [map fst lincomb]. rewrite Hx. apply vec_ext.
      + repeat (rewrite ?length_vadd, ?length_vscale). lia.
      + intros i. repeat (rewrite ?nth_vadd, ?nth_vscale). ring.
    - exact Hrr.
    - exact Hd.
    - rewrite Halpha. reflexivity.
  Qed.

  Fixpoint past_of (prev : state F) (h : list (state F)) (acc : list entry) : list entry :=
    match h with [] => acc | s :: h' => past_of s h' ((sp s, sr prev) :: acc) end.

  Lemma iter_Inv fuel : forall st past res h, Inv past st -> iter fuel st = (res, h) ->
    forall h1 s h2, h = h1 ++ s :: h2 -> Inv (past_of st (h1 ++ [s]) past) s.
  Proof.
    induction fuel as [|fuel IH]; intros st past res h HI Hi h1 s h2 Hh; cbn [cg_iter] in Hi.
    - injection Hi as _ <-. destruct h1; discriminate.
    - destruct (step st) as [| |st'] eqn:Es; try (injection Hi as _ <-; destruct h1; discriminate).
      destruct (iter fuel st') as [res' h'] eqn:Ei. injection Hi as _ <-.
      pose proof (step_Inv _ _ _ HI Es) as HI'.
      destruct h1 as [|s1 h1]; cbn [app] in Hh; injection Hh as <- Hh.
      + cbn [app past_of]. exact HI'.
      + cbn [app past_of]. eapply IH; eassumption.
  Qed.

  Lemma past_of_dirs h : forall prev acc, map fst (past_of prev h acc) = rev (map (@sp F) h) ++ map fst acc.
  Proof.
    induction h as [|s h IH]; intros prev acc; cbn [past_of map rev]; [reflexivity|].
    rewrite IH. cbn [map fst]. rewrite <- app_assoc. reflexivity.
  Qed.

  Lemma past_of_res h : forall prev acc, map snd (past_of prev h acc) = rev (map (@sr F) (removelast (prev :: h))) ++ map snd acc.
  Proof.
    induction h as [|s h IH]; intros prev acc; [reflexivity|].
    cbn [past_of]. rewrite IH. cbn [map snd]. change (removelast (prev :: s :: h)) with (prev :: removelast (s :: h)).
    cbn [map rev]. rewrite <- app_assoc. reflexivity.
  Qed.

  Lemma Inv_init b x0 : x0v = sx (init b x0) -> Inv [] (init b x0).
  Proof.
    intros Hx. unfold Inv, cg_init. cbn [sr sp sx sprev chain conj map lincomb]. repeat split; try constructor.
    exists []. cbn [lincomb]. unfold cg_init in Hx. cbn [sx] in Hx. rewrite <- Hx. apply vec_ext.
    - rewrite length_vadd. cbn. lia.
    - intros i. rewrite nth_vadd. destruct i; cbn; ring.
  Qed.

  (* ---- the invariant at every state reached by a run *)
  Theorem run_Inv b x0 m res h : x0v = sx (init b x0) -> run b x0 m = (res, h) ->
    forall h1 s h2, h = h1 ++ s :: h2 -> Inv (past_of (init b x0) (h1 ++ [s]) []) s.
  Proof.
    intros Hx Hr. unfold cg_run in Hr. destruct (feqb _ _).
    - injection Hr as _ <-. intros h1 s h2 Hh. destruct h1; discriminate.
    - eapply iter_Inv; [apply Inv_init; exact Hx | exact Hr].
  Qed.

  (* ---- error in the H-norm and optimality *)
  Variable xs : vec.   (* a solution: H xs = b *)
  Definition errH (y : vec) : F := << xs -v y, Hop (xs -v y) >>.

  Lemma pythagoras b st d : Hop xs = b -> Rinv b st -> << sr st, d >> = 0 ->
    errH (sx st +v d) = errH (sx st) + << d, Hop d >>.
  Proof.
    intros Hb HR Hd. unfold errH. rewrite vsub_vadd_assoc. set (e := xs -v sx st).
    assert (He : Hop e = sr st) by (unfold e; rewrite Hop_sub, Hb; symmetry; exact HR).
    rewrite Hop_sub, He. rewrite dot_vsub_l, !dot_vsub_r. rewrite (dot_comm d (sr st)), Hd.
    rewrite (Hop_sym e d), He, Hd. ring.
  Qed.

  Lemma step_error b st st' : Hop xs = b -> Rinv b st ->
    (match sprev st with None => sp st = sr st | Some rrp => << sr st, sp st >> = 0 end) ->
    step st = Next st' ->
    exists d, errH (sx st) = errH (sx st') + << d, Hop d >>.
  Proof.
    intros Hb HR Hsm Hs. apply step_next in Hs. cbn zeta in Hs.
    destruct Hs as [Hrr (p & alpha & Hp & Hd & Halpha & ->)]. cbn [sx].
    exists (alpha *v p). unfold errH. rewrite vsub_vadd_assoc. set (e := xs -v sx st).
    assert (He : Hop e = sr st) by (unfold e; rewrite Hop_sub, Hb; symmetry; exact HR).
    assert (Hrp : << sr st, p >> = << sr st, sr st >>).
    { destruct (sprev st) as [rrp|].
      - destruct Hp as [Hrrp ->]. rewrite dot_vadd_r, dot_vscale_r, Hsm. field. exact Hrrp.
      - rewrite Hp, Hsm. reflexivity. }
    rewrite Hop_sub, He, !Hop_scale. rewrite dot_vsub_l, !dot_vsub_r, !dot_vscale_l, !dot_vscale_r.
    rewrite (dot_comm p (sr st)), Hrp, (Hop_sym e p), He, Hrp, Halpha. field. exact Hd.
  Qed.

  (* ================================================================ part 3: the statements about a whole run *)
  Lemma past_of_snoc_dirs st0 h1 s :
    exists r rest, past_of st0 (h1 ++ [s]) [] = (sp s, r) :: rest /\ map fst rest = rev (map (@sp F) h1)
                   /\ map snd ((sp s, r) :: rest) = rev (map (@sr F) (st0 :: h1)).
  Proof.
    pose proof (past_of_dirs (h1 ++ [s]) st0 []) as Hd. pose proof (past_of_res (h1 ++ [s]) st0 []) as Hr.
    rewrite map_app, rev_app_distr in Hd. cbn [map rev app] in Hd. rewrite app_nil_r in Hd.
    change (st0 :: h1 ++ [s]) with ((st0 :: h1) ++ [s]) in Hr. rewrite removelast_last in Hr. cbn [map] in Hr. rewrite app_nil_r in Hr.
    destruct (past_of st0 (h1 ++ [s]) []) as [|[p r] rest]; [discriminate|].
    cbn [map fst] in Hd. injection Hd as -> Hd. exists r, rest. repeat split; assumption.
  Qed.

  Lemma Forall_map_iff {A B} (f : A -> B) (P : B -> Prop) l : Forall P (map f l) <-> Forall (fun a => P (f a)) l.
  Proof. induction l as [|a l IH]; cbn; split; intros H; try constructor; inversion H; subst; try tauto. Qed.

  Section Run.
    Variables (b : vec) (x0 : option vec) (m : nat) (res : option vec) (h : list (state F)).
    Hypothesis Hx0 : x0v = sx (init b x0).
    Hypothesis Hrun : run b x0 m = (res, h).
    Variables (h1 : list (state F)) (s : state F) (h2 : list (state F)).
    Hypothesis Hsplit : h = h1 ++ s :: h2.

    (* the direction of an iteration is H-conjugate to the directions of all earlier iterations *)
    Theorem cg_conjugate : Forall (fun q : vec => << sp s, Hop q >> = 0) (map (@sp F) h1).
    Proof.
      pose proof (run_Inv b x0 m res h Hx0 Hrun h1 s h2 Hsplit) as (_ & _ & _ & Hcj & _).
      destruct (past_of_snoc_dirs (init b x0) h1 s) as (r & rest & E & Hd & _). rewrite E in Hcj.
      destruct Hcj as [Hc _]. apply Forall_rev in Hc.
      rewrite <- (rev_involutive (map (@sp F) h1)), <- Hd, <- map_rev. apply Forall_map_iff. exact Hc.
    Qed.

    (* the residual after an iteration is orthogonal to all directions used so far ... *)
    Theorem cg_residual_orth_dirs : Forall (fun q : vec => << sr s, q >> = 0) (map (@sp F) (h1 ++ [s])).
    Proof.
      pose proof (run_Inv b x0 m res h Hx0 Hrun h1 s h2 Hsplit) as (_ & Ho & _).
      pose proof (past_of_dirs (h1 ++ [s]) (init b x0) []) as Hd. cbn [map] in Hd. rewrite app_nil_r in Hd.
      rewrite <- (rev_involutive (map (@sp F) (h1 ++ [s]))), <- Hd. apply Forall_rev, Forall_map_iff. exact Ho.
    Qed.

    (* ... and to all earlier residuals, the initial one included *)
    Theorem cg_residual_orth_res : Forall (fun q : vec => << sr s, q >> = 0) (map (@sr F) (init b x0 :: h1)).
    Proof.
      pose proof (run_Inv b x0 m res h Hx0 Hrun h1 s h2 Hsplit) as (_ & _ & Ho & _).
      destruct (past_of_snoc_dirs (init b x0) h1 s) as (r & rest & E & _ & Hr). rewrite E in Ho.
      rewrite <- (rev_involutive (map (@sr F) (init b x0 :: h1))), <- Hr. apply Forall_rev, Forall_map_iff. exact Ho.
    Qed.

    (* the iterate lies in x0 + span of the directions used so far *)
    Theorem cg_iterate_in_span : exists cs, sx s = x0v +v lincomb cs (rev (map (@sp F) (h1 ++ [s]))).
    Proof.
      pose proof (run_Inv b x0 m res h Hx0 Hrun h1 s h2 Hsplit) as (_ & _ & _ & _ & (cs & Hx) & _).
      pose proof (past_of_dirs (h1 ++ [s]) (init b x0) []) as Hd. cbn [map] in Hd. rewrite app_nil_r in Hd.
      exists cs. rewrite <- Hd. exact Hx.
    Qed.

    Lemma s_in_h : In s h.
    Proof. rewrite Hsplit. apply in_or_app. right. left. reflexivity. Qed.

    (* Pythagoras in the H-inner product: moving away from the iterate inside the span of the directions
       adds exactly the squared H-norm of the displacement to the squared H-norm of the error *)
    Theorem cg_pythagoras : Hop xs = b -> forall cs,
      let d := lincomb cs (map (@sp F) (h1 ++ [s])) in errH (sx s +v d) = errH (sx s) + << d, Hop d >>.
    Proof.
      intros Hb cs d. apply (pythagoras b); [exact Hb| |].
      - pose proof (run_residual b x0 m res h Hrun) as HR. rewrite Forall_forall in HR. apply HR, s_in_h.
      - apply dot_lincomb. exact cg_residual_orth_dirs.
    Qed.
  End Run.

  (* consecutive states of a run are related by one loop pass *)
  Lemma iter_steps fuel : forall st res h, iter fuel st = (res, h) ->
    forall l1 s s' l2, st :: h = l1 ++ s :: s' :: l2 -> step s = Next s'.
  Proof.
    induction fuel as [|fuel IH]; intros st res h Hi l1 s s' l2 Hl; cbn [cg_iter] in Hi.
    - injection Hi as _ <-. destruct l1 as [|? [|? ?]]; discriminate.
    - destruct (step st) as [| |st'] eqn:Es; try (injection Hi as _ <-; destruct l1 as [|? [|? ?]]; discriminate).
      destruct (iter fuel st') as [res' h'] eqn:Ei. injection Hi as _ <-.
      destruct l1 as [|a l1]; cbn [app] in Hl.
      + injection Hl as <- <- _. exact Es.
      + injection Hl as _ Hl. eapply IH; eassumption.
  Qed.

  (* ---- order enters only here: an ordered field in which H is positive semi-definite *)
  Variable fle : F -> F -> Prop.
  Hypothesis fle_add_nonneg : forall a c, fle 0 c -> fle a (a + c).
  Hypothesis Hop_psd : forall d, fle 0 << d, Hop d >>.

  (* the iterate minimises the H-norm error over (iterate + span of the directions used so far) *)
  Theorem cg_optimal b x0 m res h h1 s h2 : x0v = sx (init b x0) -> run b x0 m = (res, h) -> h = h1 ++ s :: h2 ->
    Hop xs = b -> forall cs, fle (errH (sx s)) (errH (sx s +v lincomb cs (map (@sp F) (h1 ++ [s])))).
  Proof.
    intros Hx Hr Hs Hb cs. rewrite (cg_pythagoras b x0 m res h Hx Hr h1 s h2 Hs Hb cs).
    apply fle_add_nonneg, Hop_psd.
  Qed.

  (* the H-norm error never increases from one iterate to the next *)
  Theorem cg_monotone b x0 m res h l1 s s' l2 : x0v = sx (init b x0) -> run b x0 m = (res, h) ->
    init b x0 :: h = l1 ++ s :: s' :: l2 -> Hop xs = b -> fle (errH (sx s')) (errH (sx s)).
  Proof.
    intros Hx Hr Hl Hb.
    assert (Hi : iter m (init b x0) = (res, h)).
    { unfold cg_run in Hr. destruct (feqb _ _); [|exact Hr]. injection Hr as _ <-. destruct l1 as [|? [|? ?]]; discriminate. }
    pose proof (iter_steps m _ _ _ Hi _ _ _ _ Hl) as Hstep.
    assert (HR : Rinv b s).
    { destruct l1 as [|a l1]; cbn [app] in Hl; injection Hl as <- Hl; [apply init_residual|].
      pose proof (run_residual b x0 m res h Hr) as HR. rewrite Forall_forall in HR. apply HR. rewrite Hl.
      apply in_or_app. right. left. reflexivity. }
    assert (Hsm : match sprev s with None => sp s = sr s | Some rrp => << sr s, sp s >> = 0 end).
    { destruct l1 as [|a l1]; cbn [app] in Hl; injection Hl as <- Hl; [reflexivity|].
      pose proof (run_Inv b x0 m res h Hx Hr l1 s (s' :: l2) Hl) as (_ & Ho & _ & _ & _ & Hh).
      destruct (past_of_snoc_dirs (init b x0) l1 s) as (r & rest & E & _). rewrite E in Ho, Hh.
      destruct Hh as (_ & Hprev & _). rewrite Hprev.
      apply Forall_cons_iff in Ho. exact (proj1 Ho). }
    destruct (step_error b s s' Hb HR Hsm Hstep) as [d ->]. apply fle_add_nonneg, Hop_psd.
  Qed.

  (* ================================================================ part 4: the direction span is the Krylov space *)
  (* vectors of F^n; the span of a list of vectors as an inductive predicate *)
  Definition zerov : vec := repeat 0 n.
  Definition wfl (ps : list vec) : Prop := Forall (fun p : vec => length p = n) ps.

  Inductive span (ps : list vec) : vec -> Prop :=
  | span_zero : span ps zerov
  | span_add c p v : In p ps -> span ps v -> span ps (c *v p +v v).

  Lemma nth_zerov i : nth i zerov 0 = 0.
  Proof. apply nth_repeat. Qed.
  Lemma length_zerov : length zerov = n.
  Proof. apply repeat_length. Qed.

  Lemma span_length ps v : wfl ps -> span ps v -> length v = n.
  Proof.
    intros Hw. induction 1 as [|c p v Hin _ IH]; [apply length_zerov|].
    unfold wfl in Hw. rewrite Forall_forall in Hw. rewrite length_vadd, length_vscale, (Hw p Hin), IH. lia.
  Qed.

  Lemma span_mono ps qs v : incl ps qs -> span ps v -> span qs v.
  Proof. intros Hi. induction 1; [constructor|]. constructor; [apply Hi; assumption|assumption]. Qed.

  Lemma span_plus ps u v : wfl ps -> span ps u -> span ps v -> span ps (u +v v).
  Proof.
    intros Hw Hu Hv. induction Hu as [|c p u Hin _ IH].
    - replace (zerov +v v) with v; [exact Hv|]. pose proof (span_length _ _ Hw Hv) as Hl. apply vec_ext.
      + rewrite length_vadd, length_zerov, Hl. lia.
      + intros i. rewrite nth_vadd, nth_zerov. ring.
    - rewrite vadd_assoc. constructor; assumption.
  Qed.

  Lemma span_scale ps a v : wfl ps -> span ps v -> span ps (a *v v).
  Proof.
    intros Hw. induction 1 as [|c p u Hin _ IH].
    - replace (a *v zerov) with zerov; [constructor|]. apply vec_ext.
      + now rewrite length_vscale.
      + intros i. rewrite nth_vscale, nth_zerov. ring.
    - replace (a *v (c *v p +v u)) with ((a * c) *v p +v a *v u); [constructor; assumption|].
      apply vec_ext.
      + repeat (rewrite ?length_vadd, ?length_vscale). lia.
      + intros i. repeat (rewrite ?nth_vadd, ?nth_vscale). ring.
  Qed.

  Lemma span_sub ps u v : wfl ps -> span ps u -> span ps v -> span ps (u -v v).
  Proof. intros Hw Hu Hv. rewrite vsub_as_add. apply span_plus; [assumption|assumption|]. apply span_scale; assumption. Qed.

  Lemma span_in ps p : length p = n -> In p ps -> span ps p.
  Proof.
    intros Hl Hin. replace p with (1 *v p +v zerov); [constructor; [assumption|constructor]|]. apply vec_ext.
    - rewrite length_vadd, length_vscale, length_zerov, Hl. lia.
    - intros i. rewrite nth_vadd, nth_vscale, nth_zerov. ring.
  Qed.

  Lemma span_trans A B v : wfl B -> (forall p, In p A -> span B p) -> span A v -> span B v.
  Proof.
    intros Hw HA. induction 1 as [|c p u Hin _ IH]; [constructor|].
    apply span_plus; [assumption| |assumption]. apply span_scale; [assumption|]. apply HA. assumption.
  Qed.

  Lemma dot_zerov_r w : << w, zerov >> = 0.
  Proof.
    unfold zerov. generalize n. induction w as [|a w IH]; intros k; [reflexivity|].
    destruct k; cbn; [reflexivity|]. rewrite IH. ring.
  Qed.

  Lemma span_orth ps w v : Forall (fun p : vec => << w, p >> = 0) ps -> span ps v -> << w, v >> = 0.
  Proof.
    intros Ho. induction 1 as [|c p u Hin _ IH]; [apply dot_zerov_r|].
    rewrite Forall_forall in Ho. rewrite dot_vadd_r, dot_vscale_r, (Ho p Hin), IH. ring.
  Qed.

  Lemma Hop_zerov : Hop zerov = zerov.
  Proof.
    assert (E : zerov = 0 *v zerov).
    { apply vec_ext; [now rewrite length_vscale|]. intros i. rewrite nth_vscale, nth_zerov. ring. }
    rewrite E at 1. rewrite Hop_scale. apply vec_ext.
    - rewrite length_vscale, Hop_len, length_zerov. reflexivity.
    - intros i. rewrite nth_vscale, nth_zerov. ring.
  Qed.

  Lemma span_Hop A B v : wfl B -> (forall p, In p A -> span B (Hop p)) -> span A v -> span B (Hop v).
  Proof.
    intros Hw HA. induction 1 as [|c p u Hin _ IH]; [rewrite Hop_zerov; constructor|].
    rewrite Hop_add, Hop_scale. apply span_plus; [assumption| |assumption]. apply span_scale; [assumption|]. apply HA. assumption.
  Qed.

  (* Krylov list [r0; H r0; ..; H^(k-1) r0] (as a set: r0 and the images of the previous list) *)
  Variable r0v : vec.
  Hypothesis r0v_len : length r0v = n.
  Fixpoint kry (k : nat) : list vec := match k with O => [] | S k' => r0v :: map Hop (kry k') end.

  Lemma kry_wfl k : wfl (kry k).
  Proof.
    induction k as [|k IH]; [constructor|]. cbn [kry]. constructor; [exact r0v_len|].
    apply Forall_forall. intros w Hw. apply in_map_iff in Hw. destruct Hw as (u & <- & _). apply Hop_len.
  Qed.

  Lemma kry_incl k : incl (kry k) (kry (S k)).
  Proof.
    induction k as [|k IH]; [intros x []|]. change (kry (S (S k))) with (r0v :: map Hop (kry (S k))).
    change (kry (S k)) with (r0v :: map Hop (kry k)) at 1.
    apply incl_cons; [left; reflexivity|]. apply incl_tl. apply incl_map. exact IH.
  Qed.

  Lemma span_Hop_kry k v : span (kry k) v -> span (kry (S k)) (Hop v).
  Proof.
    apply span_Hop; [apply kry_wfl|]. intros p Hp. apply span_in; [apply Hop_len|].
    cbn [kry]. right. apply in_map. exact Hp.
  Qed.

  Lemma chain_span (S : list vec) : wfl S -> forall (L : list entry) rc, chain rc L -> length rc = n ->
    Forall (fun e : entry => length (snd e) = n) L -> span S rc -> Forall (fun e : entry => span S (snd e)) L ->
    Forall (fun e : entry => span S (Hop (fst e))) L.
  Proof.
    intros HS. induction L as [|[p r] L IH]; intros rc Hc Hlrc Hl Hrc Hr; [constructor|].
    destruct Hc as [(a & Ha & Erc) [_ Hc]].
    apply Forall_cons_iff in Hl. destruct Hl as [Hl1 Hl2]. apply Forall_cons_iff in Hr. destruct Hr as [Hr1 Hr2].
    cbn [fst snd] in *. constructor; [|eapply IH; eassumption].
    cbn [fst]. replace (Hop p) with ((1 / a) *v (r -v rc)).
    - apply span_scale; [assumption|]. apply span_sub; assumption.
    - apply vec_ext.
      + rewrite length_vscale, length_vsub, Hop_len, Hl1, Hlrc. lia.
      + intros i. rewrite nth_vscale, nth_vsub, Erc, nth_vsub, nth_vscale. field. exact Ha.
  Qed.

  Definition Inv2 (past : list entry) (st : state F) : Prop :=
    length (sr st) = n /\ length (sp st) = n /\
    Forall (fun e : entry => length (fst e) = n /\ length (snd e) = n) past /\
    Forall (span (kry (length past))) (map fst past) /\
    span (kry (S (length past))) (sr st) /\
    Forall (span (map fst past)) (kry (length past)) /\
    Forall (span (map fst past)) (map snd past) /\
    (exists dk, span (map fst past) dk /\ sx st = x0v +v dk) /\
    (past = [] -> sr st = r0v).

  Lemma step_Inv2 past st st' : Inv past st -> Inv2 past st -> step st = Next st' ->
    Inv2 ((sp st', sr st) :: past) st'.
  Proof.
    intros HI (Hlr & Hlp & Hwf & S1 & S2 & S3 & S5 & (dk & Hdk & Hx) & Hnil) Hs.
    destruct HI as (Hch & _ & _ & _ & _ & Hhead).
    apply step_next in Hs. cbn zeta in Hs. destruct Hs as [Hrr (p & alpha & Hp & Hd & Halpha & ->)].
    cbn [sp sr sx sprev].
    assert (HwD : wfl (map fst past)).
    { apply Forall_map_iff. eapply Forall_impl; [|exact Hwf]. intros e [H1 _]. exact H1. }
    assert (Hlen_p : length p = n).
    { destruct (sprev st); [destruct Hp as [_ ->]; rewrite length_vadd, length_vscale; lia | rewrite Hp; exact Hlp]. }
    assert (HwD' : wfl (p :: map fst past)) by (constructor; assumption).
    (* the new direction lies in the Krylov space of the next order *)
    assert (Hpk : span (kry (S (length past))) p).
    { destruct past as [|[p1 r1] rest].
      - destruct Hhead as [Hprev Hsp]. rewrite Hprev in Hp. rewrite Hp, Hsp. exact S2.
      - destruct Hhead as (Hsp & Hprev & _). rewrite Hprev in Hp. destruct Hp as [_ ->].
        apply span_plus; [apply kry_wfl|exact S2|]. apply span_scale; [apply kry_wfl|]. rewrite Hsp.
        eapply span_mono; [apply kry_incl|]. apply Forall_cons_iff in S1. exact (proj1 S1). }
    (* the current residual lies in the span of the directions including the new one *)
    assert (HrD : span (p :: map fst past) (sr st)).
    { destruct past as [|[p1 r1] rest].
      - destruct Hhead as [Hprev Hsp]. rewrite Hprev in Hp. rewrite Hp, Hsp. apply span_in; [exact Hlr|left; reflexivity].
      - destruct Hhead as (Hsp & Hprev & _). rewrite Hprev in Hp. destruct Hp as [_ Ep].
        replace (sr st) with (p -v (<< sr st, sr st >> / << r1, r1 >>) *v p1).
        + apply span_sub; [exact HwD'| |].
          * apply span_in; [exact Hlen_p|left; reflexivity].
          * apply span_scale; [exact HwD'|]. apply span_in; [|right; left; reflexivity].
            apply Forall_cons_iff in Hwf. exact (proj1 (proj1 Hwf)).
        + rewrite Ep, Hsp. apply vec_ext.
          * apply Forall_cons_iff in Hwf. destruct Hwf as [[Hl1 _] _]. cbn [fst] in Hl1.
            rewrite length_vsub, length_vadd, !length_vscale, Hlr, Hl1. lia.
          * intros i. rewrite nth_vsub, nth_vadd, !nth_vscale. ring. }
    (* H maps the old directions into the span of the new list of directions *)
    assert (HHD : forall q, In q (map fst past) -> span (p :: map fst past) (Hop q)).
    { assert (HF : Forall (fun e : entry => span (p :: map fst past) (Hop (fst e))) past).
      { apply (chain_span _ HwD' past (sr st) Hch Hlr).
        - eapply Forall_impl; [|exact Hwf]. intros e [_ H2]. exact H2.
        - exact HrD.
        - pose proof (proj1 (Forall_map_iff (@snd vec vec) _ past) S5) as S5'. eapply Forall_impl; [|exact S5']. intros e He.
          eapply span_mono; [|exact He]. apply incl_tl, incl_refl. }
      intros q Hq. apply in_map_iff in Hq. destruct Hq as (e & <- & He). rewrite Forall_forall in HF. exact (HF e He). }
    unfold Inv2. cbn [sp sr sx sprev length map fst snd].
    split; [rewrite length_vsub, length_vscale, Hop_len, Hlr; lia|].
    split; [exact Hlen_p|].
    split; [constructor; [cbn [fst snd]; split; assumption|exact Hwf]|].
    split.
    { constructor; [exact Hpk|]. eapply Forall_impl; [|exact S1]. intros q Hq. eapply span_mono; [apply kry_incl|exact Hq]. }
    split.
    { apply span_sub; [apply kry_wfl| |].
      - eapply span_mono; [apply kry_incl|exact S2].
      - apply span_scale; [apply kry_wfl|]. apply span_Hop_kry. exact Hpk. }
    split.
    { change (kry (S (length past))) with (r0v :: map Hop (kry (length past))). constructor.
      - destruct past as [|e rest].
        + rewrite <- (Hnil eq_refl). exact HrD.
        + cbn [length kry] in S3. apply Forall_cons_iff in S3. eapply span_mono; [|exact (proj1 S3)]. apply incl_tl, incl_refl.
      - apply Forall_map_iff. eapply Forall_impl; [|exact S3]. intros w Hw.
        exact (span_Hop _ _ _ HwD' HHD Hw). }
    split.
    { constructor; [exact HrD|]. eapply Forall_impl; [|exact S5]. intros w Hw. eapply span_mono; [|exact Hw]. apply incl_tl, incl_refl. }
    split.
    { exists (alpha *v p +v dk). split.
      - constructor; [left; reflexivity|]. eapply span_mono; [|exact Hdk]. apply incl_tl, incl_refl.
      - rewrite Hx. apply vec_ext.
        + repeat (rewrite ?length_vadd, ?length_vscale). lia.
        + intros i. repeat (rewrite ?nth_vadd, ?nth_vscale). ring. }
    discriminate.
  Qed.

  Lemma iter_Inv2 fuel : forall st past res h, Inv past st -> Inv2 past st -> iter fuel st = (res, h) ->
    forall h1 s h2, h = h1 ++ s :: h2 -> Inv2 (past_of st (h1 ++ [s]) past) s.
  Proof.
    induction fuel as [|fuel IH]; intros st past res h HI HI2 Hi h1 s h2 Hh; cbn [cg_iter] in Hi.
    - injection Hi as _ <-. destruct h1; discriminate.
    - destruct (step st) as [| |st'] eqn:Es; try (injection Hi as _ <-; destruct h1; discriminate).
      destruct (iter fuel st') as [res' h'] eqn:Ei. injection Hi as _ <-.
      pose proof (step_Inv _ _ _ HI Es) as HI'. pose proof (step_Inv2 _ _ _ HI HI2 Es) as HI2'.
      destruct h1 as [|s1 h1]; cbn [app] in Hh; injection Hh as <- Hh.
      + cbn [app past_of]. exact HI2'.
      + cbn [app past_of]. eapply IH; eassumption.
  Qed.

  Lemma past_of_length h : forall prev acc, length (past_of prev h acc) = (length h + length acc)%nat.
  Proof. induction h as [|s h IH]; intros prev acc; cbn [past_of length]; [reflexivity|]. rewrite IH. cbn. lia. Qed.

  Section RunK.
    Variables (b : vec) (x0 : option vec) (m : nat) (res : option vec) (h : list (state F)).
    Hypothesis Hx0 : x0v = sx (init b x0).
    Hypothesis Hx0len : length x0v = n.
    Hypothesis Hblen : length b = n.
    Hypothesis Hr0 : r0v = sr (init b x0).
    Hypothesis Hrun : run b x0 m = (res, h).
    Variables (h1 : list (state F)) (s : state F) (h2 : list (state F)).
    Hypothesis Hsplit : h = h1 ++ s :: h2.

    Lemma Inv2_init : Inv2 [] (init b x0).
    Proof.
      unfold Inv2. cbn [length map kry]. rewrite <- Hr0.
      assert (Hl : length (sp (init b x0)) = n) by (change (length (sr (init b x0)) = n); rewrite <- Hr0; exact r0v_len).
      repeat split; try constructor; try exact r0v_len; try exact Hl.
      - apply span_in; [exact r0v_len|left; reflexivity].
      - exists zerov. split; [constructor|]. rewrite <- Hx0. apply vec_ext.
        + rewrite length_vadd, length_zerov, Hx0len. lia.
        + intros i. rewrite nth_vadd, nth_zerov. ring.
    Qed.

    Lemma run_Inv2 : Inv2 (past_of (init b x0) (h1 ++ [s]) []) s.
    Proof.
      unfold cg_run in Hrun. destruct (feqb _ _).
      - injection Hrun as _ E. rewrite <- E in Hsplit. destruct h1; discriminate.
      - eapply iter_Inv2; [apply Inv_init; exact Hx0 | apply Inv2_init | exact Hrun | exact Hsplit].
    Qed.

    Let dirs := map (@sp F) (h1 ++ [s]).
    Let k := length (h1 ++ [s]).

    Lemma past_dirs : map fst (past_of (init b x0) (h1 ++ [s]) []) = rev dirs.
    Proof. rewrite past_of_dirs. cbn [map]. apply app_nil_r. Qed.
    Lemma past_len : length (past_of (init b x0) (h1 ++ [s]) []) = k.
    Proof. rewrite past_of_length. cbn. unfold k. lia. Qed.

    Lemma dirs_wfl : wfl dirs.
    Proof.
      pose proof run_Inv2 as (_ & _ & Hwf & _).
      assert (Hw : wfl (rev dirs)).
      { rewrite <- past_dirs. apply Forall_map_iff. eapply Forall_impl; [|exact Hwf]. intros e [H1 _]. exact H1. }
      apply Forall_rev in Hw. rewrite rev_involutive in Hw. exact Hw.
    Qed.

    (* both inclusions: span{p_0..p_(k-1)} = span{r0, H r0, .., H^(k-1) r0} *)
    Theorem cg_krylov v : span dirs v <-> span (kry k) v.
    Proof.
      pose proof run_Inv2 as (_ & _ & _ & S1 & _ & S3 & _). rewrite past_dirs, past_len in S1, S3. split.
      - apply span_trans; [apply kry_wfl|]. intros p Hp. rewrite Forall_forall in S1. apply S1. apply in_rev in Hp. exact Hp.
      - apply span_trans; [apply dirs_wfl|]. intros p Hp. rewrite Forall_forall in S3.
        eapply span_mono; [|exact (S3 p Hp)]. intros q Hq. apply in_rev. exact Hq.
    Qed.

    (* the iterate lies in x0 + K_k *)
    Theorem cg_iterate_in_krylov : exists d, span (kry k) d /\ sx s = x0v +v d.
    Proof.
      pose proof run_Inv2 as (_ & _ & _ & _ & _ & _ & _ & (dk & Hdk & Hx) & _). rewrite past_dirs in Hdk.
      exists dk. split; [|exact Hx]. apply cg_krylov. eapply span_mono; [|exact Hdk]. intros q Hq. apply in_rev. exact Hq.
    Qed.

    (* Pythagoras over the whole affine Krylov space: for every y = x0 + d, d in K_k,
       errH(y) = errH(x_k) + |y - x_k|_H^2 *)
    Theorem cg_krylov_pythagoras d : Hop xs = b -> span (kry k) d ->
      exists e, errH (x0v +v d) = errH (sx s) + << e, Hop e >>.
    Proof.
      intros Hb Hd. destruct cg_iterate_in_krylov as (dk & Hdk & Hx).
      exists (d -v dk).
      assert (He : span dirs (d -v dk)) by (apply cg_krylov; apply span_sub; [apply kry_wfl|assumption|assumption]).
      assert (E : x0v +v d = sx s +v (d -v dk)).
      { rewrite Hx. pose proof (span_length _ _ (kry_wfl k) Hd) as L1. pose proof (span_length _ _ (kry_wfl k) Hdk) as L2.
        apply vec_ext.
        - repeat (rewrite ?length_vadd, ?length_vsub). lia.
        - intros i. repeat (rewrite ?nth_vadd, ?nth_vsub). ring. }
      rewrite E. apply (pythagoras b); [exact Hb| |].
      - pose proof (run_residual b x0 m res h Hrun) as HR. rewrite Forall_forall in HR. apply HR. rewrite Hsplit.
        apply in_or_app. right. left. reflexivity.
      - apply (span_orth dirs); [|exact He].
        exact (cg_residual_orth_dirs b x0 m res h Hx0 Hrun h1 s h2 Hsplit).
    Qed.
  End RunK.

  (* x_k minimises the H-norm error over x0 + span{r0, H r0, .., H^(k-1) r0} *)
  Theorem cg_optimal_krylov b x0 m res h h1 s h2 : x0v = sx (init b x0) -> length x0v = n -> length b = n ->
    r0v = sr (init b x0) -> run b x0 m = (res, h) -> h = h1 ++ s :: h2 -> Hop xs = b ->
    forall d, span (kry (length (h1 ++ [s]))) d -> fle (errH (sx s)) (errH (x0v +v d)).
  Proof.
    intros Hx Hxl Hbl Hr Hrun Hs Hb d Hd.
    destruct (cg_krylov_pythagoras b x0 m res h Hx Hxl Hbl Hr Hrun h1 s h2 Hs d Hb Hd) as [e ->].
    apply fle_add_nonneg, Hop_psd.
  Qed.

  (* ================================================================ part 5: at most n non-isotropic orthogonal vectors in F^n;
     exact solution within n iterations *)

  (* value at coordinate i of the formal combination sum_j c_j v_j *)
  Fixpoint val (i : nat) (ts : list (F * vec)) : F :=
    match ts with [] => 0 | (c, v) :: ts' => c * nth i v 0 + val i ts' end.

  Definition LD (vs : list vec) : Prop :=
    exists cs, length cs = length vs /\ Exists (fun c => c <> 0) cs /\ forall i, val i (combine cs vs) = 0.

  Lemma val_perm i ts ts' : Permutation ts ts' -> val i ts = val i ts'.
  Proof.
    induction 1 as [|[c v] l l' _ IH|[c v] [c' v'] l|l l' l'' _ IH1 _ IH2]; cbn [val]; try reflexivity.
    - now rewrite IH.
    - ring.
    - now rewrite IH1.
  Qed.

  Lemma combine_fst_snd {A B} (l : list (A * B)) : combine (map fst l) (map snd l) = l.
  Proof. induction l as [|[a b] l IH]; cbn; [reflexivity|]. now rewrite IH. Qed.

  Lemma map_snd_combine {A B} (l1 : list A) : forall l2 : list B, length l1 = length l2 -> map snd (combine l1 l2) = l2.
  Proof. induction l1 as [|a l1 IH]; intros [|b l2] Hl; try discriminate; cbn; [reflexivity|]. rewrite IH; [reflexivity|now injection Hl]. Qed.
  Lemma map_fst_combine {A B} (l1 : list A) : forall l2 : list B, length l1 = length l2 -> map fst (combine l1 l2) = l1.
  Proof. induction l1 as [|a l1 IH]; intros [|b l2] Hl; try discriminate; cbn; [reflexivity|]. rewrite IH; [reflexivity|now injection Hl]. Qed.

  Lemma LD_perm vs vs' : Permutation vs vs' -> LD vs -> LD vs'.
  Proof.
    intros Hp (cs & Hl & Hnz & Hv).
    assert (Hp' : Permutation vs' (map snd (combine cs vs))) by (rewrite map_snd_combine by exact Hl; symmetry; exact Hp).
    apply Permutation_map_inv in Hp'. destruct Hp' as (ts & -> & Hpt).
    exists (map fst ts). split; [now rewrite !map_length|]. split.
    - apply Exists_exists in Hnz. destruct Hnz as (c & Hc & Hne). apply Exists_exists. exists c. split; [|exact Hne].
      apply (Permutation_in c (Permutation_map fst Hpt)). rewrite map_fst_combine by exact Hl. exact Hc.
    - intros i. rewrite combine_fst_snd, <- (val_perm i _ _ Hpt). apply Hv.
  Qed.

  Lemma nth_tl (v : vec) i : nth i (tl v) 0 = nth (S i) v 0.
  Proof. destruct v; [destruct i; reflexivity|reflexivity]. Qed.

  Lemma val_tl cs : forall vs i, val i (combine cs (map (@tl F) vs)) = val (S i) (combine cs vs).
  Proof.
    induction cs as [|c cs IH]; intros [|v vs] i; cbn [map combine val]; try reflexivity. rewrite IH, nth_tl. reflexivity.
  Qed.

  Definition reduce (a : F) (w : vec) (v : vec) : vec := tl v -v (nth 0 v 0 / a) *v w.

  Lemma val_reduce a w cs : a <> 0 -> forall vs i,
    val i (combine cs (map (reduce a w) vs)) = val (S i) (combine cs vs) - (val 0 (combine cs vs) / a) * nth i w 0.
  Proof.
    intros Ha. induction cs as [|c cs IH]; intros [|v vs] i; cbn [map combine val]; try (field; exact Ha).
    rewrite IH. unfold reduce. rewrite nth_vsub, nth_vscale, nth_tl. field. exact Ha.
  Qed.

  Lemma first_coord_dec (vs : list vec) :
    Forall (fun v : vec => nth 0 v 0 = 0) vs \/ exists l1 a w l2, vs = l1 ++ (a :: w) :: l2 /\ a <> 0.
  Proof.
    induction vs as [|v vs IH]; [left; constructor|].
    destruct (feqb (nth 0 v 0) 0) eqn:E.
    - apply feqb_spec in E. destruct IH as [IH|(l1 & a & w & l2 & -> & Ha)].
      + left. constructor; assumption.
      + right. exists (v :: l1), a, w, l2. split; [reflexivity|exact Ha].
    - right. destruct v as [|a w]; [cbn in E; rewrite (proj2 (feqb_spec 0 0) eq_refl) in E; discriminate|].
      exists [], a, w, vs. split; [reflexivity|]. cbn in E. intros Hc. apply feqb_spec in Hc. congruence.
  Qed.

  Lemma val0_all_zero (vs : list vec) : Forall (fun v : vec => nth 0 v 0 = 0) vs -> forall cs, val 0 (combine cs vs) = 0.
  Proof.
    induction 1 as [|v vs Hv _ IHz]; intros [|c cs]; cbn [combine val]; try reflexivity. rewrite Hv, IHz. ring.
  Qed.
  Lemma val_zero_coeffs (vs : list vec) i : val i (combine (map (fun _ : vec => 0) vs) vs) = 0.
  Proof. induction vs as [|u vs IH]; cbn [map combine val]; [reflexivity|]. rewrite IH. ring. Qed.

  (* more than d vectors of F^d are linearly dependent *)
  Lemma LD_dim : forall d (vs : list vec), Forall (fun v : vec => length v = d) vs -> (d < length vs)%nat -> LD vs.
  Proof.
    induction d as [|d IH]; intros vs Hw Hm.
    - destruct vs as [|v vs]; [cbn in Hm; lia|]. exists (1 :: map (fun _ => 0) vs). split; [cbn; now rewrite map_length|]. split.
      + left. exact (F_1_neq_0 Fth).
      + intros i. cbn [combine val]. apply Forall_cons_iff in Hw. destruct Hw as [Hv Hw].
        destruct v; [|discriminate]. rewrite val_zero_coeffs. destruct i; cbn; ring.
    - destruct (first_coord_dec vs) as [Hz|(l1 & a & w & l2 & -> & Ha)].
      + (* all first coordinates vanish: drop the coordinate *)
        destruct (IH (map (@tl F) vs)) as (cs & Hl & Hnz & Hv).
        * apply Forall_map_iff. eapply Forall_impl; [|exact Hw]. intros v Hv. destruct v; [discriminate|]. cbn in *. lia.
        * rewrite map_length. lia.
        * rewrite map_length in Hl. exists cs. split; [exact Hl|]. split; [exact Hnz|].
          intros [|i]; [apply val0_all_zero; exact Hz|rewrite <- val_tl; apply Hv].
      + (* pivot on a vector with non-zero first coordinate *)
        apply (LD_perm ((a :: w) :: l1 ++ l2)); [apply Permutation_middle|].
        assert (Hw' : Forall (fun v : vec => length v = S d) ((a :: w) :: l1 ++ l2)).
        { eapply Permutation_Forall; [symmetry; apply Permutation_middle|exact Hw]. }
        apply Forall_cons_iff in Hw'. destruct Hw' as [Hlw Hwr]. cbn in Hlw.
        set (rest := l1 ++ l2) in *.
        assert (Hlen : length rest = (length (l1 ++ (a :: w) :: l2) - 1)%nat) by (unfold rest; rewrite !app_length; cbn; lia).
        destruct (IH (map (reduce a w) rest)) as (cs & Hl & Hnz & Hv).
        * apply Forall_map_iff. eapply Forall_impl; [|exact Hwr]. intros v Hv. unfold reduce.
          rewrite length_vsub, length_vscale. destruct v; [discriminate|]. cbn in *. lia.
        * rewrite map_length. lia.
        * rewrite map_length in Hl.
          exists ((0 - val 0 (combine cs rest) / a) :: cs). split; [cbn; now rewrite Hl|]. split; [right; exact Hnz|].
          intros i. cbn [combine val]. destruct i as [|i].
          -- cbn [nth]. field. exact Ha.
          -- cbn [nth]. pose proof (Hv i) as Hvi. rewrite (val_reduce a w cs Ha) in Hvi.
             transitivity (val (S i) (combine cs rest) - val 0 (combine cs rest) / a * nth i w 0); [field; exact Ha|exact Hvi].
  Qed.

  Fixpoint sumdots (cs : list F) (vs : list vec) (w : vec) : F :=
    match cs, vs with c :: cs', v :: vs' => c * << v, w >> + sumdots cs' vs' w | _, _ => 0 end.

  Lemma dot_lincomb_l cs : forall vs w, << lincomb cs vs, w >> = sumdots cs vs w.
  Proof.
    induction cs as [|c cs IH]; intros [|v vs] w; cbn [lincomb sumdots]; try apply dot_nil_l.
    rewrite dot_vadd_l, dot_vscale_l, IH. reflexivity.
  Qed.

  Lemma nth_lincomb cs : forall vs i, nth i (lincomb cs vs) 0 = val i (combine cs vs).
  Proof.
    induction cs as [|c cs IH]; intros [|v vs] i; cbn [lincomb combine val]; try (destruct i; reflexivity).
    rewrite nth_vadd, nth_vscale, IH. reflexivity.
  Qed.

  Lemma dot_pointwise_zero (u : vec) : (forall i, nth i u 0 = 0) -> forall w, << u, w >> = 0.
  Proof.
    induction u as [|a u IH]; intros Hz w; [reflexivity|]. destruct w as [|b w]; [reflexivity|]. cbn.
    rewrite (Hz O : a = 0), IH; [ring|]. intros i. exact (Hz (S i)).
  Qed.

  Lemma sumdots_orth v (vs : list vec) : Forall (fun u : vec => << v, u >> = 0) vs -> forall cs, sumdots cs vs v = 0.
  Proof.
    induction 1 as [|u vs Hu _ IHv]; intros [|c' cs']; cbn [sumdots]; try reflexivity. rewrite dot_comm, Hu, IHv. ring.
  Qed.

  Lemma orth_coeffs_zero (vs : list vec) : ForallOrdPairs (fun u v : vec => << u, v >> = 0) vs ->
    Forall (fun v : vec => << v, v >> <> 0) vs ->
    forall cs, length cs = length vs -> (forall w, In w vs -> sumdots cs vs w = 0) -> Forall (fun c => c = 0) cs.
  Proof.
    induction 1 as [|v vs Hv _ IH]; intros Hnz cs Hl Hs; [destruct cs; [constructor|discriminate]|].
    destruct cs as [|c cs]; [discriminate|]. apply Forall_cons_iff in Hnz. destruct Hnz as [Hvv Hnz].
    assert (Htail : forall cs', sumdots cs' vs v = 0) by (apply sumdots_orth; exact Hv).
    assert (Hc : c = 0).
    { pose proof (Hs v (or_introl eq_refl)) as H0. cbn [sumdots] in H0. rewrite Htail in H0.
      apply (fmul_zero_inv << v, v >>); [exact Hvv|]. transitivity (c * << v, v >> + 0); [ring|exact H0]. }
    constructor; [exact Hc|]. apply IH; [exact Hnz|now injection Hl|].
    intros w Hw. pose proof (Hs w (or_intror Hw)) as H0. cbn [sumdots] in H0. rewrite Hc in H0.
    transitivity (0 * << v, w >> + sumdots cs vs w); [ring|exact H0].
  Qed.

  (* at most d mutually orthogonal vectors with <v,v> <> 0 in F^d *)
  Theorem orthogonal_family_bound d (vs : list vec) : Forall (fun v : vec => length v = d) vs ->
    ForallOrdPairs (fun u v : vec => << u, v >> = 0) vs -> Forall (fun v : vec => << v, v >> <> 0) vs -> (length vs <= d)%nat.
  Proof.
    intros Hw Ho Hnz. destruct (le_lt_dec (length vs) d) as [|Hlt]; [assumption|exfalso].
    destruct (LD_dim d vs Hw Hlt) as (cs & Hl & Hex & Hv).
    assert (Hz : Forall (fun c => c = 0) cs).
    { apply (orth_coeffs_zero vs Ho Hnz cs Hl). intros w _. rewrite <- dot_lincomb_l. apply dot_pointwise_zero.
      intros i. rewrite nth_lincomb. apply Hv. }
    apply Exists_exists in Hex. destruct Hex as (c & Hc & Hne). rewrite Forall_forall in Hz. exact (Hne (Hz c Hc)).
  Qed.

  (* ---- the run: with tolerance 0 and a budget of at least n the final residual vanishes *)
  Lemma step_stop_tol0 st : Dinv st -> tol = 0 -> step st = Stop -> << sr st, sr st >> = 0.
  Proof.
    intros HD Ht Hs. pose proof (step_stop_definite st HD Hs) as H.
    rewrite (proj2 (feqb_spec tol 0) Ht) in H. cbn [negb andb] in H. rewrite orb_false_r in H. apply feqb_spec. exact H.
  Qed.

  Lemma iter_end fuel : forall st y h, iter fuel st = (Some y, h) -> length h = fuel \/ step (last h st) = Stop.
  Proof.
    induction fuel as [|fuel IH]; intros st y h Hi; cbn [cg_iter] in Hi.
    - injection Hi as _ <-. left. reflexivity.
    - destruct (step st) as [| |st'] eqn:Es; try discriminate.
      + injection Hi as _ <-. right. exact Es.
      + destruct (iter fuel st') as [r' h'] eqn:Ei. injection Hi as -> <-. destruct (IH _ _ _ Ei) as [Hl|Hs].
        * left. cbn. now rewrite Hl.
        * right. rewrite last_cons_default. exact Hs.
  Qed.

  Lemma iter_lengths fuel : forall st res h, length (sr st) = n -> iter fuel st = (res, h) ->
    Forall (fun s => length (sr s) = n) h.
  Proof.
    induction fuel as [|fuel IH]; intros st res h Hl Hi; cbn [cg_iter] in Hi.
    - injection Hi as _ <-. constructor.
    - destruct (step st) as [| |st'] eqn:Es; try (injection Hi as _ <-; constructor).
      destruct (iter fuel st') as [r' h'] eqn:Ei. injection Hi as _ <-.
      assert (Hl' : length (sr st') = n).
      { apply step_next in Es. destruct Es as [_ (p & alpha & _ & _ & _ & ->)]. cbn [sr].
        rewrite length_vsub, length_vscale, Hop_len, Hl. lia. }
      constructor; [exact Hl'|]. eapply IH; eassumption.
  Qed.

  Lemma FOP_of_prefixes {A} (P : A -> A -> Prop) (a0 : A) (l : list A) :
    (forall l1 a l2, l = l1 ++ a :: l2 -> Forall (P a) (a0 :: l1)) -> ForallOrdPairs P (rev (a0 :: l)).
  Proof.
    induction l as [|a l IH] using rev_ind; intros Hp; [cbn; constructor; constructor|].
    change (a0 :: l ++ [a]) with ((a0 :: l) ++ [a]). rewrite rev_unit. constructor.
    - apply Forall_rev. apply (Hp l a []). reflexivity.
    - apply IH. intros l1 a' l2 E. apply (Hp l1 a' (l2 ++ [a])). rewrite E, <- app_assoc. reflexivity.
  Qed.

  Lemma FOP_map {A B} (f : A -> B) (P : B -> B -> Prop) l :
    ForallOrdPairs (fun a a' => P (f a) (f a')) l -> ForallOrdPairs P (map f l).
  Proof. induction 1 as [|a l Ha _ IH]; cbn [map]; constructor; [apply Forall_map_iff; exact Ha|exact IH]. Qed.

  Theorem cg_exact_within_n b x0 m y h : tol = 0 -> (n <= m)%nat -> length b = n -> x0v = sx (init b x0) ->
    run b x0 m = (Some y, h) -> << b -v Hop y, b -v Hop y >> = 0.
  Proof.
    intros Ht Hnm Hb Hx Hrun.
    assert (HR : Rinv b (last h (init b x0))).
    { pose proof (run_residual b x0 m _ _ Hrun) as HF. destruct h as [|s0 h'] using rev_ind; [apply init_residual|].
      rewrite last_last. rewrite Forall_forall in HF. apply HF. apply in_or_app. right. left. reflexivity. }
    assert (Hlen0 : length (sr (init b x0)) = n) by (unfold cg_init; cbn [sr]; rewrite length_vsub, Hop_len, Hb; lia).
    unfold cg_run in Hrun. destruct (feqb << sr (init b x0), sr (init b x0) >> 0) eqn:E0.
    - injection Hrun as <- <-. apply feqb_spec in E0. exact E0.
    - pose proof (iter_result m _ _ _ Hrun) as Hy. rewrite Hy. unfold Rinv in HR. rewrite <- HR.
      assert (HDl : Dinv (last h (init b x0))).
      { pose proof (iter_Dinv m _ _ _ (init_Dinv b x0 Hb) Hrun) as HF. destruct h as [|s0 h'] using rev_ind; [apply init_Dinv; exact Hb|].
        rewrite last_last. rewrite Forall_forall in HF. apply HF. apply in_or_app. right. left. reflexivity. }
      destruct (iter_end m _ _ _ Hrun) as [Hfull|Hstop]; [|apply step_stop_tol0; assumption].
      destruct (feqb << sr (last h (init b x0)), sr (last h (init b x0)) >> 0) eqn:El; [apply feqb_spec; exact El|exfalso].
      assert (Hlast : << sr (last h (init b x0)), sr (last h (init b x0)) >> <> 0) by (intros Hc; apply feqb_spec in Hc; congruence).
      set (R := rev (map (@sr F) (init b x0 :: h))).
      assert (HlenR : length R = S m) by (unfold R; rewrite rev_length, map_length; cbn; now rewrite Hfull).
      assert (Hbound : (length R <= n)%nat).
      { apply orthogonal_family_bound.
        - unfold R. apply Forall_rev, Forall_map_iff. constructor; [exact Hlen0|]. eapply iter_lengths; eassumption.
        - unfold R. rewrite <- map_rev. cbn [map]. rewrite map_rev.
          assert (Hfop : ForallOrdPairs (fun s s' : state F => << sr s, sr s' >> = 0) (rev (init b x0 :: h))).
          { apply FOP_of_prefixes. intros l1 a l2 Hs.
            assert (Hrun' : run b x0 m = (Some y, h)) by (unfold cg_run; rewrite E0; exact Hrun).
            pose proof (cg_residual_orth_res b x0 m (Some y) h Hx Hrun' l1 a l2 Hs) as Ho.
            apply Forall_map_iff in Ho. exact Ho. }
          rewrite <- map_rev. apply FOP_map. exact Hfop.
        - unfold R. apply Forall_rev, Forall_map_iff. apply Forall_forall. intros s Hs.
          destruct (in_split _ _ Hs) as (l1 & l2 & El12). destruct l2 as [|s' l2].
          + assert (s = last h (init b x0)).
            { transitivity (last (init b x0 :: h) (init b x0)); [rewrite El12; symmetry; apply last_last|].
              destruct h; [reflexivity|]. apply last_cons_default. }
            subst s. exact Hlast.
          + pose proof (iter_steps m _ _ _ Hrun _ _ _ _ El12) as Hst. apply step_next in Hst. exact (proj1 Hst). }
      lia.
  Qed.
End CGProofs.
