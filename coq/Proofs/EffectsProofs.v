(* Proofs about Model/Effects.v (C10). *)
From MrVerif Require Import Base.Prelude Model.Effects.

Local Open Scope nat_scope.

Lemma site_ok_spec allow s : site_ok allow s = true <->
  s_origin s = OFresh \/ exists a, In a allow /\ allow_matches s a = true.
Proof.
  unfold site_ok. rewrite orb_true_iff, existsb_exists. split; intros [H|H]; auto.
  - left. destruct (s_origin s); simpl in H; congruence.
  - left. now rewrite H.
Qed.

(* finite-domain lifting used by the regenerated obligation *)
Lemma table_ok_forall allow table : forallb (site_ok allow) table = true ->
  forall s, In s table -> s_origin s = OFresh \/ exists a, In a allow /\ allow_matches s a = true.
Proof. intros H s Hs. apply site_ok_spec. exact (proj1 (forallb_forall _ _) H s Hs). Qed.

(* ---- stores ---- *)
Lemma set_nth_length s i c : length (set_nth s i c) = length s.
Proof. revert i; induction s as [|x r IH]; intros [|i]; simpl; auto. Qed.

Lemma firstn_set_nth s i c n : n <= i -> firstn n (set_nth s i c) = firstn n s.
Proof.
  revert i n; induction s as [|x r IH]; intros i n Hn; destruct i, n; simpl; auto; try lia.
  f_equal. apply IH. lia.
Qed.

Lemma nth_firstn_lt {A} (l : list A) n i d : i < n -> nth i (firstn n l) d = nth i l d.
Proof.
  revert n i; induction l as [|x r IH]; intros n i Hi; destruct n, i; simpl; auto; try lia.
  apply IH. lia.
Qed.

Lemma read_vals_owned owned s s' c : forallb (fun i => i <? owned) (reads c) = true ->
  firstn owned s = firstn owned s' -> read_vals s c = read_vals s' c.
Proof.
  intros Hr Hf. unfold read_vals. apply map_ext_in. intros i Hi.
  rewrite forallb_forall in Hr. specialize (Hr i Hi). apply Nat.ltb_lt in Hr.
  unfold get. rewrite <- (nth_firstn_lt s owned i _ Hr), <- (nth_firstn_lt s' owned i _ Hr). now rewrite Hf.
Qed.

Lemma do_writes_owned owned base vals ws : forall s, owned <= base ->
  forallb (fun w => is_temp (fst w)) ws = true ->
  firstn owned (do_writes base vals ws s) = firstn owned s /\ length (do_writes base vals ws s) = length s.
Proof.
  induction ws as [|[t f] r IH]; intros s Hb Hw; simpl in *; auto.
  apply andb_true_iff in Hw as [Ht Hr]. destruct t as [k|i]; [|discriminate]. simpl.
  destruct (IH (write s (base + k) (f vals)) Hb Hr) as [H1 H2]. unfold do_writes in *. rewrite H1, H2.
  unfold write. rewrite set_nth_length. split; auto. apply firstn_set_nth. lia.
Qed.

Lemma step_owned owned s c : owned <= length s -> call_ok owned c = true ->
  firstn owned (fst (step s c)) = firstn owned s /\ length s <= length (fst (step s c)).
Proof.
  intros Hl Hok. unfold call_ok in Hok. apply andb_true_iff in Hok as [Hw Hr]. unfold step. simpl.
  destruct (do_writes_owned owned (length s) (read_vals s c) (writes c) (alloc_temps s c) Hl Hw) as [H1 H2].
  rewrite H1, H2. unfold alloc_temps. rewrite app_length. split; [|lia].
  rewrite firstn_app. replace (owned - length s) with 0 by lia. simpl. now rewrite app_nil_r.
Qed.

Lemma run_cons s c r : run s (c :: r) = run (fst (step s c)) r.
Proof. reflexivity. Qed.

Lemma run_owned owned h : forall s, owned <= length s -> Forall (fun c => call_ok owned c = true) h ->
  firstn owned (run s h) = firstn owned s /\ owned <= length (run s h).
Proof.
  induction h as [|c r IH]; intros s Hl Hh; [simpl; auto|].
  inversion Hh as [|? ? Hc Hr]; subst. destruct (step_owned owned s c Hl Hc) as [H1 H2].
  destruct (IH (fst (step s c)) ltac:(lia) Hr) as [H3 H4]. rewrite run_cons. rewrite H3. auto.
Qed.

(* after any history of calls that only write their own temporaries: the caller-owned cells (values and versions) are
   unchanged, and the next call returns what it returns on a fresh instance *)
Lemma history_pure owned s h c : owned <= length s ->
  Forall (fun c' => call_ok owned c' = true) h -> call_ok owned c = true ->
  firstn owned (run s h) = firstn owned s /\ snd (step (run s h) c) = snd (step s c).
Proof.
  intros Hl Hh Hc. destruct (run_owned owned h s Hl Hh) as [H1 H2]. split; auto.
  unfold step. simpl. f_equal. unfold call_ok in Hc. apply andb_true_iff in Hc as [_ Hr].
  eapply read_vals_owned; eauto.
Qed.

(* interleaving with other calls: any two histories give the same result and the same caller state *)
Lemma history_interleave owned s h1 h2 c : owned <= length s ->
  Forall (fun c' => call_ok owned c' = true) h1 -> Forall (fun c' => call_ok owned c' = true) h2 -> call_ok owned c = true ->
  snd (step (run s h1) c) = snd (step (run s h2) c) /\ firstn owned (run s h1) = firstn owned (run s h2).
Proof.
  intros Hl H1 H2 Hc. destruct (history_pure owned s h1 c Hl H1 Hc) as [A1 B1].
  destruct (history_pure owned s h2 c Hl H2 Hc) as [A2 B2]. split; congruence.
Qed.
