(* Orthogonality of roots of unity in an abstract commutative *-ring without zero divisors, and unitarity of the
   centred (fftshift . fft . ifftshift) DFT of Model/Fourier.v. *)
From MrVerif Require Import Base.Prelude Base.StarRing Base.Sums Model.ZeroPad Model.Fourier Proofs.FourierProofs.
From Coq Require Import Psatz.
Local Open Scope nat_scope.

Section Roots.
  Variable R : StarRing.
  Add Ring RrU : (k_ring R).
  Local Open Scope K_scope.

  Fixpoint kpow (x : R) (n : nat) : R := match n with O => k1 | S m => x * kpow x m end.
  Lemma kpow_add x a b : kpow x (a + b) = kpow x a * kpow x b.
  Proof. induction a as [|a IH]; cbn [kpow Nat.add]; [ring|rewrite IH; ring]. Qed.
  Lemma kpow_mul x a b : kpow x (a * b) = kpow (kpow x a) b.
  Proof.
    induction b as [|b IH]; [rewrite Nat.mul_0_r; reflexivity|].
    rewrite Nat.mul_succ_r, kpow_add, IH. cbn [kpow]. ring.
  Qed.
  Lemma kpow_one n : kpow k1 n = k1.
  Proof. induction n as [|n IH]; cbn [kpow]; [reflexivity|rewrite IH; ring]. Qed.

  (* geometric sum *)
  Lemma geom_sum x n : (x - k1) * sum n (fun k => kpow x k) = kpow x n - k1.
  Proof.
    induction n as [|n IH]; cbn [sum kpow]; [ring|].
    transitivity ((x - k1) * sum n (fun k => kpow x k) + (x - k1) * kpow x n); [ring|]. rewrite IH. ring.
  Qed.

  Variable zeta : R.
  Variable N : nat.
  Hypothesis N_pos : (0 < N)%nat.
  Hypothesis zeta_N : kpow zeta N = k1.
  Hypothesis zeta_primitive : forall d, (0 < d < N)%nat -> kpow zeta d <> k1.
  Hypothesis no_zero_div : forall a b : R, a * b = k0 -> a = k0 \/ b = k0.
  Hypothesis zeta_unit : kconj zeta * zeta = k1.   (* |zeta| = 1 *)

  (* integer powers via residues *)
  Definition zpow (e : Z) : R := kpow zeta (Z.to_nat (e mod Z.of_nat N)).

  Lemma kpow_mod n : kpow zeta n = kpow zeta (n mod N).
  Proof.
    rewrite (Nat.div_mod n N) at 1 by lia. rewrite kpow_add, kpow_mul, zeta_N, kpow_one. ring.
  Qed.

  Lemma zpow_nat n : zpow (Z.of_nat n) = kpow zeta n.
  Proof.
    unfold zpow. rewrite <- Nat2Z.inj_mod by lia. rewrite Nat2Z.id. symmetry. apply kpow_mod.
  Qed.

  Lemma zpow_add a b : zpow (a + b) = zpow a * zpow b.
  Proof.
    unfold zpow. rewrite <- kpow_add.
    assert (HN : (0 < Z.of_nat N)%Z) by lia.
    pose proof (Z.mod_pos_bound a (Z.of_nat N) HN). pose proof (Z.mod_pos_bound b (Z.of_nat N) HN).
    pose proof (Z.mod_pos_bound (a + b) (Z.of_nat N) HN).
    rewrite (kpow_mod (Z.to_nat (a mod Z.of_nat N) + Z.to_nat (b mod Z.of_nat N))).
    f_equal. apply Nat2Z.inj. rewrite Nat2Z.inj_mod by lia. rewrite Nat2Z.inj_add, !Z2Nat.id by lia.
    rewrite <- Z.add_mod by lia. reflexivity.
  Qed.

  Lemma zpow_0 : zpow 0 = k1.
  Proof. unfold zpow. rewrite Z.mod_0_l by lia. reflexivity. Qed.

  Lemma zpow_period a : zpow (a + Z.of_nat N) = zpow a.
  Proof.
    unfold zpow. f_equal. f_equal. rewrite <- (Z.mul_1_l (Z.of_nat N)) at 1. apply Z.mod_add. lia.
  Qed.

  Lemma zpow_mod a : zpow (a mod Z.of_nat N) = zpow a.
  Proof. unfold zpow. rewrite Z.mod_mod by lia. reflexivity. Qed.

  Lemma zpow_opp a : zpow (- a) * zpow a = k1.
  Proof. rewrite <- zpow_add. replace (- a + a)%Z with 0%Z by lia. apply zpow_0. Qed.

  Lemma kconj_kpow x n : kconj (kpow x n) = kpow (kconj x) n.
  Proof. induction n as [|n IH]; cbn [kpow]; [apply kconj_1|rewrite kconj_mul, IH; reflexivity]. Qed.

  Lemma kpow_prod x y n : kpow (x * y) n = kpow x n * kpow y n.
  Proof. induction n as [|n IH]; cbn [kpow]; [ring|rewrite IH; ring]. Qed.

  (* conj(zeta^e) = zeta^(-e) *)
  Lemma kconj_zpow a : kconj (zpow a) = zpow (- a).
  Proof.
    assert (E : kconj (zpow a) * zpow a = k1).
    { unfold zpow. rewrite kconj_kpow, <- kpow_prod, zeta_unit. apply kpow_one. }
    pose proof (zpow_opp a) as O.
    transitivity (kconj (zpow a) * (zpow (- a) * zpow a)); [rewrite O; ring|].
    transitivity ((kconj (zpow a) * zpow a) * zpow (- a)); [ring|]. rewrite E. ring.
  Qed.

  (* sum_{k<N} zeta^(k d) = N if N | d, else 0 *)
  Lemma zpow_scale_nat k d : zpow (Z.of_nat k * d) = kpow (zpow d) k.
  Proof.
    induction k as [|k IH]; [cbn [kpow]; apply zpow_0|].
    rewrite Nat2Z.inj_succ. replace (Z.succ (Z.of_nat k) * d)%Z with (d + Z.of_nat k * d)%Z by lia.
    rewrite zpow_add, IH. reflexivity.
  Qed.

  Lemma zpow_eq_one_iff d : zpow d = k1 -> (d mod Z.of_nat N = 0)%Z.
  Proof.
    unfold zpow. intros H.
    assert (HN : (0 < Z.of_nat N)%Z) by lia. pose proof (Z.mod_pos_bound d (Z.of_nat N) HN) as B.
    destruct (Z.eq_dec (d mod Z.of_nat N) 0) as [E|E]; [exact E|].
    exfalso. apply (zeta_primitive (Z.to_nat (d mod Z.of_nat N))); [lia|exact H].
  Qed.

  Fixpoint knat (n : nat) : R := match n with O => k0 | S m => knat m + k1 end.
  Lemma sum_const n (c : R) : sum n (fun _ => c) = knat n * c.
  Proof. induction n as [|n IH]; cbn [sum knat]; [ring|rewrite IH; ring]. Qed.

  Theorem roots_orthogonal d :
    sum N (fun k => zpow (Z.of_nat k * d)) = if (d mod Z.of_nat N =? 0)%Z then knat N else k0.
  Proof.
    rewrite (sum_ext _ N _ (fun k => kpow (zpow d) k)) by (intros; apply zpow_scale_nat).
    destruct (Z.eqb_spec (d mod Z.of_nat N) 0) as [E|E].
    - assert (Z1 : zpow d = k1) by (unfold zpow; rewrite E; reflexivity).
      rewrite (sum_ext _ N _ (fun _ => k1)) by (intros; rewrite Z1; apply kpow_one).
      rewrite sum_const. ring.
    - pose proof (geom_sum (zpow d) N) as G.
      assert (P : kpow (zpow d) N = k1).
      { rewrite <- zpow_scale_nat. rewrite <- (zpow_mod (Z.of_nat N * d)). rewrite Z.mul_comm, Z.mod_mul by lia. apply zpow_0. }
      rewrite P in G. replace (k1 - k1) with (k0 : R) in G by ring.
      destruct (no_zero_div _ _ G) as [H|H]; [|exact H].
      exfalso. apply E. apply zpow_eq_one_iff. transitivity (zpow d - k1 + k1); [ring|rewrite H; ring].
  Qed.

  (* ---- unitarity of the centred DFT: columns r, s of F (entries c * zeta^e(k',r)) are orthonormal ---- *)
  Variable c : R.
  Hypothesis c_real : kconj c = c.
  Hypothesis c_norm : c * c * knat N = k1.

  Definition F_entry (k' r : nat) : R := c * zpow (fft_shifted_exp (Z.of_nat N) (Z.of_nat k') (Z.of_nat r)).

  Lemma zpow_congr a b : (a mod Z.of_nat N = b mod Z.of_nat N)%Z -> zpow a = zpow b.
  Proof. unfold zpow. intros ->. reflexivity. Qed.

  Theorem dft_unitary r s : (r < N)%nat -> (s < N)%nat ->
    sum N (fun k' => kconj (F_entry k' r) * F_entry k' s) = if Nat.eqb r s then k1 else k0.
  Proof.
    intros Hr Hs. unfold F_entry.
    set (h := (Z.of_nat N / 2)%Z). set (d := (Z.of_nat s - Z.of_nat r)%Z).
    assert (HN : (0 < Z.of_nat N)%Z) by lia.
    rewrite (sum_ext _ N _ (fun k' => (c * c * zpow (- h * d)) * zpow (Z.of_nat k' * d))).
    2:{ intros k' _. rewrite kconj_mul, c_real, kconj_zpow. rewrite !fft_shift_convention by exact HN. fold h.
        transitivity (c * c * (zpow (- (((Z.of_nat k' - h) * (Z.of_nat r - h)) mod Z.of_nat N)) *
                               zpow (((Z.of_nat k' - h) * (Z.of_nat s - h)) mod Z.of_nat N))); [ring|].
        rewrite <- zpow_add.
        transitivity (c * c * (zpow (- h * d) * zpow (Z.of_nat k' * d))); [|ring].
        rewrite <- zpow_add. f_equal. apply zpow_congr.
        rewrite Z.add_comm. rewrite Z.add_opp_r. rewrite Zminus_mod_idemp_l, Zminus_mod_idemp_r.
        f_equal. unfold d. ring. }
    rewrite sum_mul_l. rewrite roots_orthogonal.
    destruct (Nat.eqb_spec r s) as [->|Hne].
    - unfold d. replace (Z.of_nat s - Z.of_nat s)%Z with 0%Z by lia. rewrite Z.mod_0_l by lia. cbn [Z.eqb].
      replace (- h * 0)%Z with 0%Z by lia. rewrite zpow_0. transitivity (c * c * knat N); [ring|exact c_norm].
    - destruct (Z.eqb_spec (d mod Z.of_nat N) 0) as [E|E]; [|ring].
      exfalso. unfold d in E. apply Hne.
      assert (B : (- Z.of_nat N < Z.of_nat s - Z.of_nat r < Z.of_nat N)%Z) by lia.
      apply Z.mod_divide in E; [|lia]. destruct E as [q Eq].
      assert (q = 0%Z) by nia. subst q. lia.
  Qed.
End Roots.
