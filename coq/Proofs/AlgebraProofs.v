From MrVerif Require Import Base.Prelude Base.StarRing Base.Sums Model.OpAlg Model.Algebra Proofs.OpAlgProofs.
Local Open Scope nat_scope.

Section AlgebraProofs.
  Variable R : StarRing.
  Variables (eq0 eq1 : R -> bool).
  Hypothesis eq0_sound : forall c, eq0 c = true -> c = k0.
  Hypothesis eq1_sound : forall c, eq1 c = true -> c = k1.
  Add Ring Rr7 : (k_ring R).
  Local Open Scope K_scope.
  Notation vec := (nat -> R).
  Notation linop := (linop R).
  Notation bop := (bop R).
  Notation b_matmul := (b_matmul R). Notation b_add := (b_add R). Notation b_H := (b_H R).
  Notation b_mulr := (b_mulr R eq0 eq1). Notation b_mull := (b_mull R eq0 eq1). Notation b_gram := (b_gram R eq0 eq1).
  Notation build := (build eq0 eq1).

  (* ---------- observational equality ---------- *)
  Lemma opeq_refl (A : linop) : opeq A A.
  Proof. unfold opeq. auto. Qed.
  Lemma opeq_trans (A B C : linop) : opeq A B -> opeq B C -> opeq A C.
  Proof.
    intros (d1 & r1 & f1 & a1) (d2 & r2 & f2 & a2). unfold opeq. repeat split; try congruence.
    - intros x i Hi. rewrite f1 by exact Hi. apply f2. rewrite <- r1. exact Hi.
    - intros y j Hj. rewrite a1 by exact Hj. apply a2. rewrite <- d1. exact Hj.
  Qed.

  Lemma idop_wf n : wf (idop (R:=R) n).
  Proof.
    unfold wf. cbn [idop dom ran fwd adj]. split; [|split; [|split]].
    - intros a b x y i _. reflexivity.
    - intros x y H i Hi. apply H. exact Hi.
    - intros a b x y i _. reflexivity.
    - intros x y H i Hi. apply H. exact Hi.
  Qed.
  Lemma zeroop_wf n m : wf (zeroop (R:=R) n m).
  Proof.
    unfold wf. cbn [zeroop dom ran fwd adj]. split; [|split; [|split]].
    - intros a b x y i _. ring.
    - intros x y H i Hi. reflexivity.
    - intros a b x y i _. ring.
    - intros x y H i Hi. reflexivity.
  Qed.

  (* homogeneity and value at zero of a linear, extensional map *)
  Lemma lin_scale n m (f : vec -> vec) : linear_map m f -> ext_map n m f ->
    forall c x i, (i < m)%nat -> f (fun j => c * x j) i = c * f x i.
  Proof.
    intros L E c x i Hi.
    rewrite (E _ (fun j => c * x j + k0 * x j)) by (try exact Hi; intros; ring).
    rewrite L by exact Hi. ring.
  Qed.

  (* ---------- congruence of the combinators ---------- *)
  Lemma comp_opeq (A A' B B' : linop) : wf A -> wf B -> dom A = ran B ->
    opeq A A' -> opeq B B' -> opeq (comp A B) (comp A' B').
  Proof.
    intros (_ & EA & _ & _) (_ & _ & _ & EB') Hd (d1 & r1 & f1 & a1) (d2 & r2 & f2 & a2).
    unfold opeq. cbn [comp dom ran fwd adj]. repeat split; try assumption.
    - intros x i Hi. rewrite (EA (fwd B x) (fwd B' x)) by (try exact Hi; intros j Hj; apply f2; rewrite <- Hd; exact Hj).
      apply f1. exact Hi.
    - intros y j Hj. rewrite (EB' (adj A y) (adj A' y)) by (try exact Hj; intros k Hk; apply a1; rewrite Hd; exact Hk).
      apply a2. exact Hj.
  Qed.

  Lemma lsum_opeq (A A' B B' : linop) : dom A = dom B -> ran A = ran B ->
    opeq A A' -> opeq B B' -> opeq (lsum A B) (lsum A' B').
  Proof.
    intros Hd Hr (d1 & r1 & f1 & a1) (d2 & r2 & f2 & a2).
    unfold opeq. cbn [lsum dom ran fwd adj]. repeat split; try assumption.
    - intros x i Hi. rewrite f1 by exact Hi. rewrite f2 by (rewrite <- Hr; exact Hi). reflexivity.
    - intros y j Hj. rewrite a1 by exact Hj. rewrite a2 by (rewrite <- Hd; exact Hj). reflexivity.
  Qed.

  Lemma prod_right_opeq s (A A' : linop) : opeq A A' -> opeq (prod_right s A) (prod_right s A').
  Proof.
    intros (d1 & r1 & f1 & a1). unfold opeq. cbn [prod_right dom ran fwd adj]. repeat split; try assumption.
    - intros x i Hi. rewrite f1 by exact Hi. reflexivity.
    - intros y j Hj. apply a1. exact Hj.
  Qed.
  Lemma prod_left_opeq s (A A' : linop) : opeq A A' -> opeq (prod_left A s) (prod_left A' s).
  Proof.
    intros (d1 & r1 & f1 & a1). unfold opeq. cbn [prod_left dom ran fwd adj]. repeat split; try assumption.
    - intros x i Hi. apply f1. exact Hi.
    - intros y j Hj. rewrite a1 by exact Hj. reflexivity.
  Qed.
  Lemma adjop_opeq (A A' : linop) : opeq A A' -> opeq (adjop A) (adjop A').
  Proof. intros (d1 & r1 & f1 & a1). unfold opeq. cbn [adjop dom ran fwd adj]. auto. Qed.

  (* ---------- well-formed built operators ---------- *)
  Fixpoint bok (b : bop) : Prop :=
    match b with
    | BLeaf _ A => wf A
    | BId _ _ | BZero _ _ _ => True
    | BComp _ a c => bok a /\ bok c /\ dom (bden a) = ran (bden c)
    | BSum _ a c => bok a /\ bok c /\ dom (bden a) = dom (bden c) /\ ran (bden a) = ran (bden c)
    | BProdR _ _ a | BProdL _ a _ | BAdj _ a => bok a
    end.

  Lemma bok_wf b : bok b -> wf (bden b).
  Proof.
    induction b as [A|n|n m|a IHa c IHc|a IHa c IHc|s a IHa|a IHa s|a IHa]; cbn [bok bden].
    - auto.
    - intros _. apply idop_wf.
    - intros _. apply zeroop_wf.
    - intros (Ha & Hc & Hd). apply comp_wf; auto.
    - intros (Ha & Hc & Hd & Hr). apply lsum_wf; auto.
    - intros Ha. apply prod_right_wf; auto.
    - intros Ha. apply prod_left_wf; auto.
    - intros Ha. apply adjop_wf; auto.
  Qed.

  (* ---------- the python-level functions are sound ---------- *)
  Lemma matmul_sound a b : bok a -> bok b -> dom (bden a) = ran (bden b) ->
    bok (b_matmul a b) /\ opeq (bden (b_matmul a b)) (comp (bden a) (bden b)).
  Proof.
    intros Ha Hb Hd.
    assert (G : bok (BComp R a b) /\ opeq (bden (BComp R a b)) (comp (bden a) (bden b))).
    { split; [cbn [bok]; auto|apply opeq_refl]. }
    destruct b as [B|n|n m|b1 b2|b1 b2|s b1|b1 s|b1]; cbn [b_matmul Algebra.b_matmul];
      try (destruct a as [A|n'|n' m'|a1 a2|a1 a2|s' a1|a1 s'|a1]; try exact G).
    all: try (split; [assumption|]).
    (* b = BId n : a @ Id = a *)
    2:{ cbn [bden idop dom ran] in Hd. unfold opeq. cbn [bden comp idop dom ran fwd adj]. repeat split; auto. }
    (* a = BId n' : Id @ b = b *)
    all: cbn [bden idop dom ran] in Hd; unfold opeq; cbn [bden comp idop dom ran fwd adj]; repeat split; auto.
  Qed.

  Lemma add_sound a b : bok a -> bok b -> dom (bden a) = dom (bden b) -> ran (bden a) = ran (bden b) ->
    bok (b_add a b) /\ opeq (bden (b_add a b)) (lsum (bden a) (bden b)).
  Proof.
    intros Ha Hb Hd Hr.
    assert (G : bok (BSum R a b) /\ opeq (bden (BSum R a b)) (lsum (bden a) (bden b))).
    { split; [cbn [bok]; auto|apply opeq_refl]. }
    destruct a as [A|n|n m|a1 a2|a1 a2|s a1|a1 s|a1]; cbn [b_add Algebra.b_add];
      try (destruct b as [B|n'|n' m'|b1 b2|b1 b2|s' b1|b1 s'|b1]; try exact G).
    (* a = BZero : 0 + b = b *)
    3:{ split; [assumption|]. cbn [bden zeroop dom ran] in Hd, Hr. unfold opeq. cbn [bden lsum zeroop dom ran fwd adj].
        repeat split; auto; intros; ring. }
    (* b = BZero : a + 0 = a *)
    all: split; [assumption|]; cbn [bden zeroop dom ran] in Hd, Hr; unfold opeq; cbn [bden lsum zeroop dom ran fwd adj];
      repeat split; auto; intros; ring.
  Qed.

  Lemma H_sound a : bok a -> bok (b_H a) /\ opeq (bden (b_H a)) (adjop (bden a)).
  Proof.
    intros Ha. destruct a; cbn [b_H Algebra.b_H bok bden]; try (split; [exact Ha|apply opeq_refl]).
    split; [exact Ha|]. unfold opeq. cbn [adjop dom ran fwd adj]. auto.
  Qed.

  Lemma mulr_sound s a : bok a -> bok (b_mulr s a) /\ opeq (bden (b_mulr s a)) (prod_right (sval s) (bden a)).
  Proof.
    intros Ha. pose proof (bok_wf a Ha) as (LA & EA & LA' & EA').
    destruct s as [c|c|t]; cbn [b_mulr Algebra.b_mulr]; try (split; [exact Ha|apply opeq_refl]).
    destruct (eq0 c) eqn:E0; [|destruct (eq1 c) eqn:E1].
    - apply eq0_sound in E0. subst c. split; [exact I|].
      unfold opeq. cbn [bden zeroop prod_right sval dom ran fwd adj]. repeat split; auto.
      + intros x i Hi. ring.
      + intros y j Hj. rewrite (EA' _ (fun _ => k0)) by (try exact Hj; intros; rewrite kconj_0; ring).
        symmetry. apply (linear_zero R (ran (bden a)) (dom (bden a)) (adj (bden a)) LA' EA' j Hj).
    - apply eq1_sound in E1. subst c. split; [exact Ha|].
      unfold opeq. cbn [prod_right sval dom ran fwd adj]. repeat split; auto.
      + intros x i Hi. ring.
      + intros y j Hj. apply EA'; [|exact Hj]. intros k _. rewrite kconj_1. ring.
    - split; [exact Ha|apply opeq_refl].
  Qed.

  Lemma mull_sound a s : bok a -> bok (b_mull a s) /\ opeq (bden (b_mull a s)) (prod_left (bden a) (sval s)).
  Proof.
    intros Ha. pose proof (bok_wf a Ha) as (LA & EA & LA' & EA').
    destruct s as [c|c|t]; cbn [b_mull Algebra.b_mull]; try (split; [exact Ha|apply opeq_refl]).
    destruct (eq0 c) eqn:E0; [|destruct (eq1 c) eqn:E1].
    - apply eq0_sound in E0. subst c. split; [exact I|].
      unfold opeq. cbn [bden zeroop prod_left sval dom ran fwd adj]. repeat split; auto.
      + intros x i Hi. rewrite (EA _ (fun _ => k0)) by (try exact Hi; intros; ring).
        symmetry. apply (linear_zero R (dom (bden a)) (ran (bden a)) (fwd (bden a)) LA EA i Hi).
      + intros y j Hj. rewrite kconj_0. ring.
    - apply eq1_sound in E1. subst c. split; [exact Ha|].
      unfold opeq. cbn [prod_left sval dom ran fwd adj]. repeat split; auto.
      + intros x i Hi. apply EA; [|exact Hi]. intros k _. ring.
      + intros y j Hj. rewrite kconj_1. ring.
    - split; [exact Ha|apply opeq_refl].
  Qed.

  (* ---------- gram rules ---------- *)
  Definition gram_of (A : linop) : linop := comp (adjop A) A.

  Lemma sval_sabs2 s i : sval (sabs2 R s) i = kconj (sval s i) * sval s i.
  Proof. destruct s; reflexivity. Qed.
  Lemma sval_sconj s i : sval (sconj R s) i = kconj (sval s i).
  Proof. destruct s; reflexivity. Qed.

  Lemma gram_default a : bok a -> bok (b_matmul (b_H a) a) /\ opeq (bden (b_matmul (b_H a) a)) (gram_of (bden a)).
  Proof.
    intros Ha. destruct (H_sound a Ha) as [Hh Eh].
    assert (Hd : dom (bden (b_H a)) = ran (bden a)) by (destruct Eh as (d & _); rewrite d; reflexivity).
    destruct (matmul_sound (b_H a) a Hh Ha Hd) as [Hm Em]. split; [exact Hm|].
    eapply opeq_trans; [exact Em|]. unfold gram_of.
    apply comp_opeq; [apply bok_wf; exact Hh|apply bok_wf; exact Ha|exact Hd|exact Eh|apply opeq_refl].
  Qed.

  Theorem gram_sound a : bok a -> bok (b_gram a) /\ opeq (bden (b_gram a)) (gram_of (bden a)).
  Proof.
    induction a as [A|n|n m|o1 IH1 o2 IH2|o1 IH1 o2 IH2|s o IH|o IH s|o IH]; intros Ha;
      try (apply gram_default; exact Ha).
    - (* composition: B^H @ A.gram @ B *)
      cbn [bok] in Ha. destruct Ha as (H1 & H2 & Hd). destruct (IH1 H1) as [G1 E1].
      cbn [b_gram Algebra.b_gram]. destruct (H_sound o2 H2) as [Hh Eh].
      pose proof (bok_wf o1 H1) as W1. pose proof (bok_wf o2 H2) as W2.
      assert (D1 : dom (bden (b_H o2)) = ran (bden (b_gram o1))).
      { destruct Eh as (d & _). destruct E1 as (_ & r & _). rewrite d, r. cbn [adjop gram_of comp dom ran]. symmetry. exact Hd. }
      destruct (matmul_sound (b_H o2) (b_gram o1) Hh G1 D1) as [M1 EM1].
      assert (D2 : dom (bden (b_matmul (b_H o2) (b_gram o1))) = ran (bden o2)).
      { destruct EM1 as (d & _). rewrite d. cbn [comp dom]. destruct E1 as (d1 & _). rewrite d1. cbn [gram_of comp adjop dom]. exact Hd. }
      destruct (matmul_sound _ o2 M1 H2 D2) as [M2 EM2]. split; [exact M2|].
      eapply opeq_trans; [exact EM2|].
      eapply opeq_trans.
      { apply comp_opeq; [apply bok_wf; exact M1|exact W2|exact D2| |apply opeq_refl].
        eapply opeq_trans; [exact EM1|].
        apply comp_opeq; [apply bok_wf; exact Hh|apply bok_wf; exact G1|exact D1|exact Eh|exact E1]. }
      (* (B^H (A^H A)) B  =  (A B)^H (A B) *)
      destruct W1 as (L1 & X1 & L1' & X1'). destruct W2 as (L2 & X2 & L2' & X2').
      unfold opeq, gram_of. cbn [bden comp adjop dom ran fwd adj]. repeat split; auto.
    - (* s * A *)
      cbn [bok] in Ha. destruct (IH Ha) as [G E]. pose proof (bok_wf o Ha) as (L & X & L' & X').
      cbn [b_gram Algebra.b_gram]. destruct s as [c|c|t].
      + destruct (mulr_sound (sabs2 R (SPy c)) (b_gram o) G) as [M EM]. split; [exact M|].
        eapply opeq_trans; [exact EM|]. eapply opeq_trans; [apply prod_right_opeq; exact E|].
        unfold opeq, gram_of. cbn [bden comp adjop prod_right sval sabs2 dom ran fwd adj]. repeat split; auto.
        * intros x i Hi. rewrite <- (lin_scale _ _ _ L' X') by exact Hi. apply X'; [|exact Hi]. intros k _. ring.
        * intros y j Hj. apply X'; [|exact Hj]. intros k Hk.
          rewrite (X _ (fun i => kconj (kconj c * c) * y i)) by (try exact Hk; intros; ring).
          rewrite (lin_scale _ _ _ L X) by exact Hk. rewrite kconj_mul, kconj_inv. ring.
      + destruct (mulr_sound (sabs2 R (ST1 c)) (b_gram o) G) as [M EM]. split; [exact M|].
        eapply opeq_trans; [exact EM|]. eapply opeq_trans; [apply prod_right_opeq; exact E|].
        unfold opeq, gram_of. cbn [bden comp adjop prod_right sval sabs2 dom ran fwd adj]. repeat split; auto.
        * intros x i Hi. rewrite <- (lin_scale _ _ _ L' X') by exact Hi. apply X'; [|exact Hi]. intros k _. ring.
        * intros y j Hj. apply X'; [|exact Hj]. intros k Hk.
          rewrite (X _ (fun i => kconj (kconj c * c) * y i)) by (try exact Hk; intros; ring).
          rewrite (lin_scale _ _ _ L X) by exact Hk. rewrite kconj_mul, kconj_inv. ring.
      + destruct (H_sound o Ha) as [Hh Eh].
        destruct (mulr_sound (sabs2 R (STN t)) o Ha) as [M EM].
        assert (D : dom (bden (b_H o)) = ran (bden (b_mulr (sabs2 R (STN t)) o))).
        { destruct Eh as (d & _). destruct EM as (_ & r & _). rewrite d, r. reflexivity. }
        destruct (matmul_sound _ _ Hh M D) as [M2 EM2]. split; [exact M2|].
        eapply opeq_trans; [exact EM2|].
        eapply opeq_trans; [apply comp_opeq; [apply bok_wf; exact Hh|apply bok_wf; exact M|exact D|exact Eh|exact EM]|].
        unfold opeq, gram_of. cbn [bden comp adjop prod_right sval sabs2 dom ran fwd adj]. repeat split; auto.
        * intros x i Hi. apply X'; [|exact Hi]. intros k _. ring.
        * intros y j Hj. apply X'; [|exact Hj]. intros k Hk. rewrite kconj_mul, kconj_inv. ring.
    - (* A * s : conj(s) * A.gram * s *)
      cbn [bok] in Ha. destruct (IH Ha) as [G E]. pose proof (bok_wf o Ha) as (L & X & L' & X').
      cbn [b_gram Algebra.b_gram].
      destruct (mulr_sound (sconj R s) (b_gram o) G) as [M EM].
      destruct (mull_sound (b_mulr (sconj R s) (b_gram o)) s M) as [M2 EM2]. split; [exact M2|].
      eapply opeq_trans; [exact EM2|].
      eapply opeq_trans; [apply prod_left_opeq; eapply opeq_trans; [exact EM|apply prod_right_opeq; exact E]|].
      unfold opeq, gram_of. cbn [bden comp adjop prod_right prod_left dom ran fwd adj]. repeat split; auto.
      + intros x i Hi. rewrite sval_sconj. ring.
      + intros y j Hj. f_equal. apply X'; [|exact Hj]. intros k Hk. apply X; [|exact Hk]. intros q _.
        rewrite sval_sconj, kconj_inv. ring.
  Qed.

  (* ---------- every expression evaluates as matrix algebra says ---------- *)
  Theorem build_sound e : shaped e -> leaves_wf e -> bok (build e) /\ opeq (bden (build e)) (plain e).
  Proof.
    induction e as [A|n|n m|a IHa b IHb|a IHa b IHb|s a IHa|a IHa s|a IHa|a IHa];
      cbn [shaped leaves_wf build Algebra.build plain].
    - intros _ W. split; [exact W|apply opeq_refl].
    - intros _ _. split; [exact I|apply opeq_refl].
    - intros _ _. split; [exact I|apply opeq_refl].
    - intros (Sa & Sb & Hd) (Wa & Wb). destruct (IHa Sa Wa) as [Ka Ea]. destruct (IHb Sb Wb) as [Kb Eb].
      assert (D : dom (bden (build a)) = ran (bden (build b))).
      { destruct Ea as (d & _). destruct Eb as (_ & r & _). rewrite d, r. exact Hd. }
      destruct (matmul_sound _ _ Ka Kb D) as [M EM]. split; [exact M|].
      eapply opeq_trans; [exact EM|]. apply comp_opeq; [apply bok_wf; exact Ka|apply bok_wf; exact Kb|exact D|exact Ea|exact Eb].
    - intros (Sa & Sb & Hd & Hr) (Wa & Wb). destruct (IHa Sa Wa) as [Ka Ea]. destruct (IHb Sb Wb) as [Kb Eb].
      assert (D : dom (bden (build a)) = dom (bden (build b))).
      { destruct Ea as (d & _). destruct Eb as (d' & _). rewrite d, d'. exact Hd. }
      assert (Rr : ran (bden (build a)) = ran (bden (build b))).
      { destruct Ea as (_ & r & _). destruct Eb as (_ & r' & _). rewrite r, r'. exact Hr. }
      destruct (add_sound _ _ Ka Kb D Rr) as [M EM]. split; [exact M|].
      eapply opeq_trans; [exact EM|]. apply lsum_opeq; assumption.
    - intros Sa Wa. destruct (IHa Sa Wa) as [Ka Ea]. destruct (mulr_sound s _ Ka) as [M EM]. split; [exact M|].
      eapply opeq_trans; [exact EM|]. apply prod_right_opeq. exact Ea.
    - intros Sa Wa. destruct (IHa Sa Wa) as [Ka Ea]. destruct (mull_sound _ s Ka) as [M EM]. split; [exact M|].
      eapply opeq_trans; [exact EM|]. apply prod_left_opeq. exact Ea.
    - intros Sa Wa. destruct (IHa Sa Wa) as [Ka Ea]. destruct (H_sound _ Ka) as [M EM]. split; [exact M|].
      eapply opeq_trans; [exact EM|]. apply adjop_opeq. exact Ea.
    - intros Sa Wa. destruct (IHa Sa Wa) as [Ka Ea]. destruct (gram_sound _ Ka) as [M EM]. split; [exact M|].
      eapply opeq_trans; [exact EM|]. unfold gram_of.
      assert (D : dom (adjop (bden (build a))) = ran (bden (build a))) by reflexivity.
      apply comp_opeq; [apply adjop_wf; apply bok_wf; exact Ka|apply bok_wf; exact Ka|exact D|apply adjop_opeq; exact Ea|exact Ea].
  Qed.
End AlgebraProofs.
