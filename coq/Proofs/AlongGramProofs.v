(* N-D from 1-D, second part: if A^H A = c * identity for a 1-D operator (crop-after-pad, an orthonormal wavelet level, a unitary FFT ...),
   the same holds for A applied along one axis of a row-major (pre, n, post) tensor. *)
From MrVerif Require Import Base.Prelude Base.StarRing Base.Sums Model.OpAlg Model.ZeroPad Model.ElemOps Model.Wavelet Proofs.OpAlgProofs
  Proofs.ElemOpsProofs Proofs.AlongProofs Proofs.ElemOpsWf Proofs.WaveletProofs Proofs.WaveletWf Proofs.WaveletPRProofs.
Local Open Scope nat_scope.

Section AlongGram.
  Variable R : StarRing.
  Add Ring RrAG : (k_ring R).
  Local Open Scope K_scope.
  Notation vec := (nat -> R).

  Theorem along_gram_scalar pre post (A : linop R) (c : R) :
    (0 < post)%nat -> (0 < dom A)%nat -> wf A ->
    (forall x k, (k < dom A)%nat -> adj A (fwd A x) k = c * x k) ->
    forall x j, (j < pre * (dom A * post))%nat -> adj (along pre post A) (fwd (along pre post A) x) j = c * x j.
  Proof.
    intros Hp Hd (_ & _ & _ & EA') HG x j Hj. cbn [along dom ran fwd adj].
    set (a := (j / (dom A * post))%nat). set (k := ((j / post) mod dom A)%nat). set (b := (j mod post)%nat).
    assert (Hk : (k < dom A)%nat) by (apply Nat.mod_upper_bound; lia).
    assert (Hb : (b < post)%nat) by (apply Nat.mod_upper_bound; lia).
    set (xs := fun k0 => x (a * (dom A * post) + (k0 * post + b))%nat).
    rewrite (EA' _ (fwd A xs)); [| |exact Hk].
    - rewrite (HG xs k Hk). unfold xs. f_equal. f_equal. unfold a, k, b. symmetry. apply flat_decompose; assumption.
    - intros k' Hk'. destruct (idx3 a k' b (ran A) post Hk' Hb) as (-> & -> & ->). reflexivity.
  Qed.

  Corollary crop_after_pad_along pre post old new : (0 < post)%nat -> (0 < old)%nat -> (old <= new)%nat ->
    forall (x : vec) j, (j < pre * (old * post))%nat ->
    adj (along pre post (zeropad_op (R:=R) old new)) (fwd (along pre post (zeropad_op (R:=R) old new)) x) j = x j.
  Proof.
    intros Hp Ho Hon x j Hj.
    rewrite (along_gram_scalar pre post (zeropad_op old new) k1 Hp); [ring|exact Ho|apply zeropad_wf| |exact Hj].
    intros y k Hk. cbn [zeropad_op dom fwd adj] in *. rewrite (zeropad_crop_after_pad R old new y k Hon Hk). ring.
  Qed.

  Corollary wavelet_isometry_along pre post level L n (flo fhi glo ghi : vec) :
    (0 < post)%nat -> (0 < n)%nat -> (0 < L)%nat -> pr_cond L flo fhi glo ghi k1 ->
    forall (x : vec) j, (j < pre * (n * post))%nat ->
    adj (along pre post (wavedec_op level L n flo fhi glo ghi)) (fwd (along pre post (wavedec_op level L n flo fhi glo ghi)) x) j = x j.
  Proof.
    intros Hp Hn HL HPR x j Hj.
    assert (Hd : dom (wavedec_op level L n flo fhi glo ghi) = n) by apply wavedec_dom'.
    rewrite (along_gram_scalar pre post (wavedec_op level L n flo fhi glo ghi) k1 Hp); [ring|rewrite Hd; exact Hn|apply wavedec_wf| |rewrite Hd; exact Hj].
    intros y k Hk. rewrite Hd in Hk. rewrite (wavedec_perfect_reconstruction R level L n flo fhi glo ghi HL HPR y k Hk). ring.
  Qed.
End AlongGram.
