From MrVerif Require Import Base.Prelude Base.StarRing Base.Sums Model.OpAlg Model.Autograd Proofs.OpAlgProofs.
Local Open Scope nat_scope.

Section WrapperProofs.
  Variable R : StarRing.
  Add Ring RrAG : (k_ring R).
  Notation vec := (nat -> R).

  Lemma wrapper_vjp_parity k (fw bw : vec -> vec) :
    wrapper_vjp_fn k fw bw = if Nat.even k then fw else bw.
  Proof.
    revert fw bw. induction k as [|k IH]; intros fw bw; [reflexivity|].
    cbn [wrapper_vjp_fn]. rewrite IH. rewrite Nat.even_succ, <- Nat.negb_even. destruct (Nat.even k); reflexivity.
  Qed.

  Lemma wrapper_jvp_const k (fw bw : vec -> vec) : wrapper_jvp_fn k fw bw = fw.
  Proof. revert fw bw. induction k as [|k IH]; intros; cbn [wrapper_jvp_fn]; [reflexivity|apply IH]. Qed.

  (* any mixed history: the function is fw after an even number of backward steps, bw after an odd number *)
  Lemma wrapper_history h (fw bw : vec -> vec) :
    wrapper_fn h fw bw = if Nat.even (length (filter (fun b => b) h)) then fw else bw.
  Proof.
    revert fw bw. induction h as [|b h IH]; intros fw bw; [reflexivity|].
    destruct b; cbn [wrapper_fn filter length].
    - rewrite IH. rewrite Nat.even_succ, <- Nat.negb_even. destruct (Nat.even (length (filter (fun b => b) h))); reflexivity.
    - apply IH.
  Qed.

  (* hence: differentiating through the wrapper of an adjoint pair yields the adjoint (odd order) or the operator
     itself (even order), and the derivative node is again (one half of) an adjoint pair *)
  Theorem wrapper_backward_is_adjoint (A : linop R) h : adjoint_pair A ->
    let f := wrapper_fn h (fwd A) (adj A) in
    let f' := wrapper_fn (true :: h) (fwd A) (adj A) in
    (Nat.even (length (filter (fun b => b) h)) = true -> f = fwd A /\ wrapper_fn h (adj A) (fwd A) = adj A) /\
    (Nat.even (length (filter (fun b => b) h)) = false -> f = adj A /\ wrapper_fn h (adj A) (fwd A) = fwd A).
  Proof.
    intros _. cbn zeta. rewrite !wrapper_history.
    destruct (Nat.even (length (filter (fun b => b) h))); split; intros E; try discriminate; split; reflexivity.
  Qed.

  (* real input (repaired wrapper: the gradient handed back for a real input is the real part of the adjoint applied to the cotangent):
     for a real vector x, twice the real part of <A x, g> is <x, 2 Re(A^H g)> - so Re(A^H g) is the gradient of the real-valued loss
     Re<g, A x> with respect to the real variable x (stated with a + conj a = 2 Re a, which needs no division) *)
  Local Open Scope K_scope.
  Theorem real_input_gradient (A : linop R) (x g : vec) : adjoint_pair A -> (forall j, kconj (x j) = x j) ->
    inner (ran A) (fwd A x) g + kconj (inner (ran A) (fwd A x) g)
    = inner (dom A) x (fun j => adj A g j + kconj (adj A g j)).
  Proof.
    intros HA Hx. rewrite (HA x g). rewrite inner_conj_sym. unfold inner. rewrite <- sum_add. apply sum_ext. intros j _.
    rewrite kconj_add, kconj_inv, (Hx j). ring.
  Qed.
End WrapperProofs.

Section MatMulProofs.
  Variable R : StarRing.
  Add Ring Rr8 : (k_ring R).
  Local Open Scope K_scope.
  Notation C2 := (C2 R).

  (* forward: every dtype branch is the complex product with the real operand embedded *)
  Lemma mm_fwd_rc_ok m (x : C2) : mm_fwd_rc R m x = cmul R (of_real R m) x.
  Proof. destruct x; unfold mm_fwd_rc, cmul, of_real; cbn [fst snd]; f_equal; ring. Qed.
  Lemma mm_fwd_cr_ok (m : C2) x : mm_fwd_cr R m x = cmul R m (of_real R x).
  Proof. destruct m; unfold mm_fwd_cr, cmul, of_real; cbn [fst snd]; f_equal; ring. Qed.
  (* backward for complex x: every branch is matrix_adjoint * grad *)
  Lemma mm_bwd_c_cr_ok (ma : C2) g : mm_bwd_c_cr R ma g = cmul R ma (of_real R g).
  Proof. destruct ma; unfold mm_bwd_c_cr, cmul, of_real; cbn [fst snd]; f_equal; ring. Qed.
  Lemma mm_bwd_c_rc_ok ma (g : C2) : mm_bwd_c_rc R ma g = cmul R (of_real R ma) g.
  Proof. destruct g; unfold mm_bwd_c_rc, cmul, of_real; cbn [fst snd]; f_equal; ring. Qed.
  (* backward for real x: every branch is the real part of matrix_adjoint * grad *)
  Lemma mm_bwd_r_cc_ok (ma g : C2) : mm_bwd_r_cc R ma g = re R (cmul R ma g).
  Proof. reflexivity. Qed.
  Lemma mm_bwd_r_rr_ok ma g : mm_bwd_r_rr R ma g = re R (cmul R (of_real R ma) (of_real R g)).
  Proof. unfold mm_bwd_r_rr, re, cmul, of_real; cbn [fst snd]. ring. Qed.
  Lemma mm_bwd_r_cr_ok (ma : C2) g : mm_bwd_r_cr R ma g = re R (cmul R ma (of_real R g)).
  Proof. destruct ma; unfold mm_bwd_r_cr, re, cmul, of_real; cbn [fst snd]. ring. Qed.
  Lemma mm_bwd_r_rc_ok ma (g : C2) : mm_bwd_r_rc R ma g = re R (cmul R (of_real R ma) g).
  Proof. destruct g; unfold mm_bwd_r_rc, re, cmul, of_real; cbn [fst snd]. ring. Qed.

  (* with matrix_adjoint = conj(matrix)^T entrywise, Re(conj(m) g x') is the real inner product identity behind the
     Wirtinger convention: Re <m x, g> = Re <x, conj(m) g> *)
  Lemma wirtinger_entry (m x g : C2) :
    re R (cmul R (cmul R m x) (cconj R g)) = re R (cmul R x (cconj R (cmul R (cconj R m) g))).
  Proof. destruct m, x, g; unfold re, cmul, cconj; cbn [fst snd]. ring. Qed.
End MatMulProofs.
