(* C08 - coherence of the executable rational twin (Model/Functionals.v, part Q) with the real model:
   Q2R (f_Q x) = f_R (Q2R x) for the primitives the tensor layer is built from. *)
From Coq Require Import Reals QArith Qabs Qminmax Qreals Lra Lia ZArith.
From MrVerif Require Import Model.Functionals Proofs.FunctionalsProofs.
Local Open Scope R_scope.

Lemma Q2R_red q : Q2R (Qred q) = Q2R q.
Proof. apply Qeq_eqR, Qred_correct. Qed.

Lemma Q2R_0' : Q2R 0 = 0.
Proof. unfold Q2R; simpl; lra. Qed.
Lemma Q2R_1' : Q2R 1 = 1.
Proof. unfold Q2R; simpl; lra. Qed.
Lemma Q2R_m1 : Q2R (-1) = -1.
Proof. unfold Q2R; simpl; lra. Qed.
Lemma Q2R_2 : Q2R 2 = 2.
Proof. unfold Q2R; simpl; lra. Qed.

Lemma Q2R_abs q : Q2R (Qabs q) = Rabs (Q2R q).
Proof.
  apply Qabs_case; intros H; apply Qle_Rle in H; rewrite Q2R_0' in H.
  - rewrite Rabs_pos_eq; auto.
  - rewrite Q2R_opp. rewrite Rabs_left1; auto.
Qed.

Lemma Q2R_max a b : Q2R (Qmax a b) = Rmax (Q2R a) (Q2R b).
Proof.
  destruct (Qlt_le_dec a b) as [H|H].
  - rewrite (Qeq_eqR _ _ (Q.max_r a b (Qlt_le_weak _ _ H))). apply Qlt_Rlt in H. rewrite Rmax_right; lra.
  - rewrite (Qeq_eqR _ _ (Q.max_l a b H)). apply Qle_Rle in H. rewrite Rmax_left; lra.
Qed.

Lemma Q2R_min a b : Q2R (Qmin a b) = Rmin (Q2R a) (Q2R b).
Proof.
  destruct (Qlt_le_dec a b) as [H|H].
  - rewrite (Qeq_eqR _ _ (Q.min_l a b (Qlt_le_weak _ _ H))). apply Qlt_Rlt in H. rewrite Rmin_left; lra.
  - rewrite (Qeq_eqR _ _ (Q.min_r a b H)). apply Qle_Rle in H. rewrite Rmin_right; lra.
Qed.

Lemma Q2R_sgn q : Q2R (sgnQ q) = sgnR (Q2R q).
Proof.
  unfold sgnQ, sgnR. destruct (Qlt_le_dec 0 q) as [H|H].
  - apply Qlt_Rlt in H. rewrite Q2R_0' in H. destruct (Rlt_dec 0 (Q2R q)); [apply Q2R_1'|lra].
  - apply Qle_Rle in H. rewrite Q2R_0' in H. destruct (Rlt_dec 0 (Q2R q)); [lra|].
    destruct (Qlt_le_dec q 0) as [H'|H'].
    + apply Qlt_Rlt in H'. rewrite Q2R_0' in H'. destruct (Rlt_dec (Q2R q) 0); [apply Q2R_m1|lra].
    + apply Qle_Rle in H'. rewrite Q2R_0' in H'. destruct (Rlt_dec (Q2R q) 0); [lra|apply Q2R_0'].
Qed.

Lemma softQ_coh d t : Q2R (softQ d t) = softR (Q2R d) (Q2R t).
Proof.
  unfold softQ, softR, reluQ, reluR.
  rewrite Q2R_red, Q2R_mult, Q2R_sgn, Q2R_max, Q2R_minus, Q2R_abs, Q2R_0'. reflexivity.
Qed.

Lemma l1Q_coh n w b sigma x : ~ (n == 0)%Q ->
  Q2R (l1_valQ w b x) = l1_val (Q2R w) (Q2R b) (Q2R x)
  /\ Q2R (l1_proxQ n w b sigma x) = l1_prox (Q2R n) (Q2R w) (Q2R b) (Q2R sigma) (Q2R x)
  /\ Q2R (l1_pccQ n w b sigma x) = l1_pcc (Q2R n) (Q2R w) (Q2R b) (Q2R sigma) (Q2R x).
Proof.
  intros Hn. split; [|split].
  - unfold l1_valQ, l1_val. rewrite Q2R_red, Q2R_abs, Q2R_mult, Q2R_minus. reflexivity.
  - unfold l1_proxQ, l1_prox. rewrite Q2R_red, Q2R_plus, softQ_coh, Q2R_minus, Q2R_abs, Q2R_div, Q2R_mult by assumption.
    reflexivity.
  - unfold l1_pccQ, l1_pcc. cbv zeta.
    rewrite Q2R_red, Q2R_mult, Q2R_sgn, Q2R_min, !Q2R_abs, Q2R_div, Q2R_abs, Q2R_minus, Q2R_mult by assumption.
    reflexivity.
Qed.

Lemma l2Q_coh n w b sigma x : (0 < n)%Q -> (0 <= sigma)%Q ->
  Q2R (l2_valQ w b x) = l2_val (Q2R w) (Q2R b) (Q2R x)
  /\ Q2R (l2_proxQ n w b sigma x) = l2_prox (Q2R n) (Q2R w) (Q2R b) (Q2R sigma) (Q2R x)
  /\ ((0 < sigma)%Q -> Q2R (l2_pccQ n w b sigma x) = l2_pcc (Q2R n) (Q2R w) (Q2R b) (Q2R sigma) (Q2R x)).
Proof.
  intros Hn Hs.
  assert (HnR : 0 < Q2R n) by (apply Qlt_Rlt in Hn; rewrite Q2R_0' in Hn; exact Hn).
  assert (HsR : 0 <= Q2R sigma) by (apply Qle_Rle in Hs; rewrite Q2R_0' in Hs; exact Hs).
  assert (Hn0 : ~ (n == 0)%Q) by (intros E; rewrite E in Hn; apply (Qlt_irrefl 0), Hn).
  assert (Hin : 0 < / Q2R n) by (apply Rinv_0_lt_compat; exact HnR).
  assert (Hww : 0 <= Q2R w * Q2R w) by (apply (Rle_0_sqr (Q2R w))).
  split; [|split].
  - unfold l2_valQ, l2_val, sq. cbv zeta. rewrite Q2R_red, Q2R_mult, Q2R_abs, Q2R_mult, Q2R_minus. reflexivity.
  - unfold l2_proxQ, l2_prox. cbv zeta. rewrite Q2R_red.
    assert (Ec : Q2R (w * w * 2 * sigma / n) = Q2R w * Q2R w * 2 * Q2R sigma / Q2R n).
    { rewrite Q2R_div, !Q2R_mult, Q2R_2 by assumption. reflexivity. }
    assert (Hc : 0 <= Q2R w * Q2R w * 2 * Q2R sigma / Q2R n).
    { unfold Rdiv. apply Rmult_le_pos; [|lra]. apply Rmult_le_pos; [|lra]. lra. }
    rewrite Q2R_div.
    + rewrite !Q2R_plus, Q2R_mult, Ec, Q2R_1'. reflexivity.
    + intros E. apply Qeq_eqR in E. rewrite Q2R_plus, Ec, Q2R_1', Q2R_0' in E. lra.
  - intros Hs'. assert (HsR' : 0 < Q2R sigma) by (apply Qlt_Rlt in Hs'; rewrite Q2R_0' in Hs'; exact Hs').
    unfold l2_pccQ, l2_pcc. cbv zeta. rewrite Q2R_red.
    assert (Ews : Q2R (w * w / n) = Q2R w * Q2R w / Q2R n) by (rewrite Q2R_div, Q2R_mult by assumption; reflexivity).
    assert (Hws : 0 <= Q2R w * Q2R w / Q2R n) by (unfold Rdiv; apply Rmult_le_pos; lra).
    rewrite Q2R_div.
    + rewrite Q2R_plus, !Q2R_mult, Q2R_minus, Q2R_mult, Ews, Q2R_2. reflexivity.
    + intros E. apply Qeq_eqR in E. rewrite Q2R_plus, Q2R_mult, Ews, Q2R_2, Q2R_0' in E. lra.
Qed.

Lemma qsqrt_nonneg q : (0 <= qsqrt q)%Q.
Proof. unfold qsqrt, Qle. cbn. pose proof (Z.sqrt_nonneg (Qnum (Qred q))). lia. Qed.

Lemma cqabs_nonneg z : (0 <= cqabs z)%Q.
Proof.
  unfold cqabs. destruct (Qeq_bool (snd z) 0); [|destruct (Qeq_bool (fst z) 0)].
  - rewrite Qred_correct. apply Qabs_nonneg.
  - rewrite Qred_correct. apply Qabs_nonneg.
  - apply qsqrt_nonneg.
Qed.

Lemma cqabs_coh z : cqabs_ok z = true -> Q2R (cqabs z) = cabs (Q2R (fst z), Q2R (snd z)).
Proof.
  intros H. unfold cqabs_ok in H. apply Qeq_bool_eq in H. apply Qeq_eqR in H.
  symmetry. apply cabs_unique.
  - pose proof (cqabs_nonneg z) as H0. apply Qle_Rle in H0. rewrite Q2R_0' in H0. exact H0.
  - rewrite Q2R_mult in H. rewrite H. unfold cqnorm2, cnorm2. cbn [fst snd].
    rewrite Q2R_red, Q2R_plus, !Q2R_mult. reflexivity.
Qed.
