(* C08 - facts about the tensor layer (Model/TensorFunctionals.v): the divide_by_n count. *)
From Coq Require Import Reals QArith Qabs Qminmax Qreals Lra Lia.
From MrVerif Require Import Base.Prelude Base.Tensor Model.Functionals Model.TensorFunctionals
  Proofs.FunctionalsProofs Proofs.FunctionalsTransfer.
Local Open Scope Z_scope.

Definition P (k : Z) (sx D : list Z) : Z := numel (mapi_from k (fun i s => if zmem i D then s else 1) sx).

Lemma zmem_In i l : zmem i l = true <-> In i l.
Proof.
  unfold zmem. rewrite existsb_exists. split.
  - intros [x [Hx E]]. apply Z.eqb_eq in E. subst. exact Hx.
  - intros H. exists i. split; [exact H|apply Z.eqb_refl].
Qed.

Lemma zmem_cons i d D : zmem i (d :: D) = (i =? d) || zmem i D.
Proof. reflexivity. Qed.

Lemma P_nil k sx : P k sx [] = 1.
Proof. revert k. induction sx as [|s r IH]; intros k; unfold P in *; cbn; [reflexivity|]. rewrite IH. reflexivity. Qed.

Lemma P_out k sx d D : d < k -> P k sx (d :: D) = P k sx D.
Proof.
  revert k. induction sx as [|s r IH]; intros k Hd; unfold P in *; cbn [mapi_from numel]; [reflexivity|].
  rewrite zmem_cons. destruct (Z.eqb_spec k d); [lia|]. cbn [orb]. rewrite IH by lia. reflexivity.
Qed.

Lemma P_step k sx d D : ~ In d D -> k <= d < k + Z.of_nat (length sx) ->
  P k sx (d :: D) = znth 1 sx (d - k) * P k sx D.
Proof.
  revert k. induction sx as [|s r IH]; intros k Hn Hd; [cbn in Hd; lia|]. cbn [length] in Hd.
  unfold P in *. cbn [mapi_from numel]. rewrite zmem_cons.
  destruct (Z.eqb_spec k d) as [->|Hne].
  - cbn [orb]. assert (E : zmem d D = false).
    { destruct (zmem d D) eqn:E; [|reflexivity]. apply zmem_In in E. contradiction. }
    rewrite E. fold (P (d + 1) r (d :: D)). rewrite P_out by lia. unfold P.
    replace (d - d) with 0 by lia. unfold znth. change (0 <? 0) with false. cbn [Z.to_nat nth]. ring.
  - cbn [orb]. rewrite IH by (auto; lia).
    unfold znth. destruct (d - k <? 0) eqn:E1; [lia|]. destruct (d - (k + 1) <? 0) eqn:E2; [lia|].
    replace (Z.to_nat (d - k)) with (S (Z.to_nat (d - (k + 1)))) by lia. cbn [nth]. ring.
Qed.

Lemma P_all k sx D : (forall i, k <= i < k + Z.of_nat (length sx) -> In i D) -> P k sx D = numel sx.
Proof.
  revert k. induction sx as [|s r IH]; intros k H; unfold P in *; cbn [mapi_from numel]; [reflexivity|].
  cbn [length] in H. assert (E : zmem k D = true) by (apply zmem_In, H; lia). rewrite E.
  rewrite IH; [reflexivity|]. intros i Hi. apply H. lia.
Qed.

Lemma nred_P sx D : nred sx D = P 0 sx D.
Proof. reflexivity. Qed.

(* the N used by prox / prox_convex_conj (math.prod(shape[i] for i in dim), python indexing) is the number of elements
   torch.mean divides by in forward, for every dim specification without repeated axes *)
Lemma nprox_nred sx dim : (0 < length sx)%nat ->
  match dim with None => True | Some ds => NoDup (map (fun d => d mod Z.of_nat (length sx)) ds) end ->
  nprox sx dim = nred sx (norm_dims (Z.of_nat (length sx)) dim).
Proof.
  intros Hl Hd. rewrite nred_P.
  assert (Hall : numel sx = P 0 sx (zrange (Z.of_nat (length sx)))).
  { symmetry. apply P_all. intros i Hi. apply zrange_In. lia. }
  destruct dim as [[|d0 r0]|]; [exact Hall| |exact Hall].
  unfold nprox, norm_dims. set (ds := d0 :: r0) in *. clearbody ds.
  set (nd := Z.of_nat (length sx)) in *. assert (Hnd : 0 < nd) by lia.
  induction ds as [|d r IH]; cbn [map fold_right].
  - rewrite P_nil. reflexivity.
  - inversion Hd as [|? ? Hn Hr]; subst.
    rewrite P_step; [|exact Hn|pose proof (Z.mod_pos_bound d nd Hnd); lia].
    rewrite Z.sub_0_r. f_equal. apply IH. exact Hr.
Qed.

(* the pre-repair count (empty product = 1 for dim=()) differs from what forward divides by *)
Lemma nprox_legacy_refuted : exists sx, nprox_legacy sx (Some []) <> nred sx (norm_dims (Z.of_nat (length sx)) (Some [])).
Proof. exists [2; 3]. vm_compute. discriminate. Qed.

(* every output of the reduction sums exactly nred elements: torch.mean divides by the number of reduced elements *)
Lemma red_indices_length sx dims oflat : length (red_indices sx dims oflat) = Z.to_nat (nred sx dims).
Proof. unfold red_indices, nred. rewrite map_length, zrange_length. reflexivity. Qed.


(* ================================================================================================ *)
(* coherence of the Gaussian-rational tensor layer with the real model                               *)
(* ================================================================================================ *)
(* ---- A: reduction ------------------------------------------------------------------------------------ *)
Lemma Q2R_qsum_acc l acc : Q2R (fold_left (fun a b => Qred (a + b)) l acc) = (Q2R acc + sumR Q2R l)%R.
Proof.
  revert acc. induction l as [|q r IH]; intros acc; cbn [fold_left sumR]; [lra|].
  rewrite IH, Q2R_red, Q2R_plus. lra.
Qed.

Lemma Q2R_qsum l : Q2R (qsum l) = sumR Q2R l.
Proof. unfold qsum. rewrite Q2R_qsum_acc, Q2R_0'. lra. Qed.

Lemma sumR_map {A B} (f : A -> B) (g : B -> R) l : sumR g (map f l) = sumR (fun a => g (f a)) l.
Proof. induction l as [|a r IH]; cbn [map sumR]; [reflexivity|]. rewrite IH. reflexivity. Qed.

Definition fwd_vals (e : espec) (xc : bool) (x : tens) : list Q :=
  tbuild (fst x) (fun idx => elem_val (ek e) (ewc e) (xc || ebc e) (bget (fst x) (ew e) idx) (bget (fst x) (eb e) idx) (tget cq0 (fst x) (snd x) idx)).
Definition fwd_n (e : espec) (x : tens) : Q :=
  nfacQ (edivn e) (nred (fst x) (norm_dims (Z.of_nat (length (fst x))) (edim e))).

(* the forward model is, output position by output position, the (exactly rounded) rational sum over the reduced index list
   divided by n *)
Lemma e_forward_data e xc x : ek e <> KZero ->
  let dims := norm_dims (Z.of_nat (length (fst x))) (edim e) in
  snd (e_forward e xc x)
  = map (fun o => qre (Qred (qsum (map (znth 0%Q (fwd_vals e xc x)) (red_indices (fst x) dims o)) / fwd_n e x)))
        (zrange (numel (kshape (fst x) dims))).
Proof.
  intros Hk dims. unfold e_forward, fwd_vals, fwd_n. fold dims.
  destruct (ek e) eqn:E; try contradiction; cbn [snd]; unfold reduce_sum; rewrite map_map; reflexivity.
Qed.

Lemma reduce_coh (vals : list Q) (idxs : list Z) (n : Q) : ~ (n == 0)%Q ->
  Q2R (Qred (qsum (map (znth 0%Q vals) idxs) / n)) = (sumR (fun i => Q2R (znth 0%Q vals i)) idxs / Q2R n)%R.
Proof. intros Hn. rewrite Q2R_red, Q2R_div, Q2R_qsum, sumR_map by exact Hn. reflexivity. Qed.

Lemma nfacQ_coh divn N : Q2R (nfacQ divn N) = if divn then IZR N else 1%R.
Proof. destruct divn; cbn [nfacQ]; [|apply Q2R_1']. unfold Q2R, inject_Z; cbn. field. Qed.

(* ---- C: pointwise access into a tensor built by tbuild ----------------------------------------------- *)
Lemma znth_tbuild {A} (d : A) sx (f : list Z -> A) i : (0 <= i < numel sx)%Z -> znth d (tbuild sx f) i = f (unravel sx i).
Proof.
  intros Hi. unfold znth, tbuild, zrange. destruct (i <? 0)%Z eqn:E; [lia|].
  rewrite map_map.
  rewrite (nth_indep _ d (f (unravel sx (Z.of_nat 0)))) by (rewrite map_length, seq_length; lia).
  rewrite (map_nth (fun k => f (unravel sx (Z.of_nat k))) (seq 0 (Z.to_nat (numel sx))) 0%nat).
  rewrite seq_nth by lia. cbn [plus]. rewrite Z2Nat.id by lia. reflexivity.
Qed.

Local Open Scope Q_scope.
(* ---- B: per-element functions on real data (imaginary parts 0) are the real scalar cores ---------------- *)
Lemma Qeq_bool_0 q : q == 0 -> Qeq_bool q 0 = true.
Proof. intros H. apply Qeq_bool_iff. exact H. Qed.

Lemma cqabs_real (z : CQ) : snd z == 0 -> cqabs z == Qabs (fst z).
Proof. intros H. unfold cqabs. rewrite (Qeq_bool_0 _ H). apply Qred_correct. Qed.

(* real data stay real: the imaginary part of w * (x - b) is 0 *)
Lemma cqmul_sub_real wq bq xq : snd (cqmul (wq, 0) (cqsub (xq, 0) (bq, 0))) == 0
  /\ fst (cqmul (wq, 0) (cqsub (xq, 0) (bq, 0))) == wq * (xq - bq).
Proof.
  unfold cqmul, cqsub, cqred; cbn [fst snd]. rewrite !Qred_correct. split; ring.
Qed.

Lemma elem_val_real_l1 wc dc wq bq xq :
  Q2R (elem_val KL1 wc dc (wq, 0) (bq, 0) (xq, 0)) = l1_val (Q2R wq) (Q2R bq) (Q2R xq).
Proof.
  unfold elem_val, l1_val. destruct (cqmul_sub_real wq bq xq) as [Hs Hf].
  rewrite (Qeq_eqR _ _ (cqabs_real _ Hs)), Q2R_abs, (Qeq_eqR _ _ Hf), Q2R_mult, Q2R_minus. reflexivity.
Qed.

Lemma elem_val_real_l2 wc dc wq bq xq :
  Q2R (elem_val KL2 wc dc (wq, 0) (bq, 0) (xq, 0)) = l2_val (Q2R wq) (Q2R bq) (Q2R xq).
Proof.
  unfold elem_val. destruct (cqmul_sub_real wq bq xq) as [Hs Hf]. cbv zeta.
  unfold cqnorm2. rewrite Q2R_red, Q2R_plus, !Q2R_mult, (Qeq_eqR _ _ Hs), (Qeq_eqR _ _ Hf), Q2R_0', Q2R_mult, Q2R_minus.
  rewrite l2_val_alt. unfold sq. ring.
Qed.

Lemma elem_val_real_l1r wq bq xq :
  Q2R (elem_val KL1R false false (wq, 0) (bq, 0) (xq, 0)) = l1r_val_code false false (Q2R wq, 0%R) (Q2R bq, 0%R) (Q2R xq, 0%R).
Proof.
  unfold elem_val, l1r_val_code, cqsub, cqred, csub. cbn [fst snd].
  rewrite Q2R_red, Q2R_abs, Q2R_mult, Q2R_red, Q2R_minus. reflexivity.
Qed.

Lemma elem_val_zero wc dc w b x : Q2R (elem_val KZero wc dc w b x) = zero_val 0.
Proof. unfold elem_val, zero_val. apply Q2R_0'. Qed.

Ltac q2r := repeat first [rewrite Q2R_red | rewrite Q2R_plus | rewrite Q2R_mult | rewrite Q2R_minus | rewrite Q2R_max
                          | rewrite Q2R_min | rewrite Q2R_abs | rewrite Q2R_0' | rewrite Q2R_1' | rewrite Q2R_2 | rewrite Q2R_opp].

(* prox of L1Norm on real data: real part = l1_prox, imaginary part = 0 *)
Lemma cqsgn_real d : fst (cqsgn (d, 0)) == sgnQ d /\ snd (cqsgn (d, 0)) == 0.
Proof.
  unfold cqsgn. assert (Ha : cqabs (d, 0) == Qabs d) by (apply cqabs_real; reflexivity).
  destruct (Qeq_bool (cqabs (d, 0)) 0) eqn:E.
  - apply Qeq_bool_eq in E. rewrite Ha in E. cbn [fst snd cq0].
    assert (d == 0).
    { destruct (Qlt_le_dec d 0) as [H|H].
      - rewrite Qabs_neg in E by (apply Qlt_le_weak; exact H). rewrite <- (Qopp_involutive d), E. reflexivity.
      - rewrite Qabs_pos in E by exact H. exact E. }
    split; [|reflexivity]. unfold sgnQ.
    destruct (Qlt_le_dec 0 d) as [H1|H1]; [rewrite H in H1; discriminate|].
    destruct (Qlt_le_dec d 0) as [H2|H2]; [rewrite H in H2; discriminate|reflexivity].
  - apply Qeq_bool_neq in E. unfold cqred; cbn [fst snd]. rewrite !Qred_correct. split.
    + rewrite Ha. unfold sgnQ. destruct (Qlt_le_dec 0 d) as [H1|H1].
      * rewrite Qabs_pos by (apply Qlt_le_weak; exact H1). field. intros H0. rewrite H0 in H1. discriminate.
      * destruct (Qlt_le_dec d 0) as [H2|H2].
        -- rewrite Qabs_neg by (apply Qlt_le_weak; exact H2). field. intros H0. rewrite H0 in H2. discriminate.
        -- exfalso. apply E. rewrite Ha. assert (d == 0) by (apply Qle_antisym; assumption). rewrite H. reflexivity.
    + unfold Qdiv. ring.
Qed.

Lemma elem_prox_real_l1 wc n wq bq sigma xq : ~ n == 0 ->
  Q2R (fst (elem_prox KL1 wc n (wq, 0) (bq, 0) sigma (xq, 0))) = l1_prox (Q2R n) (Q2R wq) (Q2R bq) (Q2R sigma) (Q2R xq)
  /\ snd (elem_prox KL1 wc n (wq, 0) (bq, 0) sigma (xq, 0)) == 0.
Proof.
  intros Hn. unfold elem_prox. cbv zeta.
  set (d := cqsub (xq, 0) (bq, 0)).
  assert (Hd : d = (Qred (xq - bq), 0)) by reflexivity.
  set (thr := cqabs (cqscale (/ n) (cqscale sigma (wq, 0)))).
  assert (Ht : thr == Qabs (wq * sigma / n)).
  { unfold thr. rewrite cqabs_real.
    - unfold cqscale, cqred; cbn [fst snd]. rewrite !Qred_correct. apply Qabs_wd. field. exact Hn.
    - unfold cqscale, cqred; cbn [fst snd]. rewrite !Qred_correct. ring. }
  rewrite Hd. destruct (cqsgn_real (Qred (xq - bq))) as [Hs1 Hs2].
  assert (Ha : cqabs (Qred (xq - bq), 0) == Qabs (xq - bq)).
  { rewrite cqabs_real by reflexivity. cbn [fst]. apply Qabs_wd, Qred_correct. }
  unfold cqadd, cqscale, cqred; cbn [fst snd]. split.
  - unfold reluQ. q2r.
    rewrite (Qeq_eqR _ _ Hs1), (Qeq_eqR _ _ Ha), (Qeq_eqR _ _ Ht), Q2R_sgn. q2r. rewrite Q2R_div by exact Hn. q2r.
    unfold l1_prox, softR, reluR. ring.
  - rewrite !Qred_correct, Hs2. ring.
Qed.

Lemma elem_prox_real_l2_Q wc n wq bq sigma xq : 0 < n -> 0 <= sigma ->
  fst (elem_prox KL2 wc n (wq, 0) (bq, 0) sigma (xq, 0)) == (xq + (wq * wq * 2 * sigma / n) * bq) / (1 + wq * wq * 2 * sigma / n)
  /\ snd (elem_prox KL2 wc n (wq, 0) (bq, 0) sigma (xq, 0)) == 0.
Proof.
  intros Hn Hs.
  assert (Hn0 : ~ n == 0) by (intros E; rewrite E in Hn; discriminate).
  assert (Hc : 0 <= wq * wq * 2 * sigma / n).
  { apply Qle_shift_div_l; [exact Hn|]. rewrite Qmult_0_l.
    apply Qmult_le_0_compat; [|exact Hs]. apply Qmult_le_0_compat; [|discriminate].
    unfold Qle, Qmult; cbn; nia. }
  assert (Hd : ~ 1 + wq * wq * 2 * sigma / n == 0).
  { intros E. assert (0 < 1 + wq * wq * 2 * sigma / n).
    { apply Qlt_le_trans with (1 + 0); [reflexivity|]. apply Qplus_le_r. exact Hc. }
    rewrite E in H. discriminate. }
  assert (Hpos : 0 < n + wq * wq * 2 * sigma).
  { apply Qlt_le_trans with (n + 0); [rewrite Qplus_0_r; exact Hn|]. apply Qplus_le_r.
    apply Qmult_le_0_compat; [|exact Hs]. apply Qmult_le_0_compat; [|discriminate]. unfold Qle, Qmult; cbn; nia. }
  Ltac nz Hpos n wq sigma := match goal with |- ~ ?e == 0 => let E := fresh in let H0 := fresh in intros E;
    assert (H0 : 0 < e) by (apply Qlt_le_trans with (n + wq * wq * 2 * sigma); [exact Hpos | apply Qle_lteq; right; ring]);
    apply (Qlt_irrefl 0); apply Qlt_le_trans with e; [exact H0 | apply Qle_lteq; right; exact E] end.
  unfold elem_prox, cqdiv, cqscale, cqmul, cqadd, cqconj, cqnorm2, cqred, qre; cbn [fst snd].
  rewrite !Qred_correct. split.
  - field. repeat split; try exact Hn0; nz Hpos n wq sigma.
  - field. repeat split; try exact Hn0; nz Hpos n wq sigma.
Qed.

Lemma elem_prox_real_l2 wc n wq bq sigma xq : 0 < n -> 0 <= sigma ->
  Q2R (fst (elem_prox KL2 wc n (wq, 0) (bq, 0) sigma (xq, 0))) = l2_prox (Q2R n) (Q2R wq) (Q2R bq) (Q2R sigma) (Q2R xq)
  /\ snd (elem_prox KL2 wc n (wq, 0) (bq, 0) sigma (xq, 0)) == 0.
Proof.
  intros Hn Hs. destruct (elem_prox_real_l2_Q wc n wq bq sigma xq Hn Hs) as [H1 H2]. split; [|exact H2].
  rewrite (Qeq_eqR _ _ H1). destruct (l2Q_coh n wq bq sigma xq Hn Hs) as [_ [Hp _]].
  rewrite <- Hp. unfold l2_proxQ. cbv zeta. rewrite Q2R_red. reflexivity.
Qed.


(* prox / prox_convex_conj act pointwise on the broadcast operands *)
Lemma e_pointwise_spec f e x sg t i : e_pointwise f e x sg = Some t -> (0 <= i < numel (fst x))%Z ->
  fst t = fst x /\
  znth cq0 (snd t) i = f (ek e) (ewc e) (nfacQ (edivn e) (nprox (fst x) (edim e)))
                         (bget (fst x) (ew e) (unravel (fst x) i)) (bget (fst x) (eb e) (unravel (fst x) i))
                         (fst (bget (fst x) sg (unravel (fst x) i))) (tget cq0 (fst x) (snd x) (unravel (fst x) i)).
Proof.
  intros H Hi. unfold e_pointwise in H. destruct (sigma_ok sg); [|discriminate]. inversion H; subst; clear H. cbn [fst snd].
  split; [reflexivity|]. rewrite znth_tbuild by exact Hi. reflexivity.
Qed.

Lemma fwd_vals_spec e xc x i : (0 <= i < numel (fst x))%Z ->
  znth 0 (fwd_vals e xc x) i = elem_val (ek e) (ewc e) (xc || ebc e) (bget (fst x) (ew e) (unravel (fst x) i))
                                 (bget (fst x) (eb e) (unravel (fst x) i)) (tget cq0 (fst x) (snd x) (unravel (fst x) i)).
Proof. intros Hi. unfold fwd_vals. rewrite znth_tbuild by exact Hi. reflexivity. Qed.
