(* C08 - facts about the tensor layer (Model/TensorFunctionals.v): the divide_by_n count. *)
From Coq Require Import QArith.
From MrVerif Require Import Base.Prelude Base.Tensor Model.Functionals Model.TensorFunctionals.
Local Open Scope Z_scope.

Definition P (k : Z) (sx D : list Z) : Z := numel (mapi_from k (fun i s => if zmem i D then s else 1) sx).

Lemma zmem_In i l : zmem i l = true <-> In i l.
Proof.
  unfold zmem. rewrite existsb_exists. split.
  - intros [x [Hx E]]. apply Z.eqb_eq in E. subst. exact Hx.
  - intros H. exists i. split; [exact H|apply Z.eqb_refl].
Qed.

Lemma zmem_cons i d D : zmem i (d :: D) = (i =? d) || zmem i D.
Proof. reflexivity. Qed.

Lemma P_nil k sx : P k sx [] = 1.
Proof. revert k. induction sx as [|s r IH]; intros k; unfold P in *; cbn; [reflexivity|]. rewrite IH. reflexivity. Qed.

Lemma P_out k sx d D : d < k -> P k sx (d :: D) = P k sx D.
Proof.
  revert k. induction sx as [|s r IH]; intros k Hd; unfold P in *; cbn [mapi_from numel]; [reflexivity|].
  rewrite zmem_cons. destruct (Z.eqb_spec k d); [lia|]. cbn [orb]. rewrite IH by lia. reflexivity.
Qed.

Lemma P_step k sx d D : ~ In d D -> k <= d < k + Z.of_nat (length sx) ->
  P k sx (d :: D) = znth 1 sx (d - k) * P k sx D.
Proof.
  revert k. induction sx as [|s r IH]; intros k Hn Hd; [cbn in Hd; lia|]. cbn [length] in Hd.
  unfold P in *. cbn [mapi_from numel]. rewrite zmem_cons.
  destruct (Z.eqb_spec k d) as [->|Hne].
  - cbn [orb]. assert (E : zmem d D = false).
    { destruct (zmem d D) eqn:E; [|reflexivity]. apply zmem_In in E. contradiction. }
    rewrite E. fold (P (d + 1) r (d :: D)). rewrite P_out by lia. unfold P.
    replace (d - d) with 0 by lia. unfold znth. change (0 <? 0) with false. cbn [Z.to_nat nth]. ring.
  - cbn [orb]. rewrite IH by (auto; lia).
    unfold znth. destruct (d - k <? 0) eqn:E1; [lia|]. destruct (d - (k + 1) <? 0) eqn:E2; [lia|].
    replace (Z.to_nat (d - k)) with (S (Z.to_nat (d - (k + 1)))) by lia. cbn [nth]. ring.
Qed.

Lemma P_all k sx D : (forall i, k <= i < k + Z.of_nat (length sx) -> In i D) -> P k sx D = numel sx.
Proof.
  revert k. induction sx as [|s r IH]; intros k H; unfold P in *; cbn [mapi_from numel]; [reflexivity|].
  cbn [length] in H. assert (E : zmem k D = true) by (apply zmem_In, H; lia). rewrite E.
  rewrite IH; [reflexivity|]. intros i Hi. apply H. lia.
Qed.

Lemma nred_P sx D : nred sx D = P 0 sx D.
Proof. reflexivity. Qed.

(* the N used by prox / prox_convex_conj (math.prod(shape[i] for i in dim), python indexing) is the number of elements
   torch.mean divides by in forward, for every dim specification without repeated axes *)
Lemma nprox_nred sx dim : (0 < length sx)%nat ->
  match dim with None => True | Some ds => NoDup (map (fun d => d mod Z.of_nat (length sx)) ds) end ->
  nprox sx dim = nred sx (norm_dims (Z.of_nat (length sx)) dim).
Proof.
  intros Hl Hd. rewrite nred_P. unfold nprox, norm_dims. destruct dim as [ds|].
  - set (nd := Z.of_nat (length sx)) in *. assert (Hnd : 0 < nd) by lia.
    induction ds as [|d r IH]; cbn [map fold_right].
    + rewrite P_nil. reflexivity.
    + inversion Hd as [|? ? Hn Hr]; subst.
      rewrite P_step; [|exact Hn|pose proof (Z.mod_pos_bound d nd Hnd); lia].
      rewrite Z.sub_0_r. f_equal. apply IH. exact Hr.
  - symmetry. apply P_all. intros i Hi. apply zrange_In. lia.
Qed.

(* every output of the reduction sums exactly nred elements: torch.mean divides by the number of reduced elements *)
Lemma red_indices_length sx dims oflat : length (red_indices sx dims oflat) = Z.to_nat (nred sx dims).
Proof. unfold red_indices, nred. rewrite map_length, zrange_length. reflexivity. Qed.
