(* C20 - corollaries combining the signed-permutation theorems with the _find_width theorems. *)
From MrVerif Require Import Base.Prelude Model.SliceProj Proofs.SliceProjProofs Proofs.SliceProjPermProofs Proofs.SliceProjWidthProofs.
From Coq Require Import QArith Qround Qminmax Qabs Lqa Setoid Morphisms.
Local Open Scope Q_scope.

(* parity side conditions hold for every cubic volume ... *)
Lemma parity_cubic g a : nz g = ny g -> ny g = nx g ->
  Z.even (ny g) = Z.even (comp a (dimv g)) /\ Z.even (nx g) = Z.even (comp a (dimv g)).
Proof. intros E1 E2. destruct a; cbn [comp dimv]; rewrite ?E1, ?E2; split; reflexivity. Qed.

(* ... and for every volume shape when the rotation keeps the in-plane axes (identity, flips, 180 degree rotations) *)
Lemma parity_axis_keeping g : Z.even (ny g) = Z.even (comp AY (dimv g)) /\ Z.even (nx g) = Z.even (comp AX (dimv g)).
Proof. split; reflexivity. Qed.

Theorem row_sperm_cubic g r c a0 a1 a2 b0 b1 b2 :
  is_perm a0 a1 a2 -> rot g = sperm_mat a0 a1 a2 b0 b1 b2 -> Proper (Qeq ==> Qeq) (prof g) ->
  nz g = ny g -> ny g = nx g ->
  exists a, a == line_n g a0 b0 /\
  forall pt w, In (pt, w) (row g r c) ->
    w == (if ((comp a1 pt =? lat_y g a1 b1 r) && (comp a2 pt =? lat_x g a2 b2 c))%Z
          then prof g (sgn b0 * (a - inject_Z (comp a0 pt))) else 0)
         * (fraction_in_view g (pixel_rot g r c) / (raw_sum g (pixel_rot g r c) + eps)).
Proof.
  intros Hp Hrot Hprop E1 E2. apply row_sperm; try assumption.
  - apply (parity_cubic g a1 E1 E2).
  - apply (parity_cubic g a2 E1 E2).
Qed.

(* the operator as built by SliceProjectionOp.__init__ (width from _find_width) with a rectangular profile of half-width h:
   every in-volume voxel of the line within distance h is present, all with the same weight *)
Theorem rect_sperm_taps_built n0 n1 n2 a0 a1 a2 b0 b1 b2 sh h r c :
  let g := mk n0 n1 n2 (sperm_mat a0 a1 a2 b0 b1 b2) sh (rect h) in
  is_perm a0 a1 a2 -> 0 <= h -> (Qfloor h <= max_shape g)%Z -> (2 * Qfloor h + 1 < 100)%Z ->
  Z.even (ny g) = Z.even (comp a1 (dimv g)) -> Z.even (nx g) = Z.even (comp a2 (dimv g)) ->
  forall pt, inside g pt = true -> comp a1 pt = lat_y g a1 b1 r -> comp a2 pt = lat_x g a2 b2 c ->
  Qabs (line_n g a0 b0 - inject_Z (comp a0 pt)) <= h ->
  exists w, In (pt, w) (row g r c)
            /\ w == fraction_in_view g (pixel_rot g r c) / (raw_sum g (pixel_rot g r c) + eps).
Proof.
  intros g Hp H0 Hmx H100 Py Px pt Hin P1 P2 Hd.
  apply (rect_sperm_taps g r c a0 a1 a2 b0 b1 b2 h Hp eq_refl eq_refl H0); try assumption.
  change (width g) with (find_width (max_shape g) (rect h)).
  apply find_width_rect_covers; assumption.
Qed.
