(* C20 - corollaries combining the signed-permutation theorems with the _find_width theorems. *)
From MrVerif Require Import Base.Prelude Model.SliceProj Proofs.SliceProjProofs Proofs.SliceProjPermProofs Proofs.SliceProjWidthProofs.
From Coq Require Import QArith Qround Qminmax Qabs Lqa Setoid Morphisms.
Local Open Scope Q_scope.

(* parity side conditions hold for every cubic volume ... *)
Lemma parity_cubic g a : nz g = ny g -> ny g = nx g ->
  Z.even (ny g) = Z.even (comp a (dimv g)) /\ Z.even (nx g) = Z.even (comp a (dimv g)).
Proof. intros E1 E2. destruct a; cbn [comp dimv]; rewrite ?E1, ?E2; split; reflexivity. Qed.

(* ... and for every volume shape when the rotation keeps the in-plane axes (identity, flips, 180 degree rotations) *)
Lemma parity_axis_keeping g : Z.even (ny g) = Z.even (comp AY (dimv g)) /\ Z.even (nx g) = Z.even (comp AX (dimv g)).
Proof. split; reflexivity. Qed.

Theorem row_sperm_cubic g r c a0 a1 a2 b0 b1 b2 :
  is_perm a0 a1 a2 -> rot g = sperm_mat a0 a1 a2 b0 b1 b2 -> Proper (Qeq ==> Qeq) (prof g) ->
  nz g = ny g -> ny g = nx g ->
  exists a, a == line_n g a0 b0 /\
  forall pt w, In (pt, w) (row g r c) ->
    w == (if ((comp a1 pt =? lat_y g a1 b1 r) && (comp a2 pt =? lat_x g a2 b2 c))%Z
          then prof g (sgn b0 * (a - inject_Z (comp a0 pt))) else 0)
         * (fraction_in_view g (pixel_rot g r c) / (raw_sum g (pixel_rot g r c) + eps)).
Proof.
  intros Hp Hrot Hprop E1 E2. apply row_sperm; try assumption.
  - apply (parity_cubic g a1 E1 E2).
  - apply (parity_cubic g a2 E1 E2).
Qed.

(* the operator as built by SliceProjectionOp.__init__ (width from _find_width) with a rectangular profile of half-width h:
   every in-volume voxel of the line within distance h is present, all with the same weight *)
Theorem rect_sperm_taps_built n0 n1 n2 a0 a1 a2 b0 b1 b2 sh h r c :
  let g := mk n0 n1 n2 (sperm_mat a0 a1 a2 b0 b1 b2) sh (rect h) in
  is_perm a0 a1 a2 -> 0 <= h -> (Qfloor h <= max_shape g)%Z -> (2 * Qfloor h + 1 < 100)%Z ->
  Z.even (ny g) = Z.even (comp a1 (dimv g)) -> Z.even (nx g) = Z.even (comp a2 (dimv g)) ->
  forall pt, inside g pt = true -> comp a1 pt = lat_y g a1 b1 r -> comp a2 pt = lat_x g a2 b2 c ->
  Qabs (line_n g a0 b0 - inject_Z (comp a0 pt)) <= h ->
  exists w, In (pt, w) (row g r c)
            /\ w == fraction_in_view g (pixel_rot g r c) / (raw_sum g (pixel_rot g r c) + eps).
Proof.
  intros g Hp H0 Hmx H100 Py Px pt Hin P1 P2 Hd.
  apply (rect_sperm_taps g r c a0 a1 a2 b0 b1 b2 h Hp eq_refl eq_refl H0); try assumption.
  change (width g) with (find_width (max_shape g) (rect h)).
  apply find_width_rect_covers; assumption.
Qed.

(* ---------------------------------------------------------------- rows sum to one inside the volume (axis-aligned, rectangle) *)
Lemma qpos_iff q : qpos q = true <-> 0 < q.
Proof.
  unfold qpos. rewrite Bool.negb_true_iff. split.
  - intros H. apply Qnot_le_lt. intros L. apply Qle_bool_iff in L. congruence.
  - intros H. apply Bool.not_true_iff_false. intros L. apply Qle_bool_iff in L. lra.
Qed.

Lemma count_pos_of_In {A} (f : A -> bool) l a : In a l -> f a = true -> (0 < count f l)%Z.
Proof.
  intros Hin Hf. unfold count.
  assert (H : In a (filter f l)) by (apply filter_In; split; assumption).
  destruct (filter f l); [destruct H|cbn [length]; lia].
Qed.

Lemma qsum_ge_member {A} (f : A -> Q) l a : (forall b, In b l -> 0 <= f b) -> In a l -> f a <= qsum (map f l).
Proof.
  induction l as [|b l IH]; intros Hnn Hin; [destruct Hin|]. cbn [map qsum].
  assert (Hb : 0 <= f b) by (apply Hnn; left; reflexivity).
  assert (Hr : 0 <= qsum (map f l)) by (apply qsum_nonneg; intros; apply Hnn; right; assumption).
  destruct Hin as [->|Hin]; [lra|]. pose proof (IH (fun c Hc => Hnn c (or_intror Hc)) Hin). lra.
Qed.

(* a voxel from its components along a0, a1, a2 *)
Definition build (a0 a1 a2 : ax) (v0 v1 v2 : Z) : pt3 :=
  let sel i := if ax_eqb a0 i then v0 else if ax_eqb a1 i then v1 else v2 in (sel AZ, sel AY, sel AX).

Lemma comp_build a0 a1 a2 v0 v1 v2 : is_perm a0 a1 a2 ->
  comp a0 (build a0 a1 a2 v0 v1 v2) = v0 /\ comp a1 (build a0 a1 a2 v0 v1 v2) = v1 /\ comp a2 (build a0 a1 a2 v0 v1 v2) = v2.
Proof. intros Hp. perm_cases a0 a1 a2 Hp; cbn; repeat split; reflexivity. Qed.

Lemma nearest_int (a : Q) : Qabs (a - inject_Z (Qfloor (a + (1 # 2)))) <= 1 # 2.
Proof.
  pose proof (Qfloor_le (a + (1 # 2))) as F1. pose proof (Qlt_floor (a + (1 # 2))) as F2.
  rewrite inject_Z_plus in F2. change (inject_Z 1) with 1 in F2.
  apply Qabs_Qle_condition. split; lra.
Qed.

(* THEOREM: axis-permuting rotation, rectangular profile 1/2 <= h <= width, all voxels of the pixel's line within distance h
   inside the volume  ==>  the row sums to s/(s+1e-6) with s >= 1, i.e. to one within 1e-6 (a constant volume gives the constant) *)
Theorem rect_sperm_row_sums_to_one g r c a0 a1 a2 b0 b1 b2 h :
  is_perm a0 a1 a2 -> rot g = sperm_mat a0 a1 a2 b0 b1 b2 -> prof g = rect h -> (1 # 2) <= h -> h <= inject_Z (width g) ->
  Z.even (ny g) = Z.even (comp a1 (dimv g)) -> Z.even (nx g) = Z.even (comp a2 (dimv g)) ->
  (forall pt, comp a1 pt = lat_y g a1 b1 r -> comp a2 pt = lat_x g a2 b2 c ->
              Qabs (line_n g a0 b0 - inject_Z (comp a0 pt)) <= h -> inside g pt = true) ->
  1 - eps <= row_sum g r c <= 1.
Proof.
  intros Hp Hrot Hprof Hh Hhw Py Px Hins.
  assert (Hw : (0 <= width g)%Z).
  { assert (L : inject_Z 0 <= inject_Z (width g)) by (change (inject_Z 0) with 0; lra). rewrite <- Zle_Qle in L. exact L. }
  assert (Hprop : Proper (Qeq ==> Qeq) (prof g)) by (rewrite Hprof; apply rect_comp).
  assert (Hnn : forall d, 0 <= prof g d) by (intros d; rewrite Hprof; apply rect_nonneg).
  set (pr := pixel_rot g r c).
  destruct (pixel_rot_sperm g r c a0 a1 a2 b0 b1 b2 Hp Hrot) as [E0 [E1 E2]]. fold pr in E0, E1, E2.
  rewrite (lattice_coord_spec b1 _ _ _ Py) in E1. rewrite (lattice_coord_spec b2 _ _ _ Px) in E2.
  fold (lat_y g a1 b1 r) in E1. fold (lat_x g a2 b2 c) in E2. fold (line_n g a0 b0) in E0.
  assert (Wt : forall pt, weight g pr pt == if ((comp a1 pt =? lat_y g a1 b1 r) && (comp a2 pt =? lat_x g a2 b2 c))%Z
                                          then rect h (sgn b0 * (comp a0 pr - inject_Z (comp a0 pt))) else 0).
  { intros pt. rewrite (weight_sperm g a0 a1 a2 b0 b1 b2 pr pt _ _ Hp Hrot Hprop E1 E2). rewrite Hprof. reflexivity. }
  (* every candidate with positive weight lies on the line within distance h, hence inside *)
  assert (Hall : all_in_view g pr).
  { intros pt _ Hpos. apply qpos_iff in Hpos. rewrite Wt in Hpos.
    destruct (Z.eqb_spec (comp a1 pt) (lat_y g a1 b1 r)) as [P1|]; [|cbn [andb] in Hpos; lra].
    destruct (Z.eqb_spec (comp a2 pt) (lat_x g a2 b2 c)) as [P2|]; [|cbn [andb] in Hpos; lra].
    cbn [andb] in Hpos. unfold rect in Hpos.
    destruct (Qle_bool (Qabs (sgn b0 * (comp a0 pr - inject_Z (comp a0 pt)))) h) eqn:B; [|lra].
    apply Qle_bool_iff in B. rewrite Qabs_sgn_mult, E0 in B. apply Hins; assumption. }
  (* the voxel of the line nearest to the slice position *)
  set (zs := Qfloor (line_n g a0 b0 + (1 # 2))).
  set (ps := build a0 a1 a2 zs (lat_y g a1 b1 r) (lat_x g a2 b2 c)).
  destruct (comp_build a0 a1 a2 zs (lat_y g a1 b1 r) (lat_x g a2 b2 c) Hp) as [B0 [B1 B2]]. fold ps in B0, B1, B2.
  assert (Dn : Qabs (line_n g a0 b0 - inject_Z (comp a0 ps)) <= 1 # 2) by (rewrite B0; apply nearest_int).
  assert (Dh : Qabs (line_n g a0 b0 - inject_Z (comp a0 ps)) <= h) by lra.
  assert (Ips : inside g ps = true) by (apply Hins; assumption).
  assert (Wps : weight g pr ps == 1).
  { rewrite Wt, B1, B2, !Z.eqb_refl. cbn [andb]. unfold rect.
    assert (B : Qle_bool (Qabs (sgn b0 * (comp a0 pr - inject_Z (comp a0 ps)))) h = true).
    { apply Qle_bool_iff. rewrite Qabs_sgn_mult, E0. exact Dh. }
    rewrite B. reflexivity. }
  assert (Cps : In ps (cands g pr)).
  { apply (cands_sperm_line g a0 a1 a2 b0 b1 b2 pr _ _ ps Hp Hrot Hw E1 E2 B1 B2).
    apply (support_in_window _ h); [exact Hhw|]. rewrite E0. exact Dh. }
  assert (Hnpos : (0 < npos g r c)%Z).
  { unfold npos. fold pr. apply (count_pos_of_In _ _ ps Cps). apply qpos_iff. rewrite Wps. reflexivity. }
  assert (Hs : 1 <= raw_sum g pr).
  { assert (Hd : In ps (dedup (filter (inside g) (cands g pr)))).
    { apply dedup_In. apply filter_In. split; assumption. }
    unfold raw_sum.
    assert (Hco : exists e, In e (coalesced g pr) /\ fst e = ps).
    { unfold coalesced. eexists (ps, _). split; [|reflexivity]. apply in_map_iff. exists ps. split; [reflexivity|exact Hd]. }
    destruct Hco as [e [He Hfe]].
    assert (Hge : snd e <= qsum (map snd (coalesced g pr))).
    { apply qsum_ge_member; [|exact He]. intros b Hb. destruct (coalesced_spec g pr b Hb) as [Eb _]. rewrite Eb.
      apply weight_nonneg. exact Hnn. }
    destruct (coalesced_spec g pr e He) as [Ee _]. rewrite Hfe, Wps in Ee. rewrite Ee in Hge. exact Hge. }
  destruct (row_sum_inside g r c Hnn Hall Hnpos) as [_ [Hle Hge]]. fold pr in Hge.
  split; [apply Hge; exact Hs|exact Hle].
Qed.
