(* C09 - the 3-D wavelet transform (wavedec3 / waverec3 model): W^H W = c^3 identity for one level under the perfect-reconstruction
   condition, and W^H W = identity at every level for orthonormal filter banks. *)
From MrVerif Require Import Base.Prelude Base.StarRing Base.Sums Model.OpAlg Model.ZeroPad Model.ElemOps Model.Wavelet Proofs.OpAlgProofs
  Proofs.ElemOpsProofs Proofs.AlongProofs Proofs.ElemOpsWf Proofs.WaveletProofs Proofs.WaveletWf Proofs.WaveletPRProofs Proofs.AlongGramProofs
  Proofs.Wavelet2DGramProofs.
Local Open Scope nat_scope.

Section Gram3.
  Variable R : StarRing.
  Add Ring RrG3 : (k_ring R).
  Local Open Scope K_scope.
  Notation vec := (nat -> R).
  Notation linop := (linop R).
  Notation gram := (gram R).

  Theorem dwt3_gram L n1 n2 n3 (flo fhi glo ghi : vec) (c : R) :
    (2 <= L)%nat -> (1 <= n1)%nat -> (1 <= n2)%nat -> (1 <= n3)%nat -> pr_cond L flo fhi glo ghi c ->
    forall x j, (j < (n1 * n2) * (n3 * 1))%nat -> gram (dwt3 L n1 n2 n3 flo fhi glo ghi) x j = c * (c * (c * x j)).
  Proof.
    intros HL H1 H2 H3 HPR x j Hj.
    pose proof (wlen_pos L n1 HL H1) as Hm1. pose proof (wlen_pos L n2 HL H2) as Hm2. pose proof (wlen_pos L n3 HL H3) as Hm3.
    set (m1 := wlen L n1) in *. set (m2 := wlen L n2) in *. set (m3 := wlen L n3) in *.
    assert (HL0 : (0 < L)%nat) by lia.
    set (A := fun hi : bool => along 1 (m2 * m3) (band_op L n1 m1 (if hi then fhi else flo) (if hi then ghi else glo))).
    set (B := fun hi : bool => along n1 m3 (band_op L n2 m2 (if hi then fhi else flo) (if hi then ghi else glo))).
    set (C := fun hi : bool => along (n1 * n2) 1 (band_op L n3 m3 (if hi then fhi else flo) (if hi then ghi else glo))).
    assert (WA : forall h, wf (A h)) by (intros h; apply along_wf; cbn [band_op dom ran]; try nia; apply band_wf).
    assert (WB : forall h, wf (B h)) by (intros h; apply along_wf; cbn [band_op dom ran]; try lia; apply band_wf).
    assert (WC : forall h, wf (C h)) by (intros h; apply along_wf; cbn [band_op dom ran]; try lia; apply band_wf).
    assert (WBC : forall hb hc, wf (comp (B hb) (C hc))).
    { intros hb hc. apply comp_wf; [unfold B, C; cbn [along dom ran band_op]; lia|apply WB|apply WC]. }
    assert (HA : forall z i, (i < 1 * (n1 * (m2 * m3)))%nat -> gram (A false) z i + gram (A true) z i = c * z i).
    { intros z i Hi.
      refine (along_gram_pair R 1 (m2 * m3) (band_op L n1 m1 flo glo) (band_op L n1 m1 fhi ghi) c _ _ eq_refl (band_wf R L n1 m1 flo glo) (band_wf R L n1 m1 fhi ghi) _ z i Hi).
      - nia.
      - cbn [band_op dom]. lia.
      - intros y k Hk. cbn [band_op dom] in Hk. apply band_pair_gram; assumption. }
    assert (HB : forall z i, (i < n1 * (n2 * m3))%nat -> gram (B false) z i + gram (B true) z i = c * z i).
    { intros z i Hi.
      refine (along_gram_pair R n1 m3 (band_op L n2 m2 flo glo) (band_op L n2 m2 fhi ghi) c Hm3 _ eq_refl (band_wf R L n2 m2 flo glo) (band_wf R L n2 m2 fhi ghi) _ z i Hi).
      - cbn [band_op dom]. lia.
      - intros y k Hk. cbn [band_op dom] in Hk. apply band_pair_gram; assumption. }
    assert (HC : forall z i, (i < (n1 * n2) * (n3 * 1))%nat -> gram (C false) z i + gram (C true) z i = c * z i).
    { intros z i Hi.
      refine (along_gram_pair R (n1 * n2) 1 (band_op L n3 m3 flo glo) (band_op L n3 m3 fhi ghi) c Nat.lt_0_1 _ eq_refl (band_wf R L n3 m3 flo glo) (band_wf R L n3 m3 fhi ghi) _ z i Hi).
      - cbn [band_op dom]. lia.
      - intros y k Hk. cbn [band_op dom] in Hk. apply band_pair_gram; assumption. }
    (* one band = A a1 after B a2 after C a3 *)
    assert (Eb : forall a1 a2 a3 : bool,
      band3_op L n1 n2 n3 (if a1 then fhi else flo) (if a1 then ghi else glo) (if a2 then fhi else flo) (if a2 then ghi else glo)
               (if a3 then fhi else flo) (if a3 then ghi else glo) = comp (A a1) (comp (B a2) (C a3))) by (intros; reflexivity).
    assert (Wb : forall a1 a2 a3, wf (comp (A a1) (comp (B a2) (C a3)))).
    { intros a1 a2 a3. apply comp_wf; [unfold A, B, C; cbn [along comp dom ran band_op]; lia|apply WA|apply WBC]. }
    (* sum over the first-axis pair behind a fixed (a2, a3) *)
    assert (S1 : forall a2 a3, gram (comp (A false) (comp (B a2) (C a3))) x j + gram (comp (A true) (comp (B a2) (C a3))) x j
                               = c * gram (comp (B a2) (C a3)) x j).
    { intros a2 a3. apply (column_band_sum R (comp (B a2) (C a3)) (A false) (A true) c x j (WBC a2 a3)).
      - unfold A, B, C. cbn [along comp dom ran band_op]. lia.
      - unfold A, B, C. cbn [along comp dom ran band_op]. lia.
      - unfold B, C. cbn [along comp dom ran band_op]. exact Hj.
      - intros z i Hi. apply HA. unfold B, C in Hi. cbn [along comp dom ran band_op] in Hi. lia. }
    assert (S2 : forall a3, gram (comp (B false) (C a3)) x j + gram (comp (B true) (C a3)) x j = c * gram (C a3) x j).
    { intros a3. apply (column_band_sum R (C a3) (B false) (B true) c x j (WC a3)).
      - unfold B, C. cbn [along dom ran band_op]. lia.
      - unfold B, C. cbn [along dom ran band_op]. lia.
      - unfold C. cbn [along dom ran band_op]. exact Hj.
      - intros z i Hi. apply HB. unfold C in Hi. cbn [along dom ran band_op] in Hi. lia. }
    unfold dwt3. cbv zeta. fold m1 m2 m3.
    change (band3_op L n1 n2 n3 flo glo flo glo flo glo) with (comp (A false) (comp (B false) (C false))).
    change (band3_op L n1 n2 n3 flo glo flo glo fhi ghi) with (comp (A false) (comp (B false) (C true))).
    change (band3_op L n1 n2 n3 flo glo fhi ghi flo glo) with (comp (A false) (comp (B true) (C false))).
    change (band3_op L n1 n2 n3 flo glo fhi ghi fhi ghi) with (comp (A false) (comp (B true) (C true))).
    change (band3_op L n1 n2 n3 fhi ghi flo glo flo glo) with (comp (A true) (comp (B false) (C false))).
    change (band3_op L n1 n2 n3 fhi ghi flo glo fhi ghi) with (comp (A true) (comp (B false) (C true))).
    change (band3_op L n1 n2 n3 fhi ghi fhi ghi flo glo) with (comp (A true) (comp (B true) (C false))).
    change (band3_op L n1 n2 n3 fhi ghi fhi ghi fhi ghi) with (comp (A true) (comp (B true) (C true))).
    assert (Hd : forall a1 a2 a3, dom (comp (A a1) (comp (B a2) (C a3))) = ((n1 * n2) * (n3 * 1))%nat) by (intros; reflexivity).
    do 7 (rewrite (vstack_gram R); [|apply Wb|repeat (apply vstack_wf; [reflexivity|apply Wb|]); apply Wb|reflexivity|rewrite Hd; exact Hj]).
    transitivity ((gram (comp (A false) (comp (B false) (C false))) x j + gram (comp (A true) (comp (B false) (C false))) x j)
                + (gram (comp (A false) (comp (B false) (C true))) x j + gram (comp (A true) (comp (B false) (C true))) x j)
                + (gram (comp (A false) (comp (B true) (C false))) x j + gram (comp (A true) (comp (B true) (C false))) x j)
                + (gram (comp (A false) (comp (B true) (C true))) x j + gram (comp (A true) (comp (B true) (C true))) x j)); [ring|].
    rewrite !S1.
    transitivity (c * ((gram (comp (B false) (C false)) x j + gram (comp (B true) (C false)) x j)
                     + (gram (comp (B false) (C true)) x j + gram (comp (B true) (C true)) x j))); [ring|].
    rewrite !S2. rewrite <- (HC x j Hj). ring.
  Qed.

  Theorem wavedec3_isometry level : forall L n1 n2 n3 (flo fhi glo ghi : vec), (2 <= L)%nat -> (1 <= n1)%nat -> (1 <= n2)%nat -> (1 <= n3)%nat ->
    pr_cond L flo fhi glo ghi k1 ->
    forall x j, (j < (n1 * n2) * (n3 * 1))%nat -> gram (wavedec3_op level L n1 n2 n3 flo fhi glo ghi) x j = x j.
  Proof.
    induction level as [|l IH]; intros L n1 n2 n3 flo fhi glo ghi HL H1 H2 H3 HPR x j Hj; cbn [wavedec3_op].
    - reflexivity.
    - cbv zeta. pose proof (wlen_pos L n1 HL H1) as Hm1. pose proof (wlen_pos L n2 HL H2) as Hm2. pose proof (wlen_pos L n3 HL H3) as Hm3.
      set (m1 := wlen L n1) in *. set (m2 := wlen L n2) in *. set (m3 := wlen L n3) in *.
      set (W := wavedec3_op l L m1 m2 m3 flo fhi glo ghi). set (D := dwt3 L n1 n2 n3 flo fhi glo ghi).
      set (e := (1 * (m1 * (m2 * m3)))%nat). set (E := (e + (e + (e + (e + (e + (e + e))))))%nat).
      unfold gram. cbn [comp fwd adj].
      assert (HdW : dom W = ((m1 * m2) * (m3 * 1))%nat) by apply wavedec3_dom'.
      assert (HrD : ran D = (e + E)%nat) by reflexivity.
      assert (HdD : dom D = ((n1 * n2) * (n3 * 1))%nat) by reflexivity.
      destruct (wavedec3_wf R l L m1 m2 m3 flo fhi glo ghi HL ltac:(lia) ltac:(lia) ltac:(lia)) as (_ & _ & _ & EW'). fold W in EW'.
      destruct (dwt3_wf R L n1 n2 n3 flo fhi glo ghi HL H1 H2 H3) as (_ & _ & _ & ED'). fold D in ED'.
      set (y := fwd D x).
      assert (Hb : forall i, (i < e + E)%nat -> adj (bdiag W (idop (R:=R) E)) (fwd (bdiag W (idop (R:=R) E)) y) i = y i).
      { intros i Hi. cbn [bdiag idop dom ran fwd adj]. rewrite HdW.
        destruct (Nat.ltb_spec i ((m1 * m2) * (m3 * 1))) as [Him|Him].
        - rewrite (EW' _ (fwd W y)); [apply (IH L m1 m2 m3 flo fhi glo ghi HL ltac:(lia) ltac:(lia) ltac:(lia) HPR y i Him)| |rewrite HdW; exact Him].
          intros t Ht. destruct (Nat.ltb_spec t (ran W)); [reflexivity|lia].
        - destruct (Nat.ltb_spec (ran W + (i - (m1 * m2) * (m3 * 1))) (ran W)); [lia|].
          replace (ran W + (i - (m1 * m2) * (m3 * 1)) - ran W)%nat with (i - (m1 * m2) * (m3 * 1))%nat by lia. f_equal. lia. }
      rewrite (ED' _ y); [| |rewrite HdD; exact Hj].
      + change (gram (dwt3 L n1 n2 n3 flo fhi glo ghi) x j = x j). rewrite (dwt3_gram L n1 n2 n3 flo fhi glo ghi k1 HL H1 H2 H3 HPR x j Hj). ring.
      + intros i Hi. rewrite HrD in Hi. apply Hb. exact Hi.
  Qed.
End Gram3.
