(* Proofs for C12, as_euler (Bernardes-Viollet), regular case: from_euler of the extracted angles is the same rotation. *)
From MrVerif Require Import Base.Prelude Base.StarRing Model.Rotation Model.Euler Proofs.RotationProofs Proofs.RotationRealProofs
  Proofs.RotationPowProofs Proofs.EulerProofs.
From Coq Require Import Reals Lra Psatz.
Local Open Scope R_scope.

(* ---- atan2 is the polar angle ---- *)
Lemma atan2_spec (y x : R) : 0 < x * x + y * y ->
  let r := sqrt (x * x + y * y) in cos (atan2 y x) = x / r /\ sin (atan2 y x) = y / r.
Proof.
  intros Hpos r.
  assert (Hr : 0 < r) by (apply sqrt_lt_R0; assumption).
  assert (Hrr : r * r = x * x + y * y) by (apply sqrt_sqrt; lra).
  assert (Hz : x / r * r = x) by (field; lra).
  assert (Hb : -1 <= x / r <= 1).
  { assert (- r <= x <= r) by nra. split.
    - apply Rmult_le_reg_r with r; [assumption|]. rewrite Hz. lra.
    - apply Rmult_le_reg_r with r; [assumption|]. rewrite Hz. lra. }
  assert (Hs : sqrt (1 - (x / r)²) = Rabs y / r).
  { apply sqrt_lem_1.
    - unfold Rsqr. assert (x / r * (x / r) <= 1) by nra. lra.
    - apply Rmult_le_pos; [apply Rabs_pos | left; now apply Rinv_0_lt_compat].
    - unfold Rsqr. assert (E : Rabs y * Rabs y = r * r - x * x).
      { unfold Rabs. destruct (Rcase_abs y); nra. }
      transitivity (Rabs y * Rabs y / (r * r)); [field; lra|]. rewrite E. field. lra. }
  unfold atan2. fold r. destruct (Rlt_dec y 0) as [Hy|Hy].
  - rewrite cos_neg, sin_neg, cos_acos, sin_acos, Hs by assumption. split; [reflexivity|].
    rewrite Rabs_left by assumption. field. lra.
  - rewrite cos_acos, sin_acos, Hs by assumption. split; [reflexivity|].
    rewrite Rabs_right by lra. reflexivity.
Qed.

(* polar decomposition used by the algorithm: a^2+b^2+c^2+d^2 = n^2, (a,b) <> 0, (c,d) <> 0 *)
Lemma bv_polar (a b c d n : R) : 0 < n -> a * a + b * b + c * c + d * d = n * n -> 0 < a * a + b * b -> 0 < c * c + d * d ->
  let A := atan2 (hypot c d) (hypot a b) in let hs := atan2 b a in let hd := atan2 d c in
  a = n * (cos A * cos hs) /\ b = n * (cos A * sin hs) /\ c = n * (sin A * cos hd) /\ d = n * (sin A * sin hd).
Proof.
  intros Hn Hsum Hab Hcd A hs hd.
  destruct (atan2_spec b a Hab) as [Chs Shs]. destruct (atan2_spec d c Hcd) as [Chd Shd]. cbv zeta in *.
  fold hs in Chs, Shs. fold hd in Chd, Shd. fold (hypot a b) in Chs, Shs. fold (hypot c d) in Chd, Shd.
  assert (Hp : 0 < hypot a b) by (apply sqrt_lt_R0; assumption).
  assert (Hq : 0 < hypot c d) by (apply sqrt_lt_R0; assumption).
  assert (Hpp : hypot a b * hypot a b = a * a + b * b) by (apply sqrt_sqrt; lra).
  assert (Hqq : hypot c d * hypot c d = c * c + d * d) by (apply sqrt_sqrt; lra).
  assert (Hpos : 0 < hypot a b * hypot a b + hypot c d * hypot c d) by nra.
  destruct (atan2_spec (hypot c d) (hypot a b) Hpos) as [CA SA]. cbv zeta in *. fold A in CA, SA.
  assert (Hn2 : sqrt (hypot a b * hypot a b + hypot c d * hypot c d) = n).
  { rewrite Hpp, Hqq. replace (a * a + b * b + (c * c + d * d)) with (n * n) by lra. apply sqrt_square. lra. }
  rewrite Hn2 in CA, SA. rewrite CA, SA, Chs, Shs, Chd, Shd. repeat split; field; lra.
Qed.

Ltac toRR := cbn [StarRing.K StarRing.k0 StarRing.k1 StarRing.kadd StarRing.kmul StarRing.ksub StarRing.kopp RRing] in *.
Ltac zsign := repeat match goal with |- context [IZR ?z] => lazymatch z with Z0 => fail | Zpos _ => fail | Zneg _ => fail
                                     | _ => let z' := eval vm_compute in z in change z with z' end end.
Ltac halves := repeat match goal with |- context [2 * ?x / 2] => replace (2 * x / 2) with x by field end.

(* extrinsic proper Euler sequence (q, r, q): E_q(2y) E_r(2A) E_q(2x), with s the third axis and sign the parity of (q,r,s) *)
Lemma sym_product (q r : nat) (x A y : R) : (q < 3)%nat -> (r < 3)%nat -> q <> r ->
  from_euler false [q; r; q] [2 * x; 2 * A; 2 * y]
  = of_comps q r (3 - q - r) (cos A * cos (x + y)) (cos A * sin (x + y)) (sin A * cos (y - x))
             (perm_sign q r (3 - q - r) * (sin A * sin (y - x))).
Proof.
  intros Hq Hr Hqr.
  destruct q as [|[|[|q]]], r as [|[|[|r]]]; try lia; clear Hq Hr Hqr;
    unfold from_euler, from_euler_sc, half_sc, of_comps, perm_sign; cbn [map from_euler_acc Nat.sub set_comp elementary_sc];
    halves; rewrite cos_plus, sin_plus, cos_minus, sin_minus; zsign; unf; toRR; pair_split; ring.
Qed.

(* extrinsic Tait-Bryan sequence (q, r, s): E_s(sign 2y) E_r(2A - pi/2) E_q(2x) *)
Lemma asym_product (q r s : nat) (x A y : R) : (q < 3)%nat -> (r < 3)%nat -> (s < 3)%nat -> q <> r -> r <> s -> q <> s ->
  let sg := perm_sign q r s in
  let a := sqrt 2 * (cos A * cos (x + y)) in let b := sqrt 2 * (cos A * sin (x + y)) in
  let c := sqrt 2 * (sin A * cos (y - x)) in let d := sqrt 2 * (sin A * sin (y - x)) in
  from_euler false [q; r; s] [2 * x; 2 * A - PI / 2; 2 * y * sg]
  = of_comps q r s ((a + c) / 2) ((b - d) / 2) ((c - a) / 2) (sg * ((b + d) / 2)).
Proof.
  intros Hq Hr Hs Hqr Hrs Hqs. cbv zeta.
  assert (H2 : sqrt 2 * sqrt 2 = 2) by (apply sqrt_sqrt; lra).
  assert (H20 : sqrt 2 <> 0) by (intros E; rewrite E in H2; lra).
  assert (HA : (2 * A - PI / 2) / 2 = A - PI / 4) by field.
  assert (Hc : cos (A - PI / 4) = (cos A + sin A) / sqrt 2) by (rewrite cos_minus, cos_PI4, sin_PI4; field; assumption).
  assert (Hs' : sin (A - PI / 4) = (sin A - cos A) / sqrt 2) by (rewrite sin_minus, cos_PI4, sin_PI4; field; assumption).
  destruct q as [|[|[|q]]], r as [|[|[|r]]], s as [|[|[|s]]]; try lia; clear Hq Hr Hs Hqr Hrs Hqs;
    unfold from_euler, from_euler_sc, half_sc, of_comps, perm_sign; cbn [map from_euler_acc set_comp elementary_sc];
    rewrite HA, Hc, Hs'; zsign;
    try replace (2 * y * 1 / 2) with y by field; try (replace (2 * y * -1 / 2) with (- y) by field; rewrite sin_neg, cos_neg);
    replace (2 * x / 2) with x by field;
    rewrite cos_plus, sin_plus, cos_minus, sin_minus; unf; toRR; pair_split; field_simplify_eq; try assumption;
    try (rewrite <- ?H2; ring).
Qed.
