(* Proofs for C12, as_euler (Bernardes-Viollet), regular case: from_euler of the extracted angles is the same rotation. *)
From MrVerif Require Import Base.Prelude Base.StarRing Model.Rotation Model.Euler Proofs.RotationProofs Proofs.RotationRealProofs
  Proofs.RotationPowProofs Proofs.EulerProofs.
From Coq Require Import Reals Lra Psatz.
Local Open Scope R_scope.

(* ---- atan2 is the polar angle ---- *)
Lemma atan2_spec (y x : R) : 0 < x * x + y * y ->
  let r := sqrt (x * x + y * y) in cos (atan2 y x) = x / r /\ sin (atan2 y x) = y / r.
Proof.
  intros Hpos r.
  assert (Hr : 0 < r) by (apply sqrt_lt_R0; assumption).
  assert (Hrr : r * r = x * x + y * y) by (apply sqrt_sqrt; lra).
  assert (Hz : x / r * r = x) by (field; lra).
  assert (Hb : -1 <= x / r <= 1).
  { assert (- r <= x <= r) by nra. split.
    - apply Rmult_le_reg_r with r; [assumption|]. rewrite Hz. lra.
    - apply Rmult_le_reg_r with r; [assumption|]. rewrite Hz. lra. }
  assert (Hs : sqrt (1 - (x / r)²) = Rabs y / r).
  { apply sqrt_lem_1.
    - unfold Rsqr. assert (x / r * (x / r) <= 1) by nra. lra.
    - apply Rmult_le_pos; [apply Rabs_pos | left; now apply Rinv_0_lt_compat].
    - unfold Rsqr. assert (E : Rabs y * Rabs y = r * r - x * x).
      { unfold Rabs. destruct (Rcase_abs y); nra. }
      transitivity (Rabs y * Rabs y / (r * r)); [field; lra|]. rewrite E. field. lra. }
  unfold atan2. fold r. destruct (Rlt_dec y 0) as [Hy|Hy].
  - rewrite cos_neg, sin_neg, cos_acos, sin_acos, Hs by assumption. split; [reflexivity|].
    rewrite Rabs_left by assumption. field. lra.
  - rewrite cos_acos, sin_acos, Hs by assumption. split; [reflexivity|].
    rewrite Rabs_right by lra. reflexivity.
Qed.

(* polar decomposition used by the algorithm: a^2+b^2+c^2+d^2 = n^2, (a,b) <> 0, (c,d) <> 0 *)
Lemma bv_polar (a b c d n : R) : 0 < n -> a * a + b * b + c * c + d * d = n * n -> 0 < a * a + b * b -> 0 < c * c + d * d ->
  let A := atan2 (hypot c d) (hypot a b) in let hs := atan2 b a in let hd := atan2 d c in
  a = n * (cos A * cos hs) /\ b = n * (cos A * sin hs) /\ c = n * (sin A * cos hd) /\ d = n * (sin A * sin hd).
Proof.
  intros Hn Hsum Hab Hcd A hs hd.
  destruct (atan2_spec b a Hab) as [Chs Shs]. destruct (atan2_spec d c Hcd) as [Chd Shd]. cbv zeta in *.
  fold hs in Chs, Shs. fold hd in Chd, Shd. fold (hypot a b) in Chs, Shs. fold (hypot c d) in Chd, Shd.
  assert (Hp : 0 < hypot a b) by (apply sqrt_lt_R0; assumption).
  assert (Hq : 0 < hypot c d) by (apply sqrt_lt_R0; assumption).
  assert (Hpp : hypot a b * hypot a b = a * a + b * b) by (apply sqrt_sqrt; lra).
  assert (Hqq : hypot c d * hypot c d = c * c + d * d) by (apply sqrt_sqrt; lra).
  assert (Hpos : 0 < hypot a b * hypot a b + hypot c d * hypot c d) by nra.
  destruct (atan2_spec (hypot c d) (hypot a b) Hpos) as [CA SA]. cbv zeta in *. fold A in CA, SA.
  assert (Hn2 : sqrt (hypot a b * hypot a b + hypot c d * hypot c d) = n).
  { rewrite Hpp, Hqq. replace (a * a + b * b + (c * c + d * d)) with (n * n) by lra. apply sqrt_square. lra. }
  rewrite Hn2 in CA, SA. rewrite CA, SA, Chs, Shs, Chd, Shd. repeat split; field; lra.
Qed.


Ltac toRR := cbn [StarRing.K StarRing.k0 StarRing.k1 StarRing.kadd StarRing.kmul StarRing.ksub StarRing.kopp RRing] in *.
Ltac psign := repeat match goal with |- context [perm_sign ?a ?b ?c] =>
  let v := eval vm_compute in ((Z.of_nat a - Z.of_nat b) * (Z.of_nat b - Z.of_nat c) * (Z.of_nat c - Z.of_nat a) / 2)%Z in
  replace (perm_sign a b c) with (IZR v) by reflexivity end.
Ltac halves := repeat match goal with |- context [2 * ?x / 2] => replace (2 * x / 2) with x by field end.

(* extrinsic proper Euler sequence (q, r, q): E_q(2y) E_r(2A) E_q(2x), with s the third axis and sign the parity of (q,r,s) *)
Lemma sym_product (q r : nat) (x A y : R) : (q < 3)%nat -> (r < 3)%nat -> q <> r ->
  from_euler false [q; r; q] [2 * x; 2 * A; 2 * y]
  = of_comps q r (3 - q - r) (cos A * cos (x + y)) (cos A * sin (x + y)) (sin A * cos (y - x))
             (perm_sign q r (3 - q - r) * (sin A * sin (y - x))).
Proof.
  intros Hq Hr Hqr.
  destruct q as [|[|[|q]]], r as [|[|[|r]]]; try lia; clear Hq Hr Hqr; cbn [Nat.sub]; psign;
    unfold from_euler, from_euler_sc, half_sc, of_comps; cbn [map from_euler_acc set_comp elementary_sc];
    halves; rewrite cos_plus, sin_plus, cos_minus, sin_minus; unf; toRR; pair_split; ring.
Qed.

(* extrinsic Tait-Bryan sequence (q, r, s): E_s(sign 2y) E_r(2A - pi/2) E_q(2x) *)
Lemma asym_product (q r s : nat) (x A y : R) : (q < 3)%nat -> (r < 3)%nat -> (s < 3)%nat -> q <> r -> r <> s -> q <> s ->
  let sg := perm_sign q r s in
  let a := sqrt 2 * (cos A * cos (x + y)) in let b := sqrt 2 * (cos A * sin (x + y)) in
  let c := sqrt 2 * (sin A * cos (y - x)) in let d := sqrt 2 * (sin A * sin (y - x)) in
  from_euler false [q; r; s] [2 * x; 2 * A - PI / 2; 2 * y * sg]
  = of_comps q r s ((a + c) / 2) ((b - d) / 2) ((c - a) / 2) (sg * ((b + d) / 2)).
Proof.
  intros Hq Hr Hs Hqr Hrs Hqs. cbv zeta.
  assert (H2 : sqrt 2 * sqrt 2 = 2) by (apply sqrt_sqrt; lra).
  assert (H20 : sqrt 2 <> 0) by (intros E; rewrite E in H2; lra).
  assert (HA : (2 * A - PI / 2) / 2 = A - PI / 4) by field.
  assert (Hc : cos (A - PI / 4) = (cos A + sin A) / sqrt 2) by (rewrite cos_minus, cos_PI4, sin_PI4; field; assumption).
  assert (Hs' : sin (A - PI / 4) = (sin A - cos A) / sqrt 2) by (rewrite sin_minus, cos_PI4, sin_PI4; field; assumption).
  destruct q as [|[|[|q]]], r as [|[|[|r]]], s as [|[|[|s]]]; try lia; clear Hq Hr Hs Hqr Hrs Hqs; psign;
    unfold from_euler, from_euler_sc, half_sc, of_comps; cbn [map from_euler_acc set_comp elementary_sc];
    rewrite HA, Hc, Hs';
    try replace (2 * y * 1 / 2) with y by field; try (replace (2 * y * -1 / 2) with (- y) by field; rewrite sin_neg, cos_neg);
    replace (2 * x / 2) with x by field;
    rewrite cos_plus, sin_plus, cos_minus, sin_minus; unf; toRR;
    generalize (sqrt 2) H2 H20; intros t Ht Ht0; assert (Ht2 : t ^ 2 = 2) by (simpl; lra);
    generalize (cos A) (sin A) (cos x) (sin x) (cos y) (sin y); intros cA sA cx sx cy sy;
    pair_split; (field_simplify_eq; [|assumption]); rewrite ?Ht2; ring.
Qed.

(* ---- the regular case of _quaternion_to_euler ---- *)
Lemma ext_core (quat : quatR) (q r s0 : nat) : (q < 3)%nat -> (r < 3)%nat -> (s0 < 3)%nat -> q <> r -> r <> s0 ->
  qnorm2 RRing quat = 1 -> abcd_regular quat q r s0 ->
  let '(e0, e1, e2) := euler_core quat q r s0 in from_euler false [q; r; s0] [e0; e1; e2] = quat.
Proof.
  intros Hq Hr Hs Hqr Hrs Hn. dquat quat.
  assert (Hn' : k * k + k0 * k0 + k1 * k1 + k2 * k2 = 1) by (unf; toRR; lra). clear Hn.
  destruct q as [|[|[|q]]], r as [|[|[|r]]], s0 as [|[|[|s0]]]; try lia; clear Hq Hr Hs Hqr Hrs;
    unfold abcd_regular, euler_core, euler_abcd, abcd_sym, abcd_asym; cbn [Nat.eqb Nat.sub nth_comp q0 q1 q2 q3 fst snd]; toRR; psign; cbv beta iota zeta.
  all: intros [Hab Hcd].
  all: assert (H2 : sqrt 2 * sqrt 2 = 2) by (apply sqrt_sqrt; lra).
  all: assert (H2p : 0 < sqrt 2) by (apply sqrt_lt_R0; lra).
  all: match goal with |- context [atan2 (hypot ?c ?d) (hypot ?a ?b)] =>
      first [ assert (Hsum : a * a + b * b + c * c + d * d = 1 * 1) by nra;
              pose proof (bv_polar a b c d 1 ltac:(lra) Hsum Hab Hcd) as P
            | assert (Hsum : a * a + b * b + c * c + d * d = sqrt 2 * sqrt 2) by nra;
              pose proof (bv_polar a b c d (sqrt 2) H2p Hsum Hab Hcd) as P ];
      cbv zeta in P;
      set (A := atan2 (hypot c d) (hypot a b)) in *; set (hs := atan2 b a) in *; set (hd := atan2 d c) in * end.
  all: destruct P as (Ea & Eb & Ec & Ed).
  all: replace (hs - hd) with (2 * ((hs - hd) / 2)) by field.
  all: first [ replace (hs + hd) with (2 * ((hs + hd) / 2)) by field; rewrite sym_product by lia
             | match goal with |- from_euler false [?q; ?r; ?s] [_; _; ?e2] = _ =>
                 replace e2 with (2 * ((hs + hd) / 2) * perm_sign q r s) by (psign; field) end;
               rewrite asym_product by lia; cbv zeta ].
  all: replace ((hs - hd) / 2 + (hs + hd) / 2) with hs by field; replace ((hs + hd) / 2 - (hs - hd) / 2) with hd by field.
  all: cbn [Nat.sub]; psign; unfold of_comps; cbn [set_comp]; unf; toRR; pair_split; lra.
Qed.

Lemma elem_matrix_wrap (a : nat) (t : R) : elem_matrix a (wrap_angle t) = elem_matrix a t.
Proof.
  assert (P : forall x, cos (x + 2 * PI) = cos x /\ sin (x + 2 * PI) = sin x)
    by (intros x; rewrite cos_plus, sin_plus, cos_2PI, sin_2PI; split; ring).
  assert (M : forall x, cos (x - 2 * PI) = cos x /\ sin (x - 2 * PI) = sin x)
    by (intros x; rewrite cos_minus, sin_minus, cos_2PI, sin_2PI; split; ring).
  unfold wrap_angle. destruct (Rlt_dec t (- PI)); [destruct (Rlt_dec PI (t + 2 * PI)) | destruct (Rlt_dec PI t)];
    unfold elem_matrix; destruct a as [|[|a]];
    rewrite ?(proj1 (M (t + 2 * PI))), ?(proj2 (M (t + 2 * PI))), ?(proj1 (P t)), ?(proj2 (P t)), ?(proj1 (M t)), ?(proj2 (M t)); reflexivity.
Qed.
Lemma from_euler_wrap (i : bool) (a b c : nat) (t0 t1 t2 : R) :
  qmat RRing (from_euler i [a; b; c] [wrap_angle t0; wrap_angle t1; wrap_angle t2]) = qmat RRing (from_euler i [a; b; c] [t0; t1; t2]).
Proof.
  destruct (from_euler_product a b c t0 t1 t2) as [H1 H2].
  destruct (from_euler_product a b c (wrap_angle t0) (wrap_angle t1) (wrap_angle t2)) as [W1 W2].
  destruct i; [rewrite W1, H1 | rewrite W2, H2]; now rewrite !elem_matrix_wrap.
Qed.
(* intrinsic (a,b,c) with angles (t0,t1,t2) = extrinsic (c,b,a) with angles (t2,t1,t0) *)
Lemma from_euler_intrinsic_reverse (a b c : nat) (t0 t1 t2 : R) :
  from_euler true [a; b; c] [t0; t1; t2] = from_euler false [c; b; a] [t2; t1; t0].
Proof. unfold from_euler, from_euler_sc, half_sc. cbn [map from_euler_acc]. apply qmul_assoc. Qed.

Lemma gimbal_eps_pos : 0 < gimbal_eps.
Proof. unfold gimbal_eps. apply Rinv_0_lt_compat. lra. Qed.
Lemma regular_nonzero (a b c d : R) :
  gimbal_eps < Rabs (2 * atan2 (hypot c d) (hypot a b)) -> gimbal_eps < Rabs (2 * atan2 (hypot c d) (hypot a b) - PI) ->
  0 < a * a + b * b /\ 0 < c * c + d * d.
Proof.
  intros H1 H2. pose proof gimbal_eps_pos as He.
  assert (Z : forall u v, ~ 0 < u * u + v * v -> hypot u v = 0).
  { intros u v Hn. assert (u * u + v * v = 0) by nra. unfold hypot. rewrite H. apply sqrt_0. }
  assert (Hx : 0 <= hypot a b) by apply sqrt_pos.
  assert (Hy : 0 <= hypot c d) by apply sqrt_pos.
  assert (Hhalf : hypot a b = 0 -> 2 * atan2 (hypot c d) (hypot a b) = PI).
  { intros E. rewrite E. unfold atan2. destruct (Rlt_dec (hypot c d) 0); [lra|]. unfold Rdiv. rewrite Rmult_0_l, acos_0. field. }
  split.
  - destruct (Rlt_dec 0 (a * a + b * b)) as [|Hn]; [assumption|exfalso].
    rewrite (Hhalf (Z a b Hn)) in H2. replace (PI - PI) with 0 in H2 by ring. rewrite Rabs_R0 in H2. lra.
  - destruct (Rlt_dec 0 (c * c + d * d)) as [|Hn]; [assumption|exfalso].
    destruct (Req_dec (hypot a b) 0) as [E|E].
    + rewrite (Hhalf E) in H2. replace (PI - PI) with 0 in H2 by ring. rewrite Rabs_R0 in H2. lra.
    + rewrite (Z c d Hn) in H1. unfold atan2 in H1. destruct (Rlt_dec 0 0); [lra|].
      replace (hypot a b * hypot a b + 0 * 0) with (Rsqr (hypot a b)) in H1 by (unfold Rsqr; ring).
      rewrite sqrt_Rsqr in H1 by assumption. replace (hypot a b / hypot a b) with 1 in H1 by (field; assumption).
      rewrite acos_1, Rmult_0_r, Rabs_R0 in H1. lra.
Qed.

Theorem as_euler_regular (quat : quatR) (seq : nat * nat * nat) (extrinsic : bool) :
  valid_seq seq -> qnorm2 RRing quat = 1 -> euler_regular quat seq extrinsic ->
  let '(e0, e1, e2) := quaternion_to_euler quat seq extrinsic in let '(s0, s1, s2) := seq in
  qmat RRing (from_euler (negb extrinsic) [s0; s1; s2] [e0; e1; e2]) = qmat RRing quat.
Proof.
  destruct seq as [[s0 s1] s2]. intros (H0 & H1 & H2 & H01 & H12) Hn. unfold euler_regular, quaternion_to_euler.
  destruct extrinsic; cbv iota.
  - pose proof (ext_core quat s0 s1 s2 H0 H1 H2 H01 H12 Hn) as C. unfold abcd_regular, euler_core in C.
    destruct (euler_abcd quat s0 s1 s2) as [[sym sign] [[[a b] c] d]]. intros [R1 R2].
    specialize (C (regular_nonzero a b c d R1 R2)). cbv zeta.
    destruct (Rle_dec (Rabs (2 * atan2 (hypot c d) (hypot a b))) gimbal_eps); [lra|].
    destruct (Rle_dec (Rabs (2 * atan2 (hypot c d) (hypot a b) - PI)) gimbal_eps); [lra|].
    cbn [negb andb]. rewrite from_euler_wrap. now rewrite C.
  - pose proof (ext_core quat s2 s1 s0 H2 H1 H0 (not_eq_sym H12) (not_eq_sym H01) Hn) as C. unfold abcd_regular, euler_core in C.
    destruct (euler_abcd quat s2 s1 s0) as [[sym sign] [[[a b] c] d]]. intros [R1 R2].
    specialize (C (regular_nonzero a b c d R1 R2)). cbv zeta.
    destruct (Rle_dec (Rabs (2 * atan2 (hypot c d) (hypot a b))) gimbal_eps); [lra|].
    destruct (Rle_dec (Rabs (2 * atan2 (hypot c d) (hypot a b) - PI)) gimbal_eps); [lra|].
    cbn [negb andb]. rewrite from_euler_wrap, from_euler_intrinsic_reverse. now rewrite C.
Qed.

(* ---- Rodrigues formula (_axisangle_to_matrix) = matrix of the half-angle quaternion ---- *)
Lemma rodrigues_half_angle (u : vecR) (t : R) : dot3 RRing u u = 1 ->
  rodrigues RRing u (cos t) (sin t) = qmat RRing (polar u (t / 2)).
Proof.
  intros Hu.
  assert (Hc : cos t = cos (t / 2) * cos (t / 2) - sin (t / 2) * sin (t / 2)) by (replace t with (2 * (t / 2)) at 1 by field; apply cos_2a).
  assert (Hs : sin t = 2 * sin (t / 2) * cos (t / 2)) by (replace t with (2 * (t / 2)) at 1 by field; apply sin_2a).
  pose proof (sin2_cos2 (t / 2)) as H1. unfold Rsqr in H1. rewrite Hc, Hs. unfold polar.
  generalize (cos (t / 2)) (sin (t / 2)) H1. clear Hc Hs H1. intros c s H1. dvec u. unfold rodrigues, polar. unf. toRR.
  assert (E1 : 1 - (c * c - s * s) = 2 * (s * s)) by nra.
  rewrite E1.
  assert (Es : s * s * (k * k + k0 * k0 + k1 * k1) = s * s) by (rewrite Hu; ring).
  pair_split; nra.
Qed.
