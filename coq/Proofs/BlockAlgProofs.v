(* C04 - block (operator-matrix) algebra: the identities LinearOperatorMatrix.__matmul__, .H and the stacking operators & and | rest on. *)
From MrVerif Require Import Base.Prelude Base.StarRing Base.Sums Model.OpAlg Model.ElemOps Model.Algebra Model.Wavelet Proofs.OpAlgProofs.
Local Open Scope nat_scope.

Section BlockAlg.
  Variable R : StarRing.
  Add Ring RrBM : (k_ring R).
  Local Open Scope K_scope.
  Notation vec := (nat -> R).
  Notation linop := (linop R).

  (* (A over B) C = (A C over B C) *)
  Lemma comp_vstack_left (A B C : linop) : wf C -> opeq (comp (vstack A B) C) (vstack (comp A C) (comp B C)).
  Proof.
    intros (_ & _ & LC' & EC'). unfold opeq. cbn [comp vstack dom ran fwd adj]. repeat split.
    intros y j Hj.
    rewrite (EC' _ (fun t => k1 * adj A y t + k1 * adj B (fun i => y (ran A + i)%nat) t)); [|intros t Ht; ring|exact Hj].
    rewrite (LC' k1 k1 _ _ j Hj). ring.
  Qed.

  (* A (B beside C) = (A B beside A C) *)
  Lemma comp_hstack_right (A B C : linop) : wf A ->
    opeq (comp A (hstack B C)) (hstack (comp A B) (comp A C)).
  Proof.
    intros (LA & EA & _ & _). unfold opeq. cbn [comp hstack dom ran fwd adj]. repeat split.
    intros x i Hi.
    rewrite (EA _ (fun t => k1 * fwd B x t + k1 * fwd C (fun j => x (dom B + j)%nat) t)); [|intros j Hj; ring|exact Hi].
    rewrite (LA k1 k1 _ _ i Hi). ring.
  Qed.

  (* (A beside B) (C over D) = A C + B D: a row times a column *)
  Lemma comp_row_column (A B C D : linop) : wf A -> wf B -> wf C -> wf D -> dom A = ran C -> dom B = ran D -> ran A = ran B -> dom C = dom D ->
    opeq (comp (hstack A B) (vstack C D)) (lsum (comp A C) (comp B D)).
  Proof.
    intros (_ & EA & _ & _) (_ & EB & _ & _) (_ & _ & _ & EC') (_ & _ & _ & ED') HAC HBD HAB HCD.
    unfold opeq. cbn [comp hstack vstack lsum dom ran fwd adj]. repeat split.
    - intros x i Hi. f_equal.
      + apply EA; [|exact Hi]. intros t Ht. rewrite HAC in Ht. destruct (Nat.ltb_spec t (ran C)); [reflexivity|lia].
      + apply EB; [|rewrite <- HAB; exact Hi]. intros t Ht. rewrite HAC. destruct (Nat.ltb_spec (ran C + t) (ran C)); [lia|]. f_equal. lia.
    - intros y j Hj. f_equal.
      + apply EC'; [|exact Hj]. intros t Ht. rewrite <- HAC in Ht. destruct (Nat.ltb_spec t (dom A)); [reflexivity|lia].
      + apply ED'; [|rewrite <- HCD; exact Hj]. intros t Ht. rewrite <- HAC. destruct (Nat.ltb_spec (dom A + t) (dom A)); [lia|]. f_equal. lia.
  Qed.

  (* transposition of the adjoints: (A over B)^H = (A^H beside B^H), (A beside B)^H = (A^H over B^H) *)
  Lemma adjop_vstack (A B : linop) : opeq (adjop (vstack A B)) (hstack (adjop A) (adjop B)).
  Proof. unfold opeq. cbn [adjop vstack hstack dom ran fwd adj]. repeat split; reflexivity. Qed.
  Lemma adjop_hstack (A B : linop) : opeq (adjop (hstack A B)) (vstack (adjop A) (adjop B)).
  Proof. unfold opeq. cbn [adjop vstack hstack dom ran fwd adj]. repeat split; reflexivity. Qed.

  (* the 2 x 2 product: [[A, B], [C, D]] [[E, F], [G, H]] = [[AE + BG, AF + BH], [CE + DG, CF + DH]] - first block column *)
  Lemma block_column_product (A B C D E G : linop) : wf A -> wf B -> wf C -> wf D -> wf E -> wf G ->
    dom A = ran E -> dom B = ran G -> dom C = ran E -> dom D = ran G -> dom E = dom G -> ran A = ran B -> ran C = ran D ->
    forall x i, (i < ran A + ran C)%nat ->
      fwd (comp (vstack (hstack A B) (hstack C D)) (vstack E G)) x i
      = fwd (vstack (lsum (comp A E) (comp B G)) (lsum (comp C E) (comp D G))) x i.
  Proof.
    intros WA WB WC WD WE WG HAE HBG HCE HDG HEG HAB HCDr x i Hi.
    destruct (comp_row_column A B E G WA WB WE WG HAE HBG HAB HEG) as (_ & _ & F1 & _).
    destruct (comp_row_column C D E G WC WD WE WG HCE HDG HCDr HEG) as (_ & _ & F2 & _).
    cbn [comp vstack hstack lsum dom ran fwd adj] in *.
    destruct (Nat.ltb_spec i (ran A)) as [Hlt|Hge].
    - apply F1. exact Hlt.
    - apply F2. lia.
  Qed.

  (* LinearOperatorMatrix.from_diagonal: the block-diagonal operator is the matrix with zero operators off the diagonal *)
  Lemma bdiag_as_blocks (A B : linop) :
    opeq (bdiag A B) (vstack (hstack A (zeroop (R:=R) (dom B) (ran A))) (hstack (zeroop (R:=R) (dom A) (ran B)) B)).
  Proof.
    unfold opeq. cbn [bdiag vstack hstack zeroop dom ran fwd adj]. repeat split.
    - intros x i Hi. destruct (Nat.ltb i (ran A)); ring.
    - intros y j Hj. destruct (Nat.ltb j (dom A)); ring.
  Qed.
  Lemma fwd_add2 (A : linop) (v p q : vec) i : wf A -> (forall t, (t < dom A)%nat -> v t = p t + q t) -> (i < ran A)%nat ->
    fwd A v i = fwd A p i + fwd A q i.
  Proof.
    intros (LA & EA & _ & _) Hv Hi.
    rewrite (EA v (fun t => k1 * p t + k1 * q t)); [|intros t Ht; rewrite (Hv t Ht); ring|exact Hi].
    rewrite (LA k1 k1 p q i Hi). ring.
  Qed.

  (* the full 2 x 2 product, forward action:
     [[A, B], [C, D]] [[E, F], [G, H]] = [[A E + B G, A F + B H], [C E + D G, C F + D H]] *)
  Lemma block_product_2x2 (A B C D E F G H : linop) : wf A -> wf B -> wf C -> wf D ->
    dom A = ran E -> dom C = ran E -> dom B = ran G -> dom D = ran G -> dom E = dom G -> ran A = ran B -> ran C = ran D ->
    forall x i, (i < ran A + ran C)%nat ->
      fwd (comp (vstack (hstack A B) (hstack C D)) (vstack (hstack E F) (hstack G H))) x i
      = fwd (vstack (hstack (lsum (comp A E) (comp B G)) (lsum (comp A F) (comp B H)))
                    (hstack (lsum (comp C E) (comp D G)) (lsum (comp C F) (comp D H)))) x i.
  Proof.
    intros WA WB WC WD HAE HCE HBG HDG HEG HAB HCD x i Hi.
    cbn [comp vstack hstack lsum dom ran fwd adj].
    set (x2 := fun j => x (dom E + j)%nat).
    assert (Hx2 : (fun j => x (dom G + j)%nat) = x2) by (unfold x2; rewrite HEG; reflexivity). rewrite Hx2.
    assert (S1 : forall X : linop, dom X = ran E -> forall t, (t < dom X)%nat ->
                 (if Nat.ltb t (ran E) then fwd E x t + fwd F x2 t else fwd G x (t - ran E)%nat + fwd H x2 (t - ran E)%nat) = fwd E x t + fwd F x2 t).
    { intros X HX t Ht. destruct (Nat.ltb_spec t (ran E)); [reflexivity|lia]. }
    assert (S2 : forall (X Y : linop), dom X = ran E -> dom Y = ran G -> forall t, (t < dom Y)%nat ->
                 (if Nat.ltb (dom X + t) (ran E) then fwd E x (dom X + t)%nat + fwd F x2 (dom X + t)%nat
                  else fwd G x (dom X + t - ran E)%nat + fwd H x2 (dom X + t - ran E)%nat) = fwd G x t + fwd H x2 t).
    { intros X Y HX HY t Ht. rewrite HX. destruct (Nat.ltb_spec (ran E + t) (ran E)); [lia|].
      replace (ran E + t - ran E)%nat with t by lia. reflexivity. }
    destruct (Nat.ltb_spec i (ran A)) as [Hlt|Hge].
    - rewrite (fwd_add2 A _ (fwd E x) (fwd F x2) i WA (S1 A HAE) Hlt).
      rewrite (fwd_add2 B _ (fwd G x) (fwd H x2) i WB (S2 A B HAE HBG) ltac:(lia)). ring.
    - rewrite (fwd_add2 C _ (fwd E x) (fwd F x2) (i - ran A) WC (S1 C HCE) ltac:(lia)).
      rewrite (fwd_add2 D _ (fwd G x) (fwd H x2) (i - ran A) WD (S2 C D HCE HDG) ltac:(lia)). ring.
  Qed.
  (* ---- columns of any height: [A1; A2; ...; Z] C = [A1 C; A2 C; ...; Z C] ---- *)
  Fixpoint vstack_list (l : list linop) (z : linop) : linop :=
    match l with nil => z | cons A r => vstack A (vstack_list r z) end.

  Lemma opeq_refl (A : linop) : opeq A A.
  Proof. unfold opeq. repeat split; reflexivity. Qed.
  Lemma opeq_trans (A B C : linop) : opeq A B -> opeq B C -> opeq A C.
  Proof.
    intros (d1 & r1 & f1 & a1) (d2 & r2 & f2 & a2). unfold opeq. repeat split; try congruence.
    - intros x i Hi. rewrite (f1 x i Hi). apply f2. rewrite <- r1. exact Hi.
    - intros y j Hj. rewrite (a1 y j Hj). apply a2. rewrite <- d1. exact Hj.
  Qed.
  Lemma vstack_opeq_tail (A X Y : linop) : opeq X Y -> dom A = dom X -> opeq (vstack A X) (vstack A Y).
  Proof.
    intros (d & r & f & a) HAX. unfold opeq. cbn [vstack dom ran fwd adj]. repeat split; try congruence.
    - intros x i Hi. destruct (Nat.ltb_spec i (ran A)); [reflexivity|]. apply f. lia.
    - intros y j Hj. f_equal. apply a. rewrite <- HAX. exact Hj.
  Qed.
  Lemma vstack_list_dom (l : list linop) (z : linop) : dom (vstack_list l z) = match l with nil => dom z | cons A _ => dom A end.
  Proof. destruct l; reflexivity. Qed.

  Lemma comp_vstack_list (l : list linop) (z C : linop) : wf C ->
    opeq (comp (vstack_list l z) C) (vstack_list (map (fun A => comp A C) l) (comp z C)).
  Proof.
    intros WC. induction l as [|A r IH]; cbn [vstack_list map].
    - apply opeq_refl.
    - eapply opeq_trans; [apply comp_vstack_left; exact WC|].
      apply vstack_opeq_tail; [exact IH|]. cbn [comp dom]. reflexivity.
  Qed.
  (* ---- rows of any width: A [B1, B2, ..., Z] = [A B1, A B2, ..., A Z] ---- *)
  Fixpoint hstack_list (l : list linop) (z : linop) : linop :=
    match l with nil => z | cons A r => hstack A (hstack_list r z) end.
  Lemma hstack_opeq_tail (A X Y : linop) : opeq X Y -> ran A = ran X -> opeq (hstack A X) (hstack A Y).
  Proof.
    intros (d & r & f & a) HAX. unfold opeq. cbn [hstack dom ran fwd adj]. repeat split; try congruence.
    - intros x i Hi. f_equal. apply f. rewrite <- HAX. exact Hi.
    - intros y j Hj. destruct (Nat.ltb_spec j (dom A)); [reflexivity|]. apply a. lia.
  Qed.
  Lemma comp_hstack_list (A : linop) (l : list linop) (z : linop) : wf A ->
    opeq (comp A (hstack_list l z)) (hstack_list (map (fun B => comp A B) l) (comp A z)).
  Proof.
    intros WA. induction l as [|B r IH]; cbn [hstack_list map].
    - apply opeq_refl.
    - eapply opeq_trans; [apply comp_hstack_right; exact WA|].
      apply hstack_opeq_tail; [exact IH|]. cbn [comp ran]. reflexivity.
  Qed.
  (* ---- an operator matrix of any size built from adjoint pairs / linear blocks is an adjoint pair / linear ---- *)
  Lemma vstack_list_ok (l : list linop) (z : linop) :
    List.Forall (fun A => adjoint_pair A /\ wf A /\ dom A = dom z) l -> adjoint_pair z -> wf z ->
    adjoint_pair (vstack_list l z) /\ wf (vstack_list l z) /\ dom (vstack_list l z) = dom z.
  Proof.
    intros Hl Pz Wz. induction Hl as [|A r (PA & WA & HA) _ IH]; cbn [vstack_list].
    - repeat split; try assumption; apply Wz.
    - destruct IH as (Pr & Wr & Dr). split; [|split].
      + apply vstack_adjoint; [congruence|exact PA|exact Pr].
      + apply vstack_wf; [congruence|exact WA|exact Wr].
      + exact HA.
  Qed.
  Lemma hstack_list_ok (l : list linop) (z : linop) :
    List.Forall (fun A => adjoint_pair A /\ wf A /\ ran A = ran z) l -> adjoint_pair z -> wf z ->
    adjoint_pair (hstack_list l z) /\ wf (hstack_list l z) /\ ran (hstack_list l z) = ran z.
  Proof.
    intros Hl Pz Wz. induction Hl as [|A r (PA & WA & HA) _ IH]; cbn [hstack_list].
    - repeat split; try assumption; apply Wz.
    - destruct IH as (Pr & Wr & Dr). split; [|split].
      + apply hstack_adjoint; [congruence|exact PA|exact Pr].
      + apply hstack_wf; [congruence|exact WA|exact Wr].
      + exact HA.
  Qed.
  (* the gram of a block column is the sum of the grams: [A; B]^H [A; B] = A^H A + B^H B *)
  Lemma adjop_wf' (A : linop) : wf A -> wf (adjop A).
  Proof. intros (L1 & E1 & L2 & E2). unfold wf. cbn [adjop dom ran fwd adj]. repeat split; assumption. Qed.
  Lemma gram_vstack (A B : linop) : wf A -> wf B -> dom A = dom B ->
    opeq (comp (adjop (vstack A B)) (vstack A B)) (lsum (comp (adjop A) A) (comp (adjop B) B)).
  Proof.
    intros WA WB HAB.
    exact (comp_row_column (adjop A) (adjop B) A B (adjop_wf' A WA) (adjop_wf' B WB) WA WB eq_refl eq_refl HAB HAB).
  Qed.
End BlockAlg.
