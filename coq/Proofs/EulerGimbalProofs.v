(* Proofs for C12, as_euler at exact gimbal lock (second angle 0 or pi for proper Euler sequences, -pi/2 or pi/2 for
   Tait-Bryan sequences): the code sets the third angle to 0 and puts the whole in-plane rotation into the first one;
   from_euler of these angles is the same rotation, for every valid axis triple, extrinsic and intrinsic.
   The regular-case algebra is reused through a polar form of (a, b, c, d) with a free angle. *)
From MrVerif Require Import Base.Prelude Base.StarRing Model.Rotation Model.Euler Proofs.RotationProofs Proofs.RotationRealProofs
  Proofs.RotationPowProofs Proofs.EulerProofs Proofs.EulerAnglesProofs.
From Coq Require Import Reals Lra Psatz.
Local Open Scope R_scope.

(* (a, b, c, d) = n (cos A cos hs, cos A sin hs, sin A cos hd, sin A sin hd) *)
Definition euler_polar (quat : quatR) (q r s0 : nat) (A hs hd : R) : Prop :=
  let '(sym, _, (a, b, c, d)) := euler_abcd quat q r s0 in
  let n := if sym then 1 else sqrt 2 in
  a = n * (cos A * cos hs) /\ b = n * (cos A * sin hs) /\ c = n * (sin A * cos hd) /\ d = n * (sin A * sin hd).

(* the algebra of the algorithm for ANY such polar form (the regular case takes A, hs, hd from atan2) *)
Lemma ext_core_polar (quat : quatR) (q r s0 : nat) (A hs hd : R) :
  (q < 3)%nat -> (r < 3)%nat -> (s0 < 3)%nat -> q <> r -> r <> s0 ->
  euler_polar quat q r s0 A hs hd ->
  let '(sym, sign, _) := euler_abcd quat q r s0 in
  from_euler false [q; r; s0] [hs - hd; if sym then 2 * A else 2 * A - PI / 2; if sym then hs + hd else (hs + hd) * sign] = quat.
Proof.
  intros Hq Hr Hs Hqr Hrs. dquat quat.
  destruct q as [|[|[|q]]], r as [|[|[|r]]], s0 as [|[|[|s0]]]; try lia; clear Hq Hr Hs Hqr Hrs;
    unfold euler_polar, euler_abcd, abcd_sym, abcd_asym; cbn [Nat.eqb Nat.sub nth_comp q0 q1 q2 q3 fst snd]; toRR; psign; cbv beta iota zeta.
  all: intros (Ea & Eb & Ec & Ed).
  all: assert (H2 : sqrt 2 * sqrt 2 = 2) by (apply sqrt_sqrt; lra).
  all: assert (H2p : 0 < sqrt 2) by (apply sqrt_lt_R0; lra).
  all: replace (hs - hd) with (2 * ((hs - hd) / 2)) by field.
  all: first [ replace (hs + hd) with (2 * ((hs + hd) / 2)) by field; rewrite sym_product by lia
             | match goal with |- from_euler false [?q; ?r; ?s] [_; _; ?e2] = _ =>
                 replace e2 with (2 * ((hs + hd) / 2) * perm_sign q r s) by (psign; field) end;
               rewrite asym_product by lia; cbv zeta ].
  all: replace ((hs - hd) / 2 + (hs + hd) / 2) with hs by field; replace ((hs + hd) / 2 - (hs - hd) / 2) with hd by field.
  all: cbn [Nat.sub]; psign; unfold of_comps; cbn [set_comp]; unf; toRR; pair_split; lra.
Qed.

(* ---- exact gimbal lock ---- *)
Lemma hypot_0 : hypot 0 0 = 0.
Proof. unfold hypot. replace (0 * 0 + 0 * 0) with 0 by ring. apply sqrt_0. Qed.

Lemma atan2_0_pos x : 0 < x -> atan2 0 x = 0.
Proof.
  intros Hx. unfold atan2. destruct (Rlt_dec 0 0); [lra|].
  replace (x * x + 0 * 0) with (Rsqr x) by (unfold Rsqr; ring). rewrite sqrt_Rsqr by lra.
  replace (x / x) with 1 by (field; lra). apply acos_1.
Qed.

Lemma atan2_pos_0 y : 0 < y -> atan2 y 0 = PI / 2.
Proof.
  intros Hy. unfold atan2. destruct (Rlt_dec y 0); [lra|]. unfold Rdiv. rewrite Rmult_0_l. apply acos_0.
Qed.

Lemma hypot_pos a b : 0 < a * a + b * b -> 0 < hypot a b.
Proof. intros H. unfold hypot. apply sqrt_lt_R0. exact H. Qed.

Lemma wrap_0 : wrap_angle 0 = 0.
Proof. unfold wrap_angle. pose proof PI_RGT_0. destruct (Rlt_dec 0 (- PI)); [lra|]. destruct (Rlt_dec PI 0); [lra|reflexivity]. Qed.

(* polar form at the two locks: (a, b) = n (cos hs, sin hs), (c, d) = 0  /  (a, b) = 0, (c, d) = n (cos hd, sin hd) *)
Lemma polar_ab (a b n : R) : 0 < n -> a * a + b * b = n * n ->
  a = n * (cos 0 * cos (atan2 b a)) /\ b = n * (cos 0 * sin (atan2 b a)).
Proof.
  intros Hn H. assert (Hp : 0 < a * a + b * b) by nra. destruct (atan2_spec b a Hp) as [C S]. cbv zeta in *.
  rewrite H in C, S. rewrite sqrt_square in C, S by lra. rewrite cos_0, C, S. split; field; lra.
Qed.
Lemma polar_cd (c d n : R) : 0 < n -> c * c + d * d = n * n ->
  c = n * (sin (PI / 2) * cos (atan2 d c)) /\ d = n * (sin (PI / 2) * sin (atan2 d c)).
Proof.
  intros Hn H. assert (Hp : 0 < c * c + d * d) by nra. destruct (atan2_spec d c Hp) as [C S]. cbv zeta in *.
  rewrite H in C, S. rewrite sqrt_square in C, S by lra. rewrite sin_PI2, C, S. split; field; lra.
Qed.

(* norm of (a, b, c, d): 1 for proper Euler, sqrt 2 for Tait-Bryan sequences *)
Lemma abcd_norm (quat : quatR) (q r s0 : nat) : (q < 3)%nat -> (r < 3)%nat -> (s0 < 3)%nat -> q <> r -> r <> s0 ->
  qnorm2 RRing quat = 1 ->
  let '(sym, _, (a, b, c, d)) := euler_abcd quat q r s0 in
  let n := if sym then 1 else sqrt 2 in a * a + b * b + c * c + d * d = n * n /\ 0 < n.
Proof.
  intros Hq Hr Hs Hqr Hrs Hn. dquat quat.
  assert (Hn' : k * k + k0 * k0 + k1 * k1 + k2 * k2 = 1) by (revert Hn; unf; toRR; intros; lra). clear Hn.
  assert (H2 : sqrt 2 * sqrt 2 = 2) by (apply sqrt_sqrt; lra).
  assert (H2p : 0 < sqrt 2) by (apply sqrt_lt_R0; lra).
  destruct q as [|[|[|q]]], r as [|[|[|r]]], s0 as [|[|[|s0]]]; try lia; clear Hq Hr Hs Hqr Hrs;
    unfold euler_abcd, abcd_sym, abcd_asym; cbn [Nat.eqb Nat.sub nth_comp q0 q1 q2 q3 fst snd]; toRR; psign; cbv beta iota zeta;
    split; try lra; nra.
Qed.

Lemma eps_lt_1 : gimbal_eps < 1.
Proof. unfold gimbal_eps. apply Rmult_lt_reg_r with 10000000; [lra|]. rewrite Rinv_l by lra. lra. Qed.
Lemma PI_gt_2 : 2 < PI.
Proof. pose proof PI2_1. lra. Qed.

Lemma case_zero : (if Rle_dec (Rabs 0) gimbal_eps then true else false) = true.
Proof. rewrite Rabs_R0. pose proof gimbal_eps_pos. destruct (Rle_dec 0 gimbal_eps); [reflexivity|lra]. Qed.
Lemma case_far x : 2 < Rabs x -> (if Rle_dec (Rabs x) gimbal_eps then true else false) = false.
Proof. intros H. pose proof eps_lt_1. destruct (Rle_dec (Rabs x) gimbal_eps); [lra|reflexivity]. Qed.
Lemma abs_mPI : 2 < Rabs (0 - PI).
Proof. pose proof PI_gt_2. rewrite Rabs_left by lra. lra. Qed.
Lemma abs_PI : 2 < Rabs PI.
Proof. pose proof PI_gt_2. rewrite Rabs_right by lra. lra. Qed.

(* the lock conditions on the intermediate quantities of the algorithm *)
Definition abcd_lock1 (quat : quatR) (q r s0 : nat) : Prop := let '(_, _, (a, b, c, d)) := euler_abcd quat q r s0 in c = 0 /\ d = 0.
Definition abcd_lock2 (quat : quatR) (q r s0 : nat) : Prop := let '(_, _, (a, b, c, d)) := euler_abcd quat q r s0 in a = 0 /\ b = 0.

(* what the code returns at the two locks, before wrapping, in the extrinsic reading (q, r, s0) *)
Lemma lock1_core (quat : quatR) (q r s0 : nat) (hd : R) :
  (q < 3)%nat -> (r < 3)%nat -> (s0 < 3)%nat -> q <> r -> r <> s0 -> qnorm2 RRing quat = 1 -> abcd_lock1 quat q r s0 ->
  let '(sym, sign, (a, b, c, d)) := euler_abcd quat q r s0 in
  from_euler false [q; r; s0] [atan2 b a - hd; if sym then 2 * 0 else 2 * 0 - PI / 2; if sym then atan2 b a + hd else (atan2 b a + hd) * sign] = quat.
Proof.
  intros Hq Hr Hs Hqr Hrs Hn.
  pose proof (abcd_norm quat q r s0 Hq Hr Hs Hqr Hrs Hn) as N.
  pose proof (fun hs => ext_core_polar quat q r s0 0 hs hd Hq Hr Hs Hqr Hrs) as C. unfold euler_polar, abcd_lock1 in *.
  destruct (euler_abcd quat q r s0) as [[sym sign] [[[a b] c] d]]. intros [-> ->]. destruct N as [N Hp].
  apply C. replace (a * a + b * b + 0 * 0 + 0 * 0) with (a * a + b * b) in N by ring.
  destruct (polar_ab a b _ Hp N) as [Ea Eb]. rewrite sin_0. repeat split; try assumption; ring.
Qed.

Lemma lock2_core (quat : quatR) (q r s0 : nat) (hs : R) :
  (q < 3)%nat -> (r < 3)%nat -> (s0 < 3)%nat -> q <> r -> r <> s0 -> qnorm2 RRing quat = 1 -> abcd_lock2 quat q r s0 ->
  let '(sym, sign, (a, b, c, d)) := euler_abcd quat q r s0 in
  from_euler false [q; r; s0] [hs - atan2 d c; if sym then 2 * (PI / 2) else 2 * (PI / 2) - PI / 2; if sym then hs + atan2 d c else (hs + atan2 d c) * sign] = quat.
Proof.
  intros Hq Hr Hs Hqr Hrs Hn.
  pose proof (abcd_norm quat q r s0 Hq Hr Hs Hqr Hrs Hn) as N.
  pose proof (fun hd => ext_core_polar quat q r s0 (PI / 2) hs hd Hq Hr Hs Hqr Hrs) as C. unfold euler_polar, abcd_lock2 in *.
  destruct (euler_abcd quat q r s0) as [[sym sign] [[[a b] c] d]]. intros [-> ->]. destruct N as [N Hp].
  apply C. replace (0 * 0 + 0 * 0 + c * c + d * d) with (c * c + d * d) in N by ring.
  destruct (polar_cd c d _ Hp N) as [Ec Ed]. rewrite cos_PI2. repeat split; try assumption; ring.
Qed.

Definition euler_lock (quat : quatR) (seq : nat * nat * nat) (extrinsic : bool) : Prop :=
  let '(s0, s1, s2) := seq in
  let '(q, r, s) := if extrinsic then (s0, s1, s2) else (s2, s1, s0) in
  abcd_lock1 quat q r s \/ abcd_lock2 quat q r s.

Ltac angle_list := repeat match goal with |- _ :: _ = _ :: _ => f_equal end; try reflexivity; try field.

Theorem as_euler_gimbal (quat : quatR) (seq : nat * nat * nat) (extrinsic : bool) :
  valid_seq seq -> qnorm2 RRing quat = 1 -> euler_lock quat seq extrinsic ->
  let '(e0, e1, e2) := quaternion_to_euler quat seq extrinsic in let '(s0, s1, s2) := seq in
  qmat RRing (from_euler (negb extrinsic) [s0; s1; s2] [e0; e1; e2]) = qmat RRing quat.
Proof.
  destruct seq as [[s0 s1] s2]. intros (H0 & H1 & H2 & H01 & H12) Hn. unfold euler_lock, quaternion_to_euler.
  destruct extrinsic; cbv iota; intros [L|L].
  - (* extrinsic, second angle 0 / -pi/2 *)
    pose proof (abcd_norm quat s0 s1 s2 H0 H1 H2 H01 H12 Hn) as N.
    pose proof (fun hd => lock1_core quat s0 s1 s2 hd H0 H1 H2 H01 H12 Hn L) as C. unfold abcd_lock1 in L.
    destruct (euler_abcd quat s0 s1 s2) as [[sym sign] [[[a b] c] d]]. destruct L as [-> ->]. destruct N as [N Hp].
    specialize (C (- atan2 b a)). cbv zeta.
    rewrite hypot_0, (atan2_0_pos (hypot a b)) by (apply hypot_pos; destruct sym; nra).
    replace (2 * 0) with 0 in * by ring. rewrite case_zero, (case_far _ abs_mPI).
    destruct sym; cbn [negb andb]; cbv iota; rewrite from_euler_wrap; rewrite <- C; do 2 f_equal; angle_list.
  - (* extrinsic, second angle pi / pi/2 *)
    pose proof (abcd_norm quat s0 s1 s2 H0 H1 H2 H01 H12 Hn) as N.
    pose proof (fun hs => lock2_core quat s0 s1 s2 hs H0 H1 H2 H01 H12 Hn L) as C. unfold abcd_lock2 in L.
    destruct (euler_abcd quat s0 s1 s2) as [[sym sign] [[[a b] c] d]]. destruct L as [-> ->]. destruct N as [N Hp].
    specialize (C (- atan2 d c)). cbv zeta.
    rewrite hypot_0, (atan2_pos_0 (hypot c d)) by (apply hypot_pos; destruct sym; nra).
    replace (2 * (PI / 2)) with PI in * by field. replace (PI - PI) with 0 by ring. rewrite case_zero, (case_far _ abs_PI).
    destruct sym; cbn [negb andb]; cbv iota; rewrite from_euler_wrap; rewrite <- C; do 2 f_equal; angle_list.
  - (* intrinsic, second angle 0 / -pi/2 *)
    pose proof (abcd_norm quat s2 s1 s0 H2 H1 H0 (not_eq_sym H12) (not_eq_sym H01) Hn) as N.
    pose proof (fun hd => lock1_core quat s2 s1 s0 hd H2 H1 H0 (not_eq_sym H12) (not_eq_sym H01) Hn L) as C. unfold abcd_lock1 in L.
    destruct (euler_abcd quat s2 s1 s0) as [[sym sign] [[[a b] c] d]]. destruct L as [-> ->]. destruct N as [N Hp].
    specialize (C (atan2 b a)). cbv zeta.
    rewrite hypot_0, (atan2_0_pos (hypot a b)) by (apply hypot_pos; destruct sym; nra).
    replace (2 * 0) with 0 in * by ring. rewrite case_zero, (case_far _ abs_mPI).
    destruct sym; cbn [negb andb]; cbv iota; rewrite from_euler_wrap, from_euler_intrinsic_reverse; rewrite <- C; do 2 f_equal; angle_list.
  - (* intrinsic, second angle pi / pi/2 *)
    pose proof (abcd_norm quat s2 s1 s0 H2 H1 H0 (not_eq_sym H12) (not_eq_sym H01) Hn) as N.
    pose proof (fun hs => lock2_core quat s2 s1 s0 hs H2 H1 H0 (not_eq_sym H12) (not_eq_sym H01) Hn L) as C. unfold abcd_lock2 in L.
    destruct (euler_abcd quat s2 s1 s0) as [[sym sign] [[[a b] c] d]]. destruct L as [-> ->]. destruct N as [N Hp].
    specialize (C (atan2 d c)). cbv zeta.
    rewrite hypot_0, (atan2_pos_0 (hypot c d)) by (apply hypot_pos; destruct sym; nra).
    replace (2 * (PI / 2)) with PI in * by field. replace (PI - PI) with 0 by ring. rewrite case_zero, (case_far _ abs_PI).
    destruct sym; cbn [negb andb]; cbv iota; rewrite from_euler_wrap, from_euler_intrinsic_reverse; rewrite <- C; do 2 f_equal; angle_list.
Qed.
