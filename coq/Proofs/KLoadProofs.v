(* Lemmas about Model/KLoad.v: the sort is a stable sort w.r.t. a total order, sorting a list with pairwise distinct
   keys does not depend on the order of the input, data / header / trajectory rows stay together. *)
From MrVerif Require Import Base.Prelude Model.KLoad.
From Coq Require Import Permutation Sorted.
From Coq Require String.

(* ---- lexicographic order ------------------------------------------------------------------------------------------- *)
Lemma lex_leb_refl a : lex_leb a a = true.
Proof. induction a as [|x a IH]; cbn; [reflexivity|]. rewrite Z.eqb_refl, IH. apply orb_true_r. Qed.

Lemma lex_leb_total a b : lex_leb a b = true \/ lex_leb b a = true.
Proof.
  revert b. induction a as [|x a IH]; intros [|y b]; cbn; auto.
  destruct (IH b) as [H|H]; rewrite H;
    destruct (Z.ltb_spec x y), (Z.ltb_spec y x), (Z.eqb_spec x y), (Z.eqb_spec y x); cbn; auto; lia.
Qed.

Lemma lex_leb_trans a b c : lex_leb a b = true -> lex_leb b c = true -> lex_leb a c = true.
Proof.
  revert b c. induction a as [|x a IH]; intros [|y b] [|z c]; cbn; auto; try discriminate.
  intros H1 H2.
  destruct (Z.ltb_spec x y), (Z.eqb_spec x y), (Z.ltb_spec y z), (Z.eqb_spec y z), (Z.ltb_spec x z), (Z.eqb_spec x z);
    cbn in *; try discriminate; try lia; auto.
  eapply IH; eauto.
Qed.

Lemma lex_leb_antisym a b : lex_leb a b = true -> lex_leb b a = true -> a = b.
Proof.
  revert b. induction a as [|x a IH]; intros [|y b]; cbn; auto; try discriminate.
  intros H1 H2.
  destruct (Z.ltb_spec x y), (Z.eqb_spec x y), (Z.ltb_spec y x), (Z.eqb_spec y x); cbn in *; try discriminate; try lia.
  subst. f_equal. auto.
Qed.

Lemma list_eqb_eq a b : list_eqb a b = true <-> a = b.
Proof.
  revert b. induction a as [|x a IH]; intros [|y b]; cbn; split; try discriminate; auto.
  - intros H. apply andb_true_iff in H. destruct H as [H1 H2]. apply Z.eqb_eq in H1. apply IH in H2. now subst.
  - intros H. injection H as -> ->. rewrite Z.eqb_refl. cbn. now apply IH.
Qed.

Lemma acq_leb_total a b : acq_leb a b = true \/ acq_leb b a = true.
Proof. apply lex_leb_total. Qed.
Lemma acq_leb_trans a b c : acq_leb a b = true -> acq_leb b c = true -> acq_leb a c = true.
Proof. apply lex_leb_trans. Qed.
Lemma acq_leb_antisym a b : acq_leb a b = true -> acq_leb b a = true -> labels a = labels b.
Proof.
  intros H1 H2. pose proof (lex_leb_antisym _ _ H1 H2) as E. unfold sort_key in E.
  rewrite <- (rev_involutive (labels a)), E. apply rev_involutive.
Qed.

(* ---- insertion sort ------------------------------------------------------------------------------------------------- *)
Section Sort.
  Variable A : Type.
  Variable leb : A -> A -> bool.
  Let R a b := leb a b = true.

  Lemma insert_perm x l : Permutation (x :: l) (insert_by leb x l).
  Proof.
    induction l as [|y l IH]; cbn; [reflexivity|]. destruct (leb x y); [reflexivity|].
    rewrite perm_swap. now apply perm_skip.
  Qed.

  Lemma isort_perm l : Permutation l (isort_by leb l).
  Proof.
    induction l as [|x l IH]; cbn; [reflexivity|]. rewrite <- insert_perm. now apply perm_skip.
  Qed.

  Lemma isort_length l : length (isort_by leb l) = length l.
  Proof. symmetry. apply Permutation_length, isort_perm. Qed.

  Hypothesis leb_total : forall a b, R a b \/ R b a.
  Hypothesis leb_trans : forall a b c, R a b -> R b c -> R a c.

  Lemma insert_sorted x l : StronglySorted R l -> StronglySorted R (insert_by leb x l).
  Proof.
    induction 1 as [|y l Hs IH Hy]; cbn; [repeat constructor|].
    destruct (leb x y) eqn:E.
    - constructor; [now constructor|]. constructor; [exact E|].
      rewrite Forall_forall in *. intros z Hz. eapply leb_trans; [exact E|auto].
    - constructor; [exact IH|]. rewrite Forall_forall in *. intros z Hz.
      apply (Permutation_in _ (Permutation_sym (insert_perm x l))) in Hz. destruct Hz as [<-|Hz]; [|auto].
      destruct (leb_total x y) as [H|H]; [unfold R in H; congruence|exact H].
  Qed.

  Lemma isort_sorted l : StronglySorted R (isort_by leb l).
  Proof. induction l; cbn; [constructor|now apply insert_sorted]. Qed.

  (* a sorted list is determined by its multiset as soon as mutually <= elements are equal *)
  Lemma sorted_perm_unique l1 : forall l2,
    StronglySorted R l1 -> StronglySorted R l2 -> Permutation l1 l2 ->
    (forall a b, In a l1 -> In b l1 -> R a b -> R b a -> a = b) -> l1 = l2.
  Proof.
    induction l1 as [|a t1 IH]; intros l2 S1 S2 P Hanti.
    - apply Permutation_nil in P. now subst.
    - destruct l2 as [|b t2]; [apply Permutation_sym, Permutation_nil in P; discriminate|].
      inversion S1 as [|? ? S1' F1]; subst. inversion S2 as [|? ? S2' F2]; subst.
      rewrite Forall_forall in F1, F2.
      assert (E : a = b).
      { assert (Ha : In a (b :: t2)) by (eapply Permutation_in; [exact P|now left]).
        assert (Hb : In b (a :: t1)) by (eapply Permutation_in; [exact (Permutation_sym P)|now left]).
        destruct Ha as [Ha|Ha]; [now subst|]. destruct Hb as [Hb|Hb]; [now subst|].
        apply Hanti; [now left|now right|auto|auto]. }
      subst b. f_equal. apply IH; auto.
      + eapply Permutation_cons_inv; exact P.
      + intros x y Hx Hy. apply Hanti; now right.
  Qed.

  Lemma sorted_app_inv l1 a l2 : StronglySorted R (l1 ++ a :: l2) -> Forall (fun b => R b a) l1 /\ Forall (R a) l2.
  Proof.
    induction l1 as [|x l1 IH]; cbn; intros S; inversion S as [|? ? S' F]; subst.
    - split; [constructor|exact F].
    - destruct (IH S') as [H1 H2]. split; [|exact H2]. constructor; [|exact H1].
      rewrite Forall_forall in F. apply F. apply in_or_app. right. now left.
  Qed.
End Sort.

(* sorting (index, element) pairs by the element = sorting the elements: the index rides along *)
Lemma map_snd_insert {I A} (leb : A -> A -> bool) (x : I * A) l :
  map snd (insert_by (fun p q => leb (snd p) (snd q)) x l) = insert_by leb (snd x) (map snd l).
Proof. induction l as [|y l IH]; cbn; [reflexivity|]. destruct (leb (snd x) (snd y)); cbn; [reflexivity|now rewrite IH]. Qed.

Lemma map_snd_isort {I A} (leb : A -> A -> bool) (l : list (I * A)) :
  map snd (isort_by (fun p q => leb (snd p) (snd q)) l) = isort_by leb (map snd l).
Proof. unfold isort_by. induction l as [|x l IH]; cbn [fold_right map]; [reflexivity|]. now rewrite map_snd_insert, IH. Qed.

Lemma map_snd_combine {A B} (l1 : list A) (l2 : list B) : length l1 = length l2 -> map snd (combine l1 l2) = l2.
Proof. revert l2. induction l1 as [|x l1 IH]; intros [|y l2]; cbn; try discriminate; auto. intros H. f_equal. apply IH. lia. Qed.

Lemma in_combine_seq {A} (l : list A) : forall s i a,
  In (i, a) (combine (seq s (length l)) l) -> nth_error l (i - s)%nat = Some a /\ (s <= i)%nat.
Proof.
  induction l as [|x l IH]; cbn; intros s i a; [tauto|]. intros [E|H].
  - injection E as -> ->. rewrite Nat.sub_diag. cbn. split; [reflexivity|lia].
  - apply IH in H. destruct H as [H1 H2]. split; [|lia].
    replace (i - s)%nat with (S (i - S s))%nat by lia. exact H1.
Qed.

(* x[sort_idx] of any per-acquisition array = that array's entries of the acquisitions in sorted order *)
Lemma take_lexsort (f : acq -> Z) l : take (lexsort l) (map f l) = map f (isort_by acq_leb l).
Proof.
  unfold take, lexsort. rewrite map_map.
  set (c := combine (seq 0 (length l)) l).
  set (sp := isort_by (fun p q => acq_leb (snd p) (snd q)) c).
  assert (Hin : forall p, In p sp -> In p c).
  { intros p Hp. eapply Permutation_in; [apply Permutation_sym, isort_perm|exact Hp]. }
  replace (isort_by acq_leb l) with (map snd sp).
  - rewrite map_map. apply map_ext_in. intros [i a] Hp. cbn. apply Hin in Hp. unfold c in Hp.
    apply in_combine_seq in Hp. destruct Hp as [Hp _]. rewrite Nat.sub_0_r in Hp.
    apply nth_error_nth. now apply map_nth_error.
  - unfold sp. rewrite map_snd_isort. unfold c. rewrite map_snd_combine; [reflexivity|apply seq_length].
Qed.

(* ---- permutation invariance of every ingredient ----------------------------------------------------------------- *)
Lemma filter_perm {A} (f : A -> bool) l l' : Permutation l l' -> Permutation (filter f l) (filter f l').
Proof.
  induction 1 as [|x l l' P IH|x y l|l l' l'' P1 IH1 P2 IH2]; cbn.
  - constructor.
  - destruct (f x); [now constructor|exact IH].
  - destruct (f x), (f y); try reflexivity. apply perm_swap.
  - now transitivity (filter f l').
Qed.

Lemma fold_min_spec x r :
  let m := fold_right Z.min x r in (m = x \/ In m r) /\ m <= x /\ forall y, In y r -> m <= y.
Proof.
  induction r as [|z r IH]; cbn.
  - split; [now left|]. split; [lia|tauto].
  - cbn in IH. destruct IH as [[H1|H1] [H2 H3]].
    + split; [|split; [lia|]].
      * destruct (Z.min_spec z (fold_right Z.min x r)) as [[_ E]|[_ E]]; rewrite E; [right; now left|left; exact H1].
      * intros y [<-|Hy]; [lia|]. specialize (H3 y Hy). lia.
    + split; [|split; [lia|]].
      * destruct (Z.min_spec z (fold_right Z.min x r)) as [[_ E]|[_ E]]; rewrite E; [right; now left|right; now right].
      * intros y [<-|Hy]; [lia|]. specialize (H3 y Hy). lia.
Qed.

Lemma fold_max_spec x r :
  let m := fold_right Z.max x r in (m = x \/ In m r) /\ x <= m /\ forall y, In y r -> y <= m.
Proof.
  induction r as [|z r IH]; cbn.
  - split; [now left|]. split; [lia|tauto].
  - cbn in IH. destruct IH as [[H1|H1] [H2 H3]].
    + split; [|split; [lia|]].
      * destruct (Z.max_spec z (fold_right Z.max x r)) as [[_ E]|[_ E]]; rewrite E; [left; exact H1|right; now left].
      * intros y [<-|Hy]; [lia|]. specialize (H3 y Hy). lia.
    + split; [|split; [lia|]].
      * destruct (Z.max_spec z (fold_right Z.max x r)) as [[_ E]|[_ E]]; rewrite E; [right; now right|right; now left].
      * intros y [<-|Hy]; [lia|]. specialize (H3 y Hy). lia.
Qed.

Lemma lmin_spec l : l <> [] -> In (lmin l) l /\ forall y, In y l -> lmin l <= y.
Proof.
  destruct l as [|x r]; [congruence|]. intros _. cbn [lmin]. destruct (fold_min_spec x r) as [H1 [H2 H3]]. split.
  - destruct H1 as [->|H1]; [now left|now right].
  - intros y [<-|Hy]; auto.
Qed.

Lemma lmax_spec l : l <> [] -> In (lmax l) l /\ forall y, In y l -> y <= lmax l.
Proof.
  destruct l as [|x r]; [congruence|]. intros _. cbn [lmax]. destruct (fold_max_spec x r) as [H1 [H2 H3]]. split.
  - destruct H1 as [->|H1]; [now left|now right].
  - intros y [<-|Hy]; auto.
Qed.

Lemma lmin_perm l l' : Permutation l l' -> lmin l = lmin l'.
Proof.
  intros P. destruct l as [|x r].
  - apply Permutation_nil in P. now subst.
  - assert (N1 : x :: r <> []) by congruence.
    assert (N2 : l' <> []) by (intros ->; apply Permutation_sym, Permutation_nil in P; discriminate).
    destruct (lmin_spec _ N1) as [A1 B1]. destruct (lmin_spec _ N2) as [A2 B2].
    pose proof (B2 _ (Permutation_in _ P A1)). pose proof (B1 _ (Permutation_in _ (Permutation_sym P) A2)). lia.
Qed.

Lemma lmax_perm l l' : Permutation l l' -> lmax l = lmax l'.
Proof.
  intros P. destruct l as [|x r].
  - apply Permutation_nil in P. now subst.
  - assert (N1 : x :: r <> []) by congruence.
    assert (N2 : l' <> []) by (intros ->; apply Permutation_sym, Permutation_nil in P; discriminate).
    destruct (lmax_spec _ N1) as [A1 B1]. destruct (lmax_spec _ N2) as [A2 B2].
    pose proof (B2 _ (Permutation_in _ P A1)). pose proof (B1 _ (Permutation_in _ (Permutation_sym P) A2)). lia.
Qed.

Lemma count_key_perm key l l' a : Permutation l l' -> count_key key l a = count_key key l' a.
Proof. intros P. unfold count_key. f_equal. apply Permutation_length. now apply filter_perm. Qed.

Lemma counts_perm key l l' : Permutation l l' -> Permutation (counts key l) (counts key l').
Proof.
  intros P. unfold counts. rewrite (map_ext _ (count_key key l')) by (intros a; now apply count_key_perm).
  now apply Permutation_map.
Qed.

Lemma decide_shape_perm l l' : Permutation l l' -> decide_shape l = decide_shape l'.
Proof.
  intros P. unfold decide_shape.
  rewrite (lmin_perm _ _ (counts_perm other_k2_key _ _ P)), (lmax_perm _ _ (counts_perm other_k2_key _ _ P)),
          (lmin_perm _ _ (counts_perm other_key _ _ P)), (lmax_perm _ _ (counts_perm other_key _ _ P)).
  reflexivity.
Qed.

Lemma select_coils_perm h l l' : Permutation l l' -> Permutation (select_coils h l) (select_coils h l').
Proof.
  intros P. unfold select_coils.
  rewrite (lmin_perm _ _ (Permutation_map coils P)), (lmax_perm _ _ (Permutation_map coils P)).
  destruct (_ =? _); [exact P|]. now apply filter_perm.
Qed.

Lemma kept_perm h l l' : Permutation l l' -> Permutation (kept h l) (kept h l').
Proof. intros P. unfold kept. now apply select_coils_perm, filter_perm. Qed.

Lemma NoDup_map_inj {A B} (f : A -> B) l a b : NoDup (map f l) -> In a l -> In b l -> f a = f b -> a = b.
Proof.
  induction l as [|x l IH]; cbn; [tauto|]. intros N Ha Hb E. inversion N as [|? ? Hx N']; subst.
  destruct Ha as [->|Ha], Hb as [->|Hb]; auto.
  - exfalso. apply Hx. rewrite E. now apply in_map.
  - exfalso. apply Hx. rewrite <- E. now apply in_map.
Qed.

Lemma isort_perm_eq l l' : Permutation l l' -> NoDup (map labels l) -> isort_by acq_leb l = isort_by acq_leb l'.
Proof.
  intros P N. apply (sorted_perm_unique _ acq_leb).
  - apply isort_sorted; [apply acq_leb_total|apply acq_leb_trans].
  - apply isort_sorted; [apply acq_leb_total|apply acq_leb_trans].
  - rewrite <- (isort_perm _ acq_leb l), <- (isort_perm _ acq_leb l'). exact P.
  - intros a b Ha Hb H1 H2.
    apply (Permutation_in _ (Permutation_sym (isort_perm _ acq_leb l))) in Ha, Hb.
    eapply NoDup_map_inj; eauto. now apply acq_leb_antisym.
Qed.

(* ---- load, restated on the sorted list of acquisitions ------------------------------------------------------------ *)
Definition load_sorted (h : option Z) (l : list acq) : list acq := isort_by acq_leb (kept h l).

Lemma load_unfold h l :
  load h l =
  let k := kept h l in
  let n := Z.of_nat (length k) in
  if n =? 0 then inl ErrNoAcquisitions
  else let n_k1 := fst (decide_shape k) in
       let n_k2 := snd (decide_shape k) in
       if n mod (n_k1 * n_k2) =? 0
       then inr ((n / (n_k1 * n_k2), n_k2, n_k1),
                 map did (load_sorted h l), map iid (load_sorted h l), map tid (load_sorted h l))
       else inl ErrReshape.
Proof. unfold load, load_sorted. cbv zeta. now rewrite !take_lexsort. Qed.

Lemma load_perm h l l' : Permutation l l' -> NoDup (map labels (kept h l)) -> load h l = load h l'.
Proof.
  intros P N. rewrite !load_unfold. cbv zeta. unfold load_sorted.
  pose proof (kept_perm h _ _ P) as PK.
  rewrite <- (Permutation_length PK), <- (decide_shape_perm _ _ PK), <- (isort_perm_eq _ _ PK N). reflexivity.
Qed.

(* ---- co-location ------------------------------------------------------------------------------------------------------ *)
Lemma load_colocated h l sh d i t :
  load h l = inr (sh, d, i, t) ->
  length d = length (kept h l) /\
  forall p, (p < length d)%nat ->
    exists a, In a (kept h l) /\ nth_error (load_sorted h l) p = Some a /\
              nth_error d p = Some (did a) /\ nth_error i p = Some (iid a) /\ nth_error t p = Some (tid a).
Proof.
  rewrite load_unfold. cbv zeta. destruct (_ =? 0); [discriminate|]. destruct (_ =? 0); [|discriminate].
  intros E. injection E as _ <- <- <-. rewrite map_length.
  assert (EL : length (load_sorted h l) = length (kept h l)) by apply isort_length.
  split; [exact EL|]. intros p Hp.
  destruct (nth_error (load_sorted h l) p) as [a|] eqn:Ea; [|apply nth_error_None in Ea; lia].
  exists a. split; [|split; [reflexivity|]].
  - apply nth_error_In in Ea. unfold load_sorted in Ea.
    eapply Permutation_in; [apply Permutation_sym, isort_perm|exact Ea].
  - repeat split; now apply map_nth_error.
Qed.

(* ---- position = rank of the label tuple -------------------------------------------------------------------------- *)
Lemma load_sorted_sorted h l : StronglySorted (fun a b => acq_leb a b = true) (load_sorted h l).
Proof. apply isort_sorted; [apply acq_leb_total|apply acq_leb_trans]. Qed.

Lemma load_sorted_perm h l : Permutation (kept h l) (load_sorted h l).
Proof. apply isort_perm. Qed.

Lemma filter_all_false {A} (f : A -> bool) l : (forall x, In x l -> f x = false) -> filter f l = [].
Proof. induction l as [|x l IH]; cbn; intros H; [reflexivity|]. rewrite (H x) by now left. apply IH. intros; apply H; now right. Qed.

Lemma filter_all_true {A} (f : A -> bool) l : (forall x, In x l -> f x = true) -> filter f l = l.
Proof. induction l as [|x l IH]; cbn; intros H; [reflexivity|]. rewrite (H x) by now left. f_equal. apply IH. intros; apply H; now right. Qed.

Lemma load_position h l p a :
  NoDup (map labels (kept h l)) -> nth_error (load_sorted h l) p = Some a ->
  length (filter (fun b => negb (acq_leb a b)) (kept h l)) = p.
Proof.
  intros N Ea.
  rewrite (Permutation_length (filter_perm _ _ _ (load_sorted_perm h l))).
  assert (N' : NoDup (map labels (load_sorted h l))).
  { eapply Permutation_NoDup; [apply Permutation_map, load_sorted_perm|exact N]. }
  pose proof (load_sorted_sorted h l) as S.
  destruct (nth_error_split _ _ Ea) as [l1 [l2 [E Hl]]]. rewrite E in *. clear E Ea.
  destruct (sorted_app_inv _ _ _ _ _ S) as [F1 F2]. rewrite Forall_forall in F1, F2.
  rewrite filter_app, app_length. cbn [filter]. rewrite (lex_leb_refl (sort_key a) : acq_leb a a = true). cbn [negb].
  rewrite (filter_all_false _ l2) by (intros x Hx; now rewrite (F2 x Hx)).
  rewrite filter_all_true; [cbn; lia|].
  intros x Hx. destruct (acq_leb a x) eqn:Eax; [|reflexivity]. exfalso.
  assert (labels a = labels x) by (apply acq_leb_antisym; auto).
  rewrite map_app in N'. cbn in N'. apply NoDup_remove_2 in N'. apply N'. apply in_or_app. left. rewrite H. now apply in_map.
Qed.

(* ---- the filters do not see what they reject ------------------------------------------------------------------------ *)
Lemma load_filter_indep h l1 r l2 : is_image_acquisition r = false -> load h (l1 ++ r :: l2) = load h (l1 ++ l2).
Proof.
  intros Hr. unfold load, kept. rewrite !filter_app. cbn [filter]. now rewrite Hr.
Qed.

Lemma load_filter_indep_many h l rejected : forall mixed,
  (forall r, In r rejected -> is_image_acquisition r = false) ->
  filter is_image_acquisition mixed = filter is_image_acquisition l -> load h mixed = load h l.
Proof. intros mixed _ E. unfold load, kept. now rewrite E. Qed.

Lemma lmin_lmax_const n l : l <> [] -> (forall x, In x l -> x = n) -> lmin l = n /\ lmax l = n.
Proof.
  intros N H. destruct (lmin_spec l N) as [A _]. destruct (lmax_spec l N) as [B _]. split; now apply H.
Qed.

(* an acquisition with another coil count than the imaging acquisitions is dropped by the coil selection *)
Lemma select_coils_indep h n l1 r l2 :
  l1 ++ l2 <> [] -> (forall a, In a (l1 ++ l2) -> coils a = n) -> coils r <> n ->
  (h = Some n \/ (h = None /\ coils r < n)) ->
  select_coils h (l1 ++ r :: l2) = select_coils h (l1 ++ l2).
Proof.
  intros NE Hall Hr Hh. unfold select_coils.
  assert (NE' : map coils (l1 ++ l2) <> []) by (destruct (l1 ++ l2); [congruence|discriminate]).
  destruct (lmin_lmax_const n (map coils (l1 ++ l2)) NE') as [E1 E2].
  { intros x Hx. apply in_map_iff in Hx. destruct Hx as [a [<- Ha]]. now apply Hall. }
  rewrite E1, E2, Z.eqb_refl.
  assert (NE2 : map coils (l1 ++ r :: l2) <> []) by (destruct l1; discriminate).
  destruct (lmin_spec _ NE2) as [A1 B1]. destruct (lmax_spec _ NE2) as [A2 B2].
  assert (Hin_r : In (coils r) (map coils (l1 ++ r :: l2))) by (apply in_map, in_or_app; right; now left).
  assert (Hin_n : In n (map coils (l1 ++ r :: l2))).
  { assert (Hex : exists a0, In a0 (l1 ++ l2)) by (destruct (l1 ++ l2) as [|a0 ?]; [congruence|exists a0; now left]).
    destruct Hex as [a0 Ha0].
    rewrite <- (Hall a0 Ha0). apply in_map. apply in_app_or in Ha0. apply in_or_app. destruct Ha0; [now left|right; now right]. }
  assert (Hall2 : forall x, In x (map coils (l1 ++ r :: l2)) -> x = n \/ x = coils r).
  { intros x Hx. apply in_map_iff in Hx. destruct Hx as [a [<- Ha]]. apply in_app_or in Ha. destruct Ha as [Ha|[<-|Ha]]; auto;
      left; apply Hall; apply in_or_app; auto. }
  assert (Hne : (lmin (map coils (l1 ++ r :: l2)) =? lmax (map coils (l1 ++ r :: l2))) = false).
  { apply Z.eqb_neq. pose proof (B1 _ Hin_r). pose proof (B1 _ Hin_n). pose proof (B2 _ Hin_r). pose proof (B2 _ Hin_n). lia. }
  rewrite Hne.
  assert (Hsel : match h with Some n0 => n0 | None => lmax (map coils (l1 ++ r :: l2)) end = n).
  { destruct Hh as [->|[-> Hlt]]; [reflexivity|]. destruct (Hall2 _ A2) as [E|E]; [exact E|]. pose proof (B2 _ Hin_n). lia. }
  rewrite Hsel, filter_app. cbn [filter]. replace (coils r =? n) with false by (symmetry; now apply Z.eqb_neq).
  rewrite <- filter_app. apply filter_all_true. intros a Ha. apply Z.eqb_eq. now apply Hall.
Qed.

(* ---- flag filter: which single flags are rejected -------------------------------------------------------------------- *)
Definition rejected_flag_numbers : list Z := [19; 20; 23; 24; 26; 27; 30; 31].

Lemma single_flag_rejected : forall n, In n (zrange 65) -> n <> 0 ->
  is_image_flags (flag_mask n) = negb (existsb (Z.eqb n) rejected_flag_numbers).
Proof.
  intros n Hn Hz. apply zrange_In in Hn.
  assert (In n (map Z.of_nat (seq 1 64))).
  { apply in_map_iff. exists (Z.to_nat n). split; [lia|]. apply in_seq. lia. }
  clear Hn. vm_compute in H.
  repeat (destruct H as [H|H]; [subst n; vm_compute; reflexivity|]). contradiction.
Qed.

(* ---- stability: acquisitions with the same label tuple keep their file order ----------------------------------------- *)
Definition has_labels (key : list Z) (a : acq) : bool := list_eqb (labels a) key.

Lemma filter_insert_stable key x s :
  filter (has_labels key) (insert_by acq_leb x s) = if has_labels key x then x :: filter (has_labels key) s else filter (has_labels key) s.
Proof.
  induction s as [|y s IH]; cbn [insert_by filter].
  - reflexivity.
  - destruct (acq_leb x y) eqn:E.
    + cbn [filter]. reflexivity.
    + cbn [filter]. rewrite IH. destruct (has_labels key y) eqn:Py; [|reflexivity].
      destruct (has_labels key x) eqn:Px; [|reflexivity]. exfalso.
      unfold has_labels in Px, Py. apply list_eqb_eq in Px, Py.
      unfold acq_leb, sort_key in E. rewrite Px, Py, lex_leb_refl in E. discriminate.
Qed.

Lemma isort_stable key l : filter (has_labels key) (isort_by acq_leb l) = filter (has_labels key) l.
Proof.
  induction l as [|x l IH]; [reflexivity|]. change (isort_by acq_leb (x :: l)) with (insert_by acq_leb x (isort_by acq_leb l)).
  rewrite filter_insert_stable, IH. cbn [filter]. reflexivity.
Qed.

(* ---- the bookkeeping tables agree with what the model computes with ------------------------------------------------- *)
Module TablesProof.
Import String.
Definition tables_statement : Prop :=
  other_labels = skipn 2 sort_labels /\ firstn 2 sort_labels = [L_k1; L_k2] /\
  FlagTable.mask_of FlagTable.acq_flag_table FlagTable.ignore_flag_names = DEFAULT_IGNORE_FLAGS /\
  FlagTable.lookup_flag FlagTable.acq_flag_table "ACQ_IS_REVERSE"%string = ACQ_IS_REVERSE /\
  FlagTable.lookup_flag FlagTable.acq_flag_table "ACQ_IS_NOISE_MEASUREMENT"%string = ACQ_IS_NOISE_MEASUREMENT.
Lemma tables_consistent : tables_statement.
Proof. unfold tables_statement. repeat split; vm_compute; reflexivity. Qed.
End TablesProof.
