(* C19 - "converges to it for generic start vectors": convergence of the power-iteration estimates of the model
   (Model/PowerIter.v) for operators with a diagonal gram matrix G = A^H A = diag(g_1 .. g_n), g_i >= 0 (the squared
   singular values): if the start vector has a non-zero component along an eigenvector of the largest g_i, the squared
   estimates q_k = <u_k, G u_k> / <u_k, u_k>, u_k = G^k u_0, converge to max_i g_i, the squared operator norm.
   (For a general A the same statement follows in the eigenbasis of A^H A; that change of basis - the spectral theorem -
   is not formalised: the theorem is stated for diagonal G, any size.) *)
From Coq Require Import List Reals Lra Lia Psatz.
From Coquelicot Require Import Coquelicot.
From MrVerif Require Import Model.CG Model.PowerIter Proofs.PowerIterProofs Proofs.PowerIterLitProofs.
Import ListNotations.
Local Open Scope R_scope.

(* G u for G = diag(gs) *)
Fixpoint dmul (gs u : list R) : list R :=
  match gs, u with g :: gs', a :: u' => g * a :: dmul gs' u' | _, _ => [] end.

(* u_k = G^k u_0 *)
Fixpoint iterG (gs : list R) (k : nat) (u : list R) : list R :=
  match k with O => u | S k' => dmul gs (iterG gs k' u) end.

Fixpoint powv (gs : list R) (k : nat) (u : list R) : list R :=
  match gs, u with g :: gs', a :: u' => g ^ k * a :: powv gs' k u' | _, _ => [] end.

(* sum_i g_i^e u_i^2 *)
Fixpoint wsum (gs u : list R) (e : nat) : R :=
  match gs, u with g :: gs', a :: u' => g ^ e * (a * a) + wsum gs' u' e | _, _ => 0 end.

Lemma powv_0 gs u : length gs = length u -> powv gs 0 u = u.
Proof.
  revert u. induction gs as [|g gs IH]; intros [|a u] H; cbn in *; try discriminate; [reflexivity|].
  rewrite IH by lia. f_equal. ring.
Qed.

Lemma dmul_powv gs k u : dmul gs (powv gs k u) = powv gs (S k) u.
Proof.
  revert u. induction gs as [|g gs IH]; intros [|a u]; cbn [powv dmul]; try reflexivity.
  rewrite IH. f_equal. cbn [pow]. ring.
Qed.

Lemma iterG_powv gs k u : length gs = length u -> iterG gs k u = powv gs k u.
Proof.
  intros H. induction k as [|k IH]; cbn [iterG]; [symmetry; apply powv_0; exact H|].
  rewrite IH. apply dmul_powv.
Qed.

Lemma dot_powv gs u k j : dotR (powv gs k u) (powv gs j u) = wsum gs u (k + j).
Proof.
  revert u. induction gs as [|g gs IH]; intros [|a u]; cbn [powv dot wsum]; try reflexivity.
  rewrite IH. rewrite pow_add. ring.
Qed.

(* the squared estimate of the model at the k-th iterate *)
Lemma rq_iterate gs u k : length gs = length u -> wsum gs u (2 * k) <> 0 ->
  rq R 0 Rplus Rmult Rdiv Reqb' (dmul gs) (iterG gs k u) = Some (wsum gs u (2 * k + 1) / wsum gs u (2 * k)).
Proof.
  intros Hl Hz. unfold rq, sdiv. rewrite (iterG_powv gs k u Hl), dmul_powv, !dot_powv.
  replace (k + k)%nat with (2 * k)%nat by lia. replace (k + S k)%nat with (2 * k + 1)%nat by lia.
  destruct (Reqb' (wsum gs u (2 * k)) 0) eqn:E; [apply Reqb'_true in E; contradiction|reflexivity].
Qed.

(* ---- normalised sums: nsum e = sum_i (g_i / M)^e u_i^2 ---- *)
Fixpoint nsum (M : R) (gs u : list R) (e : nat) : R :=
  match gs, u with g :: gs', a :: u' => (g / M) ^ e * (a * a) + nsum M gs' u' e | _, _ => 0 end.

(* its limit: the weight of the start vector in the dominant eigenspace *)
Fixpoint dom_weight (M : R) (gs u : list R) : R :=
  match gs, u with
  | g :: gs', a :: u' => (if Req_EM_T g M then a * a else 0) + dom_weight M gs' u'
  | _, _ => 0
  end.

Lemma wsum_nsum M gs u e : M <> 0 -> wsum gs u e = M ^ e * nsum M gs u e.
Proof.
  intros HM. revert u. induction gs as [|g gs IH]; intros [|a u]; cbn [wsum nsum]; try ring.
  rewrite IH. replace (g ^ e) with (M ^ e * (g / M) ^ e); [ring|].
  rewrite <- Rpow_mult_distr. f_equal. field. exact HM.
Qed.

Lemma nsum_lim M gs u : 0 < M -> List.Forall (fun g : R => 0 <= g /\ g <= M) gs ->
  is_lim_seq (nsum M gs u) (dom_weight M gs u).
Proof.
  intros HM Hg. revert u. induction Hg as [|g gs [Hg0 HgM] _ IH]; intros u.
  - cbn. apply is_lim_seq_const.
  - destruct u as [|a u]; [cbn; apply is_lim_seq_const|]. cbn [nsum dom_weight].
    apply (is_lim_seq_plus' (fun e => (g / M) ^ e * (a * a)) (nsum M gs u)); [|apply IH].
    destruct (Req_EM_T g M) as [->|Hne].
    + apply (is_lim_seq_ext (fun _ => a * a)); [|apply is_lim_seq_const].
      intros e. replace (M / M) with 1 by (field; lra). rewrite pow1. ring.
    + replace 0 with (0 * (a * a)) by ring.
      apply (is_lim_seq_mult' (fun e => (g / M) ^ e) (fun _ => a * a)); [|apply is_lim_seq_const].
      apply is_lim_seq_geom. rewrite Rabs_pos_eq.
      * apply (Rmult_lt_reg_r M); [exact HM|]. replace (g / M * M) with g by (field; lra). lra.
      * apply Rmult_le_pos; [exact Hg0|]. left. apply Rinv_0_lt_compat. exact HM.
Qed.

Lemma nsum_ge_dom M gs u e : 0 < M -> List.Forall (fun g : R => 0 <= g /\ g <= M) gs -> dom_weight M gs u <= nsum M gs u e.
Proof.
  intros HM Hg. revert u. induction Hg as [|g gs [Hg0 HgM] _ IH]; intros [|a u]; cbn [nsum dom_weight]; try lra.
  specialize (IH u).
  assert (Hp : 0 <= (g / M) ^ e * (a * a)).
  { apply Rmult_le_pos; [apply pow_le; apply Rmult_le_pos; [exact Hg0|left; apply Rinv_0_lt_compat; exact HM]|nra]. }
  destruct (Req_EM_T g M) as [->|Hne]; [|lra].
  replace (M / M) with 1 in * by (field; lra). rewrite pow1 in *. lra.
Qed.

Lemma dom_weight_nonneg M gs u : 0 <= dom_weight M gs u.
Proof.
  revert u. induction gs as [|g gs IH]; intros [|a u]; cbn [dom_weight]; try lra.
  specialize (IH u). destruct (Req_EM_T g M); nra.
Qed.

(* "generic": some component along a dominant eigenvector does not vanish *)
Lemma dom_weight_pos M gs u : List.Exists (fun ga => fst ga = M /\ snd ga <> 0) (combine gs u) -> 0 < dom_weight M gs u.
Proof.
  revert u. induction gs as [|g gs IH]; intros [|a u] H; cbn [combine] in H; try (inversion H; fail).
  cbn [dom_weight]. pose proof (dom_weight_nonneg M gs u) as Hn. inversion H as [? ? [Hg Ha]|? ? Ht]; subst; cbn [fst snd] in *.
  - destruct (Req_EM_T _ _) as [_|Hc]; [|exfalso; apply Hc; reflexivity]. assert (0 < a * a) by nra. lra.
  - specialize (IH u Ht). destruct (Req_EM_T _ _); nra.
Qed.

Lemma even_lt n : (2 * n < 2 * S n)%nat. Proof. lia. Qed.
Lemma odd_lt n : (2 * n + 1 < 2 * S n + 1)%nat. Proof. lia. Qed.

(* ---- the theorem ---- *)
Theorem power_iteration_converges M gs u :
  0 < M -> List.Forall (fun g : R => 0 <= g /\ g <= M) gs -> length gs = length u ->
  List.Exists (fun ga => fst ga = M /\ snd ga <> 0) (combine gs u) ->
  (forall k, exists q, rq R 0 Rplus Rmult Rdiv Reqb' (dmul gs) (iterG gs k u) = Some q) /\
  is_lim_seq (fun k => match rq R 0 Rplus Rmult Rdiv Reqb' (dmul gs) (iterG gs k u) with Some q => q | None => 0 end) M.
Proof.
  intros HM Hg Hl Hgen.
  pose proof (dom_weight_pos M gs u Hgen) as HS.
  assert (Hns : forall e, 0 < nsum M gs u e) by (intros e; pose proof (nsum_ge_dom M gs u e HM Hg); lra).
  assert (Hws : forall e, wsum gs u e <> 0).
  { intros e. rewrite (wsum_nsum M) by lra. apply Rgt_not_eq. apply Rmult_gt_0_compat; [apply pow_lt; exact HM|apply Hns]. }
  split.
  - intros k. eexists. apply rq_iterate; [exact Hl|apply Hws].
  - apply (is_lim_seq_ext (fun k => M * (nsum M gs u (2 * k + 1) / nsum M gs u (2 * k)))).
    + intros k. rewrite rq_iterate by (try exact Hl; apply Hws).
      rewrite !(wsum_nsum M gs u) by lra. rewrite pow_add. cbn [pow]. field.
      split; [apply Rgt_not_eq, Hns|apply Rgt_not_eq, pow_lt; exact HM].
    + replace (Finite M) with (Rbar_mult M (Finite (dom_weight M gs u / dom_weight M gs u))).
      2:{ cbn. f_equal. field. lra. }
      apply is_lim_seq_scal_l.
      apply (is_lim_seq_div' (fun k => nsum M gs u (2 * k + 1)) (fun k => nsum M gs u (2 * k))); [| |lra].
      * apply (is_lim_seq_subseq (nsum M gs u) _ (fun k => (2 * k + 1)%nat)); [apply eventually_subseq, odd_lt|apply nsum_lim; assumption].
      * apply (is_lim_seq_subseq (nsum M gs u) _ (fun k => (2 * k)%nat)); [apply eventually_subseq, even_lt|apply nsum_lim; assumption].
Qed.

(* the iterates of the model's loop are exactly these u_k (the kernel guard of next_vec never fires here) *)
Lemma next_vec_iterate M gs u k :
  0 < M -> List.Forall (fun g : R => 0 <= g /\ g <= M) gs -> length gs = length u ->
  List.Exists (fun ga => fst ga = M /\ snd ga <> 0) (combine gs u) ->
  next_vec R 0 Rplus Rmult Reqb' (dmul gs) (iterG gs k u) = iterG gs (S k) u.
Proof.
  intros HM Hg Hl Hgen. unfold next_vec. cbv zeta. cbn [iterG].
  destruct (Reqb' _ 0) eqn:E; [|reflexivity]. exfalso. apply Reqb'_true in E.
  rewrite (iterG_powv gs k u Hl), dmul_powv, dot_powv in E.
  pose proof (dom_weight_pos M gs u Hgen) as HS.
  pose proof (nsum_ge_dom M gs u (S k + S k) HM Hg) as Hn.
  rewrite (wsum_nsum M) in E by lra.
  assert (0 < M ^ (S k + S k)) by (apply pow_lt; exact HM). nra.
Qed.

(* ---- the loop of the model produces exactly these estimates (tolerances 0: the stopping test never fires) ---- *)
Definition qk (gs u : list R) (k : nat) : R := wsum gs u (2 * k + 1) / wsum gs u (2 * k).

Lemma ploop_trace M gs u :
  0 < M -> List.Forall (fun g : R => 0 <= g /\ g <= M) gs -> length gs = length u ->
  List.Exists (fun ga => fst ga = M /\ snd ga <> 0) (combine gs u) ->
  forall n k o last,
  snd (ploop R 0 Rplus Rmult Rdiv Reqb' (fun _ _ => false) [dmul gs] n (mkP [iterG gs k u] [o]) last)
  = map (fun j => [qk gs u (k + j)]) (seq 0 n).
Proof.
  intros HM Hg Hl Hgen.
  pose proof (dom_weight_pos M gs u Hgen) as HS.
  assert (Hws : forall e, wsum gs u e <> 0).
  { intros e. rewrite (wsum_nsum M) by lra. pose proof (nsum_ge_dom M gs u e HM Hg).
    apply Rgt_not_eq. apply Rmult_gt_0_compat; [apply pow_lt; exact HM|lra]. }
  induction n as [|n IH]; intros k o last; [reflexivity|].
  cbn [ploop]. unfold pstep. cbn [pu pold combine map fst snd].
  rewrite (rq_iterate gs u k Hl (Hws _)). cbn [all_some all_close andb].
  unfold apply_all. cbn [combine map fst snd].
  rewrite (next_vec_iterate M gs u k HM Hg Hl Hgen).
  specialize (IH (S k) (wsum gs u (2 * k + 1) / wsum gs u (2 * k)) [wsum gs u (2 * k + 1) / wsum gs u (2 * k)]).
  destruct (ploop _ _ _ _ _ _ _ _ n _ _) as [r t] eqn:E. cbn [snd] in *. rewrite IH.
  cbn [seq map]. rewrite Nat.add_0_r. f_equal.
  rewrite <- seq_shift, map_map. apply map_ext. intros j. rewrite Nat.add_succ_r. reflexivity.
Qed.
