(* C05 - differentiating through an operator yields its adjoint (the wiring; the autograd engine itself is observed at
   run time by the correspondence check). *)
From MrVerif Require Import Base.Prelude Base.StarRing Base.Sums Model.OpAlg Model.Autograd Proofs.OpAlgProofs Proofs.AutogradProofs.

(* _AutogradWrapper: after any history of differentiations (backward = true, forward mode = false) the node computes the
   operator after an even number of backward steps and its adjoint after an odd number; forward mode never swaps *)
Theorem C05_wrapper_history : forall (R : StarRing) h (fw bw : (nat -> R) -> nat -> R),
  wrapper_fn h fw bw = if Nat.even (length (filter (fun b => b) h)) then fw else bw.
Proof. exact wrapper_history. Qed.
Print Assumptions C05_wrapper_history.

Theorem C05_wrapper_orders : forall (R : StarRing) k (fw bw : (nat -> R) -> nat -> R),
  wrapper_vjp_fn k fw bw = (if Nat.even k then fw else bw) /\ wrapper_jvp_fn k fw bw = fw.
Proof. intros. split; [apply wrapper_vjp_parity|apply wrapper_jvp_const]. Qed.
Print Assumptions C05_wrapper_orders.

(* the backward of the adjoint operator is the operator: (A^H)^H = A, in particular AdjointGridSample.backward w.r.t. y
   is the forward grid sampler *)
(* real input: the wrapper returns the real part of A^H g, which is the gradient with respect to a real x of the real loss Re<g, A x>:
   <A x, g> + conj<A x, g> = <x, A^H g + conj(A^H g)> for every adjoint pair A and every real x (a + conj a = 2 Re a) *)
Theorem C05_real_input_gradient : forall (R : StarRing) (A : linop R) (x g : nat -> R), adjoint_pair A -> (forall j, kconj (x j) = x j) ->
  (inner (ran A) (fwd A x) g + kconj (inner (ran A) (fwd A x) g) = inner (dom A) x (fun j => adj A g j + kconj (adj A g j)))%K.
Proof. exact real_input_gradient. Qed.
Print Assumptions C05_real_input_gradient.

Theorem C05_adjoint_of_adjoint : forall (R : StarRing) (A : linop R), adjoint_pair A -> adjoint_pair (adjop A) /\ adj (adjop A) = fwd A.
Proof. intros R A H. split; [apply adjop_adjoint; exact H|reflexivity]. Qed.
Print Assumptions C05_adjoint_of_adjoint.

(* _MatrixMultiplication: all dtype branches of forward compute matrix*x, all branches of backward compute
   matrix_adjoint*grad (complex input) resp. its real part (real input) *)
Theorem C05_matmul_branches : forall (R : StarRing),
  (forall m x, mm_fwd_rc R m x = cmul R (of_real R m) x) /\ (forall m x, mm_fwd_cr R m x = cmul R m (of_real R x)) /\
  (forall ma g, mm_bwd_c_cr R ma g = cmul R ma (of_real R g)) /\ (forall ma g, mm_bwd_c_rc R ma g = cmul R (of_real R ma) g) /\
  (forall ma g, mm_bwd_r_cc R ma g = re R (cmul R ma g)) /\ (forall ma g, mm_bwd_r_rr R ma g = re R (cmul R (of_real R ma) (of_real R g))) /\
  (forall ma g, mm_bwd_r_cr R ma g = re R (cmul R ma (of_real R g))) /\ (forall ma g, mm_bwd_r_rc R ma g = re R (cmul R (of_real R ma) g)).
Proof.
  intros R. repeat split; intros;
    first [apply mm_fwd_rc_ok|apply mm_fwd_cr_ok|apply mm_bwd_c_cr_ok|apply mm_bwd_c_rc_ok|apply mm_bwd_r_cc_ok
          |apply mm_bwd_r_rr_ok|apply mm_bwd_r_cr_ok|apply mm_bwd_r_rc_ok].
Qed.
Print Assumptions C05_matmul_branches.

Theorem C05_wirtinger_entry : forall (R : StarRing) (m x g : C2 R),
  re R (cmul R (cmul R m x) (cconj R g)) = re R (cmul R x (cconj R (cmul R (cconj R m) g))).
Proof. exact wirtinger_entry. Qed.
Print Assumptions C05_wirtinger_entry.

Example C05_example : wrapper_fn [true; false; true; true] (fun (x : nat -> ZRing) i => (2 * x i)%Z) (fun x i => (3 * x i)%Z) (fun _ => 1%Z) 0%nat = 3%Z.
Proof. reflexivity. Qed.
