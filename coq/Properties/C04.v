(* C04 - operator algebra and gram shortcuts behave like matrix algebra.
   [plain e] is the matrix-algebra meaning of an expression, [build e] the object graph Python constructs with all
   shortcuts (A@Id, Id@A, 0+A, scalar 0/1, AdjointLinearOperator.H) and fused .gram rules; opeq = same sizes, same forward
   and adjoint values on every input. *)
From MrVerif Require Import Base.Prelude Base.StarRing Base.Sums Model.OpAlg Model.ElemOps Model.Algebra Model.Wavelet
  Proofs.OpAlgProofs Proofs.ElemOpsProofs Proofs.ElemOpsWf Proofs.AlgebraProofs Proofs.BlockAlgProofs.

Theorem C04_sound : forall (R : StarRing) (eq0 eq1 : R -> bool),
  (forall c, eq0 c = true -> c = k0) -> (forall c, eq1 c = true -> c = k1) ->
  forall e : expr R, shaped e -> leaves_wf e -> opeq (bden (build eq0 eq1 e)) (plain e).
Proof. intros R eq0 eq1 H0 H1 e S W. exact (proj2 (build_sound R eq0 eq1 H0 H1 e S W)). Qed.
Print Assumptions C04_sound.

(* .gram always equals A^H A: composition, scalar and tensor scalings on either side (numel 1 and > 1), default *)
Theorem C04_gram : forall (R : StarRing) (eq0 eq1 : R -> bool),
  (forall c, eq0 c = true -> c = k0) -> (forall c, eq1 c = true -> c = k1) ->
  forall a : bop R, bok R a -> opeq (bden (b_gram R eq0 eq1 a)) (comp (adjop (bden a)) (bden a)).
Proof. intros R eq0 eq1 H0 H1 a K. exact (proj2 (gram_sound R eq0 eq1 H0 H1 a K)). Qed.
Print Assumptions C04_gram.

(* CartesianSamplingGramOp: multiplication with the mask adjoint(forward(ones)) equals S^H S, for every trajectory *)
Theorem C04_cartesian_gram : forall (R : StarRing) nr ns (g : nat -> option nat) (x : nat -> R) r, (r < nr)%nat ->
  adj (cart_sampling nr ns g) (fwd (cart_sampling nr ns g) x) r
  = kmul (adj (cart_sampling nr ns g) (fwd (cart_sampling nr ns g) (fun _ => k1)) r) (x r).
Proof. intros. cbn [cart_sampling fwd adj]. apply sampling_gram_mask. assumption. Qed.
Print Assumptions C04_cartesian_gram.

(* block stacking (A & B, A | B) is matrix stacking: linear, and transposition of adjoints is the adjoint *)
Theorem C04_stacking : forall (R : StarRing) (A B : linop R), wf A -> wf B -> adjoint_pair A -> adjoint_pair B ->
  (ran A = ran B -> wf (hstack A B) /\ adjoint_pair (hstack A B)) /\
  (dom A = dom B -> wf (vstack A B) /\ adjoint_pair (vstack A B)).
Proof.
  intros R A B WA WB PA PB. split; intros H.
  - split; [apply hstack_wf; assumption|apply hstack_adjoint; assumption].
  - split; [apply vstack_wf; assumption|apply vstack_adjoint; assumption].
Qed.
Print Assumptions C04_stacking.

(* ---- operator matrices (LinearOperatorMatrix): the block identities behind __matmul__, .H, & and |, for blocks of every size ---- *)
(* composition distributes over stacking: (A over B) C = (A C over B C) and A (B beside C) = (A B beside A C) *)
Theorem C04_block_distribute : forall (R : StarRing) (A B C : linop R),
  (wf C -> opeq (comp (vstack A B) C) (vstack (comp A C) (comp B C))) /\
  (wf A -> opeq (comp A (hstack B C)) (hstack (comp A B) (comp A C))).
Proof. intros R A B C. split; [apply comp_vstack_left|apply comp_hstack_right]. Qed.
Print Assumptions C04_block_distribute.
(* a block row times a block column is the sum of the products *)
Theorem C04_block_row_column : forall (R : StarRing) (A B C D : linop R), wf A -> wf B -> wf C -> wf D ->
  dom A = ran C -> dom B = ran D -> ran A = ran B -> dom C = dom D ->
  opeq (comp (hstack A B) (vstack C D)) (lsum (comp A C) (comp B D)).
Proof. exact comp_row_column. Qed.
Print Assumptions C04_block_row_column.
(* .H of an operator matrix transposes the blocks and takes their adjoints *)
Theorem C04_block_transpose : forall (R : StarRing) (A B : linop R),
  opeq (adjop (vstack A B)) (hstack (adjop A) (adjop B)) /\ opeq (adjop (hstack A B)) (vstack (adjop A) (adjop B)).
Proof. intros R A B. split; [apply adjop_vstack|apply adjop_hstack]. Qed.
Print Assumptions C04_block_transpose.
(* the 2 x 2 matrix product, one block column: [[A, B], [C, D]] [[E], [G]] = [[A E + B G], [C E + D G]] *)
Theorem C04_block_product : forall (R : StarRing) (A B C D E G : linop R), wf A -> wf B -> wf C -> wf D -> wf E -> wf G ->
  dom A = ran E -> dom B = ran G -> dom C = ran E -> dom D = ran G -> dom E = dom G -> ran A = ran B -> ran C = ran D ->
  forall x i, (i < ran A + ran C)%nat ->
    fwd (comp (vstack (hstack A B) (hstack C D)) (vstack E G)) x i
    = fwd (vstack (lsum (comp A E) (comp B G)) (lsum (comp C E) (comp D G))) x i.
Proof. exact block_column_product. Qed.
Print Assumptions C04_block_product.
(* the full 2 x 2 matrix product: [[A, B], [C, D]] [[E, F], [G, H]] = [[A E + B G, A F + B H], [C E + D G, C F + D H]] on every input *)
Theorem C04_block_product_2x2 : forall (R : StarRing) (A B C D E F G H : linop R), wf A -> wf B -> wf C -> wf D ->
  dom A = ran E -> dom C = ran E -> dom B = ran G -> dom D = ran G -> dom E = dom G -> ran A = ran B -> ran C = ran D ->
  forall x i, (i < ran A + ran C)%nat ->
    fwd (comp (vstack (hstack A B) (hstack C D)) (vstack (hstack E F) (hstack G H))) x i
    = fwd (vstack (hstack (lsum (comp A E) (comp B G)) (lsum (comp A F) (comp B H)))
                  (hstack (lsum (comp C E) (comp D G)) (lsum (comp C F) (comp D H)))) x i.
Proof. exact block_product_2x2. Qed.
Print Assumptions C04_block_product_2x2.
(* columns of any height and rows of any width (induction over the list of blocks): [A1; ...; Z] C = [A1 C; ...; Z C], A [B1, ..., Z] = [A B1, ..., A Z] *)
Theorem C04_block_column_any_height : forall (R : StarRing) (l : list (linop R)) (z C : linop R), wf C ->
  opeq (comp (vstack_list R l z) C) (vstack_list R (map (fun A => comp A C) l) (comp z C)).
Proof. exact comp_vstack_list. Qed.
Print Assumptions C04_block_column_any_height.
Theorem C04_block_row_any_width : forall (R : StarRing) (A : linop R) (l : list (linop R)) (z : linop R), wf A ->
  opeq (comp A (hstack_list R l z)) (hstack_list R (map (fun B => comp A B) l) (comp A z)).
Proof. exact comp_hstack_list. Qed.
Print Assumptions C04_block_row_any_width.
(* an operator matrix of any size (a column of rows) whose blocks are linear adjoint pairs of matching sizes is a linear adjoint pair *)
Theorem C04_block_matrix_any_size : forall (R : StarRing) (rows : list (list (linop R) * linop R)) (zl : list (linop R)) (z : linop R),
  let row := fun r : list (linop R) * linop R => hstack_list R (fst r) (snd r) in
  adjoint_pair z -> wf z -> List.Forall (fun A => adjoint_pair A /\ wf A /\ ran A = ran z) zl ->
  List.Forall (fun r => adjoint_pair (snd r) /\ wf (snd r) /\ List.Forall (fun A => adjoint_pair A /\ wf A /\ ran A = ran (snd r)) (fst r)
                        /\ dom (row r) = dom (hstack_list R zl z)) rows ->
  adjoint_pair (vstack_list R (map row rows) (hstack_list R zl z)) /\ wf (vstack_list R (map row rows) (hstack_list R zl z)).
Proof.
  intros R rows zl z row Pz Wz Hzl Hrows.
  destruct (hstack_list_ok R zl z Hzl Pz Wz) as (PZ & WZ & _).
  destruct (vstack_list_ok R (map row rows) (hstack_list R zl z)) as (P & W & _); [|exact PZ|exact WZ|split; assumption].
  apply List.Forall_forall. intros A HA. apply List.in_map_iff in HA. destruct HA as (r & <- & Hr).
  rewrite List.Forall_forall in Hrows. destruct (Hrows r Hr) as (Ps & Ws & Hf & Hd).
  destruct (hstack_list_ok R (fst r) (snd r) Hf Ps Ws) as (P1 & W1 & _). split; [exact P1|split; [exact W1|exact Hd]].
Qed.
Print Assumptions C04_block_matrix_any_size.
(* .gram of a block column is the sum of the blocks' grams: [A; B]^H [A; B] = A^H A + B^H B *)
Theorem C04_block_column_gram : forall (R : StarRing) (A B : linop R), wf A -> wf B -> dom A = dom B ->
  opeq (comp (adjop (vstack A B)) (vstack A B)) (lsum (comp (adjop A) A) (comp (adjop B) B)).
Proof. exact gram_vstack. Qed.
Print Assumptions C04_block_column_gram.
(* LinearOperatorMatrix.from_diagonal: the block-diagonal operator equals the matrix with zero operators off the diagonal *)
Theorem C04_block_diagonal : forall (R : StarRing) (A B : linop R),
  opeq (bdiag A B) (vstack (hstack A (zeroop (R:=R) (dom B) (ran A))) (hstack (zeroop (R:=R) (dom A) (ran B)) B)).
Proof. exact bdiag_as_blocks. Qed.
Print Assumptions C04_block_diagonal.
(* non-vacuity: identity blocks meet every hypothesis *)
Example C04_block_example : forall R : StarRing, let I2 := idop (R:=R) 2 in wf I2 /\ dom I2 = ran I2.
Proof. intros R I2. split; [apply idop_wf|reflexivity]. Qed.

(* the executed instance: Gaussian integers with decidable equality *)
Definition geq0 (c : G) : bool := (fst c =? 0) && (snd c =? 0).
Definition geq1 (c : G) : bool := (fst c =? 1) && (snd c =? 0).
Example C04_instance : (forall c : GRing, geq0 c = true -> c = k0) /\ (forall c : GRing, geq1 c = true -> c = k1).
Proof. split; intros [a b]; unfold geq0, geq1; cbn [fst snd]; intros H; cbn; f_equal; lia. Qed.
