(* C14 - Loading raw data is faithful to acquisition indices, not to file order; trajectory calculators agree with the
   acquisition indices.
   Theorems about the models of KData.from_file (Model/KLoad.v) and of the trajectory calculators (Model/TrajCalc.v); the
   models are tied to /repo/src/mrpro/data on every run by the correspondence families of harness/props/C14.py, which
   load real ISMRMRD files with the implementation and compare the id arrays exactly with `load` under vm_compute. *)
From MrVerif Require Import Base.Prelude Model.KLoad Model.TrajCalc Proofs.KLoadProofs Proofs.KLoadGridProofs Proofs.TrajCalcProofs.
From Coq Require Import Permutation Sorted QArith Qabs Reals.
Local Open Scope Z_scope.

(* at every output position the data row, every AcqInfo row and the raw-shape trajectory row are those of ONE acquisition
   of the file, namely the p-th of the kept acquisitions in sorted order; nothing is lost or invented *)
Theorem C14_colocated : forall h l sh d i t, load h l = inr (sh, d, i, t) ->
  length d = length (kept h l) /\
  forall p, (p < length d)%nat ->
    exists a, In a (kept h l) /\ nth_error (load_sorted h l) p = Some a /\
              nth_error d p = Some (did a) /\ nth_error i p = Some (iid a) /\ nth_error t p = Some (tid a).
Proof. exact load_colocated. Qed.
Print Assumptions C14_colocated.

(* the output order is a permutation of the kept acquisitions, sorted by (user7, ..., set, repetition, phase, contrast,
   slice, average, k2, k1) lexicographically *)
Theorem C14_sorted : forall h l,
  Permutation (kept h l) (load_sorted h l) /\ StronglySorted (fun a b => lex_leb (rev (labels a)) (rev (labels b)) = true) (load_sorted h l).
Proof. intros h l. split; [apply load_sorted_perm|apply load_sorted_sorted]. Qed.
Print Assumptions C14_sorted.

(* position = rank: the acquisition at flat (other,k2,k1) position p is the one with exactly p kept acquisitions whose label
   tuple is strictly smaller *)
Theorem C14_position : forall h l p a, NoDup (map labels (kept h l)) -> nth_error (load_sorted h l) p = Some a ->
  length (filter (fun b => negb (acq_leb a b)) (kept h l)) = p.
Proof. exact load_position. Qed.
Print Assumptions C14_position.

(* a complete label grid lands at exactly (i-th other, i-th k2, i-th k1): if the kept acquisitions carry every combination of
   the other-label tuples `others` (strictly increasing in the sort order, user7 most significant), the k2 values `k2s` and the
   k1 values `k1s` (strictly increasing) exactly once, in any file order, then the data are reshaped to
   (|others|, |k2s|, |k1s|) and the readout at (o, i2, i1) has the i1-th k1, the i2-th k2 and the o-th other tuple *)
Theorem C14_grid_position : forall h l others k2s k1s n,
  StronglySorted Z.lt k1s -> StronglySorted Z.lt k2s ->
  StronglySorted (fun a b => lex_leb (rev a) (rev b) = true /\ a <> b) others -> Forall (fun o => length o = n) others ->
  others <> [] -> k2s <> [] -> k1s <> [] ->
  Permutation (map labels (kept h l)) (flat_map (fun o => flat_map (fun k2 => map (fun k1 => k1 :: k2 :: o) k1s) k2s) others) ->
  let no := length others in let n2 := length k2s in let n1 := length k1s in
  (exists d i t, load h l = inr ((Z.of_nat no, Z.of_nat n2, Z.of_nat n1), d, i, t)) /\
  forall o i2 i1, (o < no)%nat -> (i2 < n2)%nat -> (i1 < n1)%nat ->
    exists a, nth_error (load_sorted h l) ((o * n2 + i2) * n1 + i1) = Some a /\
              labels a = nth i1 k1s 0 :: nth i2 k2s 0 :: nth o others [].
Proof. exact load_grid. Qed.
Print Assumptions C14_grid_position.

(* the order of the acquisitions in the file is irrelevant (label tuples of kept acquisitions pairwise distinct) *)
Theorem C14_order_independent : forall h l l', Permutation l l' -> NoDup (map labels (kept h l)) -> load h l = load h l'.
Proof. exact load_perm. Qed.
Print Assumptions C14_order_independent.

(* without the distinctness hypothesis: same shape decision, and the outputs are permutations of each other *)
Theorem C14_order_independent_multiset : forall h l l', Permutation l l' ->
  decide_shape (kept h l) = decide_shape (kept h l') /\ Permutation (load_sorted h l) (load_sorted h l').
Proof.
  intros h l l' P. pose proof (kept_perm h _ _ P) as PK. split; [now apply decide_shape_perm|].
  rewrite <- (load_sorted_perm h l), <- (load_sorted_perm h l'). exact PK.
Qed.
Print Assumptions C14_order_independent_multiset.

(* duplicates: acquisitions that share their label tuple appear in the output in the order they have in the file (np.lexsort is
   stable); together with C14_sorted this determines the output completely also when label tuples repeat *)
Theorem C14_stable_among_equal_labels : forall h l key,
  filter (fun a => list_eqb (labels a) key) (load_sorted h l) = filter (fun a => list_eqb (labels a) key) (kept h l).
Proof. intros h l key. exact (isort_stable key (kept h l)). Qed.
Print Assumptions C14_stable_among_equal_labels.

(* acquisitions rejected by the flag filter may be interleaved anywhere *)
Theorem C14_filter_independent : forall h l1 r l2, is_image_acquisition r = false -> load h (l1 ++ r :: l2) = load h (l1 ++ l2).
Proof. exact load_filter_indep. Qed.
Print Assumptions C14_filter_independent.

Theorem C14_filter_independent_many : forall h l mixed,
  filter is_image_acquisition mixed = filter is_image_acquisition l -> load h mixed = load h l.
Proof. intros h l mixed E. unfold load, kept. now rewrite E. Qed.
Print Assumptions C14_filter_independent_many.

(* ... and so may acquisitions with another coil count (header receiverChannels = n, or no header entry and fewer coils) *)
Theorem C14_coil_filter_independent : forall h n l1 r l2,
  l1 ++ l2 <> [] -> (forall a, In a (l1 ++ l2) -> coils a = n) -> coils r <> n ->
  (h = Some n \/ (h = None /\ coils r < n)) ->
  select_coils h (l1 ++ r :: l2) = select_coils h (l1 ++ l2).
Proof. exact select_coils_indep. Qed.
Print Assumptions C14_coil_filter_independent.

(* which single flags make a readout a non-image readout: noise 19, parallel calibration 20, navigation 23, phase
   correction 24, HP feedback 26, dummy 27, phase stabilisation reference 30, phase stabilisation 31 - and no other *)
Theorem C14_flag_filter : forall n, In n (zrange 65) -> n <> 0 ->
  is_image_flags (flag_mask n) = negb (existsb (Z.eqb n) [19; 20; 23; 24; 26; 27; 30; 31]).
Proof. exact single_flag_rejected. Qed.
Print Assumptions C14_flag_filter.

(* the tables that the translator regenerates from enums.py / acq_filters.py / KData.py on every run (obligations gen_*_ok in
   Gen/kload_gen.v) are the ones the model computes with: OTHER_LABELS = KDIM_SORT_LABELS without the leading k1, k2; the
   default ignore mask is the union of the eight named flags; the reversal / noise bits are flags 22 / 19 *)
Theorem C14_tables_consistent : TablesProof.tables_statement.
Proof. exact TablesProof.tables_consistent. Qed.
Print Assumptions C14_tables_consistent.

(* ---- trajectory calculators ---- *)
Theorem C14_kfreq_centre : forall r j, kfreq r j = 0 <-> j = (if is_reversed r then r_n r - 1 - r_center r else r_center r).
Proof. exact kfreq_zero. Qed.
Print Assumptions C14_kfreq_centre.

Theorem C14_kfreq_reversal : forall r r' j, r_n r = r_n r' -> r_center r = r_center r' -> is_reversed r = true -> is_reversed r' = false ->
  kfreq r j = kfreq r' (r_n r - 1 - j).
Proof. exact kfreq_flip. Qed.
Print Assumptions C14_kfreq_reversal.

Theorem C14_kfreq_step : forall r j, kfreq r (j + 1) - kfreq r j = (if is_reversed r then -1 else 1).
Proof. exact kfreq_step. Qed.
Print Assumptions C14_kfreq_step.

(* a Cartesian trajectory point determines the k1/k2 index of its readout and the sample number *)
Theorem C14_cartesian_agrees : forall c1 c2 r j kz ky kx, cartesian c1 c2 r j = (kz, ky, kx) ->
  r_k2 r = kz + c2 /\ r_k1 r = ky + c1 /\ j = (if is_reversed r then r_n r - 1 - (kx + r_center r) else kx + r_center r).
Proof. exact cartesian_recover. Qed.
Print Assumptions C14_cartesian_agrees.

Theorem C14_radial_agrees : forall angle r j,
  (radial_kx angle r j * radial_kx angle r j + radial_ky angle r j * radial_ky angle r j = IZR (kfreq r j) * IZR (kfreq r j))%R /\
  (kfreq r j = 0 -> radial_kx angle r j = 0%R /\ radial_ky angle r j = 0%R) /\
  (r_k1 r = 0 -> radial_kx angle r j = IZR (kfreq r j) /\ radial_ky angle r j = 0%R).
Proof. intros. split; [apply radial_norm|split; [apply radial_centre|apply radial_spoke0]]. Qed.
Print Assumptions C14_radial_agrees.

Theorem C14_rpe_agrees : forall angle shifts c1 r,
  (rpe_ky angle shifts c1 r * rpe_ky angle shifts c1 r + rpe_kz angle shifts c1 r * rpe_kz angle shifts c1 r
   = Q2R (rpe_krad shifts c1 r) * Q2R (rpe_krad shifts c1 r))%R /\
  (r_k1 r = c1 -> (rpe_krad shifts c1 r == 0)%Q) /\
  (shifts <> [] -> r_k1 r <> c1 ->
   rpe_krad shifts c1 r = (inject_Z (r_k1 r - c1) + nth (Z.to_nat (r_k2 r mod Z.of_nat (length shifts))) shifts 0%Q)%Q).
Proof. intros. split; [apply rpe_norm|split; [apply rpe_centre_unshifted|apply rpe_shift]]. Qed.
Print Assumptions C14_rpe_agrees.

(* finiteness of sequence-file trajectories: the rescaling never divides by zero, a direction without gradients stays 0,
   every rescaled coordinate lies within half the encoding matrix *)
Theorem C14_pulseq_defined : forall enc ks, exists res, pulseq_rescale enc ks = Some res /\ length res = length ks.
Proof. exact pulseq_defined. Qed.
Print Assumptions C14_pulseq_defined.

Theorem C14_pulseq_zero_axis : forall enc n, pulseq_rescale enc (repeat 0%Q n) = Some (repeat 0%Q n).
Proof. exact pulseq_zero_axis. Qed.
Print Assumptions C14_pulseq_zero_axis.

Theorem C14_pulseq_bound : forall enc ks res k', 0 <= enc -> pulseq_rescale enc ks = Some res -> (0 < qabs_max ks)%Q -> In k' res ->
  (Qabs k' <= inject_Z enc / 2)%Q.
Proof. exact pulseq_bound. Qed.
Print Assumptions C14_pulseq_bound.

(* what the guard repairs: without it an all-zero direction is 0/0 *)
Theorem C14_pulseq_unguarded_refuted : forall enc n, pulseq_rescale_unguarded enc (repeat 0%Q n) = None.
Proof. exact pulseq_unguarded_undefined. Qed.
Print Assumptions C14_pulseq_unguarded_refuted.

(* ---- non-vacuity ---- *)
Definition ex_acq (k1 k2 rep fl c id : Z) := mkAcq [k1; k2; 0; 0; 0; 0; rep; 0; 0; 0; 0; 0; 0; 0] fl c id (id + 100) (id + 200).
(* 2 repetitions x 1 k2 x 2 k1 in scrambled order, with an interleaved noise scan and a 1-coil scan *)
Example C14_example_load :
  load (Some 2) [ex_acq 1 0 1 0 2 4; ex_acq 0 0 0 0 2 1; ex_acq 5 0 0 (flag_mask 19) 2 9; ex_acq 1 0 0 0 2 2;
                 ex_acq 0 0 1 0 1 8; ex_acq 0 0 1 (flag_mask 22) 2 3]
  = inr ((2, 1, 2), [1; 2; 3; 4], [101; 102; 103; 104], [201; 202; 203; 204]).
Proof. vm_compute. reflexivity. Qed.

Example C14_example_ragged : (* 3 and 1 k1 lines for k2 = 0, 1: reshaped to (other, k, 1) *)
  load None [ex_acq 2 0 0 0 1 3; ex_acq 0 1 0 0 1 4; ex_acq 0 0 0 0 1 1; ex_acq 1 0 0 0 1 2]
  = inr ((1, 4, 1), [1; 2; 3; 4], [101; 102; 103; 104], [201; 202; 203; 204]).
Proof. vm_compute. reflexivity. Qed.

Example C14_example_cartesian :
  map (cartesian 1 0 (mkReadout 3 2 1 (flag_mask 22) 4)) [0; 1; 2; 3] = [(2, 2, 2); (2, 2, 1); (2, 2, 0); (2, 2, -1)].
Proof. vm_compute. reflexivity. Qed.

(* observation (behaviour of the code, mirrored by the model and compared on real files; outside the hypotheses of
   C14_grid_position): repetition 0 has 1 x 2 lines, repetition 1 has 2 x 2 lines - every (other, k2) pair has 2 lines, so the
   first branch of the shape decision is taken with n_k2 = min count // n_k1 = 1 and the 6 readouts are reshaped to (3, 1, 2):
   still sorted by their labels (C14_sorted), but "other" position 2 holds k2 = 1 of repetition 1 *)
Example C14_example_unequal_counts_per_other :
  load None [ex_acq 0 0 0 0 1 1; ex_acq 1 0 0 0 1 2; ex_acq 0 0 1 0 1 3; ex_acq 1 0 1 0 1 4; ex_acq 0 1 1 0 1 5; ex_acq 1 1 1 0 1 6]
  = inr ((3, 1, 2), [1; 2; 3; 4; 5; 6], [101; 102; 103; 104; 105; 106], [201; 202; 203; 204; 205; 206]).
Proof. vm_compute. reflexivity. Qed.
