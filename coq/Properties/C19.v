(* C19 - Operator-norm estimates are scale-free and respect the stated bounds.

   Model: Model/PowerIter.v (one polymorphic definition of LinearOperator.operator_norm as repaired - normalised start
   vector - working on squared estimates q = <u,Gu>/<u,u>, G = A^H A; and the combination rule of
   LinearOperatorMatrix.operator_norm on squares).  Executed on exact rationals and compared with the implementation by
   harness/props/C19.py on every run.  The estimate returned by the code is sqrt(q); all statements are on squares.

   Convergence for generic start vectors is proved for every operator with a diagonal gram matrix A^H A = diag(g), any size
   (C19_converges_diagonal, C19_loop_estimates); the reduction of a general A to that case (spectral theorem) is not formalised.
   The sum-of-squares bound |M x|^2 <= (sum_ij n_ij^2) |x|^2 is
   proved for every r x c layout (C19_sum_of_squares_bound), the vertical rule for any number of rows. *)
From Coq Require Import List Bool Arith Field Reals.
Import ListNotations.
From MrVerif Require Import Model.CG Model.PowerIter Model.PowerIterLit Proofs.CGProofs Proofs.PowerIterProofs Proofs.PowerIterLitProofs
  Proofs.PowerIterConvergence.

(* the whole outcome of the power iteration (error kind, returned squared estimates per batch element, callback sequence)
   is the same for the start vectors c * v0 and v0, for every c <> 0, every field, every family of homogeneous operators,
   every budget and every stopping test that looks at the estimates only *)
Theorem C19_scale_free : forall (F : Type) (f0 f1 : F) fadd fmul fsub fopp fdiv finv,
  field_theory f0 f1 fadd fmul fsub fopp fdiv finv (@eq F) ->
  forall feqb : F -> F -> bool, (forall a b, feqb a b = true <-> a = b) ->
  forall (close : F -> F -> bool) (c : F), c <> f0 ->
  forall Gs : list (list F -> list F), Forall (homogeneous F fmul) Gs ->
  forall v0s n,
    operator_norm_sq F f0 fadd fmul fdiv feqb close Gs (map (vscale F fmul c) v0s) n
    = operator_norm_sq F f0 fadd fmul fdiv feqb close Gs v0s n.
Proof. intros F f0 f1 fadd fmul fsub fopp fdiv finv Fth feqb Hspec close c Hc Gs HGs. exact (operator_norm_scale_free F f0 f1 fadd fmul fsub fopp fdiv finv Fth feqb Hspec close c Hc Gs HGs). Qed.
Print Assumptions C19_scale_free.

(* a unit vector v: <v, A^H A v> <= s for every s with |A x|^2 <= s |x|^2 for all x (no supremum needed) *)
Theorem C19_below_norm : forall A At : list R -> list R, (forall u w, dotR (A u) w = dotR u (At w)) ->
  forall v s, dotR v v = 1%R -> (forall x, (dotR (A x) (A x) <= s * dotR x x)%R) -> (dotR v (G A At v) <= s)%R.
Proof. exact unit_below_norm. Qed.
Print Assumptions C19_below_norm.

(* the same for the number the model reports: every squared estimate is <= every such s *)
Theorem C19_estimate_below_norm : forall A At u q s, (forall x w, dotR (A x) w = dotR x (At w)) ->
  (forall x, (dotR (A x) (A x) <= s * dotR x x)%R) -> rq R 0%R Rplus Rmult Rdiv Reqb' (G A At) u = Some q -> (q <= s)%R.
Proof. exact model_estimate_below_norm. Qed.
Print Assumptions C19_estimate_below_norm.

(* Cauchy-Schwarz for finite sums (proved here, used twice in C19_monotone) *)
Theorem C19_cauchy_schwarz : forall u v : list R, (dotR u v * dotR u v <= dotR u u * dotR v v)%R.
Proof. exact cauchy_schwarz. Qed.
Print Assumptions C19_cauchy_schwarz.

(* consecutive squared estimates of the model never decrease: q(u) <= q(G u) *)
Theorem C19_monotone : forall A At u q q', (forall x w, dotR (A x) w = dotR x (At w)) ->
  rq R 0%R Rplus Rmult Rdiv Reqb' (G A At) u = Some q -> rq R 0%R Rplus Rmult Rdiv Reqb' (G A At) (G A At u) = Some q' -> (q <= q')%R.
Proof. exact model_estimates_monotone. Qed.
Print Assumptions C19_monotone.

(* ... also across the step the repaired code actually takes (a vanishing G u is not taken over: the estimate repeats) *)
Theorem C19_monotone_step : forall A At u q q', (forall x w, dotR (A x) w = dotR x (At w)) ->
  rq R 0%R Rplus Rmult Rdiv Reqb' (G A At) u = Some q ->
  rq R 0%R Rplus Rmult Rdiv Reqb' (G A At) (next_vec R 0%R Rplus Rmult Reqb' (G A At) u) = Some q' -> (q <= q')%R.
Proof.
  intros A At u q q' Hadj Hq Hq'. unfold next_vec in Hq'. cbv zeta in Hq'.
  destruct (Reqb' (dotR (G A At u) (G A At u)) 0%R).
  - rewrite Hq in Hq'. injection Hq' as <-. apply Rle_refl.
  - exact (model_estimates_monotone A At u q q' Hadj Hq Hq').
Qed.
Print Assumptions C19_monotone_step.

(* no 0/0: with non-zero start vectors the run always ends with estimates (never the nan outcome), for every field, every family of
   operators, every stopping test and every budget >= 1 - in particular for the zero operator and start vectors in the kernel *)
Theorem C19_never_nan : forall (F : Type) (f0 : F) (fadd fmul fdiv : F -> F -> F) (feqb close : F -> F -> bool)
  (Gs : list (list F -> list F)) v0s n, n <> 0%nat -> existsb (fun v => feqb (dot F f0 fadd fmul v v) f0) v0s = false ->
  exists e t, operator_norm_sq F f0 fadd fmul fdiv feqb close Gs v0s n = PDone e t.
Proof. exact operator_norm_never_nan. Qed.
Print Assumptions C19_never_nan.

(* the code, read literally (Model/PowerIterLit.v, regenerated from the source on every run: normalised vector, sqrt of the Rayleigh quotient,
   guarded renormalisation), IS the model above: for every homogeneous G (x |-> A^H A x), stopping test, non-zero start vector and budget >= 1
   the literal run makes the same number of passes and returns / reports the square roots of the model's squared estimates *)
Theorem C19_literal_refines : forall (G : list R -> list R), (forall c u, G (vscaleR c u) = vscaleR c (G u)) ->
  forall (close : R -> R -> bool) x0 n, (0 < dotR x0 x0)%R -> n <> 0%nat ->
  exists e t, operator_norm_sq R 0%R Rplus Rmult Rdiv Reqb' (close2 close) [G] [x0] n = PDone [e] (map (fun q => [q]) t) /\
              lit_operator_norm G close x0 n = (sqrt e, map sqrt t).
Proof. exact lit_operator_norm_refines. Qed.
Print Assumptions C19_literal_refines.

(* the documented 'upper bound' of LinearOperatorMatrix.operator_norm is not one: block row [I I] (open finding KF-02) *)
Theorem C19_matrix_bound_refuted : exists x1 x2 : R,
  matrix_norm_sq R 0%R Rplus Rmax [[1; 1]]%R = 1%R /\ (forall y, ((1 * y) * (1 * y) <= 1 * (y * y))%R) /\
  ((1 * x1 + 1 * x2) * (1 * x1 + 1 * x2) > matrix_norm_sq R 0%R Rplus Rmax [[1; 1]]%R * (x1 * x1 + x2 * x2))%R.
Proof. exact horizontal_rule_refuted. Qed.
Print Assumptions C19_matrix_bound_refuted.

(* the vertical rule is a bound: sum_i |A_i x|^2 <= (sum_i n_i^2) |x|^2, and it is what the model computes for one column *)
Theorem C19_vertical_bound : forall X ys n2s, Forall2 (fun y n2 => (y <= n2 * X)%R) ys n2s -> (rsum ys <= rsum n2s * X)%R.
Proof. exact vertical_rule_bound. Qed.
Print Assumptions C19_vertical_bound.
Theorem C19_vertical_rule_is_sum : forall a b c, matrix_norm_sq R 0%R Rplus Rmax [[a]; [b]] = (a + b)%R /\
  matrix_norm_sq R 0%R Rplus Rmax [[a]; [b]; [c]] = (a + (b + c))%R.
Proof. intros. split; reflexivity. Qed.
Print Assumptions C19_vertical_rule_is_sum.

(* a combination rule that IS a bound, first for the block row [A B]: |A x1 + B x2|^2 <= (a^2 + b^2)(|x1|^2 + |x2|^2) *)
Theorem C19_two_block_bound : forall u v a2 b2 X1 X2, (0 <= a2 -> 0 <= b2 -> 0 <= X1 -> 0 <= X2 ->
  dotR u u <= a2 * X1 -> dotR v v <= b2 * X2 -> dotR (vaddR u v) (vaddR u v) <= (a2 + b2) * (X1 + X2))%R.
Proof. exact horizontal_sum_of_squares_bound. Qed.
Print Assumptions C19_two_block_bound.

(* ... and for every r x c layout: grid = rows of (operator A_ij, bound n_ij^2) with n_ij^2 >= 0 and |A_ij x|^2 <= n_ij^2 |x|^2 for all x;
   the input is the list of parts x_j; row i of the output is sum_j A_ij x_j; |M x|^2 = sum_i |row_i|^2 <= (sum_ij n_ij^2) sum_j |x_j|^2 *)
Theorem C19_sum_of_squares_bound : forall (grid : list (list block)), Forall (Forall norm_ok) grid ->
  forall xs : list (list R), (apply_grid_sq grid xs <= sum_of_squares grid * sqnorms xs)%R.
Proof. exact grid_sum_of_squares_bound. Qed.
Print Assumptions C19_sum_of_squares_bound.

(* "converges to it for generic start vectors": G = A^H A = diag(gs) with 0 <= g_i <= M, M > 0 attained (the squared operator norm), and a
   start vector with a non-zero component along an eigenvector of M: every estimate of the model is defined and the squared estimates
   q_k = <u_k, G u_k>/<u_k, u_k>, u_k = G^k u_0, converge to M.  Any size, any multiplicity of the largest value, any gaps. *)
Theorem C19_converges_diagonal : forall (M : R) (gs u : list R),
  (0 < M)%R -> List.Forall (fun g : R => (0 <= g)%R /\ (g <= M)%R) gs -> length gs = length u ->
  List.Exists (fun ga => fst ga = M /\ snd ga <> 0%R) (combine gs u) ->
  (forall k, exists q, rq R 0%R Rplus Rmult Rdiv Reqb' (dmul gs) (iterG gs k u) = Some q) /\
  Lim_seq.is_lim_seq (fun k => match rq R 0%R Rplus Rmult Rdiv Reqb' (dmul gs) (iterG gs k u) with Some q => q | None => 0%R end) (Rbar.Finite M).
Proof. exact power_iteration_converges. Qed.
Print Assumptions C19_converges_diagonal.

(* ... and these q_k are what the loop of the model reports to the callback, pass after pass (tolerances 0) *)
Theorem C19_loop_estimates : forall (M : R) (gs u : list R),
  (0 < M)%R -> List.Forall (fun g : R => (0 <= g)%R /\ (g <= M)%R) gs -> length gs = length u ->
  List.Exists (fun ga => fst ga = M /\ snd ga <> 0%R) (combine gs u) ->
  forall n k o last,
  snd (ploop R 0%R Rplus Rmult Rdiv Reqb' (fun _ _ => false) [dmul gs] n (mkP [iterG gs k u] [o]) last)
  = map (fun j => [qk gs u (k + j)]) (seq 0 n).
Proof. exact ploop_trace. Qed.
Print Assumptions C19_loop_estimates.

(* ---- non-vacuity: runs of the executed instance ---- *)
From Coq Require Import QArith.
(* diag(3,1) (G = diag(9,1)), start (1,1): squared estimates 5, 365/41, .. increasing towards 9; the same at scale 1024 *)
Example C19_example_run :
  pnormQ [[[9#1;0#1];[0#1;1#1]]] (0#1) (0#1) [[1#1;1#1]] 3 = (0%nat, [(29525,3281)]%Z, [[(5,1)];[(365,41)];[(29525,3281)]]%Z)
  /\ pnormQ [[[9#1;0#1];[0#1;1#1]]] (0#1) (0#1) [[1024#1;1024#1]] 3 = pnormQ [[[9#1;0#1];[0#1;1#1]]] (0#1) (0#1) [[1#1;1#1]] 3.
Proof. vm_compute. split; reflexivity. Qed.
(* zero operator / start vector in the kernel of diag(0,4): the estimates are 0 and stay 0 (before the repair: nan from the second pass on) *)
Example C19_example_kernel :
  pnormQ [[[0#1;0#1];[0#1;0#1]]] (0#1) (0#1) [[1#1;1#1]] 3 = (0%nat, [(0,1)]%Z, [[(0,1)];[(0,1)];[(0,1)]]%Z)
  /\ pnormQ [[[0#1;0#1];[0#1;4#1]]] (0#1) (0#1) [[1#1;0#1]] 2 = (0%nat, [(0,1)]%Z, [[(0,1)];[(0,1)]]%Z).
Proof. vm_compute. split; reflexivity. Qed.
Example C19_example_errors :
  pnormQ [[[1#1]]] (0#1) (0#1) [[0#1]] 3 = (2%nat, [], []) /\ pnormQ [[[1#1]]] (0#1) (0#1) [[1#1]] 0 = (3%nat, [], []).
Proof. vm_compute. split; reflexivity. Qed.
Example C19_example_matrix_rule : matrix_normQ [[1#1;1#1]] = (1,1)%Z /\ matrix_normQ [[1#1;4#1];[2#1;1#1]] = (5,1)%Z.
Proof. vm_compute. split; reflexivity. Qed.
