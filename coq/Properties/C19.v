From MrVerif Require Import Model.CG Model.PowerIter Proofs.PowerIterProofs.
From Coq Require Import QArith List. Import ListNotations.
Example C19_example : matrix_normQ [[1#1;1#1]] = (1,1)%Z.
Proof. vm_compute. reflexivity. Qed.
