From MrVerif Require Import Model.CG Proofs.CGProofs.
From Coq Require Import QArith List. Import ListNotations.
Example C06_example : cgQ_run [[2#1;0#1];[0#1;2#1]] (0#1) [1#1;2#1] None 3 = (0%nat, [(1,2);(1,1)]%Z, [([(1,2);(1,1)], [(0,1);(0,1)], 0%nat)]%Z).
Proof. vm_compute. reflexivity. Qed.
