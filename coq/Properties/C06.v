(* C06 - Conjugate gradient returns the Krylov-optimal iterate and never corrupts it.

   The theorems are about the ONE polymorphic model Model/CG.v (cg.py as repaired: x0 = b and r0 = b - H b when
   initial_value is None; return when <r,r> = 0 before and inside the loop; tolerance test; beta, p, Hp,
   alpha = rr/<p,Hp>; callback trace).  They hold for every field (Section variables + field_theory) and every
   linear operator H, hence for the instance executed by the harness (cgQ: exact rationals Qc, dense matrix) -
   stated separately below, suffix _Qc - and for the reals (R_field_theory, Reqb_spec in Proofs/CGProofsInst.v).
   Complex Hermitian systems are covered through their realification (done by the harness).
   The model is tied to /repo/src/mrpro/algorithms/optimizers/cg.py on every run by harness/props/C06.py.

   Full since the extension round: the span of the step directions IS the Krylov space span{r0, H r0, .., H^(k-1) r0}
   (both inclusions), x_k lies in x0 + K_k and minimises the H-norm error over x0 + K_k (C06_krylov, C06_optimal);
   with tolerance 0 and a budget >= n the run ends with <r,r> = 0 (C06_within_n; via: at most n mutually orthogonal
   vectors with <v,v> <> 0 in F^n, C06_orthogonal_family_bound); the realification used by the harness for complex
   Hermitian systems (theorems C06_realify_...).  Over an abstract field "<r,r> = 0" is the code's own notion of a zero residual; in
   an ordered field (Qc, R) it means r = 0, i.e. H x = b (this last step is not formalised).
   "Inputs untouched" holds by construction of the functional model (nothing is written); the run-time side is checked
   by the harness (values and ._version).  Floating-point rounding ("to working precision") is outside the model. *)
From Coq Require Import List Bool Arith Field QArith Qcanon.
Import ListNotations.
From MrVerif Require Import Model.CG Proofs.CGProofs Proofs.CGProofsInst Proofs.CGProofsRealify.

Section Generic.
  Variable F : Type.
  Variables (f0 f1 : F) (fadd fmul fsub : F -> F -> F) (fopp : F -> F) (fdiv : F -> F -> F) (finv : F -> F).
  Hypothesis Fth : field_theory f0 f1 fadd fmul fsub fopp fdiv finv (@eq F).
  Variables feqb fltb : F -> F -> bool.
  Hypothesis feqb_spec : forall a b, feqb a b = true <-> a = b.
  Variable Hop : list F -> list F.
  Variable tol : F.
  Notation "u +v v" := (vadd F fadd u v) (at level 50, left associativity).
  Notation "u -v v" := (vsub F fsub fopp u v) (at level 50, left associativity).
  Notation "c *v u" := (vscale F fmul c u) (at level 40, left associativity).
  Notation "<< u , v >>" := (dot F f0 fadd fmul u v) (at level 0).
  Notation CG := (cg F f0 fadd fmul fsub fopp fdiv feqb fltb Hop tol).
  Notation RUN := (cg_run F f0 fadd fmul fsub fopp fdiv feqb fltb Hop tol).
  Notation INIT := (cg_init F fsub fopp Hop).
  Notation ITER := (cg_iter F f0 fadd fmul fsub fopp fdiv feqb fltb Hop tol).
  Notation ERR := (errH F f0 fadd fmul fsub fopp Hop).

  Definition linear := (forall u v, Hop (u +v v) = Hop u +v Hop v) /\ (forall c u, Hop (c *v u) = c *v Hop u).
  Definition self_adjoint := forall u v, << u, Hop v >> = << Hop u, v >>.

  (* (1) every (solution, residual, iteration) reported to the callback has residual = b - H solution:
     every linear H (symmetric or not), every b, start value (None included), budget, tolerance *)
  Theorem C06_residual : linear -> forall b x0 n x r k trace res,
    (CG b x0 n = Done res trace \/ CG b x0 n = Diverged trace) -> In (x, r, k) trace -> r = b -v Hop x.
  Proof. intros [Ha Hs]. exact (cg_residual F _ _ _ _ _ _ _ _ Fth feqb fltb feqb_spec Hop Ha Hs tol). Qed.

  (* the callback sees iteration numbers 0,1,2,.. and at most max_iterations calls *)
  Theorem C06_iteration_numbers : forall b x0 n trace res,
    CG b x0 n = Done res trace -> map snd trace = seq 0 (length trace) /\ (length trace <= n)%nat.
  Proof. exact (cg_iteration_numbers F _ _ _ _ _ _ feqb fltb Hop tol). Qed.

  (* (3) no division by zero, whatever the start value, the budget and the tolerance (0 included, also after
     exact convergence): H definite on F^n (u not orthogonal to everything => <u,Hu> <> 0), b in F^n *)
  Theorem C06_finite : forall n, (forall u, length (Hop u) = n) ->
    (forall u w, length u = n -> length w = n -> << u, w >> <> f0 -> << u, Hop u >> <> f0) ->
    forall b x0 m trace, length b = n -> CG b x0 m <> Diverged trace.
  Proof. intros n Hl Hd. exact (cg_finite F _ _ _ _ _ _ _ _ Fth feqb fltb feqb_spec Hop tol n Hl Hd). Qed.

  (* (3') the repaired code never divides by zero at all - any operator (not even linear), any right-hand side, start value, budget and
     tolerance: beta divides by the previous squared residual norm, which was tested non-zero, and a vanishing curvature <p, H p>
     (indefinite operator, or underflow past convergence) returns the current solution instead of 0/0 *)
  Theorem C06_never_diverges : forall b x0 m trace, CG b x0 m <> Diverged trace.
  Proof. exact (cg_never_diverges F _ _ _ _ _ _ feqb fltb feqb_spec Hop tol). Qed.

  (* (4) zero residual is a fixed point: starting at an exact solution returns it untouched without any iteration,
     and a loop state with zero residual returns its solution for every remaining budget *)
  Theorem C06_fixed_point_start : forall b x0 n, Hop x0 = b -> RUN b (Some x0) n = (Some x0, []).
  Proof. exact (cg_exact_start F _ _ _ _ _ _ _ _ Fth feqb fltb feqb_spec Hop tol). Qed.
  Theorem C06_fixed_point_loop : forall fuel st, << sr st, sr st >> = f0 -> ITER fuel st = (Some (sx st), []).
  Proof. exact (cg_iter_fixed_point F _ _ _ _ _ _ feqb fltb feqb_spec Hop tol). Qed.

  (* (2a) H self-adjoint: the direction of every iteration is H-conjugate to all earlier directions *)
  Theorem C06_conjugate : self_adjoint -> forall b x0 m res h, RUN b x0 m = (res, h) ->
    forall h1 s h2, h = h1 ++ s :: h2 -> Forall (fun q => << sp s, Hop q >> = f0) (map sp h1).
  Proof. intros Hs b x0 m res h Hr. exact (cg_conjugate F _ _ _ _ _ _ _ _ Fth feqb fltb feqb_spec Hop tol Hs _ b x0 m res h eq_refl Hr). Qed.

  (* (2b) every residual is orthogonal to all directions used so far and to all earlier residuals *)
  Theorem C06_orthogonal : self_adjoint -> forall b x0 m res h, RUN b x0 m = (res, h) ->
    forall h1 s h2, h = h1 ++ s :: h2 ->
      Forall (fun q => << sr s, q >> = f0) (map sp (h1 ++ [s])) /\
      Forall (fun q => << sr s, q >> = f0) (map sr (INIT b x0 :: h1)).
  Proof.
    intros Hs b x0 m res h Hr h1 s h2 Hh. split.
    - exact (cg_residual_orth_dirs F _ _ _ _ _ _ _ _ Fth feqb fltb feqb_spec Hop tol Hs _ b x0 m res h eq_refl Hr h1 s h2 Hh).
    - exact (cg_residual_orth_res F _ _ _ _ _ _ _ _ Fth feqb fltb feqb_spec Hop tol Hs _ b x0 m res h eq_refl Hr h1 s h2 Hh).
  Qed.

  (* (2c) ordered field, H self-adjoint and positive semi-definite, xs any solution of H xs = b:
     x_k lies in x0 + span{p_0..p_(k-1)} and moving away from x_k inside the span of the directions adds exactly <d,Hd> to
     the squared H-norm error (Pythagoras), in the coefficient-list formulation; the statement over the Krylov space is C06_optimal *)
  Variable fle : F -> F -> Prop.
  Hypothesis fle_add_nonneg : forall a c, fle f0 c -> fle a (fadd a c).
  Theorem C06_pythagoras : linear -> self_adjoint -> (forall d, fle f0 << d, Hop d >>) ->
    forall xs b x0 m res h h1 s h2, RUN b x0 m = (res, h) -> h = h1 ++ s :: h2 -> Hop xs = b ->
    (exists cs, sx s = sx (INIT b x0) +v lincomb F fadd fmul cs (rev (map sp (h1 ++ [s])))) /\
    forall cs, let d := lincomb F fadd fmul cs (map sp (h1 ++ [s])) in
      ERR xs (sx s +v d) = fadd (ERR xs (sx s)) << d, Hop d >> /\ fle (ERR xs (sx s)) (ERR xs (sx s +v d)).
  Proof.
    intros [Ha Hsc] Hs Hp xs b x0 m res h h1 s h2 Hr Hh Hb. split.
    - exact (cg_iterate_in_span F _ _ _ _ _ _ _ _ Fth feqb fltb feqb_spec Hop tol Hs _ b x0 m res h eq_refl Hr h1 s h2 Hh).
    - intros cs d. split.
      + exact (cg_pythagoras F _ _ _ _ _ _ _ _ Fth feqb fltb feqb_spec Hop Ha Hsc tol Hs _ xs b x0 m res h eq_refl Hr h1 s h2 Hh Hb cs).
      + exact (cg_optimal F _ _ _ _ _ _ _ _ Fth feqb fltb feqb_spec Hop Ha Hsc tol Hs _ xs fle fle_add_nonneg Hp b x0 m res h h1 s h2 eq_refl Hr Hh Hb cs).
  Qed.

  (* (2d) the H-norm error never increases from one iterate to the next (start value included) *)
  Theorem C06_monotone : linear -> self_adjoint -> (forall d, fle f0 << d, Hop d >>) ->
    forall xs b x0 m res h l1 s s' l2, RUN b x0 m = (res, h) -> INIT b x0 :: h = l1 ++ s :: s' :: l2 -> Hop xs = b ->
    fle (ERR xs (sx s')) (ERR xs (sx s)).
  Proof.
    intros [Ha Hsc] Hs Hp xs b x0 m res h l1 s s' l2 Hr Hh Hb.
    exact (cg_monotone F _ _ _ _ _ _ _ _ Fth feqb fltb feqb_spec Hop Ha Hsc tol Hs _ xs fle fle_add_nonneg Hp b x0 m res h l1 s s' l2 eq_refl Hr Hh Hb).
  Qed.

  (* ---- vectors of F^n: Krylov space, optimality over x0 + K_k, termination within n steps ---- *)
  Notation SPAN n := (span F f0 fadd fmul n).
  Notation KRY := (kry F Hop).
  Notation R0 b x0 := (sr (INIT b x0)).

  (* (2e) the span of the directions p_0..p_(k-1) equals the Krylov space span{r0, H r0, .., H^(k-1) r0}, k = iterations so far *)
  Theorem C06_krylov : linear -> self_adjoint -> forall n, (forall u, length (Hop u) = n) ->
    forall b x0 m res h, length b = n -> length (sx (INIT b x0)) = n -> RUN b x0 m = (res, h) ->
    forall h1 s h2, h = h1 ++ s :: h2 ->
    forall v, SPAN n (map sp (h1 ++ [s])) v <-> SPAN n (KRY (R0 b x0) (length (h1 ++ [s]))) v.
  Proof.
    intros [Ha Hsc] Hs n Hl b x0 m res h Hb Hx Hr h1 s h2 Hh.
    assert (Hr0 : length (R0 b x0) = n).
    { unfold cg_init. cbn [sr]. rewrite length_vsub, Hl, Hb. apply Nat.max_id. }
    exact (cg_krylov F _ _ _ _ _ _ _ _ Fth feqb fltb feqb_spec Hop Ha Hsc tol n Hl Hs _ (R0 b x0) Hr0 b x0 m res h eq_refl Hx Hb eq_refl Hr h1 s h2 Hh).
  Qed.

  (* (2f) THE optimality statement of C06: x_k lies in x0 + K_k and minimises the H-norm error over x0 + K_k *)
  Theorem C06_optimal : linear -> self_adjoint -> (forall d, fle f0 << d, Hop d >>) -> forall n, (forall u, length (Hop u) = n) ->
    forall xs b x0 m res h, length b = n -> length (sx (INIT b x0)) = n -> RUN b x0 m = (res, h) -> Hop xs = b ->
    forall h1 s h2, h = h1 ++ s :: h2 ->
    (exists d, SPAN n (KRY (R0 b x0) (length (h1 ++ [s]))) d /\ sx s = sx (INIT b x0) +v d) /\
    forall d, SPAN n (KRY (R0 b x0) (length (h1 ++ [s]))) d -> fle (ERR xs (sx s)) (ERR xs (sx (INIT b x0) +v d)).
  Proof.
    intros [Ha Hsc] Hs Hp n Hl xs b x0 m res h Hb Hx Hr Hxs h1 s h2 Hh.
    assert (Hr0 : length (R0 b x0) = n).
    { unfold cg_init. cbn [sr]. rewrite length_vsub, Hl, Hb. apply Nat.max_id. }
    split.
    - exact (cg_iterate_in_krylov F _ _ _ _ _ _ _ _ Fth feqb fltb feqb_spec Hop Ha Hsc tol n Hl Hs _ (R0 b x0) Hr0 b x0 m res h eq_refl Hx Hb eq_refl Hr h1 s h2 Hh).
    - exact (cg_optimal_krylov F _ _ _ _ _ _ _ _ Fth feqb fltb feqb_spec Hop Ha Hsc tol n Hl Hs _ xs fle fle_add_nonneg Hp (R0 b x0) Hr0 b x0 m res h h1 s h2 eq_refl Hx Hb eq_refl Hr Hh Hxs).
  Qed.

  (* (2g) tolerance 0 and budget >= n: the run ends with <r,r> = 0 for the returned x (no division by zero for definite H) *)
  Theorem C06_within_n : linear -> self_adjoint -> forall n, (forall u, length (Hop u) = n) ->
    (forall u w, length u = n -> length w = n -> << u, w >> <> f0 -> << u, Hop u >> <> f0) ->
    tol = f0 -> forall b x0 m, length b = n -> (n <= m)%nat ->
    exists y h, RUN b x0 m = (Some y, h) /\ << b -v Hop y, b -v Hop y >> = f0.
  Proof.
    intros [Ha Hsc] Hs n Hl Hdef Ht b x0 m Hb Hnm.
    pose proof (cg_run_finite F _ _ _ _ _ _ _ _ Fth feqb fltb feqb_spec Hop tol n Hl Hdef b x0 m Hb) as Hfin.
    destruct (RUN b x0 m) as [[y|] h] eqn:Er; [|cbn in Hfin; congruence]. exists y, h. split; [reflexivity|].
    assert (Hr0 : length (R0 b x0) = n).
    { unfold cg_init. cbn [sr]. rewrite length_vsub, Hl, Hb. apply Nat.max_id. }
    exact (cg_exact_within_n F _ _ _ _ _ _ _ _ Fth feqb fltb feqb_spec Hop Ha Hsc tol n Hl Hdef Hs _ (R0 b x0) Hr0 b x0 m y h Ht Hnm Hb eq_refl Er).
  Qed.
End Generic.
Print Assumptions C06_residual.
Print Assumptions C06_iteration_numbers.
Print Assumptions C06_finite.
Print Assumptions C06_never_diverges.
Print Assumptions C06_fixed_point_start.
Print Assumptions C06_fixed_point_loop.
Print Assumptions C06_conjugate.
Print Assumptions C06_orthogonal.
Print Assumptions C06_pythagoras.
Print Assumptions C06_monotone.
Print Assumptions C06_krylov.
Print Assumptions C06_optimal.
Print Assumptions C06_within_n.

(* at most d mutually orthogonal vectors with <v,v> <> 0 in F^d (any field): the dimension argument behind C06_within_n *)
Theorem C06_orthogonal_family_bound : forall (F : Type) (f0 f1 : F) fadd fmul fsub fopp fdiv finv,
  field_theory f0 f1 fadd fmul fsub fopp fdiv finv (@eq F) ->
  forall feqb : F -> F -> bool, (forall a b, feqb a b = true <-> a = b) ->
  forall d (vs : list (list F)), Forall (fun v => length v = d) vs ->
  ForallOrdPairs (fun u v => dot F f0 fadd fmul u v = f0) vs -> Forall (fun v => dot F f0 fadd fmul v v <> f0) vs ->
  (length vs <= d)%nat.
Proof.
  intros F f0 f1 fadd fmul fsub fopp fdiv finv Fth feqb Hspec.
  exact (orthogonal_family_bound F f0 f1 fadd fmul fsub fopp fdiv finv Fth feqb feqb Hspec 0%nat [] eq_refl).
Qed.
Print Assumptions C06_orthogonal_family_bound.

(* realification of a complex Hermitian system H = A + iB (z = x + iy -> x ++ y, H -> [[A,-B],[B,A]]): what the harness does *)
Theorem C06_realify_matvec : forall (F : Type) (f0 f1 : F) fadd fmul fsub fopp fdiv finv,
  field_theory f0 f1 fadd fmul fsub fopp fdiv finv (@eq F) ->
  forall n A B z, rows_ok F n A -> rows_ok F n B -> length A = length B -> length (fst z) = n ->
  matvec F f0 fadd fmul (realify_mat F fopp A B) (realify F z) = realify F (cmatvec F f0 fadd fmul fsub fopp A B z).
Proof. exact realify_matvec. Qed.
Print Assumptions C06_realify_matvec.
Theorem C06_realify_inner : forall (F : Type) (f0 f1 : F) fadd fmul fsub fopp fdiv finv,
  field_theory f0 f1 fadd fmul fsub fopp fdiv finv (@eq F) ->
  forall z w : list F * list F, length (fst z) = length (fst w) ->
  dot F f0 fadd fmul (realify F z) (realify F w) = cdot_re F f0 fadd fmul z w.
Proof. exact realify_inner. Qed.
Print Assumptions C06_realify_inner.
Theorem C06_realify_self_adjoint : forall (F : Type) (f0 f1 : F) fadd fmul fsub fopp fdiv finv,
  field_theory f0 f1 fadd fmul fsub fopp fdiv finv (@eq F) ->
  forall n A B, rows_ok F n A -> rows_ok F n B -> length A = n -> length B = n -> hermitian F f0 fadd fmul fopp n A B ->
  forall z w, length (fst z) = n -> length (snd z) = n -> length (fst w) = n -> length (snd w) = n ->
  dot F f0 fadd fmul (realify F z) (matvec F f0 fadd fmul (realify_mat F fopp A B) (realify F w))
  = dot F f0 fadd fmul (matvec F f0 fadd fmul (realify_mat F fopp A B) (realify F z)) (realify F w).
Proof. exact realify_self_adjoint. Qed.
Print Assumptions C06_realify_self_adjoint.
Theorem C06_realify_alpha_real : forall (F : Type) (f0 f1 : F) fadd fmul fsub fopp fdiv finv,
  field_theory f0 f1 fadd fmul fsub fopp fdiv finv (@eq F) ->
  forall n A B, rows_ok F n A -> rows_ok F n B -> length A = n -> length B = n -> hermitian F f0 fadd fmul fopp n A B ->
  fadd f1 f1 <> f0 -> forall p, length (fst p) = n -> length (snd p) = n ->
  cdot_im F f0 fadd fmul fsub p (cmatvec F f0 fadd fmul fsub fopp A B p) = f0 /\
  cdot_re F f0 fadd fmul p (cmatvec F f0 fadd fmul fsub fopp A B p)
  = dot F f0 fadd fmul (realify F p) (matvec F f0 fadd fmul (realify_mat F fopp A B) (realify F p)).
Proof. exact realify_alpha_real. Qed.
Print Assumptions C06_realify_alpha_real.

(* ---- the same statements for the instance that is executed against the implementation (cgQ) ---- *)
Theorem C06_residual_Qc : forall M tol b x0 n x r k trace res,
  (cgQ M tol b x0 n = Done res trace \/ cgQ M tol b x0 n = Diverged trace) -> In (x, r, k) trace -> r = vsubQ b (mvQ M x).
Proof. exact cgQ_residual. Qed.
Print Assumptions C06_residual_Qc.

Theorem C06_finite_Qc : forall n M tol b x0 m trace, length M = n -> pdQ n M -> length b = n -> cgQ M tol b x0 m <> Diverged trace.
Proof. exact cgQ_finite. Qed.
Print Assumptions C06_finite_Qc.

Theorem C06_optimal_Qc : forall n M tol xs b x0 m res h h1 s h2, length M = n -> symQ M -> psdQ M ->
  length b = n -> length (sx (initQ M b x0)) = n ->
  runQ M tol b x0 m = (res, h) -> h = h1 ++ s :: h2 -> mvQ M xs = b ->
  (exists d, spanQ n (kryQ M (sr (initQ M b x0)) (length (h1 ++ [s]))) d /\ sx s = vaddQ (sx (initQ M b x0)) d) /\
  forall d, spanQ n (kryQ M (sr (initQ M b x0)) (length (h1 ++ [s]))) d ->
    (errHQ M xs (sx s) <= errHQ M xs (vaddQ (sx (initQ M b x0)) d))%Qc.
Proof. exact cgQ_optimal_krylov. Qed.
Print Assumptions C06_optimal_Qc.

Theorem C06_within_n_Qc : forall n M b x0 m, length M = n -> symQ M -> pdQ n M -> length b = n -> (n <= m)%nat ->
  exists y h, runQ M (Q2Qc 0) b x0 m = (Some y, h) /\ dotQ (vsubQ b (mvQ M y)) (vsubQ b (mvQ M y)) = Q2Qc 0.
Proof. exact cgQ_within_n. Qed.
Print Assumptions C06_within_n_Qc.

Theorem C06_monotone_Qc : forall M tol xs b x0 m res h l1 s s' l2, symQ M -> psdQ M ->
  runQ M tol b x0 m = (res, h) -> initQ M b x0 :: h = l1 ++ s :: s' :: l2 -> mvQ M xs = b ->
  (errHQ M xs (sx s') <= errHQ M xs (sx s))%Qc.
Proof. exact cgQ_monotone. Qed.
Print Assumptions C06_monotone_Qc.

(* ---- non-vacuity: runs of the model ---- *)
(* initial_value = None starts at x0 = b with r0 = b - H b (the repaired behaviour): H = 2I, b = (1,2), one iteration *)
Example C06_example_none_init :
  cgQ_run [[2#1;0#1];[0#1;2#1]] (0#1) [1#1;2#1] None 1 = (0%nat, [(1,2);(1,1)]%Z, [([(1,2);(1,1)], [(0,1);(0,1)], 0%nat)]%Z).
Proof. vm_compute. reflexivity. Qed.
(* tolerance 0 after exact convergence with budget left: finite result, one callback (was 0/0 before the repair) *)
Example C06_example_tol0_exact :
  cgQ_run [[1#1]] (0#1) [1#1] (Some [0#1]) 5 = (0%nat, [(1,1)]%Z, [([(1,1)], [(0,1)], 0%nat)]%Z).
Proof. vm_compute. reflexivity. Qed.
(* a 2x2 SPD system is solved in two steps; residual of the last step is exactly 0 *)
Example C06_example_2x2 :
  cgQ_run [[4#1;1#1];[1#1;3#1]] (0#1) [1#1;2#1] (Some [0#1;0#1]) 5
  = (0%nat, [(1,11);(7,11)]%Z, [([(1,4);(1,2)], [(-1,2);(1,4)], 0%nat); ([(1,11);(7,11)], [(0,1);(0,1)], 1%nat)]%Z).
Proof. vm_compute. reflexivity. Qed.
(* an indefinite H with <p,Hp> = 0: the repaired code returns the start value (before the repair: 0/0, outcome 1 = non-finite) *)
Example C06_example_indefinite_stops :
  cgQ_run [[0#1;1#1];[1#1;0#1]] (0#1) [1#1;0#1] (Some [0#1;0#1]) 5 = (0%nat, [(0,1);(0,1)]%Z, []).
Proof. vm_compute. reflexivity. Qed.
(* shape mismatch = ValueError *)
Example C06_example_shape : cgQ_run [[1#1]] (0#1) [1#1] (Some [0#1;0#1]) 5 = (2%nat, [], []).
Proof. vm_compute. reflexivity. Qed.
