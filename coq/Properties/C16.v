From Coq Require Import QArith List.
From MrVerif Require Import Model.Voronoi1D Model.Voronoi2D Proofs.Voronoi1DProofs Proofs.Voronoi2DProofs.
