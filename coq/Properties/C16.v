(* C16 - Voronoi density compensation has the invariances of cell volumes.

   Models: Model/Voronoi1D.v (dcf_1d as coded: unique / inverse / counts, central differences with the edge rule) and
   Model/Voronoi2D.v (2-D path of dcf_2d3d_voronoi as half-plane clipping + shoelace + outlier rule + counts, and the
   decomposition of DcfData.from_traj_voronoi).  They are tied to /repo on every run by the correspondence families
   of harness/props/C16.py (dcf_1d, dcf_2d, from_traj_voronoi).

   Full theorems: everything about the 1-D code (incl. the telescoping sum of interior weights); invariances of the shoelace
   area; soundness of clipping; additivity of the signed shoelace area under cutting (every vertex list, every proper
   half-plane) and the resulting dissection of the start box into the kept polygon (vertices in the cell) and the pieces cut
   off (vertices beyond the cutting bisector); the start box contains the cell; equivariance of the cell predicate; product
   layouts; exactness / positivity of the modelled outlier replacement.
   NOT proved (decided by correspondence / implementation-level oracles only): region-level completeness of clipping
   (every point of the cell is a convex combination of the polygon's vertices) and the measure-theoretic step from the
   dissection to "2-D weight = Lebesgue area of the cell" (see C16_2d_polygon_in_cell_partial, C16_2d_cell_dissection);
   order independence of the clipped polygon; the 3-D qhull path; numpy's percentile arithmetic is modelled, not verified. *)
From Coq Require Import QArith Qabs List Permutation.
From Coq Require Import Sorted.
From MrVerif Require Import Model.Voronoi1D Model.Voronoi2D Proofs.Voronoi1DProofs Proofs.Voronoi2DProofs Proofs.Voronoi2DArea Proofs.Voronoi2DOutlier.
Import ListNotations.
Open Scope Q_scope.

(* ===================== 1-D ===================== *)

(* the code (sort, unique, conv1d, edge rule, /counts, [inverse]) computes, for every sample, the length assigned to its
   value by its nearest lower / upper neighbour among all samples, divided by its multiplicity; lists of any length *)
Theorem C16_1d_code_eq_weight : forall l, Forall2 Qeq (dcf_1d l) (map (weight l) l).
Proof. exact dcf_1d_eq_weight. Qed.
Print Assumptions C16_1d_code_eq_weight.

(* positive (hence defined) as soon as there are two distinct values *)
Theorem C16_1d_positive : forall l, (exists x y, In x l /\ In y l /\ ~ x == y) -> Forall (Qlt 0) (dcf_1d l).
Proof. exact dcf_1d_positive. Qed.
Print Assumptions C16_1d_positive.

(* permutation equivariance: the weight of a sample is a function of its value and the multiset of samples *)
Theorem C16_1d_weight_perm : forall l l' x, Permutation l l' -> weight l x == weight l' x.
Proof. exact weight_perm. Qed.
Print Assumptions C16_1d_weight_perm.

Theorem C16_1d_permutation : forall l l', Permutation l l' -> Forall2 Qeq (dcf_1d l') (map (weight l) l').
Proof. exact dcf_1d_perm. Qed.
Print Assumptions C16_1d_permutation.

(* scaling k-space by a <> 0 multiplies every weight by |a| *)
Theorem C16_1d_scaling : forall a l, ~ a == 0 -> (exists x y, In x l /\ In y l /\ ~ x == y) ->
  Forall2 Qeq (dcf_1d (map (Qmult a) l)) (map (Qmult (Qabs a)) (dcf_1d l)).
Proof. exact dcf_1d_scale. Qed.
Print Assumptions C16_1d_scaling.

(* translation invariance (all samples, edges included) *)
Theorem C16_1d_translation : forall t l, Forall2 Qeq (dcf_1d (map (Qplus t) l)) (dcf_1d l).
Proof. exact dcf_1d_translate. Qed.
Print Assumptions C16_1d_translation.

(* coincident samples get the same weight and together carry exactly the cell *)
Theorem C16_1d_split : forall l x y, In x l -> x == y ->
  weight l x == weight l y /\ qnat (count x l) * weight l x == cell_len l x.
Proof. intros l x y Hx E. split; [apply weight_compat; exact E | apply weight_split; exact Hx]. Qed.
Print Assumptions C16_1d_split.

(* interior sample with nearest neighbours a < x < b: the samples at x share (b - a)/2, the length of the Voronoi cell *)
Theorem C16_1d_interior : forall l x a b, In x l ->
  InQ a l -> InQ b l -> a < x -> x < b ->
  (forall s, In s l -> s < x -> s <= a) -> (forall s, In s l -> x < s -> b <= s) ->
  qnat (count x l) * weight l x == (b - a) / 2 /\
  (forall y, cell1 l x y <-> a + x <= 2 * y <= x + b).
Proof.
  intros l x a b Hx Ia Ib La Lb Ma Mb. split.
  - rewrite weight_split by exact Hx. apply cell_len_interior; assumption.
  - intros y. apply cell1_interior; assumption.
Qed.
Print Assumptions C16_1d_interior.

(* sorted distinct samples: the code returns the central differences themselves, and the interior weights telescope to the
   length they cover: from the midpoint of the first gap to the midpoint of the last gap *)
Theorem C16_1d_sorted_code : forall l, StronglySorted Qlt l -> Forall2 Qeq (dcf_1d l) (central_diff l).
Proof. exact dcf_1d_sorted. Qed.
Print Assumptions C16_1d_sorted_code.

Theorem C16_1d_interior_sum : forall l, StronglySorted Qlt l -> (3 <= length l)%nat ->
  qsum1 (removelast (tl (dcf_1d l)))
  == (nth (length l - 1) l 0 + nth (length l - 2) l 0) / 2 - (nth 0 l 0 + nth 1 l 0) / 2.
Proof. exact dcf_1d_interior_sum. Qed.
Print Assumptions C16_1d_interior_sum.

(* ===================== 2-D ===================== *)

(* shoelace area: translation invariant, |det|-equivariant under any linear map, a^2 under isotropic scaling,
   invariant under rotations and reflections *)
Theorem C16_shoelace_translation : forall t l, area (map (tr t) l) == area l.
Proof. exact area_translate. Qed.
Print Assumptions C16_shoelace_translation.

Theorem C16_shoelace_linear : forall a b c d l, area (map (lin a b c d) l) == Qabs (a * d - b * c) * area l.
Proof. exact area_lin. Qed.
Print Assumptions C16_shoelace_linear.

Theorem C16_shoelace_scaling : forall a l, area (map (lin a 0 0 a) l) == a * a * area l.
Proof. exact area_scale. Qed.
Print Assumptions C16_shoelace_scaling.

Theorem C16_shoelace_rotation : forall a b c d l, a * d - b * c == 1 -> area (map (lin a b c d) l) == area l.
Proof. exact area_rotation. Qed.
Print Assumptions C16_shoelace_rotation.

(* clipping: every vertex of the polygon computed for p lies in the Voronoi cell of p w.r.t. all other sites (and in every
   half-plane bounding the start box).  PARTIAL w.r.t. "weight = area of the cell": the converse inclusion (completeness of
   Sutherland-Hodgman for convex input) is not proved; it is covered by the dcf_2d correspondence family only. *)
Theorem C16_2d_polygon_in_cell_partial : forall box p others x, In x (cell_poly box p others) -> cell2 others p x.
Proof. exact cell_poly_sound. Qed.
Print Assumptions C16_2d_polygon_in_cell_partial.

Theorem C16_2d_polygon_in_box : forall g box p others x, Forall (sat g) box -> In x (cell_poly box p others) -> sat g x.
Proof. exact cell_poly_in_box. Qed.
Print Assumptions C16_2d_polygon_in_box.

(* cutting is additive for the signed shoelace area, for EVERY vertex list and every proper half-plane: the kept piece and
   the piece cut off (the clip against the complementary closed half-plane) together have the signed area of the input *)
Theorem C16_2d_clip_area_additive : forall h l, ~ n2 h == 0 ->
  shoelace2 (clip h l) + shoelace2 (clip (negh h) l) == shoelace2 l.
Proof. exact clip_area_additive. Qed.
Print Assumptions C16_2d_clip_area_additive.

Theorem C16_2d_clip_area_additive_abs : forall h l,
  ~ n2 h == 0 -> 0 <= shoelace2 (clip h l) -> 0 <= shoelace2 (clip (negh h) l) ->
  area (clip h l) + area (clip (negh h) l) == area l.
Proof. exact clip_area_additive_abs. Qed.
Print Assumptions C16_2d_clip_area_additive_abs.

(* hence the construction of a cell is a dissection of the start box: signed area of the box = signed area of the polygon kept
   for p + signed areas of the pieces cut off; every vertex of the kept polygon is in the cell of p (above), every vertex of
   a piece cut off is at least as close to the site that cut it as to p, and all pieces stay inside the box.
   Together: the shoelace value is pinned between "inside the cell" and "box minus the pieces that are outside the open
   cell".  What is still NOT a theorem is the last, purely measure-theoretic step (shoelace of a polygon with vertices in a
   convex set = Lebesgue measure of a subset of it), so "weight = Lebesgue area of the cell" stays informal. *)
Theorem C16_2d_cell_dissection : forall p others box, (forall q, In q others -> ~ peq p q) ->
  shoelace2 box == shoelace2 (cell_poly box p others) + qsum2 (map shoelace2 (discarded box p others)).
Proof. intros p others box. apply cell_poly_dissection. Qed.
Print Assumptions C16_2d_cell_dissection.

Theorem C16_2d_discarded_far : forall p others box D, In D (discarded box p others) ->
  exists q, In q others /\ Forall (fun x => dist2 x q <= dist2 x p) D.
Proof. exact discarded_far. Qed.
Print Assumptions C16_2d_discarded_far.

Theorem C16_2d_discarded_in_box : forall g p others box D,
  Forall (sat g) box -> In D (discarded box p others) -> Forall (sat g) D.
Proof. exact discarded_in_box. Qed.
Print Assumptions C16_2d_discarded_in_box.

(* the start box loses nothing: with the far corner sites of the code (10 * max|k|) the cell of every real site lies in
   the box [-20 m, 20 m]^2 from which the clipping starts *)
Theorem C16_2d_cell_in_start_box : forall m p x, 0 < m -> - m <= fst p <= m -> - m <= snd p <= m ->
  cell2 (corners m) p x -> (- (20 * m) <= fst x <= 20 * m) /\ (- (20 * m) <= snd x <= 20 * m).
Proof. exact cell_in_bigbox. Qed.
Print Assumptions C16_2d_cell_in_start_box.

(* the cell itself (as a set) is equivariant: order of the sites, translations, rotations / reflections, scalings *)
Theorem C16_cell2_permutation : forall P P' p x, Permutation P P' -> (cell2 P p x <-> cell2 P' p x).
Proof. exact cell2_perm. Qed.
Print Assumptions C16_cell2_permutation.

Theorem C16_cell2_translation : forall t P p x, cell2 (map (tr t) P) (tr t p) (tr t x) <-> cell2 P p x.
Proof. exact cell2_translate. Qed.
Print Assumptions C16_cell2_translation.

Theorem C16_cell2_rotation : forall a b c d P p x, a * a + c * c == 1 -> b * b + d * d == 1 -> a * b + c * d == 0 ->
  (cell2 (map (lin a b c d) P) (lin a b c d p) (lin a b c d x) <-> cell2 P p x).
Proof. exact cell2_rotation. Qed.
Print Assumptions C16_cell2_rotation.

Theorem C16_cell2_scaling : forall a P p x, ~ a == 0 ->
  (cell2 (map (lin a 0 0 a) P) (lin a 0 0 a p) (lin a 0 0 a x) <-> cell2 P p x).
Proof. exact cell2_scale. Qed.
Print Assumptions C16_cell2_scaling.

(* separable layouts: the cell of a product layout is the product of the 1-D cells, so multiplying the 1-D factors is right *)
Theorem C16_product_cell : forall X Y px py x y, In px X -> In py Y ->
  (cell2 (list_prod X Y) (px, py) (x, y) <-> cell1 X px x /\ cell1 Y py y).
Proof. exact cell2_product. Qed.
Print Assumptions C16_product_cell.

(* ===================== the IQR outlier rule (as modelled) ===================== *)
(* exactly the cells whose area is above the fence q3 + 1.5 IQR are replaced, all by the same fill value; the others are
   returned unchanged *)
Theorem C16_outlier_replaced_exactly : forall dcf,
  Forall2 (fun v w => (fence dcf < v -> w = fillv dcf) /\ (v <= fence dcf -> w = v)) dcf (replace_outliers dcf).
Proof. exact replace_outliers_exact. Qed.
Print Assumptions C16_outlier_replaced_exactly.

(* the fill value is the mean of a non-empty slice of the sorted areas consisting of accepted areas only: it lies between
   the smallest area and the fence (the rule needs one accepted area; that holds whenever the list is non-empty, not proved) *)
Theorem C16_outlier_fill_bounds : forall dcf lo hi,
  Forall (fun v => lo <= v /\ v <= hi) dcf -> (exists v, In v dcf /\ v <= fence dcf) ->
  lo <= fillv dcf /\ fillv dcf <= hi.
Proof. exact fill_bounds. Qed.
Print Assumptions C16_outlier_fill_bounds.

Theorem C16_outlier_fill_accepted : forall dcf, (exists v, In v dcf /\ v <= fence dcf) ->
  fillv dcf <= fence dcf /\ (forall x, In x (top_of dcf) -> In x dcf /\ x <= fence dcf).
Proof. intros dcf H. split; [apply fill_le_fence; exact H | intros x; apply top_of_accepted]. Qed.
Print Assumptions C16_outlier_fill_accepted.

(* positivity survives the outlier rule *)
Theorem C16_outlier_positive : forall dcf,
  Forall (Qlt 0) dcf -> (exists v, In v dcf /\ v <= fence dcf) -> Forall (Qlt 0) (replace_outliers dcf).
Proof. exact replace_outliers_positive. Qed.
Print Assumptions C16_outlier_positive.

(* ===================== from_traj_voronoi: the decomposition is NOT representation independent ===================== *)
(* ky constant along k0 stored as (1,5,1) [broadcast] or (1,5,5) [dense], kx = 2 j + i/2 (sheared lines, (1,5,5)):
   the same 25 samples.  Broadcast: kx is the only non-singleton tensor along k0 -> 1-D factor 2, and kx, ky share k1 ->
   joint Voronoi over all 25 points, area 2: centre weight 4.  Dense: joint part only: 2 (the true cell area).
   Replayed on the implementation: known finding KF-C16-1. *)
Definition ex_kz : ktensor := {| kshape := [1; 1; 1]%nat; kdata := [0] |}.
Definition ex_ky : ktensor := {| kshape := [1; 5; 1]%nat; kdata := [-2; -1; 0; 1; 2] |}.
Definition ex_ky_dense : ktensor :=
  {| kshape := [1; 5; 5]%nat; kdata := flat_map (fun v => [v; v; v; v; v]) [-2; -1; 0; 1; 2] |}.
Definition ex_kx : ktensor :=
  {| kshape := [1; 5; 5]%nat;
     kdata := flat_map (fun i => map (fun j => 2 * j + i / 2) [-2; -1; 0; 1; 2]) [-2; -1; 0; 1; 2] |}.

Theorem C16_from_traj_decomposition_refuted :
  map (kget ex_ky) (all_idx [1; 5; 5]%nat) = map (kget ex_ky_dense) (all_idx [1; 5; 5]%nat) /\
  option_map (fun r => nth 12 (snd r) 0) (from_traj [ex_kz; ex_ky; ex_kx]) = Some 4 /\
  option_map (fun r => nth 12 (snd r) 0) (from_traj [ex_kz; ex_ky_dense; ex_kx]) = Some 2.
Proof. vm_compute. repeat split. Qed.
Print Assumptions C16_from_traj_decomposition_refuted.

(* ===================== non-vacuity ===================== *)
Example C16_example_1d :
  dcf_1d [0; 1; 3; 3; 7; -2] = [6 # 4; 6 # 4; 12 # 8; 12 # 8; 4; 2]
  /\ map Qred (map (weight [0; 1; 3; 3; 7; -2]) [0; 1; 3; 3; 7; -2]) = [3 # 2; 3 # 2; 3 # 2; 3 # 2; 4; 2].
Proof. vm_compute. split; reflexivity. Qed.

(* 3 x 3 unit grid: the centre cell is the unit square, area 1; a sheared lattice with basis (2,0), (1/2,1): area 2 *)
Example C16_example_2d :
  let g := flat_map (fun i => map (fun j => (i, j)) [-1; 0; 1]) [-1; 0; 1] in
  nth 4 (cell_areas g) 0 = 1 /\
  Qred (area (cell_poly (bigbox 1) (0, 0) (filter (fun q => negb (pt_eqb (0, 0) q)) (g ++ corners 1)))) = 1 /\
  (* vertices repeat where a bisector passes through an existing vertex; this does not change the area *)
  cell_poly (bigbox 1) (0, 0) (filter (fun q => negb (pt_eqb (0, 0) q)) (g ++ corners 1))
    = [(1 # 2, -1 # 2); (1 # 2, 1 # 2); (-1 # 2, 1 # 2); (-1 # 2, 1 # 2); (-1 # 2, -1 # 2); (-1 # 2, -1 # 2); (1 # 2, -1 # 2)].
Proof. vm_compute. repeat split. Qed.

Example C16_example_from_traj_cartesian :
  (* two 1-D factors with spacings 2 and 3: interior weight 6 *)
  option_map (fun r => nth 4 (snd r) 0)
    (from_traj [ex_kz; {| kshape := [1; 3; 1]%nat; kdata := [0; 2; 4] |}; {| kshape := [1; 1; 3]%nat; kdata := [3; 0; -3] |}])
  = Some 6.
Proof. vm_compute. reflexivity. Qed.

(* the dissection on the 3 x 3 unit grid: box area 1600 = cell 1 + the twelve pieces cut off, all with the same orientation *)
Example C16_example_dissection :
  let g := flat_map (fun i => map (fun j => (i, j)) [-1; 0; 1]) [-1; 0; 1] in
  let others := filter (fun q => negb (pt_eqb (0, 0) q)) (g ++ corners 1) in
  Qred (shoelace2 (bigbox 1)) = 3200 /\
  Qred (shoelace2 (cell_poly (bigbox 1) (0, 0) others)) = 2 /\
  Qred (qsum2 (map shoelace2 (discarded (bigbox 1) (0, 0) others))) = 3198 /\
  forallb (fun D => Qle_bool 0 (shoelace2 D)) (discarded (bigbox 1) (0, 0) others) = true /\
  length (discarded (bigbox 1) (0, 0) others) = 12%nat.
Proof. vm_compute. repeat split. Qed.
