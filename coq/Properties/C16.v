(* C16 - Voronoi density compensation has the invariances of cell volumes.

   Models: Model/Voronoi1D.v (dcf_1d as coded: unique / inverse / counts, central differences with the edge rule) and
   Model/Voronoi2D.v (2-D path of dcf_2d3d_voronoi as half-plane clipping + shoelace + outlier rule + counts, and the
   decomposition of DcfData.from_traj_voronoi).  They are tied to /repo on every run by the correspondence families
   of harness/props/C16.py (dcf_1d, dcf_2d, from_traj_voronoi).

   Full theorems: everything about the 1-D code; invariances of the shoelace area; soundness of clipping; equivariance of
   the cell predicate; product layouts.
   NOT proved (decided by correspondence / implementation-level oracles only):  completeness of clipping
   (polygon = cell, hence "2-D weight = cell area" as a theorem - see C16_2d_polygon_in_cell_partial), order-independence
   of the clipped polygon, the 3-D qhull path, and the IQR outlier rule (modelled and executed, not reasoned about). *)
From Coq Require Import QArith Qabs List Permutation.
From MrVerif Require Import Model.Voronoi1D Model.Voronoi2D Proofs.Voronoi1DProofs Proofs.Voronoi2DProofs.
Import ListNotations.
Open Scope Q_scope.

(* ===================== 1-D ===================== *)

(* the code (sort, unique, conv1d, edge rule, /counts, [inverse]) computes, for every sample, the length assigned to its
   value by its nearest lower / upper neighbour among all samples, divided by its multiplicity; lists of any length *)
Theorem C16_1d_code_eq_weight : forall l, Forall2 Qeq (dcf_1d l) (map (weight l) l).
Proof. exact dcf_1d_eq_weight. Qed.
Print Assumptions C16_1d_code_eq_weight.

(* positive (hence defined) as soon as there are two distinct values *)
Theorem C16_1d_positive : forall l, (exists x y, In x l /\ In y l /\ ~ x == y) -> Forall (Qlt 0) (dcf_1d l).
Proof. exact dcf_1d_positive. Qed.
Print Assumptions C16_1d_positive.

(* permutation equivariance: the weight of a sample is a function of its value and the multiset of samples *)
Theorem C16_1d_weight_perm : forall l l' x, Permutation l l' -> weight l x == weight l' x.
Proof. exact weight_perm. Qed.
Print Assumptions C16_1d_weight_perm.

Theorem C16_1d_permutation : forall l l', Permutation l l' -> Forall2 Qeq (dcf_1d l') (map (weight l) l').
Proof. exact dcf_1d_perm. Qed.
Print Assumptions C16_1d_permutation.

(* scaling k-space by a <> 0 multiplies every weight by |a| *)
Theorem C16_1d_scaling : forall a l, ~ a == 0 -> (exists x y, In x l /\ In y l /\ ~ x == y) ->
  Forall2 Qeq (dcf_1d (map (Qmult a) l)) (map (Qmult (Qabs a)) (dcf_1d l)).
Proof. exact dcf_1d_scale. Qed.
Print Assumptions C16_1d_scaling.

(* translation invariance (all samples, edges included) *)
Theorem C16_1d_translation : forall t l, Forall2 Qeq (dcf_1d (map (Qplus t) l)) (dcf_1d l).
Proof. exact dcf_1d_translate. Qed.
Print Assumptions C16_1d_translation.

(* coincident samples get the same weight and together carry exactly the cell *)
Theorem C16_1d_split : forall l x y, In x l -> x == y ->
  weight l x == weight l y /\ qnat (count x l) * weight l x == cell_len l x.
Proof. intros l x y Hx E. split; [apply weight_compat; exact E | apply weight_split; exact Hx]. Qed.
Print Assumptions C16_1d_split.

(* interior sample with nearest neighbours a < x < b: the samples at x share (b - a)/2, the length of the Voronoi cell *)
Theorem C16_1d_interior : forall l x a b, In x l ->
  InQ a l -> InQ b l -> a < x -> x < b ->
  (forall s, In s l -> s < x -> s <= a) -> (forall s, In s l -> x < s -> b <= s) ->
  qnat (count x l) * weight l x == (b - a) / 2 /\
  (forall y, cell1 l x y <-> a + x <= 2 * y <= x + b).
Proof.
  intros l x a b Hx Ia Ib La Lb Ma Mb. split.
  - rewrite weight_split by exact Hx. apply cell_len_interior; assumption.
  - intros y. apply cell1_interior; assumption.
Qed.
Print Assumptions C16_1d_interior.

(* ===================== 2-D ===================== *)

(* shoelace area: translation invariant, |det|-equivariant under any linear map, a^2 under isotropic scaling,
   invariant under rotations and reflections *)
Theorem C16_shoelace_translation : forall t l, area (map (tr t) l) == area l.
Proof. exact area_translate. Qed.
Print Assumptions C16_shoelace_translation.

Theorem C16_shoelace_linear : forall a b c d l, area (map (lin a b c d) l) == Qabs (a * d - b * c) * area l.
Proof. exact area_lin. Qed.
Print Assumptions C16_shoelace_linear.

Theorem C16_shoelace_scaling : forall a l, area (map (lin a 0 0 a) l) == a * a * area l.
Proof. exact area_scale. Qed.
Print Assumptions C16_shoelace_scaling.

Theorem C16_shoelace_rotation : forall a b c d l, a * d - b * c == 1 -> area (map (lin a b c d) l) == area l.
Proof. exact area_rotation. Qed.
Print Assumptions C16_shoelace_rotation.

(* clipping: every vertex of the polygon computed for p lies in the Voronoi cell of p w.r.t. all other sites (and in every
   half-plane bounding the start box).  PARTIAL w.r.t. "weight = area of the cell": the converse inclusion (completeness of
   Sutherland-Hodgman for convex input) is not proved; it is covered by the dcf_2d correspondence family only. *)
Theorem C16_2d_polygon_in_cell_partial : forall box p others x, In x (cell_poly box p others) -> cell2 others p x.
Proof. exact cell_poly_sound. Qed.
Print Assumptions C16_2d_polygon_in_cell_partial.

Theorem C16_2d_polygon_in_box : forall g box p others x, Forall (sat g) box -> In x (cell_poly box p others) -> sat g x.
Proof. exact cell_poly_in_box. Qed.
Print Assumptions C16_2d_polygon_in_box.

(* the start box loses nothing: with the far corner sites of the code (10 * max|k|) the cell of every real site lies in
   the box [-20 m, 20 m]^2 from which the clipping starts *)
Theorem C16_2d_cell_in_start_box : forall m p x, 0 < m -> - m <= fst p <= m -> - m <= snd p <= m ->
  cell2 (corners m) p x -> (- (20 * m) <= fst x <= 20 * m) /\ (- (20 * m) <= snd x <= 20 * m).
Proof. exact cell_in_bigbox. Qed.
Print Assumptions C16_2d_cell_in_start_box.

(* the cell itself (as a set) is equivariant: order of the sites, translations, rotations / reflections, scalings *)
Theorem C16_cell2_permutation : forall P P' p x, Permutation P P' -> (cell2 P p x <-> cell2 P' p x).
Proof. exact cell2_perm. Qed.
Print Assumptions C16_cell2_permutation.

Theorem C16_cell2_translation : forall t P p x, cell2 (map (tr t) P) (tr t p) (tr t x) <-> cell2 P p x.
Proof. exact cell2_translate. Qed.
Print Assumptions C16_cell2_translation.

Theorem C16_cell2_rotation : forall a b c d P p x, a * a + c * c == 1 -> b * b + d * d == 1 -> a * b + c * d == 0 ->
  (cell2 (map (lin a b c d) P) (lin a b c d p) (lin a b c d x) <-> cell2 P p x).
Proof. exact cell2_rotation. Qed.
Print Assumptions C16_cell2_rotation.

Theorem C16_cell2_scaling : forall a P p x, ~ a == 0 ->
  (cell2 (map (lin a 0 0 a) P) (lin a 0 0 a p) (lin a 0 0 a x) <-> cell2 P p x).
Proof. exact cell2_scale. Qed.
Print Assumptions C16_cell2_scaling.

(* separable layouts: the cell of a product layout is the product of the 1-D cells, so multiplying the 1-D factors is right *)
Theorem C16_product_cell : forall X Y px py x y, In px X -> In py Y ->
  (cell2 (list_prod X Y) (px, py) (x, y) <-> cell1 X px x /\ cell1 Y py y).
Proof. exact cell2_product. Qed.
Print Assumptions C16_product_cell.

(* ===================== from_traj_voronoi: the decomposition is NOT representation independent ===================== *)
(* ky constant along k0 stored as (1,5,1) [broadcast] or (1,5,5) [dense], kx = 2 j + i/2 (sheared lines, (1,5,5)):
   the same 25 samples.  Broadcast: kx is the only non-singleton tensor along k0 -> 1-D factor 2, and kx, ky share k1 ->
   joint Voronoi over all 25 points, area 2: centre weight 4.  Dense: joint part only: 2 (the true cell area).
   Replayed on the implementation: known finding KF-C16-1. *)
Definition ex_kz : ktensor := {| kshape := [1; 1; 1]%nat; kdata := [0] |}.
Definition ex_ky : ktensor := {| kshape := [1; 5; 1]%nat; kdata := [-2; -1; 0; 1; 2] |}.
Definition ex_ky_dense : ktensor :=
  {| kshape := [1; 5; 5]%nat; kdata := flat_map (fun v => [v; v; v; v; v]) [-2; -1; 0; 1; 2] |}.
Definition ex_kx : ktensor :=
  {| kshape := [1; 5; 5]%nat;
     kdata := flat_map (fun i => map (fun j => 2 * j + i / 2) [-2; -1; 0; 1; 2]) [-2; -1; 0; 1; 2] |}.

Theorem C16_from_traj_decomposition_refuted :
  map (kget ex_ky) (all_idx [1; 5; 5]%nat) = map (kget ex_ky_dense) (all_idx [1; 5; 5]%nat) /\
  option_map (fun r => nth 12 (snd r) 0) (from_traj [ex_kz; ex_ky; ex_kx]) = Some 4 /\
  option_map (fun r => nth 12 (snd r) 0) (from_traj [ex_kz; ex_ky_dense; ex_kx]) = Some 2.
Proof. vm_compute. repeat split. Qed.
Print Assumptions C16_from_traj_decomposition_refuted.

(* ===================== non-vacuity ===================== *)
Example C16_example_1d :
  dcf_1d [0; 1; 3; 3; 7; -2] = [6 # 4; 6 # 4; 12 # 8; 12 # 8; 4; 2]
  /\ map Qred (map (weight [0; 1; 3; 3; 7; -2]) [0; 1; 3; 3; 7; -2]) = [3 # 2; 3 # 2; 3 # 2; 3 # 2; 4; 2].
Proof. vm_compute. split; reflexivity. Qed.

(* 3 x 3 unit grid: the centre cell is the unit square, area 1; a sheared lattice with basis (2,0), (1/2,1): area 2 *)
Example C16_example_2d :
  let g := flat_map (fun i => map (fun j => (i, j)) [-1; 0; 1]) [-1; 0; 1] in
  nth 4 (cell_areas g) 0 = 1 /\
  Qred (area (cell_poly (bigbox 1) (0, 0) (filter (fun q => negb (pt_eqb (0, 0) q)) (g ++ corners 1)))) = 1 /\
  (* vertices repeat where a bisector passes through an existing vertex; this does not change the area *)
  cell_poly (bigbox 1) (0, 0) (filter (fun q => negb (pt_eqb (0, 0) q)) (g ++ corners 1))
    = [(1 # 2, -1 # 2); (1 # 2, 1 # 2); (-1 # 2, 1 # 2); (-1 # 2, 1 # 2); (-1 # 2, -1 # 2); (-1 # 2, -1 # 2); (1 # 2, -1 # 2)].
Proof. vm_compute. repeat split. Qed.

Example C16_example_from_traj_cartesian :
  (* two 1-D factors with spacings 2 and 3: interior weight 6 *)
  option_map (fun r => nth 4 (snd r) 0)
    (from_traj [ex_kz; {| kshape := [1; 3; 1]%nat; kdata := [0; 2; 4] |}; {| kshape := [1; 1; 3]%nat; kdata := [3; 0; -3] |}])
  = Some 6.
Proof. vm_compute. reflexivity. Qed.
