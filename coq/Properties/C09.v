(* C09 - elementary operators compute exactly their documented mathematical action. *)
From MrVerif Require Import Base.Prelude Base.StarRing Base.Sums Model.OpAlg Model.ZeroPad Model.ElemOps
  Proofs.OpAlgProofs Proofs.ElemOpsProofs Proofs.AlongProofs Proofs.ElemOpsWf Proofs.ZeroPadProofs
  Model.Wavelet Proofs.WaveletProofs Proofs.WaveletWf Proofs.WaveletPRProofs Proofs.AlongGramProofs Proofs.Wavelet2DGramProofs Proofs.Wavelet3DGramProofs.

(* zero padding / cropping keeps the centre sample at index n//2, for all sizes of either parity *)
Theorem C09_pad_centre : forall (R : StarRing) old new (x : nat -> R), (0 < old)%nat -> (0 < new)%nat ->
  pad_vec old new x (new / 2)%nat = x (old / 2)%nat.
Proof. exact zeropad_centre. Qed.
Print Assumptions C09_pad_centre.

Theorem C09_crop_after_pad : forall (R : StarRing) old new (x : nat -> R) j, (old <= new)%nat -> (j < old)%nat ->
  pad_vec new old (pad_vec old new x) j = x j.
Proof. exact zeropad_crop_after_pad. Qed.
Print Assumptions C09_crop_after_pad.

(* the same on the Z-indexed model that is tied to the source text by the translator (Gen/zeropad_gen.v) *)
Theorem C09_pad_centre_Z : forall (zero : Z) old new (x : Z -> Z), 0 < old -> 0 < new ->
  pad1 zero old new x (new / 2) = x (old / 2).
Proof. exact (@pad1_centre Z). Qed.
Print Assumptions C09_pad_centre_Z.

(* Cartesian sampling: S S^H = identity on unique in-range samples; zero fill elsewhere; S^H S = multiplication by the
   mask S^H S 1, which is 0/1 without repeated samples *)
Theorem C09_sampling_SSH : forall (R : StarRing) nr ns (g : nat -> option nat) (y : nat -> R) s r,
  (s < ns)%nat -> g s = Some r -> (r < nr)%nat -> (forall s', (s' < ns)%nat -> g s' = Some r -> s' = s) ->
  gather nr g (scatter_add ns g y) s = y s.
Proof. exact sampling_SSH. Qed.
Print Assumptions C09_sampling_SSH.

Theorem C09_sampling_zero_fill : forall (R : StarRing) nr (g : nat -> option nat) (x : nat -> R) s,
  (g s = None \/ exists r, g s = Some r /\ (nr <= r)%nat) -> gather nr g x s = k0.
Proof. exact sampling_zero_fill. Qed.
Print Assumptions C09_sampling_zero_fill.

Theorem C09_sampling_gram_mask : forall (R : StarRing) nr ns (g : nat -> option nat) (x : nat -> R) r, (r < nr)%nat ->
  scatter_add ns g (gather nr g x) r = kmul (scatter_add ns g (gather nr g (fun _ => k1)) r) (x r).
Proof. exact sampling_gram_mask. Qed.
Print Assumptions C09_sampling_gram_mask.

Theorem C09_sampling_mask_01 : forall (R : StarRing) nr ns (g : nat -> option nat) r, (r < nr)%nat ->
  (forall s s', (s < ns)%nat -> (s' < ns)%nat -> g s = Some r -> g s' = Some r -> s = s') ->
  scatter_add ns g (gather nr g (fun _ => (k1 : R))) r = k1 \/ scatter_add ns g (gather nr g (fun _ => (k1 : R))) r = k0.
Proof. exact sampling_mask_01. Qed.
Print Assumptions C09_sampling_mask_01.

(* finite differences: the three stencils with zero (None) or circular boundary *)
Theorem C09_findiff_forward : forall (R : StarRing) circ n (x : nat -> R) i,
  stencil3 circ n k0 (kopp k1) k1 x i = ksub (at_opt n x (succc circ n i)) (x i).
Proof. exact findiff_forward_spec. Qed.
Print Assumptions C09_findiff_forward.
Theorem C09_findiff_backward : forall (R : StarRing) circ n (x : nat -> R) i,
  stencil3 circ n (kopp k1) k1 k0 x i = ksub (x i) (at_opt n x (predc circ n i)).
Proof. exact findiff_backward_spec. Qed.
Print Assumptions C09_findiff_backward.
Theorem C09_findiff_central : forall (R : StarRing) circ n (h : R) (x : nat -> R) i,
  stencil3 circ n (kopp h) k0 h x i = kmul h (ksub (at_opt n x (succc circ n i)) (at_opt n x (predc circ n i))).
Proof. exact findiff_central_spec. Qed.
Print Assumptions C09_findiff_central.

(* the dense operator acts as its matrix (EinsumOp, PCA): matrix_of (matop M) = M *)
Theorem C09_matrix : forall (R : StarRing) m n (M : nat -> nat -> R) i j, (j < n)%nat ->
  matrix_of (fwd (matop m n M)) i j = M i j.
Proof. exact matop_matrix. Qed.
Print Assumptions C09_matrix.

Example C09_example_5_to_8 : pad_vec (R:=ZRing) 5 8 (fun i => Z.of_nat i + 10)%Z 4%nat = 12%Z
  /\ map (pad_vec (R:=ZRing) 8 5 (fun i => Z.of_nat i)) (seq 0 5) = [2;3;4;5;6]%Z.
Proof. vm_compute. split; reflexivity. Qed.

(* ---- WaveletOp: "for orthogonal wavelets it is an isometry with W^H W = identity".  Filter-bank model of ptwt's zero-mode transform
   (Model/Wavelet.v, tied to the code by family wavelet_filter_bank of C01 and translator T-W): if the filter pairs satisfy the
   perfect-reconstruction condition - a finite condition on the filters alone: for both parities p and every shift d,
   sum over k = p (mod 2), k' = k + d of (rec_lo k * dec_lo~ k' + rec_hi k * dec_hi~ k') = c [d = 0] - then waverec after wavedec is c
   times the identity, for EVERY signal length (even or odd), one level.  Orthonormal filter banks have c = 1. ---- *)
Theorem C09_wavelet_perfect_reconstruction : forall (R : StarRing) L n (flo fhi glo ghi : nat -> R) (c : R), (0 < L)%nat ->
  pr_cond L flo fhi glo ghi c ->
  forall (x : nat -> R) t, (t < n)%nat -> adj (dwt1 L n flo fhi glo ghi) (fwd (dwt1 L n flo fhi glo ghi) x) t = kmul c (x t).
Proof. exact dwt1_perfect_reconstruction. Qed.
Print Assumptions C09_wavelet_perfect_reconstruction.
(* all levels, orthonormal banks (c = 1): waverec (wavedec x) = x, i.e. W^H W = identity, for every number of levels and every signal length *)
Theorem C09_wavelet_isometry : forall (R : StarRing) level L n (flo fhi glo ghi : nat -> R), (0 < L)%nat ->
  pr_cond L flo fhi glo ghi k1 ->
  forall (x : nat -> R) t, (t < n)%nat ->
    adj (wavedec_op level L n flo fhi glo ghi) (fwd (wavedec_op level L n flo fhi glo ghi) x) t = x t.
Proof. exact wavedec_perfect_reconstruction. Qed.
Print Assumptions C09_wavelet_isometry.
(* the condition is decidable for concrete filters: the boolean test implies it *)
Theorem C09_wavelet_pr_test_sound : forall L flo fhi glo ghi c, (0 < L)%nat ->
  pr_cond_b L flo fhi glo ghi c = true -> pr_cond (R:=ZRing) L flo fhi glo ghi c.
Proof. exact pr_cond_b_sound. Qed.
Print Assumptions C09_wavelet_pr_test_sound.
(* non-vacuity: the Haar filters scaled to integers (dec_lo = (1,1), dec_hi = (-1,1), rec_lo = (1,1), rec_hi = (1,-1)) satisfy the condition
   with c = 2 (the orthonormal Haar filters are these divided by sqrt 2: c = 1), and W^H W = 2 I is what the model computes on a signal of odd length *)
Example C09_wavelet_haar :
  pr_cond_b 2 (zvec (rev [1;1])) (zvec (rev [-1;1])) (zvec [1;1]) (zvec [1;-1]) 2 = true /\
  let A := wavedec_Z 1 2 5 [1;1] [-1;1] [1;1] [1;-1] in
  map (fun t => adj A (fwd A (fun i => Z.of_nat i * 3 - 4)%Z) t) (seq 0 5) = map (fun t => (2 * (Z.of_nat t * 3 - 4))%Z) (seq 0 5).
Proof. vm_compute. split; reflexivity. Qed.

(* ---- N-D from 1-D: A^H A = c * identity is inherited by the operator applied along one axis of a row-major (pre, n, post) tensor ---- *)
Theorem C09_along_axis_gram : forall (R : StarRing) pre post (A : linop R) (c : R), (0 < post)%nat -> (0 < dom A)%nat -> wf A ->
  (forall x k, (k < dom A)%nat -> adj A (fwd A x) k = kmul c (x k)) ->
  forall x j, (j < pre * (dom A * post))%nat -> adj (along pre post A) (fwd (along pre post A) x) j = kmul c (x j).
Proof. exact along_gram_scalar. Qed.
Print Assumptions C09_along_axis_gram.
(* ... hence crop-after-pad along any axis of an N-D tensor is the identity (ZeroPadOp.adjoint after ZeroPadOp.forward) *)
Theorem C09_crop_after_pad_along_axis : forall (R : StarRing) pre post old new, (0 < post)%nat -> (0 < old)%nat -> (old <= new)%nat ->
  forall (x : nat -> R) j, (j < pre * (old * post))%nat ->
  adj (along pre post (zeropad_op (R:=R) old new)) (fwd (along pre post (zeropad_op (R:=R) old new)) x) j = x j.
Proof. exact crop_after_pad_along. Qed.
Print Assumptions C09_crop_after_pad_along_axis.
(* ... and an orthonormal wavelet transform of any depth applied along one axis stays an isometry *)
Theorem C09_wavelet_isometry_along_axis : forall (R : StarRing) pre post level L n (flo fhi glo ghi : nat -> R),
  (0 < post)%nat -> (0 < n)%nat -> (0 < L)%nat -> pr_cond L flo fhi glo ghi k1 ->
  forall (x : nat -> R) j, (j < pre * (n * post))%nat ->
  adj (along pre post (wavedec_op level L n flo fhi glo ghi)) (fwd (along pre post (wavedec_op level L n flo fhi glo ghi)) x) j = x j.
Proof. exact wavelet_isometry_along. Qed.
Print Assumptions C09_wavelet_isometry_along_axis.

(* ---- two dimensions (wavedec2 / waverec2): one level gives c^2 times the identity under the perfect-reconstruction condition, and for
   orthonormal filter banks W^H W = identity at every number of levels, for every image size ---- *)
Theorem C09_wavelet_2d_gram : forall (R : StarRing) L n1 n2 (flo fhi glo ghi : nat -> R) (c : R),
  (2 <= L)%nat -> (1 <= n1)%nat -> (1 <= n2)%nat -> pr_cond L flo fhi glo ghi c ->
  forall x j, (j < n1 * (n2 * 1))%nat ->
    adj (dwt2 L n1 n2 flo fhi glo ghi) (fwd (dwt2 L n1 n2 flo fhi glo ghi) x) j = kmul c (kmul c (x j)).
Proof. exact dwt2_gram. Qed.
Print Assumptions C09_wavelet_2d_gram.
Theorem C09_wavelet_2d_isometry : forall (R : StarRing) level L n1 n2 (flo fhi glo ghi : nat -> R),
  (2 <= L)%nat -> (1 <= n1)%nat -> (1 <= n2)%nat -> pr_cond L flo fhi glo ghi k1 ->
  forall x j, (j < n1 * (n2 * 1))%nat ->
    adj (wavedec2_op level L n1 n2 flo fhi glo ghi) (fwd (wavedec2_op level L n1 n2 flo fhi glo ghi) x) j = x j.
Proof. exact wavedec2_isometry. Qed.
Print Assumptions C09_wavelet_2d_isometry.

(* ---- three dimensions (wavedec3 / waverec3): one level gives c^3 times the identity under the perfect-reconstruction condition, and for
   orthonormal filter banks W^H W = identity at every number of levels, for every volume size ---- *)
Theorem C09_wavelet_3d_gram : forall (R : StarRing) L n1 n2 n3 (flo fhi glo ghi : nat -> R) (c : R),
  (2 <= L)%nat -> (1 <= n1)%nat -> (1 <= n2)%nat -> (1 <= n3)%nat -> pr_cond L flo fhi glo ghi c ->
  forall x j, (j < (n1 * n2) * (n3 * 1))%nat ->
    adj (dwt3 L n1 n2 n3 flo fhi glo ghi) (fwd (dwt3 L n1 n2 n3 flo fhi glo ghi) x) j = kmul c (kmul c (kmul c (x j))).
Proof. exact dwt3_gram. Qed.
Print Assumptions C09_wavelet_3d_gram.
Theorem C09_wavelet_3d_isometry : forall (R : StarRing) level L n1 n2 n3 (flo fhi glo ghi : nat -> R),
  (2 <= L)%nat -> (1 <= n1)%nat -> (1 <= n2)%nat -> (1 <= n3)%nat -> pr_cond L flo fhi glo ghi k1 ->
  forall x j, (j < (n1 * n2) * (n3 * 1))%nat ->
    adj (wavedec3_op level L n1 n2 n3 flo fhi glo ghi) (fwd (wavedec3_op level L n1 n2 n3 flo fhi glo ghi) x) j = x j.
Proof. exact wavedec3_isometry. Qed.
Print Assumptions C09_wavelet_3d_isometry.
(* non-vacuity in 2-D and 3-D: with the integer Haar filters (c = 2) the executed model gives W^H W = 4 I on a 3 x 5 image and 8 I on a
   2 x 3 x 3 volume (odd sizes: the zero-padded border is exercised), as C09_wavelet_2d_gram / C09_wavelet_3d_gram state *)
Example C09_wavelet_haar_2d_3d :
  (let A := wavedec2_Z 1 2 3 5 [1;1] [-1;1] [1;1] [1;-1] in
   map (fun t => adj A (fwd A (fun i => Z.of_nat i * Z.of_nat i - 7)%Z) t) (seq 0 15) = map (fun t => (4 * (Z.of_nat t * Z.of_nat t - 7))%Z) (seq 0 15)) /\
  (let A := wavedec3_Z 1 2 2 3 3 [1;1] [-1;1] [1;1] [1;-1] in
   map (fun t => adj A (fwd A (fun i => Z.of_nat i * Z.of_nat i - 7)%Z) t) (seq 0 18) = map (fun t => (8 * (Z.of_nat t * Z.of_nat t - 7))%Z) (seq 0 18)).
Proof. vm_compute. split; reflexivity. Qed.
(* non-vacuity beyond orthogonal banks: the biorthogonal bior2.2 filters scaled to integers (dec_lo * 8/sqrt2, dec_hi * 4/sqrt2, rec_lo * 4/sqrt2,
   rec_hi * 8/sqrt2) satisfy pr_cond with c = 16 although rec is not the reversed dec (so waverec is a left inverse of wavedec but not its
   adjoint: finding KF-01 of C01); the executed model gives 16 x in 1-D and 256 x in 2-D, as the _gram theorems state *)
Example C09_wavelet_bior22 :
  pr_cond_b 6 (zvec (rev [0;-1;2;6;2;-1])) (zvec (rev [0;1;-2;1;0;0])) (zvec [0;1;2;1;0;0]) (zvec [0;1;2;-6;2;1]) 16 = true /\
  filters_match_b [0;-1;2;6;2;-1] [0;1;2;1;0;0] = false /\
  (let A := wavedec_Z 1 6 7 [0;-1;2;6;2;-1] [0;1;-2;1;0;0] [0;1;2;1;0;0] [0;1;2;-6;2;1] in
   map (fun t => adj A (fwd A (fun i => Z.of_nat i * Z.of_nat i - 5)%Z) t) (seq 0 7) = map (fun t => (16 * (Z.of_nat t * Z.of_nat t - 5))%Z) (seq 0 7)) /\
  (let A := wavedec2_Z 1 6 3 4 [0;-1;2;6;2;-1] [0;1;-2;1;0;0] [0;1;2;1;0;0] [0;1;2;-6;2;1] in
   map (fun t => adj A (fwd A (fun i => Z.of_nat i * Z.of_nat i - 5)%Z) t) (seq 0 12) = map (fun t => (256 * (Z.of_nat t * Z.of_nat t - 5))%Z) (seq 0 12)).
Proof. vm_compute. repeat split; reflexivity. Qed.
