(* C02 - linear operators are linear: superposition for forward and adjoint, closure, action = matrix action. *)
From MrVerif Require Import Base.Prelude Base.StarRing Base.Sums Model.OpAlg Model.ElemOps
  Proofs.OpAlgProofs Proofs.ElemOpsProofs Proofs.AlongProofs Proofs.ElemOpsWf Model.Wavelet Proofs.WaveletWf.

(* wf A: forward and adjoint satisfy f(a x + b y) = a f x + b f y for all scalars of the ring (complex ones included)
   and depend only on the entries of the vector *)
Theorem C02_closure : forall (R : StarRing) (t : tree R), well_shaped t -> leaves_ok wf t -> wf (den t).
Proof. exact closure_wf. Qed.
Print Assumptions C02_closure.

Theorem C02_zero_to_zero : forall (R : StarRing) n m (f : (nat -> R) -> nat -> R),
  linear_map m f -> ext_map n m f -> forall i, (i < m)%nat -> f (fun _ => k0) i = k0.
Proof. exact linear_zero. Qed.
Print Assumptions C02_zero_to_zero.

(* the action on any input equals the action of the matrix obtained from basis vectors *)
Theorem C02_matrix_action : forall (R : StarRing) n m (f : (nat -> R) -> nat -> R),
  linear_map m f -> ext_map n m f -> forall x i, (i < m)%nat -> f x i = sum n (fun j => kmul (matrix_of f i j) (x j)).
Proof. exact matrix_action. Qed.
Print Assumptions C02_matrix_action.

Theorem C02_elementary : forall (R : StarRing),
  (forall m n (M : nat -> nat -> R), wf (matop m n M)) /\
  (forall nr ns idx, wf (cart_sampling (R:=R) nr ns idx)) /\
  (forall old new, wf (zeropad_op (R:=R) old new)) /\
  (forall n p q, wf (perm_op (R:=R) n p q)) /\
  (forall n d, wf (diag_op (R:=R) n d)) /\
  (forall ncoil npix csm, (0 < npix)%nat -> wf (sens_op (R:=R) ncoil npix csm)) /\
  (forall circ n (a b c : R), wf (findiff_op circ n a b c)).
Proof.
  intros R. repeat split; intros;
    first [apply matop_wf|apply cart_sampling_wf|apply zeropad_wf|apply perm_wf|apply diag_wf|apply sens_wf; assumption|apply findiff_wf].
Qed.
Print Assumptions C02_elementary.

(* WaveletOp (filter-bank model of Model/Wavelet.v, 1-D, any number of levels, any filters): forward (wavedec) and adjoint (waverec) are linear *)
Theorem C02_wavelet : forall (R : StarRing) level L n (flo fhi glo ghi : nat -> R), wf (wavedec_op level L n flo fhi glo ghi).
Proof. exact wavedec_wf. Qed.
Print Assumptions C02_wavelet.

Theorem C02_wavelet_2d : forall (R : StarRing) level L n1 n2 (flo fhi glo ghi : nat -> R), (2 <= L)%nat -> (1 <= n1)%nat -> (1 <= n2)%nat ->
  wf (wavedec2_op level L n1 n2 flo fhi glo ghi).
Proof. exact wavedec2_wf. Qed.
Print Assumptions C02_wavelet_2d.

Theorem C02_wavelet_3d : forall (R : StarRing) level L n1 n2 n3 (flo fhi glo ghi : nat -> R), (2 <= L)%nat -> (1 <= n1)%nat -> (1 <= n2)%nat -> (1 <= n3)%nat ->
  wf (wavedec3_op level L n1 n2 n3 flo fhi glo ghi).
Proof. exact wavedec3_wf. Qed.
Print Assumptions C02_wavelet_3d.

(* N-D: an operator applied along one axis of a row-major (pre, n, post) tensor stays linear *)
Theorem C02_along_axis : forall (R : StarRing) pre post (A : linop R),
  (0 < post)%nat -> (0 < dom A)%nat -> (0 < ran A)%nat -> wf A -> wf (along pre post A).
Proof. exact along_wf. Qed.
Print Assumptions C02_along_axis.

Example C02_example : wf (den (TSum (Leaf (zeropad_op (R:=GRing) 3 3)) (TProdR (R:=GRing) (fun _ => ((0, 1)%Z : G)) (Leaf (findiff_op (R:=GRing) true 3 ((0,0)%Z : G) ((-1,0)%Z : G) ((1,0)%Z : G)))))).
Proof. apply closure_wf; cbn; repeat split; first [apply zeropad_wf|apply findiff_wf]. Qed.
